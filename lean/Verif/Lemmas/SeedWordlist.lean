/-
C20, regenerated tie: what the kernel checks about the data that `vh srcfacts` extracts from
`/repo/wallet/seed.go` into `Verif/Extracted/Wordlist.lean` on every run.

* the BIP-39 table has 2048 entries, is strictly sorted (hence without duplicates: `wordMap` is a
  bijection onto `0..2047`) and every word is a non-empty string of `a`…`z` (hence contains no
  white space and survives `strings.Fields`; an upper-case variant is not a word);
* the integer literals of `bip39checksum`, `encodeBIP39Phrase`, `decodeBIP39Phrase` and
  `KeyFromSeed` are, in source order, the constants the model uses; the byte-order selectors are
  the ones the model assumes (`BigEndian` for the entropy, `LittleEndian` for the key index).

If `seed.go` changes so that one of these no longer holds, this file stops compiling and the
check reports the broken obligation.
-/
import Verif.Lemmas.Seed
import Verif.Extracted.Wordlist

namespace Verif.Seed

/-! ### general: the decidable checks imply `GoodList` -/

theorem ltW_irrefl (a : List Nat) : ltW a a = false := by
  induction a with
  | nil => rfl
  | cons x xs ih => simp [ltW, ih]

theorem ltW_trans : ∀ a b c : List Nat, ltW a b = true → ltW b c = true → ltW a c = true
  | [], [], _, h, _ => by simp [ltW] at h
  | [], _ :: _, [], _, h => by simp [ltW] at h
  | [], _ :: _, _ :: _, _, _ => by simp [ltW]
  | _ :: _, [], _, h, _ => by simp [ltW] at h
  | _ :: _, _ :: _, [], _, h => by simp [ltW] at h
  | x :: xs, y :: ys, z :: zs, h1, h2 => by
    simp only [ltW] at h1 h2 ⊢
    by_cases hxy : x < y
    · by_cases hyz : y < z
      · simp [show x < z by omega]
      · by_cases hzy : z < y
        · simp [hyz, hzy] at h2
        · have : y = z := by omega
          subst this; simp [hxy]
    · by_cases hyx : y < x
      · simp [hxy, hyx] at h1
      · have : x = y := by omega
        subst this
        simp only [hxy, if_false] at h1
        by_cases hxz : x < z
        · simp [hxz]
        · by_cases hzx : z < x
          · simp [hxz, hzx] at h2
          · simp only [hxz, hzx, if_false] at h2 ⊢
            exact ltW_trans xs ys zs h1 h2

theorem sortedW_head_lt (a : List Nat) (l : List (List Nat)) (h : sortedW (a :: l) = true) :
    ∀ b ∈ l, ltW a b = true := by
  induction l generalizing a with
  | nil => intro b hb; simp at hb
  | cons c l ih =>
    simp only [sortedW, Bool.and_eq_true] at h
    intro b hb
    rcases List.mem_cons.mp hb with rfl | hb
    · exact h.1
    · exact ltW_trans a c b h.1 (ih c h.2 b hb)

theorem sortedW_tail (a : List Nat) (l : List (List Nat)) (h : sortedW (a :: l) = true) :
    sortedW l = true := by
  cases l with
  | nil => rfl
  | cons c l => simp only [sortedW, Bool.and_eq_true] at h; exact h.2

/-- strictly sorted ⇒ no duplicates -/
theorem nodup_of_sortedW (l : List (List Nat)) (h : sortedW l = true) : l.Nodup := by
  induction l with
  | nil => exact List.nodup_nil
  | cons a l ih =>
    rw [List.nodup_cons]
    refine ⟨?_, ih (sortedW_tail a l h)⟩
    intro hm
    have := sortedW_head_lt a l h a hm
    rw [ltW_irrefl] at this
    cases this

theorem isSpace_lower (c : Nat) (h1 : 97 ≤ c) (h2 : c ≤ 122) : isSpace c = false := by
  simp only [isSpace, Bool.or_eq_false_iff, beq_eq_false_iff_ne, Bool.and_eq_false_iff,
    decide_eq_false_iff_not]
  omega

/-- lower-case ⇒ a token -/
theorem tokOk_of_lowerW (w : List Nat) (h : lowerW w = true) : TokOk w := by
  simp only [lowerW, Bool.and_eq_true, Bool.not_eq_true', List.isEmpty_eq_false_iff,
    List.all_eq_true, decide_eq_true_eq] at h
  exact ⟨h.1, fun c hc => isSpace_lower c (h.2 c hc).1 (h.2 c hc).2⟩

theorem goodList_of_checks (wl : List (List Nat)) (h1 : wl.length = 2048) (h2 : sortedW wl = true)
    (h3 : wl.all lowerW = true) : GoodList wl :=
  ⟨h1, nodup_of_sortedW wl h2, fun w hw => tokOk_of_lowerW w (List.all_eq_true.mp h3 w hw)⟩

/-- a token with a character outside `a`…`z` is not in a lower-case list -/
theorem not_mem_of_not_lower (wl : List (List Nat)) (h3 : wl.all lowerW = true) (t : List Nat)
    (c : Nat) (hc : c ∈ t) (hn : ¬ (97 ≤ c ∧ c ≤ 122)) : t ∉ wl := by
  intro hm
  have := List.all_eq_true.mp h3 t hm
  simp only [lowerW, Bool.and_eq_true, List.all_eq_true, decide_eq_true_eq] at this
  exact hn (this.2 c hc)

/-! ### the extracted data (kernel evaluation of the Boolean checks) -/

open Verif.Extracted.Seed in
theorem wordlist_length : wordlist.length = 2048 := by decide +kernel

open Verif.Extracted.Seed in
theorem wordlist_sorted : sortedW wordlist = true := by decide +kernel

open Verif.Extracted.Seed in
theorem wordlist_lower : wordlist.all lowerW = true := by decide +kernel

theorem wordlist_good : GoodList Verif.Extracted.Seed.wordlist :=
  goodList_of_checks _ wordlist_length wordlist_sorted wordlist_lower

/-- the literals of the source are the model's constants, in source order -/
theorem checksumLits_eq : Verif.Extracted.Seed.checksumLits = checksumLits := by decide
theorem encodeLits_eq : Verif.Extracted.Seed.encodeLits = encodeLits := by decide
theorem decodeLits_eq : Verif.Extracted.Seed.decodeLits = decodeLits := by decide
theorem keyFromSeedLits_eq : Verif.Extracted.Seed.keyFromSeedLits = keyFromSeedLits := by decide

/-- the entropy is read and written big-endian, the phrase is joined / split by the `strings`
functions the model mirrors, the key index is written little-endian in front of BLAKE2b -/
theorem encodeSelectors_eq : Verif.Extracted.Seed.encodeSelectors =
    ["binary.BigEndian.Uint64", "binary.BigEndian.Uint64", "strings.Join"] := by decide
theorem decodeSelectors_eq : Verif.Extracted.Seed.decodeSelectors =
    ["strings.Fields", "errors.New", "fmt.Errorf", "binary.BigEndian.PutUint64",
     "binary.BigEndian.PutUint64", "errors.New"] := by decide
theorem keyFromSeedSelectors_eq : Verif.Extracted.Seed.keyFromSeedSelectors =
    ["binary.LittleEndian.PutUint64", "blake2b.Sum256", "types.NewPrivateKeyFromSeed"] := by decide

end Verif.Seed
