/-
C03, manager side of catch-up: the notification counter is the only in-memory part of the model
manager; nothing `AddBlocks` decides depends on it.  Hence two managers that agree on records,
states and best chain behave identically on every further history.
-/
import Verif.Lemmas.Chain

namespace Verif.Chain

/-- the manager with another notification count -/
def setN (m : Mgr) (n : Nat) : Mgr := { m with notified := n }

@[simp] theorem setN_recs (m : Mgr) (n : Nat) : (setN m n).recs = m.recs := rfl
@[simp] theorem setN_states (m : Mgr) (n : Nat) : (setN m n).states = m.states := rfl
@[simp] theorem setN_best (m : Mgr) (n : Nat) : (setN m n).best = m.best := rfl
@[simp] theorem setN_notified (m : Mgr) (n : Nat) : (setN m n).notified = n := rfl
@[simp] theorem setN_tip (m : Mgr) (n : Nat) : (setN m n).tip = m.tip := rfl
@[simp] theorem setN_header (m : Mgr) (n : Nat) (i : Nat) : (setN m n).header i = m.header i := rfl
@[simp] theorem setN_block (m : Mgr) (n : Nat) (i : Nat) : (setN m n).block i = m.block i := rfl
@[simp] theorem setN_setN (m : Mgr) (a b : Nat) : setN (setN m a) b = setN m b := rfl
theorem setN_self (m : Mgr) : setN m m.notified = m := rfl

theorem rewind_setN (U : Nat → Blk) (m : Mgr) (n r a : Nat) (ml : Option Nat) (i : Nat) :
    rewind U (setN m n) r a ml i = rewind U m r a ml i := rfl

theorem rewindAbove_setN (U : Nat → Blk) (m : Mgr) (n : Nat) (ml : Option Nat) (h other : Nat) :
    ∀ (fuel a : Nat) (acc : List Nat),
      rewindAbove U (setN m n) ml h other fuel a acc = rewindAbove U m ml h other fuel a acc := by
  intro fuel
  induction fuel with
  | zero => intro a acc; rfl
  | succ f ih =>
    intro a acc
    simp only [rewindAbove, rewind_setN]
    split
    · cases rewind U m (acc.length + 1) other ml a with
      | error e => rfl
      | ok a' => exact ih a' _
    · rfl

theorem rewindBoth_setN (U : Nat → Blk) (m : Mgr) (n : Nat) (ml : Option Nat) :
    ∀ (fuel a b : Nat) (rev app : List Nat),
      rewindBoth U (setN m n) ml fuel a b rev app = rewindBoth U m ml fuel a b rev app := by
  intro fuel
  induction fuel with
  | zero => intro a b rev app; rfl
  | succ f ih =>
    intro a b rev app
    simp only [rewindBoth, rewind_setN]
    split
    · rfl
    · cases rewind U m (rev ++ [a]).length (app ++ [b]).length ml a with
      | error e => rfl
      | ok a' =>
        cases rewind U m (rev ++ [a]).length (app ++ [b]).length ml b with
        | error e => rfl
        | ok b' => exact ih a' b' _ _

theorem reorgPath_setN (U : Nat → Blk) (m : Mgr) (n a b : Nat) (ml : Option Nat) :
    reorgPath U (setN m n) a b ml = reorgPath U m a b ml := by
  simp only [reorgPath, rewindAbove_setN, rewindBoth_setN]

theorem revertTip_setN (U : Nat → Blk) (m : Mgr) (n : Nat) :
    revertTip U (setN m n) = (revertTip U m).map (setN · n) := by
  unfold revertTip
  simp only [setN_best, setN_block, setN_states]
  cases m.best with
  | nil => rfl
  | cons t rest =>
    simp only
    cases m.block t with
    | none => rfl
    | some supp =>
      by_cases h1 : m.states (U t).parent = true <;> cases supp <;> simp [h1, Except.map, setN]

theorem applyTip_setN (U : Nat → Blk) (m : Mgr) (n i : Nat) :
    applyTip U (setN m n) i = (applyTip U m i).map (setN · n) := by
  unfold applyTip
  simp only [setN_block, setN_tip]
  cases m.block i with
  | none => rfl
  | some supp =>
    by_cases hp : (U i).parent = m.tip <;> cases supp <;> cases hb : (U i).bodyOk <;>
      simp [hp, hb, Except.map, setN]

theorem revertN_setN (U : Nat → Blk) (n : Nat) : ∀ (k : Nat) (m : Mgr),
    revertN U k (setN m n) = (setN (revertN U k m).1 n, (revertN U k m).2) := by
  intro k
  induction k with
  | zero => intro m; rfl
  | succ k ih =>
    intro m
    simp only [revertN, revertTip_setN]
    cases revertTip U m with
    | error e => rfl
    | ok m' => exact ih m'

theorem applyAll_setN (U : Nat → Blk) (n : Nat) : ∀ (l : List Nat) (m : Mgr),
    applyAll U l (setN m n) = (setN (applyAll U l m).1 n, (applyAll U l m).2) := by
  intro l
  induction l with
  | nil => intro m; rfl
  | cons i is ih =>
    intro m
    simp only [applyAll, applyTip_setN]
    cases applyTip U m i with
    | error e => rfl
    | ok m' => exact ih m'

theorem reorgTo_setN (U : Nat → Blk) (m : Mgr) (n t : Nat) :
    reorgTo U (setN m n) t = (setN (reorgTo U m t).1 n, (reorgTo U m t).2) := by
  unfold reorgTo
  simp only [setN_tip, reorgPath_setN]
  cases reorgPath U m m.tip t none with
  | error e => rfl
  | ok p =>
    obtain ⟨rev, app⟩ := p
    simp only [revertN_setN]
    rcases revertN U rev.length m with ⟨m1, e⟩
    cases e with
    | some e => rfl
    | none => exact applyAll_setN U n app m1

/-- `maybeReorg` only ever adds to the counter -/
theorem maybeReorg_setN (U : Nat → Blk) (m : Mgr) (n cs : Nat) :
    ∃ k, (maybeReorg U m cs).1.notified = m.notified + k ∧
      maybeReorg U (setN m n) cs = (setN (maybeReorg U m cs).1 (n + k), (maybeReorg U m cs).2) := by
  have hn1 : ∀ t, (reorgTo U m t).1.notified = m.notified := by
    intro t
    have h0 := reorgTo_setN U m m.notified t
    rw [setN_self] at h0
    have := congrArg (fun r => r.1.notified) h0
    simpa using this
  unfold maybeReorg
  simp only [setN_tip]
  by_cases hh : heavier U cs m.tip = true
  · simp only [hh, if_true, reorgTo_setN]
    rcases hr : reorgTo U m cs with ⟨m1, e1⟩
    have hm1 : m1.notified = m.notified := by have := hn1 cs; rw [hr] at this; exact this
    cases e1 with
    | none => exact ⟨1, by simp [hm1], by simp [setN, hm1]⟩
    | some e =>
      cases e with
      | panic => exact ⟨0, by simp [hm1], by simp [setN]⟩
      | missingBlock | invalidBlock | tooLong =>
        simp only [reorgTo_setN]
        have hn2 : (reorgTo U m1 m.tip).1.notified = m1.notified := by
          have h0 := reorgTo_setN U m1 m1.notified m.tip
          rw [setN_self] at h0
          have := congrArg (fun r => r.1.notified) h0
          simpa using this
        rcases hr2 : reorgTo U m1 m.tip with ⟨m2, e2⟩
        rw [hr2] at hn2
        simp only at hn2
        refine ⟨0, ?_, ?_⟩
        · cases e2 with
          | none => simp [hn2, hm1]
          | some e' => cases e' <;> simp [hn2, hm1]
        · cases e2 with
          | none => simp [setN]
          | some e' => cases e' <;> simp [setN]
  · simp only [hh]
    exact ⟨0, by simp, by simp [setN]⟩

theorem go_setN (U : Nat → Blk) (n : Nat) : ∀ (batch : List Nat) (m : Mgr) (cs : Nat),
    addBlocks.go U batch (setN m n) cs =
      (setN (addBlocks.go U batch m cs).1 n, (addBlocks.go U batch m cs).2) := by
  intro batch
  induction batch with
  | nil => intro m cs; rfl
  | cons b bs ih =>
    intro m cs
    have e1 : (setN m n).block b = m.block b := rfl
    have e2 : (setN m n).header b = m.header b := rfl
    have e3 : (setN m n).states = m.states := rfl
    unfold addBlocks.go
    rw [e1, e2, e3]
    by_cases h1 : m.block b = some true
    · rw [if_pos h1, if_pos h1]; exact ih m b
    · rw [if_neg h1, if_neg h1]
      by_cases h2 : m.header b = true ∧ (m.block b).isNone = true
      · rw [if_pos h2, if_pos h2]; exact ih m b
      · rw [if_neg h2, if_neg h2]
        by_cases h3 : (U b).parent ≠ cs ∧ (!m.states (U b).parent) = true
        · rw [if_pos h3, if_pos h3]
        · rw [if_neg h3, if_neg h3]
          by_cases h4 : (U b).future = true
          · rw [if_pos h4, if_pos h4]
          · rw [if_neg h4, if_neg h4]
            by_cases h5 : (!(U b).hdrOk) = true
            · rw [if_pos h5, if_pos h5]
            · rw [if_neg h5, if_neg h5]
              exact ih { m with recs := upd m.recs b (some ⟨true, false⟩), states := upd m.states b true } b

/-- **nothing `AddBlocks` decides depends on the notification counter** -/
theorem addBlocks_setN (U : Nat → Blk) (m : Mgr) (n : Nat) (batch : List Nat) :
    ∃ k, (addBlocks U m batch).1.notified = m.notified + k ∧
      addBlocks U (setN m n) batch = (setN (addBlocks U m batch).1 (n + k), (addBlocks U m batch).2) := by
  cases batch with
  | nil => exact ⟨0, by simp [addBlocks], by simp [addBlocks, setN]⟩
  | cons b bs =>
    have hgn : (addBlocks.go U (b :: bs) m m.tip).1.notified = m.notified := by
      have h0 := go_setN U m.notified (b :: bs) m m.tip
      rw [setN_self] at h0
      have := congrArg (fun r => r.1.notified) h0
      simpa using this
    simp only [addBlocks, setN_tip, go_setN]
    rcases hg : addBlocks.go U (b :: bs) m m.tip with ⟨m1, e, cs⟩
    rw [hg] at hgn
    simp only at hgn
    cases e with
    | some err => exact ⟨0, by simp [hgn], by simp [setN]⟩
    | none =>
      simp only
      obtain ⟨k, h1, h2⟩ := maybeReorg_setN U m1 n cs
      exact ⟨k, by rw [h1, hgn], h2⟩

/-- agreement on everything that is stored -/
def SameStored (a b : Mgr) : Prop := a.recs = b.recs ∧ a.states = b.states ∧ a.best = b.best

theorem SameStored.eq_setN {a b : Mgr} (h : SameStored a b) : a = setN b a.notified := by
  obtain ⟨h1, h2, h3⟩ := h
  cases a; cases b; simp_all [setN]

theorem sameStored_setN (m : Mgr) (n : Nat) : SameStored (setN m n) m := ⟨rfl, rfl, rfl⟩

/-- one more batch keeps two managers that agree on what is stored in agreement, with the same
error -/
theorem addBlocks_sameStored (U : Nat → Blk) {a b : Mgr} (h : SameStored a b) (batch : List Nat) :
    SameStored (addBlocks U a batch).1 (addBlocks U b batch).1 ∧ (addBlocks U a batch).2 = (addBlocks U b batch).2 := by
  rw [h.eq_setN]
  obtain ⟨k, _, h2⟩ := addBlocks_setN U b a.notified batch
  rw [h2]
  exact ⟨sameStored_setN _ _, rfl⟩

/-! ### the interrupted batch -/

/-- without a header error the loop of `AddBlocks` ends with `cs` = the last block of the batch -/
theorem go_cs (U : Nat → Blk) : ∀ (batch : List Nat) (m : Mgr) (cs : Nat),
    (addBlocks.go U batch m cs).2.1 = none → (addBlocks.go U batch m cs).2.2 = batch.getLastD cs := by
  intro batch
  induction batch with
  | nil => intro m cs _; rfl
  | cons b bs ih =>
    intro m cs
    have hl : (b :: bs).getLastD cs = bs.getLastD b := by cases bs <;> simp [List.getLastD]
    rw [hl]
    unfold addBlocks.go
    by_cases h1 : m.block b = some true
    · rw [if_pos h1]; exact ih m b
    · rw [if_neg h1]
      by_cases h2 : m.header b = true ∧ (m.block b).isNone = true
      · rw [if_pos h2]; exact ih m b
      · rw [if_neg h2]
        by_cases h3 : (U b).parent ≠ cs ∧ (!m.states (U b).parent) = true
        · rw [if_pos h3]; intro h; cases h
        · rw [if_neg h3]
          by_cases h4 : (U b).future = true
          · rw [if_pos h4]; intro h; cases h
          · rw [if_neg h4]
            by_cases h5 : (!(U b).hdrOk) = true
            · rw [if_pos h5]; intro h; cases h
            · rw [if_neg h5]; exact ih _ b

/-- **a submission that returns no error and offers a sufficiently heavier chain ends on the last
block of the batch** -/
theorem addBlocks_reaches {U} (hU : WFU U) {m : Mgr} (h : Inv U m) (b : Nat) (bs : List Nat)
    (hok : (addBlocks U m (b :: bs)).2 = none) (hh : heavier U (bs.getLastD b) m.tip = true) :
    (addBlocks U m (b :: bs)).1.tip = bs.getLastD b := by
  obtain ⟨j1, j2, _, _, j5, _⟩ := addLoop_spec hU (b :: bs) m m.tip h h.tip_state
  have hcs := go_cs U (b :: bs) m m.tip
  simp only [addBlocks] at hok ⊢
  rcases hg : addBlocks.go U (b :: bs) m m.tip with ⟨m1, e, cs⟩
  rw [hg] at j1 j2 j5 hcs hok
  simp only at j1 j2 j5 hcs hok ⊢
  cases e with
  | some err => simp at hok
  | none =>
    simp only at hok ⊢
    have hcs' : cs = bs.getLastD b := by
      have := hcs rfl
      rw [this]; cases bs <;> simp [List.getLastD]
    have htip : m1.tip = m.tip := by simp [Mgr.tip, j2]
    rcases (maybeReorg_spec j1 j5).2.2 with ⟨_, ⟨_, ht, _⟩ | ⟨hf, _⟩⟩ | ⟨he, _⟩
    · rw [ht, hcs']
    · rw [htip, hcs', hh] at hf; cases hf
    · rw [he] at hok; cases hok

/-- **the interrupted batch, resubmitted to the reopened manager, ends on the same best chain as
it did in the uninterrupted run** — under two hypotheses: the resubmission returns no error (the
reorg it triggers does not fail; otherwise the node returns to the reopened tip and needs the
earlier batches offered again), and its last block is sufficiently heavier than the reopened tip
(no near tie, the known class). -/
theorem catchup_interrupted_batch {U} (hU : WFU U) {m m' : Mgr} (h : Inv U m) (h' : Inv U m')
    (b : Nat) (bs : List Nat)
    (hok : (addBlocks U m (b :: bs)).2 = none) (hh : heavier U (bs.getLastD b) m.tip = true)
    (hok' : (addBlocks U m' (b :: bs)).2 = none) (hh' : heavier U (bs.getLastD b) m'.tip = true) :
    (addBlocks U m' (b :: bs)).1.best = (addBlocks U m (b :: bs)).1.best := by
  have t := addBlocks_reaches hU h b bs hok hh
  have t' := addBlocks_reaches hU h' b bs hok' hh'
  have i := (addBlocks_spec hU h (b :: bs)).1
  have i' := (addBlocks_spec hU h' (b :: bs)).1
  apply Chain.unique i'.chain i.chain
  have hd : ∀ {x : Mgr}, Inv U x → x.best.head? = some x.tip := by
    intro x hx
    have := hx.chain.ne_nil
    cases hb : x.best with
    | nil => exact absurd hb this
    | cons a t => simp [Mgr.tip, hb]
  rw [hd i', hd i, t, t']

end Verif.Chain
