import Verif.Model.ChainFF
import Verif.Lemmas.Chain
import Verif.Lemmas.ChainF
import Verif.Lemmas.Adopt
/-! `AddBlocks` with a failing `Flush`: the rollback always succeeds and restores the best chain. -/
namespace Verif.Chain

/-- rolling back from ANY state `m1` reached from `m` by a (partial or complete) `reorgTo`: the old
best chain still carries its supplements, so `reorgTo` back cannot fail and restores `best` -/
theorem rollback_restores {U m m1} (h : Inv U m) (i1 : Inv U m1) (mono1 : Mono m m1) :
    (reorgTo U m1 m.tip).2 = none ∧ (reorgTo U m1 m.tip).1.best = m.best ∧
    Inv U (reorgTo U m1 m.tip).1 ∧ Mono m1 (reorgTo U m1 m.tip).1 := by
  have hold : m1.states m.tip = true := mono1.states _ h.tip_state
  obtain ⟨i2, mono2, s1, _, s3⟩ := reorgTo_spec i1 hold
  have hall : ∀ k, k ≤ (U m.tip).height → m1.recs (anc U k m.tip) = some ⟨true, true⟩ := by
    intro k hk
    have hlen := h.length
    have hk' : k < m.best.length := by omega
    rw [← h.best_getElem k hk']
    exact mono1.supp _ (h.bestsupp _ (List.getElem_mem hk'))
  have hnone := s3 hall
  rcases hr2 : reorgTo U m1 m.tip with ⟨m2, e2⟩
  rw [hr2] at i2 mono2 s1 hnone
  simp only at i2 mono2 s1 hnone
  subst hnone
  refine ⟨rfl, ?_, i2, mono2⟩
  have htip : m2.tip = m.tip := s1 rfl
  apply Chain.unique i2.chain h.chain
  have h2 := i2.chain.ne_nil
  have h0 := h.chain.ne_nil
  cases hb2 : m2.best with
  | nil => exact absurd hb2 h2
  | cons a2 t2 =>
    cases hb0 : m.best with
    | nil => exact absurd hb0 h0
    | cons a0 t0 =>
      simp [Mgr.tip, hb2, hb0] at htip
      simp [htip]

theorem maybeReorgFF_spec {U m} (h : Inv U m) {cs : Nat} (hcs : m.states cs = true) :
    Inv U (maybeReorgFF U m cs).1 ∧
    ((∀ i, m.states i = true → (maybeReorgFF U m cs).1.states i = true) ∧
     (∀ i, m.recs i = some ⟨true, true⟩ → (maybeReorgFF U m cs).1.recs i = some ⟨true, true⟩)) ∧
    (maybeReorgFF U m cs).1.best = m.best ∧ (maybeReorgFF U m cs).1.notified = m.notified ∧
    ((heavier U cs m.tip = false ∧ (maybeReorgFF U m cs) = (m, none)) ∨
     (heavier U cs m.tip = true ∧ (reorgTo U m cs).2 = none ∧ (maybeReorgFF U m cs).2 = some .reorgFailed) ∨
     (heavier U cs m.tip = true ∧ (reorgTo U m cs).2 ≠ none ∧ (maybeReorgFF U m cs).2 = some .rollbackFailed)) := by
  unfold maybeReorgFF
  cases hh : heavier U cs m.tip with
  | false => simp [h]
  | true =>
    simp only [if_true]
    obtain ⟨i1, mono1, _, r2, _⟩ := reorgTo_spec h hcs
    rcases hr : reorgTo U m cs with ⟨m1, e1⟩
    rw [hr] at i1 mono1 r2
    simp only at i1 mono1 r2
    obtain ⟨b1, b2, b3, b4⟩ := rollback_restores h i1 mono1
    have hm : (∀ i, m.states i = true → (reorgTo U m1 m.tip).1.states i = true) ∧
        (∀ i, m.recs i = some ⟨true, true⟩ → (reorgTo U m1 m.tip).1.recs i = some ⟨true, true⟩) :=
      ⟨fun i hi => b4.states i (mono1.states i hi), fun i hi => b4.supp i (mono1.supp i hi)⟩
    have hn : (reorgTo U m1 m.tip).1.notified = m.notified := by rw [b4.notified, mono1.notified]
    rcases hr2 : reorgTo U m1 m.tip with ⟨m2, e2⟩
    rw [hr2] at b1 b2 b3 hm hn
    simp only at b1 b2 b3 hm hn
    subst b1
    cases e1 with
    | none =>
      simp only
      rw [hr2]
      exact ⟨b3, hm, b2, hn, Or.inr (Or.inl ⟨trivial, trivial, rfl⟩)⟩
    | some e =>
      have he : e = .invalidBlock := by simpa using r2 (by simp)
      subst he
      simp only
      rw [hr2]
      exact ⟨b3, hm, b2, hn, Or.inr (Or.inr ⟨trivial, by simp, rfl⟩)⟩

theorem addBlocksFF_spec {U} (hU : WFU U) {m : Mgr} (h : Inv U m) (batch : List Nat) :
    Inv U (addBlocksFF U m batch).1 ∧
    (∀ i, m.states i = true → (addBlocksFF U m batch).1.states i = true) ∧
    (addBlocksFF U m batch).1.best = m.best ∧ (addBlocksFF U m batch).1.notified = m.notified := by
  cases batch with
  | nil => exact ⟨h, fun _ x => x, rfl, rfl⟩
  | cons b bs =>
    simp only [addBlocksFF]
    obtain ⟨j1, j2, j3, j4, j5, _⟩ := addLoop_spec hU (b :: bs) m m.tip h h.tip_state
    rcases hg : addBlocks.go U (b :: bs) m m.tip with ⟨m1, e, cs⟩
    rw [hg] at j1 j2 j3 j4 j5
    simp only at j1 j2 j3 j4 j5
    cases e with
    | some e => exact ⟨j1, j4.1, j2, j3⟩
    | none =>
      simp only
      obtain ⟨k1, k2, k3, k4, _⟩ := maybeReorgFF_spec j1 j5
      exact ⟨k1, fun i hi => k2.1 i (j4.1 i hi), by rw [k3, j2], by rw [k4, j3]⟩

/-! erasure of the `full` bookkeeping -/

theorem maybeReorgFFF_m (U : Nat → Blk) (s : MgrF) (cs : Nat) :
    ((maybeReorgFFF U s cs).1.m, (maybeReorgFFF U s cs).2) = maybeReorgFF U s.m cs := by
  unfold maybeReorgFFF maybeReorgFF
  by_cases hh : heavier U cs s.m.tip
  · simp only [hh, if_true]
    have h1 := reorgToF_m U s cs
    cases hF : reorgToF U s cs with
    | mk s1 e1 =>
      rw [hF] at h1
      simp only at h1
      rw [← h1]
      have h2 := reorgToF_m U s1 s.m.tip
      cases hF2 : reorgToF U s1 s.m.tip with
      | mk s2 e2 =>
        rw [hF2] at h2
        simp only at h2
        cases e1 with
        | none =>
          simp only [hF2]
          rw [← h2]
          cases e2 with
          | none => rfl
          | some e' => cases e' <;> rfl
        | some e =>
          cases e with
          | panic => rfl
          | missingBlock | invalidBlock | tooLong =>
            simp only [hF2]
            rw [← h2]
            cases e2 with
            | none => rfl
            | some e' => cases e' <;> rfl
  · simp only [hh]; rfl

theorem addBlocksFFF_m (U : Nat → Blk) (s : MgrF) (batch : List Nat) :
    ((addBlocksFFF U s batch).1.m, (addBlocksFFF U s batch).2) = addBlocksFF U s.m batch := by
  cases batch with
  | nil => rfl
  | cons b bs =>
    simp only [addBlocksFFF, addBlocksFF]
    have h1 := addLoopF_m U (b :: bs) s s.m.tip
    cases hL : addLoopF U (b :: bs) s s.m.tip with
    | mk s1 r =>
      cases r with
      | mk e cs =>
        rw [hL] at h1
        simp only at h1
        rw [← h1]
        cases e with
        | some e => rfl
        | none => exact maybeReorgFFF_m U s1 cs

end Verif.Chain
