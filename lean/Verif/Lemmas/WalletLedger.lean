/-
Helper lemmas for M5 (`WalletLedger`): revert undoes apply, the store follows the chain along
any update path, every stored proof is based at the tip, and the store is the wallet's view of
the chain's ledger.
-/
import Verif.Model.WalletLedger

namespace Verif.WalletLedger

/-! ### events carry the index of their block -/

theorem addEvent_idx (idx : Nat) (acc : List Event) (id : Nat) (k : Kind) (i o m : Nat)
    (h : ∀ e ∈ acc, e.idx = idx) : ∀ e ∈ addEvent idx acc id k i o m, e.idx = idx := by
  unfold addEvent
  split
  · exact h
  · intro e he
    simp only [List.mem_append, List.mem_singleton] at he
    rcases he with he | rfl
    · exact h e he
    · rfl

theorem payout_idx (b : Block) (k : Kind) (acc : List Event) (id : Nat)
    (h : ∀ e ∈ acc, e.idx = b.idx) : ∀ e ∈ payout b k acc id, e.idx = b.idx := by
  unfold payout
  split
  · exact addEvent_idx _ _ _ _ _ _ _ h
  · exact h

theorem payoutIfOwn_idx (b : Block) (k : Kind) (acc : List Event) (id : Nat)
    (h : ∀ e ∈ acc, e.idx = b.idx) : ∀ e ∈ payoutIfOwn b k acc id, e.idx = b.idx := by
  unfold payoutIfOwn
  split
  · split
    · exact addEvent_idx _ _ _ _ _ _ _ h
    · exact h
  · exact h

theorem foldl_idx {α} (idx : Nat) (f : List Event → α → List Event)
    (hf : ∀ acc x, (∀ e ∈ acc, e.idx = idx) → ∀ e ∈ f acc x, e.idx = idx)
    (l : List α) (acc : List Event) (h : ∀ e ∈ acc, e.idx = idx) : ∀ e ∈ l.foldl f acc, e.idx = idx := by
  induction l generalizing acc with
  | nil => exact h
  | cons x l ih => exact ih _ (hf _ _ h)

theorem appliedEvents_idx (b : Block) : ∀ e ∈ appliedEvents b, e.idx = b.idx := by
  unfold appliedEvents
  simp only
  have h1 : ∀ e ∈ b.txns.foldl (txnEvents b) [], e.idx = b.idx := by
    apply foldl_idx b.idx _ _ _ _ (by simp)
    intro acc t h
    unfold txnEvents
    split
    · exact h
    · have hc : ∀ e ∈ claimEvents b acc t, e.idx = b.idx := by
        unfold claimEvents
        apply foldl_idx b.idx _ _ _ _ h
        intro acc si h
        split
        · exact payout_idx _ _ _ _ h
        · exact h
      simp only
      split <;> exact addEvent_idx _ _ _ _ _ _ _ hc
  have h2 : ∀ e ∈ b.res1.foldl (res1Events b) (b.txns.foldl (txnEvents b) []), e.idx = b.idx := by
    apply foldl_idx b.idx _ _ _ _ h1
    intro acc r h
    unfold res1Events
    apply foldl_idx b.idx _ _ _ _ h
    intro acc o h
    split
    · exact payout_idx _ _ _ _ h
    · exact h
  have h3 : ∀ e ∈ b.res2.foldl (res2Events b) (b.res1.foldl (res1Events b) (b.txns.foldl (txnEvents b) [])), e.idx = b.idx := by
    apply foldl_idx b.idx _ _ _ _ h2
    intro acc r h
    exact payoutIfOwn_idx _ _ _ _ (payoutIfOwn_idx _ _ _ _ h)
  have h4 : ∀ e ∈ b.miners.foldl (fun acc m => if m.1 then payout b .miner acc m.2 else acc)
      (b.res2.foldl (res2Events b) (b.res1.foldl (res1Events b) (b.txns.foldl (txnEvents b) []))), e.idx = b.idx := by
    apply foldl_idx b.idx _ _ _ _ h3
    intro acc m h
    split
    · exact payout_idx _ _ _ _ h
    · exact h
  exact payoutIfOwn_idx _ _ _ _ h4

/-! ### revert undoes apply -/

/-- every stored proof verifies at the store's tip -/
def Synced (s : Store) : Prop := ∀ id u, s.utxos id = some u → u.basis = s.tip

/-- what consensus guarantees about a block `b` that extends the chain the store `s` is at -/
structure ValidOn (s : Store) (b : Block) : Prop where
  parent : b.parent = s.tip
  createdFresh : ∀ e ∈ ownCreated b.diffs, s.utxos e.id = none
  spentPresent : ∀ e ∈ ownSpent b.diffs, s.utxos e.id = some ⟨e.value, e.maturity, s.tip⟩
  spentNodup : ((ownSpent b.diffs).map (·.id)).Nodup
  createdNodup : ((ownCreated b.diffs).map (·.id)).Nodup
  freshIdx : ∀ e ∈ s.events, e.idx ≠ b.idx

theorem synced_init : Synced Store.init := by intro id u h; simp [Store.init] at h

theorem synced_apply (s : Store) (b : Block) : Synced (s.apply b) := by
  intro id u h
  simp only [Store.apply, add] at h ⊢
  split at h
  · simp only [Option.some.injEq] at h; rw [← h]
  · simp only [remove] at h
    split at h
    · cases h
    · simp only [rebase, Option.map_eq_some_iff] at h
      obtain ⟨u0, _, rfl⟩ := h
      rfl

theorem find_of_nodup (es : List Elem) (hn : (es.map (·.id)).Nodup) (e : Elem) (he : e ∈ es) :
    es.find? (·.id == e.id) = some e := by
  induction es with
  | nil => cases he
  | cons x es ih =>
    simp only [List.map_cons, List.nodup_cons] at hn
    simp only [List.find?_cons]
    by_cases hx : x.id = e.id
    · simp only [hx, beq_self_eq_true]
      rcases List.mem_cons.mp he with rfl | he'
      · rfl
      · exact absurd (hx ▸ List.mem_map_of_mem (f := (·.id)) he') hn.1
    · have : (x.id == e.id) = false := by simp [hx]
      rw [this]
      rcases List.mem_cons.mp he with rfl | he'
      · exact absurd rfl hx
      · exact ih hn.2 he'

theorem store_ext {a b : Store} (h1 : a.tip = b.tip) (h2 : a.utxos = b.utxos) (h3 : a.events = b.events) : a = b := by
  cases a; cases b; simp_all

/-- **revert undoes apply** on a synced store and a block valid on it -/
theorem revert_apply (s : Store) (b : Block) (hs : Synced s) (hv : ValidOn s b) : (s.apply b).revert b = s := by
  apply store_ext
  · exact hv.parent
  · funext id
    show rebase b.parent (add b.parent (remove (add b.idx (remove (rebase b.idx s.utxos) (ownSpent b.diffs)) (ownCreated b.diffs)) (ownCreated b.diffs)) (ownSpent b.diffs)) id = s.utxos id
    cases hfS : (ownSpent b.diffs).find? (·.id == id) with
    | some e =>
      have hmem := List.mem_of_find?_eq_some hfS
      have hid : e.id = id := by simpa using List.find?_some hfS
      have := hv.spentPresent e hmem
      rw [hid] at this
      simp [rebase, add, hfS, this, hv.parent]
    | none =>
      have hnS : (ownSpent b.diffs).any (·.id == id) = false := by
        rw [List.any_eq_false]; intro x hx
        have := List.find?_eq_none.mp hfS x hx
        simpa using this
      cases hC : (ownCreated b.diffs).any (·.id == id) with
      | true =>
        obtain ⟨e, he, hid⟩ := List.any_eq_true.mp hC
        have hid' : e.id = id := by simpa using hid
        have hnone := hid' ▸ hv.createdFresh e he
        simp [rebase, add, hfS, remove, hC, hnone]
      | false =>
        have hfC : (ownCreated b.diffs).find? (·.id == id) = none := by
          rw [List.find?_eq_none]; intro x hx
          have := (List.any_eq_false.mp hC) x hx
          simpa using this
        cases hu : s.utxos id with
        | none => simp [rebase, add, hfS, remove, hC, hfC, hnS, hu]
        | some u =>
          have hb := hs id u hu
          simp [rebase, add, hfS, remove, hC, hfC, hnS, hu]
          cases u; simp_all [hv.parent]
  · simp only [Store.revert, Store.apply, List.filter_append]
    have h1 : s.events.filter (fun e => e.idx != b.idx) = s.events := by
      rw [List.filter_eq_self]; intro e he; simpa using hv.freshIdx e he
    have h2 : (appliedEvents b).filter (fun e => e.idx != b.idx) = [] := by
      rw [List.filter_eq_nil_iff]; intro e he; simp [appliedEvents_idx b e he]
    rw [h1, h2, List.append_nil]

/-! ### the store follows the chain -/

theorem follow_snoc (c : List Block) (b : Block) : follow (c ++ [b]) = (follow c).apply b := by
  simp [follow, List.foldl_append]

theorem synced_follow (c : List Block) : Synced (follow c) := by
  rcases List.eq_nil_or_concat c with rfl | ⟨c', b, rfl⟩
  · exact synced_init
  · rw [List.concat_eq_append, follow_snoc]; exact synced_apply _ _

/-- a chain every block of which is valid on the store its predecessors produce -/
def ChainValid : Store → List Block → Prop
  | _, [] => True
  | s, b :: c => ValidOn s b ∧ ChainValid (s.apply b) c

theorem chainValid_append (s : Store) (c d : List Block) :
    ChainValid s (c ++ d) ↔ ChainValid s c ∧ ChainValid (c.foldl Store.apply s) d := by
  induction c generalizing s with
  | nil => simp [ChainValid]
  | cons b c ih => simp only [List.cons_append, ChainValid, List.foldl_cons, ih, and_assoc]

theorem chainValid_snoc (c : List Block) (b : Block) :
    ChainValid Store.init (c ++ [b]) ↔ ChainValid Store.init c ∧ ValidOn (follow c) b := by
  rw [chainValid_append]; simp [ChainValid, follow]

/-- an update path as `Manager.UpdatesSince` produces them: an apply extends the chain the store is
at by a block of the block tree (`Good` = the root paths of the tree), a revert removes its last block -/
inductive Path (Good : List Block → Prop) : List Block → List Upd → List Block → Prop
  | nil (c : List Block) : Path Good c [] c
  | apply (c : List Block) (b : Block) (us : List Upd) (c' : List Block) :
      Good (c ++ [b]) → Path Good (c ++ [b]) us c' → Path Good c (.apply b :: us) c'
  | revert (c : List Block) (b : Block) (us : List Upd) (c' : List Block) :
      Path Good c us c' → Path Good (c ++ [b]) (.revert b :: us) c'

theorem run_follows (Good : List Block → Prop) (hG : ∀ c, Good c → ChainValid Store.init c)
    (c : List Block) (us : List Upd) (c' : List Block) (hp : Path Good c us c')
    (hc : ChainValid Store.init c) : (follow c).run us = follow c' ∧ ChainValid Store.init c' := by
  induction hp with
  | nil c => exact ⟨rfl, hc⟩
  | apply c b us c' hg _ ih =>
    have := ih (hG _ hg)
    simp only [Store.run, List.foldl_cons, Store.step] at this ⊢
    rw [← follow_snoc]; exact this
  | revert c b us c' _ ih =>
    have hv := (chainValid_snoc c b).mp hc
    have := ih hv.1
    simp only [Store.run, List.foldl_cons, Store.step] at this ⊢
    rw [follow_snoc, revert_apply _ _ (synced_follow c) hv.2]; exact this

theorem run_chunks (s : Store) (chunks : List (List Upd)) :
    chunks.foldl (fun s ch => s.run ch) s = s.run chunks.flatten := by
  induction chunks generalizing s with
  | nil => rfl
  | cons ch chunks ih =>
    simp only [List.foldl_cons, List.flatten_cons]
    rw [ih]
    simp only [Store.run, List.foldl_append]

theorem follow_events (c : List Block) : (follow c).events = c.flatMap appliedEvents := by
  suffices key : ∀ (c : List Block) (s : Store), (c.foldl Store.apply s).events = s.events ++ c.flatMap appliedEvents by
    simpa [follow, Store.init] using key c Store.init
  intro c
  induction c with
  | nil => intro s; simp
  | cons b c ih => intro s; simp [ih, Store.apply, List.append_assoc]

/-! ### the store is the wallet's view of the chain's ledger -/

/-- the elements of a diff list for every address: created, spent (ephemeral ones skipped) -/
def allCreated (diffs : List Diff) : List Elem :=
  (diffs.filter fun d => !(d.created && d.spent) && d.created).map (·.e)

def allSpent (diffs : List Diff) : List Elem :=
  (diffs.filter fun d => !(d.created && d.spent) && !d.created && d.spent).map (·.e)

/-- the chain's unspent siacoin elements, whatever their address -/
def Ledger := Nat → Option Elem

def Ledger.apply (L : Ledger) (b : Block) : Ledger :=
  fun id => match (allCreated b.diffs).find? (·.id == id) with
    | some e => some e
    | none => if (allSpent b.diffs).any (·.id == id) then none else L id

def ledgerOf (c : List Block) : Ledger := c.foldl Ledger.apply (fun _ => none)

/-- what of the ledger pays the wallet: value and maturity height -/
def view (L : Ledger) (id : Nat) : Option (Nat × Nat) :=
  match L id with
  | some e => if e.own then some (e.value, e.maturity) else none
  | none => none

def stored (s : Store) (id : Nat) : Option (Nat × Nat) := (s.utxos id).map fun u => (u.value, u.maturity)

theorem ownCreated_eq (diffs : List Diff) : ownCreated diffs = (allCreated diffs).filter (·.own) := by
  unfold ownCreated allCreated
  rw [List.filter_map, List.filter_filter]
  congr 1
  apply List.filter_congr
  intro d _
  simp only [Function.comp]
  cases d.created <;> cases d.spent <;> cases d.e.own <;> rfl

theorem ownSpent_eq (diffs : List Diff) : ownSpent diffs = (allSpent diffs).filter (·.own) := by
  unfold ownSpent allSpent
  rw [List.filter_map, List.filter_filter]
  congr 1
  apply List.filter_congr
  intro d _
  simp only [Function.comp]
  cases d.created <;> cases d.spent <;> cases d.e.own <;> rfl

/-- consensus facts about the diffs of a block on top of the ledger `L` -/
structure LedgerValidOn (L : Ledger) (b : Block) : Prop where
  createdFresh : ∀ e ∈ allCreated b.diffs, L e.id = none
  spentPresent : ∀ e ∈ allSpent b.diffs, L e.id = some e
  createdNodup : ((allCreated b.diffs).map (·.id)).Nodup

theorem find_filter_own (es : List Elem) (hn : (es.map (·.id)).Nodup) (id : Nat) :
    (es.filter (·.own)).find? (·.id == id) =
      match es.find? (·.id == id) with
      | some e => if e.own then some e else none
      | none => none := by
  induction es with
  | nil => rfl
  | cons x es ih =>
    simp only [List.map_cons, List.nodup_cons] at hn
    by_cases hx : x.id = id
    · have hnone : es.find? (·.id == id) = none := by
        rw [List.find?_eq_none]; intro y hy
        have : y.id ≠ x.id := fun h => hn.1 (h ▸ List.mem_map_of_mem (f := (·.id)) hy)
        simp [hx ▸ this]
      have hnone' : (es.filter (·.own)).find? (·.id == id) = none := by
        rw [List.find?_eq_none]; intro y hy
        exact List.find?_eq_none.mp hnone y (List.mem_filter.mp hy).1
      cases ho : x.own <;> simp [ho, hx, hnone']
    · cases ho : x.own <;> simp [ho, hx, ih hn.2]

theorem view_step (s : Store) (L : Ledger) (b : Block) (hv : LedgerValidOn L b)
    (h : ∀ id, stored s id = view L id) : ∀ id, stored (s.apply b) id = view (L.apply b) id := by
  intro id
  have hs : ∀ id, view L id = none → s.utxos id = none := by
    intro id hv'
    have := h id
    rw [hv'] at this
    simpa [stored] using this
  simp only [stored, view, Store.apply, Ledger.apply, add]
  rw [ownCreated_eq, find_filter_own _ hv.createdNodup]
  cases hC : (allCreated b.diffs).find? (·.id == id) with
  | some e =>
    have hmem := List.mem_of_find?_eq_some hC
    have hid : e.id = id := by simpa using List.find?_some hC
    cases ho : e.own with
    | true => simp [ho]
    | false =>
      have hfresh : L id = none := hid ▸ hv.createdFresh e hmem
      have hnone := hs id (by simp [view, hfresh])
      simp [ho, remove, rebase, hnone]
  | none =>
    simp only [remove]
    cases hS : (allSpent b.diffs).any (·.id == id) with
    | true =>
      obtain ⟨e, he, hid⟩ := List.any_eq_true.mp hS
      have hid' : e.id = id := by simpa using hid
      have hL : L id = some e := hid' ▸ hv.spentPresent e he
      by_cases hown : (ownSpent b.diffs).any (·.id == id) = true
      · simp [hown]
      · have heo : e.own = false := by
          cases ho : e.own with
          | false => rfl
          | true =>
            exfalso; apply hown
            rw [ownSpent_eq, List.any_eq_true]
            exact ⟨e, List.mem_filter.mpr ⟨he, ho⟩, hid⟩
        have hnone := hs id (by simp [view, hL, heo])
        simp [hown, rebase, hnone]
    | false =>
      have hown : (ownSpent b.diffs).any (·.id == id) = false := by
        rw [List.any_eq_false] at hS ⊢
        intro x hx
        rw [ownSpent_eq] at hx
        exact hS x (List.mem_filter.mp hx).1
      have := h id
      simp only [stored, view] at this
      simp only [hown, Bool.false_eq_true, ↓reduceIte, rebase, Option.map_map]
      rw [← this]
      cases s.utxos id <;> rfl

def LedgerChainValid : Ledger → List Block → Prop
  | _, [] => True
  | L, b :: c => LedgerValidOn L b ∧ LedgerChainValid (L.apply b) c

theorem stored_eq_view (c : List Block) (hv : LedgerChainValid (fun _ => none) c) :
    ∀ id, stored (follow c) id = view (ledgerOf c) id := by
  suffices key : ∀ (c : List Block) (s : Store) (L : Ledger), LedgerChainValid L c →
      (∀ id, stored s id = view L id) →
      ∀ id, stored (c.foldl Store.apply s) id = view (c.foldl Ledger.apply L) id from
    key c Store.init _ hv (by intro id; simp [stored, view, Store.init])
  intro c
  induction c with
  | nil => intro s L _ h; exact h
  | cons b c ih =>
    intro s L hv h
    exact ih _ _ hv.2 (view_step s L b hv.1 h)

/-! ### the balance equation -/

def netIn (evs : List Event) : Nat := (evs.map (·.inflow)).sum
def netOut (evs : List Event) : Nat := (evs.map (·.outflow)).sum

/-- value of the stored output `id` (0 if there is none) and the total over a list of ids -/
def val (s : Store) (id : Nat) : Nat := match s.utxos id with | some u => u.value | none => 0
def total (s : Store) (ids : List Nat) : Nat := (ids.map (val s)).sum

/-- the value an element list holds under `id` -/
def valE (es : List Elem) (id : Nat) : Nat := match es.find? (·.id == id) with | some e => e.value | none => 0

theorem val_apply (s : Store) (b : Block) (hv : ValidOn s b) (id : Nat) :
    val (s.apply b) id + valE (ownSpent b.diffs) id = val s id + valE (ownCreated b.diffs) id := by
  simp only [val, valE, Store.apply, add]
  cases hC : (ownCreated b.diffs).find? (·.id == id) with
  | some e =>
    have hmem := List.mem_of_find?_eq_some hC
    have hid : e.id = id := by simpa using List.find?_some hC
    have hnone : s.utxos id = none := hid ▸ hv.createdFresh e hmem
    have hS : (ownSpent b.diffs).find? (·.id == id) = none := by
      rw [List.find?_eq_none]; intro x hx hxid
      have hxid' : x.id = id := by simpa using hxid
      have := hv.spentPresent x hx
      rw [hxid', hnone] at this; cases this
    simp [hnone, hS]
  | none =>
    simp only [remove]
    cases hS : (ownSpent b.diffs).find? (·.id == id) with
    | some e =>
      have hmem := List.mem_of_find?_eq_some hS
      have hid : e.id = id := by simpa using List.find?_some hS
      have hany : (ownSpent b.diffs).any (·.id == id) = true := List.any_eq_true.mpr ⟨e, hmem, by simp [hid]⟩
      have := hv.spentPresent e hmem
      rw [hid] at this
      simp [hany, this]
    | none =>
      have hany : (ownSpent b.diffs).any (·.id == id) = false := by
        rw [List.any_eq_false]; intro x hx
        have := List.find?_eq_none.mp hS x hx
        simpa using this
      simp only [hany, Bool.false_eq_true, ↓reduceIte, rebase]
      cases s.utxos id <;> simp

theorem sum_map_add (ids : List Nat) (f g : Nat → Nat) :
    (ids.map fun i => f i + g i).sum = (ids.map f).sum + (ids.map g).sum := by
  induction ids with
  | nil => rfl
  | cons i ids ih => simp only [List.map_cons, List.sum_cons, ih]; omega

theorem sum_ite_zero (ids : List Nat) (a v : Nat) (h : a ∉ ids) :
    (ids.map fun id => if a = id then v else 0).sum = 0 := by
  induction ids with
  | nil => rfl
  | cons i ids ih =>
    simp only [List.mem_cons, not_or] at h
    simp only [List.map_cons, List.sum_cons, ih h.2]
    simp [h.1]

theorem sum_ite_one (ids : List Nat) (hn : ids.Nodup) (a v : Nat) (h : a ∈ ids) :
    (ids.map fun id => if a = id then v else 0).sum = v := by
  induction ids with
  | nil => cases h
  | cons i ids ih =>
    simp only [List.nodup_cons] at hn
    simp only [List.map_cons, List.sum_cons]
    by_cases hai : a = i
    · subst hai
      rw [sum_ite_zero ids a v hn.1]; simp
    · rcases List.mem_cons.mp h with hh | hh
      · exact absurd hh hai
      · rw [ih hn.2 hh]; simp [hai]

theorem valE_cons (e : Elem) (es : List Elem) (id : Nat) :
    valE (e :: es) id = if e.id = id then e.value else valE es id := by
  simp only [valE, List.find?_cons]
  by_cases h : e.id = id
  · simp [h]
  · have : (e.id == id) = false := by simp [h]
    simp [this, h]

/-- a duplicate-free id list that contains the ids of a duplicate-free element list sees each
element's value exactly once -/
theorem sum_valE (ids : List Nat) (hn : ids.Nodup) (es : List Elem) (hes : (es.map (·.id)).Nodup)
    (hsub : ∀ e ∈ es, e.id ∈ ids) : (ids.map (valE es)).sum = sumE es := by
  induction es with
  | nil =>
    have : ids.map (valE []) = ids.map fun _ => 0 := List.map_congr_left (fun _ _ => rfl)
    rw [this]
    clear this hn hsub
    induction ids with
    | nil => rfl
    | cons i ids ih => simpa [sumE] using ih
  | cons e es ih =>
    simp only [List.map_cons, List.nodup_cons] at hes
    have ih' := ih hes.2 (fun x hx => hsub x (List.mem_cons_of_mem _ hx))
    have hzero : valE es e.id = 0 := by
      have : es.find? (·.id == e.id) = none := by
        rw [List.find?_eq_none]; intro x hx hxe
        have hxe' : x.id = e.id := by simpa using hxe
        exact hes.1 (hxe' ▸ List.mem_map_of_mem (f := (·.id)) hx)
      simp [valE, this]
    have hsplit : ∀ id, valE (e :: es) id = (if e.id = id then e.value else 0) + valE es id := by
      intro id
      rw [valE_cons]
      by_cases h : e.id = id
      · subst h; rw [hzero]; simp
      · simp [h]
    have : (ids.map (valE (e :: es))) = ids.map fun id => (if e.id = id then e.value else 0) + valE es id := by
      apply List.map_congr_left; intro id _; exact hsplit id
    rw [this, sum_map_add, sum_ite_one ids hn e.id e.value (hsub e (List.mem_cons_self ..)), ih']
    simp [sumE]

/-- the stored total moves by exactly what the block creates for and spends from the wallet -/
theorem total_apply (s : Store) (b : Block) (hv : ValidOn s b) (ids : List Nat) (hn : ids.Nodup)
    (hC : ∀ e ∈ ownCreated b.diffs, e.id ∈ ids) (hS : ∀ e ∈ ownSpent b.diffs, e.id ∈ ids) :
    total (s.apply b) ids + sumE (ownSpent b.diffs) = total s ids + sumE (ownCreated b.diffs) := by
  have h1 : (ids.map fun i => val (s.apply b) i + valE (ownSpent b.diffs) i) =
      ids.map fun i => val s i + valE (ownCreated b.diffs) i := by
    apply List.map_congr_left; intro id _; exact val_apply s b hv id
  have h2 := congrArg List.sum h1
  rw [sum_map_add, sum_map_add, sum_valE ids hn _ hv.spentNodup hS, sum_valE ids hn _ hv.createdNodup hC] at h2
  exact h2

/-- the events of a block account for exactly what the block creates for and spends from the wallet -/
def Accounted (b : Block) : Prop :=
  netIn (appliedEvents b) + sumE (ownSpent b.diffs) = netOut (appliedEvents b) + sumE (ownCreated b.diffs)

theorem netIn_append (a b : List Event) : netIn (a ++ b) = netIn a + netIn b := by simp [netIn]
theorem netOut_append (a b : List Event) : netOut (a ++ b) = netOut a + netOut b := by simp [netOut]

theorem balance_chain (ids : List Nat) (hn : ids.Nodup) :
    ∀ (c : List Block) (s : Store), ChainValid s c →
      (∀ b ∈ c, Accounted b ∧ (∀ e ∈ ownCreated b.diffs, e.id ∈ ids) ∧ (∀ e ∈ ownSpent b.diffs, e.id ∈ ids)) →
      netIn s.events = netOut s.events + total s ids →
      netIn (c.foldl Store.apply s).events = netOut (c.foldl Store.apply s).events + total (c.foldl Store.apply s) ids := by
  intro c
  induction c with
  | nil => intro s _ _ h; exact h
  | cons b c ih =>
    intro s hv hb h
    apply ih _ hv.2 (fun x hx => hb x (List.mem_cons_of_mem _ hx))
    have ⟨hacc, hC, hS⟩ := hb b (List.mem_cons_self ..)
    have ht := total_apply s b hv.1 ids hn hC hS
    simp only [Store.apply, netIn_append, netOut_append]
    have ht' : total (s.apply b) ids = total { tip := b.idx, utxos := add b.idx (remove (rebase b.idx s.utxos) (ownSpent b.diffs)) (ownCreated b.diffs), events := s.events ++ appliedEvents b } ids := rfl
    unfold Accounted at hacc
    rw [← ht']
    omega

/-! ### the events of a coherent block account for its diffs -/

/-- "the events so far record `I` of inflow and `O` of outflow, up to events that were dropped
because their inflow equals their outflow" -/
def Net (acc : List Event) (I O : Nat) : Prop := netIn acc + O = netOut acc + I

theorem net_addEvent (idx : Nat) (acc : List Event) (id : Nat) (k : Kind) (i o m I O : Nat) (h : Net acc I O) :
    Net (addEvent idx acc id k i o m) (I + i) (O + o) := by
  unfold addEvent Net at *
  split
  · omega
  · simp only [netIn, netOut, List.map_append, List.sum_append, List.map_cons, List.map_nil, List.sum_cons, List.sum_nil] at *
    omega

theorem net_foldl {α} (f : List Event → α → List Event) (gi go : α → Nat) (l : List α)
    (hf : ∀ x ∈ l, ∀ acc I O, Net acc I O → Net (f acc x) (I + gi x) (O + go x))
    (acc : List Event) (I O : Nat) (h : Net acc I O) :
    Net (l.foldl f acc) (I + (l.map gi).sum) (O + (l.map go).sum) := by
  induction l generalizing acc I O with
  | nil => simpa using h
  | cons x l ih =>
    have h1 := hf x (List.mem_cons_self ..) acc I O h
    have h2 := ih (fun y hy => hf y (List.mem_cons_of_mem _ hy)) _ _ _ h1
    simp only [List.foldl_cons, List.map_cons, List.sum_cons]
    have e1 : I + (gi x + (l.map gi).sum) = I + gi x + (l.map gi).sum := by omega
    have e2 : O + (go x + (l.map go).sum) = O + go x + (l.map go).sum := by omega
    rw [e1, e2]; exact h2

theorem sum_map_ite {α} (l : List α) (p : α → Bool) (f : α → Nat) :
    (l.map fun x => if p x then f x else 0).sum = ((l.filter p).map f).sum := by
  induction l with
  | nil => rfl
  | cons x l ih =>
    simp only [List.map_cons, List.sum_cons, List.filter_cons, ih]
    cases p x <;> simp

theorem sum_map_zero {α} (l : List α) : (l.map fun _ => 0).sum = 0 := by
  induction l with
  | nil => rfl
  | cons x l ih => simpa using ih

theorem net_payout (b : Block) (k : Kind) (acc : List Event) (id I O : Nat) (h : Net acc I O) :
    Net (payout b k acc id) (I + elemValue b id) O := by
  cases hl : lookup b.diffs id with
  | none => simpa [payout, elemValue, hl] using h
  | some sce => simpa [payout, elemValue, hl] using net_addEvent b.idx acc id k sce.value 0 sce.maturity I O h

theorem net_payoutIfOwn (b : Block) (k : Kind) (acc : List Event) (id I O : Nat) (h : Net acc I O) :
    Net (payoutIfOwn b k acc id) (I + ownValue b id) O := by
  cases hl : lookup b.diffs id with
  | none => simpa [payoutIfOwn, ownValue, hl] using h
  | some sce =>
    cases ho : sce.own with
    | false => simpa [payoutIfOwn, ownValue, hl, ho] using h
    | true => simpa [payoutIfOwn, ownValue, hl, ho] using net_addEvent b.idx acc id k sce.value 0 sce.maturity I O h

theorem net_claimEvents (b : Block) (t : Txn) (acc : List Event) (I O : Nat) (h : Net acc I O) :
    Net (claimEvents b acc t) (I + claimSum b t) O := by
  have := net_foldl (fun acc (si : SfIn) => if si.claimOwn then payout b .claim acc si.claimId else acc)
    (fun si : SfIn => if si.claimOwn then elemValue b si.claimId else 0) (fun _ => 0) t.sfins
    (fun si _ acc I O h => by
      cases hc : si.claimOwn with
      | false => simpa [hc] using h
      | true => simpa [hc] using net_payout b .claim acc si.claimId I O h) acc I O h
  rw [sum_map_ite, sum_map_zero] at this
  simpa [claimEvents, claimSum] using this

theorem not_any_filter {α} (l : List α) (p : α → Bool) (h : l.any p = false) : l.filter p = [] := by
  rw [List.filter_eq_nil_iff]; intro x hx
  have := List.any_eq_false.mp h x hx
  simpa using this

/-- a transaction the relevance filter skips neither pays nor takes anything -/
theorem irrelevant_zero (b : Block) (hc : v1InsCoherent b = true) (t : Txn) (ht : t ∈ b.txns) (hr : relevant t = false) :
    claimSum b t = 0 ∧ sumOwnOuts t = 0 ∧ txnOutflow b t = 0 := by
  unfold relevant at hr
  simp only [Bool.or_eq_false_iff] at hr
  obtain ⟨⟨ho, hi⟩, hs⟩ := hr
  refine ⟨?_, ?_, ?_⟩
  · simp [claimSum, not_any_filter _ _ hs]
  · simp [sumOwnOuts, not_any_filter _ _ ho]
  · unfold txnOutflow
    split
    · simp [v2Outflow, not_any_filter _ _ hi]
    · rename_i hv2
      unfold v1Outflow
      have hall : ∀ i ∈ t.ins, ownValue b i.id = 0 := by
        intro i hi'
        have hown : i.own = false := by
          have := List.any_eq_false.mp hi i hi'; simpa using this
        unfold v1InsCoherent at hc
        have h1 := List.all_eq_true.mp hc t ht
        have hv : t.v2 = false := by simpa using hv2
        simp only [hv, Bool.false_or, List.all_eq_true] at h1
        have h2 := h1 i hi'
        unfold ownValue
        cases hl : lookup b.diffs i.id with
        | none => rfl
        | some se =>
          rw [hl] at h2
          have : se.own = false := by simpa [hown] using h2
          simp [this]
      rw [List.map_congr_left hall, sum_map_zero]

theorem net_txnEvents (b : Block) (hc : v1InsCoherent b = true) (t : Txn) (ht : t ∈ b.txns)
    (acc : List Event) (I O : Nat) (h : Net acc I O) :
    Net (txnEvents b acc t) (I + (claimSum b t + sumOwnOuts t)) (O + txnOutflow b t) := by
  unfold txnEvents
  split
  · rename_i hr
    have hz := irrelevant_zero b hc t ht (by simpa using hr)
    rw [hz.1, hz.2.1, hz.2.2]; simpa using h
  · have h1 := net_claimEvents b t acc I O h
    simp only
    unfold txnOutflow
    split
    · have := net_addEvent b.idx _ t.id .v2txn (sumOwnOuts t) (v2Outflow t) b.height _ _ h1
      simpa [Nat.add_assoc] using this
    · have := net_addEvent b.idx _ t.id .v1txn (sumOwnOuts t) (v1Outflow b t) b.height _ _ h1
      simpa [Nat.add_assoc] using this

theorem net_res1Events (b : Block) (r : Res1) (acc : List Event) (I O : Nat) (h : Net acc I O) :
    Net (res1Events b acc r) (I + ((r.outs.filter (·.1)).map fun o => elemValue b o.2).sum) O := by
  unfold res1Events
  have := net_foldl (fun acc (o : Bool × Nat) => if o.1 then payout b .v1res acc o.2 else acc)
    (fun o => if o.1 then elemValue b o.2 else 0) (fun _ => 0) r.outs
    (by
      intro o _ acc I O h
      cases ho : o.1 with
      | false => simpa [ho] using h
      | true => simpa [ho] using net_payout b .v1res acc o.2 I O h) acc I O h
  rw [sum_map_ite, sum_map_zero] at this
  simpa using this

/-- **the events of a block record exactly what its contents pay to and take from the wallet** -/
theorem net_appliedEvents (b : Block) (hc : v1InsCoherent b = true) :
    Net (appliedEvents b) (paid b) (taken b) := by
  unfold appliedEvents paid taken
  simp only
  have h0 : Net [] 0 0 := by simp [Net, netIn, netOut]
  have h1 := net_foldl (txnEvents b) (fun t => claimSum b t + sumOwnOuts t) (txnOutflow b) b.txns
    (fun t ht acc I O h => net_txnEvents b hc t ht acc I O h) [] 0 0 h0
  have h2 := net_foldl (res1Events b) (fun r => ((r.outs.filter (·.1)).map fun o => elemValue b o.2).sum) (fun _ => 0) b.res1
    (fun r _ acc I O h => by simpa using net_res1Events b r acc I O h) _ _ _ h1
  have h3 := net_foldl (res2Events b) (fun r => ownValue b r.hostId + ownValue b r.renterId) (fun _ => 0) b.res2
    (fun r _ acc I O h => by
      have := net_payoutIfOwn b .v2res _ r.renterId _ _ (net_payoutIfOwn b .v2res acc r.hostId I O h)
      simpa [res2Events, Nat.add_assoc] using this) _ _ _ h2
  have h4 := net_foldl (fun acc (m : Bool × Nat) => if m.1 then payout b .miner acc m.2 else acc)
    (fun m => if m.1 then elemValue b m.2 else 0) (fun _ => 0) b.miners
    (fun m _ acc I O h => by
      cases hm : m.1 with
      | false => simpa [hm] using h
      | true => simpa [hm] using net_payout b .miner acc m.2 I O h) _ _ _ h3
  have h5 := net_payoutIfOwn b .foundation _ b.foundationId _ _ h4
  rw [sum_map_ite] at h5
  simp only [sum_map_zero, Nat.add_zero, Nat.zero_add] at h5
  exact h5

/-- a coherent block is accounted: its events record, in total, exactly what its diffs create for
and spend from the wallet -/
theorem accounted_of_coherent (b : Block) (h : BlockCoherent b) : Accounted b := by
  unfold BlockCoherent coherent at h
  simp only [Bool.and_eq_true, decide_eq_true_eq] at h
  obtain ⟨⟨hc, hs⟩, hi⟩ := h
  have hn := net_appliedEvents b hi
  unfold Net at hn
  unfold Accounted
  omega

theorem total_init (ids : List Nat) : total Store.init ids = 0 := by
  induction ids with
  | nil => rfl
  | cons i ids ih => simpa [total, val, Store.init] using ih

instance (b : Block) : Decidable (Accounted b) := by unfold Accounted; infer_instance

end Verif.WalletLedger
