/-
Frame lemmas for the pool (C05 retention): a block that touches no input of any pooled
transaction leaves the re-validated pool exactly as it was.  Core only.
-/
import Verif.Lemmas.PoolValid

namespace Verif.Pool

/-! ## the ledger away from a block's elements -/

theorem lookup_filter_key (e : Nat) (pred : Nat × Nat → Bool) : ∀ (xs : List (Nat × Nat)),
    (∀ p ∈ xs, p.1 = e → pred p = true) → (xs.filter pred).lookup e = xs.lookup e
  | [], _ => rfl
  | (k, v) :: xs, h => by
    by_cases hk : e = k
    · subst hk
      have : pred (e, v) = true := h (e, v) (by simp) rfl
      simp [List.filter, this, List.lookup]
    · have ih := lookup_filter_key e pred xs (fun p hp => h p (by simp [hp]))
      have hne : (e == k) = false := by simpa using hk
      by_cases hp : pred (k, v) = true
      · simp [List.filter, hp, List.lookup, hne, ih]
      · simp [List.filter, hp, List.lookup, hne, ih]

theorem lookup_append_right_none (e : Nat) : ∀ (xs ys : List (Nat × Nat)), e ∉ ids ys →
    (xs ++ ys).lookup e = xs.lookup e
  | [], ys, h => by
    induction ys with
    | nil => rfl
    | cons p ys ih =>
      obtain ⟨k, v⟩ := p
      simp only [ids, List.map_cons, List.mem_cons, not_or] at h
      have hne : (e == k) = false := by simpa using h.1
      simp only [List.nil_append, List.lookup, hne]
      simpa using ih (by simpa [ids] using h.2)
  | (k, v) :: xs, ys, h => by
    simp only [List.cons_append, List.lookup]
    cases (e == k)
    · exact lookup_append_right_none e xs ys h
    · rfl

theorem leafOf_apply (l : Ledger) (b : Blk) (e : Nat) (h1 : e ∉ ids b.spent) (h2 : e ∉ ids b.created) :
    (l.apply b).leafOf e = l.leafOf e := by
  unfold Ledger.leafOf Ledger.apply
  simp only
  rw [lookup_filter_key, lookup_append_right_none _ _ _ h2]
  intro p _ hp
  simp only [Bool.not_eq_true', List.contains_eq_mem, decide_eq_false_iff_not]
  rw [hp]; exact h1

/-! ## validity only looks at the ledger through the transaction's own inputs -/

theorem inpRes_ledger (l l' : Ledger) (c : List Nat) (v2 : Bool) (i : Inp) (h : l'.leafOf i.elem = l.leafOf i.elem) :
    inpRes l' c v2 i = inpRes l c v2 i := by
  unfold inpRes; rw [h]

theorem inputsOk_ledger (l l' : Ledger) (c : List Nat) (v2 : Bool) : ∀ (is : List Inp) (s : List Nat),
    (∀ i ∈ is, l'.leafOf i.elem = l.leafOf i.elem) → inputsOk l' c v2 s is = inputsOk l c v2 s is
  | [], _, _ => rfl
  | i :: is, s, h => by
    simp only [inputsOk, inpOk]
    rw [inpRes_ledger l l' c v2 i (h i (by simp)), inputsOk_ledger l l' c v2 is _ (fun j hj => h j (by simp [hj]))]

/-- the tip moved without crossing a rule boundary that matters to the pool -/
structure SameRules (cfg : Cfg) (l l' : Ledger) : Prop where
  era : eraOf cfg l'.height = eraOf cfg l.height
  h1 : heightOk cfg l' false = heightOk cfg l false
  h2 : heightOk cfg l' true = heightOk cfg l true

theorem txValid_ledger (cfg : Cfg) (l l' : Ledger) (hr : SameRules cfg l l') (ms : MidState) (v2 : Bool) (t : Txn)
    (h : ∀ i ∈ t.inputs, l'.leafOf i.elem = l.leafOf i.elem) :
    txValid cfg l' ms v2 t = txValid cfg l ms v2 t := by
  unfold txValid
  rw [inputsOk_ledger l l' _ v2 t.inputs _ h, hr.era]
  cases v2
  · rw [hr.h1]
  · rw [hr.h2]

theorem seqValid_ledger (cfg : Cfg) (l l' : Ledger) (hr : SameRules cfg l l') (v2 : Bool) : ∀ (ts : List Txn) (ms : MidState),
    (∀ t ∈ ts, ∀ i ∈ t.inputs, l'.leafOf i.elem = l.leafOf i.elem) →
    seqValid cfg l' v2 ms ts = seqValid cfg l v2 ms ts
  | [], _, _ => rfl
  | t :: ts, ms, h => by
    simp only [seqValid]
    rw [txValid_ledger cfg l l' hr ms v2 t (h t (by simp)),
      seqValid_ledger cfg l l' hr v2 ts _ (fun u hu => h u (by simp [hu]))]

/-! ## re-validating a valid sequence keeps all of it -/

theorem refill_keeps_all (cfg : Cfg) (l : Ledger) (v2 : Bool) : ∀ (ts : List Txn) (a : Acc),
    seqValid cfg l v2 a.ms ts = true → (ts.map (·.id)).Nodup → (∀ t ∈ ts, a.idx t.id = none) →
    (refill cfg l v2 a ts).kept = a.kept ++ ts ∧ (refill cfg l v2 a ts).ms = msOf a.ms ts ∧
    (∀ id, id ∉ ts.map (·.id) → (refill cfg l v2 a ts).idx id = a.idx id) ∧
    (∀ t ∈ ts, ((refill cfg l v2 a ts).idx t.id).isSome)
  | [], a, _, _, _ => by simp [refill, msOf]
  | t :: ts, a, hv, hnd, hn => by
    simp only [seqValid, Bool.and_eq_true] at hv
    simp only [List.map_cons, List.nodup_cons] at hnd
    have hs : refillStep cfg l v2 a t = push a t := by
      unfold refillStep
      rw [hn t (by simp)]
      simp [hv.1]
    rw [refill, hs]
    have hn' : ∀ u ∈ ts, (push a t).idx u.id = none := by
      intro u hu
      have hne : u.id ≠ t.id := fun e => hnd.1 (e ▸ List.mem_map_of_mem hu)
      simp [push, upd_other _ _ _ _ hne, hn u (by simp [hu])]
    obtain ⟨h1, h2, h3, h4⟩ := refill_keeps_all cfg l v2 ts (push a t) (by simpa [push] using hv.2) hnd.2 hn'
    refine ⟨by rw [h1]; simp [push], by rw [h2]; simp [push, msOf], ?_, ?_⟩
    · intro id hid
      simp only [List.map_cons, List.mem_cons, not_or] at hid
      rw [h3 id hid.2]; simp [push, upd_other _ _ _ _ hid.1]
    · intro u hu
      rcases List.mem_cons.1 hu with rfl | hu
      · by_cases hm : u.id ∈ ts.map (·.id)
        · obtain ⟨w, hw, e⟩ := List.mem_map.1 hm
          rw [← e]; exact h4 w hw
        · rw [h3 _ hm]; simp [push]
      · exact h4 u hu

/-- … and offering it transactions that are known or invalid adds nothing -/
theorem refill_skips (cfg : Cfg) (l : Ledger) (v2 : Bool) : ∀ (ws : List Txn) (a : Acc),
    (∀ w ∈ ws, (a.idx w.id).isSome = true ∨ txValid cfg l a.ms v2 w = false) →
    refill cfg l v2 a ws = a
  | [], _, _ => rfl
  | w :: ws, a, h => by
    have hs : refillStep cfg l v2 a w = a := by
      unfold refillStep
      rcases h w (by simp) with h1 | h1
      · simp [h1]
      · simp [h1]
    rw [refill, hs]
    exact refill_skips cfg l v2 ws a (fun u hu => h u (by simp [hu]))

theorem refill_append (cfg : Cfg) (l : Ledger) (v2 : Bool) : ∀ (xs ys : List Txn) (a : Acc),
    refill cfg l v2 a (xs ++ ys) = refill cfg l v2 (refill cfg l v2 a xs) ys
  | [], _, _ => rfl
  | x :: xs, ys, a => by simp [refill, refill_append cfg l v2 xs ys]

theorem nodup_of_index (f : Nat → Option Nat) : ∀ (ts : List Txn) (k : Nat),
    (∀ i t, ts[i]? = some t → f t.id = some (i + k)) → (ts.map (·.id)).Nodup
  | [], _, _ => by simp
  | t0 :: ts, k, h => by
    simp only [List.map_cons, List.nodup_cons]
    constructor
    · intro hm
      obtain ⟨u, hu, e⟩ := List.mem_map.1 hm
      obtain ⟨j, hj⟩ := List.getElem?_of_mem hu
      have h1 := h (j + 1) u (by simpa using hj)
      have h0 := h 0 t0 (by simp)
      rw [e, h0] at h1
      have := Option.some.inj h1
      omega
    · apply nodup_of_index f ts (k + 1)
      intro i t hi
      have := h (i + 1) t (by simpa using hi)
      rw [this]; congr 1; omega

theorem IdxOK.nodup1 {p : Pool} (h : IdxOK p) : (p.txns.map (·.id)).Nodup :=
  nodup_of_index p.indices p.txns 0 (fun i t hi => by simpa using h.v1 i t hi)

theorem IdxOK.nodup2 {p : Pool} (h : IdxOK p) : (p.v2txns.map (·.id)).Nodup :=
  nodup_of_index p.indices p.v2txns 0 (fun i t hi => by simpa using h.v2 i t hi)

theorem confirmInp_id_of_not_created (c : List (Nat × Nat)) (i : Inp) (h : i.elem ∉ ids c) : confirmInp c i = i := by
  unfold confirmInp
  cases hl : i.leaf with
  | some _ => rfl
  | none =>
    have : c.lookup i.elem = none := by
      induction c with
      | nil => rfl
      | cons p c ih =>
        obtain ⟨k, v⟩ := p
        simp only [ids, List.map_cons, List.mem_cons, not_or] at h
        have hne : (i.elem == k) = false := by simpa using h.1
        simp only [List.lookup, hne]
        exact ih (by simpa [ids] using h.2)
    simp [this]

theorem mapInputs_id (t : Txn) (f : Inp → Inp) (h : ∀ i ∈ t.inputs, f i = i) : mapInputs f t = t := by
  unfold mapInputs
  have : t.inputs.map f = t.inputs := by
    conv => rhs; rw [← List.map_id t.inputs]
    exact List.map_congr_left (fun i hi => by simpa using h i hi)
  rw [this]

theorem Conf.kind_ne {S : Nat → Bool × List Nat × List Nat} {t u : Txn} (ht : Conf S false t) (hu : Conf S true u) : t.id ≠ u.id := by
  intro e
  unfold Conf at ht hu
  rw [e, hu] at ht
  simp at ht

/-- **frame**: a block that touches no input of any pooled transaction, crosses no rule boundary,
and after which no remembered reverted transaction becomes acceptable, leaves the re-validated pool
exactly as it was (same transactions, same order), provided the pool is not full. -/
theorem apply_frame (cfg : Cfg) (S : Nat → Bool × List Nat × List Nat) (q : Pool) (b : Blk) (flags : List Bool)
    (hv : Valid cfg q) (hi : IdxOK q) (hc : PoolConf S q)
    (hfull : q.weight < cfg.maxWeight * 10)
    (hun : ∀ t ∈ q.txns ++ q.v2txns, ∀ i ∈ t.inputs, i.elem ∉ ids b.spent ∧ i.elem ∉ ids b.created)
    (hleaf : ∀ t ∈ q.v2txns, proofsOk b.leavesAfter t = true)
    (hr : SameRules cfg q.led (q.led.apply b))
    (hre1 : ∀ w ∈ q.lastReverted, (q.indices w.id).isSome = true ∨
      txValid cfg (q.led.apply b) (msOf MidState.empty q.txns) false w = false)
    (hre2 : ∀ w ∈ zipBad q.lastRevertedV2 flags, (q.indices w.id).isSome = true ∨
      txValid cfg (q.led.apply b) (msOf MidState.empty (q.txns ++ q.v2txns)) true w = false) :
    (revalidate cfg (reorg q [] [b] flags)).txns = q.txns ∧
    (revalidate cfg (reorg q [] [b] flags)).v2txns = q.v2txns := by
  -- the v2 slice passes `applyPoolUpdate` unchanged
  have hv2 : (applyPoolUpdate q b).v2txns = q.v2txns := by
    simp only [applyPoolUpdate]
    have hm : q.v2txns.map (mapInputs (confirmInp b.created)) = q.v2txns := by
      conv => rhs; rw [← List.map_id q.v2txns]
      apply List.map_congr_left
      intro t ht
      simp only [id]
      exact mapInputs_id t _ (fun i hi => confirmInp_id_of_not_created _ i (hun t (by simp [ht]) i hi).2)
    rw [hm]
    exact List.filter_eq_self.2 hleaf
  -- ledger facts
  have hled : ∀ t ∈ q.txns ++ q.v2txns, ∀ i ∈ t.inputs, (q.led.apply b).leafOf i.elem = q.led.leafOf i.elem :=
    fun t ht i hi => leafOf_apply _ _ _ (hun t ht i hi).1 (hun t ht i hi).2
  have hs1 : seqValid cfg (q.led.apply b) false MidState.empty q.txns = true := by
    rw [seqValid_ledger cfg _ _ hr false q.txns _ (fun t ht => hled t (by simp [ht]))]; exact hv.v1
  have hs2 : seqValid cfg (q.led.apply b) true (msOf MidState.empty q.txns) q.v2txns = true := by
    rw [seqValid_ledger cfg _ _ hr true q.v2txns _ (fun t ht => hled t (by simp [ht]))]; exact hv.v2
  -- unfold the re-validation
  have hre : reorg q [] [b] flags =
      { applyPoolUpdate q b with ms := none, lastRevertedV2 := zipBad (applyPoolUpdate q b).lastRevertedV2 flags } := by
    simp [reorg, reorgEnd]
  have hrv : revalidate cfg (reorg q [] [b] flags) = rebuild cfg (reorg q [] [b] flags) := by
    unfold revalidate
    have h1 : (reorg q [] [b] flags).ms = none := reorg_ms _ _ _ _
    have h2 : (reorg q [] [b] flags).weight = q.weight := by rw [hre]; rfl
    rw [h1, h2]
    simp only [Option.isSome_none, Bool.false_and, Bool.false_eq_true, ↓reduceIte]
    rw [if_neg (by omega)]
  rw [hrv, hre]
  simp only [rebuild]
  have e1 : (applyPoolUpdate q b).txns = q.txns := rfl
  have e2 : (applyPoolUpdate q b).lastReverted = q.lastReverted := rfl
  have e3 : (applyPoolUpdate q b).lastRevertedV2 = q.lastRevertedV2 := rfl
  have e4 : (applyPoolUpdate q b).led = q.led.apply b := rfl
  rw [e1, e2, e3, e4, hv2]
  -- first pass
  rw [refill_append]
  obtain ⟨k1, k2, k3, k4⟩ := refill_keeps_all cfg (q.led.apply b) false q.txns ⟨MidState.empty, fun _ => none, 0, []⟩
    hs1 hi.nodup1 (fun _ _ => rfl)
  have hskip1 := refill_skips cfg (q.led.apply b) false q.lastReverted
    (refill cfg (q.led.apply b) false ⟨MidState.empty, fun _ => none, 0, []⟩ q.txns) (by
      intro w hw
      rcases hre1 w hw with h | h
      · left
        have hm := hi.mem w.id h
        simp only [poolIds, List.map_append, List.mem_append, List.mem_map] at hm
        rcases hm with ⟨t, ht, e⟩ | ⟨u, hu, e⟩
        · rw [← e]; exact k4 t ht
        · exact absurd e.symm (Conf.kind_ne (hc.r1 w hw) (hc.t2 u hu))
      · right; rw [k2]; exact h)
  rw [hskip1]
  -- second pass
  rw [refill_append]
  have hn2 : ∀ u ∈ q.v2txns, (refill cfg (q.led.apply b) false ⟨MidState.empty, fun _ => none, 0, []⟩ q.txns).idx u.id = none := by
    intro u hu
    rw [k3]
    intro hm
    obtain ⟨t, ht, e⟩ := List.mem_map.1 hm
    exact Conf.kind_ne (hc.t1 t ht) (hc.t2 u hu) e
  obtain ⟨m1, m2, m3, m4⟩ := refill_keeps_all cfg (q.led.apply b) true q.v2txns
    { refill cfg (q.led.apply b) false ⟨MidState.empty, fun _ => none, 0, []⟩ q.txns with kept := [] }
    (by simpa [k2] using hs2) hi.nodup2 hn2
  have hskip2 := refill_skips cfg (q.led.apply b) true (zipBad q.lastRevertedV2 flags)
    (refill cfg (q.led.apply b) true
      { refill cfg (q.led.apply b) false ⟨MidState.empty, fun _ => none, 0, []⟩ q.txns with kept := [] } q.v2txns) (by
      intro w hw
      rcases hre2 w hw with h | h
      · left
        have hm := hi.mem w.id h
        simp only [poolIds, List.map_append, List.mem_append, List.mem_map] at hm
        rcases hm with ⟨t, ht, e⟩ | ⟨u, hu, e⟩
        · by_cases hm2 : w.id ∈ q.v2txns.map (·.id)
          · obtain ⟨u, hu, e'⟩ := List.mem_map.1 hm2
            rw [← e']; exact m4 u hu
          · rw [m3 _ hm2, ← e]; exact k4 t ht
        · rw [← e]; exact m4 u hu
      · right; rw [m2]; simp only [k2, ← msOf_append]; exact h)
  rw [hskip2]
  exact ⟨by rw [k1]; rfl, by rw [m1]; rfl⟩

end Verif.Pool
