/-
Validity of the pool as a sequence (C05): mid-states up to membership, the re-validation loop,
the submission loops (v2: append at the end; v1: insertion in front of the v2 slice, which needs
that ids determine kind and content — the ideal-hash hypothesis `Conf`).  Core only.
-/
import Verif.Lemmas.Pool

namespace Verif.Pool

/-! ## mid-states up to membership -/

def MidState.Equiv (a b : MidState) : Prop :=
  (∀ e, e ∈ a.spent ↔ e ∈ b.spent) ∧ (∀ e, e ∈ a.created ↔ e ∈ b.created)

infix:50 " ≈ₘ " => MidState.Equiv

theorem MidState.Equiv.refl (a : MidState) : a ≈ₘ a := ⟨fun _ => Iff.rfl, fun _ => Iff.rfl⟩
theorem MidState.Equiv.symm {a b : MidState} (h : a ≈ₘ b) : b ≈ₘ a :=
  ⟨fun e => (h.1 e).symm, fun e => (h.2 e).symm⟩
theorem MidState.Equiv.trans {a b c : MidState} (h : a ≈ₘ b) (h' : b ≈ₘ c) : a ≈ₘ c :=
  ⟨fun e => (h.1 e).trans (h'.1 e), fun e => (h.2 e).trans (h'.2 e)⟩

/-- `inpOk` only asks membership questions -/
theorem inpOk_congr (l : Ledger) {c c' s s' : List Nat} (hc : ∀ e, e ∈ c ↔ e ∈ c') (hs : ∀ e, e ∈ s ↔ e ∈ s')
    (v2 : Bool) (i : Inp) : inpOk l c s v2 i = inpOk l c' s' v2 i := by
  have h1 : s.contains i.elem = s'.contains i.elem := by
    rw [Bool.eq_iff_iff]; simp [hs]
  have h2 : c.contains i.elem = c'.contains i.elem := by
    rw [Bool.eq_iff_iff]; simp [hc]
  unfold inpOk inpRes
  rw [h1, h2]

theorem inputsOk_congr (l : Ledger) {c c' : List Nat} (hc : ∀ e, e ∈ c ↔ e ∈ c') (v2 : Bool) :
    ∀ (is : List Inp) (s s' : List Nat), (∀ e, e ∈ s ↔ e ∈ s') → inputsOk l c v2 s is = inputsOk l c' v2 s' is
  | [], _, _, _ => rfl
  | i :: is, s, s', hs => by
    rw [inputsOk, inputsOk, inpOk_congr l hc hs v2 i]
    rw [inputsOk_congr l hc v2 is (i.elem :: s) (i.elem :: s') (by intro e; simp [hs])]

theorem txValid_congr (cfg : Cfg) (l : Ledger) {ms ms' : MidState} (h : ms ≈ₘ ms') (v2 : Bool) (t : Txn) :
    txValid cfg l ms v2 t = txValid cfg l ms' v2 t := by
  unfold txValid
  rw [inputsOk_congr l h.2 v2 t.inputs ms.spent ms'.spent h.1]

theorem applyTx_congr {ms ms' : MidState} (h : ms ≈ₘ ms') (t : Txn) : applyTx ms t ≈ₘ applyTx ms' t := by
  constructor <;> intro e <;> simp [applyTx, h.1 e, h.2 e]

theorem msOf_congr : ∀ (ts : List Txn) {ms ms' : MidState}, ms ≈ₘ ms' → msOf ms ts ≈ₘ msOf ms' ts
  | [], _, _, h => h
  | t :: ts, _, _, h => msOf_congr ts (applyTx_congr h t)

theorem seqValid_congr (cfg : Cfg) (l : Ledger) (v2 : Bool) : ∀ (ts : List Txn) {ms ms' : MidState}, ms ≈ₘ ms' →
    seqValid cfg l v2 ms ts = seqValid cfg l v2 ms' ts
  | [], _, _, _ => rfl
  | t :: ts, _, _, h => by
    rw [seqValid, seqValid, txValid_congr cfg l h, seqValid_congr cfg l v2 ts (applyTx_congr h t)]

/-! ## `msOf` and `seqValid` over appends; membership in `msOf` -/

theorem msOf_append (ms : MidState) : ∀ (a b : List Txn), msOf ms (a ++ b) = msOf (msOf ms a) b
  | [], _ => rfl
  | t :: a, b => by simp [msOf, msOf_append _ a b]

theorem seqValid_append (cfg : Cfg) (l : Ledger) (v2 : Bool) : ∀ (a b : List Txn) (ms : MidState),
    seqValid cfg l v2 ms (a ++ b) = (seqValid cfg l v2 ms a && seqValid cfg l v2 (msOf ms a) b)
  | [], _, _ => by simp [seqValid, msOf]
  | t :: a, b, ms => by simp [seqValid, msOf, seqValid_append cfg l v2 a b, Bool.and_assoc]

def spentOf (ts : List Txn) : List Nat := ts.flatMap fun t => t.inputs.map (·.elem)
def createdOf (ts : List Txn) : List Nat := ts.flatMap (·.outputs)

theorem mem_msOf_spent : ∀ (ts : List Txn) (ms : MidState) (e : Nat),
    e ∈ (msOf ms ts).spent ↔ e ∈ ms.spent ∨ e ∈ spentOf ts
  | [], ms, e => by simp [msOf, spentOf]
  | t :: ts, ms, e => by
    rw [msOf, mem_msOf_spent ts]
    simp [applyTx, spentOf]
    constructor
    · rintro ((h | h) | h)
      · exact Or.inr (Or.inl h)
      · exact Or.inl h
      · exact Or.inr (Or.inr h)
    · rintro (h | h | h)
      · exact Or.inl (Or.inr h)
      · exact Or.inl (Or.inl h)
      · exact Or.inr h

theorem mem_msOf_created : ∀ (ts : List Txn) (ms : MidState) (e : Nat),
    e ∈ (msOf ms ts).created ↔ e ∈ ms.created ∨ e ∈ createdOf ts
  | [], ms, e => by simp [msOf, createdOf]
  | t :: ts, ms, e => by
    rw [msOf, mem_msOf_created ts]
    simp [applyTx, createdOf]
    constructor
    · rintro ((h | h) | h)
      · exact Or.inr (Or.inl h)
      · exact Or.inl h
      · exact Or.inr (Or.inr h)
    · rintro (h | h | h)
      · exact Or.inl (Or.inr h)
      · exact Or.inl (Or.inl h)
      · exact Or.inr h

/-! ## the loops keep `ms = msOf base kept` and `seqValid base kept` -/

structure AccValid (cfg : Cfg) (l : Ledger) (v2 : Bool) (base : MidState) (a : Acc) : Prop where
  ms : a.ms ≈ₘ msOf base a.kept
  valid : seqValid cfg l v2 base a.kept = true

theorem AccValid.push {cfg l v2 base a} (h : AccValid cfg l v2 base a) (t : Txn)
    (hv : txValid cfg l a.ms v2 t = true) : AccValid cfg l v2 base (push a t) := by
  constructor
  · simp only [Verif.Pool.push, msOf_append, msOf]
    exact applyTx_congr h.ms t
  · simp only [Verif.Pool.push, seqValid_append, h.valid, seqValid, Bool.true_and, Bool.and_true]
    rw [← txValid_congr cfg l h.ms]; exact hv

theorem refill_accValid {cfg l v2 base} : ∀ (ts : List Txn) (a : Acc), AccValid cfg l v2 base a →
    AccValid cfg l v2 base (refill cfg l v2 a ts)
  | [], _, h => h
  | t :: ts, a, h => by
    rw [refill]
    apply refill_accValid ts
    unfold refillStep
    split
    · exact h
    · split
      · rename_i hv; exact h.push t hv
      · exact h

theorem addLoop_accValid {cfg l v2 base} : ∀ (set : List Txn) (a : Acc), AccValid cfg l v2 base a →
    AccValid cfg l v2 base (addLoop cfg l v2 a set).1
  | [], _, h => by simpa [addLoop] using h
  | t :: ts, a, h => by
    unfold addLoop
    by_cases hk : (a.idx t.id).isSome = true
    · simp only [hk, if_true]; exact addLoop_accValid ts a h
    · simp only [hk, Bool.false_eq_true, ↓reduceIte]
      by_cases hv : txValid cfg l a.ms v2 t = true
      · simp only [hv, if_true]; exact addLoop_accValid ts _ (h.push t hv)
      · simp only [hv, Bool.false_eq_true, ↓reduceIte]; exact h

/-- the pool is a valid sequence and its mid-state is the mid-state of that sequence -/
structure Valid (cfg : Cfg) (p : Pool) : Prop where
  ms : ∃ ms, p.ms = some ms ∧ ms ≈ₘ msOf MidState.empty (p.txns ++ p.v2txns)
  v1 : seqValid cfg p.led false MidState.empty p.txns = true
  v2 : seqValid cfg p.led true (msOf MidState.empty p.txns) p.v2txns = true

theorem rebuild_valid (cfg : Cfg) (p : Pool) : Valid cfg (rebuild cfg p) := by
  have h0 : AccValid cfg p.led false MidState.empty (⟨MidState.empty, fun _ => none, 0, []⟩ : Acc) :=
    ⟨MidState.Equiv.refl _, rfl⟩
  have h1 := refill_accValid (p.txns ++ p.lastReverted) _ h0
  have h1' : AccValid cfg p.led true
      (msOf MidState.empty (refill cfg p.led false ⟨MidState.empty, fun _ => none, 0, []⟩ (p.txns ++ p.lastReverted)).kept)
      { refill cfg p.led false ⟨MidState.empty, fun _ => none, 0, []⟩ (p.txns ++ p.lastReverted) with kept := [] } :=
    ⟨h1.ms, rfl⟩
  have h2 := refill_accValid (p.v2txns ++ p.lastRevertedV2) _ h1'
  refine ⟨⟨_, rfl, ?_⟩, h1.valid, h2.valid⟩
  simp only [rebuild, msOf_append]
  exact h2.ms

/-! ## weakening: fewer relevant spent elements, at least the same resolutions -/

theorem inputsOk_weaken (l : Ledger) (c c' : List Nat) (v2 : Bool) : ∀ (is : List Inp) (s s' : List Nat),
    inputsOk l c v2 s is = true →
    (∀ i ∈ is, i.elem ∈ s' → i.elem ∈ s) →
    (∀ i ∈ is, inpRes l c v2 i = true → inpRes l c' v2 i = true) →
    inputsOk l c' v2 s' is = true
  | [], _, _, _, _, _ => rfl
  | i :: is, s, s', h, hs, hr => by
    simp only [inputsOk, inpOk, Bool.and_eq_true, Bool.not_eq_true', List.contains_eq_mem, decide_eq_false_iff_not] at h ⊢
    obtain ⟨⟨h1, h2⟩, h3⟩ := h
    refine ⟨⟨fun hm => h1 (hs i (by simp) hm), hr i (by simp) h2⟩, ?_⟩
    apply inputsOk_weaken l c c' v2 is (i.elem :: s) (i.elem :: s') h3
    · intro j hj hm
      rcases List.mem_cons.1 hm with e | hm
      · simp [e]
      · exact List.mem_cons_of_mem _ (hs j (List.mem_cons_of_mem _ hj) hm)
    · intro j hj; exact hr j (List.mem_cons_of_mem _ hj)

theorem inpRes_mono (l : Ledger) {c c' : List Nat} (h : ∀ e, e ∈ c → e ∈ c') (v2 : Bool) (i : Inp) :
    inpRes l c v2 i = true → inpRes l c' v2 i = true := by
  unfold inpRes
  cases v2
  · simp only [Bool.false_eq_true, ↓reduceIte, Bool.or_eq_true, List.contains_eq_mem, decide_eq_true_eq]
    rintro (h1 | h1)
    · exact Or.inl (h _ h1)
    · exact Or.inr h1
  · simp only [↓reduceIte]
    cases i.leaf with
    | none => simp only [List.contains_eq_mem, decide_eq_true_eq]; exact h _
    | some lf => exact id

/-- a sequence stays valid when the mid-state under it gains created elements and gains only
spent elements that the sequence does not spend -/
theorem seqValid_weaken (cfg : Cfg) (l : Ledger) (v2 : Bool) : ∀ (ts : List Txn) (m m' : MidState),
    seqValid cfg l v2 m ts = true →
    (∀ e ∈ spentOf ts, e ∈ m'.spent → e ∈ m.spent) →
    (∀ e, e ∈ m.created → e ∈ m'.created) →
    seqValid cfg l v2 m' ts = true
  | [], _, _, _, _, _ => rfl
  | t :: ts, m, m', h, hs, hc => by
    simp only [seqValid, Bool.and_eq_true] at h ⊢
    obtain ⟨hv, hrest⟩ := h
    constructor
    · simp only [txValid, Bool.and_eq_true] at hv ⊢
      refine ⟨hv.1, ?_⟩
      apply inputsOk_weaken l m.created m'.created v2 t.inputs m.spent m'.spent hv.2
      · intro i hi hm
        exact hs i.elem (by simp only [spentOf, List.flatMap_cons, List.mem_append, List.mem_map]; exact Or.inl ⟨i, hi, rfl⟩) hm
      · intro i _; exact inpRes_mono l hc v2 i
    · apply seqValid_weaken cfg l v2 ts _ _ hrest
      · intro e he hm
        simp only [applyTx, List.mem_append, List.mem_reverse] at hm ⊢
        rcases hm with hm | hm
        · exact Or.inl hm
        · exact Or.inr (hs e (by simp only [spentOf, List.flatMap_cons, List.mem_append]; exact Or.inr he) hm)
      · intro e he
        simp only [applyTx, List.mem_append] at he ⊢
        rcases he with he | he
        · exact Or.inl he
        · exact Or.inr (hc e he)

/-- what a valid transaction's inputs are: not spent below it, pairwise distinct, resolvable -/
theorem inputsOk_facts (l : Ledger) (c : List Nat) (v2 : Bool) : ∀ (is : List Inp) (s : List Nat),
    inputsOk l c v2 s is = true →
    (∀ i ∈ is, i.elem ∉ s) ∧ (∀ i ∈ is, inpRes l c v2 i = true) ∧ (is.map (·.elem)).Nodup
  | [], _, _ => by simp
  | i :: is, s, h => by
    simp only [inputsOk, inpOk, Bool.and_eq_true, Bool.not_eq_true', List.contains_eq_mem, decide_eq_false_iff_not] at h
    obtain ⟨⟨h1, h2⟩, h3⟩ := h
    obtain ⟨a, b, c'⟩ := inputsOk_facts l c v2 is (i.elem :: s) h3
    refine ⟨?_, ?_, ?_⟩
    · intro j hj
      rcases List.mem_cons.1 hj with rfl | hj
      · exact h1
      · exact fun hm => a j hj (List.mem_cons_of_mem _ hm)
    · intro j hj
      rcases List.mem_cons.1 hj with rfl | hj
      · exact h2
      · exact b j hj
    · simp only [List.map_cons, List.nodup_cons]
      refine ⟨?_, c'⟩
      intro hm
      obtain ⟨j, hj, e⟩ := List.mem_map.1 hm
      exact a j hj (by simp [e])

/-! ## ids determine kind and content (ideal hash) -/

/-- `S` is the (ideal) hash pre-image: the kind, the input elements and the outputs of the
transaction with a given id -/
def Conf (S : Nat → Bool × List Nat × List Nat) (v2 : Bool) (t : Txn) : Prop :=
  S t.id = (v2, t.inputs.map (·.elem), t.outputs)

theorem Conf.mapInputs {S v2 t} (h : Conf S v2 t) (f : Inp → Inp) (hf : ∀ i, (f i).elem = i.elem) :
    Conf S v2 (mapInputs f t) := by
  unfold Conf at h ⊢
  simp only [Verif.Pool.mapInputs, List.map_map]
  rw [h]
  congr 2
  apply List.map_congr_left
  intro i _
  simp [hf i]

@[simp] theorem spentOf_nil : spentOf [] = [] := rfl
@[simp] theorem createdOf_nil : createdOf [] = [] := rfl
theorem spentOf_append (a b : List Txn) : spentOf (a ++ b) = spentOf a ++ spentOf b := by simp [spentOf]
theorem createdOf_append (a b : List Txn) : createdOf (a ++ b) = createdOf a ++ createdOf b := by simp [createdOf]
theorem mem_spentOf {ts : List Txn} {e : Nat} : e ∈ spentOf ts ↔ ∃ t ∈ ts, ∃ i ∈ t.inputs, i.elem = e := by
  simp [spentOf]
theorem mem_createdOf {ts : List Txn} {e : Nat} : e ∈ createdOf ts ↔ ∃ t ∈ ts, e ∈ t.outputs := by
  simp [createdOf]

theorem mem_empty_msOf_spent (ts : List Txn) (e : Nat) : e ∈ (msOf MidState.empty ts).spent ↔ e ∈ spentOf ts := by
  simp [mem_msOf_spent, MidState.empty]
theorem mem_empty_msOf_created (ts : List Txn) (e : Nat) : e ∈ (msOf MidState.empty ts).created ↔ e ∈ createdOf ts := by
  simp [mem_msOf_created, MidState.empty]

/-- **the v1 submission loop keeps the reported order valid**: a v1 transaction is validated after
everything pooled (v1 and v2) but inserted in front of the v2 slice `B`. -/
theorem addLoop_v1_valid (cfg : Cfg) (l : Ledger) (S : Nat → Bool × List Nat × List Nat) (B : List Txn)
    (hB : ∀ u ∈ B, Conf S true u) : ∀ (ts : List Txn) (done : MidState) (a : Acc),
    seqValid cfg l false done ts = true →
    (∀ t ∈ ts, Conf S false t) →
    (∀ e, e ∈ done.created → e ∈ createdOf a.kept) →
    AccIdx B a → (∀ t ∈ a.kept, Conf S false t) →
    a.ms ≈ₘ msOf MidState.empty (a.kept ++ B) →
    seqValid cfg l false MidState.empty a.kept = true →
    seqValid cfg l true (msOf MidState.empty a.kept) B = true →
    (addLoop cfg l false a ts).1.ms ≈ₘ msOf MidState.empty ((addLoop cfg l false a ts).1.kept ++ B) ∧
    seqValid cfg l false MidState.empty (addLoop cfg l false a ts).1.kept = true ∧
    seqValid cfg l true (msOf MidState.empty (addLoop cfg l false a ts).1.kept) B = true
  | [], _, a, _, _, _, _, _, hms, h1, h2 => by simpa [addLoop] using ⟨hms, h1, h2⟩
  | t :: ts, done, a, hset, hconf, hK, hidx, hkc, hms, h1, h2 => by
    simp only [seqValid, Bool.and_eq_true] at hset
    obtain ⟨htv, hrest⟩ := hset
    have htc : Conf S false t := hconf t (by simp)
    unfold addLoop
    by_cases hk : (a.idx t.id).isSome = true
    · simp only [hk, if_true]
      apply addLoop_v1_valid cfg l S B hB ts (applyTx done t) a hrest (fun u hu => hconf u (by simp [hu])) ?_ hidx hkc hms h1 h2
      -- the skipped transaction is pooled in the v1 slice with the same outputs
      intro e he
      simp only [applyTx, List.mem_append] at he
      rcases he with he | he
      · have hm := hidx.mem t.id hk
        simp only [List.map_append, List.mem_append, List.mem_map] at hm
        rcases hm with ⟨u, hu, hid⟩ | ⟨u, hu, hid⟩
        · have := hB u hu
          unfold Conf at this htc
          rw [hid, htc] at this
          simp at this
        · have := hkc u hu
          unfold Conf at this htc
          rw [hid, htc] at this
          have hout : t.outputs = u.outputs := by
            have := congrArg (fun x => x.2.2) this
            simpa using this
          exact mem_createdOf.2 ⟨u, hu, hout ▸ he⟩
      · exact hK e he
    · simp only [hk, Bool.false_eq_true, ↓reduceIte]
      have hn : a.idx t.id = none := by simpa using hk
      by_cases hv : txValid cfg l a.ms false t = true
      · simp only [hv, if_true]
        -- facts about `t` against the pool's mid-state and against the set's own mid-state
        have hv' := hv
        simp only [txValid, Bool.and_eq_true] at hv' htv
        obtain ⟨fa, _, _⟩ := inputsOk_facts l a.ms.created false t.inputs a.ms.spent hv'.2
        obtain ⟨_, fb, _⟩ := inputsOk_facts l done.created false t.inputs done.spent htv.2
        have hnotB : ∀ i ∈ t.inputs, i.elem ∉ spentOf B := by
          intro i hi hm
          apply fa i hi
          rw [hms.1, mem_empty_msOf_spent, spentOf_append]
          exact List.mem_append_right _ hm
        have hnotK : ∀ i ∈ t.inputs, i.elem ∉ spentOf a.kept := by
          intro i hi hm
          apply fa i hi
          rw [hms.1, mem_empty_msOf_spent, spentOf_append]
          exact List.mem_append_left _ hm
        apply addLoop_v1_valid cfg l S B hB ts (applyTx done t) (push a t) hrest (fun u hu => hconf u (by simp [hu]))
        · intro e he
          simp only [applyTx, List.mem_append] at he
          simp only [push, createdOf_append, List.mem_append]
          rcases he with he | he
          · exact Or.inr (mem_createdOf.2 ⟨t, by simp, he⟩)
          · exact Or.inl (hK e he)
        · exact hidx.push t hn
        · intro u hu
          simp only [push, List.mem_append, List.mem_singleton] at hu
          rcases hu with hu | rfl
          · exact hkc u hu
          · exact htc
        · -- the mid-state, up to membership
          constructor
          · intro e
            simp only [push, applyTx, List.mem_append, List.mem_reverse, List.mem_map]
            rw [hms.1 e, mem_empty_msOf_spent, mem_empty_msOf_spent]
            simp only [spentOf_append, List.mem_append]
            have : e ∈ spentOf [t] ↔ ∃ i ∈ t.inputs, i.elem = e := by simp [spentOf]
            rw [this]
            constructor
            · rintro (h | h | h)
              · exact Or.inl (Or.inr h)
              · exact Or.inl (Or.inl h)
              · exact Or.inr h
            · rintro ((h | h) | h)
              · exact Or.inr (Or.inl h)
              · exact Or.inl h
              · exact Or.inr (Or.inr h)
          · intro e
            simp only [push, applyTx, List.mem_append]
            rw [hms.2 e, mem_empty_msOf_created, mem_empty_msOf_created]
            simp only [createdOf_append, List.mem_append]
            have : e ∈ createdOf [t] ↔ e ∈ t.outputs := by simp [createdOf]
            rw [this]
            constructor
            · rintro (h | h | h)
              · exact Or.inl (Or.inr h)
              · exact Or.inl (Or.inl h)
              · exact Or.inr h
            · rintro ((h | h) | h)
              · exact Or.inr (Or.inl h)
              · exact Or.inl h
              · exact Or.inr (Or.inr h)
        · -- `t` is valid right after the v1 slice
          simp only [push, seqValid_append, h1, seqValid, Bool.true_and, Bool.and_true]
          simp only [txValid, Bool.and_eq_true]
          refine ⟨hv'.1, ?_⟩
          apply inputsOk_weaken l a.ms.created _ false t.inputs a.ms.spent _ hv'.2
          · intro i hi hm
            exact absurd ((mem_empty_msOf_spent _ _).1 hm) (hnotK i hi)
          · intro i hi _
            apply inpRes_mono l _ false i (fb i hi)
            intro e he
            exact (mem_empty_msOf_created _ _).2 (hK e he)
        · -- the v2 slice is still valid behind it
          simp only [push, msOf_append, msOf]
          apply seqValid_weaken cfg l true B _ _ h2
          · intro e he hm
            simp only [applyTx, List.mem_append, List.mem_reverse, List.mem_map] at hm
            rcases hm with ⟨i, hi, rfl⟩ | hm
            · exact absurd he (hnotB i hi)
            · exact hm
          · intro e he
            simp only [applyTx, List.mem_append]
            exact Or.inr he
      · simp only [hv, Bool.false_eq_true, ↓reduceIte]
        exact ⟨hms, h1, h2⟩

/-! ## submissions keep the pool valid -/

structure PoolConf (S : Nat → Bool × List Nat × List Nat) (p : Pool) : Prop where
  t1 : ∀ t ∈ p.txns, Conf S false t
  t2 : ∀ t ∈ p.v2txns, Conf S true t
  r1 : ∀ t ∈ p.lastReverted, Conf S false t
  r2 : ∀ t ∈ p.lastRevertedV2, Conf S true t

theorem addSet_valid (cfg : Cfg) (S : Nat → Bool × List Nat × List Nat) (v2 : Bool) (p : Pool) (set : List Txn)
    (hv : Valid cfg p) (hi : IdxOK p) (hc : PoolConf S p) (hs : ∀ t ∈ set, Conf S v2 t) :
    (addSet cfg v2 p set).1.ms.isSome = true → Valid cfg (addSet cfg v2 p set).1 := by
  unfold addSet
  rw [checkTxnSet_eq]
  by_cases hsv : seqValid cfg p.led v2 MidState.empty set = true
  · simp only [hsv, if_true]
    cases hall : (set.all fun t => (p.indices t.id).isSome)
    · simp only
      obtain ⟨ms, hmse, hmsq⟩ := hv.ms
      simp only [hmse]
      cases v2
      · -- v1: inserted in front of the v2 slice
        simp only [Bool.false_eq_true, ↓reduceIte]
        have key := addLoop_v1_valid cfg p.led S p.v2txns hc.t2 set MidState.empty ⟨ms, p.indices, p.weight, p.txns⟩
          hsv hs (by simp [MidState.empty]) (hi.acc false ms) hc.t1 hmsq hv.v1 hv.v2
        generalize addLoop cfg p.led false ⟨ms, p.indices, p.weight, p.txns⟩ set = r at key
        obtain ⟨a, b⟩ := r
        cases b
        · intro h; simp at h
        · intro _
          exact ⟨⟨a.ms, rfl, by simpa [setOwn] using key.1⟩, by simpa [setOwn] using key.2.1, by simpa [setOwn] using key.2.2⟩
      · -- v2: appended at the very end
        simp only [↓reduceIte]
        have h0 : AccValid cfg p.led true (msOf MidState.empty p.txns) ⟨ms, p.indices, p.weight, p.v2txns⟩ :=
          ⟨by simpa [msOf_append] using hmsq, hv.v2⟩
        have key := addLoop_accValid set _ h0
        generalize addLoop cfg p.led true ⟨ms, p.indices, p.weight, p.v2txns⟩ set = r at key
        obtain ⟨a, b⟩ := r
        cases b
        · intro h; simp at h
        · intro _
          exact ⟨⟨a.ms, rfl, by simpa [setOwn, msOf_append] using key.ms⟩, by simpa [setOwn] using hv.v1, by simpa [setOwn] using key.valid⟩
    · simp only; exact fun _ => hv
  · simp only [hsv, Bool.false_eq_true, if_false]; exact fun _ => hv

/-! ## `Conf` through every operation -/

theorem refill_kept_sub {cfg l v2} : ∀ (ts : List Txn) (a : Acc) (t : Txn),
    t ∈ (refill cfg l v2 a ts).kept → t ∈ a.kept ∨ t ∈ ts
  | [], _, _, h => Or.inl h
  | u :: ts, a, t, h => by
    rw [refill] at h
    rcases refill_kept_sub ts _ t h with h | h
    · unfold refillStep at h
      split at h
      · exact Or.inl h
      · split at h
        · simp only [push, List.mem_append, List.mem_singleton] at h
          rcases h with h | rfl
          · exact Or.inl h
          · exact Or.inr (by simp)
        · exact Or.inl h
    · exact Or.inr (List.mem_cons_of_mem _ h)

theorem keepIdx_sub (ts : List Txn) (keep : List Nat) (t : Txn) (h : t ∈ keepIdx ts keep) : t ∈ ts := by
  unfold keepIdx at h
  simp only [List.mem_filterMap] at h
  obtain ⟨⟨u, i⟩, hm, hu⟩ := h
  split at hu
  · cases hu; exact (List.mem_zipIdx hm).2.2 ▸ List.getElem_mem _
  · cases hu

theorem evict_conf {S cfg p} (h : PoolConf S p) : PoolConf S (evict cfg p) := by
  unfold evict
  exact ⟨fun t ht => h.t1 t (keepIdx_sub _ _ t ht), fun t ht => h.t2 t (keepIdx_sub _ _ t ht), h.r1, h.r2⟩

theorem rebuild_conf {S cfg p} (h : PoolConf S p) : PoolConf S (rebuild cfg p) := by
  refine ⟨?_, ?_, by simp [rebuild], by simp [rebuild]⟩
  · intro t ht
    rcases refill_kept_sub _ _ t ht with h' | h'
    · simp at h'
    · rcases List.mem_append.1 h' with h' | h'
      · exact h.t1 t h'
      · exact h.r1 t h'
  · intro t ht
    rcases refill_kept_sub _ _ t ht with h' | h'
    · simp at h'
    · rcases List.mem_append.1 h' with h' | h'
      · exact h.t2 t h'
      · exact h.r2 t h'

theorem revalidate_conf {S cfg p} (h : PoolConf S p) : PoolConf S (revalidate cfg p) := by
  unfold revalidate
  split
  · exact h
  · split
    · exact rebuild_conf (evict_conf h)
    · exact rebuild_conf h

theorem confirmInp_elem (c : List (Nat × Nat)) (i : Inp) : (confirmInp c i).elem = i.elem := by
  unfold confirmInp
  cases i.leaf with
  | some _ => rfl
  | none => simp only; cases c.lookup i.elem <;> rfl

theorem unconfirmInp_elem (c : List (Nat × Nat)) (i : Inp) : (unconfirmInp c i).elem = i.elem := by
  unfold unconfirmInp
  cases i.leaf with
  | none => rfl
  | some _ => simp only; split <;> rfl

theorem applyPoolUpdate_conf {S p} (b : Blk) (h : PoolConf S p) : PoolConf S (applyPoolUpdate p b) := by
  refine ⟨h.t1, ?_, h.r1, h.r2⟩
  intro t ht
  simp only [applyPoolUpdate, List.mem_filter, List.mem_map] at ht
  obtain ⟨⟨u, hu, rfl⟩, _⟩ := ht
  exact (h.t2 u hu).mapInputs _ (confirmInp_elem _)

theorem revertPoolUpdate_conf {S p} (b : Blk) (h : PoolConf S p) : PoolConf S (revertPoolUpdate p b) := by
  refine ⟨h.t1, ?_, h.r1, h.r2⟩
  intro t ht
  simp only [revertPoolUpdate, List.mem_filter, List.mem_map] at ht
  obtain ⟨⟨u, hu, rfl⟩, _⟩ := ht
  exact (h.t2 u hu).mapInputs _ (unconfirmInp_elem _)

theorem foldl_conf {S} (f : Pool → Blk → Pool) (hf : ∀ p b, PoolConf S p → PoolConf S (f p b)) :
    ∀ (bs : List Blk) (p : Pool), PoolConf S p → PoolConf S (bs.foldl f p)
  | [], _, h => h
  | b :: bs, p, h => foldl_conf f hf bs _ (hf p b h)

theorem zipBad_conf {S} : ∀ (ts : List Txn) (fl : List Bool), (∀ t ∈ ts, Conf S true t) →
    ∀ t ∈ zipBad ts fl, Conf S true t
  | [], _, _, t, ht => by simp [zipBad] at ht
  | u :: ts, [], h, t, ht => by
    simp only [zipBad, List.mem_cons] at ht
    rcases ht with rfl | ht
    · exact (h u (by simp)).mapInputs _ (fun _ => rfl)
    · exact zipBad_conf ts [] (fun x hx => h x (by simp [hx])) t ht
  | u :: ts, f :: fl, h, t, ht => by
    simp only [zipBad, List.mem_cons] at ht
    rcases ht with rfl | ht
    · exact (h u (by simp)).mapInputs _ (fun _ => rfl)
    · exact zipBad_conf ts fl (fun x hx => h x (by simp [hx])) t ht

def BlkConf (S : Nat → Bool × List Nat × List Nat) (b : Blk) : Prop :=
  (∀ t ∈ b.txns, Conf S false t) ∧ (∀ t ∈ b.v2txns, Conf S true t)

/-- the hypothesis on histories: every transaction that appears (in a submitted set, in a block)
is the pre-image of its id, and v1 / v2 ids are distinct -/
def OpConf (S : Nat → Bool × List Nat × List Nat) : Op → Prop
  | .reorg rev _ _ => ∀ b ∈ rev, BlkConf S b
  | .addV1 set => ∀ t ∈ set, Conf S false t
  | .addV2 _ set => ∀ t ∈ set, Conf S true t
  | .query => True

theorem reorg_conf {S p} (rev app : List Blk) (flags : List Bool) (h : PoolConf S p) (hr : ∀ b ∈ rev, BlkConf S b) :
    PoolConf S (reorg p rev app flags) := by
  have h1 := foldl_conf (S := S) revertPoolUpdate (fun p b => revertPoolUpdate_conf b) rev p h
  have h2 := foldl_conf (S := S) applyPoolUpdate (fun p b => applyPoolUpdate_conf b) app _ h1
  unfold reorg reorgEnd
  cases hh : rev.head? with
  | none => exact ⟨h2.t1, h2.t2, h2.r1, zipBad_conf _ _ h2.r2⟩
  | some b =>
    have hb : BlkConf S b := hr b (List.mem_of_mem_head? hh)
    refine ⟨h2.t1, h2.t2, ?_, ?_⟩
    · intro t ht; exact hb.1 t (List.mem_filter.1 ht).1
    · exact zipBad_conf _ _ (fun t ht => hb.2 t (List.mem_filter.1 ht).1)

theorem foldOpt_conf {S} (f : List Txn → Blk → Option (List Txn))
    (hf : ∀ ts b ts', f ts b = some ts' → (∀ t ∈ ts, Conf S true t) → ∀ t ∈ ts', Conf S true t) :
    ∀ (bs : List Blk) (o : Option (List Txn)) (ts' : List Txn), foldOpt f o bs = some ts' →
      (∀ ts, o = some ts → ∀ t ∈ ts, Conf S true t) → ∀ t ∈ ts', Conf S true t
  | bs, none, _, h, _ => by cases bs <;> simp [foldOpt] at h
  | [], some ts, ts', h, ho => by simp only [foldOpt, Option.some.injEq] at h; subst h; exact ho ts rfl
  | b :: bs, some ts, ts', h, ho => by
    rw [foldOpt] at h
    apply foldOpt_conf f hf bs (f ts b) ts' h
    intro ts2 h2
    exact hf ts b ts2 h2 (ho ts rfl)

theorem rebase_conf {S cfg} (ts : List Txn) (path : Option (List Blk × List Blk)) (ts' : List Txn)
    (h : rebase cfg ts path = some ts') (hc : ∀ t ∈ ts, Conf S true t) : ∀ t ∈ ts', Conf S true t := by
  unfold rebase at h
  cases path with
  | none => cases h
  | some pa =>
    obtain ⟨rev, app⟩ := pa
    simp only at h
    split at h
    · cases h
    · split at h
      · cases h
      · apply foldOpt_conf rebaseApply ?_ app _ ts' h
        · intro ts1 h1
          apply foldOpt_conf rebaseRevert ?_ rev (some ts) ts1 h1
          · intro ts2 h2; cases h2; exact hc
          · intro ts2 b ts3 h3 hc2
            unfold rebaseRevert at h3
            split at h3
            · cases h3; exact hc2
            · cases h3
        · intro ts2 b ts3 h3 hc2
          unfold rebaseApply at h3
          simp only at h3
          split at h3
          · cases h3
            intro t ht
            simp only [List.mem_map, List.mem_filter] at ht
            obtain ⟨u, ⟨hu, _⟩, rfl⟩ := ht
            exact (hc2 u hu).mapInputs _ (confirmInp_elem _)
          · cases h3

theorem AddOutcome.conf {S cfg v2 p set r} (h : AddOutcome cfg v2 p set r) (hc : PoolConf S p)
    (hs : ∀ t ∈ set, Conf S v2 t) : PoolConf S r.1 := by
  cases h with
  | invalid _ => exact hc
  | known _ _ => exact hc
  | conflict p' _ _ h1 h2 _ _ _ h3 h4 _ => exact ⟨h1 ▸ hc.t1, h2 ▸ hc.t2, h3 ▸ hc.r1, h4 ▸ hc.r2⟩
  | added p' new _ h1 h2 _ hsub _ _ _ _ _ h3 h4 _ _ =>
    refine ⟨?_, ?_, h3 ▸ hc.r1, h4 ▸ hc.r2⟩
    · cases v2
      · simp only [own, Bool.false_eq_true, ↓reduceIte] at h1
        intro t ht
        rw [h1] at ht
        rcases List.mem_append.1 ht with ht | ht
        · exact hc.t1 t ht
        · exact hs t (hsub.subset ht)
      · simp only [other, ↓reduceIte] at h2
        rw [h2]; exact hc.t1
    · cases v2
      · simp only [other, Bool.false_eq_true, ↓reduceIte] at h2
        rw [h2]; exact hc.t2
      · simp only [own, ↓reduceIte] at h1
        intro t ht
        rw [h1] at ht
        rcases List.mem_append.1 ht with ht | ht
        · exact hc.t2 t ht
        · exact hs t (hsub.subset ht)

/-! ## the invariant of C05 over histories -/

def InvV (cfg : Cfg) (S : Nat → Bool × List Nat × List Nat) (p : Pool) : Prop :=
  PoolConf S p ∧ (p.ms.isSome = true → IdxOK p ∧ Valid cfg p)

theorem revalidate_good {cfg S p} (h : InvV cfg S p) :
    PoolConf S (revalidate cfg p) ∧ IdxOK (revalidate cfg p) ∧ Valid cfg (revalidate cfg p) := by
  refine ⟨revalidate_conf h.1, revalidate_idxOK cfg p (fun hc => (h.2 hc).1), ?_⟩
  unfold revalidate
  split
  · rename_i hc; simp at hc; exact (h.2 hc.1).2
  · exact rebuild_valid _ _

theorem step_invV {cfg S p} (h : InvV cfg S p) (op : Op) (hop : OpConf S op) : InvV cfg S (step cfg p op) := by
  obtain ⟨gc, gi, gv⟩ := revalidate_good h
  cases op with
  | reorg rev app flags =>
    exact ⟨reorg_conf rev app flags h.1 hop, fun hc => by simp [step, reorg_ms] at hc⟩
  | addV1 set =>
    have ho := addSet_outcome cfg false _ set (revalidate_ms cfg p)
    refine ⟨ho.conf gc hop, fun hc => ⟨ho.inv gi hc, addSet_valid cfg S false _ set gv gi gc hop hc⟩⟩
  | addV2 path set =>
    simp only [step, addV2PoolTransactions]
    cases hr : rebase cfg set path with
    | none => exact ⟨gc, fun _ => ⟨gi, gv⟩⟩
    | some set' =>
      have hs' := rebase_conf set path set' hr hop
      have ho := addSet_outcome cfg true _ set' (revalidate_ms cfg p)
      exact ⟨ho.conf gc hs', fun hc => ⟨ho.inv gi hc, addSet_valid cfg S true _ set' gv gi gc hs' hc⟩⟩
  | query => exact ⟨gc, fun _ => ⟨gi, gv⟩⟩

theorem run_invV {cfg S} : ∀ (ops : List Op) (p : Pool), InvV cfg S p → (∀ op ∈ ops, OpConf S op) →
    InvV cfg S (run cfg p ops)
  | [], _, h, _ => h
  | op :: ops, p, h, hops =>
    run_invV ops _ (step_invV h op (hops op (by simp))) (fun o ho => hops o (by simp [ho]))

theorem init_invV (cfg : Cfg) (S : Nat → Bool × List Nat × List Nat) (l : Ledger) : InvV cfg S (Pool.init l) :=
  ⟨⟨by simp [Pool.init], by simp [Pool.init], by simp [Pool.init], by simp [Pool.init]⟩, fun h => by simp [Pool.init] at h⟩

/-! ## what a valid sequence means, element by element -/

theorem seqValid_at (cfg : Cfg) (l : Ledger) (v2 : Bool) (ms : MidState) (pre : List Txn) (t : Txn) (post : List Txn)
    (h : seqValid cfg l v2 ms (pre ++ t :: post) = true) : txValid cfg l (msOf ms pre) v2 t = true := by
  rw [seqValid_append] at h
  simp only [seqValid, Bool.and_eq_true] at h
  exact h.2.1

theorem seqValid_prefix (cfg : Cfg) (l : Ledger) (v2 : Bool) (ms : MidState) {a ts : List Txn} (hp : a <+: ts)
    (h : seqValid cfg l v2 ms ts = true) : seqValid cfg l v2 ms a = true := by
  obtain ⟨c, rfl⟩ := hp
  rw [seqValid_append] at h
  simp only [Bool.and_eq_true] at h
  exact h.1

/-- no element is spent twice in a valid sequence, and none that the mid-state below it spent -/
theorem seqValid_nodup (cfg : Cfg) (l : Ledger) (v2 : Bool) : ∀ (ts : List Txn) (ms : MidState),
    seqValid cfg l v2 ms ts = true → (spentOf ts).Nodup ∧ ∀ e ∈ spentOf ts, e ∉ ms.spent
  | [], _, _ => by simp
  | t :: ts, ms, h => by
    simp only [seqValid, Bool.and_eq_true] at h
    obtain ⟨hv, hr⟩ := h
    simp only [txValid, Bool.and_eq_true] at hv
    obtain ⟨fa, _, fc⟩ := inputsOk_facts l ms.created v2 t.inputs ms.spent hv.2
    obtain ⟨ih1, ih2⟩ := seqValid_nodup cfg l v2 ts (applyTx ms t) hr
    have hcons : spentOf (t :: ts) = t.inputs.map (·.elem) ++ spentOf ts := by simp [spentOf]
    rw [hcons]
    constructor
    · rw [List.nodup_append]
      refine ⟨fc, ih1, ?_⟩
      intro a ha b hb hab
      subst hab
      apply ih2 a hb
      simp only [applyTx, List.mem_append, List.mem_reverse]
      exact Or.inl ha
    · intro e he
      rcases List.mem_append.1 he with he | he
      · obtain ⟨i, hi, rfl⟩ := List.mem_map.1 he
        exact fa i hi
      · intro hm
        apply ih2 e he
        simp only [applyTx, List.mem_append]
        exact Or.inr hm

/-! ## the miner's selection loop -/

theorem takeWeight_prefix (max : Nat) : ∀ (ts : List Txn) (w : Nat), (takeWeight max w ts).1 <+: ts
  | [], _ => by simp [takeWeight]
  | t :: ts, w => by
    unfold takeWeight
    split
    · exact List.nil_prefix
    · simp only
      exact List.cons_prefix_cons.2 ⟨rfl, takeWeight_prefix max ts _⟩

theorem takeWeight_le (max : Nat) : ∀ (ts : List Txn) (w : Nat), w ≤ max →
    w + sumW (takeWeight max w ts).1 ≤ max
  | [], _, h => by simpa [takeWeight] using h
  | t :: ts, w, h => by
    unfold takeWeight
    split
    · simpa using h
    · rename_i hw
      simp only [sumW_cons]
      have := takeWeight_le max ts (w + t.weight) (by omega)
      omega

theorem takeWeight_full (max : Nat) : ∀ (ts : List Txn) (w : Nat), (takeWeight max w ts).2 ≤ max →
    (takeWeight max w ts).1 = ts
  | [], _, _ => by simp [takeWeight]
  | t :: ts, w, h => by
    unfold takeWeight at h ⊢
    split
    · rename_i hw; simp only [hw, if_true] at h; omega
    · rename_i hw
      simp only [hw, if_false] at h
      simp only
      rw [takeWeight_full max ts _ h]

theorem takeWeight_snd (max : Nat) : ∀ (ts : List Txn) (w : Nat), (takeWeight max w ts).2 ≤ max →
    (takeWeight max w ts).2 = w + sumW ts
  | [], _, _ => by simp [takeWeight]
  | t :: ts, w, h => by
    unfold takeWeight at h ⊢
    split
    · rename_i hw; simp only [hw, if_true] at h; omega
    · rename_i hw
      simp only [hw, if_false] at h
      simp only [sumW_cons]
      rw [takeWeight_snd max ts _ h]; omega

theorem takeWeight_over (max : Nat) (ts : List Txn) (w : Nat) (h : max < w) : (takeWeight max w ts).1 = [] := by
  cases ts with
  | nil => rfl
  | cons t ts => unfold takeWeight; rw [if_pos (by omega)]

end Verif.Pool
