/-
Helper lemmas for M10 (`Model/Sync.lean`): the validity invariant of the minimal manager under
every syncer event, monotonicity of the tip's work, the history sample, and the convergence
measure of the abstract gossip system.
-/
import Verif.Model.Sync

namespace Verif.Sync

/-! ## Validity -/

/-- `b` and all its ancestors pass `ValidateBlock` -/
inductive ValidTo (U : Univ) : Nat → Prop
  | gen : ValidTo U 0
  | step (b : Nat) : ValidTo U (U b).parent → (U b).body = true → ValidTo U b

/-- conventions of the block universe (what the harness guarantees when it declares blocks):
genesis is `0`, is valid and is its own parent; a block and the canonical block with the same
header hash name the same parent. -/
structure WF (U : Univ) : Prop where
  gen_body : (U 0).body = true
  gen_parent : (U 0).parent = 0
  cid_parent : ∀ b, (U (U b).cid).parent = (U b).parent

theorem ValidTo.body {U : Univ} (wf : WF U) {b : Nat} (h : ValidTo U b) : (U b).body = true := by
  cases h with
  | gen => exact wf.gen_body
  | step _ _ hb => exact hb

theorem ValidTo.parent {U : Univ} (wf : WF U) {b : Nat} (h : ValidTo U b) : ValidTo U (U b).parent := by
  cases h with
  | gen => rw [wf.gen_parent]; exact .gen
  | step _ hp _ => exact hp

/-- blocks stored with a supplement are valid *provided their ancestry is*: a batch that was
pre-validated on a bogus state hangs below a block that is not valid, and can therefore never be
reached by a successful reorg. -/
def SuppInv (U : Univ) (supp : List Nat) : Prop :=
  ∀ b ∈ supp, ValidTo U (U b).parent → (U b).body = true

structure Inv (U : Univ) (n : Node) : Prop where
  best : ∀ b ∈ n.best, ValidTo U b
  supp : SuppInv U n.supp

theorem Inv.init {U : Univ} (wf : WF U) : Inv U Node.init := by
  constructor
  · intro b hb; simp [Node.init] at hb; subst hb; exact .gen
  · intro b hb _; simp [Node.init] at hb; subst hb; exact wf.gen_body

theorem applyAll_spec (U : Univ) (l : List Nat) : ∀ (supp : List Nat), SuppInv U supp →
    SuppInv U (applyAll U supp l).1 ∧ ((applyAll U supp l).2 = true → ∀ b ∈ l, b ∈ (applyAll U supp l).1)
      ∧ (∀ b ∈ supp, b ∈ (applyAll U supp l).1) := by
  induction l with
  | nil => intro supp h; simp [applyAll, h]
  | cons b bs ih =>
    intro supp h
    unfold applyAll
    split
    · rename_i hc
      have := ih supp h
      refine ⟨this.1, ?_, this.2.2⟩
      intro hok x hx
      rcases List.mem_cons.mp hx with rfl | hx
      · exact this.2.2 _ (by simpa using hc)
      · exact this.2.1 hok x hx
    · split
      · rename_i hc hb
        have h' : SuppInv U (b :: supp) := by
          intro x hx hv
          rcases List.mem_cons.mp hx with rfl | hx
          · exact hb
          · exact h x hx hv
        have := ih (b :: supp) h'
        refine ⟨this.1, ?_, fun x hx => this.2.2 x (List.mem_cons_of_mem _ hx)⟩
        intro hok x hx
        rcases List.mem_cons.mp hx with rfl | hx
        · exact this.2.2 _ (List.mem_cons_self ..)
        · exact this.2.1 hok x hx
      · exact ⟨h, by simp, fun _ hx => hx⟩

/-- `l` (newest first) leads from `b` down to just above `f` along parent pointers -/
inductive Down (U : Univ) (f : Nat) : Nat → List Nat → Prop
  | nil : Down U f f []
  | cons {b : Nat} {l : List Nat} : Down U f (U b).parent l → Down U f b (b :: l)

theorem climb_down (U : Univ) (n : Node) : ∀ (k b : Nat) (up : List Nat), climb U n k b = some up →
    ∃ f, f ∈ n.best ∧ Down U f b up := by
  intro k
  induction k with
  | zero =>
    intro b up h
    simp only [climb] at h
    split at h
    · rename_i hb; simp at h; subst h; exact ⟨b, by simpa using hb, .nil⟩
    · simp at h
  | succ k ih =>
    intro b up h
    simp only [climb] at h
    split at h
    · rename_i hb; simp at h; subst h; exact ⟨b, by simpa using hb, .nil⟩
    · split at h
      · simp at h
      · simp only [Option.map_eq_some_iff] at h
        obtain ⟨l, hl, rfl⟩ := h
        obtain ⟨f, hf, hd⟩ := ih _ _ hl
        exact ⟨f, hf, .cons hd⟩

theorem Down.fork {U : Univ} {f b : Nat} {up : List Nat} (h : Down U f b up) :
    forkOf U b up = f := by
  unfold forkOf
  induction h with
  | nil => rfl
  | @cons b l hd ih =>
    cases l with
    | nil => cases hd; simp
    | cons x xs =>
      rw [List.getLast?_cons_cons]
      cases hgl : (x :: xs).getLast? with
      | none => simp at hgl
      | some y => simpa [hgl] using ih

theorem Down.head {U : Univ} {f b : Nat} {up : List Nat} (h : Down U f b up) (x : Nat) :
    (up ++ [f]).headD x = b := by
  cases h <;> simp

/-- every block of a climbed path that passed `applyAll` is valid, if the fork point is -/
theorem Down.valid {U : Univ} {f b : Nat} {up : List Nat} (h : Down U f b up) (hf : ValidTo U f)
    (hs : ∀ x ∈ up, ValidTo U (U x).parent → (U x).body = true) :
    ValidTo U b ∧ ∀ x ∈ up, ValidTo U x := by
  induction h with
  | nil => exact ⟨hf, by simp⟩
  | @cons b l hd ih =>
    have ih' := ih (fun x hx => hs x (List.mem_cons_of_mem _ hx))
    have hb : ValidTo U b := .step b ih'.1 (hs b (List.mem_cons_self ..) ih'.1)
    refine ⟨hb, ?_⟩
    intro x hx
    rcases List.mem_cons.mp hx with rfl | hx
    · exact hb
    · exact ih'.2 x hx

theorem mem_suffixFrom {best : List Nat} {f x : Nat} (h : x ∈ suffixFrom best f) : x ∈ best :=
  (List.dropWhile_sublist _).subset h

theorem head_suffixFrom {best : List Nat} {f : Nat} (h : f ∈ best) (d : Nat) :
    (suffixFrom best f).headD d = f := by
  induction best with
  | nil => simp at h
  | cons a t ih =>
    by_cases ha : a = f
    · subst ha; simp [suffixFrom, List.dropWhile]
    · have : f ∈ t := by
        rcases List.mem_cons.mp h with h | h
        · exact absurd h.symm ha
        · exact h
      have e : suffixFrom (a :: t) f = suffixFrom t f := by
        simp [suffixFrom, ha]
      rw [e]; exact ih this

theorem reorgTo_inv {U : Univ} (n : Node) (t : Nat) (h : Inv U n) : Inv U (reorgTo U n t).1 := by
  unfold reorgTo
  split
  · exact h
  · rename_i up hup
    obtain ⟨f, hf, hd⟩ := climb_down U n _ _ _ hup
    have hsp := applyAll_spec U up.reverse n.supp h.supp
    rw [hd.fork]
    split
    · rename_i hok
      constructor
      · intro x hx
        simp only [List.mem_append] at hx
        rcases hx with hx | hx
        · have := hd.valid (h.best f hf) (fun y hy => hsp.1 y (hsp.2.1 hok y (by simpa using hy)))
          exact this.2 x hx
        · exact h.best x (mem_suffixFrom hx)
      · exact hsp.1
    · exact ⟨h.best, hsp.1⟩

theorem storeLoop_best (U : Univ) (bs : List Nat) : ∀ (n : Node) (cs : Nat),
    (storeLoop U n cs bs).1.best = n.best ∧ (storeLoop U n cs bs).1.supp = n.supp := by
  induction bs with
  | nil => intro n cs; simp [storeLoop]
  | cons b bs ih =>
    intro n cs
    unfold storeLoop
    split
    · exact ih n b
    · split
      · simp
      · split
        · simp
        · split
          · simp
          · simpa using ih { n with known := b :: n.known } b

theorem addBlocks_inv {U : Univ} (n : Node) (bs : List Nat) (h : Inv U n) : Inv U (addBlocks U n bs).1 := by
  unfold addBlocks
  split
  · exact h
  · have hb := storeLoop_best U bs n n.tip
    have h' : Inv U (storeLoop U n n.tip bs).1 := ⟨by rw [hb.1]; exact h.best, by rw [hb.2]; exact h.supp⟩
    split
    · rename_i n' _ e heq; rw [heq] at h'; exact h'
    · rename_i n' cs heq; rw [heq] at h'
      split
      · exact reorgTo_inv n' cs h'
      · exact h'

theorem storeValidated_inv {U : Univ} (bs : List Nat) : ∀ (n : Node), Inv U n →
    (∀ b ∈ bs, ValidTo U (U b).parent → (U b).body = true) → Inv U (storeValidated U n bs).1 := by
  induction bs with
  | nil => intro n h _; exact h
  | cons b bs ih =>
    intro n h hb
    unfold storeValidated
    split
    · exact h
    · apply ih
      · constructor
        · exact h.best
        · intro x hx hv
          rcases List.mem_cons.mp hx with rfl | hx
          · exact hb _ (List.mem_cons_self ..) hv
          · exact h.supp x hx hv
      · exact fun x hx => hb x (List.mem_cons_of_mem _ hx)

theorem addValidated_inv {U : Univ} (n : Node) (bs : List Nat) (h : Inv U n)
    (hb : ∀ b ∈ bs, ValidTo U (U b).parent → (U b).body = true) : Inv U (addValidated U n bs).1 := by
  unfold addValidated
  split
  · exact h
  · split
    · exact h
    · have h' := storeValidated_inv _ n h hb
      simp only []
      split
      · exact h'
      · split
        · exact reorgTo_inv _ _ h'
        · exact h'

/-- the validation loop of the checkpoint branch establishes the pre-validation contract: each
block is valid provided its ancestry is — *if* validity of the checkpoint block's ancestry
forces the supplied state to be the genuine one (hash injectivity, `hBind`). -/
theorem validateChain_spec {U : Univ} (wf : WF U) (g : Bool) (bs : List Nat) : ∀ (cs : Nat),
    validateChain U g cs bs = true → (ValidTo U (U cs).cid → g = true) →
    ∀ b ∈ bs, ValidTo U (U b).parent → (U b).body = true := by
  induction bs with
  | nil => intro _ _ _ b hb; simp at hb
  | cons a t ih =>
    intro cs hv hg b hb hp
    simp only [validateChain, Bool.and_eq_true, beq_iff_eq, Bool.or_eq_true, Bool.not_eq_eq_eq_not,
      Bool.not_true] at hv
    obtain ⟨⟨⟨hpar, _⟩, hbody⟩, hrest⟩ := hv
    rcases List.mem_cons.mp hb with rfl | hb
    · have := hg (hpar ▸ hp)
      rcases hbody with hbody | hbody
      · rw [this] at hbody; cases hbody
      · exact hbody
    · refine ih a hrest ?_ b hb hp
      intro hva
      have := hva.parent wf
      rw [wf.cid_parent, hpar] at this
      exact hg this

/-! ## The tip only ever moves to a sufficiently heavier block -/

/-- one manager call either leaves the tip alone or moves it to a sufficiently heavier block -/
def TipStep (U : Univ) (n n' : Node) : Prop := n'.tip = n.tip ∨ heavier U n'.tip n.tip = true

theorem TipStep.refl (U : Univ) (n : Node) : TipStep U n n := .inl rfl

theorem heavier_work {U : Univ} {a b : Nat} (h : heavier U a b = true) : (U b).work < (U a).work := by
  simp only [heavier, decide_eq_true_eq] at h; omega

theorem TipStep.work {U : Univ} {n n' : Node} (h : TipStep U n n') : (U n.tip).work ≤ (U n'.tip).work := by
  rcases h with h | h
  · rw [h]; exact Nat.le_refl _
  · exact Nat.le_of_lt (heavier_work h)

theorem reorgTo_tip (U : Univ) (n : Node) (t : Nat) :
    ((reorgTo U n t).2 = true → (reorgTo U n t).1.tip = t) ∧
    ((reorgTo U n t).2 = false → (reorgTo U n t).1.best = n.best) := by
  unfold reorgTo
  split
  · simp
  · rename_i up hup
    obtain ⟨f, hf, hd⟩ := climb_down U n _ _ _ hup
    rw [hd.fork]
    split
    · refine ⟨fun _ => ?_, by simp⟩
      simp only [Node.tip]
      cases hd with
      | nil => simpa using head_suffixFrom hf 0
      | cons _ => simp
    · simp

theorem addBlocks_tip (U : Univ) (n : Node) (bs : List Nat) : TipStep U n (addBlocks U n bs).1 := by
  unfold addBlocks
  split
  · exact .refl U n
  · have hb := (storeLoop_best U bs n n.tip).1
    split
    · rename_i n' _ e heq
      have : n'.best = n.best := by simpa [heq] using hb
      exact .inl (by simp [Node.tip, this])
    · rename_i n' cs heq
      have hbest : n'.best = n.best := by simpa [heq] using hb
      have htip : n'.tip = n.tip := by simp [Node.tip, hbest]
      split
      · rename_i hh
        have ht := reorgTo_tip U n' cs
        cases hok : (reorgTo U n' cs).2 with
        | true => exact .inr (by rw [ht.1 hok, ← htip]; exact hh)
        | false => exact .inl (by simp [Node.tip, ht.2 hok, hbest])
      · exact .inl htip

theorem storeValidated_best (U : Univ) (bs : List Nat) : ∀ (n : Node), (storeValidated U n bs).1.best = n.best := by
  induction bs with
  | nil => intro n; rfl
  | cons b bs ih =>
    intro n; unfold storeValidated
    split
    · rfl
    · simpa using ih { n with known := b :: n.known, supp := b :: n.supp }

theorem addValidated_tip (U : Univ) (n : Node) (bs : List Nat) : TipStep U n (addValidated U n bs).1 := by
  unfold addValidated
  split
  · exact .refl U n
  · rename_i b0 rest
    split
    · exact .refl U n
    · have hbest := storeValidated_best U (b0 :: rest) n
      have htip : (storeValidated U n (b0 :: rest)).1.tip = n.tip := by simp [Node.tip, hbest]
      simp only []
      split
      · exact .inl htip
      · split
        · rename_i hh
          have ht := reorgTo_tip U (storeValidated U n (b0 :: rest)).1 ((b0 :: rest).getLastD b0)
          cases hok : (reorgTo U (storeValidated U n (b0 :: rest)).1 ((b0 :: rest).getLastD b0)).2 with
          | true => exact .inr (by rw [ht.1 hok, ← htip]; exact hh)
          | false => exact .inl (by have e := ht.2 hok; unfold Node.tip; rw [e, hbest])
        · exact .inl htip

theorem stepBatch_tip (U : Univ) (cfg : Cfg) (n : Node) (q : Req) (r : BResp) :
    TipStep U n (stepBatch U cfg n q r).1 := by
  unfold stepBatch
  split
  · exact .refl U n
  · exact .refl U n
  · rename_i bs pre _
    cases pre
    · exact addBlocks_tip U n bs
    · exact addValidated_tip U n bs

theorem stepBatch_work (U : Univ) (cfg : Cfg) (n : Node) (q : Req) (r : BResp) :
    (U n.tip).work ≤ (U (stepBatch U cfg n q r).1.tip).work := (stepBatch_tip U cfg n q r).work

theorem runBatches_work (U : Univ) (cfg : Cfg) (qs : List Req) : ∀ (n : Node) (rs : List BResp),
    (U n.tip).work ≤ (U (runBatches U cfg n qs rs).1.tip).work := by
  induction qs with
  | nil => intro n rs; simp [runBatches]
  | cons q qs ih =>
    intro n rs
    cases rs with
    | nil => simp [runBatches]
    | cons r rs =>
      simp only [runBatches]
      split
      · exact Nat.le_trans (stepBatch_work U cfg n q r) (ih _ rs)
      · exact stepBatch_work U cfg n q r

theorem stepSync_work (U : Univ) (cfg : Cfg) (n : Node) (hs : List HResp) (bs : List BResp) :
    (U n.tip).work ≤ (U (stepSync U cfg n hs bs).1.tip).work := by
  unfold stepSync
  split
  · exact Nat.le_refl _
  · exact Nat.le_refl _
  · exact runBatches_work U cfg _ n bs

theorem stepOutline_work (U : Univ) (n : Node) (b : Nat) (m : Missing) :
    (U n.tip).work ≤ (U (stepOutline U n b m).1.tip).work := by
  unfold stepOutline
  repeat' split
  all_goals first
    | exact Nat.le_refl _
    | exact (addBlocks_tip U n [b]).work

theorem step_work (U : Univ) (cfg : Cfg) (n : Node) (e : Ev) :
    (U n.tip).work ≤ (U (step U cfg n e).1.tip).work := by
  cases e with
  | sync hs bs => exact stepSync_work U cfg n hs bs
  | batch q r => exact stepBatch_work U cfg n q r
  | relayHeader h => exact Nat.le_refl _
  | relayOutline b m => exact stepOutline_work U n b m
  | relayTxns k e a v => exact Nat.le_refl _

/-! ## Validity is preserved by every event -/

/-- hash injectivity, as the syncer relies on it: if the block a checkpoint answer carries has
the ID of a block whose whole ancestry is valid, and its commitment matches the supplied state,
then the supplied state is the genuine one. -/
def HashBinds (U : Univ) : Prop :=
  ∀ cp : CpResp, cp.commitOk = true → ValidTo U (U cp.blk).cid → cp.genuine = true

/-- no block that passed the validation loop of the checkpoint branch is from the future -/
theorem validateChain_nofuture {U : Univ} (g : Bool) (bs : List Nat) : ∀ (cs : Nat),
    validateChain U g cs bs = true → ∀ b ∈ bs, (U b).future = false := by
  induction bs with
  | nil => intro _ _ b hb; simp at hb
  | cons a t ih =>
    intro cs hv b hb
    simp only [validateChain, Bool.and_eq_true, beq_iff_eq, Bool.or_eq_true, Bool.not_eq_eq_eq_not,
      Bool.not_true] at hv
    obtain ⟨⟨⟨_, hfut⟩, _⟩, hrest⟩ := hv
    rcases List.mem_cons.mp hb with rfl | hb
    · exact hfut
    · exact ih a hrest b hb

theorem gateBatch_ok_true {U : Univ} (cfg : Cfg) (q : Req) (r : BResp) (bs : List Nat)
    (h : gateBatch U cfg q r = .ok bs true) :
    q.baseHeight ≥ cfg.require ∧ ∃ cp, r.cp = some cp ∧ cp.isV2 = true ∧ cp.onePayout = true ∧ cp.noV1 = true ∧
      sameId U cp.blk q.base = true ∧ cp.commitOk = true ∧ (U cp.blk).orphan = true ∧ r.blocks = some bs ∧
      bs.length = q.hdrs.length ∧ sameId U (bs.getLastD 0) (q.hdrs.getLastD 0) = true ∧
      validateChain U cp.genuine cp.blk bs = true := by
  unfold gateBatch at h
  simp only [] at h
  cases hcp : r.cp <;> cases hbl : r.blocks <;> simp only [hcp, hbl] at h <;> repeat' split at h
  all_goals simp_all

theorem gateBatch_ok_false {U : Univ} (cfg : Cfg) (q : Req) (r : BResp) (bs : List Nat)
    (h : gateBatch U cfg q r = .ok bs false) :
    q.baseHeight < cfg.require ∧ r.blocks = some bs ∧
      bs.map (fun b => (U b).cid) = q.hdrs.map (fun b => (U b).cid) := by
  unfold gateBatch at h
  simp only [] at h
  cases hcp : r.cp <;> cases hbl : r.blocks <;> simp only [hcp, hbl] at h <;> repeat' split at h
  all_goals simp_all
  all_goals omega

theorem gateBatch_pre {U : Univ} (wf : WF U) (hb : HashBinds U) (cfg : Cfg) (q : Req) (r : BResp)
    (bs : List Nat) (h : gateBatch U cfg q r = .ok bs true) :
    ∀ b ∈ bs, ValidTo U (U b).parent → (U b).body = true := by
  obtain ⟨_, cp, _, _, _, _, _, hc, _, _, _, _, hv⟩ := gateBatch_ok_true cfg q r bs h
  exact validateChain_spec wf cp.genuine bs cp.blk hv (hb cp hc)

theorem stepBatch_inv {U : Univ} (wf : WF U) (hb : HashBinds U) (cfg : Cfg) (n : Node) (q : Req) (r : BResp)
    (h : Inv U n) : Inv U (stepBatch U cfg n q r).1 := by
  unfold stepBatch
  split
  · exact h
  · exact h
  · rename_i bs pre hg
    cases pre
    · exact addBlocks_inv n bs h
    · exact addValidated_inv n bs h (gateBatch_pre wf hb cfg q r bs hg)

theorem runBatches_inv {U : Univ} (wf : WF U) (hb : HashBinds U) (cfg : Cfg) (qs : List Req) :
    ∀ (n : Node) (rs : List BResp), Inv U n → Inv U (runBatches U cfg n qs rs).1 := by
  induction qs with
  | nil => intro n rs h; simpa [runBatches] using h
  | cons q qs ih =>
    intro n rs h
    cases rs with
    | nil => simpa [runBatches] using h
    | cons r rs =>
      simp only [runBatches]
      split
      · exact ih _ rs (stepBatch_inv wf hb cfg n q r h)
      · exact stepBatch_inv wf hb cfg n q r h

theorem step_inv {U : Univ} (wf : WF U) (hb : HashBinds U) (cfg : Cfg) (n : Node) (e : Ev) (h : Inv U n) :
    Inv U (step U cfg n e).1 := by
  cases e with
  | sync hs bs =>
    simp only [step, stepSync]
    split
    · exact h
    · exact h
    · exact runBatches_inv wf hb cfg _ n bs h
  | batch q r => exact stepBatch_inv wf hb cfg n q r h
  | relayHeader x => exact h
  | relayOutline b m =>
    simp only [step, stepOutline]
    repeat' split
    all_goals first
      | exact h
      | exact addBlocks_inv n [b] h
  | relayTxns k e a v => exact h

theorem run_inv {U : Univ} (wf : WF U) (hb : HashBinds U) (cfg : Cfg) (es : List Ev) :
    ∀ n : Node, Inv U n → Inv U (run U cfg n es) := by
  induction es with
  | nil => intro n h; exact h
  | cons e es ih => intro n h; exact ih _ (step_inv wf hb cfg n e h)

theorem run_work (U : Univ) (cfg : Cfg) (es : List Ev) :
    ∀ n : Node, (U n.tip).work ≤ (U (run U cfg n es).tip).work := by
  induction es with
  | nil => intro n; exact Nat.le_refl _
  | cons e es ih => intro n; exact Nat.le_trans (step_work U cfg n e) (ih _)

/-! ## History sample -/

theorem histOffset_31 : histOffset 31 = 8388615 := by decide

theorem getD_pred_length (best : List Nat) (hne : best ≠ []) :
    best.getD (best.length - 1) 0 = best.getLast hne := by
  have hl : best.length - 1 < best.length := by
    cases best with
    | nil => exact absurd rfl hne
    | cons a t => simp
  rw [List.getD_eq_getElem?_getD, List.getElem?_eq_getElem hl, List.getLast_eq_getElem]
  rfl

/-- as long as the chain is not longer than the sample reaches (`7 + 2^23` blocks below the
tip), the sample's last entry is the chain's last block -/
theorem last_mem_history (best : List Nat) (hne : best ≠ []) (hlen : best.length ≤ 8388616) :
    best.getLast hne ∈ history best := by
  unfold history
  rw [List.mem_map]
  refine ⟨31, by simp, ?_⟩
  rw [histOffset_31, ← getD_pred_length best hne]
  congr 1
  omega

theorem mem_of_mem_history (best : List Nat) (hne : best ≠ []) {x : Nat} (h : x ∈ history best) : x ∈ best := by
  unfold history at h
  rw [List.mem_map] at h
  obtain ⟨i, _, rfl⟩ := h
  have hl : min (histOffset i) (best.length - 1) < best.length := by
    cases best with
    | nil => exact absurd rfl hne
    | cons a t => simp; omega
  rw [List.getD_eq_getElem?_getD, List.getElem?_eq_getElem hl]
  exact List.getElem_mem hl

/-! ## Gossip: the convergence measure -/

section Gossip
variable (U : Univ)

theorem heavier_asymm {a b : Nat} (h : heavier U a b = true) : heavier U b a = false := by
  simp only [heavier, decide_eq_true_eq, decide_eq_false_iff_not] at *; omega

theorem heavier_irrefl (a : Nat) : heavier U a a = false := by
  simp only [heavier, decide_eq_false_iff_not]; omega

/-- every node that is not on `c` holds a tip that `c` is sufficiently heavier than -/
def Good (c N : Nat) (σ : Nat → Nat) : Prop := ∀ i, i < N → σ i ≠ c → heavier U c (σ i) = true

theorem pull_good {c N : Nat} {σ : Nat → Nat} (hg : Good U c N σ) (e : Nat × Nat) (he : e.2 < N) :
    Good U c N (pull U σ e) := by
  intro i hi hne
  unfold pull at *
  split at hne
  · rename_i hc; rw [if_pos hc]; exact hg _ he hne
  · rename_i hc; rw [if_neg hc]; exact hg _ hi hne

theorem pull_stay {c N : Nat} {σ : Nat → Nat} (hg : Good U c N σ) (e : Nat × Nat) (he : e.2 < N)
    {i : Nat} (hc : σ i = c) : pull U σ e i = c := by
  unfold pull
  split
  · rename_i h
    obtain ⟨rfl, hh⟩ := h
    rw [hc] at hh
    by_cases h2 : σ e.2 = c
    · exact h2
    · have := heavier_asymm U (hg _ he h2)
      rw [this] at hh; cases hh
  · exact hc

theorem pull_move {c N : Nat} {σ : Nat → Nat} (hg : Good U c N σ) {a b : Nat} (hb : b < N)
    (ha : σ a = c) (hnb : σ b ≠ c) : pull U σ (b, a) b = c := by
  unfold pull
  have := hg b hb hnb
  simp [ha, this]

def cnt (c N : Nat) (σ : Nat → Nat) : Nat := ((List.range N).filter (fun i => σ i != c)).length

theorem filter_length_le (l : List Nat) (p q : Nat → Bool) (h : ∀ x ∈ l, q x = true → p x = true) :
    (l.filter q).length ≤ (l.filter p).length := by
  induction l with
  | nil => simp
  | cons a t ih =>
    have iht := ih (fun x hx => h x (List.mem_cons_of_mem _ hx))
    have ha := h a (List.mem_cons_self ..)
    simp only [List.filter_cons]
    cases hq : q a <;> cases hp : p a <;> simp_all <;> omega

theorem filter_length_lt (l : List Nat) (p q : Nat → Bool) (h : ∀ x ∈ l, q x = true → p x = true)
    (x0 : Nat) (hx0 : x0 ∈ l) (hp0 : p x0 = true) (hq0 : q x0 = false) :
    (l.filter q).length < (l.filter p).length := by
  induction l with
  | nil => simp at hx0
  | cons a t ih =>
    have hle := filter_length_le t p q (fun x hx => h x (List.mem_cons_of_mem _ hx))
    have ha := h a (List.mem_cons_self ..)
    simp only [List.filter_cons]
    rcases List.mem_cons.mp hx0 with rfl | hx
    · simp [hp0, hq0]; omega
    · have iht := ih (fun x hx => h x (List.mem_cons_of_mem _ hx)) hx
      cases hq : q a <;> cases hp : p a <;> simp_all <;> omega

theorem cnt_le {c N : Nat} {σ σ' : Nat → Nat} (h : ∀ i, i < N → σ i = c → σ' i = c) :
    cnt c N σ' ≤ cnt c N σ := by
  apply filter_length_le
  intro x hx hq
  have hx' : x < N := by simpa using hx
  simp only [bne_iff_ne, ne_eq] at *
  exact fun hc => hq (h x hx' hc)

theorem cnt_lt {c N : Nat} {σ σ' : Nat → Nat} (h : ∀ i, i < N → σ i = c → σ' i = c)
    (b : Nat) (hb : b < N) (h1 : σ b ≠ c) (h2 : σ' b = c) : cnt c N σ' < cnt c N σ := by
  apply filter_length_lt _ _ _ _ b (by simpa using hb)
  · simpa using h1
  · simpa using h2
  · intro x hx hq
    have hx' : x < N := by simpa using hx
    simp only [bne_iff_ne, ne_eq] at *
    exact fun hc => hq (h x hx' hc)

theorem cnt_zero {c N : Nat} {σ : Nat → Nat} (h : cnt c N σ = 0) : ∀ i, i < N → σ i = c := by
  intro i hi
  unfold cnt at h
  have := List.eq_nil_of_length_eq_zero h
  rw [List.filter_eq_nil_iff] at this
  have := this i (by simpa using hi)
  simpa using this

theorem cnt_pos {c N : Nat} {σ : Nat → Nat} (h : 0 < cnt c N σ) : ∃ i, i < N ∧ σ i ≠ c := by
  unfold cnt at h
  obtain ⟨x, hx⟩ := List.exists_mem_of_length_pos h
  rw [List.mem_filter] at hx
  exact ⟨x, by simpa using hx.1, by simpa using hx.2⟩

/-- `i` is reachable from `m` along "pulls from" edges inside `{0..N-1}` -/
inductive Reach (adj : Nat → Nat → Prop) (N m : Nat) : Nat → Prop
  | base : Reach adj N m m
  | step {a b : Nat} : Reach adj N m a → a < N → b < N → adj b a → Reach adj N m b

theorem Reach.boundary {adj : Nat → Nat → Prop} {N m i c : Nat} {σ : Nat → Nat}
    (h : Reach adj N m i) (hm : σ m = c) (hi : σ i ≠ c) :
    ∃ a b, a < N ∧ b < N ∧ adj b a ∧ σ a = c ∧ σ b ≠ c := by
  induction h with
  | base => exact absurd hm hi
  | @step a b _ ha hb hadj ih =>
    by_cases hac : σ a = c
    · exact ⟨a, b, ha, hb, hadj, hac, hi⟩
    · exact ih hac

def InRange (N : Nat) (sched : Nat → Nat × Nat) : Prop := ∀ k, (sched k).1 < N ∧ (sched k).2 < N

/-- every edge is scheduled again and again -/
def Fair (adj : Nat → Nat → Prop) (sched : Nat → Nat × Nat) : Prop :=
  ∀ i j, adj i j → ∀ k, ∃ k', k ≤ k' ∧ sched k' = (i, j)

variable {c N : Nat} {σ0 : Nat → Nat} {sched : Nat → Nat × Nat}

theorem run_good (hg : Good U c N σ0) (hr : InRange N sched) : ∀ k, Good U c N (runSched U σ0 sched k) := by
  intro k
  induction k with
  | zero => exact hg
  | succ k ih => exact pull_good U ih _ (hr k).2

theorem run_stay (hg : Good U c N σ0) (hr : InRange N sched) {i : Nat} :
    ∀ d k, runSched U σ0 sched k i = c → runSched U σ0 sched (k + d) i = c := by
  intro d
  induction d with
  | zero => intro k h; exact h
  | succ d ih =>
    intro k h
    have := ih k h
    show pull U (runSched U σ0 sched (k + d)) (sched (k + d)) i = c
    exact pull_stay U (run_good U hg hr (k + d)) _ (hr (k + d)).2 this

theorem run_stay' (hg : Good U c N σ0) (hr : InRange N sched) {i k k' : Nat} (hk : k ≤ k')
    (h : runSched U σ0 sched k i = c) : runSched U σ0 sched k' i = c := by
  have := run_stay U hg hr (i := i) (k' - k) k h
  rwa [Nat.add_sub_cancel' hk] at this

theorem converge_measure {adj : Nat → Nat → Prop} {m : Nat} (hg : Good U c N σ0) (hr : InRange N sched)
    (hm : σ0 m = c) (hconn : ∀ i, i < N → Reach adj N m i) (hfair : Fair adj sched) :
    ∀ n k, cnt c N (runSched U σ0 sched k) ≤ n → ∃ K, k ≤ K ∧ cnt c N (runSched U σ0 sched K) = 0 := by
  intro n
  induction n with
  | zero => intro k h; exact ⟨k, Nat.le_refl _, Nat.le_zero.mp h⟩
  | succ n ih =>
    intro k h
    by_cases hle : cnt c N (runSched U σ0 sched k) ≤ n
    · exact ih k hle
    · have hpos : 0 < cnt c N (runSched U σ0 sched k) := by omega
      obtain ⟨i, hi, hne⟩ := cnt_pos hpos
      have hmk : runSched U σ0 sched k m = c := run_stay' U hg hr (Nat.zero_le k) hm
      obtain ⟨a, b, ha, hb, hadj, hac, hbc⟩ := (hconn i hi).boundary hmk hne
      obtain ⟨k', hk', hs⟩ := hfair b a hadj k
      have hmono : ∀ j, j < N → runSched U σ0 sched k j = c → runSched U σ0 sched k' j = c :=
        fun j _ hj => run_stay' U hg hr hk' hj
      by_cases hb' : runSched U σ0 sched k' b = c
      · have := cnt_lt hmono b hb hbc hb'
        obtain ⟨K, hK, hz⟩ := ih k' (by omega)
        exact ⟨K, Nat.le_trans hk' hK, hz⟩
      · have hstep : runSched U σ0 sched (k' + 1) b = c := by
          show pull U (runSched U σ0 sched k') (sched k') b = c
          rw [hs]
          exact pull_move U (run_good U hg hr k') hb (hmono a ha hac) hb'
        have hmono' : ∀ j, j < N → runSched U σ0 sched k' j = c → runSched U σ0 sched (k' + 1) j = c :=
          fun j _ hj => run_stay' U hg hr (Nat.le_succ k') hj
        have h1 := cnt_lt hmono' b hb hb' hstep
        have h2 := cnt_le (σ := runSched U σ0 sched k) (σ' := runSched U σ0 sched k') hmono
        obtain ⟨K, hK, hz⟩ := ih (k' + 1) (by omega)
        exact ⟨K, by omega, hz⟩

end Gossip

end Verif.Sync
