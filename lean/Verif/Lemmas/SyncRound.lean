/-
One real sync round against an honest peer = one pull step of the abstract gossip system.

Setting: an honest network — every block of the universe is valid (`AllValid`), forks are
arbitrary.  Node `n` runs `syncLoop` once against a peer whose best chain is `pb`
(`Sync.honestRound`: history sample → `SendHeaders` from the first entry the peer recognises →
request split → `SendCheckpoint`/`SendV2Blocks` → gates → `AddBlocks`/`AddValidatedV2Blocks`).
Result (`honestRound_is_pull`): the node's best chain becomes `pb` iff `pb`'s tip is
sufficiently heavier than its own tip, and is unchanged otherwise.
-/
import Verif.Lemmas.Sync

namespace Verif.Sync

/-- an honest universe: all blocks valid, heights are depths, every block adds more work than a
fifth of its parent's difficulty (a block's work *is* its parent's difficulty), v2 blocks above
the require height -/
structure AllValid (U : Univ) (cfg : Cfg) : Prop where
  p0 : (U 0).parent = 0
  h0 : (U 0).height = 0
  hgt : ∀ b, b ≠ 0 → (U b).height = (U (U b).parent).height + 1
  cid : ∀ b, (U b).cid = b
  hdr : ∀ b, (U b).hdr = true
  orphan : ∀ b, (U b).orphan = true
  body : ∀ b, (U b).body = true
  fut : ∀ b, (U b).future = false
  v2 : ∀ b, cfg.require < (U b).height → (U b).v2 = true
  work : ∀ b, b ≠ 0 → (U b).work > (U (U b).parent).work + (U (U b).parent).diff / 5
  req : 1 ≤ cfg.require

/-- a best chain: tip first, parent-linked, ending in genesis -/
inductive IsChain (U : Univ) : List Nat → Prop
  | gen : IsChain U [0]
  | cons {a b : Nat} {t : List Nat} : a ≠ 0 → (U a).parent = b → IsChain U (b :: t) → IsChain U (a :: b :: t)

theorem IsChain.ne_nil {U : Univ} {l : List Nat} (h : IsChain U l) : l ≠ [] := by cases h <;> simp

theorem IsChain.unique {U : Univ} {l₁ l₂ : List Nat} (h₁ : IsChain U l₁) (h₂ : IsChain U l₂)
    (hh : l₁.head? = l₂.head?) : l₁ = l₂ := by
  induction h₁ generalizing l₂ with
  | gen =>
    cases h₂ with
    | gen => rfl
    | cons ha _ _ => simp at hh; exact absurd hh.symm ha
  | @cons a b t ha hp _ ih =>
    cases h₂ with
    | gen => simp at hh; exact absurd hh ha
    | @cons a' b' t' ha' hp' ht' =>
      simp at hh; subst hh
      have : b = b' := by rw [← hp, ← hp']
      subst this
      have := ih ht' rfl
      simp at this ⊢; exact this

theorem IsChain.zero_mem {U : Univ} {l : List Nat} (h : IsChain U l) : 0 ∈ l := by
  induction h with
  | gen => simp
  | cons _ _ _ ih => exact List.mem_cons_of_mem _ ih

theorem IsChain.last {U : Univ} {l : List Nat} (h : IsChain U l) : l.getLast h.ne_nil = 0 := by
  induction h with
  | gen => rfl
  | cons _ _ _ ih => simpa using ih

theorem IsChain.tail {U : Univ} {a : Nat} {t : List Nat} (h : IsChain U (a :: t)) (ht : t ≠ []) : IsChain U t := by
  cases h with
  | gen => exact absurd rfl ht
  | cons _ _ h' => exact h'

/-- the part of a chain from `f` down is a chain with head `f` -/
theorem IsChain.suffix {U : Univ} {l : List Nat} (h : IsChain U l) {f : Nat} (hf : f ∈ l) :
    ∃ rest, suffixFrom l f = f :: rest ∧ IsChain U (f :: rest) := by
  induction h with
  | gen =>
    simp at hf; subst hf
    exact ⟨[], by simp [suffixFrom], .gen⟩
  | @cons a b t ha hp ht ih =>
    by_cases e : a = f
    · subst e
      exact ⟨b :: t, by simp [suffixFrom], .cons ha hp ht⟩
    · have hf' : f ∈ b :: t := by
        rcases List.mem_cons.mp hf with h | h
        · exact absurd h.symm e
        · exact h
      obtain ⟨rest, h1, h2⟩ := ih hf'
      refine ⟨rest, ?_, h2⟩
      have : suffixFrom (a :: b :: t) f = suffixFrom (b :: t) f := by simp [suffixFrom, e]
      rw [this]; exact h1

/-- `l` (oldest first) is parent-linked starting above `p` -/
def LinkedS (U : Univ) : Nat → List Nat → Prop
  | _, [] => True
  | p, b :: bs => (U b).parent = p ∧ LinkedS U b bs

theorem LinkedS.append {U : Univ} : ∀ {p : Nat} {l₁ l₂ : List Nat}, LinkedS U p l₁ →
    LinkedS U (l₁.getLastD p) l₂ → LinkedS U p (l₁ ++ l₂)
  | _, [], _, _, h2 => by simpa using h2
  | _, [a], _, ⟨h1, _⟩, h2 => ⟨h1, by simpa using h2⟩
  | _, a :: b :: t, _, ⟨h1, h1'⟩, h2 => ⟨h1, LinkedS.append (l₁ := b :: t) h1' (by simpa [List.getLastD] using h2)⟩

theorem getLastD_append_singleton (l : List Nat) (x d : Nat) : (l ++ [x]).getLastD d = x := by
  simp [List.getLastD_eq_getLast?]

theorem takeWhile_ne_cons {a f : Nat} (l : List Nat) (e : a ≠ f) :
    (a :: l).takeWhile (· != f) = a :: l.takeWhile (· != f) := by
  simp [List.takeWhile_cons, e]

theorem takeWhile_ne_self (f : Nat) (l : List Nat) : (f :: l).takeWhile (· != f) = [] := by
  simp [List.takeWhile_cons]

/-- the blocks of a chain above `f`, oldest first, are linked from `f`, and the chain is those
blocks (reversed) followed by the part from `f` down -/
theorem IsChain.split {U : Univ} {l : List Nat} (h : IsChain U l) {f : Nat} (hf : f ∈ l) :
    LinkedS U f ((l.takeWhile (· != f)).reverse) ∧
    l = l.takeWhile (· != f) ++ suffixFrom l f ∧
    (∀ x ∈ l.takeWhile (· != f), x ≠ 0) := by
  refine ⟨?_, by simp [suffixFrom], ?_⟩
  · induction h with
    | gen => simp at hf; subst hf; simp [LinkedS]
    | @cons a b t ha hp ht ih =>
      by_cases e : a = f
      · subst e; rw [takeWhile_ne_self]; simp [LinkedS]
      · have hf' : f ∈ b :: t := by
          rcases List.mem_cons.mp hf with h | h
          · exact absurd h.symm e
          · exact h
        have ih' := ih hf'
        have e1 := takeWhile_ne_cons (b :: t) e
        rw [e1, List.reverse_cons]
        apply LinkedS.append ih'
        by_cases e2 : b = f
        · subst e2; rw [takeWhile_ne_self]; simp [LinkedS, hp]
        · rw [takeWhile_ne_cons t e2, List.reverse_cons, getLastD_append_singleton]
          simp [LinkedS, hp]
  · induction h with
    | gen => intro x hx; simp at hf; subst hf; simp at hx
    | @cons a b t ha hp ht ih =>
      intro x hx
      by_cases e : a = f
      · subst e; rw [takeWhile_ne_self] at hx; simp at hx
      · have hf' : f ∈ b :: t := by
          rcases List.mem_cons.mp hf with h | h
          · exact absurd h.symm e
          · exact h
        rw [takeWhile_ne_cons (b :: t) e] at hx
        rcases List.mem_cons.mp hx with rfl | hx
        · exact ha
        · exact ih hf' x hx

/-! ### the minimal manager on an honest universe -/

structure NodeOK (U : Univ) (n : Node) : Prop where
  chain : IsChain U n.best
  bestsupp : ∀ b ∈ n.best, b ∈ n.supp
  suppknown : ∀ b ∈ n.supp, b ∈ n.known
  closed : ∀ b ∈ n.known, b ≠ 0 → (U b).parent ∈ n.known

theorem NodeOK.init {U : Univ} : NodeOK U Node.init := by
  refine ⟨.gen, ?_, ?_, ?_⟩ <;> simp [Node.init]

theorem NodeOK.tip_head {U : Univ} {n : Node} (h : NodeOK U n) : n.best.head? = some n.tip := by
  have := h.chain.ne_nil
  cases hb : n.best with
  | nil => exact absurd hb this
  | cons a t => simp [Node.tip, hb]

theorem NodeOK.tip_known {U : Univ} {n : Node} (h : NodeOK U n) : n.tip ∈ n.known := by
  have := h.tip_head
  have hm : n.tip ∈ n.best := List.mem_of_mem_head? this
  exact h.suppknown _ (h.bestsupp _ hm)

theorem climb_ok {U : Univ} {cfg : Cfg} (av : AllValid U cfg) {n : Node} (hz : 0 ∈ n.best)
    (hc : ∀ b ∈ n.known, b ≠ 0 → (U b).parent ∈ n.known) :
    ∀ (fuel b : Nat), b ∈ n.known → (U b).height + 1 ≤ fuel →
      ∃ up f, climb U n fuel b = some up ∧ Down U f b up ∧ f ∈ n.best ∧
        (∀ x ∈ up, x ∈ n.known ∧ x ∉ n.best) := by
  intro fuel
  induction fuel with
  | zero => intro b _ hf; omega
  | succ fuel ih =>
    intro b hb hf
    by_cases hbest : b ∈ n.best
    · exact ⟨[], b, by simp [climb, hbest], .nil, hbest, by simp⟩
    · have hb0 : b ≠ 0 := fun e => hbest (e ▸ hz)
      have hp := hc b hb hb0
      have hh := av.hgt b hb0
      obtain ⟨up, f, h1, h2, h3, h4⟩ := ih (U b).parent hp (by omega)
      refine ⟨b :: up, f, ?_, .cons h2, h3, ?_⟩
      · simp [climb, hbest, hb, h1]
      · intro x hx
        rcases List.mem_cons.mp hx with rfl | hx
        · exact ⟨hb, hbest⟩
        · exact h4 x hx

theorem applyAll_all_body {U : Univ} (l : List Nat) (hb : ∀ b ∈ l, (U b).body = true) :
    ∀ supp, (applyAll U supp l).2 = true := by
  induction l with
  | nil => intro supp; rfl
  | cons b bs ih =>
    intro supp
    unfold applyAll
    split
    · exact ih (fun x hx => hb x (List.mem_cons_of_mem _ hx)) supp
    · rw [if_pos (hb b (List.mem_cons_self ..))]
      exact ih (fun x hx => hb x (List.mem_cons_of_mem _ hx)) _

/-- a path climbed off the best chain, glued onto the best chain below the fork, is a chain -/
theorem Down.chain {U : Univ} {f b : Nat} {up rest : List Nat} (h : Down U f b up)
    (hnz : ∀ x ∈ up, x ≠ 0) (hr : IsChain U (f :: rest)) : IsChain U (up ++ f :: rest) := by
  induction h with
  | nil => simpa using hr
  | @cons b l hd ih =>
    have ih' := ih (fun x hx => hnz x (List.mem_cons_of_mem _ hx))
    have hb0 := hnz b (List.mem_cons_self ..)
    cases l with
    | nil =>
      cases hd
      exact .cons hb0 rfl (by simpa using ih')
    | cons x xs =>
      cases hd with
      | cons hd' => exact .cons hb0 rfl (by simpa using ih')

/-- on an honest universe a reorg to any known block succeeds -/
theorem reorgTo_honest {U : Univ} {cfg : Cfg} (av : AllValid U cfg) {n : Node} (h : NodeOK U n) {t : Nat}
    (ht : t ∈ n.known) :
    (reorgTo U n t).2 = true ∧ NodeOK U (reorgTo U n t).1 ∧ (reorgTo U n t).1.tip = t ∧
      (reorgTo U n t).1.known = n.known := by
  obtain ⟨up, f, h1, h2, h3, h4⟩ := climb_ok av h.chain.zero_mem h.closed ((U t).height + 1) t ht (Nat.le_refl _)
  have hok : (applyAll U n.supp up.reverse).2 = true := applyAll_all_body _ (fun b _ => av.body b) _
  have hsp := applyAll_spec U up.reverse n.supp (fun b _ _ => av.body b)
  have hfork := h2.fork
  obtain ⟨rest, hs1, hs2⟩ := h.chain.suffix h3
  have hnz : ∀ x ∈ up, x ≠ 0 := fun x hx e => (h4 x hx).2 (e ▸ h.chain.zero_mem)
  have hred : reorgTo U n t = ({ n with best := up ++ suffixFrom n.best f, supp := (applyAll U n.supp up.reverse).1 }, true) := by
    simp only [reorgTo, h1, hok, if_true, hfork]
  rw [hred]
  refine ⟨rfl, ⟨?_, ?_, ?_, h.closed⟩, ?_, rfl⟩
  · show IsChain U (up ++ suffixFrom n.best f)
    rw [hs1]; exact h2.chain hnz hs2
  · intro b hb
    simp only [List.mem_append] at hb
    rcases hb with hb | hb
    · exact hsp.2.1 hok b (by simpa using hb)
    · exact hsp.2.2 b (h.bestsupp b (mem_suffixFrom hb))
  · intro b hb
    show b ∈ n.known
    -- a block of the new supp is an old one or one of the climbed blocks
    have : ∀ (l : List Nat) (s : List Nat), (∀ x ∈ s, x ∈ n.known) → (∀ x ∈ l, x ∈ n.known) →
        ∀ x ∈ (applyAll U s l).1, x ∈ n.known := by
      intro l
      induction l with
      | nil => intro s hs _ x hx; exact hs x (by simpa [applyAll] using hx)
      | cons a t ih =>
        intro s hs hl x hx
        unfold applyAll at hx
        split at hx
        · exact ih s hs (fun y hy => hl y (List.mem_cons_of_mem _ hy)) x hx
        · split at hx
          · refine ih (a :: s) ?_ (fun y hy => hl y (List.mem_cons_of_mem _ hy)) x hx
            intro y hy
            rcases List.mem_cons.mp hy with rfl | hy
            · exact hl _ (List.mem_cons_self ..)
            · exact hs y hy
          · exact hs x hx
    exact this up.reverse n.supp h.suppknown (fun x hx => (h4 x (by simpa using hx)).1) b hb
  · have := (reorgTo_tip U n t).1
    rw [hred] at this
    exact this rfl

/-- the storing loop of `AddBlocks` on a linked run of (valid) blocks above a known block -/
theorem storeLoop_honest {U : Univ} {cfg : Cfg} (av : AllValid U cfg) : ∀ (c : List Nat) (n : Node) (cs p : Nat),
    (∀ b ∈ n.supp, b ∈ n.known) → (∀ b ∈ n.known, b ≠ 0 → (U b).parent ∈ n.known) →
    p ∈ n.known → LinkedS U p c →
    (storeLoop U n cs c).2.2 = none ∧ (storeLoop U n cs c).1.best = n.best ∧ (storeLoop U n cs c).1.supp = n.supp ∧
    (∀ x ∈ n.known, x ∈ (storeLoop U n cs c).1.known) ∧ (∀ x ∈ c, x ∈ (storeLoop U n cs c).1.known) ∧
    (∀ b ∈ (storeLoop U n cs c).1.known, b ≠ 0 → (U b).parent ∈ (storeLoop U n cs c).1.known) ∧
    (storeLoop U n cs c).2.1 = c.getLastD cs := by
  intro c
  induction c with
  | nil => intro n cs p _ hc _ _; simp [storeLoop]; exact hc
  | cons b bs ih =>
    intro n cs p hsk hc hp ⟨hl1, hl2⟩
    unfold storeLoop
    have hgl : (b :: bs).getLastD cs = bs.getLastD b := by cases bs <;> simp [List.getLastD]
    split
    · rename_i hany
      -- already have it: it is in supp, hence known
      have hb : b ∈ n.known := by
        obtain ⟨x, hx, hs⟩ := List.any_eq_true.mp hany
        have : x = b := by
          have := hs; simp only [sameId, beq_iff_eq] at this; rw [av.cid, av.cid] at this; exact this.symm
        exact hsk b (this ▸ hx)
      obtain ⟨i1, i2, i3, i4, i5, i6, i7⟩ := ih n b b hsk hc hb hl2
      refine ⟨i1, i2, i3, i4, ?_, i6, by rw [hgl]; exact i7⟩
      intro x hx
      rcases List.mem_cons.mp hx with rfl | hx
      · exact i4 _ hb
      · exact i5 x hx
    · have hpk : n.known.contains (U b).parent = true := by simpa [hl1] using hp
      simp only [hpk, Bool.not_true, Bool.and_false, Bool.false_eq_true, if_false, av.fut b, av.orphan b]
      have hsk' : ∀ x ∈ n.supp, x ∈ b :: n.known := fun x hx => List.mem_cons_of_mem _ (hsk x hx)
      have hc' : ∀ x ∈ b :: n.known, x ≠ 0 → (U x).parent ∈ b :: n.known := by
        intro x hx hx0
        rcases List.mem_cons.mp hx with rfl | hx
        · exact List.mem_cons_of_mem _ (hl1 ▸ hp)
        · exact List.mem_cons_of_mem _ (hc x hx hx0)
      obtain ⟨i1, i2, i3, i4, i5, i6, i7⟩ := ih { n with known := b :: n.known } b b hsk' hc' (List.mem_cons_self ..) hl2
      refine ⟨i1, i2, i3, fun x hx => i4 x (List.mem_cons_of_mem _ hx), ?_, i6, by rw [hgl]; exact i7⟩
      intro x hx
      rcases List.mem_cons.mp hx with rfl | hx
      · exact i4 _ (List.mem_cons_self ..)
      · exact i5 x hx

/-- what one honest batch does to the node, through either manager entry point: everything is
stored, and the tip moves to the batch's last block iff that block is sufficiently heavier -/
structure BatchOut (U : Univ) (n n' : Node) (c : List Nat) : Prop where
  ok : NodeOK U n'
  mono : ∀ x ∈ n.known, x ∈ n'.known
  stored : ∀ x ∈ c, x ∈ n'.known
  tip : n'.tip = if heavier U (c.getLastD n.tip) n.tip then c.getLastD n.tip else n.tip

theorem addBlocks_honest {U : Univ} {cfg : Cfg} (av : AllValid U cfg) {n : Node} (h : NodeOK U n)
    {c : List Nat} {p : Nat} (hne : c ≠ []) (hp : p ∈ n.known) (hl : LinkedS U p c) :
    (addBlocks U n c).2 = none ∧ BatchOut U n (addBlocks U n c).1 c := by
  unfold addBlocks
  have he : c.isEmpty = false := by cases c <;> simp at hne ⊢
  simp only [he, Bool.false_eq_true, if_false]
  obtain ⟨i1, i2, i3, i4, i5, i6, i7⟩ := storeLoop_honest av c n n.tip p h.suppknown h.closed hp hl
  rcases hs : storeLoop U n n.tip c with ⟨n1, cs, e⟩
  rw [hs] at i1 i2 i3 i4 i5 i6 i7
  simp only at i1 i2 i3 i4 i5 i6 i7
  subst i1 i7
  have hn1 : NodeOK U n1 := ⟨i2 ▸ h.chain, fun b hb => i3 ▸ h.bestsupp b (i2 ▸ hb), fun b hb => i4 b (h.suppknown b (i3 ▸ hb)), i6⟩
  have htip : n1.tip = n.tip := by simp [Node.tip, i2]
  have hck : c.getLastD n.tip ∈ n1.known := by
    cases c with
    | nil => exact absurd rfl hne
    | cons a t => exact i5 _ (by simp [List.getLastD_eq_getLast?, List.getLast?_eq_some_getLast, List.getLast_mem])
  simp only
  rw [htip]
  split
  · rename_i hh
    obtain ⟨r1, r2, r3, r4⟩ := reorgTo_honest av hn1 hck
    simp only [r1, if_true]
    exact ⟨trivial, r2, fun x hx => r4 ▸ i4 x hx, fun x hx => r4 ▸ i5 x hx, by rw [r3, if_pos hh]⟩
  · rename_i hh
    exact ⟨rfl, hn1, i4, i5, by rw [htip, if_neg hh]⟩

theorem storeValidated_honest {U : Univ} : ∀ (c : List Nat) (n : Node), (∀ b ∈ c, (U b).v2 = true) →
    (storeValidated U n c).2 = true ∧ (storeValidated U n c).1.best = n.best ∧
    (storeValidated U n c).1.known = c.reverse ++ n.known ∧ (storeValidated U n c).1.supp = c.reverse ++ n.supp := by
  intro c
  induction c with
  | nil => intro n _; simp [storeValidated]
  | cons b bs ih =>
    intro n hv
    unfold storeValidated
    simp only [hv b (List.mem_cons_self ..), Bool.not_true, Bool.false_eq_true, if_false]
    obtain ⟨i1, i2, i3, i4⟩ := ih { n with known := b :: n.known, supp := b :: n.supp } (fun x hx => hv x (List.mem_cons_of_mem _ hx))
    exact ⟨i1, i2, by simp [i3], by simp [i4]⟩

theorem linked_closed {U : Univ} : ∀ (c : List Nat) (p : Nat) (K : List Nat), p ∈ K → LinkedS U p c →
    (∀ b ∈ K, b ≠ 0 → (U b).parent ∈ K) → ∀ b ∈ c.reverse ++ K, b ≠ 0 → (U b).parent ∈ c.reverse ++ K := by
  intro c
  induction c with
  | nil => intro p K _ _ hc b hb; simpa using hc b (by simpa using hb)
  | cons a t ih =>
    intro p K hp ⟨h1, h2⟩ hc b hb hb0
    have hc' : ∀ x ∈ a :: K, x ≠ 0 → (U x).parent ∈ a :: K := by
      intro x hx hx0
      rcases List.mem_cons.mp hx with rfl | hx
      · exact List.mem_cons_of_mem _ (h1 ▸ hp)
      · exact List.mem_cons_of_mem _ (hc x hx hx0)
    have := ih a (a :: K) (List.mem_cons_self ..) h2 hc' b (by simpa [List.reverse_cons, List.append_assoc] using hb) hb0
    simpa [List.reverse_cons, List.append_assoc] using this

theorem addValidated_honest {U : Univ} {cfg : Cfg} (av : AllValid U cfg) {n : Node} (h : NodeOK U n)
    {c : List Nat} {p : Nat} (hne : c ≠ []) (hp : p ∈ n.known) (hl : LinkedS U p c) (hv : ∀ b ∈ c, (U b).v2 = true) :
    (addValidated U n c).2 = none ∧ BatchOut U n (addValidated U n c).1 c := by
  cases c with
  | nil => exact absurd rfl hne
  | cons b0 rest =>
    have hpar : (U b0).parent = p := hl.1
    unfold addValidated
    have hpk : n.known.contains (U b0).parent = true := by simpa [hpar] using hp
    simp only [hpk, Bool.not_true, Bool.false_eq_true, if_false]
    obtain ⟨s1, s2, s3, s4⟩ := storeValidated_honest (b0 :: rest) n hv
    simp only [s1, Bool.not_true, Bool.false_eq_true, if_false]
    have hn1 : NodeOK U (storeValidated U n (b0 :: rest)).1 := by
      refine ⟨s2 ▸ h.chain, ?_, ?_, ?_⟩
      · intro b hb; rw [s4]; exact List.mem_append_right _ (h.bestsupp b (s2 ▸ hb))
      · intro b hb
        rw [s4] at hb; rw [s3]
        rcases List.mem_append.mp hb with hb | hb
        · exact List.mem_append_left _ hb
        · exact List.mem_append_right _ (h.suppknown b hb)
      · rw [s3]; exact linked_closed (b0 :: rest) p n.known hp hl h.closed
    have htip : (storeValidated U n (b0 :: rest)).1.tip = n.tip := by simp [Node.tip, s2]
    have hgl : (b0 :: rest).getLastD b0 = (b0 :: rest).getLastD n.tip := by cases rest <;> simp [List.getLastD]
    have hck : (b0 :: rest).getLastD b0 ∈ (storeValidated U n (b0 :: rest)).1.known := by
      rw [s3]; apply List.mem_append_left
      rw [List.mem_reverse]
      have : (b0 :: rest).getLastD b0 = (b0 :: rest).getLast (by simp) := by
        simp [List.getLastD_eq_getLast?, List.getLast?_eq_some_getLast]
      rw [this]; exact List.getLast_mem _
    have hmono : ∀ x ∈ n.known, x ∈ (storeValidated U n (b0 :: rest)).1.known := fun x hx => by rw [s3]; exact List.mem_append_right _ hx
    have hst : ∀ x ∈ b0 :: rest, x ∈ (storeValidated U n (b0 :: rest)).1.known := fun x hx => by
      rw [s3]; exact List.mem_append_left _ (List.mem_reverse.mpr hx)
    rw [htip]
    split
    · rename_i hh
      obtain ⟨r1, r2, r3, r4⟩ := reorgTo_honest av hn1 hck
      simp only [r1, if_true]
      exact ⟨trivial, r2, fun x hx => r4 ▸ hmono x hx, fun x hx => r4 ▸ hst x hx, by rw [r3, ← hgl, if_pos hh]⟩
    · rename_i hh
      exact ⟨rfl, hn1, hmono, hst, by rw [htip, ← hgl, if_neg hh]⟩

/-! ### work along a chain -/

theorem linked_work {U : Univ} {cfg : Cfg} (av : AllValid U cfg) : ∀ (l : List Nat) (p : Nat), l ≠ [] →
    LinkedS U p l → (∀ b ∈ l, b ≠ 0) → heavier U (l.getLastD p) p = true := by
  intro l
  induction l with
  | nil => intro p h; exact absurd rfl h
  | cons a t ih =>
    intro p _ ⟨h1, h2⟩ hnz
    have ha := av.work a (hnz a (List.mem_cons_self ..))
    rw [h1] at ha
    cases t with
    | nil =>
      show heavier U a p = true
      simp only [heavier, decide_eq_true_eq]; exact ha
    | cons b t' =>
      have := ih a (by simp) h2 (fun x hx => hnz x (List.mem_cons_of_mem _ hx))
      have e : (a :: b :: t').getLastD p = (b :: t').getLastD a := by simp [List.getLastD]
      rw [e]
      simp only [heavier, decide_eq_true_eq] at this ⊢
      omega

theorem chain_work_le {U : Univ} {cfg : Cfg} (av : AllValid U cfg) {l : List Nat} (h : IsChain U l) :
    ∀ x ∈ l, (U x).work ≤ (U (l.headD 0)).work := by
  induction h with
  | gen => intro x hx; simp at hx; subst hx; simp
  | @cons a b t ha hp _ ih =>
    intro x hx
    rcases List.mem_cons.mp hx with rfl | hx
    · simp
    · have h1 := ih x hx
      have h2 := av.work a ha
      rw [hp] at h2
      simp only [List.headD_cons] at h1 ⊢
      omega

theorem linked_height {U : Univ} {cfg : Cfg} (av : AllValid U cfg) : ∀ (l : List Nat) (p : Nat),
    LinkedS U p l → (∀ b ∈ l, b ≠ 0) →
    (U (l.getLastD p)).height = (U p).height + l.length ∧ ∀ b ∈ l, (U p).height < (U b).height := by
  intro l
  induction l with
  | nil => intro p _ _; simp
  | cons a t ih =>
    intro p ⟨h1, h2⟩ hnz
    have ha := av.hgt a (hnz a (List.mem_cons_self ..))
    rw [h1] at ha
    obtain ⟨i1, i2⟩ := ih a h2 (fun x hx => hnz x (List.mem_cons_of_mem _ hx))
    have e : (a :: t).getLastD p = t.getLastD a := by cases t <;> simp [List.getLastD]
    refine ⟨by rw [e, i1, ha]; simp; omega, ?_⟩
    intro b hb
    rcases List.mem_cons.mp hb with rfl | hb
    · omega
    · have := i2 b hb; omega

/-! ### the gates against an honest peer -/

theorem headersOk_linked {U : Univ} {cfg : Cfg} (av : AllValid U cfg) : ∀ (l : List Nat) (p : Nat),
    LinkedS U p l → headersOk U p l = true := by
  intro l
  induction l with
  | nil => intro _ _; rfl
  | cons a t ih =>
    intro p ⟨h1, h2⟩
    simp [headersOk, h1, av.cid, av.hdr, ih a h2]

theorem validateChain_linked {U : Univ} {cfg : Cfg} (av : AllValid U cfg) : ∀ (l : List Nat) (p : Nat),
    LinkedS U p l → validateChain U true p l = true := by
  intro l
  induction l with
  | nil => intro _ _; rfl
  | cons a t ih =>
    intro p ⟨h1, h2⟩
    simp [validateChain, h1, av.cid, av.body, av.fut, ih a h2]

/-- one request answered by an honest peer passes its gate and is accepted by the manager -/
theorem stepBatch_honest {U : Univ} {cfg : Cfg} (av : AllValid U cfg) {n : Node} (h : NodeOK U n) (q : Req)
    (hb : q.base ∈ n.known) (hne : q.hdrs ≠ []) (hl : LinkedS U q.base q.hdrs) (hnz : ∀ b ∈ q.hdrs, b ≠ 0)
    (hh : (U q.base).height = q.baseHeight) :
    (stepBatch U cfg n q (serveBatch q)).2 = .apply ∧ BatchOut U n (stepBatch U cfg n q (serveBatch q)).1 q.hdrs := by
  by_cases hreq : q.baseHeight ≥ cfg.require
  · have hg : gateBatch U cfg q (serveBatch q) = .ok q.hdrs true := by
      simp [gateBatch, serveBatch, hreq, sameId, av.orphan, validateChain_linked av q.hdrs q.base hl]
    have hv : ∀ b ∈ q.hdrs, (U b).v2 = true := by
      intro b hbm
      have := (linked_height av q.hdrs q.base hl hnz).2 b hbm
      exact av.v2 b (by omega)
    obtain ⟨a1, a2⟩ := addValidated_honest av h hne hb hl hv
    simp only [stepBatch, hg, if_true, a1]
    exact ⟨rfl, a2⟩
  · have hg : gateBatch U cfg q (serveBatch q) = .ok q.hdrs false := by
      simp [gateBatch, serveBatch, hreq]
    obtain ⟨a1, a2⟩ := addBlocks_honest av h hne hb hl
    simp only [stepBatch, hg, Bool.false_eq_true, if_false, a1]
    exact ⟨rfl, a2⟩

/-- the requests of a round: consecutive linked runs of headers, each based on the last block
of the previous one, with the right base height -/
def ReqsOK (U : Univ) : Nat → List Req → Prop
  | _, [] => True
  | p, q :: qs => q.base = p ∧ q.hdrs ≠ [] ∧ LinkedS U p q.hdrs ∧ (∀ b ∈ q.hdrs, b ≠ 0) ∧
      (U p).height = q.baseHeight ∧ ReqsOK U (q.hdrs.getLastD p) qs

/-- the last block of the last request (`p` if there is none) -/
def lastEnd : List Req → Nat → Nat
  | [], p => p
  | q :: qs, p => lastEnd qs (q.hdrs.getLastD p)

/-- **the batches of an honest round**: every request is accepted, and the tip ends on the last
block iff that block is sufficiently heavier than the tip `t0` the round started from.  (Either
the tip has not moved yet and the current base is not heavier than it, or it sits on the current
base; a later block of the same chain is always sufficiently heavier than an earlier one.) -/
theorem runBatches_honest {U : Univ} {cfg : Cfg} (av : AllValid U cfg) (t0 : Nat) : ∀ (qs : List Req) (n : Node) (p : Nat),
    NodeOK U n → p ∈ n.known → ReqsOK U p qs →
    ((n.tip = t0 ∧ heavier U p t0 = false) ∨ (n.tip = p ∧ heavier U p t0 = true)) →
    (runBatches U cfg n qs (qs.map serveBatch)).2.1 = .apply ∧
    NodeOK U (runBatches U cfg n qs (qs.map serveBatch)).1 ∧
    (runBatches U cfg n qs (qs.map serveBatch)).1.tip =
      (if heavier U (lastEnd qs p) t0 then lastEnd qs p else t0) := by
  intro qs
  induction qs with
  | nil =>
    intro n p h _ _ hst
    refine ⟨rfl, h, ?_⟩
    show n.tip = if heavier U p t0 = true then p else t0
    rcases hst with ⟨h1, h2⟩ | ⟨h1, h2⟩
    · rw [if_neg (by simp [h2])]; exact h1
    · rw [if_pos h2]; exact h1
  | cons q qs ih =>
    intro n p h hp ⟨r1, r2, r3, r4, r5, r6⟩ hst
    subst r1
    obtain ⟨s1, s2⟩ := stepBatch_honest av h q hp r2 r3 r4 r5
    have he := linked_work av q.hdrs q.base r2 r3 r4
    -- the end of this request, seen from the current tip
    have hgl : q.hdrs.getLastD n.tip = q.hdrs.getLastD q.base := by
      cases hq : q.hdrs with
      | nil => exact absurd hq r2
      | cons a t => simp [List.getLastD]
    have hek : q.hdrs.getLastD q.base ∈ (stepBatch U cfg n q (serveBatch q)).1.known := by
      apply s2.stored
      cases hq : q.hdrs with
      | nil => exact absurd hq r2
      | cons a t =>
        have : (a :: t).getLastD q.base = (a :: t).getLast (by simp) := by
          simp [List.getLastD_eq_getLast?, List.getLast?_eq_some_getLast]
        rw [this]; exact List.getLast_mem _
    have hstate : ((stepBatch U cfg n q (serveBatch q)).1.tip = t0 ∧ heavier U (q.hdrs.getLastD q.base) t0 = false) ∨
        ((stepBatch U cfg n q (serveBatch q)).1.tip = q.hdrs.getLastD q.base ∧ heavier U (q.hdrs.getLastD q.base) t0 = true) := by
      have ht := s2.tip
      rw [hgl] at ht
      rcases hst with ⟨h1, h2⟩ | ⟨h1, h2⟩
      · rw [h1] at ht
        cases hh : heavier U (q.hdrs.getLastD q.base) t0 with
        | true => right; rw [hh] at ht; exact ⟨by simpa using ht, rfl⟩
        | false => left; rw [hh] at ht; exact ⟨by simpa using ht, rfl⟩
      · rw [h1, he] at ht
        right
        refine ⟨by simpa using ht, ?_⟩
        simp only [heavier, decide_eq_true_eq] at he h2 ⊢
        omega
    have := ih _ (q.hdrs.getLastD q.base) s2.ok hek r6 hstate
    simp only [List.map_cons, runBatches, s1, if_true, lastEnd]
    exact this

/-! ### the request split -/

theorem LinkedS.take_drop {U : Univ} : ∀ (k : Nat) (l : List Nat) (p : Nat), LinkedS U p l →
    LinkedS U p (l.take k) ∧ LinkedS U ((l.take k).getLastD p) (l.drop k) := by
  intro k
  induction k with
  | zero => intro l p h; simpa [LinkedS] using h
  | succ k ih =>
    intro l p h
    cases l with
    | nil => simp [LinkedS]
    | cons a t =>
      obtain ⟨h1, h2⟩ := h
      obtain ⟨i1, i2⟩ := ih t a h2
      refine ⟨⟨h1, i1⟩, ?_⟩
      have : ((a :: t).take (k + 1)).getLastD p = (t.take k).getLastD a := by
        simp only [List.take_succ_cons]
        cases t.take k <;> simp [List.getLastD]
      rw [this]; simpa using i2

theorem mkReqsAux_ok {U : Univ} {cfg : Cfg} (av : AllValid U cfg) (k h0 : Nat) (hk : 0 < k) :
    ∀ (fuel : Nat) (l : List Nat) (p i : Nat), l.length ≤ fuel → LinkedS U p l → (∀ b ∈ l, b ≠ 0) →
      (U p).height = h0 + i * k →
      ReqsOK U p (mkReqsAux U k h0 i (chunksAux k fuel l)) ∧
      lastEnd (mkReqsAux U k h0 i (chunksAux k fuel l)) p = l.getLastD p := by
  intro fuel
  induction fuel with
  | zero =>
    intro l p i hl _ _ _
    have : l = [] := List.length_eq_zero_iff.mp (Nat.le_zero.mp hl)
    subst this; simp [chunksAux, mkReqsAux, ReqsOK, lastEnd]
  | succ fuel ih =>
    intro l p i hl hlk hnz hh
    cases l with
    | nil => simp [chunksAux, mkReqsAux, ReqsOK, lastEnd]
    | cons a t =>
      have hne : ((a :: t).take k) ≠ [] := by
        cases k with
        | zero => omega
        | succ k => simp
      obtain ⟨t1, t2⟩ := LinkedS.take_drop k (a :: t) p hlk
      have hnz1 : ∀ b ∈ (a :: t).take k, b ≠ 0 := fun b hb => hnz b (List.mem_of_mem_take hb)
      have hnz2 : ∀ b ∈ (a :: t).drop k, b ≠ 0 := fun b hb => hnz b (List.mem_of_mem_drop hb)
      have hhead : ((a :: t).take k).headD 0 = a := by
        cases k with
        | zero => omega
        | succ k => simp
      have hlen2 : ((a :: t).drop k).length ≤ fuel := by
        simp only [List.length_drop, List.length_cons] at hl ⊢; omega
      simp only [chunksAux, List.isEmpty_cons, Bool.false_eq_true, if_false, mkReqsAux, hhead]
      have hbase : (U a).parent = p := hlk.1
      by_cases hd : (a :: t).drop k = []
      · -- last chunk
        rw [hd]
        have hfull : (a :: t).take k = a :: t := by
          have := List.take_append_drop k (a :: t)
          rw [hd, List.append_nil] at this; exact this
        cases fuel with
        | zero =>
          simp only [chunksAux, mkReqsAux, ReqsOK, lastEnd]
          exact ⟨⟨hbase, hne, t1, hnz1, hh, trivial⟩, by rw [hfull]⟩
        | succ f =>
          simp only [chunksAux, List.isEmpty_nil, if_true, mkReqsAux, ReqsOK, lastEnd]
          exact ⟨⟨hbase, hne, t1, hnz1, hh, trivial⟩, by rw [hfull]⟩
      · -- a full chunk followed by more
        have hlenk : ((a :: t).take k).length = k := by
          have : k < (a :: t).length :=
            Nat.lt_of_not_le (fun hc => hd (List.drop_eq_nil_of_le hc))
          rw [List.length_take]; omega
        have hh2 : (U (((a :: t).take k).getLastD p)).height = h0 + (i + 1) * k := by
          rw [(linked_height av _ p t1 hnz1).1, hlenk, hh, Nat.add_mul]; omega
        obtain ⟨j1, j2⟩ := ih ((a :: t).drop k) (((a :: t).take k).getLastD p) (i + 1) hlen2 t2 hnz2 hh2
        refine ⟨⟨hbase, hne, t1, hnz1, hh, j1⟩, ?_⟩
        simp only [lastEnd]
        rw [j2]
        -- the last block of the rest is the last block of the whole
        have hsplit := List.take_append_drop k (a :: t)
        have : (a :: t).getLastD p = ((a :: t).take k ++ (a :: t).drop k).getLastD p := by rw [hsplit]
        rw [this]
        cases hdd : (a :: t).drop k with
        | nil => exact absurd hdd hd
        | cons x xs => simp [List.getLastD_eq_getLast?, List.getLast?_append]

theorem mkReqs_ok {U : Univ} {cfg : Cfg} (av : AllValid U cfg) (k : Nat) (base : Nat) (hdrs : List Nat)
    (hl : LinkedS U base hdrs) (hnz : ∀ b ∈ hdrs, b ≠ 0) :
    ReqsOK U base (mkReqs U k base hdrs) ∧ lastEnd (mkReqs U k base hdrs) base = hdrs.getLastD base := by
  unfold mkReqs chunks
  exact mkReqsAux_ok av (max k 1) (U base).height (by omega) hdrs.length hdrs base 0 (Nat.le_refl _) hl hnz (by simp)

/-! ### the header phase against an honest peer -/

theorem headerPhase_honest {U : Univ} {cfg : Cfg} (av : AllValid U cfg) {pb : List Nat} (hpb : IsChain U pb) :
    ∀ (hist : List Nat), (∃ x ∈ hist, x ∈ pb) →
      ∃ base, base ∈ hist ∧ base ∈ pb ∧
        (headerPhase U hist (hist.map (serveHeaders pb))).1 =
          (if ((pb.takeWhile (· != base)).reverse).isEmpty then HOut.synced
           else HOut.go base ((pb.takeWhile (· != base)).reverse) 0) := by
  intro hist
  induction hist with
  | nil => intro ⟨x, hx, _⟩; simp at hx
  | cons id rest ih =>
    intro hex
    by_cases hid : id ∈ pb
    · refine ⟨id, List.mem_cons_self .., hid, ?_⟩
      have hc : pb.contains id = true := by simpa using hid
      have hok := headersOk_linked av _ id (hpb.split hid).1
      simp only [List.map_cons, serveHeaders, hc, if_true, headerPhase, hok, Bool.not_true, Bool.false_eq_true, if_false]
      split <;> rfl
    · obtain ⟨x, hx, hxp⟩ := hex
      have hx' : x ∈ rest := by
        rcases List.mem_cons.mp hx with rfl | h
        · exact absurd hxp hid
        · exact h
      obtain ⟨base, h1, h2, h3⟩ := ih ⟨x, hx', hxp⟩
      refine ⟨base, List.mem_cons_of_mem _ h1, h2, ?_⟩
      have hc : pb.contains id = false := by simpa using hid
      simp only [List.map_cons, serveHeaders, hc, Bool.false_eq_true, if_false, headerPhase]
      exact h3

/-! ### one honest round = one pull -/

theorem takeWhile_nil_head {pb : List Nat} {base : Nat} (hne : pb ≠ []) (h : pb.takeWhile (· != base) = []) :
    pb.headD 0 = base := by
  cases pb with
  | nil => exact absurd rfl hne
  | cons a t =>
    by_cases e : a = base
    · simpa using e
    · rw [takeWhile_ne_cons t e] at h; cases h

theorem takeWhile_cons_head {pb : List Nat} {base : Nat} (h : pb.takeWhile (· != base) ≠ []) (d : Nat) :
    ((pb.takeWhile (· != base)).reverse).getLastD d = pb.headD 0 := by
  cases pb with
  | nil => simp at h
  | cons a t =>
    by_cases e : a = base
    · subst e; rw [takeWhile_ne_self] at h; exact absurd rfl h
    · rw [takeWhile_ne_cons t e, List.reverse_cons, getLastD_append_singleton]; rfl

theorem NodeOK.best_eq {U : Univ} {n : Node} (h : NodeOK U n) {l : List Nat} (hl : IsChain U l)
    (hh : l.head? = some n.tip) : n.best = l :=
  h.chain.unique hl (by rw [h.tip_head, hh])

/-- **one real sync round against an honest peer is one pull step**: the node keeps the node
invariant, and its best chain becomes the peer's iff the peer's tip is sufficiently heavier than
its own tip. -/
theorem honestRound_spec {U : Univ} {cfg : Cfg} (av : AllValid U cfg) {n : Node} (h : NodeOK U n)
    {pb : List Nat} (hpb : IsChain U pb) (hlen : n.best.length ≤ 8388616) :
    NodeOK U (honestRound U cfg n pb) ∧
    (honestRound U cfg n pb).best = (if heavier U (pb.headD 0) n.tip then pb else n.best) := by
  have hne := h.chain.ne_nil
  have h0 : (0 : Nat) ∈ history n.best := by
    have := last_mem_history n.best hne hlen
    rwa [h.chain.last] at this
  obtain ⟨base, hb1, hb2, hph⟩ := headerPhase_honest av hpb (history n.best) ⟨0, h0, hpb.zero_mem⟩
  have hbn : base ∈ n.best := mem_of_mem_history n.best hne hb1
  have htipD : n.best.headD 0 = n.tip := rfl
  have hnh : heavier U base n.tip = false := by
    have := chain_work_le av h.chain base hbn
    rw [htipD] at this
    simp only [heavier, decide_eq_false_iff_not]; omega
  obtain ⟨hl, _, hnz⟩ := hpb.split hb2
  unfold honestRound
  simp only []
  rcases hp : headerPhase U (history n.best) ((history n.best).map (serveHeaders pb)) with ⟨o, asked⟩
  rw [hp] at hph
  simp only at hph
  by_cases hemp : (pb.takeWhile (· != base)).reverse.isEmpty = true
  · -- the peer's tip is on our best chain: nothing to fetch
    rw [if_pos hemp] at hph
    subst hph
    simp only
    refine ⟨h, ?_⟩
    have htw : pb.takeWhile (· != base) = [] := by simpa using hemp
    have := takeWhile_nil_head hpb.ne_nil htw
    rw [this, hnh]; simp
  · rw [if_neg hemp] at hph
    subst hph
    simp only [stepSync, hp]
    have htw : pb.takeWhile (· != base) ≠ [] := by simpa using hemp
    have hnz' : ∀ b ∈ (pb.takeWhile (· != base)).reverse, b ≠ 0 := fun b hb => hnz b (by simpa using hb)
    obtain ⟨q1, q2⟩ := mkReqs_ok av cfg.perReq base _ hl hnz'
    have hbk : base ∈ n.known := h.suppknown _ (h.bestsupp _ hbn)
    obtain ⟨r1, r2, r3⟩ := runBatches_honest av n.tip _ n base h hbk q1 (.inl ⟨rfl, hnh⟩)
    rw [q2, takeWhile_cons_head htw] at r3
    refine ⟨r2, ?_⟩
    have hpbh : pb.head? = some (pb.headD 0) := by
      cases pb with
      | nil => exact absurd rfl hpb.ne_nil
      | cons a t => rfl
    by_cases hh : heavier U (pb.headD 0) n.tip = true
    · rw [if_pos hh] at r3 ⊢
      exact r2.best_eq hpb (by rw [hpbh, r3])
    · rw [if_neg hh] at r3 ⊢
      exact r2.best_eq h.chain (by rw [h.tip_head, r3])

/-! ### the concrete gossip system refines the abstract one -/

theorem chain_len {U : Univ} {cfg : Cfg} (av : AllValid U cfg) {l : List Nat} (h : IsChain U l) :
    l.length = (U (l.headD 0)).height + 1 := by
  induction h with
  | gen => simp [av.h0]
  | @cons a b t ha hp _ ih =>
    have := av.hgt a ha
    rw [hp] at this
    simp only [List.headD_cons, List.length_cons] at ih ⊢
    omega

/-- the 32-entry history sample reaches genesis only for chains of at most `7 + 2^23 + 1` blocks -/
def HeightBound (U : Univ) : Prop := ∀ b, (U b).height < 8388616

theorem runSchedC_spec {U : Univ} {cfg : Cfg} (av : AllValid U cfg) (hbd : HeightBound U)
    {σ0 : Nat → Node} (h0 : ∀ x, NodeOK U (σ0 x)) (sched : Nat → Nat × Nat) :
    ∀ k x, NodeOK U (runSchedC U cfg σ0 sched k x) ∧
      (runSchedC U cfg σ0 sched k x).tip = runSched U (fun y => (σ0 y).tip) sched k x := by
  intro k
  induction k with
  | zero => intro x; exact ⟨h0 x, rfl⟩
  | succ k ih =>
    intro x
    show NodeOK U (pullC U cfg (runSchedC U cfg σ0 sched k) (sched k) x) ∧
      (pullC U cfg (runSchedC U cfg σ0 sched k) (sched k) x).tip =
        pull U (runSched U (fun y => (σ0 y).tip) sched k) (sched k) x
    unfold pullC pull
    by_cases hx : x = (sched k).1
    · rw [if_pos hx]
      obtain ⟨i1, t1⟩ := ih (sched k).1
      obtain ⟨i2, t2⟩ := ih (sched k).2
      have hlen : (runSchedC U cfg σ0 sched k (sched k).1).best.length ≤ 8388616 := by
        rw [chain_len av i1.chain]; have := hbd ((runSchedC U cfg σ0 sched k (sched k).1).best.headD 0); omega
      obtain ⟨r1, r2⟩ := honestRound_spec (cfg := cfg) av i1 i2.chain hlen
      refine ⟨r1, ?_⟩
      have hpt : (runSchedC U cfg σ0 sched k (sched k).2).best.headD 0 = (runSchedC U cfg σ0 sched k (sched k).2).tip := rfl
      rw [hpt] at r2
      show (honestRound U cfg _ _).best.headD 0 = _
      rw [r2, ← t1, ← t2]
      by_cases hh : heavier U (runSchedC U cfg σ0 sched k (sched k).2).tip (runSchedC U cfg σ0 sched k (sched k).1).tip = true
      · rw [if_pos hh, if_pos ⟨hx, hh⟩]; rfl
      · rw [if_neg hh, if_neg (fun c => hh c.2)]
        first | exact t1 | (rw [hx]; exact t1)
    · rw [if_neg hx, if_neg (fun c => hx c.1)]
      exact ih x

end Verif.Sync
