/-
Helper lemmas for C20 (`Verif/Props/C20.lean`) about the model `Verif/Model/Seed.lean`.
Core-only; every proof is kernel-checked `Nat` arithmetic (`omega`) after the bitwise
operators have been rewritten to `/`, `%`, `+` by `or_eq_add` and `Nat.and_two_pow_sub_one_eq_mod`.
-/
import Verif.Model.Seed

set_option linter.unusedSimpArgs false

namespace Verif.Seed

/-! ### bitwise operators as arithmetic -/

/-- `a | b = a + b` when `a` is a multiple of `2^i` and `b < 2^i` -/
theorem or_eq_add (i a b : Nat) (ha : a % 2 ^ i = 0) (hb : b < 2 ^ i) : a ||| b = a + b := by
  have h : a = (a / 2 ^ i) <<< i := by
    rw [Nat.shiftLeft_eq]
    have := Nat.div_add_mod a (2 ^ i)
    rw [ha, Nat.mul_comm] at this
    omega
  rw [h]; exact (Nat.shiftLeft_add_eq_or_of_lt hb _).symm

theorem and_wordMask (x : Nat) : x &&& wordMask = x % 2048 := Nat.and_two_pow_sub_one_eq_mod x 11
theorem and_lastMask (x : Nat) : x &&& lastMask = x % 128 := Nat.and_two_pow_sub_one_eq_mod x 7
theorem and_ckMask (x : Nat) : x &&& ckMask = x % 16 := Nat.and_two_pow_sub_one_eq_mod x 4

/-- `(h & 0xF0) >> 4` is a nibble, for every `h` -/
theorem nibble_lt (h0 : Nat) : nibble h0 < 16 := by
  have h : h0 &&& hashMask ≤ 240 := Nat.and_le_right
  simp only [nibble, shr, ckBits, Nat.shiftRight_eq_div_pow, Nat.reducePow]
  omega

/-- on a byte it is the high nibble -/
theorem nibble_eq (h0 : Nat) (h : h0 < 256) : nibble h0 = h0 / 16 := by
  have e : h0 &&& hashMask = h0 / 16 * 16 := by
    apply Nat.eq_of_testBit_eq
    intro i
    have : hashMask = 2 ^ 8 - 2 ^ 4 := by decide
    rw [Nat.testBit_and, Nat.mul_comm, show (16 : Nat) = 2 ^ 4 from rfl, Nat.testBit_two_pow_mul,
      Nat.testBit_div_two_pow, this]
    by_cases h4 : 4 ≤ i
    · by_cases h8 : i < 8
      · have : (2 ^ 8 - 2 ^ 4 : Nat).testBit i = true := by
          have : i = 4 ∨ i = 5 ∨ i = 6 ∨ i = 7 := by omega
          rcases this with rfl | rfl | rfl | rfl <;> decide
        simp [this, h4, show i - 4 + 4 = i by omega]
      · have : h0.testBit i = false := Nat.testBit_lt_two_pow (by
          have : 2 ^ 8 ≤ 2 ^ i := Nat.pow_le_pow_right (by decide) (by omega)
          omega)
        simp [this, show i - 4 + 4 = i by omega]
    · have : (2 ^ 8 - 2 ^ 4 : Nat).testBit i = false := by
        have : i = 0 ∨ i = 1 ∨ i = 2 ∨ i = 3 := by omega
        rcases this with rfl | rfl | rfl | rfl <;> decide
      simp [this, h4]
  simp only [nibble, shr, ckBits, Nat.shiftRight_eq_div_pow, e, Nat.reducePow]
  omega

/-! ### the `(hi, lo)` shifts are 128-bit shifts -/

/-- seed.go:76-77 (`lo = lo>>11 | hi<<(64-11); hi >>= 11`) divides the 128-bit value by `2^11` -/
theorem pair_shr11 (hi lo : Nat) (_hh : hi < 2 ^ 64) (hl : lo < 2 ^ 64) :
    shr lo wordBits ||| shl hi (64 - wordBits) = (hi * 2 ^ 64 + lo) / 2 ^ 11 % 2 ^ 64 ∧
    shr hi wordBits = (hi * 2 ^ 64 + lo) / 2 ^ 11 / 2 ^ 64 := by
  simp only [shr, shl, wordBits, lastBits, ckBits, Nat.shiftLeft_eq, Nat.shiftRight_eq_div_pow, Nat.reduceSub, Nat.reducePow]
  rw [Nat.or_comm, or_eq_add 53 _ _ (by omega) (by omega)]
  omega

/-- seed.go:72-73 (`lo = lo>>7 | hi<<(64-7); hi >>= 7`) divides the 128-bit value by `2^7` -/
theorem pair_shr7 (hi lo : Nat) (_hh : hi < 2 ^ 64) (hl : lo < 2 ^ 64) :
    shr lo lastBits ||| shl hi (64 - lastBits) = (hi * 2 ^ 64 + lo) / 2 ^ 7 % 2 ^ 64 ∧
    shr hi lastBits = (hi * 2 ^ 64 + lo) / 2 ^ 7 / 2 ^ 64 := by
  simp only [shr, shl, wordBits, lastBits, ckBits, Nat.shiftLeft_eq, Nat.shiftRight_eq_div_pow, Nat.reduceSub, Nat.reducePow]
  rw [Nat.or_comm, or_eq_add 57 _ _ (by omega) (by omega)]
  omega

/-- seed.go:99-100 (`hi = hi<<11 | lo>>(64-11); lo = lo<<11 | v`) is
`x ↦ (x * 2^11 + v) mod 2^128` on the 128-bit value -/
theorem pair_shl11 (hi lo v : Nat) (_hh : hi < 2 ^ 64) (hl : lo < 2 ^ 64) (hv : v < 2048) :
    (decStep (hi, lo) v).1 = ((hi * 2 ^ 64 + lo) * 2 ^ 11 + v) % 2 ^ 128 / 2 ^ 64 ∧
    (decStep (hi, lo) v).2 = ((hi * 2 ^ 64 + lo) * 2 ^ 11 + v) % 2 ^ 64 := by
  simp only [decStep, shr, shl, wordBits, lastBits, ckBits, Nat.shiftLeft_eq, Nat.shiftRight_eq_div_pow, Nat.reduceSub, Nat.reducePow]
  rw [or_eq_add 11 _ _ (by omega) (by omega), or_eq_add 11 _ v (by omega) (by omega)]
  omega

/-- seed.go:106-107 (`hi = hi<<7 | lo>>(64-7); lo = lo<<7 | w>>4`) -/
theorem pair_shl7 (hi lo w : Nat) (_hh : hi < 2 ^ 64) (hl : lo < 2 ^ 64) (hw : w < 2048) :
    shl hi lastBits ||| shr lo (64 - lastBits) =
      ((hi * 2 ^ 64 + lo) * 2 ^ 7 + w / 16) % 2 ^ 128 / 2 ^ 64 ∧
    shl lo lastBits ||| shr w ckBits = ((hi * 2 ^ 64 + lo) * 2 ^ 7 + w / 16) % 2 ^ 64 := by
  simp only [shr, shl, wordBits, lastBits, ckBits, Nat.shiftLeft_eq, Nat.shiftRight_eq_div_pow, Nat.reduceSub, Nat.reducePow]
  rw [or_eq_add 7 _ _ (by omega) (by omega), or_eq_add 7 _ (w / 16) (by omega) (by omega)]
  omega

/-! ### lists: induction from the right -/

theorem snoc_induction {α} {P : List α → Prop} (nil : P [])
    (snoc : ∀ l a, P l → P (l ++ [a])) : ∀ l, P l := by
  have h : ∀ l : List α, P l.reverse := by
    intro l
    induction l with
    | nil => exact nil
    | cons a l ih => rw [List.reverse_cons]; exact snoc _ _ ih
  intro l
  have := h l.reverse
  rwa [List.reverse_reverse] at this

/-! ### base-2048 digits -/

theorem value_snoc (l : List Nat) (a : Nat) : value (l ++ [a]) = value l * 2048 + a := by
  simp [value, List.foldl_append]

theorem length_digitsBE (n x : Nat) : (digitsBE n x).length = n := by
  induction n generalizing x with
  | zero => rfl
  | succ n ih => simp [digitsBE, ih]

theorem digitsBE_lt (n x : Nat) : ∀ w ∈ digitsBE n x, w < 2048 := by
  induction n generalizing x with
  | zero => intro w h; simp [digitsBE] at h
  | succ n ih =>
    intro w h
    simp only [digitsBE, List.mem_append, List.mem_singleton] at h
    rcases h with h | h
    · exact ih _ _ h
    · omega

theorem value_digitsBE (n x : Nat) : value (digitsBE n x) = x % 2048 ^ n := by
  induction n generalizing x with
  | zero => simp [digitsBE, value, Nat.mod_one]
  | succ n ih =>
    rw [digitsBE, value_snoc, ih, Nat.pow_succ, Nat.mul_comm (2048 ^ n) 2048, Nat.mod_mul]
    omega

theorem digitsBE_value (ws : List Nat) (h : ∀ w ∈ ws, w < 2048) :
    digitsBE ws.length (value ws) = ws := by
  induction ws using snoc_induction with
  | nil => rfl
  | snoc l a ih =>
    have ha : a < 2048 := h a (by simp)
    have hl : ∀ w ∈ l, w < 2048 := fun w hw => h w (by simp [hw])
    rw [List.length_append, List.length_singleton, digitsBE, value_snoc]
    rw [show (value l * 2048 + a) / 2048 = value l by omega,
      show (value l * 2048 + a) % 2048 = a by omega, ih hl]

theorem value_lt (ws : List Nat) (h : ∀ w ∈ ws, w < 2048) : value ws < 2048 ^ ws.length := by
  induction ws using snoc_induction with
  | nil => simp [value]
  | snoc l a ih =>
    have ha : a < 2048 := h a (by simp)
    have hl := ih (fun w hw => h w (by simp [hw]))
    rw [value_snoc, List.length_append, List.length_singleton, Nat.pow_succ]
    have : (value l + 1) * 2048 ≤ 2048 ^ l.length * 2048 := Nat.mul_le_mul_right _ hl
    omega

/-- a list of length `n+1` is its first `n` elements followed by its last -/
theorem eq_take_snoc (ws : List Nat) (n : Nat) (h : ws.length = n + 1) :
    ws = ws.take n ++ [ws.getD n 0] := by
  induction ws using snoc_induction with
  | nil => simp at h
  | snoc l a _ =>
    have hl : l.length = n := by simpa using h
    subst hl
    simp [List.getD]

/-! ### the encoder computes the digits -/

theorem encLoop_eq (n : Nat) : ∀ hi lo acc, hi < 2 ^ 64 → lo < 2 ^ 64 →
    encLoop n hi lo acc = digitsBE n (hi * 2 ^ 64 + lo) ++ acc := by
  induction n with
  | zero => intros; rfl
  | succ n ih =>
    intro hi lo acc hh hl
    obtain ⟨e1, e2⟩ := pair_shr11 hi lo hh hl
    rw [encLoop, e1, e2, and_wordMask, ih _ _ _ (by omega) (by omega), digitsBE]
    rw [show (hi * 2 ^ 64 + lo) / 2 ^ 11 / 2 ^ 64 * 2 ^ 64 + (hi * 2 ^ 64 + lo) / 2 ^ 11 % 2 ^ 64
        = (hi * 2 ^ 64 + lo) / 2048 by omega,
      show lo % 2048 = (hi * 2 ^ 64 + lo) % 2048 by omega]
    simp

/-- **code-level encoder = specification** on the `(hi, lo)` pair -/
theorem encodeIdx_eq_spec (ck : Nat → Nat) (hi lo : Nat) (hh : hi < 2 ^ 64) (hl : lo < 2 ^ 64)
    (hck : ck (pairVal (hi, lo)) < 16) :
    encodeIdx ck hi lo = specEncode ck (pairVal (hi, lo)) := by
  obtain ⟨e1, e2⟩ := pair_shr7 hi lo hh hl
  simp only [encodeIdx, specEncode, pairVal] at *
  rw [e1, e2, and_lastMask, encLoop_eq _ _ _ _ (by omega) (by omega)]
  have hs : shl (lo % 128) ckBits = lo % 128 * 16 := by
    simp only [shl, ckBits, Nat.shiftLeft_eq, Nat.reducePow]; omega
  rw [hs, or_eq_add 4 _ _ (by omega) (by simpa using hck)]
  generalize ck (hi * 2 ^ 64 + lo) = c at *
  rw [show (12 : Nat) = 11 + 1 from rfl, digitsBE]
  rw [show (hi * 2 ^ 64 + lo) / 2 ^ 7 / 2 ^ 64 * 2 ^ 64 + (hi * 2 ^ 64 + lo) / 2 ^ 7 % 2 ^ 64
        = ((hi * 2 ^ 64 + lo) * 16 + c) / 2048 by omega,
    show lo % 128 * 16 + c = ((hi * 2 ^ 64 + lo) * 16 + c) % 2048 by omega]
  rfl

/-! ### the decoder computes the value -/

theorem foldl_decStep (ws : List Nat) (h : ∀ w ∈ ws, w < 2048) :
    ((ws.foldl decStep (0, 0)).1 < 2 ^ 64 ∧ (ws.foldl decStep (0, 0)).2 < 2 ^ 64) ∧
    pairVal (ws.foldl decStep (0, 0)) = value ws % 2 ^ 128 := by
  induction ws using snoc_induction with
  | nil => simp [pairVal, value]
  | snoc l a ih =>
    have ha : a < 2048 := h a (by simp)
    obtain ⟨⟨b1, b2⟩, e⟩ := ih (fun w hw => h w (by simp [hw]))
    rw [List.foldl_append, List.foldl_cons, List.foldl_nil, value_snoc]
    generalize l.foldl decStep (0, 0) = p at *
    obtain ⟨hi, lo⟩ := p
    obtain ⟨e1, e2⟩ := pair_shl11 hi lo a b1 b2 ha
    simp only [pairVal] at *
    rw [e1, e2]
    omega

theorem map_idxLookup_getD (ws : List Nat) (h : ∀ w ∈ ws, w < 2048) :
    (ws.map idxLookup).map (fun o => o.getD 0) = ws := by
  induction ws with
  | nil => rfl
  | cons a l ih =>
    have ha : a < 2048 := h a (by simp)
    simp only [List.map_cons, idxLookup, ha, if_true, Option.getD_some]
    rw [ih (fun w hw => h w (by simp [hw]))]

theorem any_isNone_idxLookup (ws : List Nat) :
    (ws.map idxLookup).any Option.isNone = ws.any (fun w => decide (2048 ≤ w)) := by
  induction ws with
  | nil => rfl
  | cons a l ih =>
    simp only [List.map_cons, List.any_cons, ih]
    congr 1
    by_cases h : a < 2048 <;> simp [idxLookup, h] <;> omega

/-- the code-level decoder on 12 in-range indices, at the `(hi, lo)` level -/
theorem decodeOpts_idx (ck : Nat → Nat) (ws : List Nat) (hlen : ws.length = 12)
    (h : ∀ w ∈ ws, w < 2048) :
    decodeOpts ck (ws.map idxLookup) =
      if ck (value ws / 16) ≠ value ws % 16 then .error .checksum
      else .ok (value ws / 16 / 2 ^ 64, value ws / 16 % 2 ^ 64) := by
  have hnone : (ws.map idxLookup).any Option.isNone = false := by
    rw [any_isNone_idxLookup]
    simp only [List.any_eq_false, decide_eq_true_eq]
    intro w hw; have := h w hw; omega
  have hsplit := eq_take_snoc ws 11 hlen
  have hw : ws.getD 11 0 < 2048 := by
    apply h; rw [List.getD_eq_getElem?_getD, List.getElem?_eq_getElem (by omega)]; simp
  have htake : ∀ w ∈ ws.take 11, w < 2048 := fun w hw => h w (List.mem_of_mem_take hw)
  obtain ⟨⟨b1, b2⟩, e⟩ := foldl_decStep (ws.take 11) htake
  have hv : value (ws.take 11) < 2 ^ 121 := by
    have := value_lt (ws.take 11) htake
    rw [List.length_take, hlen] at this
    exact this
  have hval : value ws = value (ws.take 11) * 2048 + ws.getD 11 0 := by
    conv => lhs; rw [hsplit]
    exact value_snoc _ _
  unfold decodeOpts
  have h1 : ¬ ((ws.map idxLookup).length ≠ nWords) := by simp [hlen]
  have h2 : ¬ ((ws.map idxLookup).any Option.isNone = true) := by simp [hnone]
  rw [if_neg h1, if_neg h2]
  simp only [map_idxLookup_getD ws h, nWords, Nat.reduceSub]
  generalize (ws.take 11).foldl decStep (0, 0) = p at *
  obtain ⟨hi, lo⟩ := p
  obtain ⟨e1, e2⟩ := pair_shl7 hi lo (ws.getD 11 0) b1 b2 hw
  simp only [pairVal] at *
  rw [e1, e2, and_ckMask]
  generalize ws.getD 11 0 = w at *
  generalize value (ws.take 11) = V at *
  have k1 : value ws / 16 / 2 ^ 64 * 2 ^ 64 + value ws / 16 % 2 ^ 64 = value ws / 16 :=
    Nat.div_add_mod' _ _
  have k2 : w % 16 = value ws % 16 := by omega
  have k3 : ((hi * 2 ^ 64 + lo) * 2 ^ 7 + w / 16) % 2 ^ 128 / 2 ^ 64 = value ws / 16 / 2 ^ 64 := by omega
  have k4 : ((hi * 2 ^ 64 + lo) * 2 ^ 7 + w / 16) % 2 ^ 64 = value ws / 16 % 2 ^ 64 := by omega
  simp only [k1, k2, k3, k4]

/-- **code-level decoder = specification**, for every list of indices -/
theorem decode_eq_spec (ck : Nat → Nat) (ws : List Nat) : decode ck ws = specDecode ck ws := by
  unfold decode specDecode
  by_cases hlen : ws.length = 12
  · by_cases hany : ws.any (fun w => decide (2048 ≤ w)) = true
    · have hnone : (ws.map idxLookup).any Option.isNone = true := by rw [any_isNone_idxLookup, hany]
      simp [decodeOpts, hlen, hany, hnone, Except.map]
    · have hany : ws.any (fun w => decide (2048 ≤ w)) = false := by simpa using hany
      have hr : ∀ w ∈ ws, w < 2048 := by
        intro w hw
        have := (List.any_eq_false.mp hany) w hw
        simpa using this
      rw [decodeOpts_idx ck ws hlen hr]
      simp only [hlen, hany]
      by_cases hc : ck (value ws / 16) = value ws % 16
      · simp [hc, Except.map, pairVal]; omega
      · simp [hc, Except.map]
  · simp [decodeOpts, hlen, Except.map]


/-! ### specification-level round trips -/

theorem specDecode_specEncode (ck : Nat → Nat) (e : Nat) (he : e < 2 ^ 128) (hck : ck e < 16) :
    specDecode ck (specEncode ck e) = .ok e := by
  have hN : e * 16 + ck e < 2048 ^ 12 := by
    have : (2048 : Nat) ^ 12 = 2 ^ 132 := by decide
    omega
  have hval : value (specEncode ck e) = e * 16 + ck e := by
    rw [specEncode, value_digitsBE, Nat.mod_eq_of_lt hN]
  have hany : (specEncode ck e).any (fun w => decide (2048 ≤ w)) = false := by
    simp only [List.any_eq_false, decide_eq_true_eq]
    intro w hw; have := digitsBE_lt _ _ w hw; omega
  have h1 : (e * 16 + ck e) / 16 = e := by omega
  have h2 : (e * 16 + ck e) % 16 = ck e := by omega
  have hlen : (specEncode ck e).length = 12 := length_digitsBE _ _
  unfold specDecode
  rw [if_neg (by simp [hlen]), if_neg (by simp [hany]), hval, h1, h2, if_neg (by simp)]

theorem specDecode_ok_iff (ck : Nat → Nat) (ws : List Nat) (e : Nat) :
    specDecode ck ws = .ok e ↔
      ws.length = 12 ∧ (∀ w ∈ ws, w < 2048) ∧ ck e = value ws % 16 ∧ e = value ws / 16 := by
  unfold specDecode
  by_cases hlen : ws.length = 12
  · by_cases hany : ws.any (fun w => decide (2048 ≤ w)) = true
    · simp only [hlen, hany, ne_eq, not_true_eq_false, if_false, if_true, reduceCtorEq, false_iff]
      intro ⟨_, hr, _⟩
      simp only [List.any_eq_true, decide_eq_true_eq] at hany
      obtain ⟨w, hw, h⟩ := hany
      have := hr w hw; omega
    · have hany' : ws.any (fun w => decide (2048 ≤ w)) = false := by simpa using hany
      have hr : ∀ w ∈ ws, w < 2048 := by
        intro w hw
        have := (List.any_eq_false.mp hany') w hw
        simpa using this
      by_cases hc : ck (value ws / 16) = value ws % 16
      · simp only [hlen, hany', hc, ne_eq, not_true_eq_false, if_false, Except.ok.injEq, Bool.false_eq_true]
        constructor
        · intro h; subst h; exact ⟨trivial, hr, hc, rfl⟩
        · intro ⟨_, _, _, h⟩; exact h.symm
      · simp only [hlen, hany', hc, ne_eq, not_true_eq_false, not_false_eq_true, if_false, if_true,
          reduceCtorEq, false_iff, Bool.false_eq_true]
        intro ⟨_, _, h1, h2⟩
        subst h2; exact hc h1
  · simp [hlen]

theorem specEncode_of_specDecode (ck : Nat → Nat) (ws : List Nat) (e : Nat)
    (h : specDecode ck ws = .ok e) : specEncode ck e = ws := by
  obtain ⟨hlen, hr, hc, he⟩ := (specDecode_ok_iff ck ws e).mp h
  have : e * 16 + ck e = value ws := by omega
  rw [specEncode, this, ← hlen, digitsBE_value ws hr]


/-! ### bytes -/

theorem be64_putBe64 (x : Nat) (h : x < 2 ^ 64) : be64 (putBe64 x) = x := by
  simp only [be64, putBe64, List.foldl_cons, List.foldl_nil]
  omega

theorem length_putBe64 (x : Nat) : (putBe64 x).length = 8 := rfl
theorem length_putLe64 (x : Nat) : (putLe64 x).length = 8 := rfl

theorem putBe64_lt (x : Nat) : ∀ b ∈ putBe64 x, b < 256 := by
  intro b hb
  simp only [putBe64, List.mem_cons, List.not_mem_nil, or_false] at hb
  omega

/-- decoding the 16 bytes written by seed.go:110-111 gives the pair back -/
theorem pairOfBytes_bytesOfPair (p : Nat × Nat) (h1 : p.1 < 2 ^ 64) (h2 : p.2 < 2 ^ 64) :
    pairOfBytes (bytesOfPair p) = p := by
  obtain ⟨hi, lo⟩ := p
  have e1 : (putBe64 hi ++ putBe64 lo).take 8 = putBe64 hi := by
    rw [List.take_append_of_le_length (by simp [length_putBe64])]; exact List.take_of_length_le (by simp [length_putBe64])
  have e2 : ((putBe64 hi ++ putBe64 lo).drop 8).take 8 = putBe64 lo := by
    rw [List.drop_append_of_le_length (by simp [length_putBe64])]
    simp [putBe64]
  simp only [pairOfBytes, bytesOfPair, e1, e2, be64_putBe64 hi h1, be64_putBe64 lo h2]

theorem putLe64_injective (x y : Nat) (hx : x < 2 ^ 64) (hy : y < 2 ^ 64)
    (h : putLe64 x = putLe64 y) : x = y := by
  simp only [putLe64, List.cons.injEq, and_true] at h
  omega

theorem kdfInput_inj (s s' : List Nat) (i i' : Nat) (hs : s.length = 32) (hs' : s'.length = 32)
    (hi : i < 2 ^ 64) (hi' : i' < 2 ^ 64) (h : kdfInput s i = kdfInput s' i') : s = s' ∧ i = i' := by
  unfold kdfInput at h
  rw [List.take_of_length_le (by omega), List.take_of_length_le (by omega),
    Nat.mod_eq_of_lt hi, Nat.mod_eq_of_lt hi'] at h
  obtain ⟨h1, h2⟩ := List.append_inj h (by omega)
  exact ⟨h1, putLe64_injective i i' hi hi' h2⟩

theorem length_kdfInput (s : List Nat) (i : Nat) (hs : s.length = 32) : (kdfInput s i).length = 40 := by
  simp [kdfInput, length_putLe64, hs]

theorem seedInput_inj (p q : Nat × Nat) (hp1 : p.1 < 2 ^ 64) (hp2 : p.2 < 2 ^ 64)
    (hq1 : q.1 < 2 ^ 64) (hq2 : q.2 < 2 ^ 64) (h : seedInput p = seedInput q) : p = q := by
  have := congrArg pairOfBytes h
  simpa [seedInput, pairOfBytes_bytesOfPair, hp1, hp2, hq1, hq2] using this

/-! ### tokeniser -/

theorem fieldsAux_spaces (sp rest : List Nat) (h : AllSpace sp) :
    fieldsAux (sp ++ rest) [] = fieldsAux rest [] := by
  induction sp with
  | nil => rfl
  | cons c sp ih =>
    have hc : isSpace c = true := h c (by simp)
    simp only [List.cons_append, fieldsAux, hc, if_true, List.isEmpty_nil]
    exact ih (fun c hc => h c (by simp [hc]))

theorem fieldsAux_token (t rest cur : List Nat) (h : ∀ c ∈ t, isSpace c = false) :
    fieldsAux (t ++ rest) cur = fieldsAux rest (t.reverse ++ cur) := by
  induction t generalizing cur with
  | nil => rfl
  | cons c t ih =>
    have hc : isSpace c = false := h c (by simp)
    simp only [List.cons_append, fieldsAux, hc, Bool.false_eq_true, if_false]
    rw [ih _ (fun c hc => h c (by simp [hc]))]
    simp

theorem fieldsAux_end (cur : List Nat) (h : cur ≠ []) : fieldsAux [] cur = [cur.reverse] := by
  cases cur with
  | nil => exact absurd rfl h
  | cons a l => simp [fieldsAux]

theorem fieldsAux_space (c : Nat) (cs cur : List Nat) (hc : isSpace c = true) (h : cur ≠ []) :
    fieldsAux (c :: cs) cur = cur.reverse :: fieldsAux cs [] := by
  cases cur with
  | nil => exact absurd rfl h
  | cons a l => simp [fieldsAux, hc]

theorem fieldsAux_render (items : List (List Nat × List Nat)) (h : Rendering items) :
    fieldsAux (render items) [] = items.map Prod.fst := by
  induction items with
  | nil => rfl
  | cons it r ih =>
    obtain ⟨t, sep⟩ := it
    have key : TokOk t ∧ AllSpace sep ∧ (sep = [] → r = []) ∧ Rendering r := by
      cases r with
      | nil => exact ⟨h.1, h.2, fun _ => rfl, trivial⟩
      | cons it2 r2 => exact ⟨h.1, h.2.1, fun e => absurd e h.2.2.1, h.2.2.2⟩
    obtain ⟨⟨hne, hns⟩, hsp, hlast, hr⟩ := key
    have hrev : t.reverse ≠ [] := by simpa using hne
    simp only [render, List.map_cons, List.append_assoc]
    rw [fieldsAux_token t _ [] hns, List.append_nil]
    cases sep with
    | nil =>
      rw [hlast rfl]
      simp only [render, List.append_nil, List.map_nil]
      rw [fieldsAux_end _ hrev, List.reverse_reverse]
    | cons c sp =>
      rw [List.cons_append, fieldsAux_space c _ _ (hsp c (by simp)) hrev, List.reverse_reverse,
        fieldsAux_spaces sp _ (fun c hc => hsp c (by simp [hc])), ih hr]

theorem fields_render (pre : List Nat) (items : List (List Nat × List Nat))
    (hpre : AllSpace pre) (h : Rendering items) :
    fields (pre ++ render items) = items.map Prod.fst := by
  rw [fields, fieldsAux_spaces pre _ hpre, fieldsAux_render items h]

/-- `strings.Join(ws, " ")` is the rendering with single spaces -/
theorem fields_joinSp (ws : List (List Nat)) (h : ∀ w ∈ ws, TokOk w) : fields (joinSp ws) = ws := by
  unfold fields
  induction ws with
  | nil => rfl
  | cons w r ih =>
    obtain ⟨hne, hns⟩ := h w (by simp)
    have hrev : w.reverse ≠ [] := by simpa using hne
    have hr : ∀ w ∈ r, TokOk w := fun x hx => h x (by simp [hx])
    cases r with
    | nil =>
      have := fieldsAux_token w [] [] hns
      simp only [List.append_nil] at this
      rw [joinSp, this, fieldsAux_end _ hrev, List.reverse_reverse]
    | cons w2 r2 =>
      show fieldsAux (w ++ 32 :: joinSp (w2 :: r2)) [] = _
      rw [fieldsAux_token w _ [] hns, List.append_nil,
        fieldsAux_space 32 _ _ (by decide) hrev, List.reverse_reverse, ih hr]

/-! ### the word map -/

theorem wordIndexAux_not_mem (t : List Nat) (vs : List (List Nat)) (k : Nat) (r : Option Nat)
    (h : t ∉ vs) : wordIndexAux t vs k r = r := by
  induction vs generalizing k r with
  | nil => rfl
  | cons v vs ih =>
    have hv : v ≠ t := fun e => h (by simp [e])
    rw [wordIndexAux, if_neg hv, ih _ _ (fun hm => h (by simp [hm]))]

theorem wordIndexAux_nodup (t : List Nat) (vs : List (List Nat)) (k : Nat) (r : Option Nat)
    (hnd : vs.Nodup) (j : Nat) (hj : j < vs.length) (ht : vs[j] = t) :
    wordIndexAux t vs k r = some (k + j) := by
  induction vs generalizing k r j with
  | nil => simp at hj
  | cons v vs ih =>
    rw [List.nodup_cons] at hnd
    cases j with
    | zero =>
      simp only [List.getElem_cons_zero] at ht
      subst ht
      rw [wordIndexAux, if_pos rfl, wordIndexAux_not_mem _ _ _ _ hnd.1]; rfl
    | succ j =>
      simp only [List.getElem_cons_succ] at ht
      have hj' : j < vs.length := by simpa using hj
      have hv : v ≠ t := by
        intro e; subst e; apply hnd.1; rw [← ht]; exact List.getElem_mem hj'
      rw [wordIndexAux, if_neg hv, ih _ _ hnd.2 j hj' ht]
      congr 1; omega

theorem wordIndexAux_some (t : List Nat) (vs : List (List Nat)) (k : Nat) (r : Option Nat) (i : Nat)
    (h : wordIndexAux t vs k r = some i) :
    r = some i ∨ (k ≤ i ∧ vs[i - k]? = some t) := by
  induction vs generalizing k r with
  | nil => exact Or.inl h
  | cons v vs ih =>
    rw [wordIndexAux] at h
    rcases ih _ _ h with h' | ⟨h1, h2⟩
    · by_cases hv : v = t
      · rw [if_pos hv] at h'
        have : k = i := by simpa using h'
        subst this
        right; simp [hv]
      · rw [if_neg hv] at h'; exact Or.inl h'
    · right
      refine ⟨by omega, ?_⟩
      rw [show i - k = (i - (k + 1)) + 1 by omega, List.getElem?_cons_succ]; exact h2

theorem wordIndex_getElem (wl : List (List Nat)) (hnd : wl.Nodup) (i : Nat) (hi : i < wl.length) :
    wordIndex wl (wl.getD i []) = some i := by
  have : wl.getD i [] = wl[i] := by simp [List.getD, hi]
  rw [this, wordIndex, wordIndexAux_nodup _ wl 0 none hnd i hi rfl]; simp

theorem wordIndex_some (wl : List (List Nat)) (t : List Nat) (i : Nat) (h : wordIndex wl t = some i) :
    i < wl.length ∧ wl.getD i [] = t := by
  rcases wordIndexAux_some t wl 0 none i h with h' | ⟨_, h2⟩
  · cases h'
  · simp only [Nat.sub_zero] at h2
    obtain ⟨hi, he⟩ := List.getElem?_eq_some_iff.mp h2
    exact ⟨hi, by simp [List.getD, hi, he]⟩

theorem wordIndex_none (wl : List (List Nat)) (t : List Nat) (h : t ∉ wl) : wordIndex wl t = none :=
  wordIndexAux_not_mem t wl 0 none h


/-! ### phrases -/

theorem map_idxLookup_some (ws : List Nat) (h : ∀ w ∈ ws, w < 2048) :
    ws.map idxLookup = ws.map some := by
  apply List.map_congr_left
  intro w hw
  simp [idxLookup, h w hw]

theorem getD_tokOk (wl : List (List Nat)) (hg : GoodList wl) (i : Nat) (hi : i < 2048) :
    TokOk (wl.getD i []) := by
  have hlt : i < wl.length := by rw [hg.1]; exact hi
  have : wl.getD i [] = wl[i] := by simp [List.getD, hlt]
  rw [this]; exact hg.2.2 _ (List.getElem_mem hlt)

theorem map_wordIndex (wl : List (List Nat)) (hg : GoodList wl) (ws : List Nat)
    (h : ∀ w ∈ ws, w < 2048) :
    (ws.map (fun w => wl.getD w [])).map (wordIndex wl) = ws.map idxLookup := by
  rw [map_idxLookup_some ws h, List.map_map]
  apply List.map_congr_left
  intro w hw
  exact wordIndex_getElem wl hg.2.1 w (by rw [hg.1]; exact h w hw)

/-- what a successful `decodeOpts` says about its input -/
theorem decodeOpts_ok (ck : Nat → Nat) (opts : List (Option Nat)) (p : Nat × Nat)
    (h : decodeOpts ck opts = .ok p) : opts.length = 12 ∧ opts.any Option.isNone = false := by
  unfold decodeOpts at h
  by_cases h1 : opts.length = 12
  · by_cases h2 : opts.any Option.isNone = true
    · simp [h1, h2] at h
    · exact ⟨h1, Bool.eq_false_iff.mpr h2⟩
  · simp [h1] at h

theorem decodeOpts_count (ck : Nat → Nat) (opts : List (Option Nat)) (h : opts.length ≠ 12) :
    decodeOpts ck opts = .error .count := by
  simp [decodeOpts, h]

theorem decodeOpts_unknown (ck : Nat → Nat) (opts : List (Option Nat)) (h : opts.length = 12)
    (h2 : none ∈ opts) : decodeOpts ck opts = .error .unknown := by
  have : opts.any Option.isNone = true := List.any_eq_true.mpr ⟨none, h2, rfl⟩
  simp [decodeOpts, h, this]

theorem opts_eq_map_some (opts : List (Option Nat)) (h : opts.any Option.isNone = false) :
    opts = (opts.map (fun o => o.getD 0)).map some := by
  induction opts with
  | nil => rfl
  | cons o l ih =>
    simp only [List.any_cons, Bool.or_eq_false_iff] at h
    cases o with
    | none => simp at h
    | some v =>
      simp only [List.map_cons, Option.getD_some]
      rw [← ih h.2]

/-- a phrase that decodes consists of 12 words of the list; its indices decode to the same pair -/
theorem decodePhrase_ok (wl : List (List Nat)) (hlen : wl.length = 2048) (ck : Nat → Nat)
    (s : List Nat) (p : Nat × Nat) (h : decodePhrase wl ck s = .ok p) :
    ∃ ws : List Nat, ws.length = 12 ∧ (∀ w ∈ ws, w < 2048) ∧
      fields s = ws.map (fun w => wl.getD w []) ∧ decodeOpts ck (ws.map idxLookup) = .ok p := by
  unfold decodePhrase at h
  obtain ⟨h12, hnone⟩ := decodeOpts_ok ck _ p h
  have hev : ∀ t ∈ fields s, ∃ i, wordIndex wl t = some i := by
    intro t ht
    cases hw : wordIndex wl t with
    | some i => exact ⟨i, rfl⟩
    | none =>
      have : none ∈ (fields s).map (wordIndex wl) := List.mem_map.mpr ⟨t, ht, hw⟩
      have := (List.any_eq_false.mp hnone) none this
      simp at this
  refine ⟨(fields s).map (fun t => (wordIndex wl t).getD 0), by simpa using h12, ?_, ?_, ?_⟩
  · intro w hw
    obtain ⟨t, ht, rfl⟩ := List.mem_map.mp hw
    obtain ⟨i, hi⟩ := hev t ht
    rw [hi, Option.getD_some, ← hlen]
    exact (wordIndex_some wl t i hi).1
  · rw [List.map_map]
    conv => lhs; rw [← List.map_id (fields s)]
    apply List.map_congr_left
    intro t ht
    obtain ⟨i, hi⟩ := hev t ht
    simp only [Function.comp, hi, Option.getD_some, id]
    exact (wordIndex_some wl t i hi).2.symm
  · have hr : ∀ w ∈ (fields s).map (fun t => (wordIndex wl t).getD 0), w < 2048 := by
      intro w hw
      obtain ⟨t, ht, rfl⟩ := List.mem_map.mp hw
      obtain ⟨i, hi⟩ := hev t ht
      rw [hi, Option.getD_some, ← hlen]
      exact (wordIndex_some wl t i hi).1
    rw [map_idxLookup_some _ hr]
    have := opts_eq_map_some _ hnone
    rw [List.map_map (f := wordIndex wl)] at this
    have e : (fun o : Option Nat => o.getD 0) ∘ wordIndex wl = fun t => (wordIndex wl t).getD 0 := rfl
    rw [e] at this
    rw [← this]; exact h

/-- full characterisation of the phrases that decode -/
theorem decodePhrase_ok_iff (wl : List (List Nat)) (hg : GoodList wl) (ck : Nat → Nat)
    (s : List Nat) (p : Nat × Nat) :
    decodePhrase wl ck s = .ok p ↔
      ∃ ws : List Nat, fields s = ws.map (fun w => wl.getD w []) ∧ ws.length = 12 ∧
        (∀ w ∈ ws, w < 2048) ∧ ck (value ws / 16) = value ws % 16 ∧
        p = (value ws / 16 / 2 ^ 64, value ws / 16 % 2 ^ 64) := by
  constructor
  · intro h
    obtain ⟨ws, hl, hr, hf, hd⟩ := decodePhrase_ok wl hg.1 ck s p h
    rw [decodeOpts_idx ck ws hl hr] at hd
    by_cases hc : ck (value ws / 16) = value ws % 16
    · simp only [hc, ne_eq, not_true_eq_false, if_false, Except.ok.injEq] at hd
      exact ⟨ws, hf, hl, hr, hc, hd.symm⟩
    · simp [hc] at hd
  · intro ⟨ws, hf, hl, hr, hc, hp⟩
    rw [decodePhrase, hf, map_wordIndex wl hg ws hr, decodeOpts_idx ck ws hl hr]
    simp [hc, hp]

/-- a decoded pair re-encodes to the same word indices -/
theorem encodeIdx_of_decodeOpts (ck : Nat → Nat) (ws : List Nat) (hl : ws.length = 12)
    (hr : ∀ w ∈ ws, w < 2048) (p : Nat × Nat) (h : decodeOpts ck (ws.map idxLookup) = .ok p) :
    (p.1 < 2 ^ 64 ∧ p.2 < 2 ^ 64) ∧ encodeIdx ck p.1 p.2 = ws := by
  rw [decodeOpts_idx ck ws hl hr] at h
  by_cases hc : ck (value ws / 16) = value ws % 16
  · simp only [hc, ne_eq, not_true_eq_false, if_false, Except.ok.injEq] at h
    subst h
    have hv := value_lt ws hr
    rw [hl] at hv
    have hv' : value ws < 2 ^ 132 := hv
    have hb : value ws / 16 / 2 ^ 64 < 2 ^ 64 ∧ value ws / 16 % 2 ^ 64 < 2 ^ 64 := by omega
    refine ⟨hb, ?_⟩
    have hpv : pairVal (value ws / 16 / 2 ^ 64, value ws / 16 % 2 ^ 64) = value ws / 16 :=
      Nat.div_add_mod' _ _
    rw [encodeIdx_eq_spec ck _ _ hb.1 hb.2 (by rw [hpv, hc]; omega), hpv]
    exact specEncode_of_specDecode ck ws _
      ((specDecode_ok_iff ck ws _).mpr ⟨hl, hr, hc, rfl⟩)
  · simp [hc] at h

/-- **phrase round trip 1**: the phrase produced for an entropy decodes to that entropy -/
theorem decodePhrase_encodePhrase (wl : List (List Nat)) (hg : GoodList wl) (ck : Nat → Nat)
    (hi lo : Nat) (hh : hi < 2 ^ 64) (hl : lo < 2 ^ 64) (hck : ck (pairVal (hi, lo)) < 16) :
    decodePhrase wl ck (encodePhrase wl ck hi lo) = .ok (hi, lo) := by
  have hX : pairVal (hi, lo) < 2 ^ 128 := by simp only [pairVal]; omega
  have hspec := encodeIdx_eq_spec ck hi lo hh hl hck
  have hlen : (encodeIdx ck hi lo).length = 12 := by rw [hspec]; exact length_digitsBE _ _
  have hr : ∀ w ∈ encodeIdx ck hi lo, w < 2048 := by rw [hspec]; exact digitsBE_lt _ _
  have htok : ∀ t ∈ (encodeIdx ck hi lo).map (fun w => wl.getD w []), TokOk t := by
    intro t ht
    obtain ⟨w, hw, rfl⟩ := List.mem_map.mp ht
    exact getD_tokOk wl hg w (hr w hw)
  rw [decodePhrase, encodePhrase, fields_joinSp _ htok, map_wordIndex wl hg _ hr]
  have h1 := decode_eq_spec ck (encodeIdx ck hi lo)
  rw [hspec, specDecode_specEncode ck _ hX hck, ← hspec] at h1
  -- h1 : decode … = ok X; lift to the pair
  rw [decodeOpts_idx ck _ hlen hr]
  rw [decode, decodeOpts_idx ck _ hlen hr] at h1
  by_cases hc : ck (value (encodeIdx ck hi lo) / 16) = value (encodeIdx ck hi lo) % 16
  · simp only [hc, ne_eq, not_true_eq_false, if_false, Except.map, Except.ok.injEq] at h1 ⊢
    simp only [pairVal] at h1
    have : value (encodeIdx ck hi lo) / 16 = hi * 2 ^ 64 + lo := by
      have := Nat.div_add_mod' (value (encodeIdx ck hi lo) / 16) (2 ^ 64)
      omega
    rw [this]
    refine Prod.ext ?_ ?_ <;> simp <;> omega
  · simp [hc, Except.map] at h1

/-- **phrase round trip 2**: a phrase that decodes re-encodes to itself, up to white space
(`joinSp (fields s)` is `s` with every white-space run replaced by one space and the ends trimmed) -/
theorem encodePhrase_of_decodePhrase (wl : List (List Nat)) (hlen : wl.length = 2048)
    (ck : Nat → Nat) (s : List Nat) (p : Nat × Nat) (h : decodePhrase wl ck s = .ok p) :
    (p.1 < 2 ^ 64 ∧ p.2 < 2 ^ 64) ∧ encodePhrase wl ck p.1 p.2 = joinSp (fields s) := by
  obtain ⟨ws, hl, hr, hf, hd⟩ := decodePhrase_ok wl hlen ck s p h
  obtain ⟨hb, he⟩ := encodeIdx_of_decodeOpts ck ws hl hr p hd
  exact ⟨hb, by rw [encodePhrase, he, hf]⟩

theorem decodePhrase_count (wl : List (List Nat)) (ck : Nat → Nat) (s : List Nat)
    (h : (fields s).length ≠ 12) : decodePhrase wl ck s = .error .count :=
  decodeOpts_count ck _ (by simpa using h)

theorem decodePhrase_unknown (wl : List (List Nat)) (ck : Nat → Nat) (s : List Nat)
    (h : (fields s).length = 12) (t : List Nat) (ht : t ∈ fields s) (hn : t ∉ wl) :
    decodePhrase wl ck s = .error .unknown :=
  decodeOpts_unknown ck _ (by simpa using h)
    (List.mem_map.mpr ⟨t, ht, wordIndex_none wl t hn⟩)

end Verif.Seed
