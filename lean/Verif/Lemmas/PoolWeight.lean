/-
The pool's weight counter is the weight of the pooled transactions (C05: eviction for low fees
happens only when the pooled transactions really fill the pool).  Core only.
-/
import Verif.Lemmas.Pool

namespace Verif.Pool

theorem refill_weight (cfg : Cfg) (l : Ledger) (v2 : Bool) : ∀ (ts : List Txn) (a : Acc),
    ∃ rest, (refill cfg l v2 a ts).kept = a.kept ++ rest ∧ (refill cfg l v2 a ts).weight = a.weight + sumW rest
  | [], a => ⟨[], by simp [refill]⟩
  | t :: ts, a => by
    have hstep : ∃ r0, (refillStep cfg l v2 a t).kept = a.kept ++ r0 ∧ (refillStep cfg l v2 a t).weight = a.weight + sumW r0 := by
      unfold refillStep
      split
      · exact ⟨[], by simp⟩
      · split
        · exact ⟨[t], by simp [push]⟩
        · exact ⟨[], by simp⟩
    obtain ⟨r0, k0, w0⟩ := hstep
    obtain ⟨rest, k1, w1⟩ := refill_weight cfg l v2 ts (refillStep cfg l v2 a t)
    rw [refill]
    exact ⟨r0 ++ rest, by rw [k1, k0, List.append_assoc], by rw [w1, w0, sumW_append]; omega⟩

/-- after a full re-validation the counter is exact -/
theorem rebuild_weight (cfg : Cfg) (p : Pool) :
    (rebuild cfg p).weight = sumW ((rebuild cfg p).txns ++ (rebuild cfg p).v2txns) := by
  obtain ⟨r1, k1, w1⟩ := refill_weight cfg p.led false (p.txns ++ p.lastReverted) ⟨MidState.empty, fun _ => none, 0, []⟩
  obtain ⟨r2, k2, w2⟩ := refill_weight cfg p.led true (p.v2txns ++ p.lastRevertedV2)
    { refill cfg p.led false ⟨MidState.empty, fun _ => none, 0, []⟩ (p.txns ++ p.lastReverted) with kept := [] }
  show (refill cfg p.led true _ (p.v2txns ++ p.lastRevertedV2)).weight =
    sumW ((refill cfg p.led false _ (p.txns ++ p.lastReverted)).kept ++ (refill cfg p.led true _ (p.v2txns ++ p.lastRevertedV2)).kept)
  rw [w2, k2, k1, sumW_append]
  simp only [List.nil_append]
  show (refill cfg p.led false ⟨MidState.empty, fun _ => none, 0, []⟩ (p.txns ++ p.lastReverted)).weight + sumW r2 = sumW r1 + sumW r2
  rw [w1]
  show 0 + sumW r1 + sumW r2 = sumW r1 + sumW r2
  omega

/-- whenever the mid-state is present, the weight counter is the weight of both slices -/
def WInv (p : Pool) : Prop := p.ms.isSome = true → p.weight = sumW (p.txns ++ p.v2txns)

theorem revalidate_weight (cfg : Cfg) (p : Pool) (h : WInv p) :
    (revalidate cfg p).weight = sumW ((revalidate cfg p).txns ++ (revalidate cfg p).v2txns) := by
  unfold revalidate
  split
  · rename_i hc; simp at hc; exact h hc.1
  · exact rebuild_weight _ _

theorem AddOutcome.winv {cfg v2 p set r} (ho : AddOutcome cfg v2 p set r) (h : p.weight = sumW (p.txns ++ p.v2txns)) : WInv r.1 := by
  cases ho with
  | invalid _ => exact fun _ => h
  | known _ _ => exact fun _ => h
  | conflict p' _ _ _ _ _ _ _ _ _ hms => intro hc; rw [hms] at hc; cases hc
  | added p' new _ h1 h2 _ _ _ _ _ hw _ _ _ _ _ =>
    intro _
    rw [hw, h]
    cases v2
    · simp only [own, other, Bool.false_eq_true, ↓reduceIte] at h1 h2
      rw [h1, h2]; simp only [sumW_append]; omega
    · simp only [own, other, ↓reduceIte] at h1 h2
      rw [h1, h2]; simp only [sumW_append]; omega

theorem step_winv (cfg : Cfg) (p : Pool) (h : WInv p) (op : Op) : WInv (step cfg p op) := by
  cases op with
  | reorg rev app flags => intro hc; simp [step, reorg_ms] at hc
  | addV1 set => exact (addSet_outcome cfg false _ set (revalidate_ms cfg p)).winv (revalidate_weight cfg p h)
  | addV2 path set =>
    simp only [step, addV2PoolTransactions]
    cases rebase cfg set path with
    | none => exact fun _ => revalidate_weight cfg p h
    | some set' => exact (addSet_outcome cfg true _ set' (revalidate_ms cfg p)).winv (revalidate_weight cfg p h)
  | query => exact fun _ => revalidate_weight cfg p h

theorem run_winv (cfg : Cfg) : ∀ (ops : List Op) (p : Pool), WInv p → WInv (run cfg p ops)
  | [], _, h => h
  | op :: ops, p, h => run_winv cfg ops _ (step_winv cfg p h op)

end Verif.Pool
