/-
Helper lemmas for M9 (`Model/Formation.lean`): the fault / environment / RPC spaces are finite;
these are their enumerations, so that a statement about every attempt can be decided by
evaluation and then used for an arbitrary `rpc env f`.
-/
import Verif.Model.Formation

namespace Verif.Formation

def allFin4 : List (Fin 4) := [0, 1, 2, 3]

def allRCalls : List RCall := [.fund, .txset]
def allHCalls : List HCall :=
  [.lock, .element, .fund, .updateInputs, .updateElement, .addParents, .txset, .addPool, .record, .broadcast]
def allLateCalls : List LateCall := [.updateInputs, .addParents, .txset, .addPool]
def allHChecks : List HCheck := [.prices, .request, .funding, .policies, .renewalSig, .contractSig]
def allRChecks : List RCheck := [.hostFunding, .shape, .txid, .hostRenewalSig, .hostSig]

def allFaults : List Fault :=
  [.none, .dial] ++ allFin4.map .drop ++ allFin4.map .cancel ++ allRCalls.map .rcall ++ allHCalls.map .hcall
    ++ allRChecks.map .rcheck ++ allHChecks.map .hcheck ++ allLateCalls.map .hfail
    ++ [.finalContractAltered, .finalContractUnsigned, .finalSetAltered, .finalSetInvalid]

def allBools : List Bool := [false, true]
def allBases : List Basis := [.same, .behind, .unknown]

def allEnvs : List Env :=
  allBases.flatMap fun a => allBools.flatMap fun c => allBools.map fun d => ⟨a, c, d⟩

def allRpcs : List Rpc := [.form, .renew, .refresh]

theorem mem_allFin4 (i : Fin 4) : i ∈ allFin4 := by
  revert i
  decide

theorem mem_allRCalls (c : RCall) : c ∈ allRCalls := by cases c <;> decide
theorem mem_allHCalls (c : HCall) : c ∈ allHCalls := by cases c <;> decide
theorem mem_allLateCalls (c : LateCall) : c ∈ allLateCalls := by cases c <;> decide
theorem mem_allHChecks (k : HCheck) : k ∈ allHChecks := by cases k <;> decide
theorem mem_allRChecks (k : RCheck) : k ∈ allRChecks := by cases k <;> decide
theorem mem_allRpcs (r : Rpc) : r ∈ allRpcs := by cases r <;> decide
theorem mem_allBools (b : Bool) : b ∈ allBools := by cases b <;> decide

theorem mem_allEnvs (e : Env) : e ∈ allEnvs := by
  obtain ⟨a, c, d⟩ := e
  cases a <;> cases c <;> cases d <;> decide

theorem mem_allFaults (f : Fault) : f ∈ allFaults := by
  unfold allFaults
  cases f with
  | none => simp
  | dial => simp
  | drop i => simp [mem_allFin4]
  | cancel i => simp [mem_allFin4]
  | rcall c => simp [mem_allRCalls]
  | hcall c => simp [mem_allHCalls]
  | rcheck k => simp [mem_allRChecks]
  | hcheck k => simp [mem_allHChecks]
  | hfail c => simp [mem_allLateCalls]
  | finalContractAltered => simp
  | finalContractUnsigned => simp
  | finalSetAltered => simp
  | finalSetInvalid => simp

/-- a Boolean property of one attempt holds for every attempt iff it holds on the enumeration -/
def forallAttempts (p : Rpc → Env → Fault → Bool) : Bool :=
  allRpcs.all fun r => allEnvs.all fun e => allFaults.all fun f => p r e f

theorem forallAttempts_spec {p : Rpc → Env → Fault → Bool} (h : forallAttempts p = true)
    (r : Rpc) (e : Env) (f : Fault) : p r e f = true := by
  unfold forallAttempts at h
  rw [List.all_eq_true] at h
  have h1 := h r (mem_allRpcs r)
  rw [List.all_eq_true] at h1
  have h2 := h1 e (mem_allEnvs e)
  rw [List.all_eq_true] at h2
  exact h2 f (mem_allFaults f)

/-! ### the per-attempt facts, decided on the whole fault space -/

/-- faults that strike when the host has already committed: the final message is lost, or the
renter rejects (a corrupted copy of) it -/
def atFinalMessage : Fault → Bool
  | .drop 3 | .cancel 3 => true
  | .rcheck .shape | .rcheck .txid | .rcheck .hostRenewalSig | .rcheck .hostSig => true
  | .finalContractAltered | .finalSetAltered => true
  | _ => false

/-- the host's own wallet fails to broadcast (after the contractor recorded the contract) -/
def hostBroadcastFails (f : Fault) : Bool := f == .hcall .broadcast

/-- the per-attempt facts, as one decidable predicate (each conjunct is restated as a theorem
below) -/
def attemptGood (cfg : Cfg) (rpc : Rpc) (env : Env) (f : Fault) : Bool :=
  let s := run cfg rpc env f
  -- success: same fully signed contract on both sides, pool accepted, host handler completed
  (!s.rOk || (s.recorded && s.same && s.signed && s.inPool && s.broadcast && s.hOk)) &&
  -- the pool accepted the set before the contractor recorded the contract
  (!s.recorded || s.inPool) &&
  -- `broadcast` is only set once the contract is recorded
  (!s.broadcast || s.recorded) &&
  -- the host releases unless it broadcast
  (s.broadcast || !s.hLocked) &&
  -- the renter releases unless it succeeded
  (s.rOk || !s.rLocked) &&
  -- a failed attempt leaves no contract, except in the final-message window / failed broadcast
  (s.rOk || !s.recorded || atFinalMessage f || hostBroadcastFails f) &&
  -- no contract lock outlives the handler
  !s.hContractLocked

theorem attemptGood_fixed : forallAttempts (attemptGood Cfg.fixed) = true := by decide +kernel

end Verif.Formation
