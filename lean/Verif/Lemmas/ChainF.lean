/-
Lemmas for `Model/ChainF.lean`: erasure to the plain model, and the invariant
"supplement stored ⇒ complete state stored; every best-chain block has a complete state".
-/
import Verif.Model.ChainF

namespace Verif.Chain

/-! ### erasure: forgetting `full` gives the plain model -/

theorem applyTipF_m (U : Nat → Blk) (s : MgrF) (i : Nat) :
    (applyTipF U s i).map (·.m) = applyTip U s.m i := by
  unfold applyTipF
  cases applyTip U s.m i <;> rfl

theorem applyAllF_m (U : Nat → Blk) (is : List Nat) : ∀ s : MgrF,
    ((applyAllF U is s).1.m, (applyAllF U is s).2) = applyAll U is s.m := by
  induction is with
  | nil => intro s; rfl
  | cons i is ih =>
    intro s
    have h := applyTipF_m U s i
    unfold applyAllF applyAll
    cases hF : applyTipF U s i with
    | error e => rw [hF] at h; simp only [Except.map] at h; rw [← h]
    | ok s' => rw [hF] at h; simp only [Except.map] at h; rw [← h]; exact ih s'

theorem reorgToF_m (U : Nat → Blk) (s : MgrF) (t : Nat) :
    ((reorgToF U s t).1.m, (reorgToF U s t).2) = reorgTo U s.m t := by
  unfold reorgToF reorgTo
  cases reorgPath U s.m s.m.tip t none with
  | error e => rfl
  | ok p =>
    obtain ⟨rev, app⟩ := p
    simp only
    cases hr : revertN U rev.length s.m with
    | mk m1 e =>
      cases e with
      | some e => rfl
      | none => exact applyAllF_m U app ⟨m1, s.full⟩

theorem maybeReorgF_m (U : Nat → Blk) (s : MgrF) (cs : Nat) :
    ((maybeReorgF U s cs).1.m, (maybeReorgF U s cs).2) = maybeReorg U s.m cs := by
  unfold maybeReorgF maybeReorg
  by_cases hh : heavier U cs s.m.tip
  · simp only [hh, if_true]
    have h1 := reorgToF_m U s cs
    cases hF : reorgToF U s cs with
    | mk s1 e1 =>
      rw [hF] at h1
      simp only at h1
      rw [← h1]
      cases e1 with
      | none => rfl
      | some e =>
        cases e with
        | panic => rfl
        | missingBlock | invalidBlock | tooLong =>
          simp only
          have h2 := reorgToF_m U s1 s.m.tip
          cases hF2 : reorgToF U s1 s.m.tip with
          | mk s2 e2 =>
            rw [hF2] at h2
            simp only at h2
            rw [← h2]
            cases e2 with
            | none => rfl
            | some e' => cases e' <;> rfl
  · simp only [hh]; rfl

theorem addLoopF_m (U : Nat → Blk) (bs : List Nat) : ∀ (s : MgrF) (cs : Nat),
    ((addLoopF U bs s cs).1.m, (addLoopF U bs s cs).2) = addBlocks.go U bs s.m cs := by
  induction bs with
  | nil => intro s cs; rfl
  | cons b bs ih =>
    intro s cs
    unfold addLoopF addBlocks.go
    split
    · exact ih s b
    · split
      · exact ih s b
      · split
        · rfl
        · split
          · rfl
          · split
            · rfl
            · exact ih _ b

theorem addBlocksF_m (U : Nat → Blk) (s : MgrF) (batch : List Nat) :
    ((addBlocksF U s batch).1.m, (addBlocksF U s batch).2) = addBlocks U s.m batch := by
  cases batch with
  | nil => rfl
  | cons b bs =>
    unfold addBlocksF addBlocks
    simp only
    have h := addLoopF_m U (b :: bs) s s.m.tip
    cases hF : addLoopF U (b :: bs) s s.m.tip with
    | mk s1 r =>
      obtain ⟨e, cs⟩ := r
      rw [hF] at h
      simp only at h
      rw [← h]
      cases e with
      | some e => rfl
      | none => exact maybeReorgF_m U s1 cs

theorem addV2LoopF_m (U : Nat → Blk) (bs : List Nat) : ∀ s : MgrF,
    ((addV2LoopF U bs s).1.m, (addV2LoopF U bs s).2) = addValidatedV2.go U bs s.m := by
  induction bs with
  | nil => intro s; rfl
  | cons b bs ih =>
    intro s
    unfold addV2LoopF addValidatedV2.go
    split
    · rfl
    · exact ih _

theorem addValidatedV2F_m (U : Nat → Blk) (s : MgrF) (batch : List Nat) (n : Nat) :
    ((addValidatedV2F U s batch n).1.m, (addValidatedV2F U s batch n).2) = addValidatedV2 U s.m batch n := by
  cases batch with
  | nil => rfl
  | cons b0 bs =>
    unfold addValidatedV2F addValidatedV2
    simp only
    split
    · rfl
    · split
      · rfl
      · have h := addV2LoopF_m U (b0 :: bs) s
        cases hF : addV2LoopF U (b0 :: bs) s with
        | mk s1 e =>
          rw [hF] at h
          simp only at h
          rw [← h]
          cases e with
          | some e => rfl
          | none => exact maybeReorgF_m U s1 _

/-! ### the invariant -/

/-- best-chain blocks are supplemented or pruned; a stored supplement comes with a complete
state; every best-chain block has a complete state -/
structure FInv (s : MgrF) : Prop where
  best : ∀ i ∈ s.m.best, s.m.recs i = some ⟨true, true⟩ ∨ s.m.recs i = some ⟨false, false⟩
  supp : ∀ i r, s.m.recs i = some r → r.supp = true → s.full i = true
  bestFull : ∀ i ∈ s.m.best, s.full i = true

theorem FInv.init : FInv MgrF.init := by
  refine ⟨?_, ?_, ?_⟩
  · intro i hi; simp [MgrF.init, Mgr.init] at hi; subst hi; left; simp [MgrF.init, Mgr.init]
  · intro i r hr _
    simp only [MgrF.init, Mgr.init] at hr ⊢
    by_cases h : i = 0
    · simp [h]
    · simp [h] at hr
  · intro i hi; simp [MgrF.init, Mgr.init] at hi; subst hi; simp [MgrF.init]

theorem block_some_true {m : Mgr} {i : Nat} (h : m.block i = some true) : m.recs i = some ⟨true, true⟩ := by
  unfold Mgr.block at h
  cases hr : m.recs i with
  | none => simp [hr] at h
  | some r =>
    obtain ⟨b, sp⟩ := r
    simp only [hr] at h
    cases b <;> simp_all

theorem block_some_false {m : Mgr} {i : Nat} (h : m.block i = some false) : m.recs i = some ⟨true, false⟩ := by
  unfold Mgr.block at h
  cases hr : m.recs i with
  | none => simp [hr] at h
  | some r =>
    obtain ⟨b, sp⟩ := r
    simp only [hr] at h
    cases b <;> simp_all

theorem applyTipF_inv {U s i s'} (h : FInv s) (ha : applyTipF U s i = .ok s') : FInv s' := by
  unfold applyTipF at ha
  cases hp : applyTip U s.m i with
  | error e => simp [hp] at ha
  | ok m' =>
    simp only [hp, Except.ok.injEq] at ha
    subst ha
    unfold applyTip at hp
    cases hb : s.m.block i with
    | none => simp [hb] at hp
    | some sp =>
      simp only [hb] at hp
      split at hp
      · simp at hp
      · cases sp with
        | false =>
          simp only [Bool.not_false, if_true] at hp
          split at hp
          · simp at hp
          · simp only [Except.ok.injEq] at hp
            subst hp
            refine ⟨?_, ?_, ?_⟩
            · intro j hj
              simp only [List.mem_cons] at hj
              by_cases e : j = i
              · subst e; left; simp
              · rcases hj with hj | hj
                · exact absurd hj e
                · simpa [upd, e] using h.best j hj
            · intro j r hr hs
              by_cases e : j = i
              · subst e; simp [upd]
              · simp only [upd, e, if_false] at hr
                simpa [upd, e] using h.supp j r hr hs
            · intro j hj
              simp only [List.mem_cons] at hj
              by_cases e : j = i
              · subst e; simp [upd]
              · rcases hj with hj | hj
                · exact absurd hj e
                · simpa [upd, e] using h.bestFull j hj
        | true =>
          simp only [Bool.not_true] at hp
          simp only [Bool.false_eq_true, if_false, Except.ok.injEq] at hp
          subst hp
          have hrec := block_some_true hb
          refine ⟨?_, ?_, ?_⟩
          · intro j hj
            simp only [List.mem_cons] at hj
            rcases hj with rfl | hj
            · left; exact hrec
            · exact h.best j hj
          · intro j r hr hs; simpa using h.supp j r hr hs
          · intro j hj
            simp only [List.mem_cons] at hj
            rcases hj with rfl | hj
            · simpa using h.supp j _ hrec rfl
            · simpa using h.bestFull j hj

theorem applyAllF_inv {U} (is : List Nat) : ∀ {s}, FInv s → FInv (applyAllF U is s).1 := by
  induction is with
  | nil => intro s h; exact h
  | cons i is ih =>
    intro s h
    unfold applyAllF
    cases ha : applyTipF U s i with
    | error e => exact h
    | ok s' => exact ih (applyTipF_inv h ha)

theorem revertTip_best {U m m'} (h : revertTip U m = .ok m') :
    m'.recs = m.recs ∧ ∃ t, m.best = t :: m'.best := by
  unfold revertTip at h
  cases hb : m.best with
  | nil => simp [hb] at h
  | cons t rest =>
    simp only [hb] at h
    cases hbl : m.block t with
    | none => simp [hbl] at h
    | some sp =>
      simp only [hbl] at h
      split at h
      · simp at h
      · split at h
        · simp at h
        · simp only [Except.ok.injEq] at h
          subst h
          exact ⟨rfl, t, rfl⟩

theorem revertN_sub {U} (n : Nat) : ∀ {m}, (revertN U n m).1.recs = m.recs ∧
    ∀ i ∈ (revertN U n m).1.best, i ∈ m.best := by
  induction n with
  | zero => intro m; exact ⟨rfl, fun _ h => h⟩
  | succ n ih =>
    intro m
    unfold revertN
    cases hr : revertTip U m with
    | error e => exact ⟨rfl, fun _ h => h⟩
    | ok m' =>
      obtain ⟨h1, t, h2⟩ := revertTip_best hr
      obtain ⟨i1, i2⟩ := @ih m'
      refine ⟨i1.trans h1, fun i hi => ?_⟩
      rw [h2]; exact List.mem_cons_of_mem _ (i2 i hi)

theorem FInv.revertN {U s} (h : FInv s) (n : Nat) : FInv ⟨(revertN U n s.m).1, s.full⟩ := by
  obtain ⟨h1, h2⟩ := @revertN_sub U n s.m
  refine ⟨?_, ?_, ?_⟩
  · intro i hi; simp only at hi ⊢; rw [h1]; exact h.best i (h2 i hi)
  · intro i r hr hs; simp only at hr ⊢; rw [h1] at hr; exact h.supp i r hr hs
  · intro i hi; exact h.bestFull i (h2 i hi)

theorem reorgToF_inv {U s} (h : FInv s) (t : Nat) : FInv (reorgToF U s t).1 := by
  unfold reorgToF
  cases reorgPath U s.m s.m.tip t none with
  | error e => exact h
  | ok p =>
    obtain ⟨rev, app⟩ := p
    simp only
    have hr := h.revertN (U := U) rev.length
    cases hrn : Verif.Chain.revertN U rev.length s.m with
    | mk m1 e =>
      rw [hrn] at hr
      cases e with
      | some e => exact hr
      | none => exact applyAllF_inv app hr

theorem maybeReorgF_inv {U s} (h : FInv s) (cs : Nat) : FInv (maybeReorgF U s cs).1 := by
  unfold maybeReorgF
  split
  · have h1 := reorgToF_inv (U := U) h cs
    cases hF : reorgToF U s cs with
    | mk s1 e1 =>
      rw [hF] at h1
      cases e1 with
      | none => exact ⟨h1.best, h1.supp, h1.bestFull⟩
      | some e =>
        cases e with
        | panic => exact h1
        | missingBlock | invalidBlock | tooLong =>
          simp only
          have h2 := reorgToF_inv (U := U) h1 s.m.tip
          cases hF2 : reorgToF U s1 s.m.tip with
          | mk s2 e2 =>
            rw [hF2] at h2
            cases e2 with
            | none => exact h2
            | some e' => cases e' <;> exact h2
  · exact h

/-- a block on the best chain is never re-stored by the `AddBlocks` loop: it is either known
(`bs != nil`) or pruned, and both are skipped -/
theorem store_step_not_best {s : MgrF} (h : FInv s) {b : Nat}
    (h1 : ¬ s.m.block b = some true) (h2 : ¬ (s.m.header b ∧ (s.m.block b).isNone)) : b ∉ s.m.best := by
  intro hb
  rcases h.best b hb with hr | hr
  · exact h1 (by simp [Mgr.block, hr])
  · exact h2 (by simp [Mgr.header, Mgr.block, hr])

theorem addLoopF_inv {U} (bs : List Nat) : ∀ {s cs}, FInv s → FInv (addLoopF U bs s cs).1 := by
  induction bs with
  | nil => intro s cs h; exact h
  | cons b bs ih =>
    intro s cs h
    unfold addLoopF
    split
    · exact ih h
    · next h1 =>
      split
      · exact ih h
      · next h2 =>
        split
        · exact h
        · split
          · exact h
          · split
            · exact h
            · apply ih
              have hnb := store_step_not_best h h1 h2
              refine ⟨?_, ?_, ?_⟩
              · intro j hj
                have e : j ≠ b := fun e => hnb (e ▸ hj)
                simpa [upd, e] using h.best j hj
              · intro j r hr hs
                by_cases e : j = b
                · subst e; simp [upd] at hr; subst hr; simp at hs
                · simp only [upd, e, if_false] at hr
                  simpa [upd, e] using h.supp j r hr hs
              · intro j hj
                have e : j ≠ b := fun e => hnb (e ▸ hj)
                simpa [upd, e] using h.bestFull j hj

theorem addBlocksF_inv {U s} (h : FInv s) (batch : List Nat) : FInv (addBlocksF U s batch).1 := by
  cases batch with
  | nil => exact h
  | cons b bs =>
    unfold addBlocksF
    simp only
    have hl := addLoopF_inv (U := U) (b :: bs) (cs := s.m.tip) h
    cases hF : addLoopF U (b :: bs) s s.m.tip with
    | mk s1 r =>
      obtain ⟨e, cs⟩ := r
      rw [hF] at hl
      cases e with
      | some e => exact hl
      | none => exact maybeReorgF_inv hl cs

theorem addV2LoopF_inv {U} (bs : List Nat) : ∀ {s}, FInv s → FInv (addV2LoopF U bs s).1 := by
  induction bs with
  | nil => intro s h; exact h
  | cons b bs ih =>
    intro s h
    unfold addV2LoopF
    split
    · exact h
    · apply ih
      refine ⟨?_, ?_, ?_⟩
      · intro j hj
        by_cases e : j = b
        · subst e; left; simp
        · simpa [upd, e] using h.best j hj
      · intro j r hr hs
        by_cases e : j = b
        · subst e; simp [upd]
        · simp only [upd, e, if_false] at hr
          simpa [upd, e] using h.supp j r hr hs
      · intro j hj
        by_cases e : j = b
        · subst e; simp [upd]
        · simpa [upd, e] using h.bestFull j hj

theorem addValidatedV2F_inv {U s} (h : FInv s) (batch : List Nat) (n : Nat) :
    FInv (addValidatedV2F U s batch n).1 := by
  cases batch with
  | nil => exact h
  | cons b0 bs =>
    unfold addValidatedV2F
    simp only
    split
    · exact h
    · split
      · exact h
      · have hl := addV2LoopF_inv (U := U) (b0 :: bs) h
        cases hF : addV2LoopF U (b0 :: bs) s with
        | mk s1 e =>
          rw [hF] at hl
          cases e with
          | some e => exact hl
          | none => exact maybeReorgF_inv hl _

end Verif.Chain

namespace Verif.Chain

theorem prune_go_frame (h : Nat) : ∀ m : Mgr, (prune.go h m).best = m.best ∧
    ∀ j, (prune.go h m).recs j = m.recs j ∨ (prune.go h m).recs j = some ⟨false, false⟩ := by
  induction h with
  | zero => intro m; exact ⟨rfl, fun _ => Or.inl rfl⟩
  | succ h ih =>
    intro m
    unfold prune.go
    cases hb : m.bestAt h with
    | none => exact ⟨rfl, fun _ => Or.inl rfl⟩
    | some i =>
      simp only
      cases hbl : m.block i with
      | none => exact ⟨rfl, fun _ => Or.inl rfl⟩
      | some sp =>
        simp only
        obtain ⟨h1, h2⟩ := ih { m with recs := upd m.recs i (some ⟨false, false⟩) }
        refine ⟨h1, fun j => ?_⟩
        rcases h2 j with e | e
        · by_cases ej : j = i
          · subst ej; right; rw [e]; simp
          · left; rw [e]; simp [upd, ej]
        · exact Or.inr e

theorem pruneF_inv {s} (h : FInv s) (height : Nat) : FInv (pruneF s height) := by
  obtain ⟨h1, h2⟩ := prune_go_frame (min height (s.m.tipHeight + 1)) s.m
  refine ⟨?_, ?_, ?_⟩
  · intro i hi
    simp only [pruneF, prune] at hi ⊢
    rw [h1] at hi
    rcases h2 i with e | e
    · rw [e]; exact h.best i hi
    · exact Or.inr e
  · intro i r hr hs
    simp only [pruneF, prune] at hr ⊢
    rcases h2 i with e | e
    · rw [e] at hr; exact h.supp i r hr hs
    · rw [e] at hr; cases hr; simp at hs
  · intro i hi
    simp only [pruneF, prune] at hi ⊢
    rw [h1] at hi
    exact h.bestFull i hi

theorem stepF_inv {U s} (h : FInv s) (op : OpF) : FInv (stepF U s op) := by
  cases op with
  | add b => exact addBlocksF_inv h b
  | addV2 b n => exact addValidatedV2F_inv h b n
  | prune ht => exact pruneF_inv h ht

theorem runF_inv {U} (ops : List OpF) : ∀ {s}, FInv s → FInv (runF U s ops) := by
  induction ops with
  | nil => intro s h; exact h
  | cons op ops ih => intro s h; exact ih (stepF_inv h op)

/-- the plain model's operation on the erased state -/
def eraseOp (U : Nat → Blk) (m : Mgr) : OpF → Mgr
  | .add b => (addBlocks U m b).1
  | .addV2 b n => (addValidatedV2 U m b n).1
  | .prune h => prune m h

theorem stepF_m (U : Nat → Blk) (s : MgrF) (op : OpF) : (stepF U s op).m = eraseOp U s.m op := by
  cases op with
  | add b => exact congrArg Prod.fst (addBlocksF_m U s b)
  | addV2 b n => exact congrArg Prod.fst (addValidatedV2F_m U s b n)
  | prune h => rfl

theorem runF_m (U : Nat → Blk) (ops : List OpF) : ∀ s : MgrF,
    (runF U s ops).m = ops.foldl (eraseOp U) s.m := by
  induction ops with
  | nil => intro s; rfl
  | cons op ops ih =>
    intro s
    simp only [runF, List.foldl_cons] at ih ⊢
    rw [ih, stepF_m]

end Verif.Chain
