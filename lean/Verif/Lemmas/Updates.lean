/-
Helper lemmas for `UpdatesSince` (C04): one loop iteration always succeeds for a subscriber
index the manager applied earlier, is contiguous, and strictly decreases a distance to the tip.
-/
import Verif.Lemmas.Chain

namespace Verif.Chain

/-- a subscriber index: nothing yet, or a block this manager applied at some point -/
def Sub (m : Mgr) : Option Nat → Prop
  | none => True
  | some i => m.recs i = some ⟨true, true⟩

/-- what an update does to a subscriber's index; `none` = the update does not attach -/
def stepUpd (U : Nat → Blk) : Option Nat → Upd → Option (Option Nat)
  | some i, .revert b => if b = i ∧ i ≠ 0 then some (some (par U i)) else none
  | none, .revert _ => none
  | none, .apply b => if b = 0 then some (some 0) else none
  | some i, .apply b => if par U b = i ∧ b ≠ 0 then some (some b) else none

def walk (U : Nat → Blk) : Option Nat → List Upd → Option (Option Nat)
  | idx, [] => some idx
  | idx, u :: us => (stepUpd U idx u).bind fun idx' => walk U idx' us

theorem walk_append (U : Nat → Blk) (idx : Option Nat) (us vs : List Upd) :
    walk U idx (us ++ vs) = (walk U idx us).bind fun idx' => walk U idx' vs := by
  induction us generalizing idx with
  | nil => simp [walk]
  | cons u us ih =>
    simp only [List.cons_append, walk]
    cases stepUpd U idx u with
    | none => simp
    | some i => simp [ih]

/-- distance of a subscriber index to the tip: blocks to revert plus blocks to apply (an upper
bound that every loop iteration decreases) -/
def mu (U : Nat → Blk) (m : Mgr) : Option Nat → Nat
  | none => m.tipHeight + 1
  | some i => if m.bestAt (U i).height = some i then m.tipHeight - (U i).height
              else m.tipHeight + (U i).height + 1

theorem Inv.tipHeight_eq {U m} (h : Inv U m) : m.tipHeight = (U m.tip).height := by
  have := h.length; simp [Mgr.tipHeight]; omega

/-- the best index at every height up to the tip -/
theorem Inv.bestAt_spec {U m} (h : Inv U m) {k : Nat} (hk : k ≤ m.tipHeight) :
    ∃ i, m.bestAt k = some i ∧ i = anc U (m.tipHeight - k) m.tip ∧ (U i).height = k ∧
      m.recs i = some ⟨true, true⟩ := by
  have hlen := h.length
  have hth := h.tipHeight_eq
  have hj : m.best.length - 1 - k < m.best.length := by omega
  refine ⟨m.best[m.best.length - 1 - k], ?_, ?_, ?_, h.bestsupp _ (List.getElem_mem hj)⟩
  · unfold Mgr.bestAt; rw [if_pos (by omega)]; exact List.getElem?_eq_getElem hj
  · rw [h.best_getElem _ hj]; congr 1
  · rw [h.best_getElem _ hj, (h.s.anc_state h.tip_state _ (by omega)).2]; omega

theorem Inv.bestAt_none {U m} (_h : Inv U m) {k : Nat} (hk : m.tipHeight < k) : m.bestAt k = none := by
  unfold Mgr.bestAt; rw [if_neg (by simp [Mgr.tipHeight] at hk; omega)]

theorem Inv.bestAt_tip {U m} (h : Inv U m) : m.bestAt m.tipHeight = some m.tip := by
  obtain ⟨i, h1, h2, _⟩ := h.bestAt_spec (k := m.tipHeight) (Nat.le_refl _)
  rw [h1, h2]; simp

/-- **one loop iteration of `UpdatesSince`** for a subscriber that is not at the tip -/
theorem nextUpd_spec {U m} (h : Inv U m) {idx : Option Nat} (hs : Sub m idx) (hne : idx ≠ some m.tip) :
    ∃ u i', nextUpd U m idx = .ok (u, i') ∧ Sub m (some i') ∧
      stepUpd U idx u = some (some i') ∧ mu U m (some i') < mu U m idx ∧
      (onBestChain U m idx = true → onBestChain U m (some i') = true ∧ ∃ b, u = .apply b) := by
  cases idx with
  | none =>
    obtain ⟨i, h1, h2, h3, h4⟩ := h.bestAt_spec (k := 0) (Nat.zero_le _)
    have hi0 : i = 0 := h.s.eq_zero_of_height (h.s.recstate i _ h4).2 h3
    subst hi0
    refine ⟨.apply 0, 0, ?_, h4, by simp [stepUpd], ?_, fun _ => ⟨?_, 0, rfl⟩⟩
    · simp [nextUpd, onBestChain, h1, Mgr.block, h4]
    · simp [mu, h.s.h0, h1]
    · simp [onBestChain, h.s.h0, h1]
  | some i =>
    have hrec : m.recs i = some ⟨true, true⟩ := hs
    have hst : m.states i = true := (h.s.recstate i _ hrec).2
    by_cases hon : m.bestAt (U i).height = some i
    · -- on the best chain, below the tip: the next best block is applied
      have hle : (U i).height ≤ m.tipHeight := by
        by_cases hle : (U i).height ≤ m.tipHeight
        · exact hle
        · rw [h.bestAt_none (by omega)] at hon; simp at hon
      have hlt : (U i).height < m.tipHeight := by
        by_cases e : (U i).height = m.tipHeight
        · rw [e, h.bestAt_tip] at hon
          exact absurd (by rw [Option.some.inj hon]) hne
        · omega
      obtain ⟨n, n1, n2, n3, n4⟩ := h.bestAt_spec (k := (U i).height + 1) (by omega)
      obtain ⟨i2, j1, j2, _, _⟩ := h.bestAt_spec (k := (U i).height) hle
      have hi2 : i2 = i := by rw [j1] at hon; exact Option.some.inj hon
      have hnst : m.states n = true := (h.s.recstate n _ n4).2
      have hn0 : n ≠ 0 := h.s.ne_zero_of_height (by omega)
      have hpar : par U n = i := by
        rw [← hi2, j2, n2, ← anc_succ']
        congr 1; omega
      have hps : m.states (U n).parent = true := by
        have := (h.s.closed n hnst hn0).1; simpa [par] using this
      refine ⟨.apply n, n, ?_, n4, by simp [stepUpd, hpar, hn0], ?_, fun _ => ⟨?_, n, rfl⟩⟩
      · simp [nextUpd, onBestChain, hon, n1, Mgr.block, n4, hps]
      · simp [mu, hon, n3, n1]; omega
      · simp [onBestChain, n3, n1]
    · -- off the best chain: the block is reverted
      have hi0 : i ≠ 0 := by
        intro e; subst e
        obtain ⟨z, z1, _, z3, z4⟩ := h.bestAt_spec (k := 0) (Nat.zero_le _)
        have := h.s.eq_zero_of_height (h.s.recstate z _ z4).2 z3
        subst this
        rw [h.s.h0] at hon
        exact hon z1
      obtain ⟨c1, c2⟩ := h.s.closed i hst hi0
      have hps : m.states (U i).parent = true := by simpa [par] using c1
      refine ⟨.revert i, par U i, ?_, h.s.suppclosed i hi0 hrec, by simp [stepUpd, hi0], ?_, ?_⟩
      · simp [nextUpd, onBestChain, hon, Mgr.block, hrec, hps, par]
      · simp only [mu, hon, if_false]
        split <;> omega
      · intro hb; simp [onBestChain, hon] at hb

/-- **the loop**: with enough fuel `UpdatesSince` never fails for a subscriber index, returns a
contiguous path from it, at most `max` updates, ends at the tip or when `max` is reached, and
each update brings the subscriber strictly closer -/
theorem updatesSince_spec {U m} (h : Inv U m) (max : Nat) :
    ∀ (fuel : Nat) (idx : Option Nat) (acc : List Upd), Sub m idx → mu U m idx ≤ fuel →
      ∃ us idx', updatesSince U m fuel idx max acc = .ok (acc ++ us) ∧
        walk U idx us = some idx' ∧ Sub m idx' ∧
        mu U m idx' + us.length ≤ mu U m idx ∧
        (idx' = some m.tip ∨ (acc ++ us).length ≥ max) ∧
        (acc.length < max → idx ≠ some m.tip → us ≠ []) ∧
        (acc.length ≥ max → us = []) ∧
        us.length ≤ max - acc.length := by
  intro fuel
  induction fuel with
  | zero =>
    intro idx acc hs hf
    -- mu = 0 means the subscriber is at the tip
    have hat : idx = some m.tip := by
      cases idx with
      | none => simp [mu] at hf
      | some i =>
        simp only [mu] at hf
        split at hf
        · next hon =>
          have hle : (U i).height ≤ m.tipHeight := by
            by_cases hle : (U i).height ≤ m.tipHeight
            · exact hle
            · rw [h.bestAt_none (by omega)] at hon; simp at hon
          have e : (U i).height = m.tipHeight := by omega
          rw [e, h.bestAt_tip] at hon
          rw [Option.some.inj hon]
        · omega
    refine ⟨[], idx, by simp [updatesSince], rfl, hs, by simp, Or.inl hat, ?_, fun _ => rfl, by simp⟩
    · intro _ hne; exact absurd hat hne
  | succ fuel ih =>
    intro idx acc hs hf
    unfold updatesSince
    by_cases hstop : idx = some m.tip ∨ acc.length ≥ max
    · simp only [hstop, if_true]
      refine ⟨[], idx, by simp, rfl, hs, by simp, ?_, ?_, fun _ => rfl, by simp⟩
      · rcases hstop with e | e
        · exact Or.inl e
        · right; simpa using e
      · intro hlt hne; rcases hstop with e | e
        · exact absurd e hne
        · omega
    · simp only [hstop, if_false]
      have hne : idx ≠ some m.tip := fun e => hstop (Or.inl e)
      have hlt : acc.length < max := by
        by_cases x : acc.length < max
        · exact x
        · exact absurd (Or.inr (by omega)) hstop
      obtain ⟨u, i', n1, n2, n3, n4, _⟩ := nextUpd_spec h hs hne
      simp only [n1]
      obtain ⟨us, idx', r1, r2, r3, r4, r5, _, _, r8⟩ := ih (some i') (acc ++ [u]) n2 (by omega)
      refine ⟨u :: us, idx', by simpa using r1, by simp [walk, n3, r2], r3, ?_, ?_, fun _ _ => by simp, fun x => by omega, ?_⟩
      · simp only [List.length_cons]; omega
      · simpa using r5
      · simp only [List.length_append, List.length_cons, List.length_nil] at r8 ⊢
        omega

end Verif.Chain
