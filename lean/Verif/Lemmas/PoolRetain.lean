/-
Retention (C05): a self-contained set of pooled transactions is carried through every applied and
every reverted block and through the re-validation, unless a block confirms a member, spends an
input of a member, or reverts the creation of an input of a member.  Core only.

Part 1: validity split into rules and inputs; the walk lemma (one block, old vs new mid-state).
-/
import Verif.Lemmas.PoolParents

namespace Verif.Pool

/-! ## rules and inputs -/

/-- the part of `txValid` that does not look at elements -/
def rulesOk (cfg : Cfg) (l : Ledger) (v2 : Bool) (t : Txn) : Bool :=
  t.ok && (v2 || t.era == eraOf cfg l.height) && heightOk cfg l v2

/-- the part that does: every prefix resolves and spends nothing twice -/
def seqInp (l : Ledger) (v2 : Bool) : MidState → List Txn → Bool
  | _, [] => true
  | ms, t :: ts => inputsOk l ms.created v2 ms.spent t.inputs && seqInp l v2 (applyTx ms t) ts

theorem txValid_split (cfg : Cfg) (l : Ledger) (ms : MidState) (v2 : Bool) (t : Txn) :
    txValid cfg l ms v2 t = (rulesOk cfg l v2 t && inputsOk l ms.created v2 ms.spent t.inputs) := rfl

theorem seqValid_split (cfg : Cfg) (l : Ledger) (v2 : Bool) : ∀ (ts : List Txn) (ms : MidState),
    seqValid cfg l v2 ms ts = (ts.all (rulesOk cfg l v2) && seqInp l v2 ms ts)
  | [], _ => rfl
  | t :: ts, ms => by
    simp only [seqValid, seqInp, List.all_cons, txValid_split, seqValid_split cfg l v2 ts]
    cases rulesOk cfg l v2 t <;> cases inputsOk l ms.created v2 ms.spent t.inputs <;> simp

theorem seqInp_append (l : Ledger) (v2 : Bool) : ∀ (a b : List Txn) (ms : MidState),
    seqInp l v2 ms (a ++ b) = (seqInp l v2 ms a && seqInp l v2 (msOf ms a) b)
  | [], _, _ => by simp [seqInp, msOf]
  | t :: a, b, ms => by simp [seqInp, msOf, seqInp_append l v2 a b, Bool.and_assoc]

/-- a set of transactions that is valid on its own on the ledger: v1 part, then v2 part -/
def Robust (l : Ledger) (K1 K2 : List Txn) : Prop :=
  seqInp l false MidState.empty K1 = true ∧ seqInp l true (msOf MidState.empty K1) K2 = true

/-! ## transferring `inputsOk` along a change of ledger, mid-state and input representation -/

theorem inputsOk_transfer (l l' : Ledger) (c c' : List Nat) (v2 : Bool) (f : Inp → Inp)
    (hf : ∀ i, (f i).elem = i.elem) : ∀ (is : List Inp) (s s' : List Nat),
    inputsOk l c v2 s is = true →
    (∀ i ∈ is, i.elem ∈ s' → i.elem ∈ s) →
    (∀ i ∈ is, inpRes l c v2 i = true → inpRes l' c' v2 (f i) = true) →
    inputsOk l' c' v2 s' (is.map f) = true
  | [], _, _, _, _, _ => rfl
  | i :: is, s, s', h, hs, hr => by
    simp only [inputsOk, inpOk, Bool.and_eq_true, Bool.not_eq_true', List.contains_eq_mem,
      decide_eq_false_iff_not, List.map_cons] at h ⊢
    obtain ⟨⟨h1, h2⟩, h3⟩ := h
    rw [hf i]
    refine ⟨⟨fun hm => h1 (hs i (by simp) hm), hr i (by simp) h2⟩, ?_⟩
    apply inputsOk_transfer l l' c c' v2 f hf is (i.elem :: s) (i.elem :: s') h3
    · intro j hj hm
      rcases List.mem_cons.1 hm with e | hm
      · simp [e]
      · exact List.mem_cons_of_mem _ (hs j (List.mem_cons_of_mem _ hj) hm)
    · intro j hj; exact hr j (List.mem_cons_of_mem _ hj)

theorem mapInputs_elems (f : Inp → Inp) (hf : ∀ i, (f i).elem = i.elem) (t : Txn) :
    (mapInputs f t).inputs.map (·.elem) = t.inputs.map (·.elem) := by
  simp only [mapInputs, List.map_map]
  exact List.map_congr_left (fun i _ => by simp [hf i])

/-- **the walk**: going through a self-valid sequence `K` once with the old ledger / mid-state and
once with the new ones, dropping the members `keep` rejects and rewriting the inputs of the others
with `f`.  `G e` = "the element is now provided by the ledger instead of by a dropped member". -/
theorem walk (l l' : Ledger) (v : Bool) (keep : Txn → Bool) (f : Inp → Inp) (G : Nat → Prop)
    (hf : ∀ i, (f i).elem = i.elem) : ∀ (K : List Txn) (mo mn : MidState),
    (∀ e, e ∈ mn.spent → e ∈ mo.spent) → (∀ e, e ∈ mo.created → e ∈ mn.created ∨ G e) →
    seqInp l v mo K = true →
    (∀ k ∈ K, keep k = true → ∀ i ∈ k.inputs, ∀ co cn : List Nat, (∀ e, e ∈ co → e ∈ cn ∨ G e) →
      inpRes l co v i = true → inpRes l' cn v (f i) = true) →
    (∀ k ∈ K, keep k = false → ∀ o ∈ k.outputs, G o) →
    seqInp l' v mn ((K.filter keep).map (mapInputs f)) = true ∧
    (∀ e, e ∈ (msOf mn ((K.filter keep).map (mapInputs f))).spent → e ∈ (msOf mo K).spent) ∧
    (∀ e, e ∈ (msOf mo K).created → e ∈ (msOf mn ((K.filter keep).map (mapInputs f))).created ∨ G e)
  | [], mo, mn, hs, hc, _, _, _ => ⟨rfl, by simpa [msOf] using hs, by simpa [msOf] using hc⟩
  | k :: K, mo, mn, hs, hc, hv, hin, hout => by
    simp only [seqInp, Bool.and_eq_true] at hv
    obtain ⟨hk, hrest⟩ := hv
    by_cases hkeep : keep k = true
    · -- kept: rewritten and still valid
      have hs' : ∀ e, e ∈ (applyTx mn (mapInputs f k)).spent → e ∈ (applyTx mo k).spent := by
        intro e he
        simp only [applyTx, List.mem_append, List.mem_reverse] at he ⊢
        rcases he with he | he
        · left; rw [← mapInputs_elems f hf k]; exact he
        · exact Or.inr (hs e he)
      have hc' : ∀ e, e ∈ (applyTx mo k).created → e ∈ (applyTx mn (mapInputs f k)).created ∨ G e := by
        intro e he
        simp only [applyTx, List.mem_append] at he ⊢
        rcases he with he | he
        · exact Or.inl (Or.inl he)
        · rcases hc e he with h | h
          · exact Or.inl (Or.inr h)
          · exact Or.inr h
      obtain ⟨r1, r2, r3⟩ := walk l l' v keep f G hf K (applyTx mo k) (applyTx mn (mapInputs f k)) hs' hc' hrest
        (fun k' hk' => hin k' (List.mem_cons_of_mem _ hk')) (fun k' hk' => hout k' (List.mem_cons_of_mem _ hk'))
      simp only [List.filter_cons, hkeep, if_true, List.map_cons, seqInp, msOf, Bool.and_eq_true]
      refine ⟨⟨?_, r1⟩, r2, r3⟩
      show inputsOk l' mn.created v mn.spent (k.inputs.map f) = true
      apply inputsOk_transfer l l' mo.created mn.created v f hf k.inputs mo.spent mn.spent hk
      · intro i _ hm; exact hs _ hm
      · intro i hi; exact hin k (by simp) hkeep i hi mo.created mn.created hc
    · -- dropped: what it created is provided otherwise
      have hkeep' : keep k = false := by simpa using hkeep
      have hs' : ∀ e, e ∈ mn.spent → e ∈ (applyTx mo k).spent := by
        intro e he
        simp only [applyTx, List.mem_append]
        exact Or.inr (hs e he)
      have hc' : ∀ e, e ∈ (applyTx mo k).created → e ∈ mn.created ∨ G e := by
        intro e he
        simp only [applyTx, List.mem_append] at he
        rcases he with he | he
        · exact Or.inr (hout k (by simp) hkeep' e he)
        · exact hc e he
      obtain ⟨r1, r2, r3⟩ := walk l l' v keep f G hf K (applyTx mo k) mn hs' hc' hrest
        (fun k' hk' => hin k' (List.mem_cons_of_mem _ hk')) (fun k' hk' => hout k' (List.mem_cons_of_mem _ hk'))
      simp only [List.filter_cons, hkeep', Bool.false_eq_true, if_false, msOf]
      exact ⟨r1, r2, r3⟩

/-! ## Part 2: one applied block, one reverted block -/

theorem seqInp_at (l : Ledger) (v2 : Bool) (ms : MidState) (pre : List Txn) (t : Txn) (post : List Txn)
    (h : seqInp l v2 ms (pre ++ t :: post) = true) :
    inputsOk l (msOf ms pre).created v2 (msOf ms pre).spent t.inputs = true := by
  rw [seqInp_append] at h
  simp only [seqInp, Bool.and_eq_true] at h
  exact h.2.1

/-- in a self-valid v2 sequence every confirmed input carries the ledger's leaf with a good proof -/
theorem seqInp_leaf (l : Ledger) (ms : MidState) (K : List Txn) (h : seqInp l true ms K = true)
    (k : Txn) (hk : k ∈ K) (i : Inp) (hi : i ∈ k.inputs) (lf : Nat) (hl : i.leaf = some lf) :
    l.leafOf i.elem = some lf ∧ i.bad = false := by
  obtain ⟨pre, post, rfl⟩ := List.append_of_mem hk
  have hv := seqInp_at l true ms pre k post h
  obtain ⟨_, fb, _⟩ := inputsOk_facts l _ true k.inputs _ hv
  have := fb i hi
  unfold inpRes at this
  simp only [↓reduceIte, hl, Bool.and_eq_true, Bool.not_eq_true', beq_iff_eq] at this
  exact ⟨this.2, this.1⟩

theorem mapInputs_ident (t : Txn) : mapInputs (fun i => i) t = t := by
  simp [mapInputs]

def conf1 (b : Blk) : List Nat := b.txns.map (·.id)
def conf2 (b : Blk) : List Nat := b.v2txns.map (·.id)
/-- not confirmed by the block -/
def keepA1 (b : Blk) (k : Txn) : Bool := !(conf1 b).contains k.id
def keepA2 (b : Blk) (k : Txn) : Bool := !(conf2 b).contains k.id
/-- what is left of the set after the block is applied -/
def carryA1 (b : Blk) (K1 : List Txn) : List Txn := K1.filter (keepA1 b)
def carryA2 (b : Blk) (K2 : List Txn) : List Txn := (K2.filter (keepA2 b)).map (mapInputs (confirmInp b.created))

/-- the side conditions for carrying the set `K1, K2` through the application of `b` on ledger
`l`.  The property's exceptions are `unspent*`: no input of a member that the block does not
confirm is spent by the block.  The rest is consistency of the block with the ledger and with the
members it confirms (their outputs are among the created elements). -/
structure AppOK (l : Ledger) (b : Blk) (K1 K2 : List Txn) : Prop where
  fresh : ∀ p ∈ b.created, l.leafOf p.1 = none
  unspent1 : ∀ k ∈ K1, keepA1 b k = true → ∀ i ∈ k.inputs, i.elem ∉ ids b.spent
  unspent2 : ∀ k ∈ K2, keepA2 b k = true → ∀ i ∈ k.inputs, i.elem ∉ ids b.spent
  out1 : ∀ k ∈ K1, keepA1 b k = false → ∀ o ∈ k.outputs, (b.created.lookup o).isSome = true
  out2 : ∀ k ∈ K2, keepA2 b k = false → ∀ o ∈ k.outputs, (b.created.lookup o).isSome = true
  leaves : ∀ e lf, l.leafOf e = some lf → lf < b.leavesAfter
  newLeaves : ∀ p ∈ b.created, p.2 < b.leavesAfter

theorem apply_inpRes_v1 (l : Ledger) (b : Blk) (hfresh : ∀ p ∈ b.created, l.leafOf p.1 = none)
    (i : Inp) (hs : i.elem ∉ ids b.spent) (co cn : List Nat)
    (hc : ∀ e, e ∈ co → e ∈ cn ∨ (b.created.lookup e).isSome = true)
    (h : inpRes l co false i = true) : inpRes (l.apply b) cn false i = true := by
  unfold inpRes at h ⊢
  simp only [Bool.false_eq_true, ↓reduceIte, Bool.or_eq_true, List.contains_eq_mem, decide_eq_true_eq] at h ⊢
  rcases h with h | h
  · rcases hc _ h with h' | h'
    · exact Or.inl h'
    · right
      obtain ⟨lf, hlf⟩ := Option.isSome_iff_exists.1 h'
      have hn := hfresh _ (lookup_some_mem _ _ _ hlf)
      rw [leafOf_apply_created l b _ _ hn hlf hs]; rfl
  · right
    obtain ⟨lf, hlf⟩ := Option.isSome_iff_exists.1 h
    rw [leafOf_apply_kept l b _ _ hlf hs]; rfl

theorem apply_inpRes_v2 (l : Ledger) (b : Blk) (hfresh : ∀ p ∈ b.created, l.leafOf p.1 = none)
    (i : Inp) (hs : i.elem ∉ ids b.spent) (co cn : List Nat)
    (hc : ∀ e, e ∈ co → e ∈ cn ∨ (b.created.lookup e).isSome = true)
    (h : inpRes l co true i = true) : inpRes (l.apply b) cn true (confirmInp b.created i) = true := by
  unfold inpRes at h
  simp only [↓reduceIte] at h
  cases hl : i.leaf with
  | some lf =>
    rw [hl] at h
    simp only [Bool.and_eq_true, Bool.not_eq_true', beq_iff_eq] at h
    have : confirmInp b.created i = i := by simp [confirmInp, hl]
    rw [this]
    unfold inpRes
    simp only [↓reduceIte, hl, Bool.and_eq_true, Bool.not_eq_true', beq_iff_eq]
    exact ⟨h.1, leafOf_apply_kept l b _ _ h.2 hs⟩
  | none =>
    rw [hl] at h
    simp only [List.contains_eq_mem, decide_eq_true_eq] at h
    cases hc' : b.created.lookup i.elem with
    | some lf =>
      have : confirmInp b.created i = ⟨i.elem, some lf, false⟩ := by simp [confirmInp, hl, hc']
      rw [this]
      unfold inpRes
      simp only [↓reduceIte, Bool.not_false, Bool.true_and, beq_iff_eq]
      exact leafOf_apply_created l b _ _ (hfresh _ (lookup_some_mem _ _ _ hc')) hc' hs
    | none =>
      have : confirmInp b.created i = i := by simp [confirmInp, hl, hc']
      rw [this]
      unfold inpRes
      simp only [↓reduceIte, hl, List.contains_eq_mem, decide_eq_true_eq]
      rcases hc _ h with h' | h'
      · exact h'
      · rw [hc'] at h'; cases h'

/-- **one applied block**: what is left of a self-valid set is self-valid on the new ledger -/
theorem Robust.apply {l : Ledger} {K1 K2 : List Txn} (h : Robust l K1 K2) (b : Blk) (ok : AppOK l b K1 K2) :
    Robust (l.apply b) (carryA1 b K1) (carryA2 b K2) := by
  obtain ⟨a1, a2, a3⟩ := walk l (l.apply b) false (keepA1 b) (fun i => i) (fun e => (b.created.lookup e).isSome = true)
    (fun _ => rfl) K1 MidState.empty MidState.empty (fun _ h => h) (fun _ h => Or.inl h) h.1
    (fun k hk hkeep i hi co cn hc hr => apply_inpRes_v1 l b ok.fresh i (ok.unspent1 k hk hkeep i hi) co cn hc hr)
    ok.out1
  have hmap : (K1.filter (keepA1 b)).map (mapInputs fun i => i) = K1.filter (keepA1 b) := by
    conv => rhs; rw [← List.map_id (K1.filter (keepA1 b))]
    exact List.map_congr_left (fun t _ => by simp [mapInputs_ident])
  rw [hmap] at a1 a2 a3
  obtain ⟨b1, _, _⟩ := walk l (l.apply b) true (keepA2 b) (confirmInp b.created) (fun e => (b.created.lookup e).isSome = true)
    (confirmInp_elem b.created) K2 (msOf MidState.empty K1) (msOf MidState.empty (K1.filter (keepA1 b))) a2 a3 h.2
    (fun k hk hkeep i hi co cn hc hr => apply_inpRes_v2 l b ok.fresh i (ok.unspent2 k hk hkeep i hi) co cn hc hr)
    ok.out2
  exact ⟨a1, b1⟩

theorem sublist_filter_of_all {α} {A B : List α} (P : α → Bool) (h : A.Sublist B) (hp : ∀ a ∈ A, P a = true) :
    A.Sublist (B.filter P) := by
  have := h.filter P
  rwa [List.filter_eq_self.2 hp] at this

/-- … and it is still a sub-sequence of the pool's v2 slice after `applyPoolUpdate` -/
theorem carryA2_sublist {l : Ledger} {K1 K2 : List Txn} (h : Robust l K1 K2) (b : Blk) (ok : AppOK l b K1 K2)
    (p : Pool) (hsub : K2.Sublist p.v2txns) : (carryA2 b K2).Sublist (applyPoolUpdate p b).v2txns := by
  unfold carryA2 applyPoolUpdate
  simp only
  apply sublist_filter_of_all
  · exact (List.filter_sublist.trans hsub).map _
  · intro t ht
    obtain ⟨k, hk, rfl⟩ := List.mem_map.1 ht
    have hk' := (List.mem_filter.1 hk).1
    unfold proofsOk
    rw [List.all_eq_true]
    intro i' hi'
    simp only [mapInputs, List.mem_map] at hi'
    obtain ⟨i, hi, rfl⟩ := hi'
    cases hl : i.leaf with
    | some lf =>
      have : confirmInp b.created i = i := by simp [confirmInp, hl]
      rw [this, hl]
      have := (seqInp_leaf l _ K2 h.2 k hk' i hi lf hl).1
      simpa using ok.leaves _ _ this
    | none =>
      cases hc : b.created.lookup i.elem with
      | some lf =>
        have : confirmInp b.created i = ⟨i.elem, some lf, false⟩ := by simp [confirmInp, hl, hc]
        rw [this]
        simpa using ok.newLeaves _ (lookup_some_mem _ _ _ hc)
      | none =>
        have : confirmInp b.created i = i := by simp [confirmInp, hl, hc]
        rw [this, hl]

/-- the side conditions for carrying the set through the reversal of `b`: the property's
exception is `kept` (the block created no input of a member: no creation is reverted); `leaves` is
consistency of the ledger with the block's parent state -/
structure RevOK (l : Ledger) (b : Blk) (K1 K2 : List Txn) : Prop where
  kept : ∀ k ∈ K1 ++ K2, ∀ i ∈ k.inputs, i.elem ∉ ids b.created
  leaves : ∀ e lf, l.leafOf e = some lf → e ∉ ids b.created → lf < b.leavesBefore

theorem leafOf_revert_kept (l : Ledger) (b : Blk) (e lf : Nat) (h : l.leafOf e = some lf) (hc : e ∉ ids b.created) :
    (l.revert b).leafOf e = some lf := by
  unfold Ledger.leafOf Ledger.revert at *
  simp only
  rw [lookup_filter_key]
  · exact lookup_append_left_some e lf _ _ h
  · intro p _ hp
    simp only [Bool.not_eq_true', List.contains_eq_mem, decide_eq_false_iff_not]
    rw [hp]; exact hc

theorem revert_inpRes (l : Ledger) (b : Blk) (v : Bool) (i : Inp) (hc : i.elem ∉ ids b.created) (co cn : List Nat)
    (hcc : ∀ e, e ∈ co → e ∈ cn ∨ False) (h : inpRes l co v i = true) : inpRes (l.revert b) cn v i = true := by
  unfold inpRes at h ⊢
  cases v
  · simp only [Bool.false_eq_true, ↓reduceIte, Bool.or_eq_true, List.contains_eq_mem, decide_eq_true_eq] at h ⊢
    rcases h with h | h
    · exact Or.inl ((hcc _ h).resolve_right id)
    · right
      obtain ⟨lf, hlf⟩ := Option.isSome_iff_exists.1 h
      rw [leafOf_revert_kept l b _ _ hlf hc]; rfl
  · simp only [↓reduceIte] at h ⊢
    cases hl : i.leaf with
    | none =>
      rw [hl] at h
      simp only [List.contains_eq_mem, decide_eq_true_eq] at h ⊢
      exact (hcc _ h).resolve_right id
    | some lf =>
      rw [hl] at h
      simp only [Bool.and_eq_true, Bool.not_eq_true', beq_iff_eq] at h ⊢
      exact ⟨h.1, leafOf_revert_kept l b _ _ h.2 hc⟩

theorem filter_true_eq {α} (l : List α) : l.filter (fun _ => true) = l := List.filter_eq_self.2 (fun _ _ => rfl)

/-- **one reverted block**: the set stays self-valid as it is -/
theorem Robust.revert {l : Ledger} {K1 K2 : List Txn} (h : Robust l K1 K2) (b : Blk) (ok : RevOK l b K1 K2) :
    Robust (l.revert b) K1 K2 := by
  have hid : ∀ K : List Txn, (K.filter fun _ => true).map (mapInputs fun i => i) = K := by
    intro K
    rw [filter_true_eq]
    conv => rhs; rw [← List.map_id K]
    exact List.map_congr_left (fun t _ => by simp [mapInputs_ident])
  obtain ⟨a1, a2, a3⟩ := walk l (l.revert b) false (fun _ => true) (fun i => i) (fun _ => False)
    (fun _ => rfl) K1 MidState.empty MidState.empty (fun _ h => h) (fun _ h => Or.inl h) h.1
    (fun k hk _ i hi co cn hc hr => revert_inpRes l b false i (ok.kept k (List.mem_append_left _ hk) i hi) co cn hc hr)
    (fun _ _ hf => by cases hf)
  rw [hid] at a1 a2 a3
  obtain ⟨b1, _, _⟩ := walk l (l.revert b) true (fun _ => true) (fun i => i) (fun _ => False)
    (fun _ => rfl) K2 (msOf MidState.empty K1) (msOf MidState.empty K1) a2 a3 h.2
    (fun k hk _ i hi co cn hc hr => revert_inpRes l b true i (ok.kept k (List.mem_append_right _ hk) i hi) co cn hc hr)
    (fun _ _ hf => by cases hf)
  rw [hid] at b1
  exact ⟨a1, b1⟩

theorem unconfirmInp_id_of_not_created (c : List (Nat × Nat)) (i : Inp) (h : i.elem ∉ ids c) : unconfirmInp c i = i := by
  unfold unconfirmInp
  cases i.leaf with
  | none => rfl
  | some _ =>
    simp only
    rw [if_neg]
    simpa using h

theorem K2_sublist_revert {l : Ledger} {K1 K2 : List Txn} (h : Robust l K1 K2) (b : Blk) (ok : RevOK l b K1 K2)
    (p : Pool) (hsub : K2.Sublist p.v2txns) : K2.Sublist (revertPoolUpdate p b).v2txns := by
  unfold revertPoolUpdate
  simp only
  have hmap : K2.map (mapInputs (unconfirmInp b.created)) = K2 := by
    conv => rhs; rw [← List.map_id K2]
    apply List.map_congr_left
    intro t ht
    simp only [id]
    exact mapInputs_id t _ (fun i hi => unconfirmInp_id_of_not_created _ i (ok.kept t (List.mem_append_right _ ht) i hi))
  apply sublist_filter_of_all
  · rw [← hmap]; exact hsub.map _
  · intro k hk
    unfold proofsOk
    rw [List.all_eq_true]
    intro i hi
    cases hl : i.leaf with
    | none => rfl
    | some lf =>
      have := (seqInp_leaf l _ K2 h.2 k hk i hi lf hl).1
      simpa using ok.leaves _ _ this (ok.kept k (List.mem_append_right _ hk) i hi)

/-! ## Part 3: the re-validation keeps the set -/

/-- re-validating a list `P` that contains the self-valid sequence `K` as a sub-sequence: all of `K`
is kept, in order, provided nothing else that is accepted spends a protected element (`Z`, which
contains every element `K` spends). -/
theorem refill_retains (cfg : Cfg) (l : Ledger) (v : Bool) (Z : List Nat) : ∀ (P K : List Txn) (a : Acc) (mk : MidState),
    K.Sublist P → (P.map (·.id)).Nodup →
    seqInp l v mk K = true → (∀ k ∈ K, rulesOk cfg l v k = true) →
    (∀ e, e ∈ mk.created → e ∈ a.ms.created) →
    (∀ e ∈ Z, e ∈ a.ms.spent → e ∈ mk.spent) →
    (∀ e ∈ spentOf K, e ∈ Z) →
    (∀ x ∈ P, x ∉ K → ∀ i ∈ x.inputs, i.elem ∉ Z) →
    (∀ k ∈ K, a.idx k.id = none) →
    ∃ rest, (refill cfg l v a P).kept = a.kept ++ rest ∧ K.Sublist rest ∧
      (∀ e, e ∈ (msOf mk K).created → e ∈ (refill cfg l v a P).ms.created) ∧
      (∀ e ∈ Z, e ∈ (refill cfg l v a P).ms.spent → e ∈ (msOf mk K).spent)
  | [], K, a, mk, hsub, _, _, _, hc, hs, _, _, _ => by
    have : K = [] := List.sublist_nil.1 hsub
    subst this
    exact ⟨[], by simp [refill], List.Sublist.slnil, by simpa [msOf, refill] using hc, by simpa [msOf, refill] using hs⟩
  | x :: P, K, a, mk, hsub, hnd, hv, hr, hc, hs, hz, hdis, hidx => by
    simp only [List.map_cons, List.nodup_cons] at hnd
    cases hsub with
    | cons _ hsub' =>
      -- `x` is not a member
      have hxK : x ∉ K := fun hm => hnd.1 (List.mem_map_of_mem (hsub'.subset hm))
      have hstep : ∃ a', refillStep cfg l v a x = a' ∧ (∃ r0, a'.kept = a.kept ++ r0) ∧
          (∀ e, e ∈ mk.created → e ∈ a'.ms.created) ∧ (∀ e ∈ Z, e ∈ a'.ms.spent → e ∈ mk.spent) ∧
          (∀ k ∈ K, a'.idx k.id = none) := by
        refine ⟨_, rfl, ?_⟩
        unfold refillStep
        split
        · exact ⟨⟨[], by simp⟩, hc, hs, hidx⟩
        · split
          · refine ⟨⟨[x], rfl⟩, ?_, ?_, ?_⟩
            · intro e he; simp only [push, applyTx, List.mem_append]; exact Or.inr (hc e he)
            · intro e hez he
              simp only [push, applyTx, List.mem_append, List.mem_reverse, List.mem_map] at he
              rcases he with ⟨i, hi, rfl⟩ | he
              · exact absurd hez (hdis x (by simp) hxK i hi)
              · exact hs e hez he
            · intro k hk
              have hne : k.id ≠ x.id := fun e => hnd.1 (e ▸ List.mem_map_of_mem (hsub'.subset hk))
              simp [push, upd_other _ _ _ _ hne, hidx k hk]
          · exact ⟨⟨[], by simp⟩, hc, hs, hidx⟩
      obtain ⟨a', ha', ⟨r0, hr0⟩, hc', hs', hidx'⟩ := hstep
      obtain ⟨rest, h1, h2, h3, h4⟩ := refill_retains cfg l v Z P K a' mk hsub' hnd.2 hv hr hc' hs' hz
        (fun y hy => hdis y (List.mem_cons_of_mem _ hy)) hidx'
      rw [refill, ha']
      exact ⟨r0 ++ rest, by rw [h1, hr0, List.append_assoc], h2.trans (List.sublist_append_right _ _), h3, h4⟩
    | cons_cons _ hsub' =>
      -- `x` is the next member: it is accepted
      rename_i K'
      simp only [seqInp, Bool.and_eq_true] at hv
      have hval : txValid cfg l a.ms v x = true := by
        rw [txValid_split, Bool.and_eq_true]
        refine ⟨hr x (by simp), ?_⟩
        apply inputsOk_weaken l mk.created a.ms.created v x.inputs mk.spent a.ms.spent hv.1
        · intro i hi hm
          exact hs _ (hz _ (by simp only [spentOf, List.flatMap_cons, List.mem_append, List.mem_map]; exact Or.inl ⟨i, hi, rfl⟩)) hm
        · intro i _; exact inpRes_mono l hc v i
      have hstep : refillStep cfg l v a x = push a x := by
        unfold refillStep
        rw [hidx x (by simp)]
        simp [hval]
      have hidx' : ∀ k ∈ K', (push a x).idx k.id = none := by
        intro k hk
        have hne : k.id ≠ x.id := fun e => hnd.1 (e ▸ List.mem_map_of_mem (hsub'.subset hk))
        simp [push, upd_other _ _ _ _ hne, hidx k (by simp [hk])]
      obtain ⟨rest, h1, h2, h3, h4⟩ := refill_retains cfg l v Z P K' (push a x) (applyTx mk x) hsub' hnd.2 hv.2
        (fun k hk => hr k (by simp [hk]))
        (by
          intro e he
          simp only [push, applyTx, List.mem_append] at he ⊢
          rcases he with he | he
          · exact Or.inl he
          · exact Or.inr (hc e he))
        (by
          intro e hez he
          simp only [push, applyTx, List.mem_append, List.mem_reverse] at he ⊢
          rcases he with he | he
          · exact Or.inl he
          · exact Or.inr (hs e hez he))
        (fun e he => hz e (by simp only [spentOf, List.flatMap_cons, List.mem_append]; exact Or.inr he))
        (by
          intro y hy hyK i hi
          apply hdis y (List.mem_cons_of_mem _ hy) ?_ i hi
          intro hm
          rcases List.mem_cons.1 hm with e | hm
          · exact hnd.1 (e ▸ List.mem_map_of_mem hy)
          · exact hyK hm)
        hidx'
      rw [refill, hstep]
      refine ⟨x :: rest, by rw [h1]; simp [push], h2.cons_cons _, ?_, ?_⟩
      · simpa [msOf] using h3
      · simpa [msOf] using h4

/-- offering further transactions none of which spends a protected element only appends -/
theorem refill_noK (cfg : Cfg) (l : Ledger) (v : Bool) (Z : List Nat) (mk : MidState) : ∀ (R : List Txn) (a : Acc),
    (∀ e, e ∈ mk.created → e ∈ a.ms.created) →
    (∀ e ∈ Z, e ∈ a.ms.spent → e ∈ mk.spent) →
    (∀ x ∈ R, ∀ i ∈ x.inputs, i.elem ∉ Z) →
    ∃ rest, (refill cfg l v a R).kept = a.kept ++ rest ∧
      (∀ e, e ∈ mk.created → e ∈ (refill cfg l v a R).ms.created) ∧
      (∀ e ∈ Z, e ∈ (refill cfg l v a R).ms.spent → e ∈ mk.spent)
  | [], a, hc, hs, _ => ⟨[], by simp [refill], hc, hs⟩
  | x :: R, a, hc, hs, hdis => by
    have hstep : ∃ r0, (refillStep cfg l v a x).kept = a.kept ++ r0 ∧
        (∀ e, e ∈ mk.created → e ∈ (refillStep cfg l v a x).ms.created) ∧
        (∀ e ∈ Z, e ∈ (refillStep cfg l v a x).ms.spent → e ∈ mk.spent) := by
      unfold refillStep
      split
      · exact ⟨[], by simp, hc, hs⟩
      · split
        · refine ⟨[x], rfl, ?_, ?_⟩
          · intro e he; simp only [push, applyTx, List.mem_append]; exact Or.inr (hc e he)
          · intro e hez he
            simp only [push, applyTx, List.mem_append, List.mem_reverse, List.mem_map] at he
            rcases he with ⟨i, hi, rfl⟩ | he
            · exact absurd hez (hdis x (by simp) i hi)
            · exact hs e hez he
        · exact ⟨[], by simp, hc, hs⟩
    obtain ⟨r0, h0, hc', hs'⟩ := hstep
    obtain ⟨rest, h1, h2, h3⟩ := refill_noK cfg l v Z mk R _ hc' hs' (fun y hy => hdis y (List.mem_cons_of_mem _ hy))
    rw [refill]
    exact ⟨r0 ++ rest, by rw [h1, h0, List.append_assoc], h2, h3⟩

/-- the side conditions of the re-validation for a set `K1, K2` inside pool `p` -/
structure RebuildOK (cfg : Cfg) (S : Nat → Bool × List Nat × List Nat) (p : Pool) (K1 K2 : List Txn) : Prop where
  conf : PoolConf S p
  sub1 : K1.Sublist p.txns
  sub2 : K2.Sublist p.v2txns
  robust : Robust p.led K1 K2
  rules1 : ∀ k ∈ K1, rulesOk cfg p.led false k = true
  rules2 : ∀ k ∈ K2, rulesOk cfg p.led true k = true
  nodup1 : (p.txns.map (·.id)).Nodup
  nodup2 : (p.v2txns.map (·.id)).Nodup
  /-- nothing else in the pool spends what the set spends -/
  others1 : ∀ x ∈ p.txns, x ∉ K1 → ∀ i ∈ x.inputs, i.elem ∉ spentOf (K1 ++ K2)
  others2 : ∀ x ∈ p.v2txns, x ∉ K2 → ∀ i ∈ x.inputs, i.elem ∉ spentOf (K1 ++ K2)
  /-- nor does a remembered transaction of a reverted tip -/
  reoffer : ∀ w ∈ p.lastReverted ++ p.lastRevertedV2, ∀ i ∈ w.inputs, i.elem ∉ spentOf (K1 ++ K2)

/-- **the re-validation keeps the whole set**, in order -/
theorem rebuild_retains (cfg : Cfg) (S : Nat → Bool × List Nat × List Nat) (p : Pool) (K1 K2 : List Txn)
    (h : RebuildOK cfg S p K1 K2) :
    K1.Sublist (rebuild cfg p).txns ∧ K2.Sublist (rebuild cfg p).v2txns := by
  have hz1 : ∀ e ∈ spentOf K1, e ∈ spentOf (K1 ++ K2) := fun e he => by rw [spentOf_append]; exact List.mem_append_left _ he
  have hz2 : ∀ e ∈ spentOf K2, e ∈ spentOf (K1 ++ K2) := fun e he => by rw [spentOf_append]; exact List.mem_append_right _ he
  -- first pass
  obtain ⟨r1, k1, s1, c1, p1⟩ := refill_retains cfg p.led false (spentOf (K1 ++ K2)) p.txns K1
    ⟨MidState.empty, fun _ => none, 0, []⟩ MidState.empty h.sub1 h.nodup1 h.robust.1 h.rules1
    (fun _ he => he) (fun _ _ he => he) hz1 h.others1 (fun _ _ => rfl)
  obtain ⟨r1', k1', c1', p1'⟩ := refill_noK cfg p.led false (spentOf (K1 ++ K2)) (msOf MidState.empty K1) p.lastReverted
    (refill cfg p.led false ⟨MidState.empty, fun _ => none, 0, []⟩ p.txns) c1 p1
    (fun w hw => h.reoffer w (List.mem_append_left _ hw))
  -- the accumulator after the first pass
  have hA : refill cfg p.led false ⟨MidState.empty, fun _ => none, 0, []⟩ (p.txns ++ p.lastReverted) =
      refill cfg p.led false (refill cfg p.led false ⟨MidState.empty, fun _ => none, 0, []⟩ p.txns) p.lastReverted :=
    refill_append _ _ _ _ _ _
  have hkept1 : K1.Sublist (refill cfg p.led false ⟨MidState.empty, fun _ => none, 0, []⟩ (p.txns ++ p.lastReverted)).kept := by
    rw [hA, k1', k1]
    simp only [List.nil_append]
    exact s1.trans (List.sublist_append_left _ _)
  -- second pass: the v2 members are unknown to the index
  have hidx0 : AccIdx [] (refill cfg p.led false ⟨MidState.empty, fun _ => none, 0, []⟩ (p.txns ++ p.lastReverted)) :=
    refill_accIdx _ _ ⟨by simp, by simp, by simp⟩
  have hidx2 : ∀ k ∈ K2, (refill cfg p.led false ⟨MidState.empty, fun _ => none, 0, []⟩ (p.txns ++ p.lastReverted)).idx k.id = none := by
    intro k hk
    cases hi : (refill cfg p.led false ⟨MidState.empty, fun _ => none, 0, []⟩ (p.txns ++ p.lastReverted)).idx k.id with
    | none => rfl
    | some j =>
      exfalso
      have hm := hidx0.mem k.id (by simp [hi])
      simp only [List.nil_append, List.mem_map] at hm
      obtain ⟨u, hu, e⟩ := hm
      have hu' : u ∈ p.txns ++ p.lastReverted := by
        rcases refill_kept_sub _ _ u hu with h' | h'
        · simp at h'
        · exact h'
      have cu : Conf S false u := by
        rcases List.mem_append.1 hu' with h' | h'
        · exact h.conf.t1 u h'
        · exact h.conf.r1 u h'
      exact Conf.kind_ne cu (h.conf.t2 k (h.sub2.subset hk)) e
  obtain ⟨r2, k2, s2, _, _⟩ := refill_retains cfg p.led true (spentOf (K1 ++ K2)) p.v2txns K2
    { refill cfg p.led false ⟨MidState.empty, fun _ => none, 0, []⟩ (p.txns ++ p.lastReverted) with kept := [] }
    (msOf MidState.empty K1) h.sub2 h.nodup2 h.robust.2 h.rules2
    (by rw [hA]; exact c1') (by rw [hA]; exact p1') hz2 h.others2 hidx2
  have hB := refill_append cfg p.led true p.v2txns p.lastRevertedV2
    { refill cfg p.led false ⟨MidState.empty, fun _ => none, 0, []⟩ (p.txns ++ p.lastReverted) with kept := [] }
  obtain ⟨r2', k2', _, _⟩ := refill_noK cfg p.led true ([] : List Nat) MidState.empty p.lastRevertedV2
    (refill cfg p.led true
      { refill cfg p.led false ⟨MidState.empty, fun _ => none, 0, []⟩ (p.txns ++ p.lastReverted) with kept := [] } p.v2txns)
    (fun _ he => by simp [MidState.empty] at he) (fun _ he => by simp at he) (fun _ _ _ _ => by simp)
  refine ⟨hkept1, ?_⟩
  show K2.Sublist (refill cfg p.led true _ (p.v2txns ++ p.lastRevertedV2)).kept
  rw [hB, k2', k2]
  simp only [List.nil_append]
  exact s2.trans (List.sublist_append_left _ _)

/-! ## Part 4: list facts that survive the per-block updates -/

theorem spentOf_map_elems (f : Inp → Inp) (hf : ∀ i, (f i).elem = i.elem) (L : List Txn) :
    spentOf (L.map (mapInputs f)) = spentOf L := by
  induction L with
  | nil => rfl
  | cons t L ih =>
    simp only [List.map_cons, spentOf, List.flatMap_cons] at ih ⊢
    rw [ih, mapInputs_elems f hf t]

theorem spentOf_sublist {A B : List Txn} (h : A.Sublist B) : (spentOf A).Sublist (spentOf B) := by
  induction h with
  | slnil => exact List.Sublist.slnil
  | cons a _ ih =>
    simp only [spentOf, List.flatMap_cons] at ih ⊢
    exact ih.trans (List.sublist_append_right _ _)
  | cons_cons a _ ih =>
    simp only [spentOf, List.flatMap_cons] at ih ⊢
    exact List.Sublist.append (List.Sublist.refl _) ih

theorem spentOf_cons (t : Txn) (L : List Txn) : spentOf (t :: L) = t.inputs.map (·.elem) ++ spentOf L := by
  simp [spentOf]

/-- in a list that spends nothing twice, a transaction outside a sub-sequence shares no input with it -/
theorem others_disjoint : ∀ {L K : List Txn}, K.Sublist L → (spentOf L).Nodup →
    ∀ x ∈ L, x ∉ K → ∀ i ∈ x.inputs, i.elem ∉ spentOf K
  | [], K, hs, _, x, hx, _, _, _ => by cases hx
  | y :: L, K, hs, hn, x, hx, hxK, i, hi => by
    rw [spentOf_cons, List.nodup_append] at hn
    obtain ⟨_, n2, n3⟩ := hn
    cases hs with
    | cons _ hs' =>
      rcases List.mem_cons.1 hx with rfl | hx'
      · intro hm
        exact n3 i.elem (List.mem_map_of_mem hi) i.elem ((spentOf_sublist hs').subset hm) rfl
      · exact others_disjoint hs' n2 x hx' hxK i hi
    | cons_cons _ hs' =>
      rename_i K'
      have hne : x ≠ y := fun e => hxK (e ▸ List.mem_cons_self)
      rcases List.mem_cons.1 hx with e | hx'
      · exact absurd e hne
      · rw [spentOf_cons]
        intro hm
        rcases List.mem_append.1 hm with hm | hm
        · exact n3 i.elem hm i.elem (mem_spentOf.2 ⟨x, hx', i, hi, rfl⟩) rfl
        · exact others_disjoint hs' n2 x hx' (fun h => hxK (List.mem_cons_of_mem _ h)) i hi hm

theorem Valid.spent_nodup {cfg : Cfg} {p : Pool} (h : Valid cfg p) : (spentOf (p.txns ++ p.v2txns)).Nodup := by
  obtain ⟨n1, _⟩ := seqValid_nodup cfg _ false _ _ h.v1
  obtain ⟨n2, d2⟩ := seqValid_nodup cfg _ true _ _ h.v2
  rw [spentOf_append, List.nodup_append]
  refine ⟨n1, n2, ?_⟩
  intro a ha b hb hab
  subst hab
  exact d2 a hb ((mem_empty_msOf_spent _ _).2 ha)

/-- facts about the two slices that the per-block updates preserve -/
structure ListsOK (p : Pool) : Prop where
  nodup1 : (p.txns.map (·.id)).Nodup
  nodup2 : (p.v2txns.map (·.id)).Nodup
  spent : (spentOf (p.txns ++ p.v2txns)).Nodup

theorem ListsOK.of_good {cfg : Cfg} {p : Pool} (hi : IdxOK p) (hv : Valid cfg p) : ListsOK p :=
  ⟨hi.nodup1, hi.nodup2, hv.spent_nodup⟩

theorem listsOK_update (p : Pool) (f : Inp → Inp) (hf : ∀ i, (f i).elem = i.elem) (P : Txn → Bool) (h : ListsOK p)
    (p' : Pool) (h1 : p'.txns = p.txns) (h2 : p'.v2txns = (p.v2txns.map (mapInputs f)).filter P) : ListsOK p' := by
  refine ⟨by rw [h1]; exact h.nodup1, ?_, ?_⟩
  · rw [h2]
    have : ((p.v2txns.map (mapInputs f)).filter P).map (·.id) |>.Sublist (p.v2txns.map (·.id)) := by
      have e : p.v2txns.map (·.id) = (p.v2txns.map (mapInputs f)).map (·.id) := by
        rw [List.map_map]; rfl
      rw [e]
      exact List.filter_sublist.map _
    exact h.nodup2.sublist this
  · rw [h1, h2, spentOf_append]
    have hsub : (spentOf ((p.v2txns.map (mapInputs f)).filter P)).Sublist (spentOf p.v2txns) := by
      rw [← spentOf_map_elems f hf p.v2txns]
      exact spentOf_sublist List.filter_sublist
    have := h.spent
    rw [spentOf_append] at this
    exact this.sublist (List.Sublist.append (List.Sublist.refl _) hsub)

theorem listsOK_apply {p : Pool} (b : Blk) (h : ListsOK p) : ListsOK (applyPoolUpdate p b) :=
  listsOK_update p _ (confirmInp_elem b.created) _ h _ rfl rfl

theorem listsOK_revert {p : Pool} (b : Blk) (h : ListsOK p) : ListsOK (revertPoolUpdate p b) :=
  listsOK_update p _ (unconfirmInp_elem b.created) _ h _ rfl rfl

/-- what the carried set spends only shrinks -/
theorem spentOf_carryA1 (b : Blk) (K1 : List Txn) : ∀ e ∈ spentOf (carryA1 b K1), e ∈ spentOf K1 :=
  fun _ he => (spentOf_sublist List.filter_sublist).subset he

theorem spentOf_carryA2 (b : Blk) (K2 : List Txn) : ∀ e ∈ spentOf (carryA2 b K2), e ∈ spentOf K2 := by
  intro e he
  unfold carryA2 at he
  rw [spentOf_map_elems _ (confirmInp_elem b.created)] at he
  exact (spentOf_sublist List.filter_sublist).subset he

end Verif.Pool
