/-
Lemmas for the listener registry: with fresh keys the Go map behaves like the list of live
registrations.
-/
import Verif.Model.Listeners

namespace Verif.Listeners

/-- every registration of the history is handed a key that was never handed out before -/
def Fresh : List Nat → List Op → Prop
  | _, [] => True
  | used, .reg k _ :: ops => k ∉ used ∧ Fresh (k :: used) ops
  | used, .cancel _ :: ops => Fresh used ops

theorem filter_ne_of_not_mem {l : List (Nat × Nat)} {k : Nat} (h : ∀ e ∈ l, e.1 ≠ k) :
    l.filter (fun e => e.1 != k) = l := by
  apply List.filter_eq_self.mpr
  intro e he
  simp [h e he]

/-- **refinement**: under fresh keys the registry is exactly the list of live registrations -/
theorem run_eq_spec (ops : List Op) :
    ∀ (r : Reg) (used : List Nat), (∀ e ∈ r.entries, e.1 ∈ used) → Fresh used ops →
      (run r ops).entries = specRun r.entries ops := by
  induction ops with
  | nil => intro r used _ _; rfl
  | cons op ops ih =>
    intro r used hu hf
    cases op with
    | reg k l =>
      obtain ⟨hk, hf'⟩ := hf
      have hne : ∀ e ∈ r.entries, e.1 ≠ k := fun e he heq => hk (heq ▸ hu e he)
      have hreg : (r.register k l).entries = (k, l) :: r.entries := by
        simp [Reg.register, filter_ne_of_not_mem hne]
      have := ih (r.register k l) (k :: used) (by
        intro e he
        rw [hreg] at he
        rcases List.mem_cons.mp he with rfl | he
        · exact List.mem_cons_self
        · exact List.mem_cons_of_mem _ (hu e he)) hf'
      simp only [run, List.foldl_cons, step, specRun, specStep] at this ⊢
      rw [this, hreg]
    | cancel k =>
      have := ih (r.cancel k) used (by
        intro e he
        exact hu e (List.mem_filter.mp he).1) hf
      simp only [run, List.foldl_cons, step, specRun, specStep] at this ⊢
      rw [this]; rfl

/-- a live registration survives every later operation that does not cancel its key -/
theorem spec_keeps (ops : List Op) : ∀ (live : List (Nat × Nat)) (e : Nat × Nat), e ∈ live →
    (∀ k, Op.cancel k ∈ ops → k ≠ e.1) → e ∈ specRun live ops := by
  induction ops with
  | nil => intro live e he _; exact he
  | cons op ops ih =>
    intro live e he hc
    simp only [specRun, List.foldl_cons]
    apply ih
    · cases op with
      | reg k l => exact List.mem_cons_of_mem _ he
      | cancel k =>
        have : k ≠ e.1 := hc k List.mem_cons_self
        simp only [specStep, List.mem_filter]
        exact ⟨he, by simpa using fun h => this h.symm⟩
    · intro k hk; exact hc k (List.mem_cons_of_mem _ hk)

/-- after its key is cancelled a registration is gone, whatever follows (keys are never reused) -/
theorem spec_drops (ops : List Op) : ∀ (live : List (Nat × Nat)) (used : List Nat) (k : Nat),
    (∀ e ∈ live, e.1 ≠ k) → k ∈ used → Fresh used ops → ∀ e ∈ specRun live ops, e.1 ≠ k := by
  induction ops with
  | nil => intro live _ k h _ _ e he; exact h e he
  | cons op ops ih =>
    intro live used k h hk hf e he
    simp only [specRun, List.foldl_cons] at he
    cases op with
    | reg k' l =>
      obtain ⟨hk', hf'⟩ := hf
      refine ih _ (k' :: used) k ?_ (List.mem_cons_of_mem _ hk) hf' e he
      intro e' he'
      rcases List.mem_cons.mp he' with rfl | he'
      · intro heq; simp only at heq; subst heq; exact hk' hk
      · exact h e' he'
    | cancel k' =>
      refine ih _ used k ?_ hk hf e he
      intro e' he'
      exact h e' (List.mem_filter.mp he').1

end Verif.Listeners
