/-
Helper lemmas for M1 (KV): the refinement relation between `MemDB` and `Spec`
and its preservation by every operation.
-/
import Verif.Model.KV

namespace Verif.KV
open Std

/-- Well-formedness of a MemDB state: a key is never pending both as a put and as a
delete, and a pending map exists only for a bucket that exists. -/
structure MemDB.WF (d : MemDB) : Prop where
  disj : ∀ b p ds, d.puts b = some p → d.dels b = some ds → ∀ k, k ∈ p → k ∈ ds → False

/-- The refinement relation.  The working image of bucket `b` is exactly what `get`
returns; the durable image is `buckets`. -/
structure R (d : MemDB) (s : Spec) : Prop where
  has : ∀ b, (s.working b).isSome = d.has b
  get : ∀ b m, s.working b = some m → ∀ k, m[k]? = d.get b k
  dur : ∀ b, s.durable b = d.buckets b
  wf : d.WF
  /-- a bucket with a pending map is either committed or has both pending maps
  (created in this session) — what makes `put`/`delete` never fail on an existing bucket -/
  pend : ∀ b, d.has b = true → (d.buckets b).isSome = true ∨ ((d.puts b).isSome = true ∧ (d.dels b).isSome = true)

theorem R_init : R MemDB.init Spec.init := by
  constructor <;> simp [MemDB.init, Spec.init, MemDB.has] <;> try (constructor; simp)


theorem getElem?_iterMap (d : MemDB) (b k : Nat) (hwf : d.WF) :
    (d.iterMap b)[k]? = d.get b k := by
  simp only [MemDB.iterMap, MemDB.get]
  have hd := hwf.disj b
  rw [ExtTreeMap.getElem?_union, ExtTreeMap.getElem?_filter']
  cases hp : d.puts b <;> cases hds : d.dels b <;> cases hb : d.buckets b <;> simp_all <;> grind


/-- the map `get` describes, for an existing bucket -/
theorem iterMap_eq (d : MemDB) (s : Spec) (h : R d s) (b : Nat) (m : KMap)
    (hm : s.working b = some m) : d.iterMap b = m := by
  apply ExtTreeMap.ext_getElem?
  intro k
  rw [getElem?_iterMap d b k h.wf, h.get b m hm k]

def MemDB.Pend (d : MemDB) : Prop :=
  ∀ b, d.has b = true → (d.buckets b).isSome = true ∨ ((d.puts b).isSome = true ∧ (d.dels b).isSome = true)

theorem put_spec (d : MemDB) (b k v : Nat) (hb : d.has b = true) (hwf : d.WF) (hpend : d.Pend) :
    ∃ d', d.put b k v = some d' ∧ (∀ b', d'.has b' = d.has b') ∧
      (∀ b' k', d'.get b' k' = if b' = b ∧ k' = k then some v else d.get b' k') ∧
      d'.buckets = d.buckets ∧ d'.WF ∧ d'.Pend := by
  have hdj := hwf.disj b
  have hpb := hpend b hb
  cases hp : d.puts b <;> cases hds : d.dels b <;> cases hbk : d.buckets b <;>
    simp_all [MemDB.put, MemDB.has]
  all_goals refine ⟨?_, ?_, ?_, ?_⟩
  all_goals first
    | (intro b'; by_cases hbb : b' = b <;> simp_all [upd]; done)
    | (intro b' k'; by_cases hbb : b' = b <;> simp_all [upd, MemDB.get] <;> grind)
    | (constructor; intro b' p ds hp' hds' k' hk1 hk2
       have := hwf.disj b' p ds
       by_cases hbb : b' = b <;> simp_all [upd] <;> grind)
    | (intro b' hb'; have := hpend b'; by_cases hbb : b' = b <;> simp_all [upd, MemDB.has])

theorem del_spec (d : MemDB) (b k : Nat) (hb : d.has b = true) (hwf : d.WF) (hpend : d.Pend) :
    ∃ d', d.delete b k = some d' ∧ (∀ b', d'.has b' = d.has b') ∧
      (∀ b' k', d'.get b' k' = if b' = b ∧ k' = k then none else d.get b' k') ∧
      d'.buckets = d.buckets ∧ d'.WF ∧ d'.Pend := by
  have hdj := hwf.disj b
  have hpb := hpend b hb
  cases hp : d.puts b <;> cases hds : d.dels b <;> cases hbk : d.buckets b <;>
    simp_all [MemDB.delete, MemDB.has]
  all_goals refine ⟨?_, ?_, ?_, ?_⟩
  all_goals first
    | (intro b'; by_cases hbb : b' = b <;> simp_all [upd]; done)
    | (intro b' k'; by_cases hbb : b' = b <;> simp_all [upd, MemDB.get] <;> grind)
    | (constructor; intro b' p ds hp' hds' k' hk1 hk2
       have := hwf.disj b' p ds
       by_cases hbb : b' = b <;> simp_all [upd] <;> grind)
    | (intro b' hb'; have := hpend b'; by_cases hbb : b' = b <;> simp_all [upd, MemDB.has])

theorem flush_buckets (d : MemDB) (hwf : d.WF) (b : Nat) :
    (d.flush.buckets b).isSome = d.has b ∧
    ∀ m', d.flush.buckets b = some m' → ∀ k, m'[k]? = d.get b k := by
  have hdj := hwf.disj b
  cases hp : d.puts b <;> cases hds : d.dels b <;> cases hbk : d.buckets b <;>
    simp_all [MemDB.flush, MemDB.has, MemDB.get]
  all_goals (intro k; (try simp only [ExtTreeMap.getElem?_union]); grind)

theorem memdb_step_refines (d : MemDB) (s : Spec) (h : R d s) (op : Op) :
    (d.step op).2 = (s.step op).2 ∧ R (d.step op).1 (s.step op).1 := by
  cases op with
  | get b k =>
    have h1 := h.has b
    simp only [MemDB.step, Spec.step]
    cases hw : s.working b with
    | none => simp_all
    | some m =>
      have := h.get b m hw k
      simp_all
  | iter b =>
    have h1 := h.has b
    simp only [MemDB.step, Spec.step]
    cases hw : s.working b with
    | none => simp_all
    | some m =>
      have := iterMap_eq d s h b m hw
      simp_all
  | cancel =>
    simp only [MemDB.step, Spec.step, MemDB.cancel, true_and]
    constructor
    · intro b; simp [MemDB.has, h.dur]
    · intro b m hm k; simp [MemDB.get]; simp [h.dur] at hm; simp [hm]
    · exact h.dur
    · constructor; simp
    · intro b; simp [MemDB.has]
  | create b =>
    have h1 := h.has b
    simp only [MemDB.step, Spec.step, MemDB.create]
    cases hw : s.working b with
    | some m => simp_all
    | none =>
      have hb : d.has b = false := by simp_all
      simp only [hb]
      refine ⟨rfl, ?_⟩
      simp only [Bool.false_eq_true, if_false]
      simp only [MemDB.has, Bool.or_eq_false_iff, Option.isSome_eq_false_iff, Option.isNone_iff_eq_none] at hb
      constructor
      · intro b'
        by_cases hbb : b' = b
        · subst hbb; simp [MemDB.has]
        · have := h.has b'; simp_all [MemDB.has]
      · intro b' m hm k
        by_cases hbb : b' = b
        · subst hbb; simp_all [MemDB.get]
        · have := h.get b' m (by simpa [hbb] using hm) k
          simp_all [MemDB.get]
      · exact h.dur
      · constructor
        intro b' p ds hp hds k hk
        by_cases hbb : b' = b
        · subst hbb; simp_all
        · exact h.wf.disj b' p ds (by simpa [hbb] using hp) (by simpa [hbb] using hds) k hk
      · intro b'
        by_cases hbb : b' = b
        · subst hbb; simp [MemDB.has]
        · have := h.pend b'; simp_all [MemDB.has]
  | put b k v =>
    have h1 := h.has b
    have h2 := h.pend b
    simp only [MemDB.step, Spec.step]
    cases hw : s.working b with
    | none => simp_all
    | some m =>
      have hb : d.has b = true := by simp_all
      obtain ⟨d', hput, hhas, hget, hbuck, hwf', hpend'⟩ := put_spec d b k v hb h.wf h.pend
      simp only [hb, hput, Bool.not_true, Bool.false_eq_true, if_false, true_and]
      constructor
      · intro b'; rw [hhas, ← h.has]; by_cases hbb : b' = b <;> simp_all [upd]
      · intro b' m' hm' k'
        rw [hget]
        by_cases hbb : b' = b
        · subst hbb; simp at hm'; subst hm'
          have := h.get b' m hw k'
          by_cases hkk : k' = k <;> simp_all [ExtTreeMap.getElem?_insert] <;> grind
        · have := h.get b' m' (by simpa [hbb] using hm') k'
          simp_all
      · rw [hbuck]; exact h.dur
      · exact hwf'
      · exact hpend'
  | del b k =>
    have h1 := h.has b
    simp only [MemDB.step, Spec.step]
    cases hw : s.working b with
    | none => simp_all
    | some m =>
      have hb : d.has b = true := by simp_all
      obtain ⟨d', hput, hhas, hget, hbuck, hwf', hpend'⟩ := del_spec d b k hb h.wf h.pend
      simp only [hb, hput, Bool.not_true, Bool.false_eq_true, if_false, true_and]
      constructor
      · intro b'; rw [hhas, ← h.has]; by_cases hbb : b' = b <;> simp_all [upd]
      · intro b' m' hm' k'
        rw [hget]
        by_cases hbb : b' = b
        · subst hbb; simp at hm'; subst hm'
          have := h.get b' m hw k'
          by_cases hkk : k' = k <;> simp_all [ExtTreeMap.getElem?_erase] <;> grind
        · have := h.get b' m' (by simpa [hbb] using hm') k'
          simp_all
      · rw [hbuck]; exact h.dur
      · exact hwf'
      · exact hpend'
  | flush =>
    simp only [MemDB.step, Spec.step, true_and]
    have hfb := flush_buckets d h.wf
    constructor
    · intro b
      rw [h.has b, ← (hfb b).1]
      simp [MemDB.has, MemDB.flush]
    · intro b m hm k
      rw [h.get b m hm k]
      have hs : (d.flush.buckets b).isSome = true := by
        rw [(hfb b).1, ← h.has b, hm]; rfl
      obtain ⟨m', hm'⟩ := Option.isSome_iff_exists.mp hs
      rw [← (hfb b).2 m' hm' k]
      simp only [MemDB.get]
      have hp : d.flush.puts b = none := rfl
      have hd : d.flush.dels b = none := rfl
      simp [hp, hd, hm']
    · intro b
      show s.working b = d.flush.buckets b
      cases hw : s.working b with
      | none =>
        have : d.has b = false := by rw [← h.has b, hw]; rfl
        have h2 := (hfb b).1
        rw [this] at h2
        cases hf : d.flush.buckets b with
        | none => rfl
        | some x => simp [hf] at h2
      | some m =>
        have hs : (d.flush.buckets b).isSome = true := by
          rw [(hfb b).1, ← h.has b, hw]; rfl
        obtain ⟨m', hm'⟩ := Option.isSome_iff_exists.mp hs
        rw [hm']
        congr 1
        apply ExtTreeMap.ext_getElem?
        intro k
        rw [h.get b m hw k, (hfb b).2 m' hm' k]
    · constructor; intro b p ds hp; cases hp
    · intro b hb
      left
      simpa [MemDB.has, MemDB.flush] using hb

end Verif.KV
