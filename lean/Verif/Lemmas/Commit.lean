/-
Helper lemmas for C03: cutting the micro-op stream anywhere leaves a durable image that is the
working image at some block boundary; recovery and catch-up.
-/
import Verif.Model.Commit
import Verif.Lemmas.Elements

namespace Verif.Commit
open Verif.Elements

theorem exec_append (s : Sys) (a b : List Micro) : s.exec (a ++ b) = (s.exec a).exec b := by
  simp [Sys.exec, List.foldl_append]

theorem exec_nil (s : Sys) : s.exec [] = s := rfl

theorem exec_cons (s : Sys) (m : Micro) (ms : List Micro) : s.exec (m :: ms) = (s.micro m).exec ms := rfl

/-- a non-flush micro-op leaves the durable image alone and acts on the working image -/
theorem micro_durable (s : Sys) (m : Micro) (h : m ≠ .flush) :
    (s.micro m).durable = s.durable ∧ (s.micro m).working = microNode s.working m := by
  cases m <;> first | exact absurd rfl h | exact ⟨rfl, rfl⟩

theorem micro_flush (s : Sys) : (s.micro .flush).durable = s.working ∧ (s.micro .flush).working = s.working :=
  ⟨rfl, rfl⟩

/-- after the whole micro sequence of one block-level operation the working image is the
block-level step, and the durable image is either untouched or that same image -/
theorem exec_compile1 (s : Sys) (op : BOp) :
    (s.exec (compile1 op)).working = blockStep s.working op ∧
    ((s.exec (compile1 op)).durable = s.durable ∨ (s.exec (compile1 op)).durable = blockStep s.working op) := by
  cases op with
  | apply b f => cases f <;> simp [compile1, Sys.exec, Sys.micro, blockStep]
  | revert f => cases f <;> simp [compile1, Sys.exec, Sys.micro, blockStep]
  | flush => simp [compile1, Sys.exec, Sys.micro, blockStep]

/-- cutting inside the micro sequence of one block-level operation: the durable image is the
old one, or — only once the trailing flush has run — the image after the whole operation -/
theorem exec_take_compile1 (s : Sys) (op : BOp) (k : Nat) :
    (s.exec ((compile1 op).take k)).durable = s.durable ∨
    (s.exec ((compile1 op).take k)).durable = blockStep s.working op := by
  cases op with
  | apply b f =>
    cases f
    · match k with
      | 0 | 1 | 2 => left; simp [compile1, Sys.exec, Sys.micro]
      | k + 3 => left; simp [compile1, Sys.exec, Sys.micro]
    · match k with
      | 0 | 1 | 2 | 3 => left; simp [compile1, Sys.exec, Sys.micro]
      | k + 4 => right; simp [compile1, Sys.exec, Sys.micro, blockStep]
  | revert f =>
    cases f
    · match k with
      | 0 | 1 => left; simp [compile1, Sys.exec, Sys.micro]
      | k + 2 => left; simp [compile1, Sys.exec, Sys.micro]
    · match k with
      | 0 | 1 | 2 => left; simp [compile1, Sys.exec, Sys.micro]
      | k + 3 => right; simp [compile1, Sys.exec, Sys.micro, blockStep]
  | flush =>
    match k with
    | 0 => left; simp [compile1, Sys.exec]
    | k + 1 => right; simp [compile1, Sys.exec, Sys.micro, blockStep]

theorem boundaries_head (n : Node) (ops : List BOp) : n ∈ boundaries n ops := by
  cases ops <;> simp [boundaries]

theorem boundaries_tail (n : Node) (op : BOp) (ops : List BOp) :
    ∀ x, x ∈ boundaries (blockStep n op) ops → x ∈ boundaries n (op :: ops) := by
  intro x hx; simp [boundaries, hx]

/-- the cut theorem, generalised over the starting state and a set `B` of acceptable images -/
theorem durable_mem_boundaries (ops : List BOp) : ∀ (s : Sys) (k : Nat) (B : Node → Prop),
    B s.durable → (∀ x, x ∈ boundaries s.working ops → B x) →
    B (s.exec ((compile ops).take k)).durable := by
  induction ops with
  | nil => intro s k B hd _; simpa [compile, Sys.exec] using hd
  | cons op ops ih =>
    intro s k B hd hb
    have hc : compile (op :: ops) = compile1 op ++ compile ops := by simp [compile]
    rw [hc, List.take_append]
    rw [exec_append]
    by_cases hk : k ≤ (compile1 op).length
    · -- the cut is inside (or right after) this operation
      have h0 : k - (compile1 op).length = 0 := by omega
      rw [h0, List.take_zero, exec_nil]
      rcases exec_take_compile1 s op k with h | h
      · rw [h]; exact hd
      · rw [h]; exact hb _ (boundaries_tail _ _ _ _ (boundaries_head _ _))
    · have hfull : (compile1 op).take k = compile1 op := List.take_of_length_le (by omega)
      rw [hfull]
      have hw := exec_compile1 s op
      apply ih
      · rcases hw.2 with h | h
        · rw [h]; exact hd
        · rw [h]; exact hb _ (boundaries_tail _ _ _ _ (boundaries_head _ _))
      · intro x hx
        rw [hw.1] at hx
        exact hb x (boundaries_tail _ _ _ _ hx)

theorem mem_boundaries_iff (ops : List BOp) : ∀ (n x : Node),
    x ∈ boundaries n ops ↔ ∃ j, j ≤ ops.length ∧ x = blockRun n (ops.take j) := by
  induction ops with
  | nil =>
    intro n x
    simp only [boundaries, List.mem_singleton, List.length_nil, Nat.le_zero_eq]
    constructor
    · intro h; exact ⟨0, rfl, by simp [blockRun, h]⟩
    · rintro ⟨j, hj, h⟩; subst hj; simpa [blockRun] using h
  | cons op ops ih =>
    intro n x
    simp only [boundaries, List.mem_cons, List.length_cons]
    constructor
    · rintro (h | h)
      · exact ⟨0, by omega, by simp [blockRun, h]⟩
      · obtain ⟨j, hj, hx⟩ := (ih _ _).mp h
        exact ⟨j + 1, by omega, by simp [blockRun, hx]⟩
    · rintro ⟨j, hj, hx⟩
      cases j with
      | zero => left; simpa [blockRun] using hx
      | succ j =>
        right
        exact (ih _ _).mpr ⟨j, by omega, by simpa [blockRun] using hx⟩

/-! ### the block-level step is the M3 node step -/

theorem applyTip_eq_blockStep (n n' : Node) (b : Nat) (f : Bool) (h : n.applyTip b = some n') :
    blockStep n (.apply b f) = n' := by
  unfold Node.applyTip at h
  by_cases hc : (n.U b).parent ≠ n.tip ∨ (n.U b).height ≠ n.store.height + 1
  · simp [hc] at h
  · simp only [hc, if_false] at h
    injection h with h
    subst h
    simp only [blockStep, microNode, diffsFor, set_same]
    unfold applyBlock applyBlockPanics
    by_cases hh : (n.U b).height ≤ n.req
    · simp only [hh, if_true, decide_true, Bool.true_and]; rfl
    · simp only [hh, if_false, decide_false, Bool.false_and, Bool.or_false]; rfl

theorem revertTip_eq_blockStep (n n' : Node) (f : Bool) (h : n.revertTip = some n') :
    blockStep n (.revert f) = n' := by
  unfold Node.revertTip at h
  split at h
  · cases h
  · split at h
    · cases h
    · rename_i ds hds
      injection h with h
      subst h
      simp only [blockStep, microNode, diffsFor, hds]
      unfold revertBlock revertBlockPanics
      by_cases hh : n.store.height - 1 ≤ n.req <;> simp [hh, revertDiffs_index]

/-- the block-level operations of a history as M3 operations (`flush` is not one) -/
def toOps (ops : List BOp) : List Elements.Op := ops.filterMap BOp.toOp

theorem run_eq_blockRun (ops : List BOp) : ∀ (n n' : Node), n.run (toOps ops) = some n' → blockRun n ops = n' := by
  induction ops with
  | nil => intro n n' h; simpa [toOps, Node.run, blockRun] using h
  | cons op ops ih =>
    intro n n' h
    cases op with
    | apply b f =>
      simp only [toOps, List.filterMap_cons, BOp.toOp, Node.run, Node.step] at h
      cases hs : n.applyTip b with
      | none => rw [hs] at h; cases h
      | some n1 =>
        rw [hs] at h
        simp only [blockRun, List.foldl_cons, applyTip_eq_blockStep n n1 b f hs]
        exact ih n1 n' h
    | revert f =>
      simp only [toOps, List.filterMap_cons, BOp.toOp, Node.run, Node.step] at h
      cases hs : n.revertTip with
      | none => rw [hs] at h; cases h
      | some n1 =>
        rw [hs] at h
        simp only [blockRun, List.foldl_cons, revertTip_eq_blockStep n n1 f hs]
        exact ih n1 n' h
    | flush =>
      simp only [toOps, List.filterMap_cons, BOp.toOp] at h
      simp only [blockRun, List.foldl_cons, blockStep]
      exact ih n n' h

/-- a prefix of a successful run is a successful run -/
theorem run_take (ops : List BOp) : ∀ (n n' : Node) (j : Nat), n.run (toOps ops) = some n' →
    ∃ m, n.run (toOps (ops.take j)) = some m := by
  induction ops with
  | nil => intro n n' j _; exact ⟨n, by simp [toOps, Node.run]⟩
  | cons op ops ih =>
    intro n n' j h
    cases j with
    | zero => exact ⟨n, by simp [toOps, Node.run]⟩
    | succ j =>
      cases op with
      | apply b f =>
        simp only [toOps, List.filterMap_cons, BOp.toOp, Node.run, Node.step] at h
        cases hs : n.applyTip b with
        | none => rw [hs] at h; cases h
        | some n1 =>
          rw [hs] at h
          obtain ⟨m, hm⟩ := ih n1 n' j h
          exact ⟨m, by simp only [List.take_succ_cons, toOps, List.filterMap_cons, BOp.toOp, Node.run, Node.step, hs]; exact hm⟩
      | revert f =>
        simp only [toOps, List.filterMap_cons, BOp.toOp, Node.run, Node.step] at h
        cases hs : n.revertTip with
        | none => rw [hs] at h; cases h
        | some n1 =>
          rw [hs] at h
          obtain ⟨m, hm⟩ := ih n1 n' j h
          exact ⟨m, by simp only [List.take_succ_cons, toOps, List.filterMap_cons, BOp.toOp, Node.run, Node.step, hs]; exact hm⟩
      | flush =>
        simp only [toOps, List.filterMap_cons, BOp.toOp] at h
        obtain ⟨m, hm⟩ := ih n n' j h
        exact ⟨m, by simp only [List.take_succ_cons, toOps, List.filterMap_cons, BOp.toOp]; exact hm⟩

theorem revertsStable_take (req : Nat) (U : Nat → BlkInfo) (ops : List BOp) : ∀ (n : Node) (j : Nat),
    RevertsStable req U n (toOps ops) → RevertsStable req U n (toOps (ops.take j)) := by
  induction ops with
  | nil => intro n j h; simpa using h
  | cons op ops ih =>
    intro n j h
    cases j with
    | zero => simp [toOps, RevertsStable]
    | succ j =>
      cases op with
      | apply b f =>
        simp only [List.take_succ_cons, toOps, List.filterMap_cons, BOp.toOp, RevertsStable] at h ⊢
        refine ⟨h.1, ?_⟩
        cases hs : n.step (.apply b) with
        | none => trivial
        | some n1 => have h2 := h.2; rw [hs] at h2; exact ih n1 j h2
      | revert f =>
        simp only [List.take_succ_cons, toOps, List.filterMap_cons, BOp.toOp, RevertsStable] at h ⊢
        refine ⟨h.1, ?_⟩
        cases hs : n.step .revert with
        | none => trivial
        | some n1 => have h2 := h.2; rw [hs] at h2; exact ih n1 j h2
      | flush =>
        simp only [List.take_succ_cons, toOps, List.filterMap_cons, BOp.toOp] at h ⊢
        exact ih n j h

end Verif.Commit
