/-
Helper lemmas for M8 (`Model/RhpClient.lean`): arithmetic of the price table, `pay`, the
index normalisation of `RPCFreeSectors`, and the reference semantics of a batch free.
-/
import Verif.Model.RhpClient

namespace Verif.RhpClient

/-! ### `round4KiB` and costs are monotone -/

theorem round4KiB_mono {a b : Nat} (h : a ≤ b) : round4KiB a ≤ round4KiB b := by
  unfold round4KiB
  exact Nat.mul_le_mul_right _ (Nat.div_le_div_right (by omega))

theorem appendCost_mono (p : Prices) (d : Nat) {a b : Nat} (h : a ≤ b) :
    (appendCost p a d).renterCost ≤ (appendCost p b d).renterCost := by
  simp only [appendCost, Usage.renterCost]
  have h1 : p.storage * sectorSize * a * d ≤ p.storage * sectorSize * b * d :=
    Nat.mul_le_mul_right _ (Nat.mul_le_mul_left _ h)
  have h2 : p.ingress * round4KiB (32 * a) ≤ p.ingress * round4KiB (32 * b) :=
    Nat.mul_le_mul_left _ (round4KiB_mono (by omega))
  omega


/-! ### the `Res` sequencing: a call succeeds iff every step does -/

section
variable {α β : Type}

@[simp] theorem bind_ok_iff {x : Res α} {f : α → Res β} {b : β} :
    (x >>= f) = .ok b ↔ ∃ a, x = .ok a ∧ f a = .ok b := by
  cases x <;> simp [Bind.bind, Res.bind]

@[simp] theorem pure_ok_iff {a b : α} : (pure a : Res α) = .ok b ↔ a = b := by
  simp [pure]

@[simp] theorem check_ok_iff {b : Bool} {u : Unit} : check b = .ok u ↔ b = true := by
  cases b <;> simp [check]

@[simp] theorem ofOption_ok_iff {o : Option α} {a : α} : ofOption o = .ok a ↔ o = some a := by
  cases o <;> simp [ofOption]

theorem bind_crash_iff {x : Res α} {f : α → Res β} :
    (x >>= f) = .crash ↔ x = .crash ∨ ∃ a, x = .ok a ∧ f a = .crash := by
  cases x <;> simp [Bind.bind, Res.bind]

@[simp] theorem check_ne_crash {b : Bool} : check b ≠ .crash := by
  cases b <;> simp [check]

@[simp] theorem ofOption_ne_crash {o : Option α} : ofOption o ≠ .crash := by
  cases o <;> simp [ofOption]

@[simp] theorem pure_ne_crash {a : α} : (pure a : Res α) ≠ .crash := by simp [pure]

end

section
variable {ρ π σ : Type}

macro "expect_tac" : tactic => `(tactic| (
  split
  · simp [Prod.ext_iff, eq_comm, and_assoc]
  · rename_i hx; simp only [reduceCtorEq, false_iff]; intro h; apply hx; exact h))

@[simp] theorem expectReadResp_ok {msgs : List (Msg ρ π σ)} {r} :
    expectReadResp msgs = .ok r ↔ msgs = .readResp r.1 r.2.1 :: r.2.2 := by
  unfold expectReadResp; expect_tac
@[simp] theorem expectWriteResp_ok {msgs : List (Msg ρ π σ)} {r} :
    expectWriteResp msgs = .ok r ↔ msgs = .writeResp r.1 :: r.2 := by
  unfold expectWriteResp; expect_tac
@[simp] theorem expectVerifyResp_ok {msgs : List (Msg ρ π σ)} {r} :
    expectVerifyResp msgs = .ok r ↔ msgs = .verifyResp r.1 r.2.1 :: r.2.2 := by
  unfold expectVerifyResp; expect_tac
@[simp] theorem expectFreeResp_ok {msgs : List (Msg ρ π σ)} {r} :
    expectFreeResp msgs = .ok r ↔ msgs = .freeResp r.1 r.2.1 r.2.2.1 :: r.2.2.2 := by
  unfold expectFreeResp; expect_tac
@[simp] theorem expectAppendResp_ok {msgs : List (Msg ρ π σ)} {r} :
    expectAppendResp msgs = .ok r ↔ msgs = .appendResp r.1 r.2.1 r.2.2.1 :: r.2.2.2 := by
  unfold expectAppendResp; expect_tac
@[simp] theorem expectHostSig_ok {msgs : List (Msg ρ π σ)} {r} :
    expectHostSig msgs = .ok r ↔ msgs = .hostSig r.1 :: r.2 := by
  unfold expectHostSig; expect_tac
@[simp] theorem expectFundResp_ok {msgs : List (Msg ρ π σ)} {r} :
    expectFundResp msgs = .ok r ↔ msgs = .fundResp r.1 r.2.1 :: r.2.2 := by
  unfold expectFundResp; expect_tac
@[simp] theorem expectReplenishResp_ok {msgs : List (Msg ρ π σ)} {r} :
    expectReplenishResp msgs = .ok r ↔ msgs = .replenishResp r.1 :: r.2 := by
  unfold expectReplenishResp; expect_tac
@[simp] theorem expectRootsResp_ok {msgs : List (Msg ρ π σ)} {r} :
    expectRootsResp msgs = .ok r ↔ msgs = .rootsResp r.1 r.2.1 r.2.2.1 :: r.2.2.2 := by
  unfold expectRootsResp; expect_tac

theorem rootsCount_ok {cfg : Cfg} {b : Bool} {u : Unit} : rootsCount cfg b = .ok u ↔ b = true := by
  cases b <;> simp [rootsCount]; split <;> simp

end

/-! ### `pay` -/

section
variable {ρ σ : Type}

theorem pay_some {fc rev : Rev ρ σ} {u : Usage} (h : pay fc u = some rev) :
    u.renterCost ≤ fc.renterOut ∧ u.risked ≤ fc.missedHost ∧
    rev = { fc with
      revNum := fc.revNum + 1
      renterOut := fc.renterOut - u.renterCost
      hostOut := fc.hostOut + u.renterCost
      missedHost := fc.missedHost - u.risked
      renterSig := none
      hostSig := none } := by
  unfold pay at h
  split at h
  · cases h
  · split at h
    · cases h
    · cases h
      refine ⟨by omega, by omega, rfl⟩

@[simp] theorem unsigned_setHostSig (r : Rev ρ σ) (s : Option σ) :
    ({ r with hostSig := s } : Rev ρ σ).unsigned = r.unsigned := rfl

@[simp] theorem unsigned_unsigned (r : Rev ρ σ) : r.unsigned.unsigned = r.unsigned := rfl

end

/-! ### normalisation of free indices -/

theorem insertDesc_length (x : Nat) (l : List Nat) : (insertDesc x l).length ≤ l.length + 1 := by
  induction l with
  | nil => simp [insertDesc]
  | cons y ys ih =>
    simp only [insertDesc]
    split
    · simp
    · split
      · simp
      · simp only [List.length_cons]; omega

theorem normalize_length (l : List Nat) : (normalize l).length ≤ l.length := by
  induction l with
  | nil => simp [normalize]
  | cons x xs ih =>
    have := insertDesc_length x (normalize xs)
    simp only [normalize, List.foldr_cons, List.length_cons] at *
    omega

theorem insertDesc_mem (x : Nat) (l : List Nat) (z : Nat) :
    z ∈ insertDesc x l ↔ z = x ∨ z ∈ l := by
  induction l with
  | nil => simp [insertDesc]
  | cons y ys ih =>
    simp only [insertDesc]
    split
    · simp
    · split
      · rename_i h; subst h; simp
      · simp only [List.mem_cons, ih]
        constructor
        · rintro (h | h | h) <;> simp [h]
        · rintro (h | h | h) <;> simp [h]

theorem normalize_mem (l : List Nat) (z : Nat) : z ∈ normalize l ↔ z ∈ l := by
  induction l with
  | nil => simp [normalize]
  | cons x xs ih =>
    have : normalize (x :: xs) = insertDesc x (normalize xs) := rfl
    rw [this, insertDesc_mem, ih]; simp

/-- strictly descending -/
def Desc : List Nat → Prop
  | [] => True
  | [_] => True
  | a :: b :: t => a > b ∧ Desc (b :: t)

theorem insertDesc_desc (x : Nat) (l : List Nat) (h : Desc l) : Desc (insertDesc x l) := by
  induction l with
  | nil => simp [insertDesc, Desc]
  | cons y ys ih =>
    simp only [insertDesc]
    split
    · exact ⟨by assumption, h⟩
    · split
      · exact h
      · rename_i h1 h2
        have hlt : y > x := by omega
        cases ys with
        | nil => simp [insertDesc, Desc, hlt]
        | cons z zs =>
          have hd : Desc (z :: zs) := h.2
          have := ih hd
          simp only [insertDesc] at this ⊢
          split
          · exact ⟨hlt, by assumption, hd⟩
          · split
            · exact h
            · rename_i h3 h4
              rw [if_neg h3, if_neg h4] at this
              exact ⟨h.1, this⟩

theorem normalize_desc (l : List Nat) : Desc (normalize l) := by
  induction l with
  | nil => simp [normalize, Desc]
  | cons x xs ih => exact insertDesc_desc x _ ih

/-- a strictly descending list of naturals below `n` has at most `n` elements -/
theorem desc_length_le : ∀ (l : List Nat) (n : Nat), Desc l → (∀ x ∈ l, x < n) → l.length ≤ n
  | [], _, _, _ => by simp
  | [a], n, _, hb => by have := hb a (by simp); simp; omega
  | a :: b :: t, n, hd, hb => by
    have ha := hb a (by simp)
    have := desc_length_le (b :: t) a hd.2 (by
      intro x hx
      have hdt := hd.2
      -- every element of a descending list is ≤ its head
      have : ∀ (l : List Nat) (h : Nat), Desc (h :: l) → ∀ y ∈ (h :: l), y ≤ h := by
        intro l
        induction l with
        | nil => intro h _ y hy; simp at hy; omega
        | cons c cs ih =>
          intro h hdc y hy
          simp only [List.mem_cons] at hy
          rcases hy with rfl | hy
          · omega
          · have := ih c hdc.2 y (by simpa using hy)
            have := hdc.1
            omega
      have := this t b hdt x hx
      have := hd.1
      omega)
    simp only [List.length_cons] at *
    omega

theorem normalize_length_le_of_bounded (l : List Nat) (n : Nat) (h : ∀ x ∈ l, x < n) :
    (normalize l).length ≤ n :=
  desc_length_le _ n (normalize_desc l) (fun x hx => h x ((normalize_mem l x).mp hx))

/-! ### sector counts (stated once so that no proof unfolds the 4 MiB literal) -/

theorem numSectors_ceil (n : Nat) : (sectorSize * n + sectorSize - 1) / sectorSize = n := by
  simp only [sectorSize]; omega

theorem numSectors_floor (n : Nat) : sectorSize * n / sectorSize = n := by
  simp only [sectorSize]; omega

/-! ### 64-bit subtraction is exact when it does not wrap -/

theorem sub64_exact {a b : Nat} (ha : a < 2 ^ 64) (hb : b ≤ a) : sub64 a b = a - b := by
  unfold sub64
  have : b % 2 ^ 64 = b := Nat.mod_eq_of_lt (by omega)
  rw [this]
  omega

/-! ### accepted sub-list and deposit totals -/

section
variable {ρ : Type}
theorem acceptedRoots_length_le (roots : List ρ) (acc : List Bool) :
    (acceptedRoots roots acc).length ≤ roots.length := by
  induction roots generalizing acc with
  | nil => simp [acceptedRoots]
  | cons r rs ih =>
    cases acc with
    | nil => simp [acceptedRoots]
    | cons b bs =>
      simp only [acceptedRoots]
      split
      · simp only [List.length_cons]; have := ih bs; omega
      · simp only [List.length_cons]; have := ih bs; omega
end

theorem total_le_of_all_le (ds : List (Nat × Nat)) (t : Nat)
    (h : ds.any (fun d => decide (d.2 > t)) = false) : total ds ≤ t * ds.length := by
  induction ds with
  | nil => simp [total]
  | cons d ds ih =>
    simp only [List.any_cons, Bool.or_eq_false_iff, decide_eq_false_iff_not] at h
    have := ih h.2
    simp only [total, List.map_cons, List.sum_cons, List.length_cons] at *
    rw [Nat.mul_add]
    omega

end Verif.RhpClient
