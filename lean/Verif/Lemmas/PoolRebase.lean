/-
Rebasing a v2 transaction set along a revert/apply path (`updateV2TransactionProofs`): what comes
out, in which order, with which leaf indices (C13).  Core only.
-/
import Verif.Lemmas.PoolFrame

namespace Verif.Pool

/-! ## the two legs as closed forms -/

/-- ids of the v2 transactions confirmed by the blocks of the apply leg -/
def confirmedIds (app : List Blk) : List Nat := app.flatMap fun b => b.v2txns.map (·.id)

/-- what the apply leg does to one input: block after block, an ephemeral input whose element the
block created gets that element's leaf -/
def confirmSeq : List Blk → Inp → Inp
  | [], i => i
  | b :: bs, i => confirmSeq bs (confirmInp b.created i)

theorem foldOpt_none {α β} (f : α → β → Option α) (bs : List β) : foldOpt f none bs = none := by
  cases bs <;> rfl

theorem revertLeg_eq (ts : List Txn) : ∀ (rev : List Blk),
    foldOpt rebaseRevert (some ts) rev =
      if rev.all (fun b => ts.all (proofsOk b.leavesBefore)) then some ts else none
  | [] => by simp [foldOpt]
  | b :: rev => by
    rw [foldOpt]
    unfold rebaseRevert
    by_cases h : ts.all (proofsOk b.leavesBefore) = true
    · simp only [h, if_true, List.all_cons, Bool.true_and]
      exact revertLeg_eq ts rev
    · simp only [h, Bool.false_eq_true, if_false, List.all_cons, Bool.false_and, foldOpt_none]

theorem mapInputs_comp (f g : Inp → Inp) (t : Txn) : mapInputs f (mapInputs g t) = mapInputs (f ∘ g) t := by
  simp [mapInputs, List.map_map]

@[simp] theorem mapInputs_id' (t : Txn) : (mapInputs f t).id = t.id := rfl

theorem applyLeg_result : ∀ (app : List Blk) (ts out : List Txn),
    foldOpt rebaseApply (some ts) app = some out →
    out = (ts.filter fun t => !(confirmedIds app).contains t.id).map (mapInputs (confirmSeq app))
  | [], ts, out, h => by
    simp only [foldOpt, Option.some.injEq] at h
    subst h
    have : (mapInputs (confirmSeq [])) = fun t => t := by
      funext t; simp [mapInputs, confirmSeq]
    rw [this]
    simp only [confirmedIds, List.flatMap_nil, List.contains_nil, Bool.not_false, List.map_id']
    exact (List.filter_eq_self.2 (fun _ _ => rfl)).symm
  | b :: bs, ts, out, h => by
    rw [foldOpt] at h
    unfold rebaseApply at h
    simp only at h
    split at h
    · have ih := applyLeg_result bs _ out h
      rw [ih]
      simp only [List.filter_map, List.map_map, List.filter_filter]
      congr 1
      · funext t
        simp [mapInputs_comp, confirmSeq, Function.comp_def]
      · apply List.filter_congr
        intro t _
        simp only [Function.comp, mapInputs_id', confirmedIds, List.flatMap_cons, List.contains_eq_mem,
          List.mem_append, List.mem_map, List.mem_flatMap, decide_not, Bool.decide_or, Bool.not_or,
          Bool.and_comm]
    · rw [foldOpt_none] at h; cases h

/-- **what a successful rebase returns**: the transactions that were not confirmed on the apply leg,
in their original order, each with its inputs passed through the apply leg -/
theorem rebase_result (cfg : Cfg) (ts : List Txn) (rev app : List Blk) (out : List Txn)
    (h : rebase cfg ts (some (rev, app)) = some out) :
    out = (ts.filter fun t => !(confirmedIds app).contains t.id).map (mapInputs (confirmSeq app)) := by
  unfold rebase at h
  simp only at h
  split at h
  · cases h
  · split at h
    · cases h
    · rw [revertLeg_eq] at h
      split at h
      · exact applyLeg_result app ts out h
      · rw [foldOpt_none] at h; cases h

/-- … and when it refuses -/
theorem rebase_none_of_bad (cfg : Cfg) (ts : List Txn) (path : List Blk × List Blk)
    (h : ts.all basisOk = false) : rebase cfg ts (some path) = none := by
  simp [rebase, h]

theorem rebase_none_of_long (cfg : Cfg) (ts : List Txn) (rev app : List Blk)
    (h : cfg.maxReorg < rev.length + app.length) : rebase cfg ts (some (rev, app)) = none := by
  unfold rebase
  simp only
  split
  · rfl
  · rfl

theorem rebase_none_of_vanished (cfg : Cfg) (ts : List Txn) (rev app : List Blk) (b : Blk) (hb : b ∈ rev)
    (t : Txn) (ht : t ∈ ts) (hv : proofsOk b.leavesBefore t = false) : rebase cfg ts (some (rev, app)) = none := by
  unfold rebase
  simp only
  split
  · rfl
  · split
    · rfl
    · rw [revertLeg_eq]
      have : (rev.all fun b => ts.all (proofsOk b.leavesBefore)) = false := by
        rw [List.all_eq_false]
        refine ⟨b, hb, ?_⟩
        rw [Bool.not_eq_true, List.all_eq_false]
        exact ⟨t, ht, by simp [hv]⟩
      simp [this, foldOpt_none]

theorem confirmSeq_elem : ∀ (app : List Blk) (i : Inp), (confirmSeq app i).elem = i.elem
  | [], _ => rfl
  | b :: bs, i => by rw [confirmSeq, confirmSeq_elem bs, confirmInp_elem]

/-! ## leaf indices along the path -/

/-- the ledger after walking the path -/
def ledgerAlong (l : Ledger) (rev app : List Blk) : Ledger := app.foldl Ledger.apply (rev.foldl Ledger.revert l)

/-- a reverted block is consistent with the ledger it is reverted from: what it created lies at or
beyond its parent's leaf count and, if still unspent, is in the ledger with that leaf; what it
spent is not in the ledger -/
def RevWF (l : Ledger) (b : Blk) : Prop :=
  (∀ p ∈ b.created, b.leavesBefore ≤ p.2 ∧ (l.leafOf p.1 = some p.2 ∨ l.leafOf p.1 = none)) ∧
  (∀ p ∈ b.spent, l.leafOf p.1 = none)

/-- an applied block creates elements the ledger does not hold yet -/
def AppWF (l : Ledger) (b : Blk) : Prop := ∀ p ∈ b.created, l.leafOf p.1 = none

def RevPathWF : Ledger → List Blk → Prop
  | _, [] => True
  | l, b :: bs => RevWF l b ∧ RevPathWF (l.revert b) bs

def AppPathWF : Ledger → List Blk → Prop
  | _, [] => True
  | l, b :: bs => AppWF l b ∧ AppPathWF (l.apply b) bs

/-- every carried leaf index is the ledger's -/
def LeafOK (l : Ledger) (ts : List Txn) : Prop :=
  ∀ t ∈ ts, ∀ i ∈ t.inputs, ∀ lf, i.leaf = some lf → l.leafOf i.elem = some lf

theorem mem_ids_iff {l : List (Nat × Nat)} {e : Nat} : e ∈ ids l ↔ ∃ p ∈ l, p.1 = e := by
  simp [ids]

theorem leafOf_revert (l : Ledger) (b : Blk) (e : Nat) (h1 : e ∉ ids b.spent) (h2 : e ∉ ids b.created) :
    (l.revert b).leafOf e = l.leafOf e := by
  unfold Ledger.leafOf Ledger.revert
  simp only
  rw [lookup_filter_key, lookup_append_right_none _ _ _ h1]
  intro p _ hp
  simp only [Bool.not_eq_true', List.contains_eq_mem, decide_eq_false_iff_not]
  rw [hp]; exact h2

theorem LeafOK.revert {l : Ledger} {ts : List Txn} (h : LeafOK l ts) (b : Blk) (hw : RevWF l b)
    (hp : ts.all (proofsOk b.leavesBefore) = true) : LeafOK (l.revert b) ts := by
  intro t ht i hi lf hlf
  have hl := h t ht i hi lf hlf
  have hlt : lf < b.leavesBefore := by
    have := List.all_eq_true.1 hp t ht
    unfold proofsOk at this
    have := List.all_eq_true.1 this i hi
    simpa [hlf] using this
  rw [leafOf_revert]
  · exact hl
  · intro hm
    obtain ⟨p, hp', e⟩ := mem_ids_iff.1 hm
    have := hw.2 p hp'
    rw [e, hl] at this; cases this
  · intro hm
    obtain ⟨p, hp', e⟩ := mem_ids_iff.1 hm
    obtain ⟨h1, h2⟩ := hw.1 p hp'
    rw [e, hl] at h2
    rcases h2 with h2 | h2
    · have := Option.some.inj h2; omega
    · cases h2

theorem lookup_append_left_some (e v : Nat) : ∀ (xs ys : List (Nat × Nat)), xs.lookup e = some v →
    (xs ++ ys).lookup e = some v
  | [], _, h => by cases h
  | (k, w) :: xs, ys, h => by
    simp only [List.cons_append, List.lookup] at h ⊢
    cases hk : (e == k)
    · rw [hk] at h; exact lookup_append_left_some e v xs ys h
    · rw [hk] at h; exact h

theorem lookup_append_left_none (e : Nat) : ∀ (xs ys : List (Nat × Nat)), xs.lookup e = none →
    (xs ++ ys).lookup e = ys.lookup e
  | [], _, _ => rfl
  | (k, w) :: xs, ys, h => by
    simp only [List.cons_append, List.lookup] at h ⊢
    cases hk : (e == k)
    · rw [hk] at h; exact lookup_append_left_none e xs ys h
    · rw [hk] at h; cases h

theorem leafOf_apply_kept (l : Ledger) (b : Blk) (e lf : Nat) (h : l.leafOf e = some lf) (hs : e ∉ ids b.spent) :
    (l.apply b).leafOf e = some lf := by
  unfold Ledger.leafOf Ledger.apply at *
  simp only
  rw [lookup_filter_key]
  · exact lookup_append_left_some e lf _ _ h
  · intro p _ hp
    simp only [Bool.not_eq_true', List.contains_eq_mem, decide_eq_false_iff_not]
    rw [hp]; exact hs

theorem leafOf_apply_created (l : Ledger) (b : Blk) (e lf : Nat) (hn : l.leafOf e = none)
    (hc : b.created.lookup e = some lf) (hs : e ∉ ids b.spent) : (l.apply b).leafOf e = some lf := by
  unfold Ledger.leafOf Ledger.apply at *
  simp only
  rw [lookup_filter_key]
  · rw [lookup_append_left_none e _ _ hn]; exact hc
  · intro p _ hp
    simp only [Bool.not_eq_true', List.contains_eq_mem, decide_eq_false_iff_not]
    rw [hp]; exact hs

theorem lookup_some_mem (e v : Nat) : ∀ (xs : List (Nat × Nat)), xs.lookup e = some v → (e, v) ∈ xs
  | [], h => by cases h
  | (k, w) :: xs, h => by
    simp only [List.lookup] at h
    cases hk : (e == k)
    · rw [hk] at h; exact List.mem_cons_of_mem _ (lookup_some_mem e v xs h)
    · rw [hk] at h
      have : e = k := by simpa using hk
      cases h; subst this; exact List.mem_cons_self

/-- one block of the apply leg: the transactions that stay keep (or get) the ledger's leaves,
provided none of their inputs is spent by the block -/
theorem LeafOK.apply {l : Ledger} {ts : List Txn} (h : LeafOK l ts) (b : Blk) (hw : AppWF l b)
    (hs : ∀ t ∈ ts, ∀ i ∈ t.inputs, i.elem ∉ ids b.spent) :
    LeafOK (l.apply b) (ts.map (mapInputs (confirmInp b.created))) := by
  intro t' ht' i' hi' lf hlf
  obtain ⟨t, ht, rfl⟩ := List.mem_map.1 ht'
  simp only [mapInputs, List.mem_map] at hi'
  obtain ⟨i, hi, rfl⟩ := hi'
  have hsp := hs t ht i hi
  unfold confirmInp at hlf ⊢
  cases hleaf : i.leaf with
  | some lf0 =>
    simp only [hleaf] at hlf ⊢
    exact leafOf_apply_kept l b _ _ (h t ht i hi lf (hlf ▸ hleaf)) hsp
  | none =>
    simp only [hleaf] at hlf ⊢
    cases hc : b.created.lookup i.elem with
    | none => simp only [hc] at hlf; rw [hleaf] at hlf; cases hlf
    | some lf1 =>
      simp only [hc] at hlf ⊢
      cases hlf
      have hm := lookup_some_mem _ _ _ hc
      exact leafOf_apply_created l b _ _ (hw _ hm) hc hsp

theorem LeafOK.sub {l : Ledger} {ts ts' : List Txn} (h : LeafOK l ts) (hs : ∀ t ∈ ts', t ∈ ts) : LeafOK l ts' :=
  fun t ht => h t (hs t ht)

theorem revertLeg_leafOK : ∀ (rev : List Blk) (l : Ledger) (ts : List Txn), LeafOK l ts → RevPathWF l rev →
    (rev.all fun b => ts.all (proofsOk b.leavesBefore)) = true → LeafOK (rev.foldl Ledger.revert l) ts
  | [], _, _, h, _, _ => h
  | b :: rev, l, ts, h, hw, ha => by
    simp only [List.all_cons, Bool.and_eq_true] at ha
    exact revertLeg_leafOK rev (l.revert b) ts (h.revert b hw.1 ha.1) hw.2 ha.2

theorem applyLeg_leafOK : ∀ (app : List Blk) (l : Ledger) (S : List Txn), LeafOK l S → AppPathWF l app →
    (∀ b ∈ app, ∀ t ∈ S, ∀ i ∈ t.inputs, i.elem ∉ ids b.spent) →
    LeafOK (app.foldl Ledger.apply l) (S.map (mapInputs (confirmSeq app)))
  | [], l, S, h, _, _ => by
    have : (mapInputs (confirmSeq [])) = fun t => t := by funext t; simp [mapInputs, confirmSeq]
    rw [this]; simpa using h
  | b :: bs, l, S, h, hw, hs => by
    have h1 := h.apply b hw.1 (hs b (by simp))
    have h2 := applyLeg_leafOK bs (l.apply b) _ h1 hw.2 (by
      intro b' hb' t' ht' i' hi'
      obtain ⟨t, ht, rfl⟩ := List.mem_map.1 ht'
      simp only [mapInputs, List.mem_map] at hi'
      obtain ⟨i, hi, rfl⟩ := hi'
      rw [confirmInp_elem]
      exact hs b' (by simp [hb']) t ht i hi)
    simp only [List.foldl_cons]
    have : (S.map (mapInputs (confirmInp b.created))).map (mapInputs (confirmSeq bs)) = S.map (mapInputs (confirmSeq (b :: bs))) := by
      rw [List.map_map]
      apply List.map_congr_left
      intro t _
      simp [mapInputs_comp, confirmSeq, Function.comp_def]
    rw [this] at h2
    exact h2

/-- **leaf indices after a rebase**: if core's verifier is sound at the basis (an accepted proof
means the ledger at the basis holds the element at that leaf), the path's blocks are consistent with
the ledgers they are reverted from / applied to, and no block of the apply leg spends an input of a
transaction that is not confirmed on the way, then every non-ephemeral input of every returned
transaction carries exactly the leaf index the ledger at the target has for its (unspent) element. -/
theorem rebase_leaves (cfg : Cfg) (ts : List Txn) (rev app : List Blk) (out : List Txn) (lfrom : Ledger)
    (h : rebase cfg ts (some (rev, app)) = some out)
    (hbasis : ∀ t ∈ ts, ∀ i ∈ t.inputs, ∀ lf, i.leaf = some lf → i.bad = false → lfrom.leafOf i.elem = some lf)
    (hrev : RevPathWF lfrom rev) (happ : AppPathWF (rev.foldl Ledger.revert lfrom) app)
    (hns : ∀ b ∈ app, ∀ t ∈ ts, t.id ∉ confirmedIds app → ∀ i ∈ t.inputs, i.elem ∉ ids b.spent) :
    LeafOK (ledgerAlong lfrom rev app) out := by
  have hres := rebase_result cfg ts rev app out h
  unfold rebase at h
  simp only at h
  split at h
  · cases h
  · rename_i hb
    split at h
    · cases h
    · rw [revertLeg_eq] at h
      split at h
      · rename_i hall
        have hb' : ts.all basisOk = true := by simpa using hb
        have h0 : LeafOK lfrom ts := by
          intro t ht i hi lf hlf
          have := List.all_eq_true.1 hb' t ht
          unfold basisOk at this
          have := List.all_eq_true.1 this i hi
          simp only [hlf, Bool.not_eq_true'] at this
          exact hbasis t ht i hi lf hlf this
        have h1 := revertLeg_leafOK rev lfrom ts h0 hrev hall
        rw [hres]
        unfold ledgerAlong
        apply applyLeg_leafOK app _ _ (h1.sub (fun t ht => (List.mem_filter.1 ht).1)) happ
        intro b hb2 t ht i hi
        have hm := List.mem_filter.1 ht
        exact hns b hb2 t hm.1 (by simpa using hm.2) i hi
      · rw [foldOpt_none] at h; cases h

theorem confirmInp_leaf_some (c : List (Nat × Nat)) (i : Inp) (h : i.leaf.isSome = true) : (confirmInp c i).leaf = i.leaf := by
  unfold confirmInp
  cases hl : i.leaf with
  | none => rw [hl] at h; cases h
  | some _ => simp only; exact hl

theorem confirmSeq_leaf_some : ∀ (app : List Blk) (i : Inp), i.leaf.isSome = true → (confirmSeq app i).leaf = i.leaf
  | [], _, _ => rfl
  | b :: bs, i, h => by
    rw [confirmSeq, confirmSeq_leaf_some bs _ (by rw [confirmInp_leaf_some _ _ h]; exact h), confirmInp_leaf_some _ _ h]

/-- an ephemeral input whose element a block of the apply leg creates comes out confirmed -/
theorem confirmSeq_confirms : ∀ (app : List Blk) (i : Inp), i.leaf = none →
    (∃ b ∈ app, (b.created.lookup i.elem).isSome = true) → ((confirmSeq app i).leaf).isSome = true
  | [], _, _, h => by obtain ⟨_, hb, _⟩ := h; cases hb
  | b :: bs, i, hl, h => by
    rw [confirmSeq]
    cases hc : b.created.lookup i.elem with
    | some lf =>
      have : (confirmInp b.created i).leaf = some lf := by simp [confirmInp, hl, hc]
      rw [confirmSeq_leaf_some bs _ (by simp [this]), this]; rfl
    | none =>
      have hsame : confirmInp b.created i = i := by simp [confirmInp, hl, hc]
      rw [hsame]
      apply confirmSeq_confirms bs i hl
      obtain ⟨b', hb', hs⟩ := h
      rcases List.mem_cons.1 hb' with rfl | hb'
      · rw [hc] at hs; cases hs
      · exact ⟨b', hb', hs⟩

/-- … and one that no block creates stays ephemeral -/
theorem confirmSeq_stays : ∀ (app : List Blk) (i : Inp), i.leaf = none →
    (∀ b ∈ app, b.created.lookup i.elem = none) → confirmSeq app i = i
  | [], _, _, _ => rfl
  | b :: bs, i, hl, h => by
    have hsame : confirmInp b.created i = i := by simp [confirmInp, hl, h b (by simp)]
    rw [confirmSeq, hsame]
    exact confirmSeq_stays bs i hl (fun b' hb' => h b' (by simp [hb']))

/-! ## acceptance -/

/-- leaf counts along the apply leg: they do not shrink, and every created element lies below the
count of the block that creates it -/
def AppLeaves : Nat → List Blk → Prop
  | _, [] => True
  | n, b :: bs => n ≤ b.leavesAfter ∧ (∀ p ∈ b.created, p.2 < b.leavesAfter) ∧ AppLeaves b.leavesAfter bs

def LeafBound (n : Nat) (ts : List Txn) : Prop := ∀ t ∈ ts, ∀ i ∈ t.inputs, ∀ lf, i.leaf = some lf → lf < n

theorem applyLeg_accepts : ∀ (app : List Blk) (n : Nat) (ts : List Txn), LeafBound n ts → AppLeaves n app →
    (foldOpt rebaseApply (some ts) app).isSome = true
  | [], _, _, _, _ => rfl
  | b :: bs, n, ts, hb, hw => by
    rw [foldOpt]
    have hrem : LeafBound b.leavesAfter ((ts.filter fun t => !(b.v2txns.map (·.id)).contains t.id).map (mapInputs (confirmInp b.created))) := by
      intro t' ht' i' hi' lf hlf
      obtain ⟨t, ht, rfl⟩ := List.mem_map.1 ht'
      simp only [mapInputs, List.mem_map] at hi'
      obtain ⟨i, hi, rfl⟩ := hi'
      unfold confirmInp at hlf
      cases hl : i.leaf with
      | some lf0 =>
        simp only [hl] at hlf
        have hlf' : i.leaf = some lf := hl.trans hlf
        have := hb t (List.mem_filter.1 ht).1 i hi lf hlf'
        exact Nat.lt_of_lt_of_le this hw.1
      | none =>
        simp only [hl] at hlf
        cases hc : b.created.lookup i.elem with
        | none => simp only [hc] at hlf; rw [hl] at hlf; cases hlf
        | some lf1 =>
          simp only [hc, Option.some.injEq] at hlf
          subst hlf
          exact hw.2.1 _ (lookup_some_mem _ _ _ hc)
    have hall : (((ts.filter fun t => !(b.v2txns.map (·.id)).contains t.id).map (mapInputs (confirmInp b.created))).all
        (proofsOk b.leavesAfter)) = true := by
      rw [List.all_eq_true]
      intro t ht
      unfold proofsOk
      rw [List.all_eq_true]
      intro i hi
      cases hl : i.leaf with
      | none => rfl
      | some lf => simpa using hrem t ht i hi lf hl
    unfold rebaseApply
    simp only [hall, if_true]
    exact applyLeg_accepts bs b.leavesAfter _ hrem hw.2.2

/-- the revert leg's consistency including leaf counts: what the ledger holds and the block did not
create lies below the block's parent leaf count -/
def RevPathWF2 : Ledger → List Blk → Prop
  | _, [] => True
  | l, b :: bs => RevWF l b ∧ (∀ e lf, l.leafOf e = some lf → e ∉ ids b.created → lf < b.leavesBefore) ∧
      RevPathWF2 (l.revert b) bs

theorem revertLeg_accepts : ∀ (rev : List Blk) (l : Ledger) (ts : List Txn), LeafOK l ts → RevPathWF2 l rev →
    (∀ b ∈ rev, ∀ t ∈ ts, ∀ i ∈ t.inputs, i.elem ∉ ids b.created) →
    (rev.all fun b => ts.all (proofsOk b.leavesBefore)) = true ∧ LeafOK (rev.foldl Ledger.revert l) ts
  | [], _, _, h, _, _ => ⟨rfl, h⟩
  | b :: bs, l, ts, h, hw, hk => by
    have hp : ts.all (proofsOk b.leavesBefore) = true := by
      rw [List.all_eq_true]
      intro t ht
      unfold proofsOk
      rw [List.all_eq_true]
      intro i hi
      cases hl : i.leaf with
      | none => rfl
      | some lf => simpa using hw.2.1 _ _ (h t ht i hi lf hl) (hk b (by simp) t ht i hi)
    obtain ⟨r1, r2⟩ := revertLeg_accepts bs (l.revert b) ts (h.revert b hw.1 hp) hw.2.2 (fun b' hb' => hk b' (by simp [hb']))
    exact ⟨by simp [hp, r1], r2⟩

/-- **acceptance**: a set whose proofs core accepts at the basis is moved over any path within the
supported distance, provided no reverted block created an input of the set (nothing "vanishes"),
the path's blocks are consistent with the ledgers they meet, and the verifier is sound -/
theorem rebase_accepts (cfg : Cfg) (ts : List Txn) (rev app : List Blk) (lfrom : Ledger)
    (hb : ts.all basisOk = true) (hlen : rev.length + app.length ≤ cfg.maxReorg)
    (hbasis : ∀ t ∈ ts, ∀ i ∈ t.inputs, ∀ lf, i.leaf = some lf → i.bad = false → lfrom.leafOf i.elem = some lf)
    (hrev : RevPathWF2 lfrom rev)
    (hkept : ∀ b ∈ rev, ∀ t ∈ ts, ∀ i ∈ t.inputs, i.elem ∉ ids b.created)
    (hmid : ∀ e lf, (rev.foldl Ledger.revert lfrom).leafOf e = some lf → lf < (rev.foldl Ledger.revert lfrom).numLeaves)
    (happ : AppLeaves (rev.foldl Ledger.revert lfrom).numLeaves app) :
    (rebase cfg ts (some (rev, app))).isSome = true := by
  have h0 : LeafOK lfrom ts := by
    intro t ht i hi lf hlf
    have := List.all_eq_true.1 hb t ht
    unfold basisOk at this
    have := List.all_eq_true.1 this i hi
    simp only [hlf, Bool.not_eq_true'] at this
    exact hbasis t ht i hi lf hlf this
  obtain ⟨r1, r2⟩ := revertLeg_accepts rev lfrom ts h0 hrev hkept
  unfold rebase
  simp only [hb, Bool.not_true, Bool.false_eq_true, ↓reduceIte]
  rw [if_neg (by omega), revertLeg_eq, r1]
  simp only [↓reduceIte]
  apply applyLeg_accepts app _ ts ?_ happ
  intro t ht i hi lf hlf
  exact hmid _ _ (r2 t ht i hi lf hlf)

/-- a checkable form of "every leaf the ledger holds lies below `n`" -/
theorem leaves_lt_of_all (l : Ledger) (n : Nat) (h : (l.unspent.all fun p => decide (p.2 < n)) = true) :
    ∀ e lf, l.leafOf e = some lf → lf < n := by
  intro e lf he
  have := List.all_eq_true.1 h _ (lookup_some_mem e lf _ he)
  simpa using this

end Verif.Pool
