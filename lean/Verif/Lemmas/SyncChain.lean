/-
The chain-manager model (`Model/Chain.lean`) under **any** peer behaviour.

`Chain.Inv` (Lemmas/Chain.lean) is the invariant of a manager that is only ever fed through
`AddBlocks`, or through `AddValidatedV2Blocks` with batches that are `PreValidated` *on an applied
parent*.  The syncer does not guarantee the latter: a request below the require height that is
not heavier is stored without being applied, and the next request — based on its last block — goes
through the checkpoint path.  `AddValidatedV2Blocks` then stores blocks **with** a supplement on
top of a block that has none (clause `suppclosed` of `Chain.SInv` fails), and if the peer made the
checkpoint state up, blocks with a supplement that never passed `ValidateBlock` on the real
chain (clause `valid` fails) — see `C11.chain_inv_not_preserved`.

What survives is `InvW`: a stored supplement means "valid **provided the ancestry is valid**"
(`validW`), and every block of the best chain has a fully valid ancestry (`bestvalid`).  This file
re-proves the reorg machinery of Lemmas/Chain.lean for `InvW` (the proofs follow the originals;
`reorgPath_spec` only needs `Core` and is reused).
-/
import Verif.Lemmas.Chain
import Verif.Lemmas.Sync
import Verif.Model.SyncChain

namespace Verif.SyncC
open Verif.Chain

/-- `i` and all its ancestors pass `ValidateBlock` (chain-model universe) -/
inductive VT (U : Nat → Blk) : Nat → Prop
  | gen : VT U 0
  | step {i : Nat} : i ≠ 0 → VT U (par U i) → (U i).bodyOk = true → VT U i

theorem VT.parent {U : Nat → Blk} {i : Nat} (h : VT U i) (hne : i ≠ 0) : VT U (par U i) := by
  cases h with
  | gen => exact absurd rfl hne
  | step _ hp _ => exact hp

theorem VT.body {U : Nat → Blk} {i : Nat} (h : VT U i) (hne : i ≠ 0) : (U i).bodyOk = true := by
  cases h with
  | gen => exact absurd rfl hne
  | step _ _ hb => exact hb

/-- heights are depths in the parent tree (a convention of the universe, not a consensus check) -/
structure WFH (U : Nat → Blk) : Prop where
  h0 : (U 0).height = 0
  p0 : par U 0 = 0
  hgt : ∀ b, b ≠ 0 → (U b).height = (U (par U b)).height + 1

structure SInvW (U : Nat → Blk) (m : Mgr) : Prop where
  h0 : (U 0).height = 0
  gen : m.recs 0 = some ⟨true, true⟩ ∧ m.states 0 = true
  closed : ∀ i, m.states i = true → i ≠ 0 →
    m.states (par U i) = true ∧ (U i).height = (U (par U i)).height + 1
  recstate : ∀ i r, m.recs i = some r → r.body = true ∧ m.states i = true
  staterec : ∀ i, m.states i = true → (m.recs i).isSome = true
  /-- a stored supplement means the block passed `ValidateBlock` **if its whole ancestry did** -/
  validW : ∀ i, i ≠ 0 → m.recs i = some ⟨true, true⟩ → VT U (par U i) → (U i).bodyOk = true

theorem SInvW.core {U m} (h : SInvW U m) : Core U m := ⟨h.h0, h.closed, h.staterec⟩

/-- the invariant of the manager under any peer behaviour -/
structure InvW (U : Nat → Blk) (m : Mgr) : Prop where
  s : SInvW U m
  chain : Chain U m.best
  bestsupp : ∀ i ∈ m.best, m.recs i = some ⟨true, true⟩
  /-- every block of the best chain, and all its ancestors, passed `ValidateBlock` -/
  bestvalid : ∀ i ∈ m.best, VT U i

/-- under the strong invariant an applied block has a fully valid ancestry -/
theorem inv_applied_VT {U m} (h : Inv U m) : ∀ n i, (U i).height = n → m.recs i = some ⟨true, true⟩ → VT U i := by
  intro n
  induction n using Nat.strongRecOn with
  | ind n ih =>
    intro i hk hi
    by_cases e : i = 0
    · subst e; exact .gen
    · have hp := h.s.suppclosed i e hi
      have hs := (h.s.recstate i _ hi).2
      have hh := (h.s.closed i hs e).2
      exact .step e (ih _ (by omega) (par U i) rfl hp) (h.s.valid i e hi)

/-- the strong invariant implies the weak one -/
theorem inv_toW {U m} (h : Inv U m) : InvW U m := by
  have hv := inv_applied_VT h
  exact ⟨⟨h.s.h0, h.s.gen, h.s.closed, h.s.recstate, h.s.staterec, fun i hne hr _ => h.s.valid i hne hr⟩,
    h.chain, h.bestsupp, fun i hi => hv _ i rfl (h.bestsupp i hi)⟩

theorem invW_init {U} (hU : WFH U) : InvW U Mgr.init := by
  refine ⟨⟨hU.h0, by simp [Mgr.init], ?_, ?_, ?_, ?_⟩, Chain.gen, ?_, ?_⟩
  · intro i hi hne; simp [Mgr.init, hne] at hi
  · intro i r hr
    by_cases e : i = 0
    · subst e; simp [Mgr.init] at hr ⊢; subst hr; rfl
    · simp [Mgr.init, e] at hr
  · intro i hi; simp [Mgr.init] at hi ⊢; simp [hi]
  · intro i hne hr; simp [Mgr.init, hne] at hr
  · intro i hi; simp [Mgr.init] at hi ⊢; simp [hi]
  · intro i hi; simp [Mgr.init] at hi; subst hi; exact .gen

theorem InvW.tip_mem {U m} (h : InvW U m) : m.tip ∈ m.best := by
  have := h.chain.ne_nil
  cases hb : m.best with
  | nil => exact absurd hb this
  | cons a t => simp [Mgr.tip, hb]

theorem InvW.best_state {U m} (h : InvW U m) {i : Nat} (hi : i ∈ m.best) : m.states i = true :=
  (h.s.recstate i _ (h.bestsupp i hi)).2

theorem InvW.tip_state {U m} (h : InvW U m) : m.states m.tip = true := h.best_state h.tip_mem

theorem chain_lengthW {U : Nat → Blk} {m : Mgr} (hs : SInvW U m) {l : List Nat} (hc : Chain U l)
    (hst : ∀ i ∈ l, m.states i = true) : l.length = (U (l.headD 0)).height + 1 := by
  induction hc with
  | gen => simp [hs.h0]
  | @cons a b t ha hp ht ih =>
    have h1 := ih (fun i hi => hst i (by simp [hi]))
    have h2 := (hs.closed a (hst a (by simp)) ha).2
    simp only [List.headD_cons, List.length_cons] at h1 ⊢
    rw [hp] at h2
    omega

theorem InvW.length {U m} (h : InvW U m) : m.best.length = (U m.tip).height + 1 :=
  chain_lengthW h.s h.chain (fun _ hi => h.best_state hi)

theorem InvW.best_getElem {U m} (h : InvW U m) (k : Nat) (hk : k < m.best.length) :
    m.best[k] = anc U k m.tip := by
  have hc := h.chain
  have := hc.getElem_eq_anc k hk
  rw [this]
  congr 1
  unfold Mgr.tip
  rw [List.headD_eq_head?_getD, List.head?_eq_some_head hc.ne_nil]
  rfl

theorem revertTipW {U m} (h : InvW U m) {t b : Nat} {rest : List Nat} (hb : m.best = t :: b :: rest) :
    revertTip U m = .ok { m with best := b :: rest } ∧ InvW U { m with best := b :: rest } := by
  have ht := h.bestsupp t (by simp [hb])
  have hc := h.chain
  rw [hb] at hc
  obtain ⟨hc', _, hp⟩ := hc.tail
  have hbs : m.states b = true := h.best_state (by simp [hb])
  constructor
  · simp only [revertTip, hb, Mgr.block, ht]
    have : (U t).parent = b := hp
    simp [this, hbs]
  · exact ⟨⟨h.s.h0, h.s.gen, h.s.closed, h.s.recstate, h.s.staterec, h.s.validW⟩, hc',
      fun i hi => h.bestsupp i (by rw [hb]; exact List.mem_cons_of_mem _ hi),
      fun i hi => h.bestvalid i (by rw [hb]; exact List.mem_cons_of_mem _ hi)⟩

theorem revertNW {U} : ∀ (n : Nat) (m : Mgr), InvW U m → n < m.best.length →
    revertN U n m = ({ m with best := m.best.drop n }, none) ∧ InvW U { m with best := m.best.drop n } := by
  intro n
  induction n with
  | zero => intro m h _; simp [revertN]; exact h
  | succ n ih =>
    intro m h hn
    match hb : m.best with
    | [] => simp [hb] at hn
    | [_] => simp [hb] at hn
    | t :: b :: rest =>
      obtain ⟨hr, hi⟩ := revertTipW h hb
      simp only [revertN, hr]
      have := ih { m with best := b :: rest } hi (by simp [hb] at hn ⊢; omega)
      simpa [hb] using this

theorem applyTipW {U m} (h : InvW U m) {i : Nat} (hp : par U i = m.tip) (hne : i ≠ 0)
    (hs : m.states i = true) :
    (∃ m', applyTip U m i = .ok m' ∧ InvW U m' ∧ Mono m m' ∧ m'.best = i :: m.best) ∨
    (applyTip U m i = .error .invalidBlock ∧ m.recs i ≠ some ⟨true, true⟩) := by
  obtain ⟨r, hr⟩ := Option.isSome_iff_exists.mp (h.s.staterec i hs)
  have hbody := (h.s.recstate i r hr).1
  have hpar : (U i).parent = m.tip := hp
  have hbest : m.best = m.tip :: m.best.tail := by
    have := h.chain.ne_nil
    cases hb : m.best with
    | nil => exact absurd hb this
    | cons a t => simp [Mgr.tip, hb]
  have hchain : Chain U (i :: m.best) := by
    rw [hbest]; exact Chain.cons hne hp (hbest ▸ h.chain)
  have hvtip : VT U (par U i) := hp ▸ h.bestvalid _ h.tip_mem
  cases hsupp : r.supp with
  | true =>
    left
    have hr' : m.recs i = some ⟨true, true⟩ := by
      rw [hr]; cases r with
      | mk bd sp => simp only at hbody hsupp; rw [hbody, hsupp]
    refine ⟨{ m with best := i :: m.best }, ?_, ⟨⟨h.s.h0, h.s.gen, h.s.closed, h.s.recstate, h.s.staterec, h.s.validW⟩, hchain, ?_, ?_⟩, ⟨fun _ x => x, fun _ x => x, rfl⟩, rfl⟩
    · simp [applyTip, Mgr.block, hr, hbody, hsupp, hpar]
    · intro j hj
      rcases List.mem_cons.mp hj with rfl | hj
      · exact hr'
      · exact h.bestsupp j hj
    · intro j hj
      rcases List.mem_cons.mp hj with rfl | hj
      · exact .step hne hvtip (h.s.validW _ hne hr' hvtip)
      · exact h.bestvalid j hj
  | false =>
    have hr' : m.recs i ≠ some ⟨true, true⟩ := by
      rw [hr]; cases r with
      | mk bd sp => simp only at hsupp; rw [hsupp]; simp
    cases hok : (U i).bodyOk with
    | false => right; exact ⟨by simp [applyTip, Mgr.block, hr, hbody, hsupp, hpar, hok], hr'⟩
    | true =>
      left
      refine ⟨{ m with states := upd m.states i true, recs := upd m.recs i (some ⟨true, true⟩), best := i :: m.best }, ?_, ⟨?_, hchain, ?_, ?_⟩, ⟨?_, ?_, rfl⟩, rfl⟩
      · simp [applyTip, Mgr.block, hr, hbody, hsupp, hpar, hok]
      · refine ⟨h.s.h0, ?_, ?_, ?_, ?_, ?_⟩
        · have := h.s.gen; simp [upd, hne.symm, this]
        · intro j hj hj0
          have hj' : m.states j = true := by
            by_cases e : j = i
            · subst e; exact hs
            · simpa [upd, e] using hj
          obtain ⟨c1, c2⟩ := h.s.closed j hj' hj0
          refine ⟨?_, c2⟩
          by_cases e : par U j = i <;> simp [upd, e, c1]
        · intro j r' hj
          by_cases e : j = i
          · subst e; simp [upd] at hj; subst hj; simp [upd]
          · simp [upd, e] at hj ⊢; exact h.s.recstate j r' hj
        · intro j hj
          by_cases e : j = i
          · subst e; simp [upd]
          · simp [upd, e] at hj ⊢; exact h.s.staterec j hj
        · intro j hj0 hj hv
          by_cases e : j = i
          · subst e; exact hok
          · simp [upd, e] at hj; exact h.s.validW j hj0 hj hv
      · intro j hj
        rcases List.mem_cons.mp hj with rfl | hj
        · simp [upd]
        · by_cases e : j = i
          · subst e; simp [upd]
          · simp [upd, e]; exact h.bestsupp j hj
      · intro j hj
        rcases List.mem_cons.mp hj with rfl | hj
        · exact .step hne hvtip hok
        · exact h.bestvalid j hj
      · intro j hj; by_cases e : j = i <;> simp [upd, e, hj]
      · intro j hj; by_cases e : j = i <;> simp [upd, e, hj]

theorem applyAllW {U} : ∀ (l : List Nat) (m : Mgr), InvW U m → Attach U m m.tip l →
    InvW U (applyAll U l m).1 ∧ Mono m (applyAll U l m).1 ∧
    ((applyAll U l m).2 = none → (applyAll U l m).1.tip = l.getLastD m.tip) ∧
    ((applyAll U l m).2 ≠ none → (applyAll U l m).2 = some .invalidBlock) ∧
    ((∀ x ∈ l, m.recs x = some ⟨true, true⟩) → (applyAll U l m).2 = none) := by
  intro l
  induction l with
  | nil => intro m h _; simp [applyAll, h, Mono.refl]
  | cons x xs ih =>
    intro m h ⟨hp, hne, hs, hrest⟩
    rcases applyTipW h hp hne hs with ⟨m', hok, hinv', hmono, hbest⟩ | ⟨herr, hnot⟩
    · have htip' : m'.tip = x := by simp [Mgr.tip, hbest]
      obtain ⟨i1, i2, i3, i4, i5⟩ := ih m' hinv' (htip' ▸ Attach.mono hmono hrest)
      simp only [applyAll, hok]
      refine ⟨i1, hmono.trans i2, ?_, i4, ?_⟩
      · intro he
        rw [i3 he, htip']
        cases xs <;> simp [List.getLastD]
      · intro hall
        exact i5 (fun y hy => hmono.supp y (hall y (List.mem_cons_of_mem _ hy)))
    · simp only [applyAll, herr]
      refine ⟨h, Mono.refl m, by simp, by simp, ?_⟩
      intro hall
      exact absurd (hall x (by simp)) hnot

theorem reorgToW {U m} (h : InvW U m) {t : Nat} (ht : m.states t = true) :
    InvW U (reorgTo U m t).1 ∧ Mono m (reorgTo U m t).1 ∧
    ((reorgTo U m t).2 = none → (reorgTo U m t).1.tip = t) ∧
    ((reorgTo U m t).2 ≠ none → (reorgTo U m t).2 = some .invalidBlock) ∧
    ((∀ k, k ≤ (U t).height → m.recs (anc U k t) = some ⟨true, true⟩) → (reorgTo U m t).2 = none) := by
  obtain ⟨na, nb, hna, hnb, hpath, hmeet⟩ := reorgPath_spec h.s.core h.tip_state ht
  have hlen := h.length
  obtain ⟨hrev, hinv1⟩ := revertNW (U := U) na m h (by omega)
  have htip1 : ({ m with best := m.best.drop na } : Mgr).tip = anc U nb t := by
    have hk := h.best_getElem na (by omega)
    rw [hmeet] at hk
    simp only [Mgr.tip]
    rw [← hk, List.headD_eq_head?_getD, List.head?_drop, List.getElem?_eq_getElem (by omega)]
    rfl
  have hatt : Attach U ({ m with best := m.best.drop na } : Mgr)
      ({ m with best := m.best.drop na } : Mgr).tip ((List.range nb).map (fun k => anc U k t)).reverse := by
    rw [htip1]; exact attach_anc hinv1.s.core ht nb hnb
  obtain ⟨a1, a2, a3, a4, a5⟩ := applyAllW _ _ hinv1 hatt
  have hmono0 : Mono m ({ m with best := m.best.drop na } : Mgr) := ⟨fun _ x => x, fun _ x => x, rfl⟩
  have hred : reorgTo U m t = applyAll U ((List.range nb).map (fun k => anc U k t)).reverse { m with best := m.best.drop na } := by
    simp only [reorgTo, hpath, List.length_map, List.length_range, hrev]
  rw [hred]
  refine ⟨a1, hmono0.trans a2, ?_, a4, ?_⟩
  · intro he
    rw [a3 he, getLastD_reverse_map_anc, htip1]
    split
    · next h0 => subst h0; rfl
    · rfl
  · intro hall
    apply a5
    intro x hx
    simp only [List.mem_reverse, List.mem_map, List.mem_range] at hx
    obtain ⟨k, hk, rfl⟩ := hx
    exact hall k (by omega)

/-- the shared tail of `AddBlocks` / `AddValidatedV2Blocks` under the weak invariant: it never
panics, a failed reorg is always rolled back to exactly the old best chain -/
theorem maybeReorgW {U m} (h : InvW U m) {cs : Nat} (hcs : m.states cs = true) :
    InvW U (maybeReorg U m cs).1 ∧
    ((∀ i, m.states i = true → (maybeReorg U m cs).1.states i = true) ∧
     (∀ i, m.recs i = some ⟨true, true⟩ → (maybeReorg U m cs).1.recs i = some ⟨true, true⟩)) ∧
    (((maybeReorg U m cs).2 = none ∧
        ((heavier U cs m.tip = true ∧ (maybeReorg U m cs).1.tip = cs ∧
            (maybeReorg U m cs).1.notified = m.notified + 1) ∨
         (heavier U cs m.tip = false ∧ (maybeReorg U m cs).1 = m))) ∨
     ((maybeReorg U m cs).2 = some .reorgFailed ∧ heavier U cs m.tip = true ∧
        (maybeReorg U m cs).1.best = m.best ∧ (maybeReorg U m cs).1.notified = m.notified)) := by
  unfold maybeReorg
  cases hh : heavier U cs m.tip with
  | false => simp [h]
  | true =>
    simp only [if_true]
    obtain ⟨i1, mono1, r1, r2, _⟩ := reorgToW h hcs
    rcases hr : reorgTo U m cs with ⟨m1, e1⟩
    rw [hr] at i1 mono1 r1 r2
    simp only at i1 mono1 r1 r2
    cases e1 with
    | none =>
      simp only
      refine ⟨⟨⟨i1.s.h0, i1.s.gen, i1.s.closed, i1.s.recstate, i1.s.staterec, i1.s.validW⟩, i1.chain, i1.bestsupp, i1.bestvalid⟩, ⟨mono1.states, mono1.supp⟩, Or.inl ⟨by trivial, Or.inl ⟨by trivial, ?_, ?_⟩⟩⟩
      · simpa [Mgr.tip] using r1 rfl
      · simp [mono1.notified]
    | some e =>
      have he : e = .invalidBlock := by simpa using r2 (by simp)
      subst he
      simp only
      have hold : m1.states m.tip = true := mono1.states _ h.tip_state
      obtain ⟨i2, mono2, s1, _, s3⟩ := reorgToW i1 hold
      have hall : ∀ k, k ≤ (U m.tip).height → m1.recs (anc U k m.tip) = some ⟨true, true⟩ := by
        intro k hk
        have hlen := h.length
        have hk' : k < m.best.length := by omega
        rw [← h.best_getElem k hk']
        exact mono1.supp _ (h.bestsupp _ (List.getElem_mem hk'))
      have hnone := s3 hall
      rcases hr2 : reorgTo U m1 m.tip with ⟨m2, e2⟩
      rw [hr2] at i2 mono2 s1 hnone
      simp only at i2 mono2 s1 hnone
      subst hnone
      simp only
      have htip : m2.tip = m.tip := s1 rfl
      have hbest : m2.best = m.best := by
        apply Chain.unique i2.chain h.chain
        have h2 := i2.chain.ne_nil
        have h0 := h.chain.ne_nil
        cases hb2 : m2.best with
        | nil => exact absurd hb2 h2
        | cons a2 t2 =>
          cases hb0 : m.best with
          | nil => exact absurd hb0 h0
          | cons a0 t0 =>
            simp [Mgr.tip, hb2, hb0] at htip
            simp [htip]
      exact ⟨i2, ⟨fun i hi => mono2.states i (mono1.states i hi), fun i hi => mono2.supp i (mono1.supp i hi)⟩, Or.inr ⟨by trivial, by trivial, hbest, by rw [mono2.notified, mono1.notified]⟩⟩

/-! ### the storing loops -/

theorem store_headerW {U m} (hU : WFH U) (h : InvW U m) {b : Nat}
    (hnot : m.block b ≠ some true) (hpar : m.states (par U b) = true) :
    InvW U { m with states := upd m.states b true, recs := upd m.recs b (some ⟨true, false⟩) } := by
  have hb0 : b ≠ 0 := by
    intro e; subst e; exact hnot (by simp [Mgr.block, h.s.gen.1])
  have hbh := hU.hgt b hb0
  have hnb : ∀ i, m.recs i = some ⟨true, true⟩ → i ≠ b := by
    intro i hi e; subst e; exact hnot (by simp [Mgr.block, hi])
  refine ⟨⟨h.s.h0, ?_, ?_, ?_, ?_, ?_⟩, h.chain, ?_, h.bestvalid⟩
  · have := h.s.gen; simp [upd, hb0.symm, this]
  · intro j hj hj0
    by_cases e : j = b
    · subst e
      refine ⟨?_, hbh⟩
      by_cases e2 : par U j = j <;> simp [upd, e2, hpar]
    · have hj' : m.states j = true := by simpa [upd, e] using hj
      obtain ⟨c1, c2⟩ := h.s.closed j hj' hj0
      refine ⟨?_, c2⟩
      by_cases e2 : par U j = b <;> simp [upd, e2, c1]
  · intro j r hj
    by_cases e : j = b
    · subst e; simp [upd] at hj; subst hj; simp [upd]
    · simp [upd, e] at hj ⊢; exact h.s.recstate j r hj
  · intro j hj
    by_cases e : j = b
    · subst e; simp [upd]
    · simp [upd, e] at hj ⊢; exact h.s.staterec j hj
  · intro j hj0 hj hv
    by_cases e : j = b
    · subst e; simp [upd] at hj
    · simp [upd, e] at hj; exact h.s.validW j hj0 hj hv
  · intro i hi
    have := h.bestsupp i hi
    simp [upd, hnb i this, this]

theorem addLoopW {U} (hU : WFH U) : ∀ (batch : List Nat) (m : Mgr) (cs : Nat), InvW U m → m.states cs = true →
    InvW U (addBlocks.go U batch m cs).1 ∧
    (addBlocks.go U batch m cs).1.best = m.best ∧
    (addBlocks.go U batch m cs).1.notified = m.notified ∧
    ((∀ i, m.states i = true → (addBlocks.go U batch m cs).1.states i = true) ∧
     (∀ i, m.recs i = some ⟨true, true⟩ → (addBlocks.go U batch m cs).1.recs i = some ⟨true, true⟩)) ∧
    (addBlocks.go U batch m cs).1.states (addBlocks.go U batch m cs).2.2 = true ∧
    ((addBlocks.go U batch m cs).2.1 = none ∨ (addBlocks.go U batch m cs).2.1 = some .missingParent ∨
     (addBlocks.go U batch m cs).2.1 = some .future ∨ (addBlocks.go U batch m cs).2.1 = some .invalidHeader) := by
  intro batch
  induction batch with
  | nil => intro m cs h hcs; simp [addBlocks.go, h, hcs]
  | cons b bs ih =>
    intro m cs h hcs
    unfold addBlocks.go
    by_cases h1 : m.block b = some true
    · have hb : m.states b = true := by
        simp only [Mgr.block] at h1
        cases hr : m.recs b with
        | none => simp [hr] at h1
        | some r => exact (h.s.recstate b r hr).2
      simp only [h1, if_true]
      exact ih m b h hb
    · simp only [h1, if_false]
      by_cases h2 : m.header b = true ∧ (m.block b).isNone = true
      · have hb : m.states b = true := by
          obtain ⟨r, hr⟩ := Option.isSome_iff_exists.mp (by simpa [Mgr.header] using h2.1)
          exact (h.s.recstate b r hr).2
        simp only [h2, and_self, if_true]
        exact ih m b h hb
      · simp only [h2, if_false]
        by_cases h3 : (U b).parent ≠ cs ∧ (!m.states (U b).parent) = true
        · simp [h3, h, hcs]
        · simp only [h3, if_false]
          have hpar : m.states (par U b) = true := by
            by_cases e : (U b).parent = cs
            · simpa [par, e] using hcs
            · have : ¬ ((!m.states (U b).parent) = true) := fun x => h3 ⟨e, x⟩
              simpa [par] using this
          cases hf : (U b).future with
          | true => simp [h, hcs]
          | false =>
            cases hk : (U b).hdrOk with
            | false => simp [h, hcs]
            | true =>
              simp only [Bool.false_eq_true, if_false, Bool.not_true]
              have hinv' := store_headerW hU h h1 hpar
              obtain ⟨j1, j2, j3, j4, j5, j6⟩ := ih _ b hinv' (by simp [upd])
              refine ⟨j1, j2, j3, ⟨?_, ?_⟩, j5, j6⟩
              · intro i hi
                apply j4.1
                by_cases e : i = b <;> simp [upd, e, hi]
              · intro i hi
                apply j4.2
                have hib : i ≠ b := by
                  intro e; subst e; exact h1 (by simp [Mgr.block, hi])
                simp [upd, hib, hi]

/-- **`AddBlocks` under the weak invariant**, for any batch: same conclusion as `addBlocks_spec` -/
theorem addBlocksW {U} (hU : WFH U) {m : Mgr} (h : InvW U m) (batch : List Nat) :
    InvW U (addBlocks U m batch).1 ∧
    ((∀ i, m.states i = true → (addBlocks U m batch).1.states i = true) ∧
     (∀ i, m.recs i = some ⟨true, true⟩ → (addBlocks U m batch).1.recs i = some ⟨true, true⟩)) ∧
    (((addBlocks U m batch).2 = none ∧
        (((addBlocks U m batch).1.best = m.best ∧ (addBlocks U m batch).1.notified = m.notified) ∨
         (heavier U (addBlocks U m batch).1.tip m.tip = true ∧
            (addBlocks U m batch).1.notified = m.notified + 1))) ∨
     (((addBlocks U m batch).2 = some .missingParent ∨ (addBlocks U m batch).2 = some .future ∨
        (addBlocks U m batch).2 = some .invalidHeader ∨ (addBlocks U m batch).2 = some .reorgFailed) ∧
        (addBlocks U m batch).1.best = m.best ∧ (addBlocks U m batch).1.notified = m.notified)) := by
  cases batch with
  | nil => simp [addBlocks, h]
  | cons b bs =>
    simp only [addBlocks]
    obtain ⟨j1, j2, j3, j4, j5, j6⟩ := addLoopW hU (b :: bs) m m.tip h h.tip_state
    rcases hg : addBlocks.go U (b :: bs) m m.tip with ⟨m1, e, cs⟩
    rw [hg] at j1 j2 j3 j4 j5 j6
    simp only at j1 j2 j3 j4 j5 j6
    cases e with
    | some err =>
      simp only
      refine ⟨j1, j4, Or.inr ⟨?_, j2, j3⟩⟩
      rcases j6 with j6 | j6 | j6 | j6
      · simp at j6
      · left; exact j6
      · right; left; exact j6
      · right; right; left; exact j6
    | none =>
      simp only
      obtain ⟨k1, k2, k3⟩ := maybeReorgW j1 j5
      have htip : m1.tip = m.tip := by simp [Mgr.tip, j2]
      refine ⟨k1, ⟨fun i hi => k2.1 i (j4.1 i hi), fun i hi => k2.2 i (j4.2 i hi)⟩, ?_⟩
      rcases k3 with ⟨ke, (⟨kh, kt, kn⟩ | ⟨kh, km⟩)⟩ | ⟨ke, kh, kb, kn⟩
      · left
        refine ⟨ke, Or.inr ⟨?_, by rw [kn, j3]⟩⟩
        rw [kt, ← htip]; exact kh
      · left
        refine ⟨ke, Or.inl ?_⟩
        rw [km]; exact ⟨j2, j3⟩
      · right
        exact ⟨Or.inr (Or.inr (Or.inr ke)), by rw [kb, j2], by rw [kn, j3]⟩

/-- storing a block **with** a supplement whose validity is only known *relative to its ancestry* -/
theorem store_validatedW {U m} (hU : WFH U) (h : InvW U m) {b : Nat}
    (hps : m.states (par U b) = true) (hcond : VT U (par U b) → (U b).bodyOk = true) :
    InvW U { m with states := upd m.states b true, recs := upd m.recs b (some ⟨true, true⟩) } := by
  refine ⟨⟨h.s.h0, ?_, ?_, ?_, ?_, ?_⟩, h.chain, ?_, h.bestvalid⟩
  · have := h.s.gen
    by_cases e : b = 0
    · subst e; simp [upd]
    · have e' : (0 : Nat) ≠ b := fun x => e x.symm
      simp [upd, e', this]
  · intro j hj hj0
    by_cases e : j = b
    · subst e
      refine ⟨?_, hU.hgt j hj0⟩
      by_cases e2 : par U j = j <;> simp [upd, e2, hps]
    · have hj' : m.states j = true := by simpa [upd, e] using hj
      obtain ⟨c1, c2⟩ := h.s.closed j hj' hj0
      refine ⟨?_, c2⟩
      by_cases e2 : par U j = b <;> simp [upd, e2, c1]
  · intro j r hj
    by_cases e : j = b
    · subst e; simp [upd] at hj; subst hj; simp [upd]
    · simp [upd, e] at hj ⊢; exact h.s.recstate j r hj
  · intro j hj
    by_cases e : j = b
    · subst e; simp [upd]
    · simp [upd, e] at hj ⊢; exact h.s.staterec j hj
  · intro j hj0 hj hv
    by_cases e : j = b
    · subst e; exact hcond hv
    · simp [upd, e] at hj; exact h.s.validW j hj0 hj hv
  · intro i hi
    have := h.bestsupp i hi
    by_cases e : i = b <;> simp [upd, e, this]

/-- the storing loop of `AddValidatedV2Blocks` on a parent-linked batch whose blocks are valid
relative to their ancestry (what the gate establishes whatever the peer does) -/
theorem addV2LoopW {U} (hU : WFH U) : ∀ (batch : List Nat) (m : Mgr) (p : Nat), InvW U m →
    m.states p = true → LinkedFrom U p batch →
    (∀ b ∈ batch, VT U (par U b) → (U b).bodyOk = true) →
    InvW U (addValidatedV2.go U batch m).1 ∧
    ((addValidatedV2.go U batch m).2 = none ∨ (addValidatedV2.go U batch m).2 = some .notV2) ∧
    (addValidatedV2.go U batch m).1.best = m.best ∧
    (addValidatedV2.go U batch m).1.notified = m.notified ∧
    ((∀ i, m.states i = true → (addValidatedV2.go U batch m).1.states i = true) ∧
     (∀ i, m.recs i = some ⟨true, true⟩ → (addValidatedV2.go U batch m).1.recs i = some ⟨true, true⟩)) ∧
    ((addValidatedV2.go U batch m).2 = none → (addValidatedV2.go U batch m).1.states (batch.getLastD p) = true) := by
  intro batch
  induction batch with
  | nil => intro m p h hp _ _; simp [addValidatedV2.go, h, hp]
  | cons b bs ih =>
    intro m p h hp ⟨hl1, hl2⟩ hall
    rw [addValidatedV2.go]
    cases hv2 : (U b).v2 with
    | false => simp [h]
    | true =>
      simp only [Bool.not_true, Bool.false_eq_true, if_false]
      have hinv' := store_validatedW hU h (hl1 ▸ hp) (hall b (by simp))
      obtain ⟨j1, j2, j3, j4, j5, j6⟩ := ih _ b hinv' (by simp [upd]) hl2 (fun x hx => hall x (List.mem_cons_of_mem _ hx))
      refine ⟨j1, j2, j3, j4, ⟨?_, ?_⟩, ?_⟩
      · intro i hi; apply j5.1; by_cases e : i = b <;> simp [upd, e, hi]
      · intro i hi; apply j5.2; by_cases e : i = b <;> simp [upd, e, hi]
      · intro he
        cases bs with
        | nil => simpa [List.getLastD] using j6 he
        | cons c cs => simpa [List.getLastD] using j6 he

/-- **`AddValidatedV2Blocks` under the weak invariant**: for a parent-linked batch of blocks that
are valid relative to their ancestry — *whatever the manager knows about the parent* (it only has
to have a state, which the manager checks itself) — the invariant is preserved, there is no panic
and no failed rollback, an error leaves the best chain as it was, the tip moves only to a
sufficiently heavier block. -/
theorem addValidatedV2W {U} (hU : WFH U) {m : Mgr} (h : InvW U m) (batch : List Nat) (nStates : Nat)
    (hl : ∀ b0 rest, batch = b0 :: rest → LinkedFrom U (par U b0) batch)
    (hc : ∀ b ∈ batch, VT U (par U b) → (U b).bodyOk = true) :
    InvW U (addValidatedV2 U m batch nStates).1 ∧
    (((addValidatedV2 U m batch nStates).2 = none ∧
        (((addValidatedV2 U m batch nStates).1.best = m.best ∧
            (addValidatedV2 U m batch nStates).1.notified = m.notified) ∨
         (heavier U (addValidatedV2 U m batch nStates).1.tip m.tip = true ∧
            (addValidatedV2 U m batch nStates).1.notified = m.notified + 1))) ∨
     (((addValidatedV2 U m batch nStates).2 = some .lenMismatch ∨
        (addValidatedV2 U m batch nStates).2 = some .missingParent ∨
        (addValidatedV2 U m batch nStates).2 = some .notV2 ∨
        (addValidatedV2 U m batch nStates).2 = some .reorgFailed) ∧
        (addValidatedV2 U m batch nStates).1.best = m.best ∧
        (addValidatedV2 U m batch nStates).1.notified = m.notified)) := by
  cases batch with
  | nil => simp [addValidatedV2, h]
  | cons b0 rest =>
    have hlink := hl b0 rest rfl
    simp only [addValidatedV2]
    by_cases hn : nStates ≠ (b0 :: rest).length
    · simp only [if_pos hn]; simp [h]
    · simp only [if_neg hn]
      cases hps : m.states (U b0).parent with
      | false => simp [h]
      | true =>
        simp only [Bool.not_true, Bool.false_eq_true, if_false]
        obtain ⟨j1, j2, j3, j4, j5, j6⟩ := addV2LoopW hU (b0 :: rest) m (par U b0) h (by simpa [par] using hps) hlink hc
        rcases hg : addValidatedV2.go U (b0 :: rest) m with ⟨m1, e⟩
        rw [hg] at j1 j2 j3 j4 j5 j6
        simp only at j1 j2 j3 j4 j5 j6
        rcases j2 with j2 | j2
        · subst j2
          simp only
          have hcs : m1.states ((b0 :: rest).getLastD b0) = true := by
            have : (b0 :: rest).getLastD b0 = (b0 :: rest).getLastD (par U b0) := by
              cases rest <;> simp [List.getLastD]
            rw [this]; exact j6 rfl
          obtain ⟨k1, _, k3⟩ := maybeReorgW j1 hcs
          have htip : m1.tip = m.tip := by simp [Mgr.tip, j3]
          refine ⟨k1, ?_⟩
          rcases k3 with ⟨ke, (⟨kh, kt, kn⟩ | ⟨kh, km⟩)⟩ | ⟨ke, kh, kb, kn⟩
          · left
            refine ⟨ke, Or.inr ⟨?_, by rw [kn, j4]⟩⟩
            rw [kt, ← htip]; exact kh
          · left
            refine ⟨ke, Or.inl ?_⟩
            rw [km]; exact ⟨j3, j4⟩
          · right
            exact ⟨Or.inr (Or.inr (Or.inr ke)), by rw [kb, j3], by rw [kn, j4]⟩
        · subst j2
          simp only
          exact ⟨j1, Or.inr ⟨Or.inr (Or.inr (Or.inl (by trivial))), j3, j4⟩⟩

/-! ### the gates in front of the chain-manager model -/

open Verif.Sync

/-- no block of the universe is a variant of another (same header hash, other body): the
chain-manager model identifies a block with its ID, so the "same ID, other body" corruption is
outside the theorems on `Chain.Mgr` (it is covered on the minimal manager of `Model/Sync.lean`) -/
def NoVariants (U : Univ) : Prop := ∀ b, (U b).cid = b

/-- hash injectivity as the syncer relies on it (cf. `Sync.HashBinds`) -/
def HashBindsC (U : Univ) : Prop :=
  ∀ cp : CpResp, cp.commitOk = true → VT (toChain U) cp.blk → cp.genuine = true

theorem validateChainC {U : Univ} (nv : NoVariants U) (hU : WFH (toChain U)) (g : Bool) (bs : List Nat) :
    ∀ cs, validateChain U g cs bs = true → (VT (toChain U) cs → g = true) →
      LinkedFrom (toChain U) cs bs ∧ ∀ b ∈ bs, VT (toChain U) (par (toChain U) b) → (toChain U b).bodyOk = true := by
  induction bs with
  | nil => intro cs _ _; exact ⟨trivial, fun b hb => by simp at hb⟩
  | cons a t ih =>
    intro cs hv hg
    simp only [validateChain, Bool.and_eq_true, beq_iff_eq, Bool.or_eq_true, Bool.not_eq_eq_eq_not,
      Bool.not_true] at hv
    obtain ⟨⟨⟨hpar, _⟩, hbody⟩, hrest⟩ := hv
    rw [nv cs] at hpar
    have hpa : par (toChain U) a = cs := hpar
    have hga : VT (toChain U) a → g = true := by
      intro hva
      by_cases e : a = 0
      · subst e
        have : cs = 0 := by rw [← hpa]; exact hU.p0
        exact hg (this ▸ VT.gen)
      · exact hg (hpa ▸ hva.parent e)
    obtain ⟨l2, c2⟩ := ih a hrest hga
    refine ⟨⟨hpa, l2⟩, ?_⟩
    intro b hb hp
    rcases List.mem_cons.mp hb with rfl | hb
    · have := hg (hpa ▸ hp)
      rcases hbody with hbody | hbody
      · rw [this] at hbody; cases hbody
      · exact hbody
    · exact c2 b hb hp

/-- what the checkpoint gate hands to `AddValidatedV2Blocks`, whatever the peer does: a batch
parent-linked from the checkpoint block, whose blocks are valid **relative to their ancestry** -/
theorem gate_v2_contract' {U : Univ} (nv : NoVariants U) (hU : WFH (toChain U)) (hb : HashBindsC U)
    (cfg : Cfg) (q : Req) (r : BResp) (bs : List Nat) (h : gateBatch U cfg q r = .ok bs true) :
    LinkedFrom (toChain U) q.base bs ∧
    (∀ b ∈ bs, VT (toChain U) (par (toChain U) b) → (toChain U b).bodyOk = true) := by
  obtain ⟨_, cp, _, _, _, _, hid, hc, _, _, _, _, hv⟩ := gateBatch_ok_true cfg q r bs h
  have hcp : cp.blk = q.base := by
    have : (U cp.blk).cid = (U q.base).cid := by simpa [sameId] using hid
    rwa [nv, nv] at this
  rw [← hcp]
  exact validateChainC nv hU cp.genuine bs cp.blk hv (hb cp hc)

theorem gate_v2_contract {U : Univ} (nv : NoVariants U) (hU : WFH (toChain U)) (hb : HashBindsC U)
    (cfg : Cfg) (q : Req) (r : BResp) (bs : List Nat) (h : gateBatch U cfg q r = .ok bs true) :
    (∀ b0 rest, bs = b0 :: rest → LinkedFrom (toChain U) (par (toChain U) b0) bs) ∧
    (∀ b ∈ bs, VT (toChain U) (par (toChain U) b) → (toChain U b).bodyOk = true) := by
  obtain ⟨hl, hcond⟩ := gate_v2_contract' nv hU hb cfg q r bs h
  refine ⟨?_, hcond⟩
  intro b0 rest e
  subst e
  have : par (toChain U) b0 = q.base := hl.1
  rw [this]; exact hl

/-- on a fully valid parent, blocks that are valid relative to their ancestry are valid -/
theorem linked_all_body {U : Nat → Chain.Blk} : ∀ (l : List Nat) (p : Nat), VT U p → LinkedFrom U p l →
    (∀ b ∈ l, VT U (par U b) → (U b).bodyOk = true) → ∀ b ∈ l, (U b).bodyOk = true := by
  intro l
  induction l with
  | nil => intro _ _ _ _ b hb; simp at hb
  | cons a t ih =>
    intro p hp ⟨h1, h2⟩ hcond b hbm
    have ha : (U a).bodyOk = true := hcond a (by simp) (h1 ▸ hp)
    have hva : VT U a := by
      by_cases e : a = 0
      · subst e; exact .gen
      · exact .step e (h1 ▸ hp) ha
    rcases List.mem_cons.mp hbm with rfl | hbm
    · exact ha
    · exact ih a hva h2 (fun x hx => hcond x (List.mem_cons_of_mem _ hx)) b hbm

/-- the base of the first request of a round is a history entry, i.e. a block of the best chain:
it has been applied -/
theorem first_request_base_applied {U : Nat → Chain.Blk} {m : Mgr} (h : InvW U m) {base : Nat}
    (hb : base ∈ Sync.history m.best) : m.recs base = some ⟨true, true⟩ :=
  h.bestsupp base (Sync.mem_of_mem_history m.best h.chain.ne_nil hb)

/-- a manager step either keeps the best chain or moves the tip to a sufficiently heavier block -/
def TipStepC (U : Nat → Chain.Blk) (m m' : Mgr) : Prop := m'.best = m.best ∨ Chain.heavier U m'.tip m.tip = true

theorem TipStepC.work {U : Nat → Chain.Blk} {m m' : Mgr} (h : TipStepC U m m') : (U m.tip).work ≤ (U m'.tip).work := by
  rcases h with h | h
  · simp [Mgr.tip, h]
  · simp only [Chain.heavier, decide_eq_true_eq] at h; omega

theorem stepBatchC_spec {U : Univ} (nv : NoVariants U) (hU : WFH (toChain U)) (hb : HashBindsC U)
    (cfg : Cfg) (m : Mgr) (q : Req) (r : BResp) (h : InvW (toChain U) m) :
    InvW (toChain U) (stepBatchC U cfg m q r).1 ∧ TipStepC (toChain U) m (stepBatchC U cfg m q r).1 := by
  unfold stepBatchC
  split
  · exact ⟨h, .inl rfl⟩
  · exact ⟨h, .inl rfl⟩
  · rename_i bs pre hg
    cases pre
    · obtain ⟨i1, _, i3⟩ := addBlocksW hU h bs
      refine ⟨i1, ?_⟩
      rcases i3 with ⟨_, (⟨hbst, _⟩ | ⟨hh, _⟩)⟩ | ⟨_, hbst, _⟩
      · exact .inl hbst
      · exact .inr hh
      · exact .inl hbst
    · obtain ⟨hl, hc⟩ := gate_v2_contract nv hU hb cfg q r bs hg
      obtain ⟨i1, i3⟩ := addValidatedV2W hU h bs bs.length hl hc
      refine ⟨i1, ?_⟩
      rcases i3 with ⟨_, (⟨hbst, _⟩ | ⟨hh, _⟩)⟩ | ⟨_, hbst, _⟩
      · exact .inl hbst
      · exact .inr hh
      · exact .inl hbst

theorem runBatchesC_spec {U : Univ} (nv : NoVariants U) (hU : WFH (toChain U)) (hb : HashBindsC U)
    (cfg : Cfg) (qs : List Req) : ∀ (m : Mgr) (rs : List BResp), InvW (toChain U) m →
    InvW (toChain U) (runBatchesC U cfg m qs rs).1 ∧
      ((toChain U) m.tip).work ≤ ((toChain U) (runBatchesC U cfg m qs rs).1.tip).work := by
  induction qs with
  | nil => intro m rs h; simp [runBatchesC, h]
  | cons q qs ih =>
    intro m rs h
    cases rs with
    | nil => simp [runBatchesC, h]
    | cons r rs =>
      simp only [runBatchesC]
      obtain ⟨s1, s2⟩ := stepBatchC_spec nv hU hb cfg m q r h
      split
      · obtain ⟨t1, t2⟩ := ih _ rs s1
        exact ⟨t1, Nat.le_trans s2.work t2⟩
      · exact ⟨s1, s2.work⟩

theorem stepC_spec {U : Univ} (nv : NoVariants U) (hU : WFH (toChain U)) (hb : HashBindsC U)
    (cfg : Cfg) (m : Mgr) (e : Ev) (h : InvW (toChain U) m) :
    InvW (toChain U) (stepC U cfg m e).1 ∧
      ((toChain U) m.tip).work ≤ ((toChain U) (stepC U cfg m e).1.tip).work := by
  cases e with
  | sync hs bs =>
    simp only [stepC, stepSyncC]
    split
    · exact ⟨h, Nat.le_refl _⟩
    · exact ⟨h, Nat.le_refl _⟩
    · exact runBatchesC_spec nv hU hb cfg _ m bs h
  | batch q r =>
    obtain ⟨s1, s2⟩ := stepBatchC_spec nv hU hb cfg m q r h
    exact ⟨s1, s2.work⟩
  | relayHeader x => exact ⟨h, Nat.le_refl _⟩
  | relayOutline b ms =>
    simp only [stepC, stepOutlineC]
    obtain ⟨i1, _, i3⟩ := addBlocksW hU h [b]
    have hw : ((toChain U) m.tip).work ≤ ((toChain U) (addBlocks (toChain U) m [b]).1.tip).work := by
      have : TipStepC (toChain U) m (addBlocks (toChain U) m [b]).1 := by
        rcases i3 with ⟨_, (⟨hbst, _⟩ | ⟨hh, _⟩)⟩ | ⟨_, hbst, _⟩
        · exact .inl hbst
        · exact .inr hh
        · exact .inl hbst
      exact this.work
    repeat' split
    all_goals first
      | exact ⟨h, Nat.le_refl _⟩
      | exact ⟨i1, hw⟩
  | relayTxns k e a v => exact ⟨h, Nat.le_refl _⟩

theorem runC_spec {U : Univ} (nv : NoVariants U) (hU : WFH (toChain U)) (hb : HashBindsC U)
    (cfg : Cfg) (es : List Ev) : ∀ m : Mgr, InvW (toChain U) m →
    InvW (toChain U) (runC U cfg m es) ∧ ((toChain U) m.tip).work ≤ ((toChain U) (runC U cfg m es).tip).work := by
  induction es with
  | nil => intro m h; exact ⟨h, Nat.le_refl _⟩
  | cons e es ih =>
    intro m h
    obtain ⟨s1, s2⟩ := stepC_spec nv hU hb cfg m e h
    obtain ⟨t1, t2⟩ := ih _ s1
    exact ⟨t1, Nat.le_trans s2 t2⟩

end Verif.SyncC
