/-
M3 — the set-level image of `DBStore` (`/repo/chain/db.go`).

What the store keeps besides blocks and states: the unspent siacoin and siafund element
buckets, the v1 file-contract bucket (which also holds, under 8-byte height keys, the list
of contract ids expiring at that height), the best-chain index and height key, and the
element-accumulator `Tree` bucket.  At this level an element is its id; a contract is its
id with `(WindowEnd, RevisionNumber)`; a block is the list of element diffs
`consensus.ApplyBlock` produces for it (consensus is a parameter).  The model is the code
**as it is**: append on apply / prepend on revert / swap-with-last on delete for the
expiration lists, the asymmetric require-height guards, the panic of
`deleteFileContractExpiration`.

Core-only.  Every definition cites the Go lines it mirrors.
-/
namespace Verif.Elements

/-- function update (a bucket is a function from keys) -/
def set {α} (f : Nat → α) (k : Nat) (v : α) : Nat → α := fun j => if j = k then v else f j

@[simp] theorem set_same {α} (f : Nat → α) (k : Nat) (v : α) : set f k v k = v := by simp [set]
@[simp] theorem set_other {α} (f : Nat → α) (k j : Nat) (v : α) (h : j ≠ k) : set f k v j = f j := by
  simp [set, h]

inductive Kind where
  | sc | sf | fc
  deriving DecidableEq, Repr

/-- one element diff of a block (`consensus.SiacoinElementDiff`, `SiafundElementDiff`,
`FileContractElementDiff`, core `state.go:620-652`).  For a contract, `we`/`rn` are the
`WindowEnd`/`RevisionNumber` of `FileContractElement.FileContract` and `rev` those of
`*Revision` when it is non-nil. -/
structure Diff where
  kind : Kind
  id : Nat
  created : Bool
  /-- `Spent` (siacoin, siafund) / `Resolved` (contract) -/
  spent : Bool
  we : Nat := 0
  rn : Nat := 0
  rev : Option (Nat × Nat) := none
  deriving DecidableEq, Repr

/-! ### expiration lists (`db.go:601-651`) -/

/-- `deleteFileContractExpiration`: the first occurrence of `id` is overwritten with the last
entry and the list is truncated by one (`copy(val[i:], val[len(val)-32:]); val = val[:len-32]`).
On a list without `id` the Go code panics; the model returns the list unchanged and the
caller raises `panicked`. -/
def delExp : List Nat → Nat → List Nat
  | [], _ => []
  | x :: xs, id =>
    if x = id then
      match xs.getLast? with
      | none => []
      | some y => y :: xs.dropLast
    else x :: delExp xs id

/-- `putFileContractExpiration(id, windowEnd, apply)`: append when applying, prepend when
reverting (`db.go:609-613`) -/
def putExp (l : List Nat) (id : Nat) (apply : Bool) : List Nat :=
  if apply then l ++ [id] else id :: l

/-! ### the buckets, one component at a time

Each bucket is touched only by the diffs of its own kind and only at the diff's own key, so
the store is a product of independently evolving components. -/

/-- `applyElements` on the siacoin (`k = .sc`, `db.go:668-676`) or siafund (`k = .sf`,
`:677-685`) bucket: ephemeral elements are skipped, spent ones deleted, the others put -/
@[inline] def appSet (k : Kind) (f : Nat → Bool) (d : Diff) : Nat → Bool :=
  if d.kind ≠ k then f
  else if d.created && d.spent then f
  else if d.spent then set f d.id false
  else set f d.id true

/-- `revertElements` on the siafund / siacoin bucket (`db.go:735-756`): a spent element is
put back, a created one deleted -/
@[inline] def revSet (k : Kind) (f : Nat → Bool) (d : Diff) : Nat → Bool :=
  if d.kind ≠ k then f
  else if d.created && d.spent then f
  else if d.spent then set f d.id true
  else set f d.id false

/-- `applyElements` on the contract elements (`db.go:686-705`): resolved → delete; revised →
put the revision; otherwise put the element -/
@[inline] def appFc (g : Nat → Option (Nat × Nat)) (d : Diff) : Nat → Option (Nat × Nat) :=
  if d.kind ≠ .fc then g
  else if d.created && d.spent then g
  else if d.spent then set g d.id none
  else match d.rev with
    | some r => set g d.id (some r)
    | none => set g d.id (some (d.we, d.rn))

/-- `revertElements` on the contract elements (`db.go:709-733`): resolved → put the element
back; revised → put the element (the prior revision) back; otherwise delete -/
@[inline] def revFc (g : Nat → Option (Nat × Nat)) (d : Diff) : Nat → Option (Nat × Nat) :=
  if d.kind ≠ .fc then g
  else if d.created && d.spent then g
  else if d.spent then set g d.id (some (d.we, d.rn))
  else match d.rev with
    | some _ => set g d.id (some (d.we, d.rn))
    | none => set g d.id none

/-- `applyElements` on the expiration lists -/
@[inline] def appExp (e : Nat → List Nat) (d : Diff) : Nat → List Nat :=
  if d.kind ≠ .fc then e
  else if d.created && d.spent then e
  else if d.spent then set e d.we (delExp (e d.we) d.id)
  else match d.rev with
    | some r =>
      if r.1 ≠ d.we then
        let e1 := set e d.we (delExp (e d.we) d.id)
        set e1 r.1 (putExp (e1 r.1) d.id true)
      else e
    | none => set e d.we (putExp (e d.we) d.id true)

/-- `revertElements` on the expiration lists -/
@[inline] def revExp (e : Nat → List Nat) (d : Diff) : Nat → List Nat :=
  if d.kind ≠ .fc then e
  else if d.created && d.spent then e
  else if d.spent then set e d.we (putExp (e d.we) d.id false)
  else match d.rev with
    | some r =>
      if r.1 ≠ d.we then
        let e1 := set e r.1 (delExp (e r.1) d.id)
        set e1 d.we (putExp (e1 d.we) d.id false)
      else e
    | none => set e d.we (delExp (e d.we) d.id)

/-- does `applyElements` hit `panic("missing file contract expiration")` on this diff? -/
def appPanics (e : Nat → List Nat) (d : Diff) : Bool :=
  if d.kind ≠ .fc then false
  else if d.created && d.spent then false
  else if d.spent then !(e d.we).contains d.id
  else match d.rev with
    | some r => if r.1 ≠ d.we then !(e d.we).contains d.id else false
    | none => false

def revPanics (e : Nat → List Nat) (d : Diff) : Bool :=
  if d.kind ≠ .fc then false
  else if d.created && d.spent then false
  else if d.spent then false
  else match d.rev with
    | some r => if r.1 ≠ d.we then !(e r.1).contains d.id else false
    | none => !(e d.we).contains d.id

/-! ### the store -/

structure Store where
  /-- `SiacoinElements` bucket: is the id stored? -/
  sc : Nat → Bool
  /-- `SiafundElements` bucket -/
  sf : Nat → Bool
  /-- `FileContracts` bucket, 32-byte keys: id ↦ (WindowEnd, RevisionNumber) -/
  fc : Nat → Option (Nat × Nat)
  /-- `FileContracts` bucket, 8-byte keys: height ↦ expiring ids, in stored order -/
  exp : Nat → List Nat
  /-- `MainChain` bucket: height ↦ block id -/
  index : Nat → Option Nat
  /-- `MainChain["Height"]` -/
  height : Nat

/-- the store after `NewDBStore` on an empty database, before the genesis block's own diffs:
nothing stored (genesis is applied like any other block, `db.go:1006-1012`) -/
def Store.empty : Store :=
  { sc := fun _ => false, sf := fun _ => false, fc := fun _ => none, exp := fun _ => [],
    index := fun _ => none, height := 0 }

def applyDiff (s : Store) (d : Diff) : Store :=
  { s with sc := appSet .sc s.sc d, sf := appSet .sf s.sf d, fc := appFc s.fc d,
           exp := appExp s.exp d }

def revertDiff (s : Store) (d : Diff) : Store :=
  { s with sc := revSet .sc s.sc d, sf := revSet .sf s.sf d, fc := revFc s.fc d,
           exp := revExp s.exp d }

/-- `applyElements(cau)` on the diff list `sces ++ sfes ++ fces` (the three loops of
`db.go:668-705` in their order) -/
def applyDiffs (s : Store) (ds : List Diff) : Store := ds.foldl applyDiff s

/-- `revertElements(cru)` on the diff list as `consensus.RevertBlock` hands it over: every
per-kind list reversed (core `application.go:941-944`) and the loops run contracts, siafunds,
siacoins (`db.go:709-756`), i.e. the reverse of the applied list -/
def revertDiffs (s : Store) (ds : List Diff) : Store := ds.foldl revertDiff s

/-- does `applyElements` reach `panic("missing file contract expiration")` somewhere in the list? -/
def applyDiffsPanics : Store → List Diff → Bool
  | _, [] => false
  | s, d :: ds => appPanics s.exp d || applyDiffsPanics (applyDiff s d) ds

def revertDiffsPanics : Store → List Diff → Bool
  | _, [] => false
  | s, d :: ds => revPanics s.exp d || revertDiffsPanics (revertDiff s d) ds

/-- the heights whose expiration list a diff list can touch -/
def touched (ds : List Diff) : List Nat :=
  ds.flatMap fun d => d.we :: (match d.rev with | some r => [r.1] | none => [])

/-- executable form of `ExpStable` (see `Props/C02.lean`): apply-then-revert gives every touched
expiration list back in its stored order -/
def expStableB (s : Store) (ds : List Diff) : Bool :=
  (touched ds).all fun h => (revertDiffs (applyDiffs s ds) ds.reverse).exp h == s.exp h

/-- `applyState(next)` (`db.go:653-656`) -/
def applyState (s : Store) (blk height : Nat) : Store :=
  { s with index := set s.index height (some blk), height := height }

/-- `revertState(prev)` (`db.go:658-661`): delete the index above `prev`, set the height -/
def revertState (s : Store) (prevHeight : Nat) : Store :=
  { s with index := set s.index (prevHeight + 1) none, height := prevHeight }

/-- `DBStore.ApplyBlock(s, cau)` (`db.go:915-926`); `height` is the height of the applied
block (`s.Index.Height`), `req` the v2 require height -/
def applyBlock (req : Nat) (s : Store) (blk height : Nat) (ds : List Diff) : Store :=
  let s := applyState s blk height
  if height ≤ req then applyDiffs s ds else s

/-- `DBStore.RevertBlock(s, cru)` (`db.go:928-938`); here `s` is the *parent's* state, so the
guard compares `height - 1` -/
def revertBlock (req : Nat) (s : Store) (height : Nat) (dsRev : List Diff) : Store :=
  let s := if height - 1 ≤ req then revertDiffs s dsRev else s
  revertState s (height - 1)

def applyBlockPanics (req : Nat) (s : Store) (blk height : Nat) (ds : List Diff) : Bool :=
  height ≤ req && applyDiffsPanics (applyState s blk height) ds

def revertBlockPanics (req : Nat) (s : Store) (height : Nat) (dsRev : List Diff) : Bool :=
  height - 1 ≤ req && revertDiffsPanics s dsRev

/-! ### which contracts expire (`SupplementTipBlock`, `db.go:828-855`, and the expiry loop of
core `application.go:686-694`) -/

/-- the diffs a block gets for the contracts the store lists as expiring at its height: every id
of the list, in list order, that the block's own transactions did not resolve -/
def expiryDiffs (req : Nat) (s : Store) (height : Nat) (fixed : List Diff) : List Diff :=
  if height ≥ req then []      -- `height+1 >= RequireHeight` on the tip height
  else (s.exp height).filterMap fun id =>
    if fixed.any (fun d => d.kind = .fc ∧ d.id = id ∧ d.spent) then none
    else some { kind := .fc, id := id, created := false, spent := true, we := height,
                rn := ((s.fc id).map (·.2)).getD 0 }

/-! ### the Tree bucket (`db.go:522-548`) -/

/-- `treeKey(row, col)`: the top `row` bits set, `col` below, truncated to 32 bits -/
def treeKey (row col : Nat) : Nat :=
  ((((1 <<< row) - 1) <<< (32 - row)) ||| col) % 2 ^ 32

/-- `len(proof)` in `getElementProof`: `bits.Len64(leafIndex ^ numLeaves) - 1` -/
def proofLen (leaf n : Nat) : Nat := (leaf ^^^ n).log2

/-- the `(row, col)` positions `getElementProof(leaf, n)` reads -/
def proofPositions (leaf n : Nat) : List (Nat × Nat) :=
  (List.range (proofLen leaf n)).map fun i => (i, (leaf >>> i) ^^^ 1)

/-- node `(row, col)` is the root of the subtree over the leaves `[col * 2^row, (col+1) * 2^row)`;
it is live in a tree of `n` leaves when that range lies within `[0, n)` -/
def nodeLive (n row col : Nat) : Prop := (col + 1) * 2 ^ row ≤ n

/-! ### the node: store + stored supplements (`manager.go:381-434`) -/

/-- what the harness declares about a block: parent, height and the diffs `consensus.ApplyBlock`
produced for it on a linear replay of its own ancestry, *without* the contract expirations (those
the store decides) -/
structure BlkInfo where
  parent : Nat
  height : Nat
  fixed : List Diff
  deriving Inhabited

structure Node where
  req : Nat
  U : Nat → BlkInfo
  store : Store
  /-- tip block id (`tipState.Index`) -/
  tip : Nat
  /-- the diff list a block was applied with the first time — what the supplement stored with
  the block pins down; a re-application uses it again (`applyTip`, `bs != nil` branch) -/
  supp : Nat → Option (List Diff)
  /-- a `panic` was reached (the Go process would have died) -/
  panicked : Bool := false

/-- the diff list of block `b` when applied on store `s` -/
def blockDiffs (req : Nat) (s : Store) (B : BlkInfo) : List Diff :=
  B.fixed ++ expiryDiffs req s B.height B.fixed

/-- `applyTip(index)`; `none` = `panic("applyTip called with non-attaching block")` -/
def Node.applyTip (n : Node) (b : Nat) : Option Node :=
  let B := n.U b
  if B.parent ≠ n.tip ∨ B.height ≠ n.store.height + 1 then none
  else
    let ds := match n.supp b with
      | some ds => ds
      | none => blockDiffs n.req n.store B
    some { n with store := applyBlock n.req n.store b B.height ds, tip := b, supp := set n.supp b (some ds),
                  panicked := n.panicked || applyBlockPanics n.req n.store b B.height ds }

/-- `revertTip()`; `none` = the tip has no stored supplement / is genesis -/
def Node.revertTip (n : Node) : Option Node :=
  if n.store.height = 0 then none
  else match n.supp n.tip with
    | none => none
    | some ds =>
      some { n with store := revertBlock n.req n.store n.store.height ds.reverse, tip := (n.U n.tip).parent,
                    panicked := n.panicked || revertBlockPanics n.req n.store n.store.height ds.reverse }

inductive Op where
  | apply (b : Nat)
  | revert
  deriving DecidableEq, Repr

def Node.step (n : Node) : Op → Option Node
  | .apply b => n.applyTip b
  | .revert => n.revertTip

def Node.run (n : Node) : List Op → Option Node
  | [] => some n
  | op :: ops => match n.step op with
    | none => none
    | some n' => n'.run ops

/-- a node right after `NewDBStore`: block 0 (genesis) applied on the empty store -/
def Node.init (req : Nat) (U : Nat → BlkInfo) : Node :=
  let ds := (U 0).fixed
  { req := req, U := U, store := applyBlock req Store.empty 0 0 ds, tip := 0,
    supp := set (fun _ => none) 0 (some ds) }

end Verif.Elements
