/-
M8 — the renter side of RHP4 (`/repo/rhp/v4/rpc.go`): every `RPC*` client function that the
property C10 is about, as a total function of (parameters, list of messages the host sends) to
`ok result | err | crash`.  Every check the Go code performs is explicit and in source order.

Core-only.  The cryptographic primitives of `go.sia.tech/core` (signature verification, the
Merkle verifiers of `rhp/v4/merkle.go`, the sector-root computation) are *parameters*
(`Prims`); their soundness is an explicit hypothesis of the theorems in `Props/C10.lean`, never
an axiom.  Roots, proofs and signatures are abstract types `ρ π σ` (the driver instantiates
them with `Nat`; `Props/C10.lean` instantiates them with lists to show the hypotheses are
satisfiable).  Currency is `Nat`.

A host message is a `Msg`.  `ReadResponse` returning an error — because the stream was closed,
the host sent an RPC error frame, or the bytes do not decode — is the single message `fail`; a
message of the wrong shape is treated the same way (the decoder is type-directed, so it cannot
actually occur).  A list that ends early means the host stopped talking (EOF).

`Cfg` selects between the code as pinned (`325a596`) and the repaired code:
`checkDataLen` — `RPCReadSector` compares `resp.DataLength` with the requested length
(fix for finding C10/read-unaligned); `checkRootsLen` — `RPCSectorRoots` compares
`len(resp.Roots)` with the requested length before handing them to the verifier, which panics
on a mismatch (fix for finding C10/roots-count-panic); `checkFreeShape` — `RPCFreeSectors` checks
that the diff proof has exactly the number of hashes a proof for the requested indices has
before calling `VerifyFreeSectorsProof`, which does not (fix for finding
C10/free-proof-substitution).
-/
namespace Verif.RhpClient

/-! ## constants and prices (`core/rhp/v4/rhp.go`) -/

def sectorSize : Nat := 4194304
def leafSize : Nat := 64
def leavesPerSector : Nat := 65536
def tempSectorDuration : Nat := 432

/-- `round4KiB` (`rhp.go:67-69`) -/
def round4KiB (n : Nat) : Nat := (n + 4095) / 4096 * 4096

/-- `HostPrices` (the fields that enter a cost) -/
structure Prices where
  storage : Nat
  ingress : Nat
  egress : Nat
  collateral : Nat
  freeSector : Nat
  tipHeight : Nat
  deriving Repr, DecidableEq

/-- `Usage` (`rhp.go:72-79`) -/
structure Usage where
  rpc : Nat := 0
  storage : Nat := 0
  egress : Nat := 0
  ingress : Nat := 0
  funding : Nat := 0
  risked : Nat := 0
  deriving Repr, DecidableEq

/-- `Usage.RenterCost` (`rhp.go:82-84`) -/
def Usage.renterCost (u : Usage) : Nat := u.rpc + u.storage + u.egress + u.ingress + u.funding

/-- `RPCReadSectorCost` (`rhp.go:159-163`) -/
def readCost (p : Prices) (length : Nat) : Usage := { egress := p.egress * round4KiB length }
/-- `RPCWriteSectorCost` (`rhp.go:167-172`) -/
def writeCost (p : Prices) (length : Nat) : Usage :=
  { storage := p.storage * sectorSize * tempSectorDuration, ingress := p.ingress * round4KiB length }
/-- `RPCSectorRootsCost` (`rhp.go:175-179`) -/
def rootsCost (p : Prices) (length : Nat) : Usage := { egress := p.egress * round4KiB (32 * length) }
/-- `RPCVerifySectorCost` (`rhp.go:183-187`) -/
def verifyCost (p : Prices) : Usage := { egress := p.egress * sectorSize }
/-- `RPCFreeSectorsCost` (`rhp.go:190-194`) -/
def freeCost (p : Prices) (sectors : Nat) : Usage := { rpc := p.freeSector * sectors }
/-- `RPCAppendSectorsCost` (`rhp.go:198-204`) -/
def appendCost (p : Prices) (sectors duration : Nat) : Usage :=
  { storage := p.storage * sectorSize * sectors * duration
    ingress := p.ingress * round4KiB (32 * sectors)
    risked := p.collateral * sectorSize * sectors * duration }

/-! ## contract revisions -/

/-- the fields of `types.V2FileContract` a client RPC reads or writes.  `none` is the cleared
(all-zero) signature. -/
structure Rev (ρ σ : Type) where
  revNum : Nat
  renterOut : Nat
  hostOut : Nat
  missedHost : Nat
  filesize : Nat
  capacity : Nat
  expHeight : Nat
  root : ρ
  hostKey : Nat
  renterSig : Option σ
  hostSig : Option σ
  deriving Repr, DecidableEq

/-- what `ContractSigHash` covers: everything but the two signatures -/
def Rev.unsigned {ρ σ} (r : Rev ρ σ) : Rev ρ σ := { r with renterSig := none, hostSig := none }

/-- `PayWithContract` (`rhp.go:844-861`) -/
def pay {ρ σ} (fc : Rev ρ σ) (u : Usage) : Option (Rev ρ σ) :=
  if fc.renterOut < u.renterCost then none
  else if fc.missedHost < u.risked then none
  else some { fc with
    revNum := fc.revNum + 1
    renterOut := fc.renterOut - u.renterCost
    hostOut := fc.hostOut + u.renterCost
    missedHost := fc.missedHost - u.risked
    renterSig := none
    hostSig := none }

/-- 64-bit subtraction as Go performs it (`fc.Filesize -= …` wraps) -/
def sub64 (a b : Nat) : Nat := (a + 2 ^ 64 - b % 2 ^ 64) % 2 ^ 64

/-- `ReviseForFreeSectors` (`rhp.go:863-871`) -/
def reviseForFree {ρ σ} (fc : Rev ρ σ) (p : Prices) (newRoot : ρ) (deletions : Nat) :
    Option (Rev ρ σ × Usage) :=
  let fc := { fc with filesize := sub64 fc.filesize (sectorSize * deletions) }
  let usage := freeCost p deletions
  (pay fc usage).map fun fc => ({ fc with root := newRoot }, usage)

/-- `ReviseForAppendSectors` (`rhp.go:874-884`) -/
def reviseForAppend {ρ σ} (fc : Rev ρ σ) (p : Prices) (root : ρ) (appended : Nat) :
    Option (Rev ρ σ × Usage) :=
  let growth := appended - min appended ((fc.capacity - fc.filesize) / sectorSize)
  let fc := { fc with
    filesize := fc.filesize + sectorSize * appended
    capacity := fc.capacity + sectorSize * growth
    root := root }
  let usage := appendCost p growth (fc.expHeight - p.tipHeight)
  (pay fc usage).map (·, usage)

/-- `ReviseForSectorRoots` (`rhp.go:887-891`) -/
def reviseForRoots {ρ σ} (fc : Rev ρ σ) (p : Prices) (n : Nat) : Option (Rev ρ σ × Usage) :=
  (pay fc (rootsCost p n)).map (·, rootsCost p n)

/-- `ReviseForFundAccounts` / `ReviseForReplenish` (`rhp.go:894-905`) -/
def reviseForFunding {ρ σ} (fc : Rev ρ σ) (amount : Nat) : Option (Rev ρ σ × Usage) :=
  (pay fc { funding := amount }).map (·, { funding := amount })

/-! ## primitives and messages -/

/-- the primitives of `go.sia.tech/core` the client calls -/
structure Prims (ρ π σ : Type) where
  /-- `pk.VerifyHash(cs.ContractSigHash(rev), sig)` -/
  verifySig : Nat → Rev ρ σ → σ → Bool
  /-- `ReadSectorRoot` of the zero-padded data (`rpc.go:540-548`) -/
  rootOfData : List Nat → ρ
  /-- `RangeProofVerifier` fed with `data`, then `Verify(proof, root)` (`rpc.go:498-503`) -/
  verifyRange : π → List Nat → Nat → Nat → ρ → Bool
  /-- `VerifyLeafProof(proof, leaf, index, root)` -/
  verifyLeaf : π → List Nat → Nat → ρ → Bool
  /-- `VerifyFreeSectorsProof(subtree, leaves, indices, numSectors, oldRoot, newRoot)` -/
  verifyFree : π → π → List Nat → Nat → ρ → ρ → Bool
  /-- `len(subtree)+len(leaves) == rhp2.DiffProofSize(actions(indices), numSectors)`: the proof
  has exactly the hashes a proof for these indices consists of (`rpc.go` `freeSectorsProofSize`) -/
  freeShapeOk : π → π → List Nat → Nat → Bool
  /-- `VerifyAppendSectorsProof(numSectors, subtree, appended, oldRoot, newRoot)` -/
  verifyAppend : Nat → π → List ρ → ρ → ρ → Bool
  /-- `VerifySectorRootsProof(proof, roots, numSectors, start, end, root)` -/
  verifyRoots : π → List ρ → Nat → Nat → Nat → ρ → Bool

inductive Msg (ρ π σ : Type) where
  | fail
  | readResp (proof : π) (dataLen : Nat)
  | stream (data : List Nat)
  | writeResp (root : ρ)
  | verifyResp (proof : π) (leaf : List Nat)
  | freeResp (oldSubtree oldLeaves : π) (newRoot : ρ)
  | appendResp (accepted : List Bool) (subtree : π) (newRoot : ρ)
  | hostSig (sig : σ)
  | fundResp (balances : List Nat) (sig : σ)
  | replenishResp (deposits : List (Nat × Nat))
  | rootsResp (proof : π) (roots : List ρ) (sig : σ)

inductive Res (α : Type) where
  | ok (a : α)
  | err
  | crash
  deriving Repr, DecidableEq

/-- sequencing: the first `err`/`crash` ends the call (every `return …, err` of the Go code) -/
def Res.bind {α β} : Res α → (α → Res β) → Res β
  | .ok a, f => f a
  | .err, _ => .err
  | .crash, _ => .crash

instance : Monad Res where
  pure := .ok
  bind := Res.bind

/-- one `if !cond { return err }` -/
def check (b : Bool) : Res Unit := if b then .ok () else .err

/-- a fallible local computation (`ReviseFor…` returning an error) -/
def ofOption {α} : Option α → Res α
  | some a => .ok a
  | none => .err

structure Cfg where
  checkDataLen : Bool
  checkRootsLen : Bool
  checkFreeShape : Bool
  deriving Repr, DecidableEq

def Cfg.pinned : Cfg := ⟨false, false, false⟩
def Cfg.fixed : Cfg := ⟨true, true, true⟩

section
variable {ρ π σ : Type} [DecidableEq ρ]

/-! ### `ReadResponse` into each response type: the next message must have that shape -/

def expectReadResp : List (Msg ρ π σ) → Res (π × Nat × List (Msg ρ π σ))
  | .readResp pf n :: rest => .ok (pf, n, rest)
  | _ => .err
def expectWriteResp : List (Msg ρ π σ) → Res (ρ × List (Msg ρ π σ))
  | .writeResp r :: rest => .ok (r, rest)
  | _ => .err
def expectVerifyResp : List (Msg ρ π σ) → Res (π × List Nat × List (Msg ρ π σ))
  | .verifyResp pf lf :: rest => .ok (pf, lf, rest)
  | _ => .err
def expectFreeResp : List (Msg ρ π σ) → Res (π × π × ρ × List (Msg ρ π σ))
  | .freeResp a b r :: rest => .ok (a, b, r, rest)
  | _ => .err
def expectAppendResp : List (Msg ρ π σ) → Res (List Bool × π × ρ × List (Msg ρ π σ))
  | .appendResp acc sub r :: rest => .ok (acc, sub, r, rest)
  | _ => .err
def expectHostSig : List (Msg ρ π σ) → Res (σ × List (Msg ρ π σ))
  | .hostSig s :: rest => .ok (s, rest)
  | _ => .err
def expectFundResp : List (Msg ρ π σ) → Res (List Nat × σ × List (Msg ρ π σ))
  | .fundResp b s :: rest => .ok (b, s, rest)
  | _ => .err
def expectReplenishResp : List (Msg ρ π σ) → Res (List (Nat × Nat) × List (Msg ρ π σ))
  | .replenishResp d :: rest => .ok (d, rest)
  | _ => .err
def expectRootsResp : List (Msg ρ π σ) → Res (π × List ρ × σ × List (Msg ρ π σ))
  | .rootsResp pf rs s :: rest => .ok (pf, rs, s, rest)
  | _ => .err

/-- the raw bytes the host streams after a read response (nothing if it stops) -/
def streamOf : List (Msg ρ π σ) → List Nat
  | .stream d :: _ => d
  | _ => []

/-! ## RPCReadSector (`rpc.go:469-513`) -/

structure ReadParams (ρ : Type) where
  root : ρ
  offset : Nat
  length : Nat
  /-- the caller's `io.Writer`: `none` accepts everything, `some k` fails once more than `k`
  bytes have been handed to it (a full disk, a closed pipe, a cancelled HTTP response) -/
  wcap : Option Nat := none

/-- the caller's writer accepted all `n` bytes: a write error surfaces through the `TeeReader` as
an error of `rpv.ReadFrom` (`rpc.go:499-500`) -/
def writerAccepts (wcap : Option Nat) (n : Nat) : Bool :=
  match wcap with
  | none => true
  | some k => decide (n ≤ k)

/-- the structural part of `RPCReadSectorRequest.Validate` (`validation.go:42-58`) -/
def readValid (p : ReadParams ρ) : Bool :=
  p.length != 0 && decide (p.offset ≤ sectorSize) && decide (p.length ≤ sectorSize - p.offset)
    && (p.offset + p.length) % leafSize == 0

/-- bytes that reach the caller's writer: `rpv.ReadFrom(TeeReader(LimitReader(s, DataLength), w))`
pulls at most `want` bytes and at most `dataLen` bytes out of what the host streams -/
def pulled (avail : List Nat) (dataLen want : Nat) : List Nat := avail.take (min dataLen want)

/-- `reqOk`: prices and account token pass `Validate` (signature, expiry, host key).
Result: the bytes written to the caller's writer and the usage. -/
def rpcRead (cfg : Cfg) (P : Prims ρ π σ) (prices : Prices) (reqOk : Bool) (p : ReadParams ρ)
    (msgs : List (Msg ρ π σ)) : Res (List Nat × Usage) := do
  check (reqOk && readValid p)                              -- :477-479
  let r ← expectReadResp msgs                               -- :491-494
  check (!cfg.checkDataLen || r.2.1 == p.length)            -- fix: DataLength must be the requested length
  let start := p.offset / leafSize                          -- :496
  let stop := (p.offset + p.length + leafSize - 1) / leafSize   -- :497
  let got := pulled (streamOf r.2.2) r.2.1 (leafSize * (stop - start))
  check (writerAccepts p.wcap got.length)                   -- ReadFrom: the tee's write to w failed (:499-500)
  check (got.length % leafSize == 0)                        -- ReadFrom: "not an integer multiple of leaves" (:499-500)
  check (got.length == r.2.1)                               -- short read (:501-502)
  check (P.verifyRange r.1 got start stop p.root)           -- :503-505
  pure (got, readCost prices p.length)

/-! ## RPCWriteSector (`rpc.go:516-570`) -/

/-- zero padding to a full sector (`:542-546`) -/
def padSector (d : List Nat) : List Nat := d ++ List.replicate (sectorSize - d.length) 0

def rpcWrite (P : Prims ρ π σ) (prices : Prices) (reqOk : Bool) (data : List Nat) (length : Nat)
    (msgs : List (Msg ρ π σ)) : Res (ρ × Usage) := do
  check (length != 0)                                       -- :513-514
  check (decide (length ≤ sectorSize))                      -- :515-516
  check (reqOk && length % leafSize == 0)                   -- Validate (:524-526)
  let root := P.rootOfData (padSector (data.take length))   -- :540-548
  let r ← expectWriteResp msgs                              -- :555-557
  check (r.1 == root)                                       -- :558-560
  pure (r.1, writeCost prices length)

/-! ## RPCVerifySector (`rpc.go:573-591`); `index` is the locally drawn leaf index -/

def rpcVerify (P : Prims ρ π σ) (prices : Prices) (root : ρ) (index : Nat)
    (msgs : List (Msg ρ π σ)) : Res Usage := do
  let r ← expectVerifyResp msgs                             -- :578-579
  check (P.verifyLeaf r.1 r.2.1 index root)                 -- :580-582
  pure (verifyCost prices)

/-! ## RPCFreeSectors (`rpc.go:594-660`) -/

/-- insert into a strictly descending list, dropping duplicates -/
def insertDesc (x : Nat) : List Nat → List Nat
  | [] => [x]
  | y :: ys => if x > y then x :: y :: ys else if x = y then y :: ys else y :: insertDesc x ys

/-- sort descending and compact (`:596-600`) -/
def normalize (l : List Nat) : List Nat := l.foldr insertDesc []

def rpcFree (cfg : Cfg) (P : Prims ρ π σ) (prices : Prices) (c : Rev ρ σ) (indices : List Nat)
    (msgs : List (Msg ρ π σ)) : Res (Rev ρ σ × Usage) := do
  let idx := normalize indices
  let numSectors := c.filesize / sectorSize                 -- :619
  let r ← expectFreeResp msgs                               -- :620-622
  check (!cfg.checkFreeShape || P.freeShapeOk r.1 r.2.1 idx numSectors)   -- fix: proof size
  check (P.verifyFree r.1 r.2.1 idx numSectors c.root r.2.2.1)   -- :623-625
  let ru ← ofOption (reviseForFree c prices r.2.2.1 idx.length)  -- :627-630
  let s ← expectHostSig r.2.2.2                             -- :642-645
  check (P.verifySig c.hostKey ru.1.unsigned s.1)           -- :648-650
  pure ({ ru.1 with hostSig := some s.1 }, ru.2)

/-! ## RPCAppendSectors (`rpc.go:663-724`) -/

/-- the requested roots the host accepted (`:683-688`) -/
def acceptedRoots : List ρ → List Bool → List ρ
  | r :: rs, b :: bs => if b then r :: acceptedRoots rs bs else acceptedRoots rs bs
  | _, _ => []

def rpcAppend (P : Prims ρ π σ) (prices : Prices) (c : Rev ρ σ) (roots : List ρ)
    (msgs : List (Msg ρ π σ)) : Res (Rev ρ σ × Usage × List ρ) := do
  let r ← expectAppendResp msgs                             -- :677-679
  check (r.1.length == roots.length)                        -- :680-682
  let appended := acceptedRoots roots r.1                   -- :683-688
  let numSectors := (c.filesize + sectorSize - 1) / sectorSize   -- :689
  check (P.verifyAppend numSectors r.2.1 appended c.root r.2.2.1)   -- :690-692
  let ru ← ofOption (reviseForAppend c prices r.2.2.1 appended.length)   -- :694-697
  let s ← expectHostSig r.2.2.2                             -- :708-710
  check (P.verifySig c.hostKey ru.1.unsigned s.1)           -- :711-713
  pure ({ ru.1 with hostSig := some s.1 }, ru.2, appended)

/-! ## RPCFundAccounts (`rpc.go:727-775`); deposits are (account, amount) -/

def total (ds : List (Nat × Nat)) : Nat := (ds.map (·.2)).sum

/-- `RPCFundAccountsRequest.Validate` (`validation.go:264-285`); account id 0 is the zero account -/
def depositsValid (ds : List (Nat × Nat)) : Bool :=
  !ds.isEmpty && decide (ds.length ≤ 1000) && ds.all (fun d => d.1 != 0 && d.2 != 0)

/-- `RPCReplenishAccountsRequest.Validate` (`validation.go:288-308`) -/
def replenishValid (accounts : List Nat) (target : Nat) : Bool :=
  !accounts.isEmpty && decide (accounts.length ≤ 1000) && target != 0 && accounts.all (· != 0)

def rpcFund (P : Prims ρ π σ) (c : Rev ρ σ) (deposits : List (Nat × Nat))
    (msgs : List (Msg ρ π σ)) : Res (Rev ρ σ × Usage × List (Nat × Nat)) := do
  let ru ← ofOption (reviseForFunding c (total deposits))   -- :728-731
  check (depositsValid deposits)                            -- Validate (:741-743)
  let r ← expectFundResp msgs                               -- :745-748
  check (r.1.length == deposits.length)                     -- :751-752
  check (P.verifySig c.hostKey ru.1.unsigned r.2.1)         -- :753-755
  pure ({ ru.1 with hostSig := some r.2.1 }, ru.2, (deposits.map (·.1)).zip r.1)

/-! ## RPCReplenishAccounts / RPCReplenishPools (`rpc.go:778-852, 857-932`) -/

/-- `pools = true` is the pools twin, which also checks `len(resp.Deposits)` (`:881-883`). -/
def rpcReplenish (P : Prims ρ π σ) (pools : Bool) (c : Rev ρ σ) (accounts : List Nat)
    (target : Nat) (msgs : List (Msg ρ π σ)) : Res (Rev ρ σ × Usage × List (Nat × Nat)) := do
  check (replenishValid accounts target)                    -- Validate (:783-785)
  let maxCost := target * accounts.length                   -- :797
  let r ← expectReplenishResp msgs                          -- :799-802
  check (!pools || r.1.length == accounts.length)           -- :881-883 (pools twin only)
  check (!r.1.any (fun d => decide (d.2 > target)))         -- :804-808
  let totalCost := total r.1                                -- :810
  if totalCost == 0 then pure (c, {}, r.1)                  -- :811-816: nothing to pay, current revision
  else do
    check (decide (totalCost ≤ maxCost))                    -- :817-819
    let ru ← ofOption (reviseForFunding c totalCost)        -- :821-824
    let s ← expectHostSig r.2                               -- :836-838
    check (P.verifySig c.hostKey ru.1.unsigned s.1)         -- :839-841
    pure ({ ru.1 with hostSig := some s.1 }, ru.2, r.1)

/-! ## RPCSectorRoots (`rpc.go:1005-1044`) -/

/-- structural part of `RPCSectorRootsRequest.Validate` (`validation.go:101-118`) -/
def rootsValid (c : Rev ρ σ) (offset length : Nat) : Bool :=
  let n := c.filesize / sectorSize
  length != 0 && decide (offset ≤ n) && decide (length ≤ n - offset) && decide (length ≤ 262144)

/-- `len(resp.Roots) == length`: the repaired client returns an error; the pinned client calls
`VerifySectorRangeProof`, which panics when the count does not match the range -/
def rootsCount (cfg : Cfg) (okLen : Bool) : Res Unit :=
  if okLen then .ok () else if cfg.checkRootsLen then .err else .crash

def rpcRoots (cfg : Cfg) (P : Prims ρ π σ) (prices : Prices) (pricesOk : Bool) (c : Rev ρ σ)
    (offset length : Nat) (msgs : List (Msg ρ π σ)) : Res (Rev ρ σ × Usage × List ρ) := do
  let ru ← ofOption (reviseForRoots c prices length)        -- :1002-1005
  check (pricesOk && rootsValid c offset length)            -- :1017-1019
  let numSectors := (c.filesize + sectorSize - 1) / sectorSize   -- :1021
  let r ← expectRootsResp msgs                              -- :1022-1024
  rootsCount cfg (r.2.1.length == length)                   -- fix (pinned: panic inside the verifier)
  check (P.verifyRoots r.1 r.2.1 numSectors offset (offset + length) c.root)   -- :1025-1027
  check (P.verifySig c.hostKey ru.1.unsigned r.2.2.1)       -- :1030-1032
  pure ({ ru.1 with hostSig := some r.2.2.1 }, ru.2, r.2.1)

end
end Verif.RhpClient
