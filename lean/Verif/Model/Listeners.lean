/-
Model of the chain manager's reorg-listener registry (`chain/manager.go: OnReorg`, the `onReorg`
map and the notification loop of `AddBlocks`).  Go: `key := frand.Entropy128(); m.onReorg[key] = fn;
return func() { delete(m.onReorg, key) }`, and on a tip change every function in the map is called.

The key source is a parameter: `register` takes the key it is given.  With keys that are fresh
(what 128 random bits give, up to a negligible collision probability — the stated assumption) the
registry behaves like the obvious specification, a set of live listeners; with a key derived from
the map's size it does not (counterexample in Props/C04.lean).
-/
namespace Verif.Listeners

/-- the Go map: key ↦ listener; at most one entry per key -/
structure Reg where
  entries : List (Nat × Nat)
  deriving Repr, DecidableEq

def Reg.empty : Reg := ⟨[]⟩

/-- `m.onReorg[key] = fn` (assignment: an existing entry under the key is replaced) -/
def Reg.register (r : Reg) (key l : Nat) : Reg :=
  ⟨(key, l) :: r.entries.filter (fun e => e.1 != key)⟩

/-- the returned cancel function: `delete(m.onReorg, key)` -/
def Reg.cancel (r : Reg) (key : Nat) : Reg :=
  ⟨r.entries.filter (fun e => e.1 != key)⟩

/-- the listeners called on a tip change -/
def Reg.notified (r : Reg) : List Nat := r.entries.map (·.2)

/-- operations of a history: listener `l` registers and is handed key `k`; the holder of key `k`
cancels -/
inductive Op where
  | reg (k l : Nat)
  | cancel (k : Nat)
  deriving Repr, DecidableEq

def step (r : Reg) : Op → Reg
  | .reg k l => r.register k l
  | .cancel k => r.cancel k

def run (r : Reg) (ops : List Op) : Reg := ops.foldl step r

/-! the specification: the live (key, listener) registrations, no overwriting -/

def specStep (live : List (Nat × Nat)) : Op → List (Nat × Nat)
  | .reg k l => (k, l) :: live
  | .cancel k => live.filter (fun e => e.1 != k)

def specRun (live : List (Nat × Nat)) (ops : List Op) : List (Nat × Nat) := ops.foldl specStep live

/-- keys handed out by the registrations of a history -/
def regKeys : List Op → List Nat
  | [] => []
  | .reg k _ :: ops => k :: regKeys ops
  | .cancel _ :: ops => regKeys ops

/-- the key policy of a seeded faulty variant: number the subscribers by the map's size -/
def sizeKey (r : Reg) : Nat := r.entries.length + 1

end Verif.Listeners
