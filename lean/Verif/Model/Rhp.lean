/-
M7 `Rhp` — host side of the RHP4 renter-host protocol (C08, C09, C15).

Executable model of `/repo/rhp/v4/server.go` (the RPC handlers) over the reference host of
`/repo/testutil/host.go` (`EphemeralContractor`, `EphemeralSectorStore`), with the contract
arithmetic of `go.sia.tech/core@v0.21.7/rhp/v4/rhp.go` (`PayWithContract`, `ReviseFor*`, the
`RPC*Cost` formulas) and the request validation of `…/rhp/v4/validation.go`.

Conventions (DESIGN §2): identifiers are `Nat` (a public key, the account/pool named by that key
and the private key signing for it share one id; id 0 is the all-zero key / contract id);
currency is `Nat`; sizes are in *sectors* (contracts formed by `rhp4.NewContract` start at 0 bytes
and every handler moves `Filesize`/`Capacity` by multiples of `SectorSize`); signatures are
ideal: a signature *is* the pair (signing key, signed object) and verifying is an equality test;
hashes are a free term algebra (`H`), so `metaRoot` is injective.  Each handler is split into a
pure decision (`decide`: the checks in source order, ending in a rejection or in an `Effect`, the
one call that mutates host state) and `apply` (what that call does in `testutil/host.go`).
Core-only: the compiled driver links this file.
-/
namespace Verif.Rhp

/-! ## symbolic hashes and the Merkle root of a roots list -/

inductive H where
  | zero
  | leaf (n : Nat)
  | opaque (n : Nat)
  | node (l r : H)
  deriving DecidableEq, Repr, Inhabited

/-- the leaves of a hash term, left to right -/
def H.leaves : H → List Nat
  | .zero => []
  | .leaf n => [n]
  | .opaque _ => []
  | .node l r => l.leaves ++ r.leaves

/-- push a subtree of height `ht` onto the accumulator (top of the stack first), merging equal
heights — `rhp2.MetaRoot`'s accumulator -/
def push : List (Nat × H) → Nat → H → List (Nat × H)
  | [], ht, t => [(ht, t)]
  | (h1, t1) :: rest, ht, t =>
    if h1 = ht then push rest (ht + 1) (.node t1 t) else (ht, t) :: (h1, t1) :: rest

/-- join the stack from the smallest subtree upwards -/
def rootOf : List (Nat × H) → H
  | [] => .zero
  | (_, t) :: rest => rest.foldl (fun acc p => .node p.2 acc) t

/-- `rhp4.MetaRoot` over a list of sector roots (symbolic) -/
def metaRoot (rs : List Nat) : H :=
  rootOf (rs.foldl (fun st r => push st 0 (.leaf r)) [])

/-! ## the roots list: server free loop, sequential list model, client normalisation -/

/-- the list model's removal: move the last element into slot `i`, drop the last -/
def swapRemove (rs : List Nat) (i : Nat) : List Nat :=
  (rs.set i (rs.getD (rs.length - 1) 0)).dropLast

/-- `server.go` free loop: `for i, n := range indices { roots[n] = roots[len(roots)-i-1] }`
(the writes only; the length never changes) -/
def freeWrites : List Nat → Nat → List Nat → List Nat
  | rs, _, [] => rs
  | rs, i, n :: is => freeWrites (rs.set n (rs.getD (rs.length - i - 1) 0)) (i + 1) is

/-- … followed by `roots = roots[:len(roots)-len(indices)]` -/
def freeBatch (rs is : List Nat) : List Nat :=
  (freeWrites rs 0 is).take (rs.length - is.length)

/-- client `rpc.go` RPCFreeSectors: sort descending … -/
def insertDesc (x : Nat) : List Nat → List Nat
  | [] => [x]
  | y :: ys => if y ≤ x then x :: y :: ys else y :: insertDesc x ys

def sortDesc (l : List Nat) : List Nat := l.foldr insertDesc []

/-- … and `slices.Compact` -/
def compact : List Nat → List Nat
  | [] => []
  | [x] => [x]
  | x :: y :: r => if x = y then compact (y :: r) else x :: compact (y :: r)

def normalize (is : List Nat) : List Nat := compact (sortDesc is)

/-! ## contracts, signatures, prices -/

/-- `types.V2FileContract` without its two signatures (addresses are not modelled) -/
structure Body where
  rev : Nat
  renterOut : Nat
  hostOut : Nat
  missedHost : Nat
  totalColl : Nat
  filesize : Nat      -- in sectors
  capacity : Nat      -- in sectors
  proofHeight : Nat
  expHeight : Nat
  renterKey : Nat
  hostKey : Nat
  root : H
  deriving DecidableEq, Repr, Inhabited

/-- `rhp4.HostPrices` without the signature (`ValidUntil` is part of the signed hash) -/
structure PriceFields where
  contractPrice : Nat
  collateral : Nat
  storage : Nat
  ingress : Nat
  egress : Nat
  freeSector : Nat
  tipHeight : Nat
  validUntil : Nat
  deriving DecidableEq, Repr, Inhabited

/-- the objects that get signed -/
inductive Msg where
  | contract (b : Body)                                       -- `cs.ContractSigHash`
  | challenge (cid n : Nat)                                   -- free/append/renew `ChallengeSigHash`
  | replChallenge (accounts : List Nat) (target cid n : Nat)  -- replenish `ChallengeSigHash`
  | prices (p : PriceFields)                                  -- `HostPrices.SigHash`
  | token (hostKey account validUntil : Nat)                  -- `AccountToken.SigHash`
  | attach (hostKey account pool validUntil : Nat)            -- `PoolAttachment.SigHash`
  | detach (hostKey account pool validUntil : Nat)            -- `PoolDetachment.SigHash`
  deriving DecidableEq, Repr, Inhabited

/-- an ideal signature: all-zero bytes, bytes that verify under nothing, or (key, object) -/
inductive Sig where
  | zero
  | bad
  | mk (key : Nat) (msg : Msg)
  deriving DecidableEq, Repr, Inhabited

/-- `PublicKey.VerifyHash` -/
def verify (key : Nat) (m : Msg) (s : Sig) : Bool := s == .mk key m

structure Prices where
  f : PriceFields
  sig : Sig
  deriving DecidableEq, Repr, Inhabited

structure Token where
  hostKey : Nat
  account : Nat
  validUntil : Nat
  sig : Sig
  deriving DecidableEq, Repr, Inhabited

structure Contract where
  body : Body
  renterSig : Sig
  hostSig : Sig
  deriving DecidableEq, Repr, Inhabited

/-- what `LockV2Contract` returns for a contract, plus whether its renewal exists -/
structure CState where
  c : Contract
  roots : List Nat
  renewed : Bool
  deriving DecidableEq, Repr, Inhabited

/-- `PoolAttachment` / `PoolDetachment` -/
structure Link where
  account : Nat
  pool : Nat
  validUntil : Nat
  sig : Sig
  deriving DecidableEq, Repr, Inhabited

/-! ## constants and prices (`rhp.go:14-40,67-205`) -/

def sectorSize : Nat := 4194304
def leafSize : Nat := 64
def leavesPerSector : Nat := 65536
def tempSectorDuration : Nat := 432
def maxSectorBatch : Nat := 262144
def maxAccountBatch : Nat := 1000
/-- `types.Currency` is 128 bits; `Currency.Add` panics beyond it -/
def maxCurrency : Nat := 340282366920938463463374607431768211455

/-- (literals are kept on the left of `+`/`*` so that the kernel never recurses on them) -/
def round4KiB (n : Nat) : Nat := 4096 * ((4095 + n) / 4096)

def readCost (p : PriceFields) (len : Nat) : Nat := p.egress * round4KiB len
def writeCost (p : PriceFields) (len : Nat) : Nat :=
  sectorSize * tempSectorDuration * p.storage + p.ingress * round4KiB len
def verifyCost (p : PriceFields) : Nat := sectorSize * p.egress
def rootsCost (p : PriceFields) (n : Nat) : Nat := p.egress * round4KiB (32 * n)
def freeCost (p : PriceFields) (n : Nat) : Nat := p.freeSector * n
/-- `RPCAppendSectorsCost(growth, duration)`: renter cost and risked collateral -/
def appendCost (p : PriceFields) (growth duration : Nat) : Nat :=
  sectorSize * p.storage * growth * duration + p.ingress * round4KiB (32 * growth)
def appendCollateral (p : PriceFields) (growth duration : Nat) : Nat :=
  sectorSize * p.collateral * growth * duration

/-- `PayWithContract` (`rhp.go:844-861`) on the body; the caller clears the signatures -/
def pay (b : Body) (amount collateral : Nat) : Option Body :=
  if b.renterOut < amount then none
  else if b.missedHost < collateral then none
  else some { b with rev := b.rev + 1, renterOut := b.renterOut - amount,
                     hostOut := b.hostOut + amount, missedHost := b.missedHost - collateral }

/-- `ReviseForFreeSectors` (`rhp.go:863-871`) -/
def reviseFree (b : Body) (p : PriceFields) (newRoot : H) (n : Nat) : Option Body :=
  (pay { b with filesize := b.filesize - n } (freeCost p n) 0).map fun b' => { b' with root := newRoot }

/-- `ReviseForAppendSectors` (`rhp.go:874-884`) -/
def appendGrowth (b : Body) (appended : Nat) : Nat := appended - min appended (b.capacity - b.filesize)

def reviseAppend (b : Body) (p : PriceFields) (newRoot : H) (appended : Nat) : Option Body :=
  let growth := appendGrowth b appended
  let dur := b.expHeight - p.tipHeight
  pay { b with filesize := b.filesize + appended, capacity := b.capacity + growth, root := newRoot }
    (appendCost p growth dur) (appendCollateral p growth dur)

/-- `ReviseForSectorRoots`, `ReviseForFundAccounts`, `ReviseForReplenish` (`rhp.go:887-906`) -/
def reviseRoots (b : Body) (p : PriceFields) (n : Nat) : Option Body := pay b (rootsCost p n) 0
def reviseFund (b : Body) (amount : Nat) : Option Body := pay b amount 0

/-! ## host state -/

structure Host where
  hostKey : Nat
  now : Nat
  tip : Nat
  contracts : Nat → Option CState
  accounts : Nat → Nat
  pools : Nat → Option Nat
  attached : Nat → List Nat
  sectors : Nat → Bool
  /-- roots for which the sector store's `HasSector` currently returns an error (a failing dependency) -/
  sectorErr : Nat → Bool := fun _ => false

def Host.init (hostKey now tip : Nat) : Host :=
  { hostKey, now, tip, contracts := fun _ => none, accounts := fun _ => 0,
    pools := fun _ => none, attached := fun _ => [], sectors := fun _ => false }

def upd {α} (f : Nat → α) (k : Nat) (v : α) : Nat → α := fun x => if x = k then v else f x

/-- `LockV2Contract`: `Revisable: !renewed && ec.tip.Height < rev.ProofHeight` (`host.go:152`) -/
def revisable (h : Host) (cs : CState) : Bool := !cs.renewed && h.tip < cs.c.body.proofHeight

/-- `HostPrices.Validate` (`validation.go:17-25`) -/
def pricesValid (h : Host) (p : Prices) : Bool :=
  h.now < p.f.validUntil && verify h.hostKey (.prices p.f) p.sig

/-- `AccountToken.Validate` (`validation.go:29-39`) -/
def tokenValid (h : Host) (t : Token) : Bool :=
  t.hostKey == h.hostKey && !(t.validUntil < h.now) &&
    verify t.account (.token t.hostKey t.account t.validUntil) t.sig

/-! ### accounts and pools (`host.go:331-470`) -/

def poolBal (pools : Nat → Option Nat) (k : Nat) : Nat := (pools k).getD 0

/-- `DebitAccount`, first loop: own balance, then attached pools until the cost is covered -/
def drawable (pools : Nat → Option Nat) : Nat → List Nat → Nat → Nat
  | d, [], _ => d
  | d, p :: ps, cost => if cost ≤ d then d else drawable pools (d + poolBal pools p) ps cost

/-- `DebitAccount`, second loop: drain the attached pools in attachment order -/
def drainPools (pools : Nat → Option Nat) : List Nat → Nat → (Nat → Option Nat)
  | [], _ => pools
  | p :: ps, remaining =>
    if remaining = 0 then pools
    else
      let bal := poolBal pools p
      if bal = 0 then drainPools pools ps remaining
      else
        let take := min bal remaining
        drainPools (upd pools p (some (bal - take))) ps (remaining - take)

def canDebit (h : Host) (acct cost : Nat) : Bool :=
  cost ≤ drawable h.pools (h.accounts acct) (h.attached acct) cost

/-- a successful `DebitAccount` -/
def debit (h : Host) (acct cost : Nat) : Host :=
  let bal := h.accounts acct
  let take := min bal cost
  { h with accounts := upd h.accounts acct (bal - take),
           pools := drainPools h.pools (h.attached acct) (cost - take) }

/-- `CreditAccountsWithContract` / `CreditPoolsWithContract`: the deposits, in order -/
def creditAccounts (acc : Nat → Nat) : List (Nat × Nat) → (Nat → Nat)
  | [] => acc
  | (a, v) :: ds => creditAccounts (upd acc a (acc a + v)) ds

def creditPools (pools : Nat → Option Nat) : List (Nat × Nat) → (Nat → Option Nat)
  | [] => pools
  | (a, v) :: ds => creditPools (upd pools a (some (poolBal pools a + v))) ds

/-- the balances the two credit calls return: the balance right after each deposit -/
def creditAccountsBalances (acc : Nat → Nat) : List (Nat × Nat) → List Nat
  | [] => []
  | (a, v) :: ds => (acc a + v) :: creditAccountsBalances (upd acc a (acc a + v)) ds

/-- `AttachPools`: append if not already attached -/
def attachAll (att : Nat → List Nat) : List Link → (Nat → List Nat)
  | [] => att
  | l :: ls =>
    attachAll (if (att l.account).contains l.pool then att else upd att l.account (att l.account ++ [l.pool])) ls

/-- `DetachPools`: remove the first occurrence -/
def detachAll (att : Nat → List Nat) : List Link → (Nat → List Nat)
  | [] => att
  | l :: ls => detachAll (upd att l.account ((att l.account).erase l.pool)) ls

/-! ## requests, effects, observations -/

inductive Req where
  /-- a request that does not decode (stream ended inside the first message) -/
  | garbage
  | latest (cid : Nat)
  | balance (acct : Nat)
  | read (p : Prices) (t : Token) (root off len : Nat)
  /-- `data = none`: the stream ended before `DataLength` bytes arrived; `some r`: bytes whose sector root is `r` -/
  | write (p : Prices) (t : Token) (len : Nat) (data : Option Nat)
  | verify (p : Prices) (t : Token) (root leaf : Nat)
  /-- `second = none`: the renter never sends its signature (the stream ends after the host's first
  response; the host's `ReadResponse` fails with a decoding error) -/
  | free (cid : Nat) (p : Prices) (chal : Sig) (indices : List Nat) (second : Option Sig)
  | append (cid : Nat) (p : Prices) (chal : Sig) (sectors : List Nat) (second : Option Sig)
  | roots (cid : Nat) (p : Prices) (off len : Nat) (sig : Sig)
  | fund (cid : Nat) (deposits : List (Nat × Nat)) (sig : Sig)
  | replenish (pool : Bool) (cid : Nat) (accounts : List Nat) (target : Nat) (chal : Sig) (second : Option Sig)
  | attach (l : List Link)
  | detach (l : List Link)
  deriving Repr, Inhabited

/-- what the renter observes -/
inductive Cls where
  | ok | badreq | decoding | payment | hosterr
  /-- the handler panicked (`types.Currency.Add` overflow), `handleHostStream` recovered and closed
  the stream without a response: the renter reads EOF -/
  | io
  deriving DecidableEq, Repr, Inhabited

structure Out where
  cls : Cls
  vals : List Nat := []
  deriving DecidableEq, Repr, Inhabited

/-- the calls the server makes on `Sectors` and the mutating calls on `Contractor` -/
inductive Ev where
  | has (root : Nat)
  | debit (acct cost : Nat) (ok : Bool)
  | read (root off len : Nat)
  | store (root : Nat)
  | revise (cid : Nat)
  | credit (pool : Bool) (cid : Nat)
  | attach (n : Nat)
  | detach (n : Nat)
  deriving DecidableEq, Repr, Inhabited

/-- the single state-changing call a handler ends in -/
inductive Effect where
  | none
  /-- `ReviseV2Contract(cid, revision, roots, usage)` -/
  | revise (cid : Nat) (c : Contract) (roots : List Nat)
  /-- `CreditAccountsWithContract` / `CreditPoolsWithContract` -/
  | credit (pool : Bool) (cid : Nat) (c : Contract) (deposits : List (Nat × Nat))
  /-- a successful `DebitAccount` (read, verify) -/
  | debit (acct cost : Nat)
  /-- a successful `DebitAccount` followed by `StoreSector` (write) -/
  | debitStore (acct cost root : Nat)
  | attach (l : List Link)
  | detach (l : List Link)
  deriving Repr, Inhabited

structure Decision where
  eff : Effect := .none
  out : Out
  evs : List Ev := []
  deriving Repr, Inhabited

def reject (c : Cls) (evs : List Ev := []) (vals : List Nat := []) : Decision :=
  { out := { cls := c, vals }, evs }

/-- the contractor's own checks in `ReviseV2Contract` / `Credit*WithContract` (`host.go:268-283`) -/
def contractorAccepts (old : Contract) (new : Contract) : Bool :=
  old.body.rev < new.body.rev &&
    verify old.body.renterKey (.contract new.body) new.renterSig &&
    verify old.body.hostKey (.contract new.body) new.hostSig

/-- sign with the server's key and hand to the contractor -/
def signed (h : Host) (b : Body) (rsig : Sig) : Contract :=
  { body := b, renterSig := rsig, hostSig := .mk h.hostKey (.contract b) }

/-- `lockContractForRevision` (`server.go:162-171`) -/
def lockForRevision (h : Host) (cid : Nat) : Except Cls CState :=
  match h.contracts cid with
  | none => .error .hosterr
  | some cs => if revisable h cs then .ok cs else .error .badreq

/-! ## the handlers (checks in source order) -/

def hasEvents (roots : List Nat) : List Ev := roots.map .has
def acceptedRoots (h : Host) (roots : List Nat) : List Nat := roots.filter h.sectors

/-- the roots `HasSector` is asked for up to and including the first one whose lookup fails -/
def storeFailure (h : Host) : List Nat → List Nat → Option (List Nat)
  | [], _ => none
  | r :: rs, asked => if h.sectorErr r then some (asked ++ [r]) else storeFailure h rs (asked ++ [r])

/-- `RPCFreeSectorsRequest.Validate`, index part (`validation.go:85-95`) -/
def indicesValid (sectors : Nat) : List Nat → List Nat → Bool
  | [], _ => true
  | i :: is, seen => if sectors ≤ i then false else if seen.contains i then false else indicesValid sectors is (i :: seen)

/-- `handleRPCFreeSectors` (`server.go:266-338`, with the roots cloned before the swap loop) -/
def decideFree (h : Host) (cid : Nat) (p : Prices) (chal : Sig) (is : List Nat) (second : Option Sig) : Decision :=
  match lockForRevision h cid with
  | .error e => reject e
  | .ok cs =>
    let ex := cs.c.body
    if !verify ex.renterKey (.challenge cid (ex.rev + 1)) chal then reject .badreq
    else if !pricesValid h p then reject .badreq
    else if maxSectorBatch < is.length then reject .badreq
    else if !indicesValid ex.filesize is [] then reject .badreq
    else if is.any (fun i => cs.roots.length ≤ i) then reject .badreq
    else
      let roots' := freeBatch cs.roots is
      let newRoot := metaRoot roots'
      match second with
      | none => reject .decoding
      | some rsig =>
        match reviseFree ex p.f newRoot is.length with
        | none => reject .payment
        | some b' =>
          if !verify ex.renterKey (.contract b') rsig then reject .badreq
          else
            let c' := signed h b' rsig
            if !contractorAccepts cs.c c' then reject .hosterr [.revise cid]
            else { eff := .revise cid c' roots', out := { cls := .ok }, evs := [.revise cid] }

/-- `handleRPCAppendSectors` (`server.go:340-411`) -/
def decideAppend (h : Host) (cid : Nat) (p : Prices) (chal : Sig) (sectors : List Nat) (second : Option Sig) : Decision :=
  if !pricesValid h p then reject .badreq
  else if sectors.length = 0 then reject .badreq
  else if maxSectorBatch < sectors.length then reject .badreq
  else
    match lockForRevision h cid with
    | .error e => reject e
    | .ok cs =>
      let ex := cs.c.body
      if !verify ex.renterKey (.challenge cid (ex.rev + 1)) chal then reject .badreq
      else
        -- `if ok, err := s.sectors.HasSector(root); err != nil { return … }` (`server.go:366-369`): the
        -- first root whose lookup fails ends the RPC, whatever the error is
        match storeFailure h sectors [] with
        | some asked => reject .hosterr (hasEvents asked)
        | none =>
        let evs := hasEvents sectors
        let acc := acceptedRoots h sectors
        let flags := sectors.map fun r => if h.sectors r then 1 else 0
        let roots' := cs.roots ++ acc
        let newRoot := metaRoot roots'
        match reviseAppend ex p.f newRoot acc.length with
        | none => reject .payment evs flags
        | some b' =>
          match second with
          | none => reject .decoding evs flags
          | some rsig =>
            if !verify ex.renterKey (.contract b') rsig then reject .badreq evs flags
            else
              let c' := signed h b' rsig
              if !contractorAccepts cs.c c' then reject .hosterr (evs ++ [.revise cid]) flags
              else { eff := .revise cid c' roots', out := { cls := .ok, vals := flags }, evs := evs ++ [.revise cid] }

/-- `handleRPCSectorRoots` (`server.go:659-709`) -/
def decideRoots (h : Host) (cid : Nat) (p : Prices) (off len : Nat) (sig : Sig) : Decision :=
  match lockForRevision h cid with
  | .error e => reject e
  | .ok cs =>
    let ex := cs.c.body
    if !pricesValid h p then reject .badreq
    else if len = 0 then reject .badreq
    else if ex.filesize < off || ex.filesize - off < len then reject .badreq
    else if maxSectorBatch < len then reject .badreq
    else
      match reviseRoots ex p.f len with
      | none => reject .payment
      | some b' =>
        if !verify ex.renterKey (.contract b') sig then reject .badreq
        else
          let c' := signed h b' sig
          if !contractorAccepts cs.c c' then reject .hosterr [.revise cid]
          else { eff := .revise cid c' cs.roots, out := { cls := .ok, vals := (cs.roots.drop off).take len },
                 evs := [.revise cid] }

/-- `RPCFundAccountsRequest.Validate` (`validation.go:283-304`) -/
def fundValid (cid : Nat) (deposits : List (Nat × Nat)) (sig : Sig) : Bool :=
  cid != 0 && sig != .zero && deposits.length != 0 && deposits.length ≤ maxAccountBatch &&
    deposits.all fun d => d.1 != 0 && d.2 != 0

def depositTotal (ds : List (Nat × Nat)) : Nat := (ds.map (·.2)).sum

/-- `handleRPCFundAccounts` (`server.go:413-453`) -/
def decideFund (h : Host) (cid : Nat) (deposits : List (Nat × Nat)) (sig : Sig) : Decision :=
  -- `ReadRequest` reads at most `maxLen` bytes, sized for `MaxAccountBatchSize` entries (`encoding.go`):
  -- a longer list does not decode
  if maxAccountBatch < deposits.length then reject .decoding
  else if !fundValid cid deposits sig then reject .badreq
  else
    match lockForRevision h cid with
    | .error e => reject e
    | .ok cs =>
      let ex := cs.c.body
      -- `totalDeposits = totalDeposits.Add(deposit.Amount)` (`server.go:434-437`): panics past 2^128-1
      if maxCurrency < depositTotal deposits then reject .io
      else
      match reviseFund ex (depositTotal deposits) with
      | none => reject .payment
      | some b' =>
        if !verify ex.renterKey (.contract b') sig then reject .badreq
        else
          let c' := signed h b' sig
          if !contractorAccepts cs.c c' then reject .hosterr [.credit false cid]
          else { eff := .credit false cid c' deposits,
                 out := { cls := .ok, vals := creditAccountsBalances h.accounts deposits },
                 evs := [.credit false cid] }

/-- `RPCReplenishAccountsRequest.Validate` (`validation.go:307-326`) -/
def replenishValid (cid : Nat) (accounts : List Nat) (target : Nat) (chal : Sig) : Bool :=
  cid != 0 && chal != .zero && accounts.length != 0 && accounts.length ≤ maxAccountBatch &&
    target != 0 && accounts.all (· != 0)

/-- the handler's duplicate check (repair of finding C15/replenish-duplicate) -/
def hasDup : List Nat → Bool
  | [] => false
  | a :: as => as.contains a || hasDup as

/-- `deposit = max(target - balance, 0)` per account, in request order -/
def replenishDeposits (bal : Nat → Nat) (target : Nat) (accounts : List Nat) : List (Nat × Nat) :=
  accounts.map fun a => (a, target - bal a)

/-- `handleRPCReplenishAccounts` / `handleRPCReplenishPools` (`server.go:455-598`) -/
def decideReplenish (h : Host) (pool : Bool) (cid : Nat) (accounts : List Nat) (target : Nat) (chal : Sig)
    (second : Option Sig) : Decision :=
  if maxAccountBatch < accounts.length then reject .decoding
  else if !replenishValid cid accounts target chal then reject .badreq
  else if hasDup accounts then reject .badreq
  else
    match lockForRevision h cid with
    | .error e => reject e
    | .ok cs =>
      let ex := cs.c.body
      if !verify ex.renterKey (.replChallenge accounts target cid ex.rev) chal then reject .badreq
      else
        let bal := if pool then poolBal h.pools else h.accounts
        let deps := replenishDeposits bal target accounts
        let amounts := deps.map (·.2)
        -- `depositSum = depositSum.Add(deposit.Amount)` (`server.go:489,563`): panics past 2^128-1
        if maxCurrency < depositTotal deps then reject .io
        else if depositTotal deps = 0 then { out := { cls := .ok, vals := amounts } }
        else
          match reviseFund ex (depositTotal deps) with
          | none => reject .payment [] amounts
          | some b' =>
            match second with
            | none => reject .decoding [] amounts
            | some rsig =>
              if !verify ex.renterKey (.contract b') rsig then reject .badreq [] amounts
              else
                let c' := signed h b' rsig
                if !contractorAccepts cs.c c' then reject .hosterr [.credit pool cid] amounts
                else { eff := .credit pool cid c' deps, out := { cls := .ok, vals := amounts },
                       evs := [.credit pool cid] }

/-- `RPCAttachPoolsRequest.Validate` / `RPCDetachPoolsRequest.Validate` (`validation.go:330-372`) -/
def linksValid (h : Host) (l : List Link) : Bool :=
  l.length != 0 && l.length ≤ maxAccountBatch &&
    l.all fun a => a.account != 0 && a.pool != 0 && a.account != a.pool && !(a.validUntil < h.now) && a.sig != .zero

/-- `handleRPCAttachPools` (`server.go:600-619`) -/
def decideAttach (h : Host) (l : List Link) : Decision :=
  if !linksValid h l then reject .badreq
  else if !(l.all fun a => verify a.pool (.attach h.hostKey a.account a.pool a.validUntil) a.sig) then reject .badreq
  else if !(l.all fun a => (h.pools a.pool).isSome) then reject .hosterr [.attach l.length]
  else { eff := .attach l, out := { cls := .ok }, evs := [.attach l.length] }

/-- `handleRPCDetachPools` (`server.go:621-640`) -/
def decideDetach (h : Host) (l : List Link) : Decision :=
  if !linksValid h l then reject .badreq
  else if !(l.all fun d =>
      verify d.pool (.detach h.hostKey d.account d.pool d.validUntil) d.sig ||
      verify d.account (.detach h.hostKey d.account d.pool d.validUntil) d.sig) then reject .badreq
  else { eff := .detach l, out := { cls := .ok }, evs := [.detach l.length] }

/-- `handleRPCReadSector` (`server.go:204-246`, with the alignment check before the debit) -/
def decideRead (h : Host) (p : Prices) (t : Token) (root off len : Nat) : Decision :=
  if !pricesValid h p then reject .badreq
  else if !tokenValid h t then reject .badreq
  else if len = 0 then reject .badreq
  else if sectorSize < off || sectorSize - off < len then reject .badreq
  else if (off + len) % leafSize != 0 then reject .badreq
  else if off % leafSize != 0 || len % leafSize != 0 then reject .badreq
  else if !h.sectors root then reject .hosterr [.has root]
  else
    let cost := readCost p.f len
    if !canDebit h t.account cost then reject .payment [.has root, .debit t.account cost false]
    else { eff := .debit t.account cost, out := { cls := .ok, vals := [len] },
           evs := [.has root, .debit t.account cost true, .read root off len] }

/-- `handleRPCWriteSector` (`server.go:248-280`) -/
def decideWrite (h : Host) (p : Prices) (t : Token) (len : Nat) (data : Option Nat) : Decision :=
  if !pricesValid h p then reject .badreq
  else if !tokenValid h t then reject .badreq
  else if len = 0 then reject .badreq
  else if len % leafSize != 0 then reject .badreq
  else if sectorSize < len then reject .badreq
  else
    match data with
    | none => reject .decoding
    | some root =>
      let cost := writeCost p.f len
      if !canDebit h t.account cost then reject .payment [.debit t.account cost false]
      else { eff := .debitStore t.account cost root, out := { cls := .ok, vals := [root] },
             evs := [.debit t.account cost true, .store root] }

/-- `handleRPCVerifySector` (`server.go:1236-1264`) -/
def decideVerify (h : Host) (p : Prices) (t : Token) (root leaf : Nat) : Decision :=
  if !pricesValid h p then reject .badreq
  else if !tokenValid h t then reject .badreq
  else if leavesPerSector ≤ leaf then reject .badreq
  else if !h.sectors root then reject .hosterr [.has root]
  else
    let cost := verifyCost p.f
    if !canDebit h t.account cost then reject .payment [.has root, .debit t.account cost false]
    else { eff := .debit t.account cost, out := { cls := .ok },
           evs := [.has root, .debit t.account cost true, .read root (leafSize * leaf) 64] }

def b2n (b : Bool) : Nat := if b then 1 else 0

/-- `handleRPCLatestRevision` (`server.go:642-657`) -/
def decideLatest (h : Host) (cid : Nat) : Decision :=
  match h.contracts cid with
  | none => reject .hosterr
  | some cs =>
    let b := cs.c.body
    { out := { cls := .ok, vals := [b.rev, b.renterOut, b.hostOut, b.missedHost, b.filesize, b.capacity,
                                     b2n (revisable h cs), b2n cs.renewed] } }

def decide (h : Host) : Req → Decision
  | .garbage => reject .decoding
  | .latest cid => decideLatest h cid
  | .balance a => { out := { cls := .ok, vals := [h.accounts a] } }
  | .read p t root off len => decideRead h p t root off len
  | .write p t len data => decideWrite h p t len data
  | .verify p t root leaf => decideVerify h p t root leaf
  | .free cid p chal is second => decideFree h cid p chal is second
  | .append cid p chal sectors second => decideAppend h cid p chal sectors second
  | .roots cid p off len sig => decideRoots h cid p off len sig
  | .fund cid ds sig => decideFund h cid ds sig
  | .replenish pool cid accounts target chal second => decideReplenish h pool cid accounts target chal second
  | .attach l => decideAttach h l
  | .detach l => decideDetach h l

/-- what the contractor / sector store do with the call (`testutil/host.go`) -/
def apply (h : Host) : Effect → Host
  | .none => h
  | .revise cid c roots =>
    match h.contracts cid with
    | none => h
    | some cs => { h with contracts := upd h.contracts cid (some { cs with c := c, roots := roots }) }
  | .credit pool cid c ds =>
    match h.contracts cid with
    | none => h
    | some cs =>
      let h' := { h with contracts := upd h.contracts cid (some { cs with c := c }) }
      if pool then { h' with pools := creditPools h.pools ds } else { h' with accounts := creditAccounts h.accounts ds }
  | .debit a cost => debit h a cost
  | .debitStore a cost root => { debit h a cost with sectors := upd h.sectors root true }
  | .attach l => { h with attached := attachAll h.attached l }
  | .detach l => { h with attached := detachAll h.attached l }

def step (h : Host) (r : Req) : Host × Out × List Ev :=
  let d := decide h r
  (apply h d.eff, d.out, d.evs)

/-! ## the environment around the RPCs -/

/-- things that happen to the host outside the revising RPCs -/
inductive Op where
  | rpc (r : Req)
  /-- the chain tip moves -/
  | tip (n : Nat)
  /-- time passes -/
  | time (n : Nat)
  /-- `AddV2Contract` at the end of `handleRPCFormContract`: `rhp4.NewContract` starts at zero size
  with both signatures checked (`host.go:171-198`) -/
  | form (cid : Nat) (c : Contract)
  /-- `RenewV2Contract` at the end of renew/refresh: the new contract copies size and root
  (`rhp4.RenewContract`, `RefreshContract*Rollover`, `rhp.go:928-1075`), the host copies the roots
  (`host.go:203-243`) -/
  | renew (cid newcid : Nat) (c : Contract)
  /-- a sector reaches the store outside the RPCs (the harness stores it directly) -/
  | sector (root : Nat)
  /-- the sector store starts / stops failing lookups of a root -/
  | sectorErr (root : Nat) (failing : Bool)
  deriving Repr, Inhabited

def formOk (h : Host) (cid : Nat) (c : Contract) : Bool :=
  (h.contracts cid).isNone &&
    verify c.body.renterKey (.contract c.body) c.renterSig &&
    verify c.body.hostKey (.contract c.body) c.hostSig &&
    c.body.filesize == 0 && c.body.capacity == 0 && c.body.root == .zero && c.body.rev == 0 &&
    -- `rhp4.NewContract`: MissedHostValue = collateral ≤ HostOutput; ExpirationHeight = ProofHeight + 144
    Decidable.decide (c.body.missedHost ≤ c.body.hostOut) && Decidable.decide (c.body.proofHeight < c.body.expHeight)

def renewOk (h : Host) (cid newcid : Nat) (c : Contract) : Bool :=
  match h.contracts cid with
  | none => false
  | some cs =>
    (h.contracts newcid).isNone && cid != newcid && !cs.renewed &&
      verify cs.c.body.renterKey (.contract c.body) c.renterSig &&
      verify cs.c.body.hostKey (.contract c.body) c.hostSig &&
      c.body.renterKey == cs.c.body.renterKey && c.body.hostKey == cs.c.body.hostKey &&
      -- renew: `NewContract.Capacity = fc.Filesize` (`rhp.go:936`); refresh keeps the capacity (`rhp.go:1001,1063`)
      c.body.filesize == cs.c.body.filesize &&
      (c.body.capacity == cs.c.body.filesize || c.body.capacity == cs.c.body.capacity) &&
      c.body.root == cs.c.body.root && c.body.rev == 0 &&
      Decidable.decide (c.body.missedHost ≤ c.body.hostOut) && Decidable.decide (c.body.proofHeight < c.body.expHeight)

def stepOp (h : Host) : Op → Host × Out × List Ev
  | .rpc r => step h r
  | .tip n => ({ h with tip := n }, { cls := .ok }, [])
  | .time n => ({ h with now := n }, { cls := .ok }, [])
  | .sector r => ({ h with sectors := upd h.sectors r true }, { cls := .ok }, [])
  | .sectorErr r b => ({ h with sectorErr := upd h.sectorErr r b }, { cls := .ok }, [])
  | .form cid c =>
    if formOk h cid c then
      ({ h with contracts := upd h.contracts cid (some { c := c, roots := [], renewed := false }) }, { cls := .ok }, [])
    else (h, { cls := .hosterr }, [])
  | .renew cid newcid c =>
    if renewOk h cid newcid c then
      match h.contracts cid with
      | none => (h, { cls := .hosterr }, [])
      | some cs =>
        let m := upd h.contracts cid (some { cs with renewed := true })
        ({ h with contracts := upd m newcid (some { c := c, roots := cs.roots, renewed := false }) },
          { cls := .ok }, [])
    else (h, { cls := .hosterr }, [])

def run (h : Host) : List Op → Host
  | [] => h
  | op :: ops => run (stepOp h op).1 ops

end Verif.Rhp
