/-
M1 — key/value backends of `chain/db.go` (MemDB, CacheDB) and the abstract
specification they must refine (C17, and the durable/pending split used by C03).

Core-only (Std).  Keys, values and bucket names are `Nat` ids assigned by the
harness.  Inner maps are `Std.ExtTreeMap` (extensional, iteration is sorted — the
harness sorts what comes out of Go's maps before comparing); the bucket dimension
is a function `Nat → Option _` because no operation enumerates buckets.

Every definition cites the Go lines it mirrors (`/repo/chain/db.go`).
-/
import Std.Data.ExtTreeMap
import Std.Data.ExtTreeMap.Lemmas

namespace Verif.KV

abbrev KMap := Std.ExtTreeMap Nat Nat
abbrev KSet := Std.ExtTreeMap Nat Unit

/-- operations of the `chain.DB` / `chain.DBBucket` interfaces.  A bucket handle is
re-fetched for every operation (as `DBStore.bucket` does). -/
inductive Op where
  | create (b : Nat)
  | put (b k v : Nat)
  | del (b k : Nat)
  | get (b k : Nat)
  | iter (b : Nat)
  | flush
  | cancel
  deriving Repr, DecidableEq

inductive Out where
  | ok
  | err                       -- CreateBucket returned an error
  | nobucket                  -- `Bucket(name)` returned nil
  | val (v : Option Nat)      -- Get: nil ↦ none
  | kvs (m : KMap)            -- Iter: the set of pairs yielded (the driver prints it sorted by key)
  deriving Repr

/-- decidable equality, written out so that the evidence for `a = b` stays inside proofs
(the derived instance casts the `Decidable` value along `a = b`, which the kernel cannot
evaluate for two differently balanced trees representing the same `KMap`; the examples
in `Props/C17.lean` are evaluated by `decide`). -/
instance : DecidableEq Out := fun x y =>
  match x, y with
  | .ok, .ok => isTrue rfl
  | .ok, .err => isFalse nofun
  | .ok, .nobucket => isFalse nofun
  | .ok, .val _ => isFalse nofun
  | .ok, .kvs _ => isFalse nofun
  | .err, .ok => isFalse nofun
  | .err, .err => isTrue rfl
  | .err, .nobucket => isFalse nofun
  | .err, .val _ => isFalse nofun
  | .err, .kvs _ => isFalse nofun
  | .nobucket, .ok => isFalse nofun
  | .nobucket, .err => isFalse nofun
  | .nobucket, .nobucket => isTrue rfl
  | .nobucket, .val _ => isFalse nofun
  | .nobucket, .kvs _ => isFalse nofun
  | .val _, .ok => isFalse nofun
  | .val _, .err => isFalse nofun
  | .val _, .nobucket => isFalse nofun
  | .val a, .val b =>
      if h : a = b then isTrue (congrArg Out.val h) else isFalse (fun e => h (Out.val.inj e))
  | .val _, .kvs _ => isFalse nofun
  | .kvs _, .ok => isFalse nofun
  | .kvs _, .err => isFalse nofun
  | .kvs _, .nobucket => isFalse nofun
  | .kvs _, .val _ => isFalse nofun
  | .kvs a, .kvs b =>
      if h : a = b then isTrue (congrArg Out.kvs h) else isFalse (fun e => h (Out.kvs.inj e))

/-! ## Specification: a working image and a durable image -/

structure Spec where
  working : Nat → Option KMap
  durable : Nat → Option KMap

def Spec.init : Spec := ⟨fun _ => none, fun _ => none⟩

def upd {α} (f : Nat → α) (b : Nat) (x : α) : Nat → α := fun b' => if b' = b then x else f b'

@[simp] theorem upd_same {α} (f : Nat → α) (b : Nat) (x : α) : upd f b x b = x := by simp [upd]
@[simp] theorem upd_other {α} (f : Nat → α) (b b' : Nat) (x : α) (h : b' ≠ b) : upd f b x b' = f b' := by
  simp [upd, h]

def Spec.step (s : Spec) : Op → Spec × Out
  | .create b => match s.working b with
      | some _ => (s, .err)
      | none => ({ s with working := upd s.working b (some ∅) }, .ok)
  | .put b k v => match s.working b with
      | none => (s, .nobucket)
      | some m => ({ s with working := upd s.working b (some (m.insert k v)) }, .ok)
  | .del b k => match s.working b with
      | none => (s, .nobucket)
      | some m => ({ s with working := upd s.working b (some (m.erase k)) }, .ok)
  | .get b k => match s.working b with
      | none => (s, .nobucket)
      | some m => (s, .val m[k]?)
  | .iter b => match s.working b with
      | none => (s, .nobucket)
      | some m => (s, .kvs m)
  | .flush => ({ s with durable := s.working }, .ok)
  | .cancel => ({ s with working := s.durable }, .ok)

/-! ## MemDB (`db.go:79-201`) -/

structure MemDB where
  buckets : Nat → Option KMap
  puts : Nat → Option KMap
  dels : Nat → Option KSet

def MemDB.init : MemDB := ⟨fun _ => none, fun _ => none, fun _ => none⟩

/-- `MemDB.Bucket`: nil iff the name is in none of the three maps (`:152-159`). -/
def MemDB.has (d : MemDB) (b : Nat) : Bool :=
  (d.buckets b).isSome || (d.puts b).isSome || (d.dels b).isSome

/-- `MemDB.get` (`:118-125`). -/
def MemDB.get (d : MemDB) (b k : Nat) : Option Nat :=
  match (d.puts b).bind (·[k]?) with
  | some v => some v
  | none =>
    if ((d.dels b).map (·.contains k)).getD false then none
    else (d.buckets b).bind (·[k]?)

/-- `MemDB.put` (`:127-137`); `none` is the "bucket does not exist" error. -/
def MemDB.put (d : MemDB) (b k v : Nat) : Option MemDB :=
  let puts? : Option KMap := match d.puts b with
    | some p => some p
    | none => if (d.buckets b).isNone then none else some ∅
  match puts? with
  | none => none
  | some p => some { d with
      puts := upd d.puts b (some (p.insert k v))
      dels := match d.dels b with
        | none => d.dels                       -- delete on a nil map is a no-op
        | some ds => upd d.dels b (some (ds.erase k)) }

/-- `MemDB.delete` (`:139-149`). -/
def MemDB.delete (d : MemDB) (b k : Nat) : Option MemDB :=
  let dels? : Option KSet := match d.dels b with
    | some p => some p
    | none => if (d.buckets b).isNone then none else some ∅
  match dels? with
  | none => none
  | some ds => some { d with
      dels := upd d.dels b (some (ds.insert k ()))
      puts := match d.puts b with
        | none => d.puts
        | some p => upd d.puts b (some (p.erase k)) }

/-- `MemDB.CreateBucket` (`:161-169`).  `strict = true` is the repaired code (an
uncommitted bucket also counts as existing); `strict = false` is the pinned code. -/
def MemDB.create (d : MemDB) (b : Nat) : Option MemDB :=
  if d.has b then none
  else some { d with puts := upd d.puts b (some ∅), dels := upd d.dels b (some ∅) }

/-- `MemDB.Flush` (`:86-106`): all puts are merged, then all deletes, and both
pending maps are emptied. -/
def MemDB.flush (d : MemDB) : MemDB :=
  { buckets := fun b =>
      let afterPuts : Option KMap := match d.puts b with
        | none => d.buckets b
        | some p => some (((d.buckets b).getD ∅) ∪ p)
      match d.dels b with
      | none => afterPuts
      | some ds => some ((afterPuts.getD ∅).filter fun k _ => !ds.contains k)
    puts := fun _ => none
    dels := fun _ => none }

/-- `MemDB.Cancel` (`:109-116`). -/
def MemDB.cancel (d : MemDB) : MemDB :=
  { d with puts := fun _ => none, dels := fun _ => none }

/-- `memBucket.Iter` (`:177-201`, repaired): committed pairs with pending puts
overriding and pending deletes hidden, followed by pending puts to uncommitted
keys.  As a sorted map. -/
def MemDB.iterMap (d : MemDB) (b : Nat) : KMap :=
  let committed := (d.buckets b).getD ∅
  let p := (d.puts b).getD ∅
  let ds := (d.dels b).getD ∅
  (committed.filter fun k _ => !ds.contains k || p.contains k) ∪ p

def MemDB.step (d : MemDB) : Op → MemDB × Out
  | .create b => match d.create b with
      | none => (d, .err)
      | some d' => (d', .ok)
  | .put b k v => if !d.has b then (d, .nobucket) else
      match d.put b k v with
      | none => (d, .err)
      | some d' => (d', .ok)
  | .del b k => if !d.has b then (d, .nobucket) else
      match d.delete b k with
      | none => (d, .err)
      | some d' => (d', .ok)
  | .get b k => if !d.has b then (d, .nobucket) else (d, .val (d.get b k))
  | .iter b => if !d.has b then (d, .nobucket) else (d, .kvs (d.iterMap b))
  | .flush => (d.flush, .ok)
  | .cancel => (d.cancel, .ok)

/-! ## CacheDB over an arbitrary inner backend (`db.go:203-346`)

The inner backend is any step machine; `CacheDB` only uses its `Bucket`,
`CreateBucket`, `Get`, `Put`, `Delete`, `Iter`, `Flush`, `Cancel`.  The overlay
`mem` is a `MemDB` that is never flushed (its `buckets` stay empty). -/

structure Backend (σ : Type) where
  step : σ → Op → σ × Out

structure CacheDB (σ : Type) where
  mem : MemDB
  inner : σ

/-- does the inner backend have bucket `b`?  (`db.db.Bucket(name) != nil`): probed
with a `get`, which never changes state. -/
def innerHas {σ} (B : Backend σ) (s : σ) (b : Nat) : Bool :=
  match (B.step s (.get b 0)).2 with
  | .nobucket => false
  | _ => true

def innerGet {σ} (B : Backend σ) (s : σ) (b k : Nat) : Option Nat :=
  match (B.step s (.get b k)).2 with
  | .val v => v
  | _ => none

def innerIter {σ} (B : Backend σ) (s : σ) (b : Nat) : KMap :=
  match (B.step s (.iter b)).2 with
  | .kvs m => m
  | _ => ∅

/-- `CacheDB.Bucket` (`:262-271`): creates the overlay bucket on demand. -/
def CacheDB.ensure {σ} (c : CacheDB σ) (b : Nat) : CacheDB σ :=
  if c.mem.has b then c else
    match c.mem.create b with
    | some m => { c with mem := m }
    | none => c

/-- apply a list of ops to the inner backend, ignoring outputs (`Flush` ignores
the errors of the inner `Put`/`Delete`). -/
def runInner {σ} (B : Backend σ) (s : σ) (ops : List Op) : σ :=
  ops.foldl (fun s op => (B.step s op).1) s

/-- pending work of the overlay for the bucket names in `bs`, puts first (sorted
by key inside a bucket) then deletes (`CacheDB.Flush`, `:284-336`). -/
def CacheDB.flushOps (m : MemDB) (bs : List Nat) : List Op :=
  (bs.flatMap fun b => ((m.puts b).getD ∅).toList.filterMap fun (k, v) =>
      if ((m.dels b).getD ∅).contains k then none else some (Op.put b k v)) ++
  (bs.flatMap fun b => ((m.dels b).getD ∅).toList.map fun (k, _) => Op.del b k)

/-- The overlay after `Flush`: every present map is emptied but stays present
(`clear`, `:325-335`). -/
def MemDB.cleared (m : MemDB) : MemDB :=
  { buckets := fun b => (m.buckets b).map fun _ => ∅
    puts := fun b => (m.puts b).map fun _ => ∅
    dels := fun b => (m.dels b).map fun _ => ∅ }

/-- `names` is the list of bucket names `Flush` ranges over (Go ranges over the keys of
`db.mem.puts` / `db.mem.dels`, in arbitrary order; the bucket dimension of the model is a
function, so the names are supplied: the driver passes every name seen so far, see
`CacheDB.stepN`; `cachedb_step_refines` holds for every list that contains the names of
the overlay's buckets, in any order). -/
def CacheDB.step {σ} (B : Backend σ) (names : List Nat) (c : CacheDB σ) : Op → CacheDB σ × Out
  | .create b =>
      match B.step c.inner (.create b) with
      | (s', .ok) =>
          let c' : CacheDB σ := { c with inner := s' }
          (match c'.mem.create b with
           | none => (c', .err)
           | some m => ({ c' with mem := m }, .ok))
      | (s', _) => ({ c with inner := s' }, .err)
  | .put b k v => if !innerHas B c.inner b then (c, .nobucket) else
      let c := c.ensure b
      (match c.mem.put b k v with
       | none => (c, .err)
       | some m => ({ c with mem := m }, .ok))
  | .del b k => if !innerHas B c.inner b then (c, .nobucket) else
      let c := c.ensure b
      (match c.mem.delete b k with
       | none => (c, .err)
       | some m => ({ c with mem := m }, .ok))
  | .get b k => if !innerHas B c.inner b then (c, .nobucket) else
      let c := c.ensure b
      -- `cacheBucket.Get` (`:208-213`, repaired: a pending delete hides the inner value)
      (match c.mem.get b k with
       | some v => (c, .val (some v))
       | none =>
         if (((c.mem.dels b).map (·.contains k)).getD false) then (c, .val none)
         else (c, .val (innerGet B c.inner b k)))
  | .iter b => if !innerHas B c.inner b then (c, .nobucket) else
      let c := c.ensure b
      -- `cacheBucket.Iter` (`:224-241`): overlay pairs, then inner pairs not shadowed by a
      -- pending put or delete (the two parts have disjoint keys, so the yielded pairs form
      -- the map `inn ∪ over`)
      let over := c.mem.iterMap b
      let p := (c.mem.puts b).getD ∅
      let ds := (c.mem.dels b).getD ∅
      let inn := (innerIter B c.inner b).filter fun k _ => !(p.contains k || ds.contains k)
      (c, .kvs (inn ∪ over))
  | .flush =>
      let s1 := runInner B c.inner (CacheDB.flushOps c.mem names)
      let s2 := (B.step s1 .flush).1
      ({ mem := c.mem.cleared, inner := s2 }, .ok)
  | .cancel =>
      ({ mem := c.mem.cancel, inner := (B.step c.inner .cancel).1 }, .ok)

def specBackend : Backend Spec := ⟨Spec.step⟩
def memBackend : Backend MemDB := ⟨MemDB.step⟩

/-- the bucket name an operation mentions -/
def Op.bucket? : Op → Option Nat
  | .create b | .put b _ _ | .del b _ | .get b _ | .iter b => some b
  | _ => none

/-- bookkeeping of the bucket names seen so far: a name is added only when it is not
already contained (so the list never has duplicates). -/
def addName (names : List Nat) (op : Op) : List Nat :=
  match op.bucket? with
  | some b => if names.contains b then names else b :: names
  | none => names

/-- `CacheDB.step` together with the bookkeeping of the names seen so far — this is the
function the driver runs against the real `CacheDB`. -/
def CacheDB.stepN {σ} (B : Backend σ) (cn : CacheDB σ × List Nat) (op : Op) :
    (CacheDB σ × List Nat) × Out :=
  let names := addName cn.2 op
  let r := CacheDB.step B names cn.1 op
  ((r.1, names), r.2)

/-- `NewCacheDB(db)` on a fresh inner database (`db.go:353-360`): empty overlay, no names -/
def CacheDB.init {σ} (x : σ) : CacheDB σ × List Nat := (⟨MemDB.init, x⟩, [])

/-- a `CacheDB` (with its name bookkeeping) is itself a backend, so caches can be stacked -/
def cacheBackend {σ} (B : Backend σ) : Backend (CacheDB σ × List Nat) := ⟨CacheDB.stepN B⟩

end Verif.KV
