/-
M10 on M2 — the syncer's decision logic (`Model/Sync.lean`) driving the lead's chain-manager
model (`Model/Chain.lean`) instead of the minimal manager of `Model/Sync.lean`.

The gates (`gateBatch`, `headerPhase`, `mkReqs`, …) are pure functions of the peer's answers and
the block universe and are reused unchanged; only what reaches the manager changes: below the
v2 require height `Chain.addBlocks`, at/above it `Chain.addValidatedV2` (with as many states as
blocks, as `workFn` produces them).  The two universes are the same blocks seen through
`toChain`: `hdrOk` is `ValidateOrphan` (`orphan`), `bodyOk` is `ValidateBlock` (`body`).

Core-only.
-/
import Verif.Model.Sync
import Verif.Model.Chain

namespace Verif.SyncC
open Verif.Sync

/-- the block universe of the syncer model as the chain-manager model sees it -/
def toChain (U : Univ) : Nat → Chain.Blk := fun i =>
  ⟨(U i).parent, (U i).height, (U i).work, (U i).diff, (U i).orphan, (U i).body, (U i).future, (U i).v2⟩

/-- one finished request reaching the manager (parallel_sync.go:115-133), on `Chain.Mgr` -/
def stepBatchC (U : Univ) (cfg : Cfg) (m : Chain.Mgr) (q : Req) (r : BResp) : Chain.Mgr × Dec :=
  match gateBatch U cfg q r with
  | .retry => (m, .ignore)
  | .ban => (m, .ban)
  | .ok bs pre =>
    let a := if pre then Chain.addValidatedV2 (toChain U) m bs bs.length else Chain.addBlocks (toChain U) m bs
    (a.1, if a.2.isSome then .ban else .apply)

def runBatchesC (U : Univ) (cfg : Cfg) : Chain.Mgr → List Req → List BResp → Chain.Mgr × Dec
  | m, [], _ => (m, .apply)
  | m, _ :: _, [] => (m, .ignore)
  | m, q :: qs, r :: rs =>
    let s := stepBatchC U cfg m q r
    if s.2 = .apply then runBatchesC U cfg s.1 qs rs else s

/-- one iteration of `syncLoop` for one unsynced peer, on `Chain.Mgr` -/
def stepSyncC (U : Univ) (cfg : Cfg) (m : Chain.Mgr) (hs : List HResp) (bs : List BResp) : Chain.Mgr × Dec :=
  match headerPhase U (history m.best) hs with
  | (.drop, _) => (m, .drop)
  | (.synced, _) => (m, .ignore)
  | (.go base hdrs _, _) => runBatchesC U cfg m (mkReqs U cfg.perReq base hdrs) bs

/-- `RPCRelayV2BlockOutline` handler on `Chain.Mgr`: `known` is "a state is stored", the parent's
state is complete iff the parent was applied (`recs = ⟨body, supplement⟩`) -/
def stepOutlineC (U : Univ) (m : Chain.Mgr) (b : Nat) (ms : Missing) : Chain.Mgr × Dec :=
  if !m.states (U b).parent then (m, .resync)
  else if (m.recs (U b).parent == some ⟨true, true⟩) && m.states (U b).cid then (m, .ignore)
  else if (U b).parent != (U m.tip).cid then (m, .resync)
  else if !(U b).pow then (m, .ban)
  else match ms with
    | .fetchFail => (m, .resync)
    | .wrong => (m, .ban)
    | _ =>
      let a := Chain.addBlocks (toChain U) m [b]
      (a.1, if a.2.isSome then .ban else .apply)

/-- every way a peer can reach the manager (cf. `Sync.step`) -/
def stepC (U : Univ) (cfg : Cfg) (m : Chain.Mgr) : Ev → Chain.Mgr × Dec
  | .sync hs bs => stepSyncC U cfg m hs bs
  | .batch q r => stepBatchC U cfg m q r
  | .relayHeader _ => (m, .ignore)      -- never touches the chain; its decision is `Sync.gateRelayHeader`
  | .relayOutline b ms => stepOutlineC U m b ms
  | .relayTxns k e a v => (m, gateRelayTxns k e a v)

def runC (U : Univ) (cfg : Cfg) : Chain.Mgr → List Ev → Chain.Mgr
  | m, [] => m
  | m, e :: es => runC U cfg (stepC U cfg m e).1 es

end Verif.SyncC
