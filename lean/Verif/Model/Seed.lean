/-
M12 `Seed` — the BIP-39 codec and key-derivation pre-image of `/repo/wallet/seed.go` (C20).

Core-only.  Two layers:

* **code level** (`nibble`, `encodeIdx`, `decodeOpts`, `decodePhrase`, `encodePhrase`, `kdfInput`):
  the computation exactly as `wallet/seed.go` performs it — a `(hi, lo)` pair of `uint64`s,
  `<<`/`>>`/`|`/`&` with the literals of the source, truncation of every left shift to 64 bits
  (`shl`), the order of the checks in `decodeBIP39Phrase`.  `uint64` values are `Nat`s `< 2^64`;
  `shl` carries the explicit `% 2^64`.
* **spec level** (`specEncode`, `specDecode`): the words are the 12 base-2048 digits of
  `e * 16 + ck e`.

SHA-256 is a parameter: `sha0 e` is the first byte of `sha256(entropy)` (the harness passes the
real byte, the model applies the mask and shift of `bip39checksum`), so the model needs no SHA.
`encoding/binary` (`BigEndian.Uint64`, `PutUint64`) and `strings.Fields`/`strings.Join` are library
functions modelled by their documented behaviour (`be64`, `putBe64`, `putLe64`, `fields`,
`joinSp`).  BLAKE2b and Ed25519 are not modelled: `kdfInput`/`seedInput` are the byte strings that
are hashed.
-/
namespace Verif.Seed

/-! ### constants of the source (checked against the literals extracted from `seed.go`
by `Verif/Lemmas/SeedWordlist.lean`) -/

/-- `make([]string, 12)` / `n != 12` (seed.go:68, 87) -/
abbrev nWords : Nat := 12
/-- `>> 11`, `<< 11`, `64-11` (seed.go:76-77, 99-100) -/
abbrev wordBits : Nat := 11
/-- `>> 7`, `<< 7`, `64-7` (seed.go:72-73, 106-107) -/
abbrev lastBits : Nat := 7
/-- `<< 4`, `>> 4` (seed.go:59, 70, 107) -/
abbrev ckBits : Nat := 4
/-- `0x7FF` (seed.go:75) -/
abbrev wordMask : Nat := 0x7FF
/-- `0x7F` (seed.go:70) -/
abbrev lastMask : Nat := 0x7F
/-- `0xF` (seed.go:105) -/
abbrev ckMask : Nat := 0xF
/-- `0xF0` (seed.go:59) -/
abbrev hashMask : Nat := 0xF0
/-- `len(bip39EnglishWordList)` -/
abbrev nList : Nat := 2048

/-! ### `uint64` arithmetic -/

/-- Go `x << k` on `uint64`: bits shifted past bit 63 are lost -/
def shl (x k : Nat) : Nat := (x <<< k) % 2 ^ 64
/-- Go `x >> k` on `uint64` -/
def shr (x k : Nat) : Nat := x >>> k

/-- the 128-bit number held in a `(hi, lo)` pair -/
def pairVal (p : Nat × Nat) : Nat := p.1 * 2 ^ 64 + p.2

/-! ### `encoding/binary` -/

/-- `binary.BigEndian.Uint64(b)` for `b` of length 8 (library, by its specification) -/
def be64 (bs : List Nat) : Nat := bs.foldl (fun a b => a * 256 + b) 0

/-- `binary.BigEndian.PutUint64(b, x)` -/
def putBe64 (x : Nat) : List Nat :=
  [x / 2 ^ 56 % 256, x / 2 ^ 48 % 256, x / 2 ^ 40 % 256, x / 2 ^ 32 % 256,
   x / 2 ^ 24 % 256, x / 2 ^ 16 % 256, x / 2 ^ 8 % 256, x % 256]

/-- `binary.LittleEndian.PutUint64(b, x)` -/
def putLe64 (x : Nat) : List Nat :=
  [x % 256, x / 2 ^ 8 % 256, x / 2 ^ 16 % 256, x / 2 ^ 24 % 256,
   x / 2 ^ 32 % 256, x / 2 ^ 40 % 256, x / 2 ^ 48 % 256, x / 2 ^ 56 % 256]

/-- seed.go:64-65: `hi := BigEndian.Uint64(entropy[:8]); lo := BigEndian.Uint64(entropy[8:])` -/
def pairOfBytes (entropy : List Nat) : Nat × Nat :=
  (be64 (entropy.take 8), be64 ((entropy.drop 8).take 8))

/-- seed.go:110-111: `PutUint64(entropy[:8], hi); PutUint64(entropy[8:], lo)` -/
def bytesOfPair (p : Nat × Nat) : List Nat := putBe64 p.1 ++ putBe64 p.2

/-! ### checksum (seed.go:57-60) -/

/-- `uint64((hash[0] & 0xF0) >> 4)` where `h0 = hash[0]` -/
def nibble (h0 : Nat) : Nat := shr (h0 &&& hashMask) ckBits

/-! ### encoder, code level (seed.go:62-81); words are indices into the word list -/

/-- the loop of seed.go:74-78; `n` = remaining iterations, `acc` = `words[i+1:]` -/
def encLoop : Nat → Nat → Nat → List Nat → List Nat
  | 0, _, _, acc => acc
  | n + 1, hi, lo, acc =>
    encLoop n (shr hi wordBits) (shr lo wordBits ||| shl hi (64 - wordBits))
      ((lo &&& wordMask) :: acc)

/-- seed.go:70-78.  `ck` is `bip39checksum` as a function of the entropy's 128-bit value. -/
def encodeIdx (ck : Nat → Nat) (hi lo : Nat) : List Nat :=
  let w := shl (lo &&& lastMask) ckBits ||| ck (pairVal (hi, lo))
  encLoop (nWords - 1) (shr hi lastBits) (shr lo lastBits ||| shl hi (64 - lastBits)) [w]

/-- the encoder on the entropy's value -/
def encode (ck : Nat → Nat) (e : Nat) : List Nat := encodeIdx ck (e / 2 ^ 64) (e % 2 ^ 64)

/-! ### decoder, code level (seed.go:83-118) -/

inductive Err where
  | count     -- "wrong number of words in seed phrase"
  | unknown   -- "unrecognized word"
  | checksum  -- "invalid checksum"
  deriving DecidableEq, Repr

/-- decidable equality of results (core has no instance for `Except`); used by the examples -/
instance instDecEqExceptErr {α} [DecidableEq α] : DecidableEq (Except Err α)
  | .ok a, .ok b => if h : a = b then isTrue (by rw [h]) else isFalse (fun e => h (Except.ok.inj e))
  | .error a, .error b =>
    if h : a = b then isTrue (by rw [h]) else isFalse (fun e => h (Except.error.inj e))
  | .ok _, .error _ => isFalse (fun e => by cases e)
  | .error _, .ok _ => isFalse (fun e => by cases e)

/-- one iteration of seed.go:98-101 -/
def decStep (p : Nat × Nat) (v : Nat) : Nat × Nat :=
  (shl p.1 wordBits ||| shr p.2 (64 - wordBits), shl p.2 wordBits ||| v)

/-- seed.go:87-117 on the tokens after the `wordMap` lookup (`none` = not in the map).  The
order of the checks is the code's: count, then membership of every word, then checksum. -/
def decodeOpts (ck : Nat → Nat) (opts : List (Option Nat)) : Except Err (Nat × Nat) :=
  if opts.length ≠ nWords then .error .count
  else if opts.any Option.isNone then .error .unknown
  else
    let idx := opts.map (fun o => o.getD 0)            -- `wordMap[v]`
    let p := (idx.take (nWords - 1)).foldl decStep (0, 0)
    let w := idx.getD (nWords - 1) 0
    let checksum := w &&& ckMask
    let hi := shl p.1 lastBits ||| shr p.2 (64 - lastBits)
    let lo := shl p.2 lastBits ||| shr w ckBits
    if ck (pairVal (hi, lo)) ≠ checksum then .error .checksum else .ok (hi, lo)

/-- index-level view of the word map: an index is a word iff it is `< 2048` -/
def idxLookup (i : Nat) : Option Nat := if i < nList then some i else none

/-- the decoder on word indices, returning the entropy's value -/
def decode (ck : Nat → Nat) (ws : List Nat) : Except Err Nat :=
  (decodeOpts ck (ws.map idxLookup)).map pairVal

/-! ### specification level: base-2048 digits of `e * 16 + ck e` -/

/-- the `n` least significant base-2048 digits of `x`, most significant first -/
def digitsBE : Nat → Nat → List Nat
  | 0, _ => []
  | n + 1, x => digitsBE n (x / 2048) ++ [x % 2048]

/-- the number whose base-2048 digits (most significant first) are `ws` -/
def value (ws : List Nat) : Nat := ws.foldl (fun a w => a * 2048 + w) 0

def specEncode (ck : Nat → Nat) (e : Nat) : List Nat := digitsBE 12 (e * 16 + ck e)

def specDecode (ck : Nat → Nat) (ws : List Nat) : Except Err Nat :=
  if ws.length ≠ 12 then .error .count
  else if ws.any (fun w => decide (2048 ≤ w)) then .error .unknown
  else if ck (value ws / 16) ≠ value ws % 16 then .error .checksum
  else .ok (value ws / 16)

/-! ### tokeniser and phrases (strings are lists of Unicode code points) -/

/-- `unicode.IsSpace` -/
def isSpace (c : Nat) : Bool :=
  c == 9 || c == 10 || c == 11 || c == 12 || c == 13 || c == 32 || c == 0x85 || c == 0xA0 ||
  c == 0x1680 || (decide (0x2000 ≤ c) && decide (c ≤ 0x200A)) || c == 0x2028 || c == 0x2029 ||
  c == 0x202F || c == 0x205F || c == 0x3000

/-- `strings.Fields`: maximal runs of non-space code points; `cur` is the run being read,
reversed -/
def fieldsAux : List Nat → List Nat → List (List Nat)
  | [], cur => if cur.isEmpty then [] else [cur.reverse]
  | c :: cs, cur =>
    if isSpace c then
      if cur.isEmpty then fieldsAux cs [] else cur.reverse :: fieldsAux cs []
    else fieldsAux cs (c :: cur)

def fields (s : List Nat) : List (List Nat) := fieldsAux s []

/-- a token: non-empty, no white space -/
def TokOk (t : List Nat) : Prop := t ≠ [] ∧ ∀ c ∈ t, isSpace c = false
/-- a run of white space -/
def AllSpace (s : List Nat) : Prop := ∀ c ∈ s, isSpace c = true

/-- tokens with the white space that follows each -/
def render : List (List Nat × List Nat) → List Nat
  | [] => []
  | (t, sep) :: r => t ++ sep ++ render r

/-- every token is a token, every separator is white space, and only the last may be empty -/
def Rendering : List (List Nat × List Nat) → Prop
  | [] => True
  | [(t, sep)] => TokOk t ∧ AllSpace sep
  | (t, sep) :: r => TokOk t ∧ AllSpace sep ∧ sep ≠ [] ∧ Rendering r

/-- `strings.Join(words, " ")` -/
def joinSp : List (List Nat) → List Nat
  | [] => []
  | [w] => w
  | w :: ws => w ++ 32 :: joinSp ws

/-- the map built at seed.go:120-126: later entries overwrite earlier ones -/
def wordIndexAux (t : List Nat) : List (List Nat) → Nat → Option Nat → Option Nat
  | [], _, r => r
  | v :: vs, i, r => wordIndexAux t vs (i + 1) (if v = t then some i else r)

/-- `wordMap[t]` with its presence flag -/
def wordIndex (wl : List (List Nat)) (t : List Nat) : Option Nat := wordIndexAux t wl 0 none

/-- `decodeBIP39Phrase` (seed.go:83-118) over the word list `wl` -/
def decodePhrase (wl : List (List Nat)) (ck : Nat → Nat) (phrase : List Nat) : Except Err (Nat × Nat) :=
  decodeOpts ck ((fields phrase).map (wordIndex wl))

/-- `encodeBIP39Phrase` (seed.go:62-81) over the word list `wl`; `bip39EnglishWordList[w]`
panics when `w` is out of range — the model returns the empty word there and
`C20.encode_in_range` shows it is unreachable -/
def encodePhrase (wl : List (List Nat)) (ck : Nat → Nat) (hi lo : Nat) : List Nat :=
  joinSp ((encodeIdx ck hi lo).map (fun w => wl.getD w []))

/-! ### what the codec needs of the word list, and decidable checks that establish it
(run by the kernel on the list extracted from `seed.go`: `Verif/Lemmas/SeedWordlist.lean`) -/

/-- 2048 distinct words, each a token (non-empty, no white space) -/
def GoodList (wl : List (List Nat)) : Prop :=
  wl.length = nList ∧ wl.Nodup ∧ ∀ w ∈ wl, TokOk w

/-- strict lexicographic order on code-point lists -/
def ltW : List Nat → List Nat → Bool
  | [], [] => false
  | [], _ :: _ => true
  | _ :: _, [] => false
  | a :: as, b :: bs => if a < b then true else if b < a then false else ltW as bs

/-- strictly increasing: each word is smaller than its successor -/
def sortedW : List (List Nat) → Bool
  | a :: b :: rest => ltW a b && sortedW (b :: rest)
  | _ => true

/-- non-empty and made of `a`…`z` only -/
def lowerW (w : List Nat) : Bool := !w.isEmpty && w.all (fun c => decide (97 ≤ c) && decide (c ≤ 122))

/-! ### the integer literals of the four functions in source order, as the model uses them
(compared with the literals extracted from `seed.go` on every run) -/

/-- seed.go:59 `hash[0] & 0xF0) >> 4` -/
def checksumLits : List Nat := [0, hashMask, ckBits]
/-- seed.go:64-77 -/
def encodeLits : List Nat :=
  [8, 8, nWords, lastMask, ckBits, 1, lastBits, 64, lastBits, lastBits, 2, 0,
   wordMask, wordBits, 64, wordBits, wordBits]
/-- seed.go:87-111 -/
def decodeLits : List Nat :=
  [nWords, 1, wordBits, 64, wordBits, wordBits, 1, ckMask, lastBits, 64, lastBits, lastBits, ckBits, 8, 8]
/-- seed.go:48-50 -/
def keyFromSeedLits : List Nat := [32, 8, 32, 32]

/-! ### hash pre-images (seed.go:39, 48-51) -/

/-- `KeyFromSeed`: `buf[:32] = seed; LittleEndian.PutUint64(buf[32:], index)`; `index` is a
`uint64` (the `% 2^64` is the parameter's type) -/
def kdfInput (seed : List Nat) (index : Nat) : List Nat := seed.take 32 ++ putLe64 (index % 2 ^ 64)

/-- `SeedFromPhrase`: `blake2b.Sum256(entropy[:])` of the 16 decoded bytes -/
def seedInput (p : Nat × Nat) : List Nat := bytesOfPair p

end Verif.Seed
