/-
M10 — the P2P syncer's decision logic and an abstract gossip system (C11, C12).

Core-only.  Self-contained: it carries its own *minimal* abstract chain manager (the full
manager model is M2, `Model/Chain.lean`); only what the syncer's soundness needs is kept:
a node is its best chain (tip first), the set of stored blocks (`known`: a header state
exists) and the set of blocks stored **with a supplement** (`supp`: `applyTip` will not
validate them again — this is the trust `AddValidatedV2Blocks` places in the syncer).

Blocks are small naturals over one shared universe `U : Nat → Blk`; every attribute is what
`go.sia.tech/core/consensus` says about that block on an independent linear replay of the
block's own ancestry (consensus is a parameter, DESIGN §2).  A corrupted variant of a block
is its own id; `cid` is the id of the canonical block with the same header hash (`Block.ID()`
is the *header* hash: a v2 block whose transactions were replaced keeps its ID), so every ID
comparison the Go code makes is a comparison of `cid`s.

Source: /repo/syncer/{syncer,peer,parallel_sync}.go, /repo/chain/manager.go (pinned tree).
-/
namespace Verif.Sync

/-! ## Blocks -/

structure Blk where
  parent : Nat   -- canonical id of the block named by `ParentID`
  cid    : Nat   -- canonical id of the block with this header hash (itself unless a variant)
  height : Nat
  work   : Nat   -- `State.TotalWork` after this block
  diff   : Nat   -- `State.Difficulty` after this block
  pow    : Bool  -- `bid.CmpWork(parentState.PoWTarget()) >= 0`            (peer.go:364,393)
  hdr    : Bool  -- `consensus.ValidateHeader(parentState, header)` apart from the parent test (peer.go:150)
  orphan : Bool  -- `consensus.ValidateOrphan(parentState, b)`                (manager.go:270)
  body   : Bool  -- `consensus.ValidateBlock(parentState, b, supplement)`     (manager.go:408, parallel_sync.go:73)
  v2     : Bool  -- `b.V2 != nil`
  future : Bool  -- `b.Timestamp.After(cs.MaxFutureTimestamp(now))`           (manager.go:268)
  deriving Repr, Inhabited, DecidableEq

abbrev Univ := Nat → Blk

/-- `cs.SufficientlyHeavierThan(tip)` (core/consensus/state.go:217-238, used at
manager.go:284 and :333): strictly more work than the tip's work plus a fifth of the tip's
difficulty. -/
def heavier (U : Univ) (c t : Nat) : Bool :=
  decide ((U c).work > (U t).work + (U t).diff / 5)

def sameId (U : Univ) (a b : Nat) : Bool := (U a).cid == (U b).cid

/-! ## The minimal abstract manager -/

structure Node where
  best  : List Nat   -- best chain, tip first
  known : List Nat   -- stored blocks (`store.State(id)` succeeds)
  supp  : List Nat   -- stored with a supplement (`store.Block(id)` returns `bs != nil`)
  deriving Repr, DecidableEq

def Node.init : Node := ⟨[0], [0], [0]⟩
def Node.tip (n : Node) : Nat := n.best.headD 0

inductive AddErr where
  | missingParent | future | invalid | reorg | notV2
  deriving Repr, DecidableEq

/-- the storing loop of `AddBlocks` (manager.go:254-281).  Blocks stored before the failing one
stay stored (`AddState`/`AddBlock` have already run). -/
def storeLoop (U : Univ) : Node → Nat → List Nat → Node × Nat × Option AddErr
  | n, cs, [] => (n, cs, none)
  | n, cs, b :: bs =>
    if n.supp.any (sameId U b) then storeLoop U n b bs                              -- :257-260 "already have this block"
    else if (U b).parent != (U cs).cid && !n.known.contains (U b).parent then       -- :261-264
      (n, cs, some .missingParent)
    else if (U b).future then (n, cs, some .future)                                 -- :267-268
    else if !(U b).orphan then (n, cs, some .invalid)                               -- :269-271
    else storeLoop U { n with known := b :: n.known } b bs                          -- :276-279

/-- walk from `b` towards genesis until a block of the best chain is met; the blocks passed
(newest first) are what `reorgPath` returns as `apply` (manager.go:436-483). `none` = a
header is missing (`ErrMissingBlock`). -/
def climb (U : Univ) (n : Node) : Nat → Nat → Option (List Nat)
  | 0, b => if n.best.contains b then some [] else none
  | f + 1, b =>
    if n.best.contains b then some []
    else if !n.known.contains b then none
    else (climb U n f (U b).parent).map (b :: ·)

/-- `applyTip` for each block of the path, oldest first (manager.go:397-433): a block without a
supplement is validated (`ValidateBlock`) and then gets one; a block with a supplement is
applied without validation. Returns the new `supp` and whether every block applied. -/
def applyAll (U : Univ) : List Nat → List Nat → List Nat × Bool
  | supp, [] => (supp, true)
  | supp, b :: bs =>
    if supp.contains b then applyAll U supp bs
    else if (U b).body then applyAll U (b :: supp) bs
    else (supp, false)

def suffixFrom (best : List Nat) (f : Nat) : List Nat := best.dropWhile (· != f)

/-- the common ancestor: the parent of the oldest block to apply -/
def forkOf (U : Univ) (target : Nat) (up : List Nat) : Nat :=
  match up.getLast? with
  | none => target
  | some l => (U l).parent

/-- `reorgTo` followed, on failure, by `reorgTo(oldTip)` (manager.go:286-292, 485-505). -/
def reorgTo (U : Univ) (n : Node) (target : Nat) : Node × Bool :=
  match climb U n ((U target).height + 1) target with
  | none => (n, false)
  | some up =>
    if (applyAll U n.supp up.reverse).2 then
      ({ n with best := up ++ suffixFrom n.best (forkOf U target up), supp := (applyAll U n.supp up.reverse).1 }, true)
    else ({ n with supp := (applyAll U n.supp up.reverse).1 }, false)

/-- `Manager.AddBlocks` (manager.go:245-308). -/
def addBlocks (U : Univ) (n : Node) (blocks : List Nat) : Node × Option AddErr :=
  if blocks.isEmpty then (n, none) else
  match storeLoop U n n.tip blocks with
  | (n', _, some e) => (n', some e)
  | (n', cs, none) =>
    if heavier U cs n'.tip then                                                     -- :284
      let r := reorgTo U n' cs
      (r.1, if r.2 then none else some .reorg)
    else (n', none)

/-- the storing loop of `AddValidatedV2Blocks` (manager.go:324-330): every block is stored
**with** a supplement and its caller-supplied state. -/
def storeValidated (U : Univ) : Node → List Nat → Node × Bool
  | n, [] => (n, true)
  | n, b :: bs =>
    if !(U b).v2 then (n, false)
    else storeValidated U { n with known := b :: n.known, supp := b :: n.supp } bs

/-- `Manager.AddValidatedV2Blocks` (manager.go:313-359). -/
def addValidated (U : Univ) (n : Node) (blocks : List Nat) : Node × Option AddErr :=
  match blocks with
  | [] => (n, none)
  | b0 :: _ =>
    if !n.known.contains (U b0).parent then (n, some .missingParent)                -- :321-323
    else
      let r := storeValidated U n blocks
      if !r.2 then (r.1, some .notV2)
      else
        let cs := blocks.getLastD b0
        if heavier U cs r.1.tip then                                                -- :333
          let q := reorgTo U r.1 cs
          (q.1, if q.2 then none else some .reorg)
        else (r.1, none)

/-! ## History sample (manager.go:160-184) -/

def histOffset (i : Nat) : Nat := if i ≥ 10 then 7 + 2 ^ (i - 8) else i

/-- ids at heights `tip - min (offset i) tip`, `i < 32`, of a best chain given tip first -/
def history (best : List Nat) : List Nat :=
  (List.range 32).map fun i => best.getD (min (histOffset i) (best.length - 1)) 0

/-! ## Syncer gates -/

inductive Dec where
  | apply    -- the peer's data reached the manager and was accepted
  | ignore   -- nothing happens to the peer (request is retried with another peer / message dropped)
  | drop     -- `peer.setErr`: disconnected, not reported
  | resync   -- `s.resync(origin)`: peer flipped to unsynced
  | ban      -- `s.ban(peer)`: reported to the peer store and disconnected
  deriving Repr, DecidableEq

/-- a peer's answer to one `SendHeaders` request -/
inductive HResp where
  | eof                                   -- error text containing "EOF" (syncer.go:826-827): next history entry
  | err                                   -- any other error (:828-829)
  | hdrs (l : List Nat) (remaining : Nat)
  deriving Repr, DecidableEq

/-- `Peer.SendHeaders` validation loop (peer.go:148-154): every header must name the running
state as parent and pass `ValidateHeader`. -/
def headersOk (U : Univ) : Nat → List Nat → Bool
  | _, [] => true
  | cs, h :: hs => ((U h).parent == (U cs).cid) && (U h).hdr && headersOk U h hs

inductive HOut where
  | drop | synced | go (base : Nat) (hdrs : List Nat) (remaining : Nat)
  deriving Repr, DecidableEq

/-- the history loop of `syncLoop` (syncer.go:813-834); second component: the history entries
that were asked, in order. -/
def headerPhase (U : Univ) : List Nat → List HResp → HOut × List Nat
  | [], _ => (.synced, [])                                     -- "no common history": the peer holds none of our sampled blocks (bootstrapped from a checkpoint above them); kept and left alone (repaired: it was dropped, and a checkpoint node could then never fetch from the node that dropped it)
  | id :: _, [] => (.drop, [id])                               -- the peer stopped answering
  | id :: hist, r :: rs =>
    match r with
    | .eof => let q := headerPhase U hist rs; (q.1, id :: q.2)
    | .err => (.drop, [id])
    | .hdrs l rem =>
      if !headersOk U id l then (.drop, [id])                  -- peer.go:150-152, syncer.go:840-841
      else if l.isEmpty then (.synced, [id])                   -- syncer.go:842-843
      else (.go id l rem, [id])

structure Cfg where
  require : Nat          -- `Network.HardforkV2.RequireHeight`
  perReq  : Nat := 100   -- `blocksPerReq` (parallel_sync.go:37)
  deriving Repr

structure Req where
  base       : Nat
  baseHeight : Nat
  hdrs       : List Nat
  deriving Repr, DecidableEq

def chunksAux (k : Nat) : Nat → List Nat → List (List Nat)
  | 0, _ => []
  | f + 1, l => if l.isEmpty then [] else l.take k :: chunksAux k f (l.drop k)

def chunks (k : Nat) (l : List Nat) : List (List Nat) := chunksAux (max k 1) l.length l

def mkReqsAux (U : Univ) (k h0 : Nat) : Nat → List (List Nat) → List Req
  | _, [] => []
  | i, c :: cs => ⟨(U (c.headD 0)).parent, h0 + i * k, c⟩ :: mkReqsAux U k h0 (i + 1) cs

/-- request split (parallel_sync.go:36-51): `base.ID = headers[off].ParentID`,
`base.Height = cs.Index.Height + off`. -/
def mkReqs (U : Univ) (k : Nat) (base : Nat) (hdrs : List Nat) : List Req :=
  mkReqsAux U (max k 1) (U base).height 0 (chunks k hdrs)

/-- a peer's answer to `SendCheckpoint` -/
structure CpResp where
  blk       : Nat    -- the block that was sent
  isV2      : Bool   -- `r.Block.V2 != nil`
  onePayout : Bool   -- `len(r.Block.MinerPayouts) == 1`
  commitOk  : Bool   -- `Block.V2.Commitment == State.Commitment(...)` (peer.go:177)
  genuine   : Bool   -- the supplied state IS the state the canonical block with that ID was built on
  noV1      : Bool   -- `len(r.Block.Transactions) == 0` (peer.go:175, repaired: a checkpoint block is applied with an empty v1 supplement, `ApplyBlock` indexes it per v1 transaction — a panic in a worker without recover)
  deriving Repr, DecidableEq

/-- everything one peer answers for one request (`none` = the RPC failed / was malformed) -/
structure BResp where
  cp     : Option CpResp
  blocks : Option (List Nat)
  deriving Repr, DecidableEq

inductive BDec where
  | ok (blocks : List Nat) (pre : Bool) | retry | ban
  deriving Repr, DecidableEq

/-- the validation loop of the checkpoint branch (parallel_sync.go:72-79).  The parent test of
`ValidateHeader` compares with `cs.Index.ID`, which `ApplyBlock` takes from the block itself,
so linkage is checked whatever state was supplied; everything else is only as good as the
state: on a state that is not genuine the adversary decides (worst case: passes).  The
future-timestamp policy (`MaxFutureTimestamp`, repaired: this path applied none, unlike
`AddBlocks`) depends on the block and the clock only. -/
def validateChain (U : Univ) (genuine : Bool) : Nat → List Nat → Bool
  | _, [] => true
  | cs, b :: bs =>
    ((U b).parent == (U cs).cid) && !(U b).future && (!genuine || (U b).body) && validateChain U genuine b bs

/-- `workFn` (parallel_sync.go:53-107). -/
def gateBatch (U : Univ) (cfg : Cfg) (req : Req) (r : BResp) : BDec :=
  let tip := req.hdrs.getLastD 0
  if req.baseHeight ≥ cfg.require then                                            -- :57
    match r.cp with
    | none => .retry                                                               -- :59-61
    | some cp =>
      if !cp.isV2 || !cp.onePayout || !cp.noV1 then .retry                                     -- peer.go:173-174
      else if !sameId U cp.blk req.base then .retry                                -- peer.go:175-176
      else if !cp.commitOk then .retry                                             -- peer.go:177-178
      else if !(U cp.blk).orphan then .retry                                       -- peer.go:179-185 (repair: ValidateOrphan on the supplied state; the payout value is covered neither by the ID nor by the commitment)
      else match r.blocks with
        | none => .retry                                                           -- :64-65
        | some bs =>
          if bs.length != req.hdrs.length then .retry                              -- :66-67
          else if !sameId U (bs.getLastD 0) tip then .retry                        -- :68-69
          else if validateChain U cp.genuine cp.blk bs then .ok bs true            -- :72-79
          else .ban                                                                -- :74
  else
    match r.blocks with
    | none => .retry                                                               -- :83-84
    | some bs =>
      if bs.length != req.hdrs.length then .retry                                  -- :85-86
      else if bs.map (fun b => (U b).cid) != req.hdrs.map (fun b => (U b).cid) then .retry   -- :89-96 (not ban-worthy)
      else .ok bs false

/-- one finished request reaching the manager (parallel_sync.go:115-133) -/
def stepBatch (U : Univ) (cfg : Cfg) (n : Node) (q : Req) (r : BResp) : Node × Dec :=
  match gateBatch U cfg q r with
  | .retry => (n, .ignore)
  | .ban => (n, .ban)
  | .ok bs pre =>
    let a := if pre then addValidated U n bs else addBlocks U n bs
    (a.1, if a.2.isSome then .ban else .apply)

/-- a whole `parallelSync` against one peer: requests are answered one after the other, applied
in order; the first request that is not applied ends the round (a lone worker exits on its
first error and the round fails with "all peers failed"; an `AddBlocks` error aborts it). Third
component: number of requests the peer was asked. -/
def runBatches (U : Univ) (cfg : Cfg) : Node → List Req → List BResp → Node × Dec × Nat
  | n, [], _ => (n, .apply, 0)
  | n, _ :: _, [] => (n, .ignore, 0)
  | n, q :: qs, r :: rs =>
    let s := stepBatch U cfg n q r
    if s.2 = .apply then
      let t := runBatches U cfg s.1 qs rs
      (t.1, t.2.1, t.2.2 + 1)
    else (s.1, s.2, 1)

structure SyncOut where
  dec    : Dec
  synced : Bool        -- the peer ends the round marked synced
  asked  : List Nat    -- history entries asked with `SendHeaders`
  reqs   : Nat         -- block requests asked
  deriving Repr, DecidableEq

/-- one iteration of `syncLoop` for one unsynced peer (syncer.go:803-862) -/
def stepSync (U : Univ) (cfg : Cfg) (n : Node) (hs : List HResp) (bs : List BResp) : Node × SyncOut :=
  match headerPhase U (history n.best) hs with
  | (.drop, asked) => (n, ⟨.drop, false, asked, 0⟩)
  | (.synced, asked) => (n, ⟨.ignore, true, asked, 0⟩)
  | (.go base hdrs rem, asked) =>
    let t := runBatches U cfg n (mkReqs U cfg.perReq base hdrs) bs
    (t.1, ⟨t.2.1, t.2.1 = .apply && rem == 0, asked, t.2.2⟩)

/-- `RPCRelayV2Header` handler (peer.go:353-388).  A header's ID is the header hash itself, so
every test is meaningful whatever we know about the parent.  Below the v2 require height the
announced block may be a v1 block, which no outline will ever carry: the peer is flipped to
unsynced so that the sync loop fetches it (repaired; the pinned code only relayed, and a node
exactly one v1 block behind a peer it had marked synced never caught up). -/
def gateRelayHeader (U : Univ) (cfg : Cfg) (n : Node) (h : Nat) : Dec :=
  if !n.known.contains (U h).parent then .resync            -- :357-361
  else if n.known.any (sameId U h) then .ignore             -- :363-364 already seen
  else if !(U h).pow then .ban                              -- :365-366
  else if (U h).parent != (U n.tip).cid then .resync        -- :367-372
  else if (U n.tip).height + 1 < cfg.require then .resync   -- :383-385 (repair)
  else .ignore                                              -- :386 relay only

/-- the same handler with its "relayed recently" memo (`firstRelay`, peer.go:395-399, a ring of
the last 32 relayed header IDs that stops a header from being passed around in circles), in
source order: the memo is consulted **after** the relaying peer has been flipped to unsynced and
decides only whether the header is passed on (second component). -/
def relayHeaderM (U : Univ) (cfg : Cfg) (n : Node) (h : Nat) (relayedBefore : Bool) : Dec × Bool :=
  if !n.known.contains (U h).parent then (.resync, false)
  else if n.known.any (sameId U h) then (.ignore, false)
  else if !(U h).pow then (.ban, false)
  else if (U h).parent != (U n.tip).cid then (.resync, false)
  else ((if (U n.tip).height + 1 < cfg.require then .resync else .ignore), !relayedBefore)

/-- what happened to an outline's missing transactions (peer.go:404-421) -/
inductive Missing where
  | complete    -- nothing missing after consulting the pool
  | fetchFail   -- `SendTransactions` failed
  | wrong       -- the peer's transactions do not complete the block
  | fetched     -- completed with the peer's transactions
  deriving Repr, DecidableEq

/-- `RPCRelayV2BlockOutline` handler (peer.go:390-449); `b` is the completed block.  An outline's
ID is recomputed from the *state of its parent* (`r.Block.ID(cs)`, the commitment hashes the
state): it is only meaningful when that state is complete, i.e. when the parent has been applied
at least once (`supp`).  For a parent stored but never applied (a side-chain block, header-level
state only) the recomputed ID is garbage: it matches nothing we store.  The pinned code tested
the work of that garbage ID *before* testing that the outline attaches to the tip and so banned
honest peers announcing a block of a fork we had downloaded but not adopted; repaired: the
attachment test comes first (the tip's state is always complete). -/
def stepOutline (U : Univ) (n : Node) (b : Nat) (m : Missing) : Node × Dec :=
  if !n.known.contains (U b).parent then (n, .resync)       -- :394-398
  else if n.supp.contains (U b).parent && n.known.any (sameId U b) then (n, .ignore)   -- :405-406 already seen
  else if (U b).parent != (U n.tip).cid then (n, .resync)   -- :407-412 (repair: before the work test)
  else if !(U b).pow then (n, .ban)                         -- :413-414
  else match m with
    | .fetchFail => (n, .resync)                            -- :423-429
    | .wrong => (n, .ban)                                   -- :431-434
    | _ =>
      let a := addBlocks U n [b]                            -- :437-439
      (a.1, if a.2.isSome then .ban else .apply)

/-- `RPCRelayV2TransactionSet` handler (peer.go:437-452); the chain is never touched -/
def gateRelayTxns (basisKnown empty alreadyKnown valid : Bool) : Dec :=
  if !basisKnown then .resync
  else if empty then .ban
  else if alreadyKnown then .ignore
  else if !valid then .ignore
  else .apply

/-- everything a peer (any peer, in any order) can make the syncer do to the chain.  `batch`
is one request reaching `workFn` + the manager with an **arbitrary** request, so that any
interleaving of rounds of several peers, any duplication and any re-queueing is a sequence of
events. -/
inductive Ev where
  | sync (hs : List HResp) (bs : List BResp)
  | batch (q : Req) (r : BResp)
  | relayHeader (h : Nat)
  | relayOutline (b : Nat) (m : Missing)
  | relayTxns (basisKnown empty alreadyKnown valid : Bool)
  deriving Repr, DecidableEq

def step (U : Univ) (cfg : Cfg) (n : Node) : Ev → Node × Dec
  | .sync hs bs => let s := stepSync U cfg n hs bs; (s.1, s.2.dec)
  | .batch q r => stepBatch U cfg n q r
  | .relayHeader h => (n, gateRelayHeader U cfg n h)
  | .relayOutline b m => stepOutline U n b m
  | .relayTxns k e a v => (n, gateRelayTxns k e a v)

def run (U : Univ) (cfg : Cfg) : Node → List Ev → Node
  | n, [] => n
  | n, e :: es => run U cfg (step U cfg n e).1 es

/-! ## An honest peer's answers (the serving side of `handleRPC`, peer.go:275-351)

`pb` is the peer's best chain, tip first.  `Manager.Headers` serves the headers above an index
that is on the best chain and fails otherwise (the stream is closed: the requester sees EOF);
`BlocksForHistory` serves the blocks above the attach point; `SendCheckpoint` serves the block
and the state it was built on. -/

def serveHeaders (pb : List Nat) (id : Nat) : HResp :=
  if pb.contains id then .hdrs ((pb.takeWhile (· != id)).reverse) 0 else .eof

def serveBatch (q : Req) : BResp := ⟨some ⟨q.base, true, true, true, true, true⟩, some q.hdrs⟩

/-- one `syncLoop` iteration of node `n` against an honest peer whose best chain is `pb` -/
def honestRound (U : Univ) (cfg : Cfg) (n : Node) (pb : List Nat) : Node :=
  let hs := (history n.best).map (serveHeaders pb)
  match headerPhase U (history n.best) hs with
  | (.go base hdrs _, _) => (stepSync U cfg n hs ((mkReqs U cfg.perReq base hdrs).map serveBatch)).1
  | _ => n

/-! ## Abstract gossip (C12)

A system is a number of nodes `N`, each holding a tip (its best chain is the tip's ancestry in
`U`), and a relation `adj i j` "`i` pulls from `j`".  One step: node `i` obtains `j`'s best
chain and submits it; by the manager's rule it moves iff that chain is sufficiently heavier. -/

def pull (U : Univ) (σ : Nat → Nat) (e : Nat × Nat) : Nat → Nat :=
  fun x => if x = e.1 ∧ heavier U (σ e.2) (σ e.1) = true then σ e.2 else σ x

def runSched (U : Univ) (σ0 : Nat → Nat) (sched : Nat → Nat × Nat) : Nat → Nat → Nat
  | 0 => σ0
  | k + 1 => pull U (runSched U σ0 sched k) (sched k)

/-- the **concrete** gossip system: every node holds a full node state; in step `(i, j)` node `i`
runs one real sync round (`honestRound`) against the best chain `j` holds at that moment -/
def pullC (U : Univ) (cfg : Cfg) (σ : Nat → Node) (e : Nat × Nat) : Nat → Node :=
  fun x => if x = e.1 then honestRound U cfg (σ e.1) (σ e.2).best else σ x

def runSchedC (U : Univ) (cfg : Cfg) (σ0 : Nat → Node) (sched : Nat → Nat × Nat) : Nat → Nat → Node
  | 0 => σ0
  | k + 1 => pullC U cfg (runSchedC U cfg σ0 sched k) (sched k)

/-- executable version over a list of tips and a finite schedule (used by the driver) -/
def pullL (U : Univ) (tips : List Nat) (e : Nat × Nat) : List Nat :=
  let ti := tips.getD e.1 0
  let tj := tips.getD e.2 0
  if heavier U tj ti then tips.set e.1 tj else tips

def gossipRounds (U : Univ) (edges : List (Nat × Nat)) : Nat → List Nat → List Nat
  | 0, tips => tips
  | k + 1, tips => gossipRounds U edges k (edges.foldl (pullL U) tips)

end Verif.Sync
