/-
M4 — the transaction pool inside `chain.Manager` (`/repo/chain/manager.go`) and the block
assembly loop of `coreutils.MineBlock` (`/repo/miner.go`), at the level of ids (C05, C13, C14).

Core-only.  Transactions, elements and blocks are small naturals assigned by the harness.
Consensus is a parameter: a transaction carries the verdict of everything the pool logic does not
decide itself (`ok`: signatures/values as judged by `consensus.ValidateTransaction`; `era`: the
replay-prefix regime its signatures were made in), a v2 input carries its leaf index
(`none` = `types.UnassignedLeafIndex`, an ephemeral element) and `bad` = core's Merkle verifier
rejects the carried proof against the accumulator it is about to be checked against.  What the
model decides itself is what `manager.go` decides: which transactions are in the two pool slices in
which order, the single shared `indices` map, the mid-state, the weight counter, the `lastReverted`
re-offer, the ephemeral <-> confirmed conversion, the "element vanished" test, set submission,
lookups, parent closure, rebasing of a set along a revert/apply path, and the miner's weight loop.

The model follows the REPAIRED code (fix commits listed in `known_findings.jsonl` for C05/C13/C14).
-/
namespace Verif.Pool

/-! ## data -/

/-- one input of a transaction: `V2SiacoinInput.Parent` / `V2SiafundInput.Parent` (for v1 inputs
only `elem` is meaningful). -/
structure Inp where
  elem : Nat
  leaf : Option Nat
  bad : Bool
  deriving DecidableEq, Repr

structure Txn where
  id : Nat
  ok : Bool
  era : Nat
  fee : Nat
  weight : Nat
  inputs : List Inp
  outputs : List Nat
  deriving DecidableEq, Repr

/-- network constants: v2 allow / require heights, `MaxBlockWeight`, the weight of `MineBlock`'s
12-byte uniqueness transaction, the distance `updateV2TransactionProofs` supports (144). -/
structure Cfg where
  allow : Nat
  require : Nat
  maxWeight : Nat
  filler : Nat
  maxReorg : Nat := 144

/-- what the pool logic uses of `consensus.State`: the unspent elements with their leaf indices
(the element accumulator), `Elements.NumLeaves`, `Index.Height`. -/
structure Ledger where
  unspent : List (Nat × Nat)
  numLeaves : Nat
  height : Nat
  deriving Repr

def Ledger.leafOf (l : Ledger) (e : Nat) : Option Nat := l.unspent.lookup e

/-- a block as the pool sees it: its transactions (v1, v2, as they appear in the block) and the
siacoin/siafund element diffs of its `ApplyUpdate` with leaf indices; `leavesBefore/After` are
`Elements.NumLeaves` of the parent state and of the block's state. -/
structure Blk where
  height : Nat
  leavesBefore : Nat
  leavesAfter : Nat
  txns : List Txn
  v2txns : List Txn
  spent : List (Nat × Nat)
  created : List (Nat × Nat)
  deriving Repr

def ids (l : List (Nat × Nat)) : List Nat := l.map (·.1)

/-- `DBStore.ApplyBlock` seen through the ledger -/
def Ledger.apply (l : Ledger) (b : Blk) : Ledger :=
  { unspent := (l.unspent ++ b.created).filter fun p => !(ids b.spent).contains p.1
    numLeaves := b.leavesAfter
    height := b.height }

/-- `DBStore.RevertBlock` seen through the ledger -/
def Ledger.revert (l : Ledger) (b : Blk) : Ledger :=
  { unspent := (l.unspent ++ b.spent).filter fun p => !(ids b.created).contains p.1
    numLeaves := b.leavesBefore
    height := b.height - 1 }

/-- `consensus.MidState` restricted to what transaction validation reads of it: the elements spent
and created by the transactions applied so far. -/
structure MidState where
  spent : List Nat
  created : List Nat
  deriving DecidableEq, Repr

def MidState.empty : MidState := ⟨[], []⟩

/-! ## transaction validity (`consensus.ValidateTransaction` / `ValidateV2Transaction`, id level) -/

/-- `State.replayPrefix` regime for the test networks (ASIC/Foundation hardforks at height 1); only
v1 signatures depend on it (`v2ReplayPrefix` is constant) -/
def eraOf (cfg : Cfg) (height : Nat) : Nat :=
  if height ≥ cfg.allow then 2 else if height ≥ 1 then 1 else 0

/-- v1 transactions are valid below the require height, v2 transactions from the allow height -/
def heightOk (cfg : Cfg) (l : Ledger) (v2 : Bool) : Bool :=
  if v2 then decide (cfg.allow ≤ l.height + 1) else decide (l.height + 1 < cfg.require)

/-- is the element an input names there to be spent?  `created` = the elements created in the
mid-state -/
def inpRes (l : Ledger) (created : List Nat) (v2 : Bool) (i : Inp) : Bool :=
  if v2 then
    match i.leaf with
    | none => created.contains i.elem                          -- validateEphemeralSiacoinElement
    | some lf => !i.bad && l.leafOf i.elem == some lf          -- containsUnspent…Element
  else
    created.contains i.elem || (l.leafOf i.elem).isSome        -- ms.siacoinElement(ts, id)

/-- one input, given the elements spent so far (mid-state and earlier inputs of the same
transaction) and the elements created in the mid-state -/
def inpOk (l : Ledger) (created spent : List Nat) (v2 : Bool) (i : Inp) : Bool :=
  !spent.contains i.elem && inpRes l created v2 i

def inputsOk (l : Ledger) (created : List Nat) (v2 : Bool) : List Nat → List Inp → Bool
  | _, [] => true
  | spent, i :: is => inpOk l created spent v2 i && inputsOk l created v2 (i.elem :: spent) is

def txValid (cfg : Cfg) (l : Ledger) (ms : MidState) (v2 : Bool) (t : Txn) : Bool :=
  t.ok && (v2 || t.era == eraOf cfg l.height) && heightOk cfg l v2 && inputsOk l ms.created v2 ms.spent t.inputs

/-- `MidState.ApplyTransaction` / `ApplyV2Transaction` -/
def applyTx (ms : MidState) (t : Txn) : MidState :=
  { spent := (t.inputs.map (·.elem)).reverse ++ ms.spent, created := t.outputs ++ ms.created }

def msOf (ms : MidState) : List Txn → MidState
  | [] => ms
  | t :: ts => msOf (applyTx ms t) ts

/-- every prefix of the sequence is valid on top of `ms` -/
def seqValid (cfg : Cfg) (l : Ledger) (v2 : Bool) : MidState → List Txn → Bool
  | _, [] => true
  | ms, t :: ts => txValid cfg l ms v2 t && seqValid cfg l v2 (applyTx ms t) ts

/-! ## the pool (`Manager.txpool`, `manager.go:91-100`) -/

structure Pool where
  txns : List Txn
  v2txns : List Txn
  /-- the single id ↦ position map shared by both slices -/
  indices : Nat → Option Nat
  ms : Option MidState
  weight : Nat
  lastReverted : List Txn
  lastRevertedV2 : List Txn
  led : Ledger

def upd (f : Nat → Option Nat) (k : Nat) (v : Option Nat) : Nat → Option Nat :=
  fun k' => if k' = k then v else f k'

def Pool.init (l : Ledger) : Pool :=
  { txns := [], v2txns := [], indices := fun _ => none, ms := none, weight := 0,
    lastReverted := [], lastRevertedV2 := [], led := l }

/-! ### `revalidatePool` (`manager.go:633-734`) -/

structure FeeTxn where
  index : Nat
  rate : Nat
  weight : Nat
  v2 : Bool
  deriving Repr

def feeTxns (v2 : Bool) (ts : List Txn) : List FeeTxn :=
  ts.zipIdx.map fun (t, i) => ⟨i, t.fee / t.weight, t.weight, v2⟩

def insertByRate (x : FeeTxn) : List FeeTxn → List FeeTxn
  | [] => [x]
  | y :: ys => if x.rate < y.rate then x :: y :: ys else y :: insertByRate x ys

/-- `sort.Slice` by fee rate (`:668`); modelled as a stable sort — the harness keeps rates distinct -/
def sortByRate (l : List FeeTxn) : List FeeTxn := l.foldr insertByRate []

/-- the eviction loop (`:671-674`) -/
def evictLoop (thr : Nat) : Nat → List FeeTxn → Nat × List FeeTxn
  | w, [] => (w, [])
  | w, f :: fs => if w ≥ thr then evictLoop thr (w - f.weight) fs else (w, f :: fs)

/-- keep the positions listed (`:675-688`: sort by index, rebuild both slices) -/
def keepIdx (ts : List Txn) (keep : List Nat) : List Txn :=
  ts.zipIdx.filterMap fun (t, i) => if keep.contains i then some t else none

def evict (cfg : Cfg) (p : Pool) : Pool :=
  let fts := sortByRate (feeTxns false p.txns ++ feeTxns true p.v2txns)
  let (w, rest) := evictLoop (cfg.maxWeight * 10 * 3 / 4) p.weight fts
  { p with
    weight := w
    txns := keepIdx p.txns ((rest.filter (!·.v2)).map (·.index))
    v2txns := keepIdx p.v2txns ((rest.filter (·.v2)).map (·.index)) }

/-- accumulator of the re-add loops (`:698-733`) -/
structure Acc where
  ms : MidState
  idx : Nat → Option Nat
  weight : Nat
  kept : List Txn

/-- the accepted branch of both loops: apply to the mid-state, record the position, add the
weight, append (`:710-713`, `:728-731`, `:1396-1399`, `:1475-1478`) -/
def push (a : Acc) (t : Txn) : Acc :=
  { ms := applyTx a.ms t, idx := upd a.idx t.id (some a.kept.length),
    weight := a.weight + t.weight, kept := a.kept ++ [t] }

def refillStep (cfg : Cfg) (l : Ledger) (v2 : Bool) (a : Acc) (t : Txn) : Acc :=
  if (a.idx t.id).isSome then a                 -- already in the pool
  else if txValid cfg l a.ms v2 t then push a t
  else a                                        -- dropping invalid pool transaction

def refill (cfg : Cfg) (l : Ledger) (v2 : Bool) : Acc → List Txn → Acc
  | a, [] => a
  | a, t :: ts => refill cfg l v2 (refillStep cfg l v2 a t) ts

/-- the full re-validation, unconditionally (`:691-733`) -/
def rebuild (cfg : Cfg) (p : Pool) : Pool :=
  let a1 := refill cfg p.led false ⟨MidState.empty, fun _ => none, 0, []⟩ (p.txns ++ p.lastReverted)
  let a2 := refill cfg p.led true { a1 with kept := [] } (p.v2txns ++ p.lastRevertedV2)
  { p with txns := a1.kept, v2txns := a2.kept, indices := a2.idx, ms := some a2.ms, weight := a2.weight,
           lastReverted := [], lastRevertedV2 := [] }   -- repaired: offered once (`:696-700`, `:717-718`)

def revalidate (cfg : Cfg) (p : Pool) : Pool :=
  if p.ms.isSome && p.weight < cfg.maxWeight * 10 then p
  else rebuild cfg (if p.weight ≥ cfg.maxWeight * 10 then evict cfg p else p)

/-! ### tip changes: `revertPoolUpdate` / `applyPoolUpdate` (`:890-1004`), `reorgTo` (`:508-528`) -/

/-- `updateTxnProofs` validity test (`:820-829`, repaired: an unassigned leaf index is exempt
before the comparison with `numLeaves`) -/
def proofsOk (numLeaves : Nat) (t : Txn) : Bool :=
  t.inputs.all fun i => match i.leaf with
    | none => true
    | some lf => decide (lf < numLeaves)

/-- `applyPoolUpdate.replaceEphemeral`: an ephemeral input whose element the block created gets
the created element's state element -/
def confirmInp (created : List (Nat × Nat)) (i : Inp) : Inp :=
  match i.leaf with
  | some _ => i
  | none => match created.lookup i.elem with
    | some lf => { elem := i.elem, leaf := some lf, bad := false }
    | none => i

/-- `revertPoolUpdate.replaceEphemeral`: an input whose element the reverted block had created
becomes ephemeral again -/
def unconfirmInp (created : List (Nat × Nat)) (i : Inp) : Inp :=
  match i.leaf with
  | none => i
  | some _ => if (ids created).contains i.elem then { elem := i.elem, leaf := none, bad := false } else i

def mapInputs (f : Inp → Inp) (t : Txn) : Txn := { t with inputs := t.inputs.map f }

def applyPoolUpdate (p : Pool) (b : Blk) : Pool :=
  { p with
    v2txns := (p.v2txns.map (mapInputs (confirmInp b.created))).filter (proofsOk b.leavesAfter)
    led := p.led.apply b }

def revertPoolUpdate (p : Pool) (b : Blk) : Pool :=
  { p with
    v2txns := (p.v2txns.map (mapInputs (unconfirmInp b.created))).filter (proofsOk b.leavesBefore)
    led := p.led.revert b }

/-- the tail of `reorgTo`: caches invalidated; if anything was reverted, the fee-paying
transactions of the first reverted block (the old tip) are remembered for re-offer.  `flags` is
core's verdict on the (stale) proofs of the remembered v2 transactions at the new tip, one per
transaction (`true` = does not verify). -/
def setBad (b : Bool) (t : Txn) : Txn := mapInputs (fun i => { i with bad := b }) t

def zipBad : List Txn → List Bool → List Txn
  | [], _ => []
  | t :: ts, [] => setBad true t :: zipBad ts []
  | t :: ts, f :: fs => setBad f t :: zipBad ts fs

def reorgEnd (p : Pool) (firstReverted : Option Blk) (flags : List Bool) : Pool :=
  let p := { p with ms := none }
  match firstReverted with
  | none => { p with lastRevertedV2 := zipBad p.lastRevertedV2 flags }
  | some b => { p with
      lastReverted := b.txns.filter (·.fee ≠ 0)
      lastRevertedV2 := zipBad (b.v2txns.filter (·.fee ≠ 0)) flags }

def reorg (p : Pool) (rev app : List Blk) (flags : List Bool) : Pool :=
  reorgEnd (app.foldl applyPoolUpdate (rev.foldl revertPoolUpdate p)) rev.head? flags

/-! ### lookups (`:1006-1052`, repaired: the position found in the shared map is used only if the
transaction at that position of the slice asked for has the id asked for) -/

def lookupIn (ts : List Txn) (indices : Nat → Option Nat) (id : Nat) : Option Txn :=
  match indices id with
  | none => none
  | some i => match ts[i]? with
    | none => none
    | some t => if t.id = id then some t else none

def poolTransaction (cfg : Cfg) (p : Pool) (id : Nat) : Pool × Option Txn :=
  let p := revalidate cfg p
  (p, lookupIn p.txns p.indices id)

def v2PoolTransaction (cfg : Cfg) (p : Pool) (id : Nat) : Pool × Option Txn :=
  let p := revalidate cfg p
  (p, lookupIn p.v2txns p.indices id)

/-! ### rebasing a set (`updateV2TransactionProofs`, `:1259-1367`) -/

inductive Res where
  | ok | known | err | panic
  deriving DecidableEq, Repr

/-- `ValidateTransactionElements` against the claimed basis: every non-ephemeral input's proof
must verify (core's verdict, `bad`) -/
def basisOk (t : Txn) : Bool :=
  t.inputs.all fun i => match i.leaf with
    | none => true
    | some _ => !i.bad

/-- the revert leg: every transaction must keep all its elements -/
def rebaseRevert (ts : List Txn) (b : Blk) : Option (List Txn) :=
  if ts.all (proofsOk b.leavesBefore) then some ts else none

/-- the apply leg for one block: confirmed transactions are dropped, ephemeral inputs whose
element the block created become confirmed, every remaining transaction must keep all its
elements -/
def rebaseApply (ts : List Txn) (b : Blk) : Option (List Txn) :=
  let confirmed := b.v2txns.map (·.id)
  let rem := (ts.filter fun t => !confirmed.contains t.id).map (mapInputs (confirmInp b.created))
  if rem.all (proofsOk b.leavesAfter) then some rem else none

def foldOpt {α β} (f : α → β → Option α) : Option α → List β → Option α
  | none, _ => none
  | some a, [] => some a
  | some a, b :: bs => foldOpt f (f a b) bs

/-- `path = none`: the basis (or the target) is not a block the store has a state/header for -/
def rebase (cfg : Cfg) (ts : List Txn) (path : Option (List Blk × List Blk)) : Option (List Txn) :=
  match path with
  | none => none
  | some (rev, app) =>
    if !ts.all basisOk then none
    else if rev.length + app.length > cfg.maxReorg then none
    else foldOpt rebaseApply (foldOpt rebaseRevert (some ts) rev) app

/-! ### set submission (`checkTxnSet` `:1229-1257`, `AddPoolTransactions` `:1377-1416`,
`AddV2PoolTransactions` `:1448-1495`) -/

/-- `none` = the set is invalid against the tip; `some b` = valid, `b` = every id is in `indices` -/
def checkTxnSet (cfg : Cfg) (p : Pool) (v2 : Bool) : MidState → List Txn → Option Bool
  | _, [] => some true
  | ms, t :: ts =>
    if txValid cfg p.led ms v2 t then
      (checkTxnSet cfg p v2 (applyTx ms t) ts).map fun b => (p.indices t.id).isSome && b
    else none

/-- the per-transaction loop against the pool's mid-state (`:1386-1400`, `:1466-1479`), on the
accumulator (mid-state, indices, weight, the slice being appended to).  `false` = the current
transaction conflicts with the pool; the accumulator is returned as it is at that moment. -/
def addLoop (cfg : Cfg) (l : Ledger) (v2 : Bool) : Acc → List Txn → Acc × Bool
  | a, [] => (a, true)
  | a, t :: ts =>
    if (a.idx t.id).isSome then addLoop cfg l v2 a ts          -- skip transactions already in the pool
    else if txValid cfg l a.ms v2 t then addLoop cfg l v2 (push a t) ts
    else (a, false)

def delIds (f : Nat → Option Nat) : List Txn → Nat → Option Nat
  | [] => f
  | t :: ts => delIds (upd f t.id none) ts

def setOwn (v2 : Bool) (p : Pool) (own : List Txn) : Pool :=
  if v2 then { p with v2txns := own } else { p with txns := own }

/-- after `revalidatePool`: `checkTxnSet`, then the loop.  The conflict path is the repaired one, as
coded: the slice is truncated to its old length, the ids of the removed transactions are deleted
from `indices`, the weight is restored and the mid-state is discarded. -/
def addSet (cfg : Cfg) (v2 : Bool) (p : Pool) (set : List Txn) : Pool × Res :=
  match checkTxnSet cfg p v2 MidState.empty set with
  | none => (p, .err)
  | some true => (p, .known)
  | some false =>
    match p.ms with
    | none => (p, .panic)                      -- nil mid-state dereference; unreachable after revalidatePool
    | some ms =>
      let own := if v2 then p.v2txns else p.txns
      match addLoop cfg p.led v2 ⟨ms, p.indices, p.weight, own⟩ set with
      | (a, true) => ({ setOwn v2 p a.kept with indices := a.idx, weight := a.weight, ms := some a.ms }, .ok)
      | (a, false) =>
        ({ setOwn v2 p (a.kept.take own.length) with
            indices := delIds a.idx (a.kept.drop own.length), weight := p.weight, ms := none }, .err)

def addPoolTransactions (cfg : Cfg) (p : Pool) (set : List Txn) : Pool × Res :=
  addSet cfg false (revalidate cfg p) set

def addV2PoolTransactions (cfg : Cfg) (p : Pool) (path : Option (List Blk × List Blk)) (set : List Txn) : Pool × Res :=
  let p := revalidate cfg p
  match rebase cfg set path with
  | none => (p, .err)
  | some set' => addSet cfg true p set'

/-! ### parents (`computeParentMap` `:786-818` repaired: one map per slice; `UnconfirmedParents`
`:1122-1168`, `V2TransactionSet` `:1174-1227` repaired: parents in pool order) -/

/-- output element ↦ position of the (last) pool transaction creating it -/
def parentIndex (ts : List Txn) (e : Nat) : Option Nat :=
  (ts.zipIdx.reverse.find? fun (t, _) => t.outputs.contains e).map (·.2)

/-- one `addParents(txn)`: every input whose creator is pooled and not yet seen is appended -/
def addParents (pool : List Txn) (seen : List Nat) : List Inp → List Nat
  | [] => seen
  | i :: is => match parentIndex pool i.elem with
    | some k => if seen.contains k then addParents pool seen is else addParents pool (seen ++ [k]) is
    | none => addParents pool seen is

/-- one round of the outer loop: `for _, txn := range parents { addParents(txn) }` over the
parents known at the start of the round -/
def parentsRound (pool : List Txn) (seen : List Nat) : List Nat → List Nat
  | [] => seen
  | k :: ks => match pool[k]? with
    | some t => parentsRound pool (addParents pool seen t.inputs) ks
    | none => parentsRound pool seen ks

def parentsClosure (pool : List Txn) : Nat → List Nat → List Nat
  | 0, seen => seen
  | fuel + 1, seen =>
    let seen' := parentsRound pool seen seen
    if seen'.length = seen.length then seen else parentsClosure pool fuel seen'

/-- the pooled ancestors of `t`, parents before children (pool order) -/
def parentsOf (pool : List Txn) (t : Txn) : List Txn :=
  let seen := parentsClosure pool (pool.length + 1) (addParents pool [] t.inputs)
  keepIdx pool seen

def unconfirmedParents (cfg : Cfg) (p : Pool) (t : Txn) : Pool × List Txn :=
  let p := revalidate cfg p
  (p, parentsOf p.txns t)

/-- repaired: only the caller's transaction is rebased from `basis`; the parents come from the
pool and are already current -/
def v2TransactionSet (cfg : Cfg) (p : Pool) (path : Option (List Blk × List Blk)) (t : Txn) : Pool × Option (List Txn) :=
  let p := revalidate cfg p
  match rebase cfg [t] path with
  | none => (p, none)
  | some ts => (p, some (parentsOf p.v2txns t ++ ts))

/-- `UpdateV2TransactionSet` (`:1425-1432`): `from == to` returns the input as it is -/
def updateV2TransactionSet (cfg : Cfg) (same : Bool) (path : Option (List Blk × List Blk)) (ts : List Txn) : Option (List Txn) :=
  if same then some ts else rebase cfg ts path

/-! ### `MineBlock`'s selection loop (`miner.go:58-75`, repaired: the weight of the uniqueness
transaction is counted) -/

def takeWeight (max : Nat) : Nat → List Txn → List Txn × Nat
  | w, [] => ([], w)
  | w, t :: ts =>
    if w + t.weight > max then ([], w + t.weight)
    else let r := takeWeight max (w + t.weight) ts; (t :: r.1, r.2)

def mineSelect (cfg : Cfg) (p : Pool) : List Txn × List Txn :=
  let v2on := decide (cfg.allow ≤ p.led.height + 1)
  let w0 := if v2on then cfg.filler else 0
  let a := takeWeight cfg.maxWeight w0 p.txns
  let b := if v2on then (takeWeight cfg.maxWeight a.2 p.v2txns).1 else []
  (a.1, b)

/-- `MineBlock`: reads both pool slices (each read revalidates), then selects -/
def mineBlock (cfg : Cfg) (p : Pool) : Pool × (List Txn × List Txn) :=
  let p := revalidate cfg p
  (p, mineSelect cfg p)

/-! ## histories -/

/-- everything that can happen to the pool.  `query` stands for every read-only entry point
(`PoolTransactions`, `V2PoolTransactions`, `PoolTransaction`, `V2PoolTransaction`,
`TransactionsForPartialBlock`, `RecommendedFee`, `UnconfirmedParents`, `V2TransactionSet`,
`MineBlock`): each of them starts with `revalidatePool` and changes nothing else. -/
inductive Op where
  | reorg (rev app : List Blk) (flags : List Bool)
  | addV1 (set : List Txn)
  | addV2 (path : Option (List Blk × List Blk)) (set : List Txn)
  | query

def step (cfg : Cfg) (p : Pool) : Op → Pool
  | .reorg rev app flags => reorg p rev app flags
  | .addV1 set => (addPoolTransactions cfg p set).1
  | .addV2 path set => (addV2PoolTransactions cfg p path set).1
  | .query => revalidate cfg p

def run (cfg : Cfg) (p : Pool) (ops : List Op) : Pool := ops.foldl (step cfg) p

end Verif.Pool
