/-
M11 `Conc` — small-step transition systems for C18 (limits and shutdown under any schedule).

Every system has an UNBOUNDED number of threads.  Threads of one kind are anonymous, so the
multiset of their program counters is represented by its count vector (one `Nat` per pc);
per-peer data is a `List` of per-peer records, each again holding the count vector of that
peer's handler threads.  One transition = one atomic step of the Go code: what happens under
one mutex acquisition (or one channel / WaitGroup operation) is one step; a check and an insert
that happen under two acquisitions are two steps.  The step functions are partial and
deterministic: `step s a = none` means "`a` is not enabled in `s`".

Source (line numbers of /repo AT COMMIT 8eb5ad0, i.e. after the C18 repairs 6c6a519, c45d52b,
8f6e149, 8eb5ad0; later commits of other properties shift syncer.go; the function names are the
stable reference and `Extracted/ConcFacts.lean` is regenerated from the current source):
  threadgroup/threadgroup.go   Add 29-45 (done closure 41-44), Stop 83-98
  syncer/syncer.go             addPeer 389-425 (critical section 398-424), acquireInflight 444-458,
                               releaseInflight 461-472, runPeer 474-561 (deferred cleanup 475-487,
                               tg.Add 489-493, shutdown watcher 499-507, semaphore 510-514, loop 515-560,
                               select 525-531, over-budget path 534-540, handler goroutine 542-559),
                               allowConnect 621-664, acceptLoop 677-729, Run 925-967, Close 970-974,
                               Connect 977-1010
  rhp/v4/server.go             Close 1356-1358, Serve 1361-1392
  wallet/wallet.go             Close 149-152, rebroadcast goroutine 1152-1176

Not modelled (said in the evidence): the Go scheduler (every interleaving of the atomic steps is
allowed, fairness is not assumed), channel and `sync.Cond` internals (a blocked thread is a step
whose guard is false), real time, and the network (a remote end closing a connection is an
environment step).
-/
namespace Verif.Conc

/-! ## labelled transition systems -/

/-- a system with a partial deterministic step function -/
structure Sys (σ : Type) (α : Type) where
  step : σ → α → Option σ

namespace Sys
variable {σ α : Type}

/-- run a sequence of labels; `none` if some step is not enabled -/
def run (S : Sys σ α) : σ → List α → Option σ
  | s, [] => some s
  | s, a :: as =>
    match S.step s a with
    | none => none
    | some s' => S.run s' as

/-- `s` is reachable from `s0` by some (arbitrarily long) sequence of steps -/
def Reach (S : Sys σ α) (s0 s : σ) : Prop := ∃ tr, S.run s0 tr = some s

/-- a label is enabled -/
def enabled (S : Sys σ α) (s : σ) (a : α) : Bool := (S.step s a).isSome

end Sys

/-! ## ThreadGroup  (threadgroup/threadgroup.go)

`closed` is the `closed` channel, `wg` the `sync.WaitGroup` counter.  Threads:
workers (`Add` … `done`) and callers of `Stop`.  -/

structure TG where
  closed : Bool := false
  /-- the WaitGroup counter -/
  wg : Nat := 0
  /-- worker threads between a successful `Add` and their `done` (pc = running) -/
  running : Nat := 0
  /-- workers whose `Add` returned `ErrClosed` -/
  rejected : Nat := 0
  /-- workers that called `done` -/
  finished : Nat := 0
  /-- `Stop` callers blocked in `wg.Wait()` -/
  waiting : Nat := 0
  /-- `Stop` callers that returned -/
  returned : Nat := 0
deriving DecidableEq, Repr

inductive TGStep
  /-- a (new) thread executes `Add`: one critical section of `tg.mu` -/
  | add
  /-- a running thread calls its `done` closure: `wg.Done()` -/
  | done
  /-- a thread executes the critical section of `Stop` and starts waiting -/
  | stop
  /-- `wg.Wait()` returns in some `Stop` caller: only possible when the counter is 0 -/
  | ret
deriving DecidableEq, Repr

def TG.step (s : TG) : TGStep → Option TG
  | .add =>
    if s.closed then some { s with rejected := s.rejected + 1 }
    else some { s with wg := s.wg + 1, running := s.running + 1 }
  | .done =>
    if 0 < s.running then
      some { s with wg := s.wg - 1, running := s.running - 1, finished := s.finished + 1 }
    else none
  | .stop => some { s with closed := true, waiting := s.waiting + 1 }
  | .ret =>
    if 0 < s.waiting ∧ s.wg = 0 then
      some { s with waiting := s.waiting - 1, returned := s.returned + 1 }
    else none

def tgSys : Sys TG TGStep := ⟨TG.step⟩

/-- the mutant "Add does not look at `closed`" (used to show that the theorems depend on the
check; never the model of the real code) -/
def TG.stepNoCheck (s : TG) : TGStep → Option TG
  | .add => some { s with wg := s.wg + 1, running := s.running + 1 }
  | a => s.step a

def tgSysNoCheck : Sys TG TGStep := ⟨TG.stepNoCheck⟩

/-! ## rhp4 Server: Serve / Close  (rhp/v4/server.go 1356-1392)

`Serve` starts one goroutine per accepted stream; the goroutine calls `tg.Add`, is refused
(`ErrHostShuttingDown`) when the group is closed, otherwise handles the stream and calls `done`.
`Close` is `tg.Stop`.  The wallet (`wallet.go` 149-152, 1152-1176) is the same system with a
single worker (the rebroadcast loop). -/

structure Srv where
  tg : TG := {}
  /-- stream goroutines started by `Serve` that have not yet executed `tg.Add` -/
  spawned : Nat := 0
deriving DecidableEq, Repr

inductive SrvStep
  | accept   -- Serve: AcceptStream returned, `go func()`
  | enter    -- the goroutine's `tg.Add`: refused or handling
  | finish   -- handler returned, `done()`
  | close    -- Close: critical section of Stop
  | closeRet -- Close returns
deriving DecidableEq, Repr

def Srv.step (s : Srv) : SrvStep → Option Srv
  | .accept => some { s with spawned := s.spawned + 1 }
  | .enter =>
    if 0 < s.spawned then
      (s.tg.step .add).map fun t => { tg := t, spawned := s.spawned - 1 }
    else none
  | .finish => (s.tg.step .done).map fun t => { s with tg := t }
  | .close => (s.tg.step .stop).map fun t => { s with tg := t }
  | .closeRet => (s.tg.step .ret).map fun t => { s with tg := t }

def srvSys : Sys Srv SrvStep := ⟨Srv.step⟩

/-! ## syncer in-flight accounting  (syncer.go runPeer 474-561, acquire/releaseInflight 444-472)

One subnet key (the entries of `inflightSubnet` are independent, a trace is projected onto one
key), any number of peers in it.  Per peer: the `runPeer` loop thread, the per-peer semaphore
`inflight` (`sem = len(inflight)`), and the multiset of its handler goroutines.  The syncer's
thread group is part of the state because two of the exits depend on it. -/

/-- pc of a `runPeer` loop thread -/
inductive LoopPc
  /-- blocked in / about to call `acceptRPC` -/
  | accept
  /-- has an RPC, blocked in `select { inflight <- … ; <-tg.Done() }` -/
  | want
  /-- took the per-peer slot, about to call `acquireInflight` -/
  | have
  /-- `acquireInflight` returned false, about to give the per-peer slot back -/
  | reject
  /-- saw `tg.Done()` in the select, returning -/
  | closing
  /-- `runPeer` returned (its `done()` executed) -/
  | exited
deriving DecidableEq, Repr

structure PeerSt where
  loop : LoopPc := .accept
  /-- `len(inflight)` -/
  sem : Nat := 0
  /-- handler goroutines started (holding both slots) that have not yet executed `tg.Add` -/
  spawned : Nat := 0
  /-- handlers inside `handleRPC` (between `tg.Add` ok and `done()`) -/
  running : Nat := 0
  /-- handlers past `done()` (or refused by the thread group), still holding both slots -/
  unwinding : Nat := 0
  /-- handlers that executed `releaseInflight`, still holding the per-peer slot -/
  relsub : Nat := 0
deriving DecidableEq, Repr

structure IF where
  /-- `MaxInflightRPCs`; `≤ 0` disables the limit (syncer.go 510-514) -/
  maxPeer : Int
  /-- `MaxInflightRPCsPerSubnet`; `≤ 0` disables the limit -/
  maxSub : Int
  tgClosed : Bool := false
  wg : Nat := 0
  /-- members of the thread group that are neither runPeer loops nor handlers of this subnet -/
  others : Nat := 0
  waiting : Nat := 0
  returned : Nat := 0
  /-- `inflightSubnet[key]` -/
  subnet : Nat := 0
  peers : List PeerSt := []
  /-- ghost: requests dropped because the subnet was over budget -/
  dropped : Nat := 0
deriving DecidableEq, Repr

inductive IFStep
  /-- `runPeer`: `tg.Add` succeeded; a new peer record is appended -/
  | peerStart
  /-- `acceptRPC` returned an RPC -/
  | want (p : Nat)
  /-- `inflight <- struct{}{}` succeeded -/
  | take (p : Nat)
  /-- the select took `<-s.tg.Done()` -/
  | sawClosed (p : Nat)
  /-- `runPeer` returns (peer error in `accept`, or after `sawClosed`): deferred `done()` -/
  | peerExit (p : Nat)
  /-- `acquireInflight`: one critical section of `inflightMu`, or the disabled path -/
  | acq (p : Nat)
  /-- `<-inflight` on the over-budget path -/
  | retSub (p : Nat)
  /-- handler: `tg.Add` -/
  | hAdd (p : Nat)
  /-- handler: `handleRPC` returned, deferred `done()` -/
  | hDone (p : Nat)
  /-- handler: deferred `releaseInflight` -/
  | relSub (p : Nat)
  /-- handler: deferred `<-inflight` -/
  | relPeer (p : Nat)
  /-- another thread's `tg.Add` / `done` -/
  | oAdd
  | oDone
  /-- `Close`: critical section of `tg.Stop`, then `wg.Wait` returning -/
  | stop
  | ret
deriving DecidableEq, Repr

/-- is the per-subnet limit enabled? -/
def IF.subOn (s : IF) : Bool := decide (0 < s.maxSub)

/-- may the per-peer semaphore be taken? (a channel of capacity `maxPeer`; `≤ 0` = unlimited) -/
def IF.semFree (s : IF) (p : PeerSt) : Bool := decide (s.maxPeer ≤ 0) || decide ((p.sem : Int) < s.maxPeer)

def IF.setPeer (s : IF) (i : Nat) (p : PeerSt) : IF := { s with peers := s.peers.set i p }

def IF.step (s : IF) : IFStep → Option IF
  | .peerStart =>
    if s.tgClosed then none
    else some { s with wg := s.wg + 1, peers := s.peers ++ [{}] }
  | .want i =>
    match s.peers[i]? with
    | some p => if p.loop = .accept then some (s.setPeer i { p with loop := .want }) else none
    | none => none
  | .take i =>
    match s.peers[i]? with
    | some p =>
      if p.loop = .want ∧ s.semFree p then
        some (s.setPeer i { p with loop := .have, sem := p.sem + 1 })
      else none
    | none => none
  | .sawClosed i =>
    match s.peers[i]? with
    | some p =>
      if p.loop = .want ∧ s.tgClosed then some (s.setPeer i { p with loop := .closing }) else none
    | none => none
  | .peerExit i =>
    match s.peers[i]? with
    | some p =>
      if p.loop = .accept ∨ p.loop = .closing then
        some { s.setPeer i { p with loop := .exited } with wg := s.wg - 1 }
      else none
    | none => none
  | .acq i =>
    match s.peers[i]? with
    | some p =>
      if p.loop = .have then
        if !s.subOn then
          -- disabled: `acquireInflight` returns true without touching the counter
          some (s.setPeer i { p with loop := .accept, spawned := p.spawned + 1 })
        else if s.maxSub ≤ (s.subnet : Int) then
          some (s.setPeer i { p with loop := .reject })
        else
          some { s.setPeer i { p with loop := .accept, spawned := p.spawned + 1 } with
                 subnet := s.subnet + 1 }
      else none
    | none => none
  | .retSub i =>
    match s.peers[i]? with
    | some p =>
      if p.loop = .reject ∧ 0 < p.sem then
        some { s.setPeer i { p with loop := .accept, sem := p.sem - 1 } with dropped := s.dropped + 1 }
      else none
    | none => none
  | .hAdd i =>
    match s.peers[i]? with
    | some p =>
      if 0 < p.spawned then
        if s.tgClosed then
          some (s.setPeer i { p with spawned := p.spawned - 1, unwinding := p.unwinding + 1 })
        else
          some { s.setPeer i { p with spawned := p.spawned - 1, running := p.running + 1 } with
                 wg := s.wg + 1 }
      else none
    | none => none
  | .hDone i =>
    match s.peers[i]? with
    | some p =>
      if 0 < p.running then
        some { s.setPeer i { p with running := p.running - 1, unwinding := p.unwinding + 1 } with
               wg := s.wg - 1 }
      else none
    | none => none
  | .relSub i =>
    match s.peers[i]? with
    | some p =>
      if 0 < p.unwinding then
        some { s.setPeer i { p with unwinding := p.unwinding - 1, relsub := p.relsub + 1 } with
               subnet := if s.subOn then s.subnet - 1 else s.subnet }
      else none
    | none => none
  | .relPeer i =>
    match s.peers[i]? with
    | some p =>
      if 0 < p.relsub ∧ 0 < p.sem then
        some (s.setPeer i { p with relsub := p.relsub - 1, sem := p.sem - 1 })
      else none
    | none => none
  | .oAdd =>
    if s.tgClosed then some s else some { s with wg := s.wg + 1, others := s.others + 1 }
  | .oDone =>
    if 0 < s.others then some { s with wg := s.wg - 1, others := s.others - 1 } else none
  | .stop => some { s with tgClosed := true, waiting := s.waiting + 1 }
  | .ret =>
    if 0 < s.waiting ∧ s.wg = 0 then
      some { s with waiting := s.waiting - 1, returned := s.returned + 1 }
    else none

def ifSys : Sys IF IFStep := ⟨IF.step⟩

def IF.init (maxPeer maxSub : Int) : IF := { maxPeer := maxPeer, maxSub := maxSub }

/-- slots of the per-peer semaphore that are held according to the program counters -/
def PeerSt.semHolders (p : PeerSt) : Nat :=
  (if p.loop = .have ∨ p.loop = .reject then 1 else 0) + p.spawned + p.running + p.unwinding + p.relsub

/-- slots of the subnet counter that are held by this peer's handlers -/
def PeerSt.subHolders (p : PeerSt) : Nat := p.spawned + p.running + p.unwinding

/-- members of the thread group that belong to this peer -/
def PeerSt.tgMembers (p : PeerSt) : Nat := (if p.loop = .exited then 0 else 1) + p.running

def sumBy (f : PeerSt → Nat) : List PeerSt → Nat
  | [] => 0
  | p :: ps => f p + sumBy f ps

/-! ## peer caps  (syncer.go allowConnect 621-664, addPeer 389-425, runPeer exit 475-487)

`inP`/`outP` count the entries of `s.peers` by direction.  An inbound connection goroutine runs
`allowConnect` (one acquisition of `s.mu`), then the handshake, then `addPeer` (another
acquisition).  `fixed = false` is the code as pinned (`addPeer` inserts unconditionally),
`fixed = true` the repaired code (`addPeer` re-checks the inbound limit under the same
acquisition as the insert).  Outbound: `peerLoop` is ONE thread that checks (`allowConnect`) and
then inserts (`Connect` → `addPeer`) before it checks again; an explicit `Connect` call inserts
without any check (by design: an operator's connection is not subject to the limit). -/

structure Caps where
  maxIn : Int
  maxOut : Int
  inP : Nat := 0
  outP : Nat := 0
  /-- inbound connection goroutines between a successful `allowConnect` and `addPeer` -/
  pendIn : Nat := 0
  /-- the peerLoop thread is between a successful `allowConnect` and `addPeer` -/
  pendOut : Bool := false
deriving DecidableEq, Repr

inductive CapStep
  /-- `allowConnect(…, inbound)` reaches the limit test -/
  | allow (inbound : Bool)
  /-- `addPeer` (its critical section, 398-424) of a connection that passed `allow` -/
  | add (inbound : Bool)
  /-- the connection is given up between `allow` and `add` (handshake failed, already connected) -/
  | abandon (inbound : Bool)
  /-- an explicit `Connect`: `addPeer` without `allowConnect` -/
  | direct
  /-- `runPeer` exit: `delete(s.peers, …)` -/
  | remove (inbound : Bool)
deriving DecidableEq, Repr

def Caps.step (fixed : Bool) (s : Caps) : CapStep → Option Caps
  | .allow true =>
    if (s.inP : Int) < s.maxIn then some { s with pendIn := s.pendIn + 1 } else some s
  | .allow false =>
    if s.pendOut then none   -- the single peerLoop thread is busy with its previous candidate
    else if (s.outP : Int) < s.maxOut then some { s with pendOut := true } else some s
  | .add true =>
    if 0 < s.pendIn then
      if fixed && decide (s.maxIn ≤ (s.inP : Int)) then some { s with pendIn := s.pendIn - 1 }
      else some { s with pendIn := s.pendIn - 1, inP := s.inP + 1 }
    else none
  | .add false =>
    if s.pendOut then some { s with pendOut := false, outP := s.outP + 1 } else none
  | .abandon true => if 0 < s.pendIn then some { s with pendIn := s.pendIn - 1 } else none
  | .abandon false => if s.pendOut then some { s with pendOut := false } else none
  | .direct => some { s with outP := s.outP + 1 }
  | .remove true => if 0 < s.inP then some { s with inP := s.inP - 1 } else none
  | .remove false => if 0 < s.outP then some { s with outP := s.outP - 1 } else none

def capsSys (fixed : Bool) : Sys Caps CapStep := ⟨Caps.step fixed⟩

def Caps.init (maxIn maxOut : Int) : Caps := { maxIn := maxIn, maxOut := maxOut }

/-! ## Syncer.Run / Close teardown  (syncer.go Run 925-967, Close 970-974, runPeer 474-507)

A running syncer: `Run` holds a thread-group slot and waits for the first of its three loops,
`acceptLoop` ends when the listener is closed, `peerLoop`/`syncLoop` end when the thread group is
closed (their context) or fail (`syncLoop` returns a fatal error).  After the first loop ended
`Run` closes the listener, closes the transports of the peers that are in the map at that
moment (the *sweep*), receives the other two results, waits until the map is empty and returns.
`Close` closes the listener and stops the thread group.  Connection goroutines (`acceptLoop`'s
per-connection goroutine, `Connect`) are members of the thread group; they may add a peer at any
time.  A peer's `runPeer` joins the thread group, blocks in `acceptRPC` until its transport is
closed, leaves the group and then removes the peer from the map.

`fixed = false`: the code as pinned — nobody but the sweep (or the remote end) closes a peer.
`fixed = true`: the repaired code — `runPeer` closes the peer when the group stops (`watch`) and
whenever it returns. -/

inductive RunPc
  | waitFirst | closeL | sweep | waitSecond | waitThird | waitPeers | returning | done
deriving DecidableEq, Repr

inductive LoopSt
  | running
  /-- the loop function returned; the goroutine is blocked in `errChan <- …` -/
  | sending
  | exited
deriving DecidableEq, Repr

inductive ClosePc
  | idle | closedL | waiting | returned
deriving DecidableEq, Repr

structure TD where
  lClosed : Bool := false
  tgClosed : Bool := false
  wg : Nat := 4
  run : RunPc := .waitFirst
  accept : LoopSt := .running
  /-- peerLoop and syncLoop: how many are running / blocked sending their result -/
  bgRun : Nat := 2
  bgSend : Nat := 0
  /-- `syncLoop` is one of the running context loops -/
  syncRun : Bool := true
  /-- block-ingestion goroutines of a sync round in progress (`parallelSync`'s goroutine that hands
  batches to the chain manager): not members of the thread group, joined by `syncLoop`
  (`wg.Wait` on every exit of `parallelSync`) before it can return -/
  ingest : Nat := 0
  /-- connection goroutines (members of the group) that have not yet called `addPeer` -/
  conns : Nat := 0
  /-- peers in the map whose `runPeer` has not yet executed `tg.Add`; transport open / closed -/
  aO : Nat := 0
  aC : Nat := 0
  /-- peers whose `runPeer` is blocked in `acceptRPC`; transport open / closed -/
  sO : Nat := 0
  sC : Nat := 0
  /-- peers whose `runPeer` left the group (`done()`) or was refused by it, and has not yet deleted
  the map entry -/
  un : Nat := 0
  /-- connections that are no longer in the map, not owned by any thread, and still open -/
  leaked : Nat := 0
  close : ClosePc := .idle
deriving DecidableEq, Repr

inductive TDStep
  | connStart | connFail | connAdd
  /-- `runPeer`'s `tg.Add` for a peer with an open (`true`) / closed transport -/
  | peerAdd (isOpen : Bool)
  /-- `acceptRPC` fails on a closed transport; `runPeer` returns: `done()` -/
  | peerErr
  /-- deferred removal from the map + `peerRemoved.Broadcast()` -/
  | peerRemove
  /-- ENVIRONMENT: the remote end closes a connection (of an added / a serving peer) -/
  | remoteClose (serving : Bool)
  /-- repaired code only: the peer's watcher sees `tg.Done()` and closes the peer -/
  | watch
  | acceptExit
  /-- a context loop sees its context cancelled and returns: `syncLoop` (`true`) only when no sync
  round is in progress — every exit of `parallelSync` waits for the round's goroutines —,
  `peerLoop` (`false`) at any time -/
  | bgExit (sync : Bool)
  /-- `syncLoop` starts a sync round (`parallelSync` starts its ingestion goroutine) -/
  | syncStart
  /-- the ingestion goroutine has made its last call into the chain manager and ends -/
  | ingestDone
  /-- ENVIRONMENT: `syncLoop` fails (fatal error of the chain manager) -/
  | bgFail
  /-- ENVIRONMENT: the listener is closed from outside (its owner closes the `net.Listener`, or it
  fails): `Accept` returns an error although neither `Run` nor `Close` closed it -/
  | envCloseL
  | runRecv | runCloseL | runSweep | runPeersDone | runReturn
  | closeL | closeStop | closeRet
deriving DecidableEq, Repr

def TD.mapSize (s : TD) : Nat := s.aO + s.aC + s.sO + s.sC + s.un

def TD.step (fixed : Bool) (s : TD) : TDStep → Option TD
  | .connStart =>
    if s.tgClosed then some s else some { s with conns := s.conns + 1, wg := s.wg + 1 }
  | .connFail =>
    if 0 < s.conns then some { s with conns := s.conns - 1, wg := s.wg - 1 } else none
  | .connAdd =>
    if 0 < s.conns then some { s with conns := s.conns - 1, wg := s.wg - 1, aO := s.aO + 1 } else none
  | .peerAdd true =>
    if 0 < s.aO then
      if s.tgClosed then
        -- refused: `runPeer` returns at once and will delete the map entry (`peerRemove`); the
        -- repaired code closes the transport on the way, the pinned code leaves it open
        if fixed then some { s with aO := s.aO - 1, un := s.un + 1 }
        else some { s with aO := s.aO - 1, un := s.un + 1, leaked := s.leaked + 1 }
      else some { s with aO := s.aO - 1, sO := s.sO + 1, wg := s.wg + 1 }
    else none
  | .peerAdd false =>
    if 0 < s.aC then
      if s.tgClosed then some { s with aC := s.aC - 1, un := s.un + 1 }
      else some { s with aC := s.aC - 1, sC := s.sC + 1, wg := s.wg + 1 }
    else none
  | .peerErr =>
    if 0 < s.sC then some { s with sC := s.sC - 1, un := s.un + 1, wg := s.wg - 1 } else none
  | .peerRemove => if 0 < s.un then some { s with un := s.un - 1 } else none
  | .remoteClose false =>
    if 0 < s.aO then some { s with aO := s.aO - 1, aC := s.aC + 1 } else none
  | .remoteClose true =>
    if 0 < s.sO then some { s with sO := s.sO - 1, sC := s.sC + 1 } else none
  | .watch =>
    if fixed ∧ s.tgClosed ∧ 0 < s.sO then some { s with sO := s.sO - 1, sC := s.sC + 1 } else none
  | .acceptExit =>
    if s.accept = .running ∧ s.lClosed then some { s with accept := .sending } else none
  | .bgExit true =>
    if s.syncRun ∧ s.ingest = 0 ∧ s.tgClosed ∧ 0 < s.bgRun then
      some { s with syncRun := false, bgRun := s.bgRun - 1, bgSend := s.bgSend + 1 }
    else none
  | .bgExit false =>
    if (if s.syncRun then 1 else 0) < s.bgRun ∧ s.tgClosed then
      some { s with bgRun := s.bgRun - 1, bgSend := s.bgSend + 1 }
    else none
  | .bgFail =>
    if s.syncRun ∧ s.ingest = 0 ∧ 0 < s.bgRun then
      some { s with syncRun := false, bgRun := s.bgRun - 1, bgSend := s.bgSend + 1 }
    else none
  | .syncStart => if s.syncRun ∧ s.ingest = 0 then some { s with ingest := 1 } else none
  | .ingestDone => if 0 < s.ingest then some { s with ingest := s.ingest - 1 } else none
  | .envCloseL => some { s with lClosed := true }
  | .runRecv =>
    -- `<-errChan` rendezvous with one loop that is sending; that loop then calls `done()`
    let next : Option RunPc := match s.run with
      | .waitFirst => some .closeL
      | .waitSecond => some .waitThird
      | .waitThird => some .waitPeers
      | _ => none
    match next with
    | none => none
    | some pc =>
      if s.accept = .sending then some { s with accept := .exited, wg := s.wg - 1, run := pc }
      else if 0 < s.bgSend then some { s with bgSend := s.bgSend - 1, wg := s.wg - 1, run := pc }
      else none
  | .runCloseL => if s.run = .closeL then some { s with lClosed := true, run := .sweep } else none
  | .runSweep =>
    if s.run = .sweep then
      some { s with aC := s.aC + s.aO, aO := 0, sC := s.sC + s.sO, sO := 0, run := .waitSecond }
    else none
  | .runPeersDone =>
    if s.run = .waitPeers ∧ s.mapSize = 0 then some { s with run := .returning } else none
  | .runReturn =>
    if s.run = .returning then some { s with run := .done, wg := s.wg - 1 } else none
  | .closeL => if s.close = .idle then some { s with lClosed := true, close := .closedL } else none
  | .closeStop =>
    if s.close = .closedL then some { s with tgClosed := true, close := .waiting } else none
  | .closeRet =>
    if s.close = .waiting ∧ s.wg = 0 then some { s with close := .returned } else none

def tdSys (fixed : Bool) : Sys TD TDStep := ⟨TD.step fixed⟩

/-- the steps of threads that exist in the state (no thread creation, no environment step);
progress of `Close` must come from one of these -/
def TD.progressSteps : List TDStep :=
  [.connFail, .connAdd, .peerAdd true, .peerAdd false, .peerErr, .peerRemove, .watch,
   .acceptExit, .bgExit true, .bgExit false, .ingestDone, .runRecv, .runCloseL, .runSweep, .runPeersDone, .runReturn, .closeRet]

def TD.canProgress (fixed : Bool) (s : TD) : Bool :=
  TD.progressSteps.any fun a => (TD.step fixed s a).isSome

/-! ## per-peer back-pressure and the transport's read loop  (syncer.go runPeer loop / handler,
peer.go acceptRPC, go.sia.tech/mux v3 readLoop + Stream.consumeFrame)

One peer connection.  The client writes, per RPC `k`, an id frame and then a request frame; frames
of different RPCs may interleave on the wire.  The server's mux read loop takes ONE frame off the
wire and holds it until the stream it belongs to reads it (`consumeFrame` blocks the read loop).
`runPeer` reads the id of the next stream (`acceptRPC`), then waits for a per-peer slot, then
starts the handler, which reads the request (`stream.ReadRequest` in `handleRPC`) and runs.  -/

inductive Frame
  | id (k : Nat)
  | req (k : Nat)
deriving DecidableEq, Repr

inductive RpcPc
  /-- id frame not yet read by `acceptRPC` -/
  | fresh
  /-- id read; `runPeer` is blocked in the select waiting for a slot for this stream -/
  | accepted
  /-- handler started (holds a slot), blocked reading its request -/
  | waitingReq
  /-- handler has read its request and runs -/
  | running
  | done
deriving DecidableEq, Repr

structure HOL where
  limit : Nat
  /-- frames sent by the client and not yet taken by the read loop -/
  wire : List Frame
  /-- the frame the read loop is handing to its stream -/
  held : Option Frame := none
  st : List RpcPc
  sem : Nat := 0
deriving DecidableEq, Repr

inductive HOLStep
  | deliver
  | acceptID (k : Nat)
  | take (k : Nat)
  | readReq (k : Nat)
  | finish (k : Nat)
deriving DecidableEq, Repr

def HOL.step (s : HOL) : HOLStep → Option HOL
  | .deliver =>
    match s.held, s.wire with
    | none, f :: rest => some { s with held := some f, wire := rest }
    | _, _ => none
  | .acceptID k =>
    -- the runPeer loop is free (no stream is waiting for a slot) and reads the id of stream k
    if s.held = some (.id k) ∧ s.st[k]? = some .fresh ∧ s.st.all (· ≠ .accepted) then
      some { s with held := none, st := s.st.set k .accepted }
    else none
  | .take k =>
    if s.st[k]? = some .accepted ∧ s.sem < s.limit then
      some { s with st := s.st.set k .waitingReq, sem := s.sem + 1 }
    else none
  | .readReq k =>
    if s.held = some (.req k) ∧ s.st[k]? = some .waitingReq then
      some { s with held := none, st := s.st.set k .running }
    else none
  | .finish k =>
    if s.st[k]? = some .running then some { s with st := s.st.set k .done, sem := s.sem - 1 }
    else none

def holSys : Sys HOL HOLStep := ⟨HOL.step⟩

def HOL.init (limit : Nat) (wire : List Frame) (n : Nat) : HOL :=
  { limit := limit, wire := wire, st := List.replicate n .fresh }

def HOL.final (s : HOL) : Bool := s.st.all (· = .done)

/-- some step is enabled (the candidates are finitely many: indices below the number of RPCs) -/
def HOL.canStep (s : HOL) : Bool :=
  (s.step .deliver).isSome ||
  (List.range s.st.length).any fun k =>
    (s.step (.acceptID k)).isSome || (s.step (.take k)).isSome ||
    (s.step (.readReq k)).isSome || (s.step (.finish k)).isSome

/-- a wire on which every RPC's id frame precedes its request frame, each exactly once -/
def wireOK (n : Nat) (w : List Frame) : Bool :=
  (List.range n).all fun k =>
    w.count (.id k) = 1 && w.count (.req k) = 1 && w.idxOf (.id k) < w.idxOf (.req k)

/-- the frames of `t` requests numbered from `c`, issued one after the other: each request frame
directly behind its id frame -/
def seqFrom : Nat → Nat → List Frame
  | _, 0 => []
  | c, t + 1 => .id c :: .req c :: seqFrom (c + 1) t

/-- the wire of a peer that issues `n` requests one after the other -/
def seqWire (n : Nat) : List Frame := seqFrom 0 n

/-! The same connection when the peer issues its requests ONE AFTER THE OTHER (each request frame
directly follows its id frame on the wire).  RPCs then complete their input in order, so the
multiset of their program counters is a count vector plus the state of the one RPC in transit. -/

inductive CurPc
  | none
  /-- id frame held by the read loop -/
  | idHeld
  /-- id read, `runPeer` waits for a slot; request frame still on the wire / held by the read loop -/
  | accWire | accHeld
  /-- handler started (has a slot); request frame still on the wire / held by the read loop -/
  | waitWire | waitHeld
deriving DecidableEq, Repr

structure SeqHOL where
  limit : Nat
  /-- RPCs whose frames are all still on the wire -/
  todo : Nat
  cur : CurPc := .none
  running : Nat := 0
  doneN : Nat := 0
  sem : Nat := 0
deriving DecidableEq, Repr

inductive SeqStep
  | deliverId | acceptID | deliverReq | take | readReq | finish
deriving DecidableEq, Repr

def SeqHOL.step (s : SeqHOL) : SeqStep → Option SeqHOL
  | .deliverId => if s.cur = .none ∧ 0 < s.todo then some { s with cur := .idHeld, todo := s.todo - 1 } else none
  | .acceptID => if s.cur = .idHeld then some { s with cur := .accWire } else none
  | .deliverReq =>
    if s.cur = .accWire then some { s with cur := .accHeld }
    else if s.cur = .waitWire then some { s with cur := .waitHeld }
    else none
  | .take =>
    if s.sem < s.limit then
      if s.cur = .accWire then some { s with cur := .waitWire, sem := s.sem + 1 }
      else if s.cur = .accHeld then some { s with cur := .waitHeld, sem := s.sem + 1 }
      else none
    else none
  | .readReq => if s.cur = .waitHeld then some { s with cur := .none, running := s.running + 1 } else none
  | .finish =>
    if 0 < s.running then some { s with running := s.running - 1, doneN := s.doneN + 1, sem := s.sem - 1 }
    else none

def seqHolSys : Sys SeqHOL SeqStep := ⟨SeqHOL.step⟩

def SeqHOL.final (s : SeqHOL) : Bool := s.todo = 0 && s.cur = .none && s.running = 0

def SeqHOL.canStep (s : SeqHOL) : Bool :=
  [SeqStep.deliverId, .acceptID, .deliverReq, .take, .readReq, .finish].any fun a => (s.step a).isSome

/-! ## a sync round's worker → orchestrator channel  (syncer/parallel_sync.go parallelSync)

`respChan` is a buffered channel of capacity `cap` (128 in the code).  Workers (one per unsynced
peer) take requests from `reqChan`, and send exactly one response per request; the orchestrator
reads responses while the round runs (`reading`).  When the round is aborted (`ctx.Done()`,
ingestion error, stall) the orchestrator stops reading, closes `reqChan` and waits for the workers
(`wg.Wait`).  A request that was in flight at that moment may still succeed (its worker then takes
one more buffered request, which fails at once because the context is cancelled); a worker whose
request fails sends the error response and exits; an idle worker finds `reqChan` closed and exits
once the buffered requests are gone. -/

structure Round where
  cap : Nat
  /-- responses in `respChan` -/
  len : Nat := 0
  /-- workers with a request in flight that was handed out while the round was running -/
  busyOld : Nat := 0
  /-- workers with a request they took after the abort (it can only fail) -/
  busyNew : Nat := 0
  /-- workers waiting for a request -/
  idle : Nat := 0
  /-- requests buffered in `reqChan` -/
  queued : Nat := 0
  reading : Bool := true
  joined : Bool := false
deriving DecidableEq, Repr

inductive RoundStep
  /-- ticker branch: a worker is started for a new peer and a request is queued -/
  | spawn
  /-- a worker takes a request from `reqChan` -/
  | assign
  /-- a worker's request succeeded: `respChan <- resp`, then it waits for the next request -/
  | respondOk
  /-- a worker's request failed: `respChan <- resp`, then it exits -/
  | respondErr
  /-- the orchestrator reads a response (and queues the next / the failed request again) -/
  | consume (requeue : Bool)
  /-- the round is aborted: the orchestrator stops reading and closes `reqChan` -/
  | abort
  /-- an idle worker finds `reqChan` closed and empty -/
  | workerQuit
  /-- `wg.Wait()` returns -/
  | join
  /-- repaired code (0194f79) only: a worker whose round has ended (`ctx` cancelled) gives up
  reporting its response (`select { case respChan <- resp: case <-ctx.Done(): return }`) -/
  | dropSend
deriving DecidableEq, Repr

def Round.step (s : Round) : RoundStep → Option Round
  | .spawn => if s.reading then some { s with idle := s.idle + 1, queued := s.queued + 1 } else none
  | .assign =>
    if 0 < s.queued ∧ 0 < s.idle then
      if s.reading then some { s with queued := s.queued - 1, idle := s.idle - 1, busyOld := s.busyOld + 1 }
      else some { s with queued := s.queued - 1, idle := s.idle - 1, busyNew := s.busyNew + 1 }
    else none
  | .respondOk =>
    -- a send on a full channel blocks: the step is not enabled
    if 0 < s.busyOld ∧ s.len < s.cap then
      some { s with busyOld := s.busyOld - 1, idle := s.idle + 1, len := s.len + 1 }
    else none
  | .respondErr =>
    if s.len < s.cap then
      if 0 < s.busyOld then some { s with busyOld := s.busyOld - 1, len := s.len + 1 }
      else if 0 < s.busyNew then some { s with busyNew := s.busyNew - 1, len := s.len + 1 }
      else none
    else none
  | .consume rq =>
    if s.reading ∧ 0 < s.len then
      some { s with len := s.len - 1, queued := if rq then s.queued + 1 else s.queued }
    else none
  | .abort => if s.reading then some { s with reading := false } else none
  | .workerQuit =>
    if !s.reading ∧ s.queued = 0 ∧ 0 < s.idle then some { s with idle := s.idle - 1 } else none
  | .join =>
    if !s.reading ∧ s.busyOld = 0 ∧ s.busyNew = 0 ∧ s.idle = 0 ∧ !s.joined then some { s with joined := true }
    else none
  | .dropSend => none

/-- the code as it was (blocking send) -/
def roundSys : Sys Round RoundStep := ⟨Round.step⟩

/-- the repaired code: every exit of the orchestration loop cancels the round's context before it
waits for the workers (`reading = false` ⇒ `ctx` cancelled), and a worker's send gives up then -/
def Round.stepFixed (s : Round) : RoundStep → Option Round
  | .dropSend =>
    if !s.reading then
      if 0 < s.busyOld then some { s with busyOld := s.busyOld - 1 }
      else if 0 < s.busyNew then some { s with busyNew := s.busyNew - 1 }
      else none
    else none
  | a => s.step a

def roundSysFixed : Sys Round RoundStep := ⟨Round.stepFixed⟩

def Round.canStepFixed (s : Round) : Bool :=
  [RoundStep.assign, .respondOk, .respondErr, .dropSend, .workerQuit, .join].any fun a => (s.stepFixed a).isSome

/-- responses that may still be sent once the orchestrator has stopped reading, plus those already
in the channel -/
def Round.demand (s : Round) : Nat := s.len + 2 * s.busyOld + s.busyNew + s.idle

def Round.canStep (s : Round) : Bool :=
  [RoundStep.assign, .respondOk, .respondErr, .workerQuit, .join].any fun a => (s.step a).isSome

end Verif.Conc
