/-
M5 `WalletLedger` — how `wallet.SingleAddressWallet.UpdateChainState` keeps a store in step with
the chain (`/repo/wallet/update.go`), transcribed function by function.  Core-only.

What is modelled as it is coded: `relevantV1Txn` / `relevantV2Txn` (:56-93), `appliedEvents`
(:97-294: siafund claims, v1/v2 transaction events, v1/v2 contract resolutions, miner payouts,
foundation subsidy, the "inflow = outflow → no event" rule of `addEvent`), the inflow/outflow
accounting of `events.go:94-165`, `applyChainUpdate` (:297-323: proofs of existing elements first,
then created / spent, then events), `revertChainUpdate` (:326-354: undo the diffs and drop the events
of the reverted index, then move the proofs), `UpdateChainState` (:358-378: reverts, then applies).

Parameters: consensus hands the wallet, for every block, the siacoin element diffs and the block
contents; here a `Block` carries exactly the parts of both that the code reads, with the
address comparisons already evaluated (`own` = "… == walletAddress").  Merkle proofs are
represented by the block at whose accumulator they verify (`basis`).  The store is the
harness's: after a revert it records the parent index.
-/
namespace Verif.WalletLedger

/-- a siacoin element of a diff: `own` = `SiacoinOutput.Address == walletAddress` -/
structure Elem where
  id : Nat
  value : Nat
  maturity : Nat
  own : Bool
deriving DecidableEq, Repr, Inhabited

structure Diff where
  e : Elem
  created : Bool
  spent : Bool
deriving DecidableEq, Repr

/-- a siacoin input as the transaction carries it: v1 `ParentID` + `UnlockConditions.UnlockHash() ==
addr`; v2 `Parent.ID`, `Parent.SiacoinOutput.Value`, `…Address == addr` -/
structure TxIn where
  id : Nat
  value : Nat
  own : Bool
deriving DecidableEq, Repr

/-- a siafund input: `ClaimAddress == walletAddress` and the id of the claim output -/
structure SfIn where
  claimOwn : Bool
  claimId : Nat
deriving DecidableEq, Repr

structure Txn where
  id : Nat
  v2 : Bool
  ins : List TxIn
  /-- siacoin outputs: value, `Address == walletAddress` -/
  outs : List (Nat × Bool)
  sfins : List SfIn
deriving DecidableEq, Repr

/-- a resolved v1 contract: the applicable (valid or missed) proof outputs with
`Address == walletAddress` and their output ids -/
structure Res1 where
  outs : List (Bool × Nat)
deriving DecidableEq, Repr

/-- a resolved v2 contract: the ids of its host and renter payout elements -/
structure Res2 where
  hostId : Nat
  renterId : Nat
deriving DecidableEq, Repr

structure Block where
  idx : Nat
  parent : Nat
  height : Nat
  /-- `SiacoinElementDiffs()` -/
  diffs : List Diff
  /-- `block.Transactions` then `block.V2Transactions()` -/
  txns : List Txn
  res1 : List Res1
  res2 : List Res2
  /-- miner payouts: `Address == walletAddress`, output id -/
  miners : List (Bool × Nat)
  foundationId : Nat
deriving DecidableEq, Repr

inductive Kind
  | miner | foundation | claim | v1txn | v1res | v2txn | v2res
deriving DecidableEq, Repr

structure Event where
  id : Nat
  idx : Nat
  kind : Kind
  inflow : Nat
  outflow : Nat
  maturity : Nat
deriving DecidableEq, Repr

/-! ### appliedEvents (update.go:97-294) -/

/-- `siacoinElements[id]` (:104-108): the last diff with that id -/
def lookup (diffs : List Diff) (id : Nat) : Option Elem :=
  (diffs.reverse.find? fun d => d.e.id == id).map (·.e)

/-- `addEvent` (:110-126) -/
def addEvent (idx : Nat) (acc : List Event) (id : Nat) (k : Kind) (inflow outflow maturity : Nat) : List Event :=
  if inflow = outflow then acc else acc ++ [⟨id, idx, k, inflow, outflow, maturity⟩]

/-- `relevantV1Txn` / `relevantV2Txn` (:56-93, repaired: a claim paid to the address counts) -/
def relevant (t : Txn) : Bool :=
  t.outs.any (·.2) || t.ins.any (·.own) || t.sfins.any (·.claimOwn)

def payout (b : Block) (k : Kind) (acc : List Event) (id : Nat) : List Event :=
  match lookup b.diffs id with
  | some sce => addEvent b.idx acc id k sce.value 0 sce.maturity
  | none => acc

/-- :133-144 / :166-177 — a claim event per siafund input whose claim is paid to the wallet (the
code panics if the claim element is missing: consensus always creates it) -/
def claimEvents (b : Block) (acc : List Event) (t : Txn) : List Event :=
  t.sfins.foldl (fun acc si => if si.claimOwn then payout b .claim acc si.claimId else acc) acc

def sumOwnOuts (t : Txn) : Nat := ((t.outs.filter (·.2)).map (·.1)).sum

/-- value of the element the diffs hold under `id` if it pays the wallet (0 otherwise) -/
def ownValue (b : Block) (id : Nat) : Nat :=
  match lookup b.diffs id with | some e => if e.own then e.value else 0 | none => 0

/-- outflow of a v1 transaction event (:150-158 with events.go:108-116): the spent elements, looked
up in the diffs, that belong to the wallet -/
def v1Outflow (b : Block) (t : Txn) : Nat := (t.ins.map fun i => ownValue b i.id).sum

/-- outflow of a v2 transaction event (events.go:117-125): the parents the inputs carry -/
def v2Outflow (t : Txn) : Nat := ((t.ins.filter (·.own)).map (·.value)).sum

def txnEvents (b : Block) (acc : List Event) (t : Txn) : List Event :=
  if !relevant t then acc
  else
    let acc := claimEvents b acc t
    if t.v2 then addEvent b.idx acc t.id .v2txn (sumOwnOuts t) (v2Outflow t) b.height
    else addEvent b.idx acc t.id .v1txn (sumOwnOuts t) (v1Outflow b t) b.height

/-- :182-226 -/
def res1Events (b : Block) (acc : List Event) (r : Res1) : List Event :=
  r.outs.foldl (fun acc o => if o.1 then payout b .v1res acc o.2 else acc) acc

/-- a payout recorded only if the created element pays the wallet -/
def payoutIfOwn (b : Block) (k : Kind) (acc : List Event) (id : Nat) : List Event :=
  match lookup b.diffs id with
  | some sce => if sce.own then addEvent b.idx acc id k sce.value 0 sce.maturity else acc
  | none => acc

/-- :228-268 (repaired: the address of the created element decides), host output first -/
def res2Events (b : Block) (acc : List Event) (r : Res2) : List Event :=
  payoutIfOwn b .v2res (payoutIfOwn b .v2res acc r.hostId) r.renterId

/-- :97-294 -/
def appliedEvents (b : Block) : List Event :=
  let acc := b.txns.foldl (txnEvents b) []
  let acc := b.res1.foldl (res1Events b) acc
  let acc := b.res2.foldl (res2Events b) acc
  let acc := b.miners.foldl (fun acc m => if m.1 then payout b .miner acc m.2 else acc) acc
  -- :287-292 the foundation subsidy, if the block has one and it pays the wallet
  payoutIfOwn b .foundation acc b.foundationId

/-! ### what a block's contents have to do with its diffs (a consensus fact, checked by the
driver on every real block the harness declares) -/

/-- the wallet's elements of a diff list (:303-317, :328-342): created, spent (ephemeral and
foreign elements are skipped) -/
def ownCreated (diffs : List Diff) : List Elem :=
  (diffs.filter fun d => !(d.created && d.spent) && d.e.own && d.created).map (·.e)

def ownSpent (diffs : List Diff) : List Elem :=
  (diffs.filter fun d => !(d.created && d.spent) && d.e.own && !d.created && d.spent).map (·.e)


def sumE (es : List Elem) : Nat := (es.map (·.value)).sum

/-- value of the element the diffs hold under `id` (0 if none) -/
def elemValue (b : Block) (id : Nat) : Nat := match lookup b.diffs id with | some e => e.value | none => 0

/-- the siafund claims of a transaction that are paid to the wallet -/
def claimSum (b : Block) (t : Txn) : Nat := ((t.sfins.filter (·.claimOwn)).map fun si => elemValue b si.claimId).sum

def txnOutflow (b : Block) (t : Txn) : Nat := if t.v2 then v2Outflow t else v1Outflow b t

/-- what the contents of the block pay to the wallet: transaction outputs and siafund claims,
v1 contract payouts (valid or missed), v2 contract payouts (storage proof, expiration,
renewal), miner payouts, the foundation subsidy -/
def paid (b : Block) : Nat :=
  (b.txns.map fun t => claimSum b t + sumOwnOuts t).sum +
  (b.res1.map fun r => ((r.outs.filter (·.1)).map fun o => elemValue b o.2).sum).sum +
  (b.res2.map fun r => ownValue b r.hostId + ownValue b r.renterId).sum +
  ((b.miners.filter (·.1)).map fun m => elemValue b m.2).sum +
  ownValue b b.foundationId

/-- what the transactions of the block take from the wallet -/
def taken (b : Block) : Nat := (b.txns.map (txnOutflow b)).sum

/-- the wallet's elements that the block both creates and spends -/
def ephemeralOwn (b : Block) : Nat := ((b.diffs.filter fun d => d.created && d.spent && d.e.own).map (·.e.value)).sum

/-- the unlock hash of a v1 input is the address of the element it spends -/
def v1InsCoherent (b : Block) : Bool :=
  b.txns.all fun t => t.v2 || t.ins.all fun i =>
    match lookup b.diffs i.id with | some e => e.own == i.own | none => true

/-- the wallet's share of the elements the block creates (spends) is what its contents pay to
(take from) the wallet -/
def coherent (b : Block) : Bool :=
  decide (sumE (ownCreated b.diffs) + ephemeralOwn b = paid b) &&
  decide (sumE (ownSpent b.diffs) + ephemeralOwn b = taken b) && v1InsCoherent b

def BlockCoherent (b : Block) : Prop := coherent b = true

instance (b : Block) : Decidable (BlockCoherent b) := by unfold BlockCoherent; infer_instance

/-! ### the store and the two update functions -/

/-- a stored unspent output; `basis` = the block at whose accumulator its Merkle proof verifies -/
structure UEntry where
  value : Nat
  maturity : Nat
  basis : Nat
deriving DecidableEq, Repr

structure Store where
  tip : Nat
  utxos : Nat → Option UEntry
  events : List Event

def Store.init : Store := ⟨0, fun _ => none, []⟩

def remove (m : Nat → Option UEntry) (es : List Elem) : Nat → Option UEntry :=
  fun id => if es.any (·.id == id) then none else m id

def add (basis : Nat) (m : Nat → Option UEntry) (es : List Elem) : Nat → Option UEntry :=
  fun id => match es.find? (·.id == id) with
    | some e => some ⟨e.value, e.maturity, basis⟩
    | none => m id

/-- `UpdateWalletSiacoinElementProofs` with the update of block `basis` -/
def rebase (basis : Nat) (m : Nat → Option UEntry) : Nat → Option UEntry :=
  fun id => (m id).map fun u => { u with basis := basis }

/-- `applyChainUpdate` (:297-323) with the store's `WalletApplyIndex` -/
def Store.apply (s : Store) (b : Block) : Store :=
  { tip := b.idx
    utxos := add b.idx (remove (rebase b.idx s.utxos) (ownSpent b.diffs)) (ownCreated b.diffs)
    events := s.events ++ appliedEvents b }

/-- `revertChainUpdate` (:326-354) with the store's `WalletRevertIndex`; the elements that come
back carry proofs for the parent's accumulator; the tip becomes the parent -/
def Store.revert (s : Store) (b : Block) : Store :=
  { tip := b.parent
    utxos := rebase b.parent (add b.parent (remove s.utxos (ownCreated b.diffs)) (ownSpent b.diffs))
    events := s.events.filter fun e => e.idx != b.idx }

inductive Upd
  | revert (b : Block)
  | apply (b : Block)

def Store.step (s : Store) : Upd → Store
  | .revert b => s.revert b
  | .apply b => s.apply b

/-- `UpdateChainState` on one chunk, or on any concatenation of chunks -/
def Store.run (s : Store) (us : List Upd) : Store := us.foldl Store.step s

/-- the store after following a chain of blocks from nothing -/
def follow (c : List Block) : Store := c.foldl Store.apply Store.init

end Verif.WalletLedger
