/-
M-KV-F — the key-value backends of `Model/KV.lean` when the PHYSICAL database under them fails:
`CreateBucket` refused, or the commit of `Flush` failing with the batch left pending.  The
physical database is a dependency (`chain.DB` over bbolt, or anything the application supplies),
so the failure is an explicit operation of the history, not something the model decides.

`FOp` = the operations of `Model/KV.lean` plus the two failing calls.  `Spec.stepF` is what the
property demands of EVERY backend: the failing call returns an error and changes nothing, neither
the working nor the durable image.  `MemDB.stepF` is `MemDB` behind the harness's fault wrapper
(the wrapper answers the failing call itself).  `CacheDB.stepF` is `CacheDB` (`db.go:273-346`)
over a backend that can fail: `CreateBucket` asks the inner database FIRST and returns its error
before touching the overlay; `Flush` pushes the overlay into the inner database, clears the
overlay, and returns whatever the inner `Flush` returns.  Core only.
-/
import Verif.Model.KV

namespace Verif.KV

inductive FOp where
  | op (o : Op)
  | failCreate (b : Nat)
  | failFlush
  deriving Repr, DecidableEq

structure BackendF (σ : Type) where
  step : σ → FOp → σ × Out

/-- the same backend restricted to the calls that do not fail -/
def BackendF.plain {σ} (B : BackendF σ) : Backend σ := ⟨fun s o => B.step s (.op o)⟩

def Spec.stepF (s : Spec) : FOp → Spec × Out
  | .op o => s.step o
  | .failCreate _ => (s, .err)
  | .failFlush => (s, .err)

def MemDB.stepF (d : MemDB) : FOp → MemDB × Out
  | .op o => d.step o
  | .failCreate _ => (d, .err)
  | .failFlush => (d, .err)

def CacheDB.stepF {σ} (B : BackendF σ) (names : List Nat) (c : CacheDB σ) : FOp → CacheDB σ × Out
  | .op o => CacheDB.step B.plain names c o
  | .failCreate b =>
      match B.step c.inner (.failCreate b) with
      | (s', .ok) =>
          let c' : CacheDB σ := { c with inner := s' }
          (match c'.mem.create b with
           | none => (c', .err)
           | some m => ({ c' with mem := m }, .ok))
      | (s', _) => ({ c with inner := s' }, .err)
  | .failFlush =>
      let s1 := runInner B.plain c.inner (CacheDB.flushOps c.mem names)
      let r := B.step s1 .failFlush
      ({ mem := c.mem.cleared, inner := r.1 }, r.2)

def specBackendF : BackendF Spec := ⟨Spec.stepF⟩
def memBackendF : BackendF MemDB := ⟨MemDB.stepF⟩

def addNameF (names : List Nat) : FOp → List Nat
  | .op o => addName names o
  | .failCreate b => if names.contains b then names else b :: names
  | .failFlush => names

def CacheDB.stepNF {σ} (B : BackendF σ) (cn : CacheDB σ × List Nat) (fop : FOp) :
    (CacheDB σ × List Nat) × Out :=
  let names := addNameF cn.2 fop
  let r := CacheDB.stepF B names cn.1 fop
  ((r.1, names), r.2)

def cacheBackendF {σ} (B : BackendF σ) : BackendF (CacheDB σ × List Nat) := ⟨CacheDB.stepNF B⟩

end Verif.KV
