/-
Model of a set of callers of one object whose every method body is a sequence of critical
sections of ONE exclusive lock (what `Extracted.managerLocks` says of `chain.Manager`, see
`Props/C01Src.lean` and `Props/C05Src.lean`): instruction-level interleaving semantics.

A thread's program is a list of segments; a segment is the list of state transformers the method
executes between `Lock` and `Unlock` (`AddBlocks` = two segments with the listener calls, which
touch nothing of the manager, between them; every other method = one).  The scheduler picks, at
every step, ANY thread; the step is a no-op when that thread cannot move (it wants the lock and
another thread holds it).  Core only.
-/
namespace Verif.Mutex

abbrev Seg (σ : Type) := List (σ → σ)

structure Sys (σ : Type) where
  st   : σ
  /-- per thread: the segments it has not started yet -/
  rest : List (List (Seg σ))
  /-- the holder of the lock, the instructions of its segment it has executed, those left -/
  hold : Option (Nat × Seg σ × Seg σ)
  /-- ghost: the completed segments in the order in which the lock was released -/
  done : List (Nat × Seg σ)

def app {σ : Type} (x : σ) (f : σ → σ) : σ := f x

/-- one scheduler step for thread `t` -/
def step {σ : Type} (s : Sys σ) (t : Nat) : Sys σ :=
  match s.hold with
  | none =>
    match s.rest[t]? with
    | some (seg :: more) => { s with rest := s.rest.set t more, hold := some (t, [], seg) }
    | _ => s
  | some (h, ex, []) => if h = t then { s with hold := none, done := s.done ++ [(h, ex)] } else s
  | some (h, ex, a :: as) => if h = t then { s with st := a s.st, hold := some (h, ex ++ [a], as) } else s

def run {σ : Type} (s : Sys σ) (sched : List Nat) : Sys σ := sched.foldl step s

def init {σ : Type} (x : σ) (progs : List (List (Seg σ))) : Sys σ :=
  { st := x, rest := progs, hold := none, done := [] }

/-- the SERIAL execution of completed segments, one whole segment after another -/
def serial {σ : Type} (done : List (Nat × Seg σ)) (x : σ) : σ :=
  done.foldl (fun x d => d.2.foldl app x) x

/-- what thread `t`'s program is, read back from a system state: the segments it completed, the
one it is in, the ones it has not started -/
def progOf {σ : Type} (s : Sys σ) (t : Nat) : List (Seg σ) :=
  ((s.done.filter (fun d => d.1 == t)).map (·.2)) ++
  (match s.hold with
   | some (h, ex, rem) => if h = t then [ex ++ rem] else []
   | none => []) ++
  (s.rest[t]?).getD []

def quiescent {σ : Type} (s : Sys σ) : Bool := s.hold.isNone && s.rest.all (·.isEmpty)

/-! the same threads WITHOUT the lock: any thread may execute its next instruction at any time -/

def flat {σ : Type} (p : List (Seg σ)) : Seg σ := p.flatten

def stepRaw {σ : Type} (s : σ × List (Seg σ)) (t : Nat) : σ × List (Seg σ) :=
  match s.2[t]? with
  | some (a :: as) => (a s.1, s.2.set t as)
  | _ => s

def runRaw {σ : Type} (x : σ) (progs : List (List (Seg σ))) (sched : List Nat) : σ :=
  (sched.foldl stepRaw (x, progs.map flat)).1

end Verif.Mutex
