/-
M2-FF — `AddBlocks` when the store's `Flush` fails.  The store is a dependency handed to the
manager (`chain.Store`, over a `chain.DB`); `reorgTo` calls `m.store.Flush()` after its last
apply and returns the error (`manager.go:505-507`).  The model's consensus parameter `U` cannot
express that, so the failure is an explicit variant of the operation: the FIRST `Flush` the call
reaches fails (with the batch left pending, as `MemDB` and a wrapper around it do), every later
one succeeds.

* forward `reorgTo` applied everything and then its `Flush` failed: the error branch of
  `AddBlocks` runs — `reorgTo(oldTip)`, whose own flush succeeds — and the call returns
  "reorg failed";
* forward `reorgTo` failed earlier (invalid block, missing block): its flush is never reached, so
  the first flush is the ROLLBACK's; the rollback has then done all its reverts and applies and
  returns the flush error: "failed to revert failed reorg", with the manager back on the old tip.

Blocks stored by the loop before the reorg stay stored either way.
-/
import Verif.Model.ChainF

namespace Verif.Chain

def maybeReorgFF (U : Nat → Blk) (m : Mgr) (cs : Nat) : Mgr × Option Err :=
  if heavier U cs m.tip then
    let oldTip := m.tip
    match reorgTo U m cs with
    | (m1, some .panic) => (m1, some .panic)
    | (m1, none) =>
      match reorgTo U m1 oldTip with
      | (m2, none) => (m2, some .reorgFailed)
      | (m2, some .panic) => (m2, some .panic)
      | (m2, some _) => (m2, some .rollbackFailed)
    | (m1, some _) =>
      match reorgTo U m1 oldTip with
      | (m2, some .panic) => (m2, some .panic)
      | (m2, _) => (m2, some .rollbackFailed)
  else (m, none)

def addBlocksFF (U : Nat → Blk) (m : Mgr) (batch : List Nat) : Mgr × Option Err :=
  match batch with
  | [] => (m, none)
  | _ =>
    match addBlocks.go U batch m m.tip with
    | (m1, some e, _) => (m1, some e)
    | (m1, none, cs) => maybeReorgFF U m1 cs

/-! the same with the bookkeeping of which stored states are complete (`Model/ChainF.lean`) -/

def maybeReorgFFF (U : Nat → Blk) (s : MgrF) (cs : Nat) : MgrF × Option Err :=
  if heavier U cs s.m.tip then
    let oldTip := s.m.tip
    match reorgToF U s cs with
    | (s1, some .panic) => (s1, some .panic)
    | (s1, none) =>
      match reorgToF U s1 oldTip with
      | (s2, none) => (s2, some .reorgFailed)
      | (s2, some .panic) => (s2, some .panic)
      | (s2, some _) => (s2, some .rollbackFailed)
    | (s1, some _) =>
      match reorgToF U s1 oldTip with
      | (s2, some .panic) => (s2, some .panic)
      | (s2, _) => (s2, some .rollbackFailed)
  else (s, none)

def addBlocksFFF (U : Nat → Blk) (s : MgrF) (batch : List Nat) : MgrF × Option Err :=
  match batch with
  | [] => (s, none)
  | _ =>
    match addLoopF U batch s s.m.tip with
    | (s1, some e, _) => (s1, some e)
    | (s1, none, cs) => maybeReorgFFF U s1 cs

end Verif.Chain
