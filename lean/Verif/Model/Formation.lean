/-
M9 — contract formation / renewal / refresh (`/repo/rhp/v4/rpc.go` `RPCFormContract`,
`RPCRenewContract`, `rpcRefreshContract`; `/repo/rhp/v4/server.go` `handleRPCFormContract`,
`handleRPCRenewContract`, `handleRPCRefreshContract`) as two step machines, renter and host,
run in the one global order the strictly alternating exchange allows.

A step is a fallible local call (into the wallet, the contractor, the chain manager / pool), a
check that may reject, a message sent or awaited, or bookkeeping (`broadcast = true`).  Exactly
one `Fault` is active in an attempt: any message may be lost (or the renter's context cancelled
while it is in flight), the dial may fail, any call of either side may fail, and a corrupted
message trips a given check of its receiver or makes a given call of the host fail.  When a step
of one side fails that side runs its exit path (the renter's explicit `ReleaseInputs` before each
`return`, the host's deferred release/unlock) and the stream closes; the other side goes on until
it next touches the stream.

State: each wallet's reservation (`rLocked`, `hLocked`), the host's `broadcast` flag, whether the
contract transaction is in the host's pool, whether the contractor recorded the contract, the
calls each side made (compared verbatim with the real code's call trace by `harness/c16`), and
how the contract the renter returns relates to the recorded one.

`Cfg` selects the pinned code (`325a596`) or the repaired code:
`releaseOnDial` — renew/refresh release the renter's inputs when `openStream` fails;
`keepHostInputs` — the host handlers no longer truncate the transaction to the renter's inputs
before `UpdateV2TransactionSet`, so the deferred release still covers the host's inputs when
that call fails; `bindFinal` — renew/refresh compare the transaction id of the host's final
transaction with the locally built one and return the locally built contract.
-/
namespace Verif.Formation

inductive Rpc where
  | form | renew | refresh
  deriving DecidableEq, Repr

inductive Side where
  | renter | host
  deriving DecidableEq, Repr

/-- the calls whose order is observable (wallet, contractor, chain manager / pool) -/
inductive Call where
  | fund | txset | sign | release
  | lock | unlock | element | updateInputs | updateElement | addParents | addPool | record | broadcast
  deriving DecidableEq, Repr

inductive Check where
  -- host
  | prices | request | funding | policies | renewalSig | contractSig
  -- renter
  | hostFunding | shape | txid | hostRenewalSig | hostSig
  deriving DecidableEq, Repr

inductive Act where
  | call (c : Call)
  | check (k : Check)
  | dial
  | send (i : Fin 4)
  | recv (i : Fin 4)
  | setBroadcast
  | succeed         -- the renter returns its result
  | finish          -- the host's handler returns nil (deferred calls run)
  deriving DecidableEq, Repr

/-- how the request's basis relates to the host's funding basis -/
inductive Basis where
  | same      -- equal: nothing to rebase
  | behind    -- different but on the host's chain: `UpdateV2TransactionSet` rebases the inputs
  | unknown   -- not on the host's chain (renter on a stale fork): the rebase fails
  deriving DecidableEq, Repr

/-- facts about the two nodes that decide which optional calls exist -/
structure Env where
  basis : Basis
  elemDiffers : Bool    -- the contract element's basis is not the funding basis (renewals)
  hasParents : Bool     -- the renter's inputs are unconfirmed and come with parents
  deriving DecidableEq, Repr

def Env.basisDiffers (e : Env) : Bool := e.basis != .same
def Env.basisUnknown (e : Env) : Bool := e.basis == .unknown

/-- the renter's fallible calls -/
inductive RCall where
  | fund | txset
  deriving DecidableEq, Repr

/-- the host's fallible calls (signing, releasing and unlocking return no error) -/
inductive HCall where
  | lock | element | fund | updateInputs | updateElement | addParents | txset | addPool | record | broadcast
  deriving DecidableEq, Repr

/-- the host calls that judge the renter's data (chain manager / pool) -/
inductive LateCall where
  | updateInputs | addParents | txset | addPool
  deriving DecidableEq, Repr

/-- the host's checks of a request / of the renter's signatures -/
inductive HCheck where
  | prices | request | funding | policies | renewalSig | contractSig
  deriving DecidableEq, Repr

/-- the renter's checks of the host's messages -/
inductive RCheck where
  | hostFunding | shape | txid | hostRenewalSig | hostSig
  deriving DecidableEq, Repr

inductive Fault where
  | none
  | dial
  | drop (i : Fin 4)                 -- message i is lost, the stream closes
  | cancel (i : Fin 4)               -- the renter's context is cancelled while message i is in flight
  | rcall (c : RCall) | hcall (c : HCall) -- that call of the renter / host returns an error
  | rcheck (k : RCheck) | hcheck (k : HCheck) -- a corrupted message trips that check
  | hfail (c : LateCall)             -- corrupted data makes that host call (necessary and) fail
  | finalContractAltered             -- final message: contract fields changed, signatures kept
  | finalContractUnsigned            -- final message: the renter's signature on the contract removed
  | finalSetAltered                  -- final message: the transaction around the contract changed
  | finalSetInvalid                  -- final message: an input signature or the basis changed
  deriving DecidableEq, Repr

structure Cfg where
  releaseOnDial : Bool
  keepHostInputs : Bool
  bindFinal : Bool
  deriving DecidableEq, Repr

def Cfg.pinned : Cfg := ⟨false, false, false⟩
def Cfg.fixed : Cfg := ⟨true, true, true⟩

/-- the environment as the host experiences it under a fault (a corrupted basis is an unknown
basis; garbage parents are parents) -/
def effEnv (env : Env) : Fault → Env
  | .hfail .updateInputs => { env with basis := .unknown }
  | .hfail .addParents => { env with hasParents := true }
  | _ => env

def RCall.toCall : RCall → Call
  | .fund => .fund | .txset => .txset
def HCall.toCall : HCall → Call
  | .lock => .lock | .element => .element | .fund => .fund | .updateInputs => .updateInputs
  | .updateElement => .updateElement | .addParents => .addParents | .txset => .txset
  | .addPool => .addPool | .record => .record | .broadcast => .broadcast
def LateCall.toCall : LateCall → Call
  | .updateInputs => .updateInputs | .addParents => .addParents | .txset => .txset | .addPool => .addPool
def HCheck.toCheck : HCheck → Check
  | .prices => .prices | .request => .request | .funding => .funding | .policies => .policies
  | .renewalSig => .renewalSig | .contractSig => .contractSig
def RCheck.toCheck : RCheck → Check
  | .hostFunding => .hostFunding | .shape => .shape | .txid => .txid
  | .hostRenewalSig => .hostRenewalSig | .hostSig => .hostSig

def opt (b : Bool) (a : Side × Act) : List (Side × Act) := if b then [a] else []

open Side Act Call Check in
/-- the steps of one exchange in the order they happen (source order on each side;
`rpc.go:1050-1181, 1184-1321, 311-459`, `server.go:727-867, 869-1053, 1055-1234`) -/
def script (cfg : Cfg) (rpc : Rpc) (env : Env) : List (Side × Act) :=
  let renewal := rpc != .form
  -- renter: fund, parents, dial, request
  [(renter, call fund), (renter, call txset), (renter, dial), (renter, send 0),
   (host, recv 0)]
  -- host: validation, (lock), funding
  ++ opt renewal (host, check prices)
  ++ opt renewal (host, call lock)
  ++ [(host, check request), (host, check funding)]
  ++ opt renewal (host, call element)
  ++ [(host, call fund)]
  -- form signs and answers before rebasing the renter's inputs; renewals rebase first
  ++ (if renewal then
        opt env.basisDiffers (host, call updateInputs) ++ opt env.elemDiffers (host, call updateElement)
          ++ [(host, call sign), (host, send 1)]
      else
        [(host, call sign), (host, send 1)] ++ opt env.basisDiffers (host, call updateInputs))
  -- renter: host funding, sign, signatures
  ++ [(renter, recv 1), (renter, check hostFunding), (renter, call sign), (renter, send 2),
      (host, recv 2), (host, check policies)]
  ++ opt renewal (host, check renewalSig)
  ++ [(host, check contractSig)]
  ++ opt env.hasParents (host, call addParents)
  -- host: pool, contractor, broadcast, final set
  ++ [(host, call txset), (host, call addPool), (host, call record), (host, call broadcast),
      (host, setBroadcast), (host, send 3), (host, finish),
      (renter, recv 3), (renter, check shape)]
  ++ opt (!renewal || cfg.bindFinal) (renter, check txid)
  ++ opt renewal (renter, check hostRenewalSig)
  ++ [(renter, check hostSig), (renter, succeed)]

structure St where
  rLocked : Bool := false
  hLocked : Bool := false
  hFunded : Bool := false          -- the host's deferred release is registered
  hContractLocked : Bool := false
  broadcast : Bool := false
  inPool : Bool := false
  recorded : Bool := false
  rAlive : Bool := true
  hAlive : Bool := true
  rOk : Bool := false
  hOk : Bool := false
  streamOpen : Bool := true
  delivered : List (Fin 4) := []
  hostInputsDetached : Bool := false   -- pinned: the transaction was cut down to the renter's inputs
  same : Bool := true              -- the renter's returned contract is the recorded one
  signed : Bool := true            -- … and carries both signatures
  rTrace : List Call := []
  hTrace : List Call := []
  deriving DecidableEq, Repr

/-- the renter's exit path: every `return` after `FundV2Transaction` calls `ReleaseInputs` first —
except, in the pinned code, the `openStream` error path of renew/refresh -/
def abortRenter (cfg : Cfg) (rpc : Rpc) (atDial : Bool) (s : St) : St :=
  let s := { s with rAlive := false, streamOpen := false }
  if s.rLocked && !(atDial && rpc != .form && !cfg.releaseOnDial) then
    { s with rLocked := false, rTrace := s.rTrace ++ [.release] }
  else s

/-- the host's deferred calls (LIFO: release unless `broadcast`, then unlock) -/
def hostDefers (s : St) : St :=
  let s :=
    if s.hFunded && !s.broadcast then
      { s with hTrace := s.hTrace ++ [.release]
               -- pinned: after a failed rebase the transaction only lists the renter's inputs
               hLocked := s.hLocked && s.hostInputsDetached }
    else s
  if s.hContractLocked then { s with hTrace := s.hTrace ++ [.unlock], hContractLocked := false } else s

def abortHost (s : St) : St := hostDefers { s with hAlive := false, streamOpen := false }

def callFails (env : Env) (f : Fault) (side : Side) (c : Call) : Bool :=
  match side, f with
  | .renter, .rcall c' => c'.toCall == c
  | .renter, _ => false
  | .host, .hcall c' => c'.toCall == c || (c == .updateInputs && env.basisUnknown)
  | .host, .hfail c' => c'.toCall == c || (c == .updateInputs && env.basisUnknown)
  | .host, _ => c == .updateInputs && env.basisUnknown

def checkTrips (f : Fault) (side : Side) (k : Check) : Bool :=
  match side, f with
  | .host, .hcheck k' => k'.toCheck == k
  | .host, _ => false
  | .renter, .rcheck k' => k'.toCheck == k
  | .renter, .finalContractAltered => k == .txid
  | .renter, .finalSetAltered => k == .txid
  | .renter, _ => false

def lost (f : Fault) (i : Fin 4) : Bool := f == .drop i || f == .cancel i

def step (cfg : Cfg) (rpc : Rpc) (env : Env) (f : Fault) (s : St) : Side × Act → St
  | (.renter, a) =>
    if !s.rAlive then s else
    match a with
    | .call c =>
      let s := { s with rTrace := s.rTrace ++ [c] }
      if callFails env f .renter c then abortRenter cfg rpc false s
      else if c == .fund then { s with rLocked := true } else s
    | .check k => if checkTrips f .renter k then abortRenter cfg rpc false s else s
    | .dial => if f == .dial then abortRenter cfg rpc true s else s
    | .send i =>
      if !s.streamOpen then abortRenter cfg rpc false s
      else if lost f i then { s with streamOpen := false }
      else { s with delivered := i :: s.delivered }
    | .recv i => if s.delivered.contains i then s else abortRenter cfg rpc false s
    | .succeed =>
      let altered := rpc != .form && !cfg.bindFinal &&
        (f == .finalContractAltered || f == .finalContractUnsigned)
      { s with rOk := true, rAlive := false, same := !altered, signed := !altered }
    | _ => s
  | (.host, a) =>
    if !s.hAlive then s else
    match a with
    | .call c =>
      let s := { s with hTrace := s.hTrace ++ [c] }
      if callFails env f .host c then
        abortHost (if c == .updateInputs && !cfg.keepHostInputs then { s with hostInputsDetached := true } else s)
      else match c with
        | .fund => { s with hLocked := true, hFunded := true }
        | .lock => { s with hContractLocked := true }
        | .addPool => { s with inPool := true }
        | .record => { s with recorded := true }
        | _ => s
    | .check k => if checkTrips f .host k then abortHost s else s
    | .send i =>
      if !s.streamOpen then abortHost s
      else if lost f i then { s with streamOpen := false }
      else { s with delivered := i :: s.delivered }
    | .recv i => if s.delivered.contains i then s else abortHost s
    | .setBroadcast => { s with broadcast := true }
    | .finish => hostDefers { s with hAlive := false, hOk := true }
    | _ => s

/-- one attempt -/
def run (cfg : Cfg) (rpc : Rpc) (env : Env) (f : Fault) : St :=
  let env := effEnv env f
  (script cfg rpc env).foldl (step cfg rpc env f) {}

/-- outputs held back after the attempt, as a wallet user sees them: the renter's pool has not
seen the contract transaction; the host's has, if it was admitted -/
def St.rHeld (s : St) : Bool := s.rLocked
def St.hHeld (s : St) : Bool := s.hLocked && !s.inPool

/-! ## many attempts on the same two wallets -/

structure Attempt where
  rpc : Rpc
  env : Env
  fault : Fault
  deriving DecidableEq, Repr

/-- reservations leaked so far: (renter, host).  An attempt leaks on the renter's side if it
failed and still holds outputs back, on the host's side if no contract was recorded and outputs
are still held back. -/
def leaks (cfg : Cfg) : List Attempt → Nat × Nat
  | [] => (0, 0)
  | a :: as =>
    let s := run cfg a.rpc a.env a.fault
    let l := leaks cfg as
    (l.1 + (if !s.rOk && s.rHeld then 1 else 0), l.2 + (if !s.recorded && s.hHeld then 1 else 0))

end Verif.Formation
