/-
C03 — the store as a durable image plus pending writes.

`chain.DB` buffers writes (the MemDB overlay, the open bbolt transaction, `db.go:79-149`,
`/repo/db.go:26-80`) until `Flush`.  `DBStore` issues a `Flush` in exactly three places: at the
end of `ApplyBlock` and of `RevertBlock` when `shouldFlush()` (size/time, `db.go:906-938`) and
at the end of `reorgTo` (`manager.go:500-502`).  The model runs the M3 node
(`Verif/Model/Elements.lean`) behind that split at the granularity of the individual write
groups of one block, so that "the process stops at any moment" is a cut of the micro-op stream
anywhere, including between `applyState` and `applyElements`.

Core-only.
-/
import Verif.Model.Elements

namespace Verif.Commit
open Verif.Elements

/-- `working` is what the running process reads (committed data overlaid with the pending
writes); `durable` is what a process that reopens the database finds -/
structure Sys where
  working : Node
  durable : Node

def Sys.init (n : Node) : Sys := ⟨n, n⟩

/-! ### macro level: what the driver runs -/

inductive Op where
  /-- `applyTip(b)`; `flush` = `shouldFlush()` held at the end of `ApplyBlock` -/
  | apply (b : Nat) (flush : Bool)
  /-- `revertTip()`; `flush` = `shouldFlush()` held at the end of `RevertBlock` -/
  | revert (flush : Bool)
  /-- `m.store.Flush()` at the end of `reorgTo` -/
  | flush
  /-- the process stops; the database is reopened (`NewDBStore` reads `Height` and `MainChain`
  from the committed image only, `db.go:1020-1023`) -/
  | crash
  deriving DecidableEq, Repr

def Sys.step (s : Sys) : Op → Option Sys
  | .apply b f => (s.working.applyTip b).map fun w => ⟨w, if f then w else s.durable⟩
  | .revert f => s.working.revertTip.map fun w => ⟨w, if f then w else s.durable⟩
  | .flush => some ⟨s.working, s.working⟩
  | .crash => some ⟨s.durable, s.durable⟩

/-! ### micro level: the write groups of one block, in the order the code issues them -/

inductive Micro where
  /-- `AddState(cs)`, `AddBlock(b, bs)` in `applyTip` (`manager.go:418-432`): the block is stored
  with the supplement it is applied with -/
  | addBlock (b : Nat)
  /-- `applyState` (`db.go:653-656`): best index and height key -/
  | applyState (b : Nat)
  /-- `applyElements` under the require-height guard (`db.go:917-919`) -/
  | applyElems (b : Nat)
  /-- `revertElements` under its guard (`db.go:929-931`) -/
  | revertElems
  /-- `revertState` (`db.go:658-661`) -/
  | revertState
  /-- `db.db.Flush()` -/
  | flush
  deriving DecidableEq, Repr

/-- the diff list block `b` is (or was first) applied with -/
def diffsFor (n : Node) (b : Nat) : List Diff :=
  match n.supp b with
  | some ds => ds
  | none => blockDiffs n.req n.store (n.U b)

def microNode (n : Node) : Micro → Node
  | .addBlock b => { n with supp := set n.supp b (some (diffsFor n b)) }
  | .applyState b => { n with store := Elements.applyState n.store b (n.U b).height, tip := b }
  | .applyElems b =>
    let ds := diffsFor n b
    let h := (n.U b).height
    if h ≤ n.req then
      { n with store := applyDiffs n.store ds, panicked := n.panicked || applyDiffsPanics n.store ds }
    else n
  | .revertElems =>
    let ds := (diffsFor n n.tip).reverse
    if n.store.height - 1 ≤ n.req then
      { n with store := revertDiffs n.store ds, panicked := n.panicked || revertDiffsPanics n.store ds }
    else n
  | .revertState => { n with store := Elements.revertState n.store (n.store.height - 1), tip := (n.U n.tip).parent }
  | .flush => n

def Sys.micro (s : Sys) (m : Micro) : Sys :=
  match m with
  | .flush => ⟨s.working, s.working⟩
  | m => ⟨microNode s.working m, s.durable⟩

def Sys.exec (s : Sys) (ms : List Micro) : Sys := ms.foldl Sys.micro s

/-- block-level operations of a history (no crash: a crash is a cut of the micro stream) -/
inductive BOp where
  | apply (b : Nat) (flush : Bool)
  | revert (flush : Bool)
  | flush
  deriving DecidableEq, Repr

/-- the micro-op stream the code issues for one block-level operation: the flush, if any, comes
last -/
def compile1 : BOp → List Micro
  | .apply b f => [.addBlock b, .applyState b, .applyElems b] ++ (if f then [.flush] else [])
  | .revert f => [.revertElems, .revertState] ++ (if f then [.flush] else [])
  | .flush => [.flush]

def compile (ops : List BOp) : List Micro := ops.flatMap compile1

/-- the node after one whole block-level operation -/
def blockStep (n : Node) : BOp → Node
  | .apply b _ => microNode (microNode (microNode n (.addBlock b)) (.applyState b)) (.applyElems b)
  | .revert _ => microNode (microNode n .revertElems) .revertState
  | .flush => n

def blockRun (n : Node) (ops : List BOp) : Node := ops.foldl blockStep n

/-- the images at the block boundaries of a history -/
def boundaries : Node → List BOp → List Node
  | n, [] => [n]
  | n, op :: ops => n :: boundaries (blockStep n op) ops

def BOp.toOp : BOp → Option Elements.Op
  | .apply b _ => some (.apply b)
  | .revert _ => some .revert
  | .flush => none

end Verif.Commit
