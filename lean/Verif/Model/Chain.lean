/-
M2 — the chain manager of `chain/manager.go` at the level of block ids.

Consensus is a parameter: a block enters the model with the attributes the harness
computed for it with `go.sia.tech/core/consensus` on an independent linear replay of
the block's own ancestry (`Blk`).  The model is the manager/store logic around it:
which records exist, what `AddBlocks` / `AddValidatedV2Blocks` / `reorgTo` /
`PruneBlocks` / `UpdatesSince` do with them.

Core-only.  Every definition cites the Go lines it mirrors (`/repo/chain/manager.go`,
`/repo/chain/db.go`).
-/
namespace Verif.Chain

/-- what the harness knows about a block (independent of any manager) -/
structure Blk where
  parent : Nat
  height : Nat
  /-- `TotalWork` of the state after this block (via `ApplyHeader` on the parent's state) -/
  work : Nat
  /-- `Difficulty` of that state -/
  diff : Nat
  /-- `consensus.ValidateOrphan(parentState, b) == nil` -/
  hdrOk : Bool
  /-- `consensus.ValidateBlock(parentState, b, supplement) == nil` on the block's own ancestry -/
  bodyOk : Bool
  /-- timestamp beyond `MaxFutureTimestamp(now)` -/
  future : Bool
  /-- `b.V2 != nil` -/
  v2 : Bool
  deriving Repr, DecidableEq, Inhabited

/-- one entry of the `Blocks` bucket: the header is always there, body and supplement may
be missing (`db.go:478-493`, `supplementedBlock`) -/
structure Rec where
  body : Bool
  supp : Bool
  deriving Repr, DecidableEq

structure Mgr where
  /-- `Blocks` bucket -/
  recs : Nat → Option Rec
  /-- `States` bucket -/
  states : Nat → Bool
  /-- best chain, tip first; `MainChain` bucket + `tipState` -/
  best : List Nat
  /-- number of reorg notifications delivered so far -/
  notified : Nat

def upd {α} (f : Nat → α) (i : Nat) (x : α) : Nat → α := fun j => if j = i then x else f j

@[simp] theorem upd_same {α} (f : Nat → α) (i : Nat) (x : α) : upd f i x i = x := by simp [upd]
@[simp] theorem upd_other {α} (f : Nat → α) (i j : Nat) (x : α) (h : j ≠ i) : upd f i x j = f j := by
  simp [upd, h]

/-- the store right after `NewDBStore` (`db.go:1000-1030`): genesis (id 0) stored with body,
supplement and state, and applied -/
def Mgr.init : Mgr :=
  { recs := fun i => if i = 0 then some ⟨true, true⟩ else none
    states := fun i => i = 0
    best := [0]
    notified := 0 }

def Mgr.tip (m : Mgr) : Nat := m.best.headD 0

/-- `Store.Block(id)`: ok iff the record exists and has a body; returns whether a
supplement is stored (`db.go:937-943`) -/
def Mgr.block (m : Mgr) (i : Nat) : Option Bool :=
  match m.recs i with
  | some r => if r.body then some r.supp else none
  | none => none

/-- `Store.Header(id)` (`db.go:958-960`) -/
def Mgr.header (m : Mgr) (i : Nat) : Bool := (m.recs i).isSome

/-- `SufficientlyHeavierThan` (core `state.go:217-237`) -/
def heavier (U : Nat → Blk) (cs tip : Nat) : Bool :=
  (U cs).work > (U tip).work + (U tip).diff / 5

inductive Err where
  | missingParent   -- "missing parent state for block"
  | future          -- ErrFutureBlock
  | invalidHeader   -- "block … is invalid" from ValidateOrphan
  | reorgFailed     -- "reorg failed: …" (rolled back)
  | rollbackFailed  -- "failed to revert failed reorg"
  | panic           -- a Go panic (nil supplement dereference, non-attaching block)
  | lenMismatch     -- AddValidatedV2Blocks: len(states) != len(blocks)
  | notV2           -- "only v2 blocks can be pre-validated"
  deriving Repr, DecidableEq

/-- errors inside `reorgTo` -/
inductive RErr where
  | missingBlock    -- ErrMissingBlock (header, body or parent state not stored)
  | invalidBlock    -- ValidateBlock failed
  | tooLong
  | panic
  deriving Repr, DecidableEq

/-! ### `reorgPath` (`manager.go:436-483`) -/

/-- `rewind`: replace an index by its parent; fails when the header is not stored.  The
length check is made *before* the lookup, as in the code. -/
def tooLong (revLen appLen : Nat) : Option Nat → Bool
  | none => false                       -- `math.MaxInt`: a slice is never longer
  | some maxLen => revLen + appLen > maxLen

def rewind (U : Nat → Blk) (m : Mgr) (revLen appLen : Nat) (maxLen : Option Nat) (i : Nat) : Except RErr Nat :=
  if tooLong revLen appLen maxLen then .error .tooLong
  else if m.header i then .ok (U i).parent
  else .error .missingBlock

/-- phase 1/2: rewind `a` while it is higher than `h`, collecting the visited ids (in visiting
order).  `other` is the length of the other list (for the `maxLen` test). -/
def rewindAbove (U : Nat → Blk) (m : Mgr) (maxLen : Option Nat) (h : Nat) (other : Nat) :
    Nat → Nat → List Nat → Except RErr (Nat × List Nat)
  | 0, a, acc => if (U a).height > h then .error .panic else .ok (a, acc)
  | fuel + 1, a, acc =>
    if (U a).height > h then
      match rewind U m (acc.length + 1) other maxLen a with
      | .error e => .error e
      | .ok a' => rewindAbove U m maxLen h other fuel a' (acc ++ [a])
    else .ok (a, acc)

/-- phase 3: rewind both until they meet -/
def rewindBoth (U : Nat → Blk) (m : Mgr) (maxLen : Option Nat) :
    Nat → Nat → Nat → List Nat → List Nat → Except RErr (List Nat × List Nat)
  | 0, a, b, rev, app => if a = b then .ok (rev, app) else .error .panic
  | fuel + 1, a, b, rev, app =>
    if a = b then .ok (rev, app)
    else
      let rev' := rev ++ [a]
      let app' := app ++ [b]
      match rewind U m rev'.length app'.length maxLen a with
      | .error e => .error e
      | .ok a' =>
        match rewind U m rev'.length app'.length maxLen b with
        | .error e => .error e
        | .ok b' => rewindBoth U m maxLen fuel a' b' rev' app'

/-- `reorgPath(a, b, maxLen)` for initialised indices: `(revert, apply)`; `apply` is returned
in application order (the code reverses it at the end) -/
def reorgPath (U : Nat → Blk) (m : Mgr) (a b : Nat) (maxLen : Option Nat) : Except RErr (List Nat × List Nat) :=
  let fuel := (U a).height + (U b).height + 2
  match rewindAbove U m maxLen (U b).height 0 fuel a [] with
  | .error e => .error e
  | .ok (a1, rev) =>
    match rewindAbove U m maxLen (U a1).height rev.length fuel b [] with
    | .error e => .error e
    | .ok (b1, app) =>
      match rewindBoth U m maxLen fuel a1 b1 rev app with
      | .error e => .error e
      | .ok (rev', app') => .ok (rev', app'.reverse)

/-! ### `revertTip`, `applyTip`, `reorgTo` (`manager.go:381-434, 485-523`) -/

/-- `revertTip`: needs the tip's body and its parent's state (`blockAndParent`); dereferences
the supplement pointer (`*bs`), which panics when the supplement is nil. -/
def revertTip (U : Nat → Blk) (m : Mgr) : Except RErr Mgr :=
  match m.best with
  | [] => .error .panic
  | t :: rest =>
    match m.block t with
    | none => .error .missingBlock
    | some supp =>
      if !m.states (U t).parent then .error .missingBlock
      else if !supp then .error .panic
      else .ok { m with best := rest }

/-- `applyTip(index)`: validates iff no supplement is stored -/
def applyTip (U : Nat → Blk) (m : Mgr) (i : Nat) : Except RErr Mgr :=
  match m.block i with
  | none => .error .missingBlock
  | some supp =>
    if (U i).parent ≠ m.tip then .error .panic
    else if !supp then
      if !(U i).bodyOk then .error .invalidBlock
      else .ok { m with states := upd m.states i true, recs := upd m.recs i (some ⟨true, true⟩), best := i :: m.best }
    else .ok { m with best := i :: m.best }

def revertN (U : Nat → Blk) : Nat → Mgr → Mgr × Option RErr
  | 0, m => (m, none)
  | n + 1, m =>
    match revertTip U m with
    | .error e => (m, some e)
    | .ok m' => revertN U n m'

def applyAll (U : Nat → Blk) : List Nat → Mgr → Mgr × Option RErr
  | [], m => (m, none)
  | i :: is, m =>
    match applyTip U m i with
    | .error e => (m, some e)
    | .ok m' => applyAll U is m'

/-- `reorgTo(index)`: on error the manager is left where the failing step found it -/
def reorgTo (U : Nat → Blk) (m : Mgr) (target : Nat) : Mgr × Option RErr :=
  match reorgPath U m m.tip target none with
  | .error e => (m, some e)
  | .ok (rev, app) =>
    match revertN U rev.length m with
    | (m1, some e) => (m1, some e)
    | (m1, none) => applyAll U app m1

/-- the tail shared by `AddBlocks` and `AddValidatedV2Blocks` (`manager.go:283-307, 337-358`) -/
def maybeReorg (U : Nat → Blk) (m : Mgr) (cs : Nat) : Mgr × Option Err :=
  if heavier U cs m.tip then
    let oldTip := m.tip
    match reorgTo U m cs with
    | (m1, none) => ({ m1 with notified := m1.notified + 1 }, none)
    | (m1, some .panic) => (m1, some .panic)
    | (m1, some _) =>
      match reorgTo U m1 oldTip with
      | (m2, none) => (m2, some .reorgFailed)
      | (m2, some .panic) => (m2, some .panic)
      | (m2, some _) => (m2, some .rollbackFailed)
  else (m, none)

/-- `Manager.AddBlocks` (`manager.go:245-308`).  The loop stores header-valid blocks as it
goes (`cs` is the id whose state the loop variable holds); blocks stored before an error stay
stored.  "Already have this block" is `bs != nil`, i.e. body *and* supplement present; a
pruned block (header without body) is skipped as well. -/
def addBlocks (U : Nat → Blk) (m : Mgr) (batch : List Nat) : Mgr × Option Err :=
  match batch with
  | [] => (m, none)
  | _ =>
    -- the loop mutates the store as it goes; on error the earlier blocks stay
    let rec go : List Nat → Mgr → Nat → Mgr × Option Err × Nat
      | [], m, cs => (m, none, cs)
      | b :: bs, m, cs =>
        if m.block b = some true then go bs m b
        else if m.header b ∧ (m.block b).isNone then go bs m b   -- pruned: never re-added
        else if (U b).parent ≠ cs ∧ !m.states (U b).parent then (m, some .missingParent, cs)
        else if (U b).future then (m, some .future, cs)
        else if !(U b).hdrOk then (m, some .invalidHeader, cs)
        else go bs { m with states := upd m.states b true, recs := upd m.recs b (some ⟨true, false⟩) } b
    match go batch m m.tip with
    | (m1, some e, _) => (m1, some e)
    | (m1, none, cs) => maybeReorg U m1 cs

/-- `Manager.AddValidatedV2Blocks` (`manager.go:313-359`): blocks are stored with an (empty,
non-nil) supplement and the supplied state, without validation -/
def addValidatedV2 (U : Nat → Blk) (m : Mgr) (batch : List Nat) (nStates : Nat) : Mgr × Option Err :=
  match batch with
  | [] => (m, none)
  | b0 :: _ =>
    if nStates ≠ batch.length then (m, some .lenMismatch)
    else if !m.states (U b0).parent then (m, some .missingParent)
    else
      let rec go : List Nat → Mgr → Mgr × Option Err
        | [], m => (m, none)
        | b :: bs, m =>
          if !(U b).v2 then (m, some .notV2)
          else go bs { m with states := upd m.states b true, recs := upd m.recs b (some ⟨true, true⟩) }
      match go batch m with
      | (m1, some e) => (m1, some e)
      | (m1, none) => maybeReorg U m1 (batch.getLastD b0)

/-! ### pruning and the query surface -/

/-- `BestIndex(height)`: the id at that height of the best chain -/
def Mgr.bestAt (m : Mgr) (h : Nat) : Option Nat :=
  if h < m.best.length then m.best[m.best.length - 1 - h]? else none

def Mgr.tipHeight (m : Mgr) : Nat := m.best.length - 1

/-- `PruneBlocks(height)` (`manager.go:541-553`): walks down from `min(height, tip+1) - 1` and stops at the
first height that has no best index or whose block has no body -/
def prune (m : Mgr) (height : Nat) : Mgr :=
  let rec go : Nat → Mgr → Mgr
    | 0, m => m
    | h + 1, m =>
      match m.bestAt h with
      | none => m
      | some i =>
        match m.block i with
        | none => m
        | some _ => go h { m with recs := upd m.recs i (some ⟨false, false⟩) }   -- `putBlock(bh, nil, nil)`
  go (min height (m.tipHeight + 1)) m

/-- `MinReorgIndex` (`manager.go:141-155`) -/
def minReorgIndex (m : Mgr) : Nat :=
  let rec go : Nat → Nat → Nat
    | 0, i => i
    | h + 1, i =>
      match m.bestAt h with
      | none => i
      | some p => if (m.block p).isSome then go h p else i
  go m.tipHeight m.tip

/-- the heights `History` samples (`manager.go:160-184`) -/
def histHeight (tipHeight : Nat) (i : Nat) : Nat :=
  let offset := if i ≥ 10 then 7 + 2 ^ (i - 8) else i
  let offset := if offset > tipHeight then tipHeight else offset
  tipHeight - offset

def history (m : Mgr) : List Nat :=
  (List.range 32).filterMap fun i => m.bestAt (histHeight m.tipHeight i)

/-! ### `UpdatesSince` (`manager.go:553-600`) -/

inductive Upd where
  | revert (block : Nat)     -- RevertUpdate for `block`; the subscriber is then at its parent
  | apply (block : Nat)
  deriving Repr, DecidableEq

/-- `none` as a start index is `types.ChainIndex{}` ("from nothing") -/
def onBestChain (U : Nat → Blk) (m : Mgr) (i : Option Nat) : Bool :=
  match i with
  | none => true
  | some i => m.bestAt (U i).height = some i

/-- one iteration of the loop body: the next update and the index the subscriber is at after it.
Reverting needs the block's body, supplement and parent state (`blockAndParent`, `bs == nil` is
"missing supplement"); so does applying.  The state "before genesis" (`n.GenesisState()`, stored
under the zero id by `NewDBStore`, `db.go:1016`) always exists, hence no parent check for id 0. -/
def nextUpd (U : Nat → Blk) (m : Mgr) (idx : Option Nat) : Except RErr (Upd × Nat) :=
  if !onBestChain U m idx then
    match idx with
    | none => .error .panic          -- unreachable: `onBestChain none = true`
    | some i =>
      match m.block i with
      | none => .error .missingBlock
      | some supp =>
        if i ≠ 0 ∧ !m.states (U i).parent then .error .missingBlock
        else if !supp then .error .missingBlock
        else .ok (.revert i, (U i).parent)
  else
    let next? := match idx with
      | none => m.bestAt 0
      | some i => m.bestAt ((U i).height + 1)
    match next? with
    | none => .error .missingBlock
    | some n =>
      match m.block n with
      | none => .error .missingBlock
      | some supp =>
        if n ≠ 0 ∧ !m.states (U n).parent then .error .missingBlock
        else if !supp then .error .missingBlock
        else .ok (.apply n, n)

def updatesSince (U : Nat → Blk) (m : Mgr) : Nat → Option Nat → Nat → List Upd → Except RErr (List Upd)
  | 0, _, _, acc => .ok acc
  | fuel + 1, idx, max, acc =>
    if idx = some m.tip ∨ acc.length ≥ max then .ok acc
    else
      match nextUpd U m idx with
      | .error e => .error e
      | .ok (u, i') => updatesSince U m fuel (some i') max (acc ++ [u])

end Verif.Chain
