/-
`DBStore.AncestorTimestamp` (`chain/db.go:859-886`): which block's timestamp the pre-Oak
difficulty retarget reads.  The store walks parent links from the block for
`min(AncestorDepth, height)` steps and, as soon as the walk stands on the best chain, jumps
through the best-chain height index instead.  The model returns the id of the block whose record
is read at the end (`getAncestorInfo(ancestorID)` after the loop).
-/
import Verif.Model.Chain

namespace Verif.Chain

/-- the loop: `fuel` iterations remain, `i` have been made, the walk stands on `a` -/
def ancLoop (U : Nat → Blk) (m : Mgr) (depth height : Nat) : Nat → Nat → Nat → Nat
  | 0, _, a => a
  | fuel + 1, i, a =>
    if m.bestAt (height - i) = some a then
      -- "if we're on the best path, we can jump to the n'th block directly"
      ((if height < depth then m.bestAt 0 else m.bestAt (height - depth)).getD 0)
    else ancLoop U m depth height fuel (i + 1) (U a).parent

/-- `AncestorTimestamp(id)` reads the record of this block (`depth` = `AncestorDepth()` = 1000) -/
def ancestorOf (U : Nat → Blk) (m : Mgr) (depth id : Nat) : Nat :=
  ancLoop U m depth (U id).height (min depth (U id).height) 0 id

end Verif.Chain
