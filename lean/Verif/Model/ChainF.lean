/-
M2-F — the chain-manager model of `Model/Chain.lean` extended with WHAT the `States` bucket holds
for a block: a header-level state (`ApplyHeader`, written by `AddBlocks` when it first stores a
block, `manager.go:279-281`) or the complete post-block state (`ApplyBlock`, written by `applyTip`
when it validates a block without supplement, `manager.go:421-423`, and by `AddValidatedV2Blocks`,
`manager.go:336-338`).  `applyTip` does NOT write the state of a block that already has a
supplement (`manager.go:425-432`): it relies on "supplement stored ⇒ complete state stored".

Every operation is the plain model's operation plus the bookkeeping of `full`; `Lemmas/ChainF.lean`
proves the erasure (`(opF s).m = op s.m`), so every theorem about the plain model transfers.
-/
import Verif.Model.Chain

namespace Verif.Chain

structure MgrF where
  m : Mgr
  /-- the state stored under the block's id is the complete post-block state -/
  full : Nat → Bool

def MgrF.init : MgrF := ⟨Mgr.init, fun i => i = 0⟩

/-- `applyTip`: `AddState(cs)` with the complete state exactly in the `bs == nil` branch -/
def applyTipF (U : Nat → Blk) (s : MgrF) (i : Nat) : Except RErr MgrF :=
  match applyTip U s.m i with
  | .error e => .error e
  | .ok m' => .ok ⟨m', if s.m.block i = some false then upd s.full i true else s.full⟩

def applyAllF (U : Nat → Blk) : List Nat → MgrF → MgrF × Option RErr
  | [], s => (s, none)
  | i :: is, s =>
    match applyTipF U s i with
    | .error e => (s, some e)
    | .ok s' => applyAllF U is s'

/-- `reorgTo`: reverting writes no state (`revertTip`, `manager.go:391-402`) -/
def reorgToF (U : Nat → Blk) (s : MgrF) (target : Nat) : MgrF × Option RErr :=
  match reorgPath U s.m s.m.tip target none with
  | .error e => (s, some e)
  | .ok (rev, app) =>
    match revertN U rev.length s.m with
    | (m1, some e) => (⟨m1, s.full⟩, some e)
    | (m1, none) => applyAllF U app ⟨m1, s.full⟩

def maybeReorgF (U : Nat → Blk) (s : MgrF) (cs : Nat) : MgrF × Option Err :=
  if heavier U cs s.m.tip then
    let oldTip := s.m.tip
    match reorgToF U s cs with
    | (s1, none) => (⟨{ s1.m with notified := s1.m.notified + 1 }, s1.full⟩, none)
    | (s1, some .panic) => (s1, some .panic)
    | (s1, some _) =>
      match reorgToF U s1 oldTip with
      | (s2, none) => (s2, some .reorgFailed)
      | (s2, some .panic) => (s2, some .panic)
      | (s2, some _) => (s2, some .rollbackFailed)
  else (s, none)

/-- the loop of `AddBlocks`: a block stored here gets a header-level state -/
def addLoopF (U : Nat → Blk) : List Nat → MgrF → Nat → MgrF × Option Err × Nat
  | [], s, cs => (s, none, cs)
  | b :: bs, s, cs =>
    if s.m.block b = some true then addLoopF U bs s b
    else if s.m.header b ∧ (s.m.block b).isNone then addLoopF U bs s b
    else if (U b).parent ≠ cs ∧ !s.m.states (U b).parent then (s, some .missingParent, cs)
    else if (U b).future then (s, some .future, cs)
    else if !(U b).hdrOk then (s, some .invalidHeader, cs)
    else addLoopF U bs
      ⟨{ s.m with states := upd s.m.states b true, recs := upd s.m.recs b (some ⟨true, false⟩) }, upd s.full b false⟩ b

def addBlocksF (U : Nat → Blk) (s : MgrF) (batch : List Nat) : MgrF × Option Err :=
  match batch with
  | [] => (s, none)
  | _ =>
    match addLoopF U batch s s.m.tip with
    | (s1, some e, _) => (s1, some e)
    | (s1, none, cs) => maybeReorgF U s1 cs

/-- the loop of `AddValidatedV2Blocks`: the supplied (complete) state is stored unconditionally -/
def addV2LoopF (U : Nat → Blk) : List Nat → MgrF → MgrF × Option Err
  | [], s => (s, none)
  | b :: bs, s =>
    if !(U b).v2 then (s, some .notV2)
    else addV2LoopF U bs
      ⟨{ s.m with states := upd s.m.states b true, recs := upd s.m.recs b (some ⟨true, true⟩) }, upd s.full b true⟩

def addValidatedV2F (U : Nat → Blk) (s : MgrF) (batch : List Nat) (nStates : Nat) : MgrF × Option Err :=
  match batch with
  | [] => (s, none)
  | b0 :: _ =>
    if nStates ≠ batch.length then (s, some .lenMismatch)
    else if !s.m.states (U b0).parent then (s, some .missingParent)
    else
      match addV2LoopF U batch s with
      | (s1, some e) => (s1, some e)
      | (s1, none) => maybeReorgF U s1 (batch.getLastD b0)

/-- `PruneBlocks` never touches the `States` bucket -/
def pruneF (s : MgrF) (height : Nat) : MgrF := ⟨prune s.m height, s.full⟩

/-- the operations of a history -/
inductive OpF where
  | add (batch : List Nat)
  | addV2 (batch : List Nat) (nStates : Nat)
  | prune (height : Nat)

def stepF (U : Nat → Blk) (s : MgrF) : OpF → MgrF
  | .add b => (addBlocksF U s b).1
  | .addV2 b n => (addValidatedV2F U s b n).1
  | .prune h => pruneF s h

def runF (U : Nat → Blk) (s : MgrF) (ops : List OpF) : MgrF := ops.foldl (stepF U) s

end Verif.Chain
