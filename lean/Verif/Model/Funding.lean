/-
M6 `Funding` — input selection and reservation of `wallet.SingleAddressWallet`
(`/repo/wallet/wallet.go`), transcribed function by function.  Core-only.

What is modelled as it is coded: `Balance` (:165-231), `SpendableOutputs` (:252-279),
`selectUTXOs` (:281-404, incl. the defrag logic), `cleanLockedUTXOs` / `lockUTXOs` / `isLocked`
(:406-429, :822-824), `FundTransaction` / `FundV2Transaction` (:435-468, :497-531),
`selectRedistributeUTXOs` / `Redistribute` (:662-798), `ReleaseInputs` (:803-818), `SplitUTXO`
(:859-998), the re-loading of broadcast sets in `NewSingleAddressWallet` (:1107-1121).

Parameters (not modelled, supplied by the harness or quantified over in the theorems):
* sorting: Go's `sort.Slice` is *some* permutation of its input that is sorted by value,
  descending.  The model takes a `Sorter` (a function with a proof that it permutes); the theorems
  hold for every `Sorter`, the driver uses a stable insertion sort (`stdSorter`).
* the store (`UnspentSiacoinElements`) is the list `utxos` in the store's order; the pool is the
  two lists `PoolTransactions()`, `V2PoolTransactions()` in the manager's order; what the pool
  accepts (`accepts`) is the id-level shadow of consensus validity: every input is an unspent,
  spendable confirmed output or an unspent output created by an earlier pooled transaction *of the
  same version* (`checkTxnSet` validates a v1 set / a v2 set against the tip only).
* time is the explicit `now`; `types.Currency` is `Nat` (overflow is not modelled).
* the store's tip height (`height`) may lag behind the manager's (`cmHeight`); a block that
  confirms pooled transactions (`mine`) is processed by the wallet at once.
-/
namespace Verif.Funding

/-- a confirmed unspent output of the wallet as the store returns it -/
structure Utxo where
  id : Nat
  value : Nat
  maturity : Nat
deriving DecidableEq, Repr, Inhabited

/-- `wallet.config` (config.go:10-16) plus the consensus constants the functions read -/
structure Cfg where
  defragThreshold : Nat
  maxInputsForDefrag : Nat
  maxDefragUTXOs : Nat
  reservation : Nat
  /-- `State.V2TransactionWeight` of a transaction with `k` wallet outputs is `wBase + wPer*k` -/
  wBase : Nat
  wPer : Nat
  /-- `Network.MaturityDelay` -/
  delay : Nat
deriving Repr, Inhabited

/-- an input of a pooled transaction: the parent id and whether its unlock hash / address is the wallet's -/
structure PIn where
  id : Nat
  own : Bool
deriving DecidableEq, Repr

/-- an output of a pooled transaction -/
structure POut where
  id : Nat
  value : Nat
  own : Bool
deriving DecidableEq, Repr

structure PTxn where
  v2 : Bool
  ins : List PIn
  outs : List POut
deriving DecidableEq, Repr

/-- a transaction handed back to a caller by Fund*/Redistribute/SplitUTXO -/
structure FTxn where
  h : Nat
  v2 : Bool
  ins : List Utxo
  /-- outputs in transaction order: value, pays the wallet -/
  pays : List (Nat × Bool)
  fee : Nat
  /-- when its reservation ends (ghost: the code keeps only `locked`) -/
  expiry : Nat
  /-- script bookkeeping: id of its first output once it has been submitted to a pool (0 = never) -/
  base : Nat := 0
deriving Repr

/-- a stored broadcast set (`wallet.BroadcastedSet`): `expired` = `time.Since(BroadcastedAt) ≥
MaxRebroadcastPeriod` at the time the wallet is started -/
structure BSet where
  expired : Bool
  txns : List PTxn
deriving Repr

structure State where
  cfg : Cfg
  /-- `store.UnspentSiacoinElements()` (includes immature outputs) -/
  utxos : List Utxo
  /-- tip height of the wallet's store (what `UnspentSiacoinElements` returns as tip) -/
  height : Nat
  /-- tip height of the manager; the store may lag behind it -/
  cmHeight : Nat := height
  /-- `sw.locked` : output id ↦ expiry (`0` = no entry) -/
  locked : Nat → Nat
  now : Nat
  poolV1 : List PTxn
  poolV2 : List PTxn
  /-- the store's broadcast sets -/
  bsets : List BSet
  /-- every transaction ever handed out, by handle (lets a script release or broadcast it) -/
  reg : List FTxn
  /-- ghost: the un-released requests since the last restart -/
  out : List FTxn
  nextId : Nat

def State.init (cfg : Cfg) : State :=
  { cfg, utxos := [], height := 0, cmHeight := 0, locked := fun _ => 0, now := 0, poolV1 := [], poolV2 := [], bsets := [],
    reg := [], out := [], nextId := 0 }

def sumV (l : List Utxo) : Nat := (l.map (·.value)).sum

/-! ### sorting -/

/-- `sort.Slice(utxos, value descending)`: any function returning a permutation of its input. -/
structure Sorter where
  sort : List Utxo → List Utxo
  perm : ∀ l, (sort l).Perm l

def insDesc (u : Utxo) : List Utxo → List Utxo
  | [] => [u]
  | v :: l => if v.value > u.value then v :: insDesc u l else u :: v :: l

/-- stable insertion sort, descending by value (what `sort.Slice` does on ≤ 12 elements) -/
def sortDesc (l : List Utxo) : List Utxo := l.foldr insDesc []

theorem insDesc_perm (u : Utxo) (l : List Utxo) : (insDesc u l).Perm (u :: l) := by
  induction l with
  | nil => exact List.Perm.refl _
  | cons v l ih =>
    simp only [insDesc]
    split
    · exact (List.Perm.cons v ih).trans (List.Perm.swap u v l)
    · exact List.Perm.refl _

theorem sortDesc_perm (l : List Utxo) : (sortDesc l).Perm l := by
  induction l with
  | nil => exact List.Perm.refl _
  | cons u l ih => exact (insDesc_perm u _).trans (List.Perm.cons u ih)

def stdSorter : Sorter := ⟨sortDesc, sortDesc_perm⟩

/-! ### reservations (wallet.go:406-429, 822-824) -/

/-- `isLocked` (:822-824): `time.Now().Before(sw.locked[id])`; `sw.locked` is the function
id ↦ expiry with `0` (the zero time) for an absent key -/
def State.isLocked (s : State) (id : Nat) : Bool := s.now < s.locked id

/-- `cleanLockedUTXOs` (:409-415): delete entries with `time.Now().After(expiration)` -/
def cleanLocked (now : Nat) (l : Nat → Nat) : Nat → Nat :=
  fun id => if l id < now then 0 else l id

/-- `sw.locked[id] = exp` -/
def setLock (exp : Nat) (l : Nat → Nat) (id : Nat) : Nat → Nat :=
  fun j => if j = id then exp else l j

/-- `lockUTXOs` (:420-429) -/
def State.lockUTXOs (s : State) (ids : List Nat) : State :=
  let cl := cleanLocked s.now s.locked
  if ids.isEmpty then { s with locked := cl }
  else { s with locked := ids.foldl (setLock (s.now + s.cfg.reservation)) cl }

/-! ### what the wallet reads from the pool -/

structure Scan where
  spent : List Nat
  created : List POut
deriving Repr

/-- `tpoolSpent[id] = true; delete(tpoolUtxos, id)`; `fIn`: the loop skips inputs of other addresses -/
def Scan.addIn (fIn : Bool) (sc : Scan) (i : PIn) : Scan :=
  if fIn && !i.own then sc else ⟨i.id :: sc.spent, sc.created.filter (fun o => o.id != i.id)⟩

/-- `tpoolUtxos[id] = element`; `fOut`: the loop skips outputs of other addresses -/
def Scan.addOut (fOut : Bool) (sc : Scan) (o : POut) : Scan :=
  if fOut && !o.own then sc else ⟨sc.spent, sc.created.filter (fun p => p.id != o.id) ++ [o]⟩

/-- one pooled transaction; `outs t = false`: the loop over the outputs of `t` is skipped -/
def Scan.addTxn (fIn fOut : Bool) (outs : PTxn → Bool) (sc : Scan) (t : PTxn) : Scan :=
  let sc1 := t.ins.foldl (Scan.addIn fIn) sc
  if outs t then t.outs.foldl (Scan.addOut fOut) sc1 else sc1

def scanTxns (fIn fOut : Bool) (outs : PTxn → Bool) (txns : List PTxn) : Scan :=
  txns.foldl (Scan.addTxn fIn fOut outs) ⟨[], []⟩

/-- the two loops over `PoolTransactions()` then `V2PoolTransactions()`:
`Balance` (:174-213) is `scanPool true true`, `SplitUTXO` (:880-910) `scanPool false true`. -/
def State.scanPool (s : State) (fIn fOut : Bool) : Scan :=
  scanTxns fIn fOut (fun _ => true) (s.poolV1 ++ s.poolV2)

/-- `selectUTXOs` (:291-315): every pooled input counts as spent; only the outputs of pooled
transactions of the funded transaction's own version are candidates -/
def State.scanSelect (s : State) (v2 : Bool) : Scan :=
  scanTxns false false (fun t => t.v2 == v2) (s.poolV1 ++ s.poolV2)

/-- `inPool` of `selectRedistributeUTXOs` (:664-674) and of `SpendableOutputs` (:263-268 after the
repair; the pinned code looped over `PoolTransactions()` only) -/
def State.inPool (s : State) : List Nat :=
  (s.poolV1 ++ s.poolV2).flatMap fun t => t.ins.map (·.id)

/-! ### Balance (:165-231) and SpendableOutputs (:252-279) -/

structure Bal where
  spendable : Nat
  confirmed : Nat
  unconfirmed : Nat
  immature : Nat
deriving DecidableEq, Repr

def State.balance (s : State) : Bal :=
  let sc := s.scanPool true true
  let mature := s.utxos.filter fun u => !(u.maturity > s.height)
  { immature := sumV (s.utxos.filter fun u => u.maturity > s.height)
    confirmed := sumV mature
    spendable := sumV (mature.filter fun u => !s.isLocked u.id && !sc.spent.contains u.id)
    unconfirmed := (sc.created.map (·.value)).sum }

def State.spendable (s : State) : List Utxo :=
  let inPool := s.inPool
  s.utxos.filter fun u => !(s.isLocked u.id || inPool.contains u.id || s.height < u.maturity)

/-! ### selectUTXOs (:281-404) -/

/-- the loop :357-364 (repaired form: the remaining outputs are what was not selected):
returns (selected, remaining) -/
def takeFund (amount : Nat) : Nat → List Utxo → List Utxo × List Utxo
  | _, [] => ([], [])
  | sum, u :: l =>
    if amount ≤ sum then ([], u :: l)
    else ((u :: (takeFund amount (sum + u.value) l).1), (takeFund amount (sum + u.value) l).2)

/-- the loop :368-374 -/
def takeUnconf (amount : Nat) : Nat → List Utxo → List Utxo
  | _, [] => []
  | sum, u :: l => if amount ≤ sum + u.value then [u] else u :: takeUnconf amount (sum + u.value) l

/-- the loop :392-401 over the reversed `defraggable` -/
def defragLoop (maxIn : Nat) : Nat → List Utxo → List Utxo
  | _, [] => []
  | n, u :: l => if maxIn ≤ n then [] else u :: defragLoop maxIn (n + 1) l

/-- :384-402 -/
def defrag (cfg : Cfg) (txnInputs : Nat) (rest : List Utxo) : List Utxo :=
  if rest.length > cfg.defragThreshold && txnInputs < cfg.maxInputsForDefrag then
    let d := if rest.length > cfg.maxDefragUTXOs then rest.drop (rest.length - cfg.maxDefragUTXOs) else rest
    defragLoop cfg.maxInputsForDefrag txnInputs d.reverse
  else []

def POut.toUtxo (o : POut) : Utxo := ⟨o.id, o.value, 0⟩

/-- the confirmed candidates (:317-330) before sorting -/
def State.candidates (s : State) (v2 : Bool) : List Utxo :=
  let sc := s.scanSelect v2
  s.utxos.filter fun u => !(s.isLocked u.id || sc.spent.contains u.id) && !(s.height < u.maturity)

/-- the unconfirmed candidates (:339-347) before sorting -/
def State.unconfCandidates (s : State) (v2 : Bool) : List Utxo :=
  ((s.scanSelect v2).created.filter fun o => o.own && !s.isLocked o.id).map POut.toUtxo

/-- `selectUTXOs`: `none` = ErrNotEnoughFunds; otherwise the selected elements in order -/
def State.selectUTXOs (S : Sorter) (s : State) (amount inputs : Nat) (uc v2 : Bool) : Option (List Utxo) :=
  if amount = 0 then some []
  else
    let sorted := S.sort (s.candidates v2)
    let unconf := if uc then S.sort (s.unconfCandidates v2) else []
    let tr := takeFund amount 0 sorted
    let sum := sumV tr.1
    if sum < amount && uc then
      let ut := takeUnconf amount sum unconf
      if sum + sumV ut < amount then none
      else some (tr.1 ++ ut ++ defrag s.cfg (inputs + (tr.1 ++ ut).length) tr.2)
    else if sum < amount then none
    else some (tr.1 ++ defrag s.cfg (inputs + tr.1.length) tr.2)

/-! ### FundTransaction / FundV2Transaction (:435-468, :497-531) -/

inductive FundOut
  | ok (ins : List Utxo) (sum change : Nat)
  | err
deriving Repr

/-- `pre`: the outputs the caller put into the transaction; `inputs` = `len(txn.SiacoinInputs)` -/
def State.fund (S : Sorter) (s : State) (h : Nat) (v2 : Bool) (amount : Nat) (uc : Bool) (inputs : Nat)
    (pre : List (Nat × Bool)) : State × FundOut :=
  if amount = 0 then (s, .ok [] 0 0)
  else match s.selectUTXOs S amount inputs uc v2 with
    | none => (s, .err)
    | some sel =>
      let sum := sumV sel
      let pays := if sum > amount then pre ++ [(sum - amount, true)] else pre
      let s1 := s.lockUTXOs (sel.map (·.id))
      let t : FTxn := ⟨h, v2, sel, pays, 0, s.now + s.cfg.reservation, 0⟩
      ({ s1 with reg := s1.reg ++ [t], out := s1.out ++ [t] }, .ok sel sum (sum - amount))

/-! ### Redistribute (:662-798) -/

def bytesPerInput : Nat := 241
def redistributeBatchSize : Nat := 10

/-- the loop :748-754: append, then stop once the sum strictly exceeds want + fee -/
def takeRedist (want feePerInput outputFees : Nat) : Nat → Nat → List Utxo → List Utxo
  | _, _, [] => []
  | n, sum, u :: l =>
    if sum + u.value > want + (feePerInput * (n + 1) + outputFees) then [u]
    else u :: takeRedist want feePerInput outputFees (n + 1) (sum + u.value) l

structure RTxn where
  ins : List Utxo
  nout : Nat
  change : Nat
  fee : Nat
deriving Repr

/-- the loop :731-794; `none` = the error return at :766 -/
def redistLoop (cfg : Cfg) (amount fpb : Nat) : Nat → Nat → List Utxo → List RTxn → Option (List RTxn)
  | 0, _, _, acc => some acc
  | fuel + 1, outputs, utxos, acc =>
    if outputs = 0 then some acc
    else
      let k := min outputs redistributeBatchSize
      let outputFees := fpb * (cfg.wBase + cfg.wPer * k)
      let feePerInput := fpb * bytesPerInput
      let want := amount * k
      let inputs := takeRedist want feePerInput outputFees 0 0 utxos
      let fee := feePerInput * inputs.length + outputFees
      if sumV inputs < want + fee then
        if acc.length > 0 then some acc else none
      else
        redistLoop cfg amount fpb fuel (outputs - k) (utxos.drop inputs.length)
          (acc ++ [⟨inputs, k, sumV inputs - (want + fee), fee⟩])

/-- `selectRedistributeUTXOs` (:662-699): remaining number of outputs and the usable inputs -/
def State.redistCandidates (S : Sorter) (s : State) (outputs amount : Nat) : Nat × List Utxo :=
  let inPool := s.inPool
  let usable := s.utxos.filter fun u => !(s.isLocked u.id || inPool.contains u.id) && s.height ≥ u.maturity
  (outputs - (usable.filter fun u => u.value == amount).length,
   S.sort (usable.filter fun u => !(u.value == amount)))

inductive RedistOut
  | none
  | err
  | ok (txns : List RTxn)
deriving Repr

def RTxn.toF (now : Nat) (cfg : Cfg) (amount : Nat) (h : Nat) (r : RTxn) : FTxn :=
  ⟨h, true, r.ins, (List.replicate r.nout (amount, true)) ++ (if r.change = 0 then [] else [(r.change, true)]),
   r.fee, now + cfg.reservation, 0⟩

def zipHandles (f : Nat → RTxn → FTxn) : Nat → List RTxn → List FTxn
  | _, [] => []
  | h, r :: l => f h r :: zipHandles f (h + 1) l

/-- `Redistribute`; the transactions get the handles `h0, h0+1, …` -/
def State.redistribute (S : Sorter) (s : State) (h0 outputs amount fpb : Nat) : State × RedistOut :=
  let c := s.redistCandidates S outputs amount
  if amount = 0 then (s, .err)
  else if c.1 = 0 then (s, .none)
  else match redistLoop s.cfg amount fpb c.1 c.1 c.2 [] with
    | none => (s, .err)
    | some txns =>
      let s1 := s.lockUTXOs (txns.flatMap fun t => t.ins.map (·.id))
      let fs := zipHandles (RTxn.toF s.now s.cfg amount) h0 txns
      ({ s1 with reg := s1.reg ++ fs, out := s1.out ++ fs }, .ok txns)

/-! ### ReleaseInputs (:803-818) -/

def State.release (s : State) (ids : List Nat) : State :=
  { s with
    locked := cleanLocked s.now (fun id => if ids.contains id then 0 else s.locked id)
    out := s.out.filter fun t => !(t.ins.any fun u => ids.contains u.id) }

/-! ### the pool and the chain around the wallet (environment) -/

/-- id-level shadow of what `AddPoolTransactions` / `AddV2PoolTransactions` accept for one
transaction with wallet inputs `ids`: not spent in the pool, and either confirmed with
`MaturityHeight ≤ childHeight` or created by a pooled transaction of the same version. -/
def State.accepts (s : State) (v2 : Bool) (ids : List Nat) : Bool :=
  let sc := s.scanPool false false
  let sameVer := s.scanSelect v2
  ids.all fun id =>
    !sc.spent.contains id &&
      (s.utxos.any (fun u => u.id == id && u.maturity ≤ s.cmHeight + 1) || sameVer.created.any (fun o => o.id == id))

/-- number the outputs of a transaction with fresh ids -/
def numberOuts : Nat → List (Nat × Bool) → List POut
  | _, [] => []
  | n, (v, own) :: l => ⟨n, v, own⟩ :: numberOuts (n + 1) l

def FTxn.toP (t : FTxn) (n : Nat) : PTxn := ⟨t.v2, t.ins.map fun u => ⟨u.id, true⟩, numberOuts n t.pays⟩

def State.addPool (s : State) (p : PTxn) : State :=
  if p.v2 then { s with poolV2 := s.poolV2 ++ [p] } else { s with poolV1 := s.poolV1 ++ [p] }

/-- `V2TransactionSet` (manager.go:1170-1223): the pooled v2 ancestors of `p`, parents first -/
def v2Parents : List PTxn → List Nat → List PTxn
  | [], _ => []
  | t :: rest, need =>
    -- walk the pool from its end: `rest` is the reversed pool
    if t.outs.any (fun o => need.contains o.id) then
      v2Parents rest (need ++ t.ins.map (·.id)) ++ [t]
    else v2Parents rest need

def State.txnSet (s : State) (p : PTxn) : List PTxn :=
  v2Parents s.poolV2.reverse (p.ins.map (·.id)) ++ [p]

/-- a script signs the funded transaction `h` and submits it (directly to the manager, or through
`BroadcastV2TransactionSet` (:828-840) which also stores the set) -/
def State.bcast (s : State) (h : Nat) (viaWallet : Bool) : State × Bool :=
  match s.reg.find? (·.h == h) with
  | none => (s, false)
  | some t =>
    if t.base != 0 && (s.poolV1 ++ s.poolV2).contains (t.toP t.base) then
      -- the pool knows the transaction already: nothing is added, no error; the wallet
      -- (`BroadcastV2TransactionSet` :828-840) stores the set all the same
      (if viaWallet then { s with bsets := s.bsets ++ [(⟨false, s.txnSet (t.toP t.base)⟩ : BSet)] } else s, true)
    else if s.accepts t.v2 (t.ins.map (·.id)) then
      -- the outputs keep the ids they got when the transaction was first submitted
      let base := if t.base = 0 then s.nextId else t.base
      let p := t.toP base
      let s1 := s.addPool p
      let s2 := { s1 with
        nextId := if t.base = 0 then s.nextId + p.outs.length else s.nextId
        reg := s1.reg.map fun r => if r.h == h then { r with base := base } else r }
      (if viaWallet then { s2 with bsets := s2.bsets ++ [(⟨false, s.txnSet p⟩ : BSet)] } else s2, true)
    else (s, false)

/-- a transaction made outside this wallet instance that spends output `id` of the wallet (same
key), paying `back` to the wallet and `rest` elsewhere -/
def State.xspend (s : State) (v2 : Bool) (id back rest : Nat) : State × Bool :=
  if s.accepts v2 [id] then
    let pays := (if back = 0 then [] else [(back, true)]) ++ (if rest = 0 then [] else [(rest, false)])
    ({ s.addPool ⟨v2, [⟨id, true⟩], numberOuts s.nextId pays⟩ with nextId := s.nextId + pays.length }, true)
  else (s, false)

def insById (u : Utxo) : List Utxo → List Utxo
  | [] => [u]
  | v :: l => if v.id < u.id then v :: insById u l else u :: v :: l

/-- a block is mined on the tip and the wallet is synced: every pooled transaction is confirmed,
the miner payout (value `reward`) goes to the wallet iff `toWallet` -/
def State.mine (s : State) (toWallet : Bool) (reward : Nat) : State :=
  let txns := s.poolV1 ++ s.poolV2
  let spent := txns.flatMap fun t => t.ins.map (·.id)
  let created := (txns.flatMap (·.outs)).filter fun o => o.own && !spent.contains o.id
  let kept := s.utxos.filter fun u => !spent.contains u.id
  let payout := if toWallet then [(⟨s.nextId, reward, s.height + 1 + s.cfg.delay⟩ : Utxo)] else []
  { s with
    utxos := (created.map POut.toUtxo ++ payout).foldl (fun l u => insById u l) kept
    height := s.height + 1
    cmHeight := s.cmHeight + 1
    poolV1 := [], poolV2 := []
    nextId := s.nextId + 1 }

def State.tick (s : State) (d : Nat) : State := { s with now := s.now + d }

/-- `k` empty blocks are added to the manager's chain while the wallet is not told yet -/
def State.lag (s : State) (k : Nat) : State := { s with cmHeight := s.cmHeight + k, nextId := s.nextId + k }

/-- the wallet processes the (empty) blocks it is behind -/
def State.sync (s : State) : State := { s with height := s.cmHeight }

/-- `checkTxnSet` (manager.go:1225-1253) for a v2 set: every transaction is valid on top of the tip
plus the earlier transactions of the set (`s` has an empty pool when this is first called) -/
def State.validSet (s : State) : List PTxn → Bool
  | [] => true
  | p :: l => s.accepts true (p.ins.map (·.id)) && ({ s with poolV2 := s.poolV2 ++ [p] }).validSet l

/-- `AddV2PoolTransactions` (manager.go:1444-1494) of a stored set: validated against the tip, then
the transactions the pool does not know yet are appended -/
def State.addSet (s : State) (set : List PTxn) : State :=
  if ({ s with poolV1 := [], poolV2 := [] }).validSet set then
    set.foldl (fun st p =>
      if st.poolV2.contains p then st
      else if st.accepts true (p.ins.map (·.id)) then { st with poolV2 := st.poolV2 ++ [p] } else st) s
  else s

/-- the stored sets `NewSingleAddressWallet` offers to the pool, in the store's order -/
def State.reloadable (s : State) : List (List PTxn) := (s.bsets.filter fun b => !b.expired).map (·.txns)

/-- the node was down for longer than MaxRebroadcastPeriod after a broadcast, or the clock moved
on: the store holds a set that is too old (its transactions do not matter) -/
def State.stale (s : State) : State := { s with bsets := s.bsets ++ [⟨true, []⟩] }

/-- `NewSingleAddressWallet` (:1075-1121) over the same store: `locked` starts empty and every
stored broadcast set is offered to the pool again.  `freshPool`: the manager is new as well (its
pool is empty), otherwise the manager and its pool are the old ones. -/
def State.restart (s : State) (freshPool : Bool) : State :=
  let s0 := { s with locked := fun _ => 0, out := [] }
  -- :1114-1121: only the sets younger than MaxRebroadcastPeriod are offered; an old one is skipped
  (s.reloadable).foldl State.addSet (if freshPool then { s0 with poolV1 := [], poolV2 := [] } else s0)

/-! ### SplitUTXO (:859-998) -/

inductive SplitOut
  | none
  | err
  | ok (input : Utxo) (nout per last fee : Nat)
deriving Repr

/-- the two loops :913-938: count of outputs ≥ minAmount and the first strictly largest one -/
def splitScan (minAmount : Nat) : List Utxo → Nat × Utxo → Nat × Utxo :=
  fun l init => l.foldl (fun (acc : Nat × Utxo) u =>
    if u.value < minAmount then acc
    else (acc.1 + 1, if u.value > acc.2.value then u else acc.2)) init

/-- the two loops :913-938 over the store and the pool: (above, largest) -/
def State.splitPick (s : State) (minAmount : Nat) : Nat × Utxo :=
  let sc := s.scanPool false true
  let conf := s.utxos.filter fun u => !(s.isLocked u.id || sc.spent.contains u.id) && !(s.height < u.maturity)
  let unconf := (sc.created.filter fun o => o.own && !s.isLocked o.id).map POut.toUtxo
  splitScan minAmount unconf (splitScan minAmount conf (0, ⟨0, 0, 0⟩))

/-- :958-997 once the split transaction `t` is made: it is broadcast through
`BroadcastV2TransactionSet` (pool + stored set), then its input is reserved -/
def State.splitCommit (s : State) (t : FTxn) : State :=
  let p := t.toP s.nextId
  let s1 := { s.addPool p with nextId := s.nextId + p.outs.length }
  let s2 := { s1 with bsets := s1.bsets ++ [(⟨false, s.txnSet p⟩ : BSet)] }
  let s3 := s2.lockUTXOs (t.ins.map (·.id))
  { s3 with reg := s3.reg ++ [t], out := s3.out ++ [t] }

def State.split (s : State) (h n minAmount recFee : Nat) : State × SplitOut :=
  if s.cfg.defragThreshold < n then (s, .err)
  else if minAmount = 0 then (s, .err)
  else if n ≤ 1 then (s, .err)
  else if s.utxos.isEmpty then (s, .err)
  else
    let r := s.splitPick minAmount
    let above := r.1
    let largest := r.2
    let minerFee := recFee * 2000
    if largest.value ≤ minerFee then (s, .err)
    else if above ≥ n then (s, .none)
    else
      let remainder := n - above + 1
      let input := largest.value - minerFee
      let per := input / remainder
      if per < minAmount then (s, .err)
      else
        let last := per + (input - per * remainder)
        let pays := List.replicate (remainder - 1) (per, true) ++ [(last, true)]
        let t : FTxn := ⟨h, true, [largest], pays, minerFee, s.now + s.cfg.reservation, s.nextId⟩
        if s.accepts true [largest.id] then
          (s.splitCommit t, .ok largest remainder per last minerFee)
        else (s, .err)

/-- `SplitUTXO` when the pool refuses the split transaction (`BroadcastV2TransactionSet` fails at
`AddV2PoolTransactions`, :993-995): everything up to the broadcast is as in `split`, then the
error is returned before anything is reserved -/
def State.splitPoolFails (s : State) (h n minAmount recFee : Nat) : State × SplitOut :=
  match s.split h n minAmount recFee with
  | (_, .ok ..) => (s, .err)
  | r => r

/-! ### operations of a script -/

inductive Op
  | fund (h : Nat) (v2 : Bool) (amount : Nat) (uc : Bool) (inputs : Nat) (pre : List (Nat × Bool))
  | redistribute (h0 outputs amount fpb : Nat)
  | split (h n minAmount recFee : Nat)
  | release (ids : List Nat)
  | bcast (h : Nat) (viaWallet : Bool)
  | xspend (v2 : Bool) (id back rest : Nat)
  | mine (toWallet : Bool) (reward : Nat)
  | tick (d : Nat)
  | restart (freshPool : Bool)
  /-- any other change of the chain and the pool as the wallet sees them -/
  | env (utxos : List Utxo) (height cmHeight : Nat) (poolV1 poolV2 : List PTxn)
  | lag (k : Nat)
  | sync
  | stale
deriving Repr

def State.step (S : Sorter) (s : State) : Op → State
  | .fund h v2 a uc i pre => (s.fund S h v2 a uc i pre).1
  | .redistribute h0 o a f => (s.redistribute S h0 o a f).1
  | .split h n m f => (s.split h n m f).1
  | .release ids => s.release ids
  | .bcast h w => (s.bcast h w).1
  | .xspend v id b r => (s.xspend v id b r).1
  | .mine w r => s.mine w r
  | .tick d => s.tick d
  | .restart f => s.restart f
  | .env u h ch p1 p2 => { s with utxos := u, height := h, cmHeight := ch, poolV1 := p1, poolV2 := p2 }
  | .lag k => s.lag k
  | .sync => s.sync
  | .stale => s.stale

def State.run (S : Sorter) (s : State) (ops : List Op) : State := ops.foldl (State.step S) s

end Verif.Funding
