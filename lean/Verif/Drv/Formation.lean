import Verif.Drv.Runner
import Verif.Model.Formation

/-!
Driver for M9 (`c16 pinned|fixed`).  One operation line = one attempt:
`<rpc> <basis 0=same 1=behind 2=stale fork> <unconfirmed 0|1> <fault…>`; the answer is the
renter's result, both call traces, what the contractor recorded, how the returned contract
relates to it, and whether either wallet still holds outputs back (`rheld` is `-` on success:
the renter's inputs are then spent by the contract transaction).
-/
namespace Verif.Drv
open Verif.Formation

def callName : Call → String
  | .fund => "fund" | .txset => "txset" | .sign => "sign" | .release => "release"
  | .lock => "lock" | .unlock => "unlock" | .element => "element"
  | .updateInputs => "updateinputs" | .updateElement => "updateelement"
  | .addParents => "addparents" | .addPool => "addpool" | .record => "record" | .broadcast => "broadcast"

def parseRCall (s : String) : Option RCall :=
  [RCall.fund, .txset].find? (callName ·.toCall == s)

def parseHCall (s : String) : Option HCall :=
  [HCall.lock, .element, .fund, .updateInputs, .updateElement, .addParents, .txset, .addPool, .record, .broadcast].find?
    (callName ·.toCall == s)

def parseRpc : String → Option Rpc
  | "form" => some .form
  | "renew" => some .renew
  | "refresh-full" => some .refresh
  | "refresh-partial" => some .refresh
  | _ => none

def fin4? (s : String) : Option (Fin 4) := do
  let n ← s.toNat?
  if h : n < 4 then some ⟨n, h⟩ else none

/-- what a typed corruption does, by the label the harness's catalogue gives it -/
def parseEffect (rpc : Rpc) : String → Option Fault
  | "benign" => some .none
  | "hcheck-prices" => some (.hcheck (if rpc == .form then .request else .prices))
  | "hcheck-request" => some (.hcheck .request)
  | "hcheck-funding" => some (.hcheck .funding)
  | "hcheck-policies" => some (.hcheck .policies)
  | "hcheck-renewalsig" => some (.hcheck .renewalSig)
  | "hcheck-contractsig" => some (.hcheck .contractSig)
  | "hfail-updateinputs" => some (.hfail .updateInputs)
  | "hfail-addparents" => some (.hfail .addParents)
  | "hfail-txset" => some (.hfail .txset)
  | "hfail-addpool" => some (.hfail .addPool)
  | "rcheck-funding" => some (.rcheck .hostFunding)
  | "rcheck-shape" => some (.rcheck .shape)
  | "rcheck-hostrenewalsig" => some (.rcheck .hostRenewalSig)
  | "rcheck-hostsig" => some (.rcheck .hostSig)
  | "final-contract-altered" => some .finalContractAltered
  | "final-contract-unsigned" => some .finalContractUnsigned
  | "final-set-altered" => some .finalSetAltered
  | "final-set-signature" => some .finalSetInvalid
  | "final-set-basis" => some .finalSetInvalid
  | _ => none

def parseFault (rpc : Rpc) : List String → Option Fault
  | ["none"] => some .none
  | ["dial"] => some .dial
  | ["drop", i] => do some (.drop (← fin4? i))
  | ["cancel", i] => do some (.cancel (← fin4? i))
  | ["rcall", c] => do some (.rcall (← parseRCall c))
  | ["hcall", c] => do some (.hcall (← parseHCall c))
  | ["corrupt", _, e] => parseEffect rpc e
  -- blocks arriving at the host between its inputs and the renter's signatures: every later host
  -- call takes the basis `V2TransactionSet` returns, so the exchange runs as without a fault
  | ["midmine", _] => some .none
  -- the peer goes silent at message i: the renter's stream deadline (or context) ends the call, the
  -- stream closes, the message was never delivered — the same steps as a lost message
  | ["silent", i, _] => do some (.drop (← fin4? i))
  | _ => none

def fmtTrace (t : List Call) : String := ".".intercalate (t.map callName)

def fmtSt (s : St) : String :=
  let same := if s.rOk && s.recorded then boolStr s.same else "-"
  let signed := if s.rOk then boolStr s.signed else "-"
  s!"renter={if s.rOk then "ok" else "err"} rtrace={fmtTrace s.rTrace} htrace={fmtTrace s.hTrace} recorded={boolStr s.recorded} same={same} signed={signed} rheld={if s.rOk then "-" else boolStr s.rHeld} hheld={boolStr s.hHeld}"

def c16Step (cfg : Cfg) : List String → String
  | rpc :: basis :: unconf :: fw =>
    match parseRpc rpc, basis.toNat?, unconf.toNat? with
    | some r, some b, some u =>
      match parseFault r fw with
      | some f =>
        let env : Env := { basis := if b == 0 then .same else if b == 1 then .behind else .unknown, elemDiffers := false, hasParents := u != 0 }
        fmtSt (run cfg r env f)
      | none => "bad-op"
    | _, _, _ => "bad-op"
  | _ => "bad-op"

def c16Model (cfg : Cfg) : Model where
  σ := Unit
  init := fun _ => some ()
  step := fun s ws => (s, c16Step cfg ws)

def c16Models : List (String × Model) := [
  ("pinned", c16Model Cfg.pinned),
  ("fixed", c16Model Cfg.fixed)
]

end Verif.Drv
