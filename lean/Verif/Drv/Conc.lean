import Verif.Drv.Runner
import Verif.Model.Conc

/-!
Driver family `conc` (C18): trace-inclusion checker.  Every op line is one recorded atomic step
of the real code (a `verifEvent`, translated by `harness/c18`); the driver runs the step function
the theorems are about and answers what the model does: `not-enabled` when the step's guard is
false in the current model state (the state is then left unchanged), otherwise the step's
observable outcome (`ok` / `closed` / `rej` …) and, where the real code exposes the same counter
inside the critical section, the counter's value.

  conc tg                         ThreadGroup (also the rhp4 server's and the wallet's group)
  conc inflight <maxPeer> <maxSub>  in-flight accounting of one subnet key
  conc caps <maxIn> <maxOut>      peer caps, repaired code (`addPeer` re-checks)
  conc caps-pinned <maxIn> <maxOut>  peer caps as pinned (insert without re-check)
  conc srv                        rhp4 Server.Serve / Close (stream accepted, joined or refused, finished)
  conc teardown                   Syncer.Run / Close teardown of a running syncer (repaired code)
-/
namespace Verif.Drv
open Verif.Conc

def int? (s : String) : Option Int :=
  if s.startsWith "-" then (s.drop 1).toNat?.map fun n => -(n : Int) else s.toNat?.map fun n => (n : Int)

/-! ### ThreadGroup -/

def tgStepLine (s : TG) : List String → TG × String
  | ["add"] =>
    match s.step .add with
    | some s' => (s', if s.closed then "closed" else "ok")
    | none => (s, "not-enabled")
  | ["done"] =>
    match s.step .done with
    | some s' => (s', "ok")
    | none => (s, "not-enabled")
  | ["stop"] =>
    match s.step .stop with
    | some s' => (s', if s.closed then "again" else "first")
    | none => (s, "not-enabled")
  | ["ret"] =>
    match s.step .ret with
    | some s' => (s', "ok")
    | none => (s, "not-enabled")
  | _ => (s, "bad-op")

def tgModel : Model where
  σ := TG
  init := fun _ => some {}
  step := tgStepLine

/-! ### in-flight accounting -/

def ifRun (s : IF) (a : IFStep) (out : IF → String) : IF × String :=
  match s.step a with
  | some s' => (s', out s')
  | none => (s, "not-enabled")

def ifStepLine (s : IF) : List String → IF × String
  | ["peer"] => ifRun s .peerStart fun s' => s!"ok {s'.peers.length - 1}"
  | ["want", p] => match nat? p with
    | some i => ifRun s (.want i) fun _ => "ok"
    | none => (s, "bad-op")
  | ["take", p] => match nat? p with
    | some i => ifRun s (.take i) fun _ => "ok"
    | none => (s, "bad-op")
  -- the same two steps observed at a quiescent moment (no handler of the peer between its
  -- release hook and the release): the real `len(inflight)` is then exactly the model's `sem`
  | ["wantq", p] => match nat? p with
    | some i => ifRun s (.want i) fun s' => s!"ok {((s'.peers[i]?).map (·.sem)).getD 0}"
    | none => (s, "bad-op")
  | ["takeq", p] => match nat? p with
    | some i => ifRun s (.take i) fun s' => s!"ok {((s'.peers[i]?).map (·.sem)).getD 0}"
    | none => (s, "bad-op")
  | ["closed", p] => match nat? p with
    | some i => ifRun s (.sawClosed i) fun _ => "ok"
    | none => (s, "bad-op")
  | ["exit", p] => match nat? p with
    | some i => ifRun s (.peerExit i) fun _ => "ok"
    | none => (s, "bad-op")
  | ["acq", p] => match nat? p with
    | some i => ifRun s (.acq i) fun s' =>
        if !s.subOn then "off"
        else if s'.subnet = s.subnet then s!"rej {s'.subnet}" else s!"ok {s'.subnet}"
    | none => (s, "bad-op")
  | ["ret", p] => match nat? p with
    | some i => ifRun s (.retSub i) fun _ => "ok"
    | none => (s, "bad-op")
  | ["hadd", p] => match nat? p with
    | some i => ifRun s (.hAdd i) fun _ => if s.tgClosed then "closed" else "ok"
    | none => (s, "bad-op")
  | ["hdone", p] => match nat? p with
    | some i => ifRun s (.hDone i) fun _ => "ok"
    | none => (s, "bad-op")
  | ["rel", p] => match nat? p with
    | some i => ifRun s (.relSub i) fun s' => if s.subOn then s!"ok {s'.subnet}" else "off"
    | none => (s, "bad-op")
  | ["hret", p] => match nat? p with
    | some i => ifRun s (.relPeer i) fun _ => "ok"
    | none => (s, "bad-op")
  | ["oadd"] => ifRun s .oAdd fun _ => if s.tgClosed then "closed" else "ok"
  | ["odone"] => ifRun s .oDone fun _ => "ok"
  | ["stop"] => ifRun s .stop fun _ => if s.tgClosed then "again" else "first"
  | ["tgret"] => ifRun s .ret fun _ => "ok"
  | _ => (s, "bad-op")

def ifModel : Model where
  σ := IF
  init := fun ws => match ws with
    | [a, b] => do some (IF.init (← int? a) (← int? b))
    | _ => none
  step := ifStepLine

/-! ### peer caps -/

def dir? : String → Option Bool
  | "in" => some true
  | "out" => some false
  | _ => none

def capsCount (s : Caps) (inbound : Bool) : Nat := if inbound then s.inP else s.outP

def capsStepLine (fixed : Bool) (s : Caps) : List String → Caps × String
  | ["allow", d] => match dir? d with
    | some b =>
      -- the peerLoop thread gives up its previous candidate before it checks the next one
      let s := if !b && s.pendOut then { s with pendOut := false } else s
      match Caps.step fixed s (.allow b) with
      | some s' =>
        let ok := if b then decide (s'.pendIn = s.pendIn + 1) else s'.pendOut
        (s', (if ok then "ok " else "rej ") ++ toString (capsCount s b))
      | none => (s, "not-enabled")
    | none => (s, "bad-op")
  | ["add", d] => match dir? d with
    | some b =>
      -- an outbound insert that was not announced by `allowConnect` is an explicit Connect
      let a : CapStep := if !b && !s.pendOut then .direct else .add b
      match Caps.step fixed s a with
      | some s' =>
        if capsCount s' b = capsCount s b + 1 then (s', s!"ok {capsCount s' b}")
        else (s', s!"rej {capsCount s b}")
      | none => (s, "not-enabled")
    | none => (s, "bad-op")
  | ["rm", d] => match dir? d with
    | some b =>
      match Caps.step fixed s (.remove b) with
      | some s' => (s', s!"ok {capsCount s' b}")
      | none => (s, "not-enabled")
    | none => (s, "bad-op")
  | _ => (s, "bad-op")

def capsModel (fixed : Bool) : Model where
  σ := Caps
  init := fun ws => match ws with
    | [a, b] => do some (Caps.init (← int? a) (← int? b))
    | _ => none
  step := capsStepLine fixed

/-! ### rhp4 server: Serve / Close -/

def srvRun (s : Srv) (a : SrvStep) (out : Srv → String) : Srv × String :=
  match s.step a with
  | some s' => (s', out s')
  | none => (s, "not-enabled")

def srvStepLine (s : Srv) : List String → Srv × String
  | ["stream"] => srvRun s .accept fun _ => "ok"
  | ["enter"] => srvRun s .enter fun _ => if s.tg.closed then "refused" else "ok"
  | ["finish"] => srvRun s .finish fun _ => "ok"
  | ["close"] => srvRun s .close fun _ => if s.tg.closed then "again" else "first"
  | ["closeret"] => srvRun s .closeRet fun _ => "ok"
  | _ => (s, "bad-op")

def srvModel : Model where
  σ := Srv
  init := fun _ => some {}
  step := srvStepLine

/-! ### Syncer.Run / Close teardown (repaired code) -/

def tdRun (s : TD) (a : TDStep) (out : TD → String) : TD × String :=
  match TD.step true s a with
  | some s' => (s', out s')
  | none => (s, "not-enabled")

def tdStepLine (s : TD) : List String → TD × String
  | ["connstart"] => tdRun s .connStart fun _ => if s.tgClosed then "closed" else "ok"
  | ["connfail"] => tdRun s .connFail fun _ => "ok"
  | ["connadd"] => tdRun s .connAdd fun _ => "ok"
  | ["peeradd", "open"] => tdRun s (.peerAdd true) fun _ => if s.tgClosed then "refused" else "ok"
  | ["peeradd", "closed"] => tdRun s (.peerAdd false) fun _ => if s.tgClosed then "refused" else "ok"
  | ["remoteclose", "added"] => tdRun s (.remoteClose false) fun _ => "ok"
  | ["remoteclose", "serving"] => tdRun s (.remoteClose true) fun _ => "ok"
  | ["watch"] => tdRun s .watch fun _ => "ok"
  | ["peererr"] => tdRun s .peerErr fun _ => "ok"
  | ["peerremove"] => tdRun s .peerRemove fun _ => "ok"
  | ["loopexit", "accept"] => tdRun s .acceptExit fun _ => "ok"
  -- a context loop ends because the thread group stopped, or (syncLoop, environment) because it failed
  | ["loopexit", "peer"] => tdRun s (.bgExit false) fun _ => "ok"
  | ["loopexit", "sync"] => tdRun s (if s.tgClosed then .bgExit true else .bgFail) fun _ => "ok"
  | ["syncstart"] => tdRun s .syncStart fun _ => "ok"
  | ["ingestdone"] => tdRun s .ingestDone fun _ => "ok"
  | ["envclosel"] => tdRun s .envCloseL fun _ => "ok"
  | ["recv"] => tdRun s .runRecv fun _ => "ok"
  | ["lclose"] => tdRun s .runCloseL fun _ => "ok"
  -- the number of peers the sweep finds in the map is the real `len(s.peers)` under `s.mu`
  | ["sweep"] => tdRun s .runSweep fun _ => s!"ok {s.mapSize}"
  | ["drained"] => tdRun s .runPeersDone fun _ => "ok"
  | ["runreturn"] => tdRun s .runReturn fun _ => "ok"
  | ["closel"] => tdRun s .closeL fun _ => "ok"
  | ["closestop"] => tdRun s .closeStop fun _ => "ok"
  | ["closeret"] => tdRun s .closeRet fun _ => "ok"
  | _ => (s, "bad-op")

def tdModel : Model where
  σ := TD
  init := fun _ => some {}
  step := tdStepLine

def concModels : List (String × Model) := [
  ("tg", tgModel),
  ("srv", srvModel),
  ("teardown", tdModel),
  ("inflight", ifModel),
  ("caps", capsModel true),
  ("caps-pinned", capsModel false)
]

end Verif.Drv
