import Verif.Drv.Runner
import Verif.Model.KV
import Verif.Model.KVFault

namespace Verif.Drv
open Verif.KV

def parseKVOp : List String → Option Op
  | ["create", b] => do some (.create (← nat? b))
  | ["put", b, k, v] => do some (.put (← nat? b) (← nat? k) (← nat? v))
  | ["del", b, k] => do some (.del (← nat? b) (← nat? k))
  | ["get", b, k] => do some (.get (← nat? b) (← nat? k))
  | ["iter", b] => do some (.iter (← nat? b))
  | ["flush"] => some .flush
  | ["cancel"] => some .cancel
  | _ => none

/-- the iteration result is printed sorted by key (`ExtTreeMap.toList`; the harness sorts
what Go's maps yield) -/
def fmtKVOut : Out → String
  | .ok => "ok"
  | .err => "err"
  | .nobucket => "nobucket"
  | .val none => "val none"
  | .val (some v) => s!"val {v}"
  | .kvs m => "kvs" ++ String.join (m.toList.map fun (k, v) => s!" {k}={v}")

/-- one model = an initial state and the step function the theorems are about.  For the
two CacheDB variants the state carries the list of bucket names seen so far and the step
is `CacheDB.stepN` (names are added by `addName`: only when not already contained; what
Go's `range db.mem.puts` enumerates is a subset of these), exactly the objects of
`Verif.C17.cachedb_trace_eq`. -/
def kvModel {σ} (init : σ) (step : σ → Op → σ × Out) : Model where
  σ := σ
  init := fun _ => some init
  step := fun s ws =>
    match parseKVOp ws with
    | none => (s, "bad-op")
    | some op =>
      let (s', o) := step s op
      (s', fmtKVOut o)

/-- histories in which the physical database may fail (`Model/KVFault.lean`) -/
def parseKVFOp : List String → Option FOp
  | ["failcreate", b] => do some (.failCreate (← nat? b))
  | ["failflush"] => some .failFlush
  | ws => (parseKVOp ws).map .op

def kvModelF {σ} (init : σ) (step : σ → FOp → σ × Out) : Model where
  σ := σ
  init := fun _ => some init
  step := fun s ws =>
    match parseKVFOp ws with
    | none => (s, "bad-op")
    | some op =>
      let (s', o) := step s op
      (s', fmtKVOut o)

def kvModels : List (String × Model) := [
  ("fspec", kvModelF Spec.init Spec.stepF),
  ("fmem", kvModelF MemDB.init MemDB.stepF),
  ("fcachemem", kvModelF (CacheDB.init MemDB.init) (CacheDB.stepNF memBackendF)),
  ("fcachespec", kvModelF (CacheDB.init Spec.init) (CacheDB.stepNF specBackendF)),
  ("spec", kvModel Spec.init Spec.step),
  ("mem", kvModel MemDB.init MemDB.step),
  ("cachemem", kvModel (CacheDB.init MemDB.init) (CacheDB.stepN memBackend)),
  ("cachespec", kvModel (CacheDB.init Spec.init) (CacheDB.stepN specBackend))
]

end Verif.Drv
