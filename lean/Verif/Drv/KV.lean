import Verif.Drv.Runner
import Verif.Model.KV

namespace Verif.Drv
open Verif.KV

def parseKVOp : List String → Option Op
  | ["create", b] => do some (.create (← nat? b))
  | ["put", b, k, v] => do some (.put (← nat? b) (← nat? k) (← nat? v))
  | ["del", b, k] => do some (.del (← nat? b) (← nat? k))
  | ["get", b, k] => do some (.get (← nat? b) (← nat? k))
  | ["iter", b] => do some (.iter (← nat? b))
  | ["flush"] => some .flush
  | ["cancel"] => some .cancel
  | _ => none

def fmtKVOut : Out → String
  | .ok => "ok"
  | .err => "err"
  | .nobucket => "nobucket"
  | .val none => "val none"
  | .val (some v) => s!"val {v}"
  | .kvs l => "kvs" ++ String.join (l.map fun (k, v) => s!" {k}={v}")

def opBucket : Op → Option Nat
  | .create b | .put b _ _ | .del b _ | .get b _ | .iter b => some b
  | _ => none

/-- state: the backend state plus the list of bucket names seen so far (what Go's
`range db.mem.puts` enumerates is a subset of these) -/
def kvModel {σ} (init : σ) (step : List Nat → σ → Op → σ × Out) : Model where
  σ := σ × List Nat
  init := fun _ => some (init, [])
  step := fun (s, names) ws =>
    match parseKVOp ws with
    | none => ((s, names), "bad-op")
    | some op =>
      let names := match opBucket op with
        | some b => if names.contains b then names else b :: names
        | none => names
      let (s', o) := step names s op
      ((s', names), fmtKVOut o)

def kvModels : List (String × Model) := [
  ("spec", kvModel Spec.init fun _ s op => s.step op),
  ("mem", kvModel MemDB.init fun _ s op => s.step op),
  ("cachemem", kvModel (⟨MemDB.init, MemDB.init⟩ : CacheDB MemDB) fun ns s op => CacheDB.step memBackend ns s op),
  ("cachespec", kvModel (⟨MemDB.init, Spec.init⟩ : CacheDB Spec) fun ns s op => CacheDB.step specBackend ns s op)
]

end Verif.Drv
