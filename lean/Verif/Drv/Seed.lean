/-
Driver family `seed` (C20).  One stateless variant, `codec`; every line carries the first
byte of the SHA-256 of the entropy concerned (`h0`, computed by the harness with crypto/sha256 —
for `dec*`/`seedp` of the entropy the phrase denotes, 0 when it denotes none), the model applies
the mask and shift of `bip39checksum` itself.  Bytes, word indices and code points are decimal.

  enc   h0 b0 … b15        → `w w0 … w11`            word indices (`encodeIdx`)
  encp  h0 b0 … b15        → `p c0 c1 …`             code points of the phrase (`encodePhrase`)
  dec   h0 i0 … ik         → `ok b0 … b15` | `err count|unknown|checksum`   (`decodeOpts` on indices;
                                                      an index ≥ 2048 stands for a non-word)
  decp  h0 c0 c1 …         → same                     (`decodePhrase` on the string: tokeniser + word map)
  seedp h0 c0 c1 …         → `pre b0 … b15` | `err …` (`seedInput` of the decoded entropy)
  kdf   idx s0 … s31       → `pre b0 … b39`           (`kdfInput`)
  sp    0 lo hi            → `s c …`                  the code points in [lo, hi) with `isSpace`
-/
import Verif.Drv.Runner
import Verif.Model.Seed
import Verif.Extracted.Wordlist

namespace Verif.Drv
open Verif.Seed

def seedErr : Err → String
  | .count => "err count"
  | .unknown => "err unknown"
  | .checksum => "err checksum"

def seedRes (tag : String) : Except Err (Nat × Nat) → String
  | .ok p => tag ++ " " ++ joinNats (bytesOfPair p)
  | .error e => seedErr e

def seedStep (ws : List String) : String :=
  match ws with
  | op :: rest =>
    match nats? rest with
    | none => "bad-op"
    | some [] => "bad-op"
    | some (a :: args) =>
      let ck : Nat → Nat := fun _ => nibble a
      let wl := Verif.Extracted.Seed.wordlist
      match op with
      | "enc" =>
        if args.length = 16 then
          let p := pairOfBytes args
          "w " ++ joinNats (encodeIdx ck p.1 p.2)
        else "bad-op"
      | "encp" =>
        if args.length = 16 then
          let p := pairOfBytes args
          "p " ++ joinNats (encodePhrase wl ck p.1 p.2)
        else "bad-op"
      | "dec" => seedRes "ok" (decodeOpts ck (args.map idxLookup))
      | "decp" => seedRes "ok" (decodePhrase wl ck args)
      | "seedp" =>
        match decodePhrase wl ck args with
        | .ok p => "pre " ++ joinNats (seedInput p)
        | .error e => seedErr e
      | "sp" =>
        match args with
        | [lo, hi] => ("s " ++ joinNats (((List.range (hi - lo)).map (· + lo)).filter isSpace)).trimAsciiEnd.toString
        | _ => "bad-op"
      | "kdf" => if args.length = 32 then "pre " ++ joinNats (kdfInput args a) else "bad-op"
      | _ => "bad-op"
  | [] => "bad-op"

def seedModels : List (String × Model) := [
  ("codec", { σ := Unit, init := fun _ => some (), step := fun s ws => (s, seedStep ws) })
]

end Verif.Drv
