import Verif.Drv.Runner
import Verif.Model.Listeners

namespace Verif.Drv
open Verif.Listeners

/-- driver state: the registry, the key handed to each listener, the next fresh key -/
structure LstSt where
  r : Reg
  keyOf : List (Nat × Nat)   -- listener ↦ key
  next : Nat

def sortNats (l : List Nat) : List Nat := l.mergeSort (· ≤ ·)

def lstStep (s : LstSt) (ws : List String) : LstSt × String :=
  match ws with
  | ["reg", l] =>
    match nat? l with
    | some l => ({ r := s.r.register s.next l, keyOf := (l, s.next) :: s.keyOf, next := s.next + 1 }, "ok")
    | none => (s, "bad-op")
  | ["cancel", l] =>
    match nat? l with
    | some l =>
      match s.keyOf.lookup l with
      | some k => ({ s with r := s.r.cancel k }, "ok")
      | none => (s, "bad-op")
    | none => (s, "bad-op")
  | ["tip"] => (s, "called " ++ joinNats (sortNats s.r.notified))
  | _ => (s, "bad-op")

def lstModel : Model where
  σ := LstSt
  init := fun _ => some ⟨Reg.empty, [], 0⟩
  step := lstStep

def listenersModels : List (String × Model) := [("reg", lstModel)]

end Verif.Drv
