import Verif.Drv.Runner
import Verif.Model.Elements
import Verif.Model.Commit
import Verif.Lemmas.Elements

/-!
Driver family `elements`:

* `elements node <req>` — the store under apply/revert of declared blocks (C02).
  `blk <id> <parent> <height> <diff>…` declares a block (diff = `k:id:c:s:we:rn:rwe:rrn`,
  `k` ∈ `c` siacoin, `f` siafund, `x` contract; `rwe`/`rrn` are `-` without a revision);
  `genesis` initialises the node from block 0; `apply <b>`, `revert <b>` print the key sets of
  every bucket, every expiration list and the best index.
* `elements tree` — `key <row> <col>`, `pos <leaf> <n>`.
* `elements commit <req>` — the same node under the durable/pending split of C03:
  `apply <b> <flush>`, `revert <b> <flush>`, `flush`, `crash`.
-/
namespace Verif.Drv
open Verif.Elements

/-- insert into a sorted duplicate-free list -/
def insSorted (x : Nat) : List Nat → List Nat
  | [] => [x]
  | y :: ys => if x < y then x :: y :: ys else if x = y then y :: ys else y :: insSorted x ys

structure ElSt where
  n : Node
  started : Bool
  U : Nat → BlkInfo
  scIds : List Nat
  sfIds : List Nat
  fcIds : List Nat
  heights : List Nat

def parseDiff (w : String) : Option Diff :=
  match w.splitOn ":" with
  | [k, id, c, s, we, rn, rwe, rrn] =>
    let kind? : Option Kind := if k == "c" then some .sc else if k == "f" then some .sf else if k == "x" then some .fc else none
    match kind?, nat? id, nat? we, nat? rn with
    | some kind, some id, some we, some rn =>
      let rev : Option (Nat × Nat) := match nat? rwe, nat? rrn with
        | some a, some b => some (a, b)
        | _, _ => none
      some { kind := kind, id := id, created := c == "1", spent := s == "1", we := we, rn := rn, rev := rev }
    | _, _, _, _ => none
  | _ => none

def obsStore (st : ElSt) (s : Store) (tip : Nat) (panicked : Bool) : String :=
  let sc := st.scIds.filter s.sc
  let sf := st.sfIds.filter s.sf
  let fc := st.fcIds.filterMap fun i => (s.fc i).map fun (we, rn) => s!"{i}:{we}:{rn}"
  let exp := st.heights.filterMap fun h =>
    match s.exp h with
    | [] => none
    | l => some s!"{h}=[{",".intercalate (l.map toString)}]"
  let idx := (List.range (s.height + 1)).map fun h => optNat (s.index h)
  if panicked then "panic" else
  s!"h {s.height} tip {tip} p 0 sc {joinNats sc} sf {joinNats sf} fc {" ".intercalate fc} exp {" ".intercalate exp} idx {" ".intercalate idx}"

def obs (st : ElSt) : String := obsStore st st.n.store st.n.tip st.n.panicked

/-- Tabulate a store over the declared ids and heights.  The buckets of the model are functions;
the compiler evaluates a chain of function updates lazily, per lookup, which makes long
histories exponentially slow.  Tabulating after every block keeps the chain one block deep.
The result agrees with `s` on every declared id / height, which is all the driver ever reads. -/
def compact (st : ElSt) (s : Store) : Store :=
  let scL := st.scIds.filter s.sc
  let sfL := st.sfIds.filter s.sf
  let fcL := st.fcIds.filterMap fun i => (s.fc i).map fun v => (i, v)
  let expL := st.heights.filterMap fun h => match s.exp h with | [] => none | l => some (h, l)
  let idxL := (List.range (s.height + 2)).filterMap fun h => (s.index h).map fun b => (h, b)
  let height := s.height
  { sc := fun j => scL.contains j, sf := fun j => sfL.contains j, fc := fun j => fcL.lookup j,
    exp := fun h => (expL.lookup h).getD [], index := fun h => idxL.lookup h, height := height }

def compactNode (st : ElSt) (n : Node) : Node := { n with store := compact st n.store }

/-- the linear store of block `b` (`lin`, computed with tabulation after every block) -/
def linCAux (st : ElSt) : Nat → Nat → Store
  | 0, _ => compact st (Node.init st.n.req st.U).store
  | f + 1, b =>
    if b = 0 then compact st (Node.init st.n.req st.U).store
    else
      let p := linCAux st f (st.U b).parent
      compact st (applyBlock st.n.req p b (st.U b).height (blockDiffs st.n.req p (st.U b)))

def linC (st : ElSt) (b : Nat) : Store := linCAux st (st.U b).height b

/-- `expStableB`, with the intermediate store tabulated -/
def stableC (st : ElSt) (p : Store) (ds : List Diff) : Bool :=
  let a := compact st (applyDiffs p ds)
  let r := compact st (revertDiffs a ds.reverse)
  (touched ds).all fun h => r.exp h == p.exp h

def declare (st : ElSt) (ws : List String) : Option ElSt :=
  match ws with
  | id :: parent :: height :: ds =>
    match nat? id, nat? parent, nat? height, ds.mapM parseDiff with
    | some id, some parent, some height, some ds =>
      let U' := set st.U id ⟨parent, height, ds⟩
      let add (k : Kind) (l : List Nat) := ds.foldl (fun acc d => if d.kind = k then insSorted d.id acc else acc) l
      let hs := ds.foldl (fun acc d =>
        if d.kind = .fc then
          let acc := insSorted d.we acc
          match d.rev with | some r => insSorted r.1 acc | none => acc
        else acc) st.heights
      some { st with U := U', n := { st.n with U := U' }, scIds := add .sc st.scIds, sfIds := add .sf st.sfIds,
                     fcIds := add .fc st.fcIds, heights := hs }
    | _, _, _, _ => none
  | _ => none

def elStep (st : ElSt) (ws : List String) : ElSt × String :=
  match ws with
  | "blk" :: rest =>
    match declare st rest with
    | some st' => (st', "ok")
    | none => (st, "bad-op")
  | ["genesis"] =>
    let st' := { st with n := compactNode st (Node.init st.n.req st.U), started := true }
    (st', obs st')
  | ["apply", b] =>
    match nat? b with
    | some b =>
      match st.n.applyTip b with
      | some n' => let st' := { st with n := compactNode st n' }; (st', obs st')
      | none => (st, "refuse")
    | none => (st, "bad-op")
  | ["revert", b] =>
    match nat? b with
    | some b =>
      if st.n.tip ≠ b then (st, "refuse")
      else
        match st.n.revertTip with
        | some n' =>
          let st' := { st with n := compactNode st n' }
          -- `Stable b`: relative to the linear store of the parent (the history class of C02)
          let p := linC st (st.U b).parent
          let stable := stableC st p (blockDiffs st.n.req p (st.U b))
          (st', obs st' ++ s!" stable {boolStr stable}")
        | none => (st, "refuse")
    | none => (st, "bad-op")
  | _ => (st, "bad-op")

def elModel : Model where
  σ := ElSt
  init := fun args =>
    match args with
    | [req] => (nat? req).map fun req =>
      let U : Nat → BlkInfo := fun _ => ⟨0, 0, []⟩
      { n := { req := req, U := U, store := Store.empty, tip := 0, supp := fun _ => none }, started := false,
        U := U, scIds := [], sfIds := [], fcIds := [], heights := [] }
    | _ => none
  step := elStep

def treeStep (u : Unit) (ws : List String) : Unit × String :=
  match ws with
  | ["key", r, c] =>
    match nat? r, nat? c with
    | some r, some c => (u, toString (treeKey r c))
    | _, _ => (u, "bad-op")
  | ["pos", leaf, n] =>
    match nat? leaf, nat? n with
    | some leaf, some n =>
      if leaf ≥ n then (u, "panic")
      else
        let ks := (proofPositions leaf n).map fun (r, c) => treeKey r c
        (u, if ks.isEmpty then "ok" else "ok " ++ joinNats ks)
    | _, _ => (u, "bad-op")
  | _ => (u, "bad-op")

def treeModel : Model where
  σ := Unit
  init := fun _ => some ()
  step := treeStep

/-! ### C03: the node behind a durable/pending split -/

structure CmSt where
  el : ElSt
  c : Verif.Commit.Sys

def cmObs (st : CmSt) : String :=
  let w := st.c.working
  let d := st.c.durable
  s!"{obsStore st.el w.store w.tip w.panicked} | durable h {d.store.height} tip {d.tip}"

def flushFlag (s : String) : Bool := s == "1"

def cmCompact (st : CmSt) (c : Verif.Commit.Sys) : Verif.Commit.Sys :=
  { working := compactNode st.el c.working, durable := compactNode st.el c.durable }

def cmStep (st : CmSt) (ws : List String) : CmSt × String :=
  match ws with
  | "blk" :: rest =>
    match declare st.el rest with
    | some el' =>
      let upd (n : Node) : Node := { n with U := el'.U }
      ({ st with el := el', c := { working := upd st.c.working, durable := upd st.c.durable } }, "ok")
    | none => (st, "bad-op")
  | ["genesis"] =>
    let n0 := Node.init st.el.n.req st.el.U
    let st' := { st with c := Verif.Commit.Sys.init n0 }
    (st', cmObs st')
  | ["apply", b, f] =>
    match nat? b with
    | some b =>
      match st.c.step (.apply b (flushFlag f)) with
      | some c' => let st' := { st with c := cmCompact st c' }; (st', cmObs st')
      | none => (st, "refuse")
    | none => (st, "bad-op")
  | ["revert", b, f] =>
    match nat? b with
    | some b =>
      if st.c.working.tip ≠ b then (st, "refuse")
      else match st.c.step (.revert (flushFlag f)) with
        | some c' => let st' := { st with c := cmCompact st c' }; (st', cmObs st')
        | none => (st, "refuse")
    | none => (st, "bad-op")
  | ["flush"] =>
    match st.c.step .flush with
    | some c' => let st' := { st with c := c' }; (st', cmObs st')
    | none => (st, "refuse")
  | ["crash"] =>
    match st.c.step .crash with
    | some c' => let st' := { st with c := c' }; (st', cmObs st')
    | none => (st, "refuse")
  | _ => (st, "bad-op")

def cmModel : Model where
  σ := CmSt
  init := fun args =>
    match elModel.init args with
    | some el => some { el := el, c := Verif.Commit.Sys.init el.n }
    | none => none
  step := cmStep

def elementsModels : List (String × Model) := [("node", elModel), ("tree", treeModel), ("commit", cmModel)]

end Verif.Drv
