import Verif.Drv.Runner
import Verif.Model.RhpClient

/-!
Driver for M8 (`c10 pinned|fixed`).  One operation line = one client call:
`<rpc> <params…> | <messages…>`.  Roots, proofs and signatures are naturals assigned by the
harness: a proof/signature token is `1` iff the harness's own call of the corresponding
`go.sia.tech/core` verifier on the message the host sent (and on the arguments the client is
supposed to pass) accepted; a root token is a small id.  The model decides which checks run,
in which order, with which lengths and amounts, and what the call returns.
-/
namespace Verif.Drv
open Verif.RhpClient

abbrev M := Msg Nat Nat Nat

/-- primitives answering from the verdict the harness attached to the message -/
def verdictPrims : Prims Nat Nat Nat where
  verifySig := fun _ _ s => s == 1
  rootOfData := fun _ => 1
  verifyRange := fun pf _ _ _ _ => pf == 1
  verifyLeaf := fun pf _ _ _ => pf == 1
  verifyFree := fun pf _ _ _ _ _ => pf == 1
  freeShapeOk := fun _ shape _ _ => shape == 1
  verifyAppend := fun _ pf _ _ _ => pf == 1
  verifyRoots := fun pf _ _ _ _ _ => pf == 1

def takeN (n : Nat) (ws : List Nat) : Option (List Nat × List Nat) :=
  if ws.length < n then none else some (ws.take n, ws.drop n)

def pairs : List Nat → List (Nat × Nat)
  | a :: b :: t => (a, b) :: pairs t
  | _ => []

/-- messages: `0`=fail `1 pf n`=readResp `2 n`=stream of n bytes `3 r`=writeResp `4 pf`=verifyResp
`5 pf shape r`=freeResp `6 k b… pf r`=appendResp `7 s`=hostSig `8 k bal… s`=fundResp
`9 k (acct amt)…`=replenishResp `10 pf k r… s`=rootsResp -/
partial def parseMsgs : List Nat → Option (List M)
  | [] => some []
  | 0 :: t => do some (.fail :: (← parseMsgs t))
  | 1 :: pf :: n :: t => do some (.readResp pf n :: (← parseMsgs t))
  | 2 :: n :: t => do some (.stream (List.replicate n 0) :: (← parseMsgs t))
  | 3 :: r :: t => do some (.writeResp r :: (← parseMsgs t))
  | 4 :: pf :: t => do some (.verifyResp pf [] :: (← parseMsgs t))
  | 5 :: pf :: shape :: r :: t => do some (.freeResp pf shape r :: (← parseMsgs t))
  | 6 :: k :: t => do
      let (bs, t) ← takeN k t
      match t with
      | pf :: r :: t => some (.appendResp (bs.map (· != 0)) pf r :: (← parseMsgs t))
      | _ => none
  | 7 :: s :: t => do some (.hostSig s :: (← parseMsgs t))
  | 8 :: k :: t => do
      let (bs, t) ← takeN k t
      match t with
      | s :: t => some (.fundResp bs s :: (← parseMsgs t))
      | _ => none
  | 9 :: k :: t => do
      let (ds, t) ← takeN (2 * k) t
      some (.replenishResp (pairs ds) :: (← parseMsgs t))
  | 10 :: pf :: k :: t => do
      let (rs, t) ← takeN k t
      match t with
      | s :: t => some (.rootsResp pf rs s :: (← parseMsgs t))
      | _ => none
  | _ => none

def splitBar (ws : List String) : List String × List String :=
  (ws.takeWhile (· ≠ "|"), (ws.dropWhile (· ≠ "|")).drop 1)

def mkPrices : List Nat → Option Prices
  | [a, b, c, d, e, f] => some ⟨a, b, c, d, e, f⟩
  | _ => none

/-- `revNum renterOut hostOut missedHost filesize capacity expHeight root` -/
def mkRev : List Nat → Option (Rev Nat Nat)
  | [a, b, c, d, e, f, g, h] => some ⟨a, b, c, d, e, f, g, h, 0, some 1, some 1⟩
  | _ => none

def fmtRev (r : Rev Nat Nat) (u : Usage) : String :=
  s!"rev={r.revNum} ro={r.renterOut} ho={r.hostOut} mh={r.missedHost} fs={r.filesize} cap={r.capacity} root={r.root} cost={u.renterCost} risk={u.risked}"

def fmtRes {α} (f : α → String) : Res α → String
  | .ok a => "ok " ++ f a
  | .err => "err"
  | .crash => "crash"

def c10Step (cfg : Cfg) (ws : List String) : String :=
  let (l, r) := splitBar ws
  match l, nats? (l.drop 1), (nats? r).bind parseMsgs with
  | rpc :: _, some a, some msgs =>
    let P := verdictPrims
    match rpc with
    | "read" =>
      match a with
      | ok :: off :: len :: wc :: pr => match mkPrices pr with
        | some p => fmtRes (fun (o : List Nat × Usage) => s!"{o.1.length} cost={o.2.renterCost}")
            (rpcRead cfg P p (ok != 0) ⟨1, off, len, if wc == 0 then none else some (wc - 1)⟩ msgs)
        | none => "bad-op"
      | _ => "bad-op"
    | "write" =>
      match a with
      | ok :: dlen :: len :: pr => match mkPrices pr with
        | some p => fmtRes (fun (o : Nat × Usage) => s!"{o.1} cost={o.2.renterCost}")
            (rpcWrite P p (ok != 0) (List.replicate dlen 0) len msgs)
        | none => "bad-op"
      | _ => "bad-op"
    | "verify" =>
      match mkPrices a with
      | some p => fmtRes (fun (u : Usage) => s!"cost={u.renterCost}") (rpcVerify P p 1 0 msgs)
      | none => "bad-op"
    | "free" =>
      match takeN 8 a with
      | some (cw, t) => match takeN 6 t with
        | some (pw, k :: idx) => match mkRev cw, mkPrices pw with
          | some c, some p => if idx.length != k then "bad-op" else
              fmtRes (fun (o : Rev Nat Nat × Usage) => fmtRev o.1 o.2) (rpcFree cfg P p c idx msgs)
          | _, _ => "bad-op"
        | _ => "bad-op"
      | none => "bad-op"
    | "append" =>
      match takeN 8 a with
      | some (cw, t) => match takeN 6 t with
        | some (pw, k :: roots) => match mkRev cw, mkPrices pw with
          | some c, some p => if roots.length != k then "bad-op" else
              fmtRes (fun (o : Rev Nat Nat × Usage × List Nat) => fmtRev o.1 o.2.1 ++ s!" appended={joinNats o.2.2}")
                (rpcAppend P p c roots msgs)
          | _, _ => "bad-op"
        | _ => "bad-op"
      | none => "bad-op"
    | "fund" =>
      match takeN 8 a with
      | some (cw, k :: ds) => match mkRev cw with
        | some c => if ds.length != 2 * k then "bad-op" else
            fmtRes (fun (o : Rev Nat Nat × Usage × List (Nat × Nat)) => fmtRev o.1 o.2.1 ++ s!" balances={o.2.2.length}")
              (rpcFund P c (pairs ds) msgs)
        | none => "bad-op"
      | _ => "bad-op"
    | "repl" =>
      match a with
      | pools :: t => match takeN 8 t with
        | some (cw, target :: k :: accts) => match mkRev cw with
          | some c => if accts.length != k then "bad-op" else
              fmtRes (fun (o : Rev Nat Nat × Usage × List (Nat × Nat)) => fmtRev o.1 o.2.1 ++ s!" deposits={o.2.2.length} total={total o.2.2}")
                (rpcReplenish P (pools != 0) c accts target msgs)
          | none => "bad-op"
        | _ => "bad-op"
      | _ => "bad-op"
    | "roots" =>
      match a with
      | ok :: t => match takeN 8 t with
        | some (cw, t) => match takeN 6 t with
          | some (pw, [off, len]) => match mkRev cw, mkPrices pw with
            | some c, some p =>
              fmtRes (fun (o : Rev Nat Nat × Usage × List Nat) => fmtRev o.1 o.2.1 ++ s!" roots={joinNats o.2.2}")
                (rpcRoots cfg P p (ok != 0) c off len msgs)
            | _, _ => "bad-op"
          | _ => "bad-op"
        | none => "bad-op"
      | _ => "bad-op"
    | _ => "bad-op"
  | _, _, _ => "bad-op"

def c10Model (cfg : Cfg) : Model where
  σ := Unit
  init := fun _ => some ()
  step := fun s ws => (s, c10Step cfg ws)

def c10Models : List (String × Model) := [
  ("pinned", c10Model Cfg.pinned),
  ("fixed", c10Model Cfg.fixed)
]

end Verif.Drv
