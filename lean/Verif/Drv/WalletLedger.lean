import Verif.Drv.Runner
import Verif.Model.WalletLedger

namespace Verif.Drv
open Verif.WalletLedger

structure LedgerSt where
  blocks : List Block
  store : Store
  /-- every element id declared so far (to enumerate the store's finite map) -/
  ids : List Nat

def LedgerSt.upd (s : LedgerSt) (idx : Nat) (f : Block → Block) : LedgerSt :=
  { s with blocks := s.blocks.map fun b => if b.idx == idx then f b else b }

private def b01 (n : Nat) : Bool := n == 1

private def triples : List Nat → List TxIn
  | a :: b :: c :: l => ⟨a, b, b01 c⟩ :: triples l
  | _ => []

private def pairsVB : List Nat → List (Nat × Bool)
  | a :: b :: l => (a, b01 b) :: pairsVB l
  | _ => []

private def pairsBN : List Nat → List (Bool × Nat)
  | a :: b :: l => (b01 a, b) :: pairsBN l
  | _ => []

private def kindStr : Kind → String
  | .miner => "miner" | .foundation => "foundation" | .claim => "siafundClaim" | .v1txn => "v1Transaction"
  | .v1res => "v1ContractResolution" | .v2txn => "v2Transaction" | .v2res => "v2ContractResolution"

private def insSorted (n : Nat) : List Nat → List Nat
  | [] => [n]
  | m :: l => if n < m then n :: m :: l else if n = m then m :: l else m :: insSorted n l

def ledgerStep (s : LedgerSt) (ws : List String) : LedgerSt × String :=
  match ws with
  | cmd :: rest =>
    match nats? rest with
    | none => (s, "bad-op")
    | some ns =>
      match cmd, ns with
      | "blk", [idx, parent, height, fid] =>
        ({ s with blocks := s.blocks ++ [⟨idx, parent, height, [], [], [], [], [], fid⟩] }, "ok")
      | "d", [idx, id, v, m, own, cr, sp] =>
        ({ s.upd idx (fun b => { b with diffs := b.diffs ++ [⟨⟨id, v, m, b01 own⟩, b01 cr, b01 sp⟩] }) with
            ids := insSorted id s.ids }, "ok")
      | "t", idx :: txid :: v2 :: nin :: nout :: _nsf :: l =>
        let ins := triples (l.take (3 * nin))
        let outs := pairsVB ((l.drop (3 * nin)).take (2 * nout))
        let sf := (pairsBN (l.drop (3 * nin + 2 * nout))).map fun p => (⟨p.1, p.2⟩ : SfIn)
        (s.upd idx (fun b => { b with txns := b.txns ++ [⟨txid, b01 v2, ins, outs, sf⟩] }), "ok")
      | "r1", idx :: l => (s.upd idx (fun b => { b with res1 := b.res1 ++ [⟨pairsBN l⟩] }), "ok")
      | "r2", [idx, h, r] => (s.upd idx (fun b => { b with res2 := b.res2 ++ [⟨h, r⟩] }), "ok")
      | "m", idx :: l => (s.upd idx (fun b => { b with miners := b.miners ++ pairsBN l }), "ok")
      | "apply", [idx] =>
        match s.blocks.find? (·.idx == idx) with
        | some b =>
          -- the hypothesis of the balance theorems is checked on every real block: a block whose
          -- contents and diffs are not coherent answers "incoherent" (the harness expects "ok")
          ({ s with store := s.store.apply b }, if coherent b then "ok" else "incoherent")
        | none => (s, "no-block")
      | "revert", [idx] =>
        match s.blocks.find? (·.idx == idx) with
        | some b => ({ s with store := s.store.revert b }, "ok")
        | none => (s, "no-block")
      | "chunk", [] =>
        let us := s.ids.filter fun id => (s.store.utxos id).isSome
        (s, s!"tip {s.store.tip} u {joinNats us} e {joinNats (s.store.events.map (·.id))}")
      | "dump", [] =>
        let us := s.ids.filterMap fun id => (s.store.utxos id).map fun u =>
          s!" {id}:{u.value}:{u.maturity}:{boolStr (u.basis == s.store.tip)}"
        let es := s.store.events.map fun e =>
          s!" {e.id}:{kindStr e.kind}:{e.inflow}:{e.outflow}:{e.maturity}:{e.idx}"
        (s, "u" ++ String.join us ++ " e" ++ String.join es)
      | _, _ => (s, "bad-op")
  | [] => (s, "bad-op")

def ledgerModel : Model where
  σ := LedgerSt
  init := fun _ => some ⟨[], Store.init, []⟩
  step := ledgerStep

def ledgerModels : List (String × Model) := [("std", ledgerModel)]

end Verif.Drv
