/-
Line-protocol driver for the RHP4 host model (C08, C09, C15).  `#case rhp host <hostKey> <now> <tip>`.

Words (sub-fields `:`; lists `,`; `-` = empty list):
  sig      z | x | h (honest: what the honest renter would sign here) | c:<key>:<cid>:<n>
           | q:<key>:<cid>:<n>:<target>:<accts> | b:<key>:<body>
  body     rev:renterOut:hostOut:missed:totalColl:filesize:capacity:proofH:expH:renterKey:hostKey:<root>
  root     m<ids>  (MetaRoot of the list; `m` = empty)  |  o<n>  (some other hash)
  prices   <8 fields>/<ps>      ps = s<key> (signed by key over exactly these fields) | o<key> (over
           other fields) | z | x
  token    <hostKey>:<account>:<validUntil>/<ps>
  link     <account>:<pool>:<validUntil>/<ps>
Operations: see `parseOp`.  Nothing here is used by a theorem; the functions called (`stepOp`,
`normalize`, `freeBatch`, `revise*`) are the ones the theorems are about.
-/
import Verif.Drv.Runner
import Verif.Model.Rhp

namespace Verif.Drv.Rhp4
open Verif.Rhp Verif.Drv

def splitC (s : String) (c : Char) : List String := s.splitOn (String.singleton c)

def natList? (s : String) : Option (List Nat) :=
  if s == "-" || s == "" then some [] else (splitC s ',').mapM nat?

def parseRoot (s : String) : Option H :=
  if s.startsWith "m" then (natList? (s.drop 1).toString).map metaRoot
  else if s.startsWith "o" then (nat? (s.drop 1).toString).map H.opaque
  else none

def parseBodyFields : List String → Option Body
  | [rev, ro, ho, mi, tc, fs, cap, ph, eh, rk, hk, root] => do
    some { rev := ← nat? rev, renterOut := ← nat? ro, hostOut := ← nat? ho, missedHost := ← nat? mi,
           totalColl := ← nat? tc, filesize := ← nat? fs, capacity := ← nat? cap, proofHeight := ← nat? ph,
           expHeight := ← nat? eh, renterKey := ← nat? rk, hostKey := ← nat? hk, root := ← parseRoot root }
  | _ => none

def parseBody (s : String) : Option Body := parseBodyFields (splitC s ':')

/-- a signature word; `honest` is what `h` stands for at this position -/
def parseSig (honest : Sig) (s : String) : Option Sig :=
  match splitC s ':' with
  | ["z"] => some .zero
  | ["x"] => some .bad
  | ["h"] => some honest
  | ["c", k, cid, n] => do some (.mk (← nat? k) (.challenge (← nat? cid) (← nat? n)))
  | ["q", k, cid, n, target, accts] => do
    some (.mk (← nat? k) (.replChallenge (← natList? accts) (← nat? target) (← nat? cid) (← nat? n)))
  | "b" :: k :: body => do some (.mk (← nat? k) (.contract (← parseBodyFields body)))
  | _ => none

def parsePS (s : String) (same other : Msg) : Option Sig :=
  if s == "z" then some .zero
  else if s == "x" then some .bad
  else if s.startsWith "s" then (nat? (s.drop 1).toString).map (Sig.mk · same)
  else if s.startsWith "o" then (nat? (s.drop 1).toString).map (Sig.mk · other)
  else none

def parsePrices (s : String) : Option Prices :=
  match splitC s '/' with
  | [fs, ps] =>
    match splitC fs ':' with
    | [a, b, c, d, e, f, g, v] => do
      let a ← nat? a; let b ← nat? b; let c ← nat? c; let d ← nat? d
      let e ← nat? e; let f ← nat? f; let g ← nat? g; let v ← nat? v
      let p : PriceFields := {
        contractPrice := a, collateral := b, storage := c,
        ingress := d, egress := e, freeSector := f, tipHeight := g, validUntil := v }
      let sig ← parsePS ps (.prices p) (.prices { p with contractPrice := p.contractPrice + 1 })
      some { f := p, sig }
    | _ => none
  | _ => none

def parseToken (s : String) : Option Token :=
  match splitC s '/' with
  | [fs, ps] =>
    match splitC fs ':' with
    | [hk, a, vu] => do
      let hk ← nat? hk; let a ← nat? a; let vu ← nat? vu
      let sig ← parsePS ps (.token hk a vu) (.token hk a (vu + 1))
      some { hostKey := hk, account := a, validUntil := vu, sig }
    | _ => none
  | _ => none

def parseLink (hostKey : Nat) (isAttach : Bool) (s : String) : Option Link :=
  match splitC s '/' with
  | [fs, ps] =>
    match splitC fs ':' with
    | [a, p, vu] => do
      let a ← nat? a; let p ← nat? p; let vu ← nat? vu
      let mk := fun (v : Nat) => if isAttach then Msg.attach hostKey a p v else Msg.detach hostKey a p v
      -- `o<key>`: a signature over the *other* kind of link (attach vs detach domain separation)
      let other := if isAttach then Msg.detach hostKey a p vu else Msg.attach hostKey a p vu
      let sig ← parsePS ps (mk vu) other
      some { account := a, pool := p, validUntil := vu, sig }
    | _ => none
  | _ => none

def parseDeposits (s : String) : Option (List (Nat × Nat)) :=
  if s == "-" then some [] else
  (splitC s ',').mapM fun w => match splitC w '=' with
    | [a, v] => do some (← nat? a, ← nat? v)
    | _ => none

/-! ### what the honest renter signs -/

def renterKeyOf (h : Host) (cid : Nat) : Nat := ((h.contracts cid).map (·.c.body.renterKey)).getD 0
def revOf (h : Host) (cid : Nat) : Nat := ((h.contracts cid).map (·.c.body.rev)).getD 0

def honestChallenge (h : Host) (cid : Nat) : Sig := .mk (renterKeyOf h cid) (.challenge cid (revOf h cid + 1))

def honestBodySig (h : Host) (cid : Nat) (f : CState → Option Body) : Sig :=
  match h.contracts cid with
  | none => .bad
  | some cs => match f cs with
    | none => .bad
    | some b => .mk cs.c.body.renterKey (.contract b)

def honestFreeSig (h : Host) (cid : Nat) (p : Prices) (is : List Nat) : Sig :=
  honestBodySig h cid fun cs => reviseFree cs.c.body p.f (metaRoot (freeBatch cs.roots is)) is.length

def honestAppendSig (h : Host) (cid : Nat) (p : Prices) (sectors : List Nat) : Sig :=
  honestBodySig h cid fun cs =>
    let acc := acceptedRoots h sectors
    reviseAppend cs.c.body p.f (metaRoot (cs.roots ++ acc)) acc.length

def honestRootsSig (h : Host) (cid : Nat) (p : Prices) (len : Nat) : Sig :=
  honestBodySig h cid fun cs => reviseRoots cs.c.body p.f len

def honestFundSig (h : Host) (cid : Nat) (amount : Nat) : Sig :=
  honestBodySig h cid fun cs => reviseFund cs.c.body amount

def honestReplSig (h : Host) (pool : Bool) (cid : Nat) (accounts : List Nat) (target : Nat) : Sig :=
  let bal := if pool then poolBal h.pools else h.accounts
  honestFundSig h cid (depositTotal (replenishDeposits bal target accounts))

/-- `abort`: the renter half-closes instead of sending (and reads the host's verdict); `drop`: it
closes the stream; `<sig>!`: it sends the signature and closes without reading the answer (the
last two are rendered as `dropped` by `rhpHost.step`) -/
def parseSecond (honest : Sig) (s : String) : Option (Option Sig) :=
  if s == "abort" || s == "drop" then some none
  else if s.endsWith "!" then (parseSig honest (s.dropEnd 1).toString).map some
  else (parseSig honest s).map some

/-! ### operations -/

inductive Line where
  | op (o : Op)
  | obs (items : List String)

def parseOp (h : Host) : List String → Option Line
  | ["garbage"] => some (.op (.rpc .garbage))
  | ["latest", cid] => do some (.op (.rpc (.latest (← nat? cid))))
  | ["balance", a] => do some (.op (.rpc (.balance (← nat? a))))
  | ["read", p, t, root, off, len] => do
    some (.op (.rpc (.read (← parsePrices p) (← parseToken t) (← nat? root) (← nat? off) (← nat? len))))
  | ["write", p, t, len, data] => do
    let d ← if data == "-" then some none else (nat? data).map some
    some (.op (.rpc (.write (← parsePrices p) (← parseToken t) (← nat? len) d)))
  | ["verify", p, t, root, leaf] => do
    some (.op (.rpc (.verify (← parsePrices p) (← parseToken t) (← nat? root) (← nat? leaf))))
  | ["free", cid, p, chal, is, second] => do
    let cid ← nat? cid; let p ← parsePrices p; let is ← natList? is
    let chal ← parseSig (honestChallenge h cid) chal
    let second ← parseSecond (honestFreeSig h cid p is) second
    some (.op (.rpc (.free cid p chal is second)))
  | ["cfree", cid, p, is] => do
    -- the real client: normalise, then behave honestly (`rpc.go:590-657`)
    let cid ← nat? cid; let p ← parsePrices p; let is := normalize (← natList? is)
    some (.op (.rpc (.free cid p (honestChallenge h cid) is (some (honestFreeSig h cid p is)))))
  | ["append", cid, p, chal, sectors, second] => do
    let cid ← nat? cid; let p ← parsePrices p; let sectors ← natList? sectors
    let chal ← parseSig (honestChallenge h cid) chal
    let second ← parseSecond (honestAppendSig h cid p sectors) second
    some (.op (.rpc (.append cid p chal sectors second)))
  | ["roots", cid, p, off, len, sig] => do
    let cid ← nat? cid; let p ← parsePrices p; let len ← nat? len
    some (.op (.rpc (.roots cid p (← nat? off) len (← parseSig (honestRootsSig h cid p len) sig))))
  | ["fund", cid, ds, sig] => do
    let cid ← nat? cid; let ds ← parseDeposits ds
    some (.op (.rpc (.fund cid ds (← parseSig (honestFundSig h cid (depositTotal ds)) sig))))
  | ["repl", kind, cid, accts, target, chal, second] => do
    let pool := kind == "p"
    let cid ← nat? cid; let accts ← natList? accts; let target ← nat? target
    let chal ← parseSig (.mk (renterKeyOf h cid) (.replChallenge accts target cid (revOf h cid))) chal
    let second ← parseSecond (honestReplSig h pool cid accts target) second
    some (.op (.rpc (.replenish pool cid accts target chal second)))
  | "attach" :: ls => do some (.op (.rpc (.attach (← ls.mapM (parseLink h.hostKey true)))))
  | "detach" :: ls => do some (.op (.rpc (.detach (← ls.mapM (parseLink h.hostKey false)))))
  | ["tip", n] => do some (.op (.tip (← nat? n)))
  | ["time", n] => do some (.op (.time (← nat? n)))
  | ["sector", r] => do some (.op (.sector (← nat? r)))
  | ["sectorerr", r, b] => do some (.op (.sectorErr (← nat? r) (b == "1")))
  | ["form", cid, body, rk, hk] => do
    let b ← parseBody body
    some (.op (.form (← nat? cid) { body := b, renterSig := .mk (← nat? rk) (.contract b), hostSig := .mk (← nat? hk) (.contract b) }))
  | ["renew", cid, newcid, body, rk, hk] => do
    let b ← parseBody body
    some (.op (.renew (← nat? cid) (← nat? newcid)
      { body := b, renterSig := .mk (← nat? rk) (.contract b), hostSig := .mk (← nat? hk) (.contract b) }))
  | "obs" :: items => some (.obs items)
  | _ => none

def fmtCls : Cls → String
  | .ok => "ok" | .badreq => "badreq" | .decoding => "decoding"
  | .payment => "payment" | .hosterr => "hosterr" | .io => "io"

def fmtEv : Ev → String
  | .has r => s!"has:{r}"
  | .debit a c ok => s!"debit:{a}:{c}:{boolStr ok}"
  | .read r o l => s!"read:{r}:{o}:{l}"
  | .store r => s!"store:{r}"
  | .revise c => s!"revise:{c}"
  | .credit p c => s!"credit:{if p then "p" else "a"}:{c}"
  | .attach n => s!"attach:{n}"
  | .detach n => s!"detach:{n}"

def commaNats (l : List Nat) : String := ",".intercalate (l.map toString)

def fmtOut (o : Out) (evs : List Ev) (dropped : Bool) : String :=
  let e := evs.map fmtEv
  " ".intercalate ([if dropped then "dropped" else fmtCls o.cls, "[" ++ commaNats o.vals ++ "]"] ++ e)

/-- driver-only: put the model into a given state at the start of a self-contained case -/
def adoptOp (h : Host) : List String → Option Host
  | ["adopt", cid, body, rk, hk, roots, renewed] => do
    let b ← parseBody body
    let c : Contract := { body := b, renterSig := .mk (← nat? rk) (.contract b), hostSig := .mk (← nat? hk) (.contract b) }
    some { h with contracts := upd h.contracts (← nat? cid) (some { c := c, roots := ← natList? roots, renewed := renewed == "1" }) }
  | ["acct", a, v] => do some { h with accounts := upd h.accounts (← nat? a) (← nat? v) }
  | ["pool", p, v] => do
    let v ← if v == "none" then some none else (nat? v).map some
    some { h with pools := upd h.pools (← nat? p) v }
  | ["att", a, l] => do some { h with attached := upd h.attached (← nat? a) (← natList? l) }
  | _ => none

def fmtContract (h : Host) (cid : Nat) : String :=
  match h.contracts cid with
  | none => s!"c{cid}=none"
  | some cs =>
    let b := cs.c.body
    let rootOk := metaRoot cs.roots == b.root && cs.roots.length == b.filesize
    let rs := verify b.renterKey (.contract b) cs.c.renterSig
    let hs := verify b.hostKey (.contract b) cs.c.hostSig
    s!"c{cid}={b.rev}:{b.renterOut}:{b.hostOut}:{b.missedHost}:{b.totalColl}:{b.filesize}:{b.capacity}:{b.proofHeight}:{b.expHeight}:{b.renterKey}:{b.hostKey}:{boolStr rootOk}:{boolStr rs}:{boolStr hs}:{boolStr cs.renewed}:[{commaNats cs.roots}]"

def fmtObs (h : Host) (item : String) : String :=
  let n := (nat? (item.drop 1).toString).getD 0
  if item.startsWith "c" then fmtContract h n
  else if item.startsWith "a" then s!"a{n}={h.accounts n}"
  else if item.startsWith "p" then s!"p{n}={poolBal h.pools n}"
  else if item.startsWith "t" then s!"t{n}=[{commaNats (h.attached n)}]"
  else if item.startsWith "s" then s!"s{n}={boolStr (h.sectors n)}"
  else "bad-obs"

/-! ### keeping the state flat

The model's state is made of functions (`Nat → …`) and functions returning functions
(`creditAccounts`, `drainPools`, …) compile to closures that are re-evaluated at every lookup, so a
history of n updates would cost 2^n.  After every operation the driver therefore replaces each
state function by a finite table over the identifiers seen so far in the case — the same function
on every key any later line can mention.  This is driver plumbing only. -/

def tableOf {α} (dflt : α) (l : List (Nat × α)) : Nat → α := fun x => (l.lookup x).getD dflt

def flatten (ks : List Nat) (h : Host) : Host :=
  { h with contracts := tableOf none (ks.map fun k => (k, h.contracts k)),
           accounts := tableOf 0 (ks.map fun k => (k, h.accounts k)),
           pools := tableOf none (ks.map fun k => (k, h.pools k)),
           attached := tableOf [] (ks.map fun k => (k, h.attached k)),
           sectors := tableOf false (ks.map fun k => (k, h.sectors k)),
           sectorErr := tableOf false (ks.map fun k => (k, h.sectorErr k)) }

/-- every small natural written anywhere in a line (identifiers are small; amounts and times that
happen to be small only add harmless keys) -/
def lineKeys (ws : List String) : List Nat :=
  let digits := fun (w : String) => (w.map fun c => if c.isDigit then c else ' ')
  (ws.flatMap fun w => (words (digits w)).filterMap nat?).filter (· < 200000)

def addKeys (ks new : List Nat) : List Nat :=
  new.foldl (fun acc k => if acc.contains k then acc else k :: acc) ks

/-- `replq …` (same words as `repl …`): the two-round replenish RPC seen from the host while other
streams are served in between — the handler decides (quote, checks, revision) on the state at the
time of the request and the contract stays locked; the answer is printed now, the effect is kept.
`replc` applies the kept effect to the state as it is by then (`apply`, the same function the
theorems are about; cf. `C08.replenish_credits_the_quote`). -/
def rhpHost : Model where
  σ := Host × List Nat × Effect
  init := fun ws => match ws with
    | [hk, now, tip] => do some (Host.init (← nat? hk) (← nat? now) (← nat? tip), [], .none)
    | _ => none
  step := fun (h, ks, pend) ws =>
    let ks := addKeys ks (lineKeys ws)
    match ws with
    | "replq" :: rest =>
      match parseOp h ("repl" :: rest) with
      | some (.op (.rpc r)) =>
        let d := Rhp.decide h r
        let last := ws.getLast?.getD ""
        ((h, ks, d.eff), fmtOut d.out d.evs (last == "drop" || last.endsWith "!"))
      | _ => ((h, ks, pend), "bad-op")
    | ["replc"] => ((flatten ks (apply h pend), ks, .none), "ok")
    | _ =>
    match adoptOp h ws with
    | some h' => ((flatten ks h', ks, pend), "ok")
    | none =>
    match parseOp h ws with
    | none => ((h, ks, pend), "bad-op")
    | some (.obs items) => ((h, ks, pend), " ".intercalate (items.map (fmtObs h)))
    | some (.op o) =>
      let (h', out, evs) := stepOp h o
      let last := ws.getLast?.getD ""
      ((flatten ks h', ks, pend), fmtOut out evs (last == "drop" || last.endsWith "!"))

/-- the client-side normalisation alone (`rpc.go:596-600`) and the list functions, for the
exhaustive list-level correspondence of C09 -/
def rhpLists : Model where
  σ := Unit
  init := fun _ => some ()
  step := fun _ ws =>
    match ws with
    | ["normalize", is] => ((), match natList? is with | some l => commaNats (normalize l) | none => "bad-op")
    | ["freebatch", rs, is] =>
      ((), match natList? rs, natList? is with
        | some r, some i => commaNats (freeBatch r i)
        | _, _ => "bad-op")
    | ["swapseq", rs, is] =>
      ((), match natList? rs, natList? is with
        | some r, some i => commaNats (i.foldl swapRemove r)
        | _, _ => "bad-op")
    | _ => ((), "bad-op")

end Verif.Drv.Rhp4

namespace Verif.Drv

def rhpModels : List (String × Model) := [
  ("host", Rhp4.rhpHost),
  ("lists", Rhp4.rhpLists)
]

end Verif.Drv
