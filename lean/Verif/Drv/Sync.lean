import Verif.Drv.Runner
import Verif.Model.Sync

/-!
Line-protocol driver for M10 (family `sync`).

`#case sync gate <requireHeight> <perReq>` — the syncer's gates against one peer:
  `blk id parent cid height work diff pow hdr orphan body v2 future`   → `ok`
  `have b1 … bk`         the node's best chain above genesis, oldest first      → `tip t`
  `add b1 … bk`          `Manager.AddBlocks` directly                          → `err e tip t`
  `sync H… B…`           one `syncLoop` iteration; `H` = `h:eof | h:err | h:<remaining>:<id,id,…>`,
                         `B` = `b:<cp>:<blocks>` with `<cp>` = `-` or `<blk>.<isV2><onePayout><commitOk><genuine>[<noV1>]`
                         and `<blocks>` = `-` (RPC failed) or `id,id,…` (`e` = empty list)
                                                                                → `dec d tip t synced s asked id,… reqs k` (`reqs -` after a ban)
  `rhdr h`               `RelayV2Header`                                       → `dec d`
  `rout b m`             `RelayV2BlockOutline`, `m` ∈ complete|fetchfail|wrong|fetched → `dec d tip t`
  `rtxn k e a v`         `RelayV2TransactionSet`                               → `dec d`
`#case sync gossip` — the abstract gossip system:
  `blk …` as above; `nodes t0 t1 …`; `edge i j` (both directions) → `ok`
  `final`                → `tips t0 t1 …` (after enough rounds) in the decisive class, `neartie` otherwise
-/
namespace Verif.Drv.SyncD
open Verif.Sync Verif.Drv

structure SyncSt where
  blks : List (Nat × Blk) := []
  cfg : Cfg := ⟨0, 100⟩
  node : Node := Node.init
  tips : List Nat := []
  edges : List (Nat × Nat) := []

def genesisBlk : Blk := ⟨0, 0, 0, 0, 0, true, true, true, true, false, false⟩
def noBlk : Blk := ⟨0, 0, 0, 0, 0, false, false, false, false, false, false⟩

def SyncSt.U (s : SyncSt) : Univ := fun i =>
  match s.blks.lookup i with
  | some b => b
  | none => if i = 0 then genesisBlk else noBlk

def b01 (n : Nat) : Bool := n != 0

def decStr : Dec → String
  | .apply => "apply" | .ignore => "ignore" | .drop => "drop" | .resync => "resync" | .ban => "ban"

def errStr : Option AddErr → String
  | none => "ok"
  | some .missingParent => "missing-parent"
  | some .future => "future"
  | some .invalid => "invalid"
  | some .reorg => "reorg-failed"
  | some .notV2 => "not-v2"

def idList? (s : String) : Option (List Nat) :=
  if s = "e" || s = "" then some [] else ((s.splitOn ",").filter (· ≠ "")).mapM nat?

def commaNats (l : List Nat) : String := if l.isEmpty then "e" else ",".intercalate (l.map toString)

def parseH (w : String) : Option HResp :=
  match w.splitOn ":" with
  | ["h", "eof"] => some .eof
  | ["h", "err"] => some .err
  | ["h", r, ids] => do some (.hdrs (← idList? ids) (← nat? r))
  | _ => none

def flag (s : String) (i : Nat) : Bool := (s.toList.getD i '0') == '1'

def parseCp (w : String) : Option (Option CpResp) :=
  if w = "-" then some none else
  match w.splitOn "." with
  | [b, f] => do some (some ⟨← nat? b, flag f 0, flag f 1, flag f 2, flag f 3, f.length < 5 || flag f 4⟩)
  | _ => none

def parseB (w : String) : Option BResp :=
  match w.splitOn ":" with
  | ["b", cp, bl] => do
      let c ← parseCp cp
      let l ← if bl = "-" then some none else (idList? bl).map some
      some ⟨c, l⟩
  | _ => none

def parseMissing : String → Option Missing
  | "complete" => some .complete
  | "fetchfail" => some .fetchFail
  | "wrong" => some .wrong
  | "fetched" => some .fetched
  | _ => none

def parseBlk (ws : List Nat) : Option (Nat × Blk) :=
  match ws with
  | [id, parent, cid, height, work, diff, pow, hdr, orphan, body, v2, future] =>
    some (id, ⟨parent, cid, height, work, diff, b01 pow, b01 hdr, b01 orphan, b01 body, b01 v2, b01 future⟩)
  | _ => none

/-- is some tip present sufficiently heavier than every other tip present? -/
def decisive (U : Univ) (tips : List Nat) : Bool :=
  tips.any fun c => tips.all fun t => t == c || heavier U c t

def syncStep (s : SyncSt) (ws : List String) : SyncSt × String :=
  match ws with
  | "blk" :: rest =>
    match (nats? rest).bind parseBlk with
    | some (id, b) => ({ s with blks := (id, b) :: s.blks }, "ok")
    | none => (s, "bad-op")
  | "have" :: rest =>
    match nats? rest with
    | some ids =>
      let best := ids.reverse ++ [0]
      let n : Node := ⟨best, best, best⟩
      ({ s with node := n }, s!"tip {n.tip}")
    | none => (s, "bad-op")
  | "add" :: rest =>
    match nats? rest with
    | some ids =>
      let r := addBlocks s.U s.node ids
      ({ s with node := r.1 }, s!"err {errStr r.2} tip {r.1.tip}")
    | none => (s, "bad-op")
  | "sync" :: rest =>
    let hs := rest.filterMap parseH
    let bs := rest.filterMap parseB
    if hs.length + bs.length != rest.length then (s, "bad-op") else
    let r := stepSync s.U s.cfg s.node hs bs
    ({ s with node := r.1 },
      -- after a ban the implementation may already have issued later requests (blocks are fetched
      -- while earlier batches are applied): the count is not compared then
      let reqs := if r.2.dec = .ban then "-" else toString r.2.reqs
      s!"dec {decStr r.2.dec} tip {r.1.tip} synced {boolStr r.2.synced} asked {commaNats r.2.asked} reqs {reqs}")
  | ["rhdr", h] =>
    match nat? h with
    | some h => (s, s!"dec {decStr (gateRelayHeader s.U s.cfg s.node h)}")
    | none => (s, "bad-op")
  | ["rout", b, m] =>
    match nat? b, parseMissing m with
    | some b, some m =>
      let r := stepOutline s.U s.node b m
      ({ s with node := r.1 }, s!"dec {decStr r.2} tip {r.1.tip}")
    | _, _ => (s, "bad-op")
  | ["rtxn", k, e, a, v] =>
    match nats? [k, e, a, v] with
    | some [k, e, a, v] => (s, s!"dec {decStr (gateRelayTxns (b01 k) (b01 e) (b01 a) (b01 v))}")
    | _ => (s, "bad-op")
  | "nodes" :: rest =>
    match nats? rest with
    | some ts => ({ s with tips := ts }, "ok")
    | none => (s, "bad-op")
  | ["edge", i, j] =>
    match nat? i, nat? j with
    | some i, some j => ({ s with edges := (i, j) :: (j, i) :: s.edges }, "ok")
    | _, _ => (s, "bad-op")
  | ["final"] =>
    if decisive s.U s.tips then
      let t := gossipRounds s.U s.edges.reverse (s.tips.length + 1) s.tips
      (s, "tips " ++ joinNats t)
    else (s, "neartie")
  | _ => (s, "bad-op")

def syncGate : Model where
  σ := SyncSt
  init := fun args =>
    match nats? args with
    | some [req, per] => some { cfg := ⟨req, per⟩ }
    | _ => none
  step := syncStep

def syncGossip : Model where
  σ := SyncSt
  init := fun _ => some {}
  step := syncStep

def syncModels : List (String × Model) := [("gate", syncGate), ("gossip", syncGossip)]

end Verif.Drv.SyncD

namespace Verif.Drv
def syncModels : List (String × Model) := SyncD.syncModels
end Verif.Drv
