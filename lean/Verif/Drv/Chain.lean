import Verif.Drv.Runner
import Verif.Model.Chain
import Verif.Model.ChainF
import Verif.Model.ChainFF
import Verif.Model.Ancestor

namespace Verif.Drv
open Verif.Chain

structure ChainSt where
  U : Nat → Blk
  m : Mgr
  nblk : Nat
  /-- which stored states are complete (`Model/ChainF.lean`); the chain part of the F-model is
  `m` (erasure lemmas in `Lemmas/ChainF.lean`), so it is carried alongside, not instead -/
  full : Nat → Bool := fun i => i = 0

def errStr : Option Err → String
  | none => "ok"
  | some .missingParent => "missing-parent"
  | some .future => "future"
  | some .invalidHeader => "invalid-header"
  | some .reorgFailed => "reorg-failed"
  | some .rollbackFailed => "rollback-failed"
  | some .panic => "panic"
  | some .lenMismatch => "len-mismatch"
  | some .notV2 => "not-v2"

def mgrLine (res : String) (m : Mgr) : String :=
  s!"{res} tip {m.tip} n {m.notified} best {joinNats m.best}"

def b01 (s : String) : Bool := s == "1"

def updStr : Upd → String
  | .revert i => s!"r{i}"
  | .apply i => s!"a{i}"

def chainStep (s : ChainSt) (ws : List String) : ChainSt × String :=
  match ws with
  | ["blk", id, parent, height, work, diff, hdrOk, bodyOk, fut, v2] =>
    match nats? [id, parent, height, work, diff] with
    | some [id, parent, height, work, diff] =>
      let b : Blk := ⟨parent, height, work, diff, b01 hdrOk, b01 bodyOk, b01 fut, b01 v2⟩
      ({ s with U := upd s.U id b, nblk := s.nblk + 1 }, "ok")
    | _ => (s, "bad-op")
  | "add" :: ids =>
    match nats? ids with
    | some ids =>
      let (m', e) := addBlocks s.U s.m ids
      ({ s with m := m', full := (addBlocksF s.U ⟨s.m, s.full⟩ ids).1.full }, mgrLine (errStr e) m')
    | none => (s, "bad-op")
  | "addff" :: ids =>     -- AddBlocks while the first store Flush it reaches fails (Model/ChainFF.lean)
    match nats? ids with
    | some ids =>
      let (m', e) := addBlocksFF s.U s.m ids
      ({ s with m := m', full := (addBlocksFFF s.U ⟨s.m, s.full⟩ ids).1.full }, mgrLine (errStr e) m')
    | none => (s, "bad-op")
  | "addv2" :: n :: ids =>
    match nat? n, nats? ids with
    | some n, some ids =>
      let (m', e) := addValidatedV2 s.U s.m ids n
      ({ s with m := m', full := (addValidatedV2F s.U ⟨s.m, s.full⟩ ids n).1.full }, mgrLine (errStr e) m')
    | _, _ => (s, "bad-op")
  | ["prune", h] =>
    match nat? h with
    | some h => let m' := prune s.m h; ({ s with m := m' }, mgrLine "ok" m')
    | none => (s, "bad-op")
  | "full" :: ids =>
    match nats? ids with
    | some ids => (s, "full" ++ String.join ((ids.filter fun i => s.full i).map fun i => " " ++ toString i))
    | none => (s, "bad-op")
  | ["anc", depth, id] =>
    match nat? depth, nat? id with
    | some d, some i => (s, toString (ancestorOf s.U s.m d i))
    | _, _ => (s, "bad-op")
  | ["minreorg"] => (s, toString (minReorgIndex s.m))
  | ["history"] => (s, joinNats (history s.m))
  | ["rec", id] =>
    match nat? id with
    | some i =>
      let r := s.m.recs i
      (s, s!"hdr {boolStr r.isSome} body {boolStr (s.m.block i).isSome} supp {boolStr (s.m.block i == some true)} state {boolStr (s.m.states i)}")
    | none => (s, "bad-op")
  | ["updates", idx, max] =>
    let idx? : Option (Option Nat) := if idx == "-" then some none else (nat? idx).map some
    match idx?, nat? max with
    | some idx, some max =>
      match updatesSince s.U s.m (2 * s.nblk + 4) idx max [] with
      | .ok us => (s, "ok" ++ String.join (us.map fun u => " " ++ updStr u))
      | .error _ => (s, "err")
    | _, _ => (s, "bad-op")
  | _ => (s, "bad-op")

def chainModel : Model where
  σ := ChainSt
  init := fun _ => some { U := fun _ => default, m := Mgr.init, nblk := 0 }
  step := chainStep

def chainModels : List (String × Model) := [("mgr", chainModel)]

end Verif.Drv
