import Verif.Drv.Runner
import Verif.Model.Pool

/-!
Line-protocol driver of the pool model (family `pool`).  Grammar of the operands
(all tokens are naturals unless stated):

  TXN   := id ok era fee weight nin (elem leaf bad)^nin nout out^nout      leaf = `-` | nat
  TXL   := n TXN^n
  PAIRS := n (elem leaf)^n
  PATH  := nr blk^nr na blk^na
  BASIS := `u` | `k` PATH

The driver keeps the table of declared blocks; everything else is the model's state.
-/
namespace Verif.Drv
open Verif.Pool

structure PoolSt where
  cfg : Cfg
  p : Pool
  blks : List (Nat × Blk)

abbrev PP := StateT (List String) Option

def tok : PP String := fun ws => match ws with
  | [] => none
  | w :: ws => some (w, ws)

def pNat : PP Nat := do let w ← tok; (nat? w : Option Nat)

def pBool : PP Bool := do let n ← pNat; pure (n != 0)

def pLeaf : PP (Option Nat) := do
  let w ← tok
  if w == "-" then pure none else match nat? w with
    | some n => pure (some n)
    | none => failure

def pRep {α} (p : PP α) : Nat → PP (List α)
  | 0 => pure []
  | n + 1 => do let a ← p; let r ← pRep p n; pure (a :: r)

def pList {α} (p : PP α) : PP (List α) := do let n ← pNat; pRep p n

def pInp : PP Inp := do
  let e ← pNat; let l ← pLeaf; let b ← pBool
  pure ⟨e, l, b⟩

def pTxn : PP Txn := do
  let id ← pNat; let ok ← pBool; let era ← pNat; let fee ← pNat; let weight ← pNat
  let ins ← pList pInp
  let outs ← pList pNat
  pure { id, ok, era, fee, weight, inputs := ins, outputs := outs }

def pPair : PP (Nat × Nat) := do let a ← pNat; let b ← pNat; pure (a, b)

def pEnd : PP Unit := fun ws => match ws with
  | [] => some ((), [])
  | _ => none

def pBlks (tbl : List (Nat × Blk)) : PP (List Blk) := do
  let is ← pList pNat
  match is.mapM (fun i => tbl.lookup i) with
  | some bs => pure bs
  | none => failure

def pPath (tbl : List (Nat × Blk)) : PP (List Blk × List Blk) := do
  let r ← pBlks tbl; let a ← pBlks tbl; pure (r, a)

def pBasis (tbl : List (Nat × Blk)) : PP (Option (List Blk × List Blk)) := do
  let w ← tok
  if w == "u" then pure none
  else if w == "k" then do let p ← pPath tbl; pure (some p)
  else failure

def leafShort : Option Nat → String
  | none => "e"
  | some l => toString l

def v2Short (t : Txn) : String :=
  s!"{t.id}:" ++ ",".intercalate (t.inputs.map fun i => leafShort i.leaf)

def idsStr (ts : List Txn) : String := String.join (ts.map fun t => s!" {t.id}")

def v2ListStr (ts : List Txn) : String := String.join (ts.map fun t => " " ++ v2Short t)

def resStr : Res → String
  | .ok => "ok" | .known => "known" | .err => "err" | .panic => "panic"

def run {α} (p : PP α) (ws : List String) : Option α :=
  match (do let a ← p; pEnd; pure a : PP α) ws with
  | some (a, _) => some a
  | none => none

def poolStep (s : PoolSt) (ws : List String) : PoolSt × String :=
  match ws with
  | "genesis" :: rest =>
    match run (do let la ← pNat; let ps ← pList pPair; pure (la, ps)) rest with
    | some (la, ps) => ({ s with p := Pool.init ⟨ps, la, 0⟩ }, "ok")
    | none => (s, "bad-op")
  | "blk" :: rest =>
    match run (do
        let id ← pNat; let h ← pNat; let lb ← pNat; let la ← pNat
        let t1 ← pList pTxn; let t2 ← pList pTxn
        let sp ← pList pPair; let cr ← pList pPair
        pure (id, ({ height := h, leavesBefore := lb, leavesAfter := la, txns := t1, v2txns := t2, spent := sp, created := cr } : Blk))) rest with
    | some (id, b) => ({ s with blks := (id, b) :: s.blks }, "ok")
    | none => (s, "bad-op")
  | "reorg" :: rest =>
    match run (do let pth ← pPath s.blks; let fl ← pList pBool; pure (pth, fl)) rest with
    | some ((rev, app), fl) => ({ s with p := reorg s.p rev app fl }, "ok")
    | none => (s, "bad-op")
  | ["pool"] =>
    let p := revalidate s.cfg s.p
    ({ s with p := p }, "v1" ++ idsStr p.txns ++ " | v2" ++ v2ListStr p.v2txns)
  | "add1" :: rest =>
    match run (pList pTxn) rest with
    | some set => let (p, r) := addPoolTransactions s.cfg s.p set; ({ s with p := p }, resStr r)
    | none => (s, "bad-op")
  | "add2" :: rest =>
    match run (do let b ← pBasis s.blks; let set ← pList pTxn; pure (b, set)) rest with
    | some (b, set) => let (p, r) := addV2PoolTransactions s.cfg s.p b set; ({ s with p := p }, resStr r)
    | none => (s, "bad-op")
  | ["get1", id] =>
    match nat? id with
    | some id =>
      let (p, r) := poolTransaction s.cfg s.p id
      ({ s with p := p }, match r with | none => "none" | some t => s!"some {t.id}")
    | none => (s, "bad-op")
  | ["get2", id] =>
    match nat? id with
    | some id =>
      let (p, r) := v2PoolTransaction s.cfg s.p id
      ({ s with p := p }, match r with | none => "none" | some t => "some " ++ v2Short t)
    | none => (s, "bad-op")
  | "par1" :: rest =>
    match run pTxn rest with
    | some t => let (p, r) := unconfirmedParents s.cfg s.p t; ({ s with p := p }, "ok" ++ idsStr r)
    | none => (s, "bad-op")
  | "tset" :: rest =>
    match run (do let b ← pBasis s.blks; let t ← pTxn; pure (b, t)) rest with
    | some (b, t) =>
      let (p, r) := v2TransactionSet s.cfg s.p b t
      ({ s with p := p }, match r with | none => "err" | some ts => "ok" ++ v2ListStr ts)
    | none => (s, "bad-op")
  | "upd" :: "same" :: rest =>
    match run (pList pTxn) rest with
    | some ts => (s, match updateV2TransactionSet s.cfg true none ts with | none => "err" | some ts => "ok" ++ v2ListStr ts)
    | none => (s, "bad-op")
  | "upd" :: rest =>
    match run (do let b ← pBasis s.blks; let ts ← pList pTxn; pure (b, ts)) rest with
    | some (b, ts) => (s, match updateV2TransactionSet s.cfg false b ts with | none => "err" | some ts => "ok" ++ v2ListStr ts)
    | none => (s, "bad-op")
  | ["mine"] =>
    let (p, (a, b)) := mineBlock s.cfg s.p
    ({ s with p := p }, "v1" ++ idsStr a ++ " | v2" ++ idsStr b)
  | _ => (s, "bad-op")

def poolModel : Model where
  σ := PoolSt
  init := fun ws => match nats? ws with
    | some [allow, require, maxW, filler] =>
      some { cfg := { allow, require, maxWeight := maxW, filler }, p := Pool.init ⟨[], 0, 0⟩, blks := [] }
    | _ => none
  step := poolStep

def poolModels : List (String × Model) := [("main", poolModel)]

end Verif.Drv
