/-
Line-protocol plumbing shared by all model drivers.  A `Model` packages a model's
state type, its constructor from the words of the `#case` line, and its step from
one operation line (split into words) to one output line.  Nothing here is used by
a theorem: the functions the models call (`Spec.step`, `MemDB.step`, …) are the
ones the theorems are about.
-/
namespace Verif.Drv

structure Model where
  σ : Type
  init : List String → Option σ
  step : σ → List String → σ × String

def words (line : String) : List String :=
  (line.splitOn " ").filter (· ≠ "")

def nat? (s : String) : Option Nat := s.toNat?

/-- parse all words as naturals -/
def nats? (ws : List String) : Option (List Nat) := ws.mapM nat?

def joinNats (l : List Nat) : String := " ".intercalate (l.map toString)

def optNat (o : Option Nat) : String := match o with | none => "none" | some v => toString v

def boolStr (b : Bool) : String := if b then "1" else "0"

end Verif.Drv
