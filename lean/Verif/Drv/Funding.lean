import Verif.Drv.Runner
import Verif.Model.Funding

namespace Verif.Drv
open Verif.Funding

def fmtIds (l : List Utxo) : String := joinNats (l.map (·.id))

def preOuts (own void : Nat) : List (Nat × Bool) :=
  (if own = 0 then [] else [(own, true)]) ++ (if void = 0 then [] else [(void, false)])

/-- number of outputs and the value of the last one (the change output if there is one) -/
def fmtRTxn (amt : Nat) (t : RTxn) : String :=
  let n := if t.change = 0 then t.nout else t.nout + 1
  let last := if t.change = 0 then (if t.nout = 0 then 0 else amt) else t.change
  s!" | in {fmtIds t.ins} n {n} last {last} f {t.fee}"

def okErr (b : Bool) : String := if b then "ok" else "err"

def fundingStep (s : State) (ws : List String) : State × String :=
  match ws with
  | "utxo" :: rest =>
    match nats? rest with
    | some [id, v, m] => ({ s with utxos := insById ⟨id, v, m⟩ s.utxos, nextId := max s.nextId (id + 1) }, "ok")
    | _ => (s, "bad-op")
  | "fund" :: rest =>
    match nats? rest with
    | some [h, v, amt, uc, nin, own, void] =>
      let r := s.fund stdSorter h (v == 2) amt (uc == 1) nin (preOuts own void)
      (r.1, match r.2 with
        | .err => "err"
        | .ok ins sum change =>
          let ch := if sum > amt then s!"change {change}" else "nochange"
          s!"ok in {fmtIds ins} sum {sum} {ch}")
    | _ => (s, "bad-op")
  | "redist" :: rest =>
    match nats? rest with
    | some [h0, outs, amt, fpb] =>
      let r := s.redistribute stdSorter h0 outs amt fpb
      (r.1, match r.2 with
        | .none => "none"
        | .err => "err"
        | .ok txns => "ok" ++ String.join (txns.map (fmtRTxn amt)))
    | _ => (s, "bad-op")
  | "split" :: rest =>
    match nats? rest with
    | some [h, n, m, fee] =>
      let r := s.split h n m fee
      (r.1, match r.2 with
        | .none => "none"
        | .err => "err"
        | .ok i nout per last f => s!"ok in {i.id} n {nout} per {per} last {last} f {f}")
    | _ => (s, "bad-op")
  | "splitfail" :: rest =>
    match nats? rest with
    | some [h, n, m, fee] =>
      let r := s.splitPoolFails h n m fee
      (r.1, match r.2 with
        | .none => "none"
        | _ => "err")
    | _ => (s, "bad-op")
  | "release" :: rest =>
    match nats? rest with
    | some hs =>
      let ids := (s.reg.filter fun t => hs.contains t.h).flatMap fun t => t.ins.map (·.id)
      (s.release ids, "ok")
    | none => (s, "bad-op")
  | ["bcast", h] => match nat? h with
    | some h => let r := s.bcast h false; (r.1, okErr r.2)
    | none => (s, "bad-op")
  | ["wbcast", h] => match nat? h with
    | some h => let r := s.bcast h true; (r.1, okErr r.2)
    | none => (s, "bad-op")
  | "xspend" :: rest =>
    match nats? rest with
    | some [v, id, back, rest] => let r := s.xspend (v == 2) id back rest; (r.1, okErr r.2)
    | _ => (s, "bad-op")
  | "mine" :: rest =>
    match nats? rest with
    | some [who, reward] => (s.mine (who == 1) reward, "ok")
    | _ => (s, "bad-op")
  | ["lag", k] => match nat? k with
    | some k => (s.lag k, "ok")
    | none => (s, "bad-op")
  | ["sync"] => (s.sync, "ok")
  | ["stale"] => (s.stale, "ok")
  | ["tick", d] => match nat? d with
    | some d => (s.tick d, "ok")
    | none => (s, "bad-op")
  | ["restart", k] => match nat? k with
    | some k => (s.restart (k == 1), "ok")
    | none => (s, "bad-op")
  | ["bal"] =>
    let b := s.balance
    (s, s!"bal {b.spendable} {b.confirmed} {b.unconfirmed} {b.immature}")
  | ["spendable"] => (s, ("sp " ++ fmtIds s.spendable).trimAsciiEnd.toString)
  | _ => (s, "bad-op")

def fundingModel : Model where
  σ := State
  init := fun ws => match nats? ws with
    | some [thr, maxIn, maxDefrag, dur, wb, wp, delay, height] =>
      some { State.init ⟨thr, maxIn, maxDefrag, dur, wb, wp, delay⟩ with height := height, cmHeight := height, nextId := 1 }
    | _ => none
  step := fundingStep

def fundingModels : List (String × Model) := [("std", fundingModel)]

end Verif.Drv
