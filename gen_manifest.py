#!/usr/bin/env python3
"""Regenerates MANIFEST.json and levels.json from the table below (kept in one place so the two
never disagree)."""
import json, os
ROOT = os.path.dirname(os.path.abspath(__file__))
TRUST = ("Lean 4.33 kernel + leanchecker; axioms propext/Classical.choice/Quot.sound only; the hand-written Lean model is "
         "validated against /repo's working tree by the correspondence check on every run (generators bound what the tie has "
         "seen); harness oracles; go.sia.tech/core, bbolt, mux, quic-go and the Go runtime are parameters or unmodelled.")
CHECKS = {
 "C01": dict(level="proof", design="5/C01",
   technique="Lean 4 inductive invariant over all submission histories of a model of chain.Manager (AddBlocks/reorgTo/reorgPath transcribed from manager.go), incl. a correctness proof of the two-pointer reorgPath and of the rollback of failed reorgs + differential correspondence on generated fork trees of real blocks with single-field corruptions",
   text="Theorems (Props/C01.lean, for every block universe U, every history of batches, no bound): the invariant Inv (best chain parent-linked from genesis, every block on it stored with supplement and validated, states closed under parents) holds in every reachable state (inv_reachable, best_chain_valid); AddBlocks never panics and a failed reorg is always rolled back (never_panics); any error leaves best chain and notifications unchanged (error_rolls_back); the tip moves only to a sufficiently heavier chain and then exactly one notification is delivered (tip_moves_only_if_heavier); tip work is monotone over histories (tip_work_mono_history); reorgPath returns the two legs through a common ancestor and never fails on stored blocks (reorgPath_correct). Tie: fork trees of real blocks mined on independent linear twins (random hardfork heights, v1/v2 transactions, 10 corruption kinds, empty blocks on header-valid corrupted ones) are submitted in generated schedules (batches, duplicates, orphans first, mixed branches) to the real Manager; after every AddBlocks the error kind, tip, notification count and the whole best index are compared with the model; the oracle re-derives validity of every best-chain block from the twins, compares TipState with a linear replay and checks work monotonicity and rollback.",
   note=TRUST + " Consensus rules are parameters of the model (block attributes computed by core/consensus on a linear twin). AddValidatedV2Blocks is modelled and tied but its invariant theorem (under PreValidated) is not yet proved. time.Now() in the future-block test is avoided (timestamps years away from the boundary)."),
 "C19": dict(level="proof", design="5/C19",
   technique="Lean 4 theorems on the prune/AddBlocks model of chain.Manager + differential correspondence and an unpruned real twin on generated histories with interleaved prunes and resubmission of pruned blocks",
   text="Theorems (Props/C19.lean): PruneBlocks changes nothing but the bodies/supplements of best-chain blocks below min(height, tip+1) (prune_only_bodies), prunes exactly those when the chain was unpruned (prune_exact), keeps tip, best index, headers, states and history (prune_keeps_queries), and resubmitting a pruned block is a no-op of the per-block loop (resubmit_pruned_skipped). Tie: C01's trees and schedules with PruneBlocks(0/1/mid/tip/tip+1/beyond) interleaved, repeated prunes, forks above/at/below the pruned height and resubmission of pruned blocks; result, tip, best index, per-block header/body/supplement/state presence, MinReorgIndex and History compared with the model after every step; oracle: an unpruned real twin receiving the same submissions (same tip, best index, headers, states, history, results unless the fork point is below MinReorgIndex), exactly the best-chain bodies below the height are gone, no panic.",
   note=TRUST + " The simulation theorem pruned ~ unpruned and 'never panics with pruning' are checked by the tie/oracle only (not yet proved)."),
 "C04": dict(level="proof", design="5/C04",
   technique="Lean 4 theorems on the updatesSince model (path shape, bound, progress) over the C01 invariant + differential correspondence with shadow-ledger oracle against linear twins",
   text="Theorems (Props/C04.lean) over every reachable manager: see file. Tie: subscribers with chunk sizes {1,2,3,7,1000}, lagging and partially catching up (also ending on a revert), plus a late subscriber from nothing, poll UpdatesSince while fork trees are submitted; every returned path is compared with the model; oracle: reverts/applies contiguous, applies on the best chain, at most max updates, progress, every subscriber reaches the tip, and its shadow ledger folded from the carried diffs equals the ledger of an independent linear twin at the tip incl. Merkle proofs, which verify against the tip accumulator.",
   note=TRUST + " Merkle proof values and element contents are oracle-only (the model carries block ids). Concurrent polling is covered by the lock-discipline argument (every exported Manager method holds m.mu), not by a schedule exploration."),
 "C17": dict(level="proof", design="5/C17",
   technique="Lean 4 refinement proofs (the MemDB model refines an abstract durable/working map; the CacheDB model over ANY backend that refines that map refines it too; hence all backends agree on every operation sequence) + exhaustive/random differential correspondence of the models with the real MemDB/CacheDB/Bolt backends",
   text="Theorem: the Lean model of MemDB (transcribed from chain/db.go) refines the abstract map specification step by step, hence returns the same results on every operation sequence of any length (memdb_trace_eq); the specification's read-your-writes/flush/cancel laws are theorems. Tie: every op sequence over a small alphabet up to length 5 (quick) / 6 (thorough) and long random sequences are executed on the real MemDB, CacheDB(MemDB), CacheDB(Bolt) and Bolt and compared line by line with the executable models (MemDB, CacheDB over MemDB/Spec, Spec) and with a reference map. CacheDB's refinement is now a theorem as well: for every inner backend B with a one-step simulation Refines B Ri of the abstract map, CacheDB over B simulates the abstract map step by step (cachedb_refines_spec, relation Rc: the outer state is the inner spec state seen through the well-formed, never-flushed overlay; Flush may range over the bucket names in any order, cachedb_names_irrelevant), CacheDB with the driver's name bookkeeping is again a refining backend (cache_refines, so caches stack: cache_of_cache_trace_eq), CacheDB over MemDB and CacheDB over Spec return exactly the specification's outputs on every operation list (cachedb_trace_eq) and MemDB, CacheDB(MemDB), CacheDB(Spec) and Spec give identical output sequences on every operation list of any length (backends_agree); non-vacuity examples are evaluated by the kernel. The driver runs exactly the functions of these theorems (CacheDB.stepN, CacheDB.init).",
   note=TRUST + " bbolt itself is not modelled (compared with Spec). Bucket handles are re-fetched per operation."),
 "C20": dict(level="proof", design="5/C20",
   technique="Lean 4 theorems over a bit-level model of wallet/seed.go (uint64 hi/lo pair, the source's shifts and masks, proved equal to base-2048 digits of entropy*16+checksum; all 2^128 entropies, all word sequences, all strings, any checksum function) + word table and codec literals re-extracted from the source and re-checked by the Lean kernel on every run + differential correspondence and independent reference oracle on the real codec, SeedFromPhrase, KeyFromSeed, NewSeedPhrase",
   text="Theorems (Props/C20.lean, no bounds): decode(encode e) = e for every e < 2^128 (decode_encode); a word sequence decodes iff it has 12 in-range words and the checksum nibble matches, the entropy then being value/16 (decode_ok_iff, decode_count_iff, decode_unknown_iff, decode_checksum_iff); every sequence that decodes re-encodes to itself (encode_decode); the code-level hi/lo codec equals the base-2048-digit specification (code_eq_spec_encode/decode, pair_shr, pair_shl); the same on strings over the extracted word table (phrase_decode_encode, phrase_decode_ok_iff, phrase_encode_decode, phrase_wrong_count, phrase_unknown_word, phrase_case_rejected); every white-space rendering of the same tokens tokenises and decodes identically (fields_render, decodePhrase_whitespace_invariant); the hashed byte strings separate (seed,index) for all uint64 indices and separate entropies (kdfInput_injective, seedInput_injective). The checksum is a parameter (any function into 0..15; instantiated with (sha256[0]&0xF0)>>4 for any SHA-256). Regenerated tie: srcfacts extracts the 2048-word table and the integer literals / byte-order selectors of bip39checksum, encodeBIP39Phrase, decodeBIP39Phrase, KeyFromSeed from wallet/seed.go; the kernel checks length 2048, strict sortedness (hence distinct), lower-case ASCII only (hence no white space) and equality of the literals with the model's constants. Correspondence + oracle: uniform entropies, all 128 one-bit and one-zero-bit entropies, 0 and 2^128-1, every value of every word position over base phrases (12x2048 exhaustive), uniform and near-valid word sequences, 0..24 words, non-words, case changes, ASCII/Unicode white-space renderings, look-alike non-spaces, unicode.IsSpace over all code points, NewSeedPhrase outputs, SeedFromPhrase = blake2b(entropy), KeyFromSeed = ed25519(blake2b(seed||LE64(index))) over boundary/random/consecutive indices, repeated calls, distinct indices give distinct keys.",
   note=TRUST + " SHA-256, BLAKE2b and Ed25519 are not modelled (the harness passes the first SHA-256 byte to the model and compares hash pre-images through x/crypto/blake2b + crypto/ed25519). Strings are valid UTF-8 code-point lists; encoding/binary and strings.Fields/Join are modelled by their documented behaviour. A phrase re-encodes to itself up to the white space strings.Fields discards (exactly when it is in the canonical single-space form)."),
}
NOT_APPLICABLE = []
def main():
    checks = []
    for pid in sorted(CHECKS):
        c = CHECKS[pid]
        checks.append({
            "property_id": pid,
            "quick_cmd": f"./check {pid} quick",
            "thorough_cmd": f"./check {pid} thorough",
            "evidence_file": f"/verif/evidence/{pid}.json",
            "replay_cmd_template": f"./check {pid} replay {{path}}",
            "engine": "lean4+go-harness",
            "level_claimed": {"category": c["level"], "text": c["text"], "design_ref": c["design"]},
            "level_note": c["note"],
            "technique": c["technique"],
        })
    props = [json.loads(l)["id"] for l in open(os.path.join(ROOT, "properties.jsonl"))]
    na = list(NOT_APPLICABLE)
    for p in props:
        if p not in CHECKS and p not in [x["property_id"] for x in na]:
            na.append({"property_id": p, "reason": "not yet built in this session (planned, see DESIGN.md section 5); no check is claimed"})
    m = {
        "version": 1,
        "setup_cmd": "./check setup",
        "hooks": {
            "guard": "verif",
            "enable": "go build -tags verif (the harness module replaces go.sia.tech/coreutils with /repo)",
            "baseline_off_cmd": "cd /repo && go build ./... && go test -vet=off -count=1 -timeout 25m ./...",
            "source_commits": HOOK_COMMITS,
            "add_only": True,
        },
        "engines": [
            {"name": "lean4+go-harness", "path": "/verif/check", "serves_properties": sorted(CHECKS),
             "kind_free_text": "Lean 4 theorems over hand-written executable models (lean/Verif), tied to /repo by a differential correspondence check (harness/, Go, -tags verif) that pipes the same operations to the compiled model driver (lean/Drv.lean) and by facts regenerated from source (srcfacts -> lean/Verif/Extracted)"},
        ],
        "checks": checks,
        "not_applicable": na,
        "notes": "Every check = (P) lake build + #print axioms audit + leanchecker of Props/<id>.lean, (T) model/implementation correspondence, (O) implementation-side oracle. known_findings.jsonl lists genuine defects (fixed: entries suppress nothing).",
    }
    json.dump(m, open(os.path.join(ROOT, "MANIFEST.json"), "w"), indent=1)
    json.dump({k: v["level"] for k, v in CHECKS.items()}, open(os.path.join(ROOT, "levels.json"), "w"), indent=1)
HOOK_COMMITS = ["3f70911 verif hook: wallet: expose the BIP-39 codec, checksum and word table (wallet/verif_hooks.go)"]

if __name__ == "__main__":
    main()
