#!/usr/bin/env python3
"""Regenerates MANIFEST.json and levels.json from the table below (kept in one place so the two
never disagree)."""
import json, os
ROOT = os.path.dirname(os.path.abspath(__file__))
TRUST = ("Lean 4.33 kernel + leanchecker; axioms propext/Classical.choice/Quot.sound only; the hand-written Lean model is "
         "validated against /repo's working tree by the correspondence check on every run (generators bound what the tie has "
         "seen); harness oracles; go.sia.tech/core, bbolt, mux, quic-go and the Go runtime are parameters or unmodelled.")
CHECKS = {
 "C17": dict(level="proof", design="5/C17",
   technique="Lean 4 refinement proof (MemDB model refines an abstract durable/working map for every operation sequence) + exhaustive/random differential correspondence of the model with the real MemDB/CacheDB/Bolt backends",
   text="Theorem: the Lean model of MemDB (transcribed from chain/db.go) refines the abstract map specification step by step, hence returns the same results on every operation sequence of any length (memdb_trace_eq); the specification's read-your-writes/flush/cancel laws are theorems. Tie: every op sequence over a small alphabet up to length 5 (quick) / 6 (thorough) and long random sequences are executed on the real MemDB, CacheDB(MemDB), CacheDB(Bolt) and Bolt and compared line by line with the executable models (MemDB, CacheDB over MemDB/Spec, Spec) and with a reference map. CacheDB is covered by the executable model + exhaustive correspondence; its refinement theorem is not yet proved.",
   note=TRUST + " bbolt itself is not modelled (compared with Spec). Bucket handles are re-fetched per operation."),
}
NOT_APPLICABLE = []
def main():
    checks = []
    for pid in sorted(CHECKS):
        c = CHECKS[pid]
        checks.append({
            "property_id": pid,
            "quick_cmd": f"./check {pid} quick",
            "thorough_cmd": f"./check {pid} thorough",
            "evidence_file": f"/verif/evidence/{pid}.json",
            "replay_cmd_template": f"./check {pid} replay {{path}}",
            "engine": "lean4+go-harness",
            "level_claimed": {"category": c["level"], "text": c["text"], "design_ref": c["design"]},
            "level_note": c["note"],
            "technique": c["technique"],
        })
    props = [json.loads(l)["id"] for l in open(os.path.join(ROOT, "properties.jsonl"))]
    na = list(NOT_APPLICABLE)
    for p in props:
        if p not in CHECKS and p not in [x["property_id"] for x in na]:
            na.append({"property_id": p, "reason": "not yet built in this session (planned, see DESIGN.md section 5); no check is claimed"})
    m = {
        "version": 1,
        "setup_cmd": "./check setup",
        "hooks": {
            "guard": "verif",
            "enable": "go build -tags verif (the harness module replaces go.sia.tech/coreutils with /repo)",
            "baseline_off_cmd": "cd /repo && go build ./... && go test -vet=off -count=1 -timeout 25m ./...",
            "source_commits": HOOK_COMMITS,
            "add_only": True,
        },
        "engines": [
            {"name": "lean4+go-harness", "path": "/verif/check", "serves_properties": sorted(CHECKS),
             "kind_free_text": "Lean 4 theorems over hand-written executable models (lean/Verif), tied to /repo by a differential correspondence check (harness/, Go, -tags verif) that pipes the same operations to the compiled model driver (lean/Drv.lean) and by facts regenerated from source (srcfacts -> lean/Verif/Extracted)"},
        ],
        "checks": checks,
        "not_applicable": na,
        "notes": "Every check = (P) lake build + #print axioms audit + leanchecker of Props/<id>.lean, (T) model/implementation correspondence, (O) implementation-side oracle. known_findings.jsonl lists genuine defects (fixed: entries suppress nothing).",
    }
    json.dump(m, open(os.path.join(ROOT, "MANIFEST.json"), "w"), indent=1)
    json.dump({k: v["level"] for k, v in CHECKS.items()}, open(os.path.join(ROOT, "levels.json"), "w"), indent=1)
HOOK_COMMITS = []
if __name__ == "__main__":
    main()
