// Package c20: seed phrases and derived keys round-trip exactly.
//
// (T) every operation is executed on the real codec of /repo/wallet/seed.go (through the
// `verif` hooks VerifEncodePhrase / VerifDecodePhrase and the public SeedFromPhrase / KeyFromSeed /
// NewSeedPhrase) and on the Lean model (driver family `seed`, lean/Verif/Drv/Seed.lean); the two
// observation streams must be string-equal.  The harness passes the first SHA-256 byte of the
// entropy concerned so the model needs no SHA.
// (O) independently of the model the property is evaluated on the real code: round trips, the
// checksum criterion against a math/big reference codec owned by the harness, white-space
// variants, malformed phrases, and key derivation against blake2b + crypto/ed25519.
package c20

import (
	"bytes"
	"crypto/ed25519"
	"crypto/sha256"
	"encoding/binary"
	"encoding/hex"
	"fmt"
	"math/big"
	"strconv"
	"strings"
	"sync"
	"unicode"
	"unicode/utf8"

	"go.sia.tech/core/types"
	"go.sia.tech/coreutils/wallet"
	"golang.org/x/crypto/blake2b"
	"verifharness/vh"
)

func init() { vh.Register("C20", Run) }

const model = "seed codec"

var (
	words   []string
	wordIdx map[string]int
)

// ---------------------------------------------------------------------------------------------
// reference codec (independent of the code under test and of the Lean model): big-integer BIP-39

func refChecksum(e [16]byte) int { h := sha256.Sum256(e[:]); return int(h[0] >> 4) }
func sha0(e [16]byte) int        { h := sha256.Sum256(e[:]); return int(h[0]) }

func refEncode(e [16]byte) []int {
	n := new(big.Int).SetBytes(e[:])
	n.Lsh(n, 4)
	n.Or(n, big.NewInt(int64(refChecksum(e))))
	out := make([]int, 12)
	mask := big.NewInt(2047)
	for i := 11; i >= 0; i-- {
		out[i] = int(new(big.Int).And(n, mask).Int64())
		n.Rsh(n, 11)
	}
	return out
}

// refValue returns the entropy denoted by 12 in-range indices and whether its checksum matches.
func refValue(idx []int) (e [16]byte, ckOK bool) {
	n := new(big.Int)
	for _, w := range idx {
		n.Lsh(n, 11)
		n.Or(n, big.NewInt(int64(w)))
	}
	ck := int(new(big.Int).And(n, big.NewInt(15)).Int64())
	n.Rsh(n, 4)
	n.FillBytes(e[:])
	return e, refChecksum(e) == ck
}

// refDecodeTokens classifies a token list the way the property demands.
func refDecodeTokens(toks []string) (e [16]byte, kind string) {
	if len(toks) != 12 {
		return e, "err count"
	}
	idx := make([]int, 12)
	for i, t := range toks {
		j, ok := wordIdx[t]
		if !ok {
			return e, "err unknown"
		}
		idx[i] = j
	}
	e, ok := refValue(idx)
	if !ok {
		return e, "err checksum"
	}
	return e, "ok"
}

// refFields is the harness's own tokeniser (not strings.Fields): split on the White_Space set.
var spaceRunes = []rune{'\t', '\n', '\v', '\f', '\r', ' ', 0x85, 0xA0, 0x1680, 0x2000, 0x2001, 0x2002, 0x2003, 0x2004,
	0x2005, 0x2006, 0x2007, 0x2008, 0x2009, 0x200A, 0x2028, 0x2029, 0x202F, 0x205F, 0x3000}

func isSpaceRef(r rune) bool {
	for _, s := range spaceRunes {
		if r == s {
			return true
		}
	}
	return false
}

func refFields(s string) []string {
	var out []string
	var cur []rune
	for _, r := range s {
		if isSpaceRef(r) {
			if len(cur) > 0 {
				out = append(out, string(cur))
				cur = nil
			}
		} else {
			cur = append(cur, r)
		}
	}
	if len(cur) > 0 {
		out = append(out, string(cur))
	}
	return out
}

// ---------------------------------------------------------------------------------------------
// protocol helpers

func joinInts(v []int) string {
	var sb strings.Builder
	for i, x := range v {
		if i > 0 {
			sb.WriteByte(' ')
		}
		sb.WriteString(strconv.Itoa(x))
	}
	return sb.String()
}

func bytesStr(b []byte) string {
	v := make([]int, len(b))
	for i, x := range b {
		v[i] = int(x)
	}
	return joinInts(v)
}

func cpsStr(s string) string {
	var v []int
	for _, r := range s {
		v = append(v, int(r))
	}
	return joinInts(v)
}

func errKind(err error) string {
	if err == nil {
		return "ok"
	}
	// the three error sites of decodeBIP39Phrase, mapped to an enum (strings are never compared
	// with the model)
	m := err.Error()
	switch {
	case strings.Contains(m, "wrong number of words"):
		return "err count"
	case strings.Contains(m, "unrecognized word"):
		return "err unknown"
	case strings.Contains(m, "invalid checksum"):
		return "err checksum"
	}
	return "err other"
}

// implDecode runs the real decoder and canonicalises its answer.
func implDecode(phrase string) (e [16]byte, line string) {
	e, err := decodePhrase(phrase)
	if err != nil {
		return e, errKind(err)
	}
	return e, "ok " + bytesStr(e[:])
}

func phraseOf(idx []int) string {
	ws := make([]string, len(idx))
	for i, j := range idx {
		if j >= 0 && j < len(words) {
			ws[i] = words[j]
		} else {
			ws[i] = fmt.Sprintf("qq%dx", j) // stands for "not a word"
		}
	}
	return strings.Join(ws, " ")
}

// h0ForTokens is the first SHA-256 byte of the entropy the tokens denote (0 when they denote none).
func h0ForTokens(toks []string) int {
	if len(toks) != 12 {
		return 0
	}
	idx := make([]int, 12)
	for i, t := range toks {
		j, ok := wordIdx[t]
		if !ok {
			return 0
		}
		idx[i] = j
	}
	e, _ := refValue(idx)
	return sha0(e)
}

// ---------------------------------------------------------------------------------------------
// case builders

// entropyCase: encode E on the real code, decode the result, compare everything.
func entropyCase(r *vh.Run, name string, e [16]byte, tags ...string) {
	c := &vh.Case{Name: name, Model: model, Nontrivial: true, Tags: tags,
		Info: map[string]any{"entropy": hex.EncodeToString(e[:])}}
	h0 := sha0(e)
	phrase := wallet.VerifEncodePhrase(e)
	ws := strings.Split(phrase, " ")
	idx := make([]int, len(ws))
	allKnown := true
	for i, w := range ws {
		j, ok := wordIdx[w]
		if !ok {
			allKnown = false
			j = 99999
		}
		idx[i] = j
	}
	c.Op(fmt.Sprintf("enc %d %s", h0, bytesStr(e[:])), "w "+joinInts(idx))
	c.Op(fmt.Sprintf("encp %d %s", h0, bytesStr(e[:])), "p "+cpsStr(phrase))
	if len(ws) != 12 || !allKnown {
		c.Oracle("encode-not-12-list-words", "entropy %x encodes to %q: %d words, all in list: %v", e, phrase, len(ws), allKnown)
	}
	if got := wallet.VerifChecksum(e); got != uint64(refChecksum(e)) {
		c.Fail("corr", "corr:checksum-not-sha256-high-nibble", fmt.Sprintf("bip39checksum(%x) = %d, sha256 high nibble = %d", e, got, refChecksum(e)))
	}
	if ref := refEncode(e); len(ws) == 12 && allKnown && joinInts(ref) != joinInts(idx) {
		c.Fail("corr", "corr:encode-differs-from-bigint-bip39", fmt.Sprintf("entropy %x: real %v, reference %v", e, idx, ref))
	}
	// decode(encode e) = e
	d, line := implDecode(phrase)
	c.Op(fmt.Sprintf("decp %d %s", h0, cpsStr(phrase)), line)
	if !strings.HasPrefix(line, "ok") {
		c.Oracle("encode-then-decode-rejected", "entropy %x encodes to %q which decodes with %q", e, phrase, line)
	} else if d != e {
		c.Oracle("encode-then-decode-different-entropy", "entropy %x encodes to %q which decodes to %x", e, phrase, d)
	}
	// encode is a function
	if again := wallet.VerifEncodePhrase(e); again != phrase {
		c.Oracle("encode-not-deterministic", "entropy %x: %q then %q", e, phrase, again)
	}
	r.Add(c)
}

// indexCase: a sequence of word indices (any length; an index ≥ 2048 stands for a non-word).
func indexCase(r *vh.Run, name string, idx []int, tags ...string) {
	c := &vh.Case{Name: name, Model: model, Nontrivial: true, Tags: tags}
	phrase := phraseOf(idx)
	toks := strings.Split(phrase, " ")
	if len(idx) == 0 {
		toks = nil
	}
	refE, want := refDecodeTokens(toks)
	h0 := h0ForTokens(toks)
	got, line := implDecode(phrase)
	c.Op(fmt.Sprintf("dec %d %s", h0, joinInts(idx)), line)
	checkDecodeOracle(c, phrase, toks, refE, want, got, line)
	c.Tags = append(c.Tags, "result:"+strings.ReplaceAll(want, " ", "-"))
	r.Add(c)
}

// checkDecodeOracle evaluates the decode half of the property on the real code's answer.
func checkDecodeOracle(c *vh.Case, phrase string, toks []string, refE [16]byte, want string, got [16]byte, line string) {
	ok := strings.HasPrefix(line, "ok")
	switch {
	case want == "ok" && !ok:
		c.Oracle("decode-rejects-valid-phrase", "phrase %q (12 list words, correct checksum) rejected: %s", phrase, line)
	case want == "err checksum" && ok:
		c.Oracle("decode-accepts-bad-checksum", "phrase %q has a wrong checksum nibble but decodes to %x", phrase, got)
	case want == "err count" && ok:
		c.Oracle("decode-accepts-wrong-word-count", "phrase %q has %d tokens but decodes to %x", phrase, len(toks), got)
	case want == "err unknown" && ok:
		c.Oracle("decode-accepts-unknown-word", "phrase %q contains a token outside the list but decodes to %x", phrase, got)
	case want != "ok" && !ok && line != want:
		// rejected, as the property demands, but through a different error site than the model's
		// order of checks: a correspondence difference only
	}
	if ok {
		if want == "ok" && got != refE {
			c.Oracle("decode-wrong-entropy", "phrase %q decodes to %x, its words denote %x", phrase, got, refE)
		}
		// re-encodes to itself
		re := wallet.VerifEncodePhrase(got)
		if re != strings.Join(toks, " ") {
			c.Oracle("decode-then-encode-different-phrase", "phrase %q decodes to %x which encodes to %q", phrase, got, re)
		}
	}
}

// phraseCase: an arbitrary string through the real decoder and the phrase-level model.
func phraseCase(r *vh.Run, name, phrase string, tags ...string) {
	c := &vh.Case{Name: name, Model: model, Nontrivial: true, Tags: tags, Info: map[string]any{"phrase": phrase}}
	toks := refFields(phrase)
	refE, want := refDecodeTokens(toks)
	h0 := h0ForTokens(toks)
	got, line := implDecode(phrase)
	c.Op(strings.TrimSpace(fmt.Sprintf("decp %d %s", h0, cpsStr(phrase))), line)
	checkDecodeOracle(c, phrase, toks, refE, want, got, line)
	// the same through SeedFromPhrase: error iff the decoder errors; seed = blake2b(entropy)
	var seed [32]byte
	err := seedFromPhrase(&seed, phrase)
	sline := errKind(err)
	if err == nil {
		sline = "pre none"
		if seed == blake2b.Sum256(refE[:]) {
			sline = "pre " + bytesStr(refE[:])
		}
		if want != "ok" {
			c.Oracle("seedfromphrase-accepts-malformed", "SeedFromPhrase(%q) succeeded, the phrase is %s", phrase, want)
		} else if seed != blake2b.Sum256(refE[:]) {
			c.Oracle("seedfromphrase-not-blake2b-of-entropy", "SeedFromPhrase(%q) = %x, blake2b(entropy %x) = %x", phrase, seed, refE, blake2b.Sum256(refE[:]))
		}
	} else if want == "ok" {
		c.Oracle("seedfromphrase-rejects-valid-phrase", "SeedFromPhrase(%q): %v", phrase, err)
	}
	// the result may not depend on what the destination held before (a wallet opened twice, a retry
	// after a rejected phrase): the same call into a buffer full of ones
	var dirty [32]byte
	for i := range dirty {
		dirty[i] = 0xFF
	}
	if err2 := seedFromPhrase(&dirty, phrase); (err2 == nil) != (err == nil) || (err == nil && dirty != seed) {
		c.Oracle("seedfromphrase-depends-on-destination-content", "SeedFromPhrase(%q) into a zeroed buffer: %x / %v; into a buffer of 0xFF bytes: %x / %v", phrase, seed, err, dirty, err2)
	}
	c.Op(strings.TrimSpace(fmt.Sprintf("seedp %d %s", h0, cpsStr(phrase))), sline)
	c.Tags = append(c.Tags, "result:"+strings.ReplaceAll(want, " ", "-"))
	r.Add(c)
}

// whitespaceVariant renders the tokens with random white space (never empty between tokens).
func whitespaceVariant(rng *vh.RNG, toks []string, unicodeSpaces bool) string {
	pool := spaceRunes[:6]
	if unicodeSpaces {
		pool = spaceRunes
	}
	run := func(min int) string {
		n := min + rng.Intn(3)
		var sb strings.Builder
		for i := 0; i < n; i++ {
			sb.WriteRune(pool[rng.Intn(len(pool))])
		}
		return sb.String()
	}
	var sb strings.Builder
	sb.WriteString(run(0))
	for i, t := range toks {
		if i > 0 {
			sb.WriteString(run(1))
		}
		sb.WriteString(t)
	}
	sb.WriteString(run(0))
	return sb.String()
}

func randEntropy(rng *vh.RNG) (e [16]byte) { rng.Bytes(e[:]); return }

func randIdx(rng *vh.RNG, n int) []int {
	v := make([]int, n)
	for i := range v {
		v[i] = rng.Intn(2048)
	}
	return v
}

// validIdx returns a uniformly drawn valid phrase (as indices).
func validIdx(rng *vh.RNG) []int { return refEncode(randEntropy(rng)) }

// ---------------------------------------------------------------------------------------------
// key derivation

func refKey(seed [32]byte, index uint64) ed25519.PrivateKey {
	buf := make([]byte, 40)
	copy(buf, seed[:])
	binary.LittleEndian.PutUint64(buf[32:], index)
	h := blake2b.Sum256(buf)
	return ed25519.NewKeyFromSeed(h[:])
}

// decodePhrase / seedFromPhrase call the real functions; a panic becomes an error "panic: …" (a
// malformed phrase must be REJECTED WITH AN ERROR; the callers compare the error class with the
// model's, so a panic is a correspondence failure, and phraseOracle reports it by name)
func decodePhrase(phrase string) (e [16]byte, err error) {
	defer func() {
		if r := recover(); r != nil {
			err = fmt.Errorf("panic: %v", r)
		}
	}()
	return wallet.VerifDecodePhrase(phrase)
}

func seedFromPhrase(seed *[32]byte, phrase string) (err error) {
	defer func() {
		if r := recover(); r != nil {
			err = fmt.Errorf("panic: %v", r)
		}
	}()
	return wallet.SeedFromPhrase(seed, phrase)
}

// keyFromSeed is wallet.KeyFromSeed with a panic turned into the all-zero key (reported by the callers'
// comparison with the documented derivation, and by the oracle keyfromseed-panic at the first site)
func keyFromSeed(seed *[32]byte, index uint64) (k types.PrivateKey) {
	defer func() {
		if recover() != nil {
			k = make(types.PrivateKey, 64) // no key: the all-zero key never equals a derived one
		}
	}()
	return wallet.KeyFromSeed(seed, index)
}

// preimageOf finds which candidate byte string the real KeyFromSeed hashes (observation for the
// model's kdfInput): seed‖LE(i), seed‖BE(i), LE(i)‖seed, BE(i)‖seed.
func preimageOf(seed [32]byte, index uint64, key types.PrivateKey) string {
	le := make([]byte, 8)
	be := make([]byte, 8)
	binary.LittleEndian.PutUint64(le, index)
	binary.BigEndian.PutUint64(be, index)
	cands := [][]byte{
		append(append([]byte{}, seed[:]...), le...),
		append(append([]byte{}, seed[:]...), be...),
		append(append([]byte{}, le...), seed[:]...),
		append(append([]byte{}, be...), seed[:]...),
	}
	for _, cnd := range cands {
		h := blake2b.Sum256(cnd)
		if bytes.Equal(ed25519.NewKeyFromSeed(h[:]), key) {
			return "pre " + bytesStr(cnd)
		}
	}
	return "pre none"
}

func kdfCase(r *vh.Run, name string, seed [32]byte, indices []uint64, tags ...string) {
	c := &vh.Case{Name: name, Model: model, Nontrivial: true, Tags: tags,
		Info: map[string]any{"seed": hex.EncodeToString(seed[:])}}
	seen := map[string]uint64{}
	for _, i := range indices {
		if len(c.Fails) >= 3 { // enough to name the failing input; keep the replay small
			break
		}
		before := seed
		var k1, k2 types.PrivateKey
		if perr := func() (perr any) {
			defer func() { perr = recover() }()
			k1 = wallet.KeyFromSeed(&seed, i)
			k2 = wallet.KeyFromSeed(&seed, i)
			return nil
		}(); perr != nil {
			c.Op(fmt.Sprintf("kdf %d %s", i, bytesStr(before[:])), "panic")
			c.Oracle("keyfromseed-panic", "KeyFromSeed(%x, %d) panicked: %v", before, i, perr)
			continue
		}
		c.Op(fmt.Sprintf("kdf %d %s", i, bytesStr(before[:])), preimageOf(before, i, k1))
		if seed != before {
			c.Oracle("keyfromseed-mutates-seed", "KeyFromSeed(%x, %d) changed the caller's seed to %x", before, i, seed)
			seed = before
		}
		if !bytes.Equal(k1, k2) {
			c.Oracle("keyfromseed-not-deterministic", "KeyFromSeed(%x, %d) returned %x then %x", seed, i, []byte(k1), []byte(k2))
		}
		if ref := refKey(seed, i); !bytes.Equal(k1, ref) {
			c.Oracle("keyfromseed-not-ed25519-of-blake2b-seed-le-index", "KeyFromSeed(%x, %d) = %x, documented derivation gives %x", seed, i, []byte(k1), []byte(ref))
		}
		a1 := types.StandardUnlockHash(k1.PublicKey())
		a2 := types.StandardUnlockHash(k2.PublicKey())
		if a1 != a2 {
			c.Oracle("address-not-deterministic", "seed %x index %d: %v then %v", seed, i, a1, a2)
		}
		if j, dup := seen[string(k1)]; dup && j != i {
			c.Oracle("keyfromseed-index-collision", "seed %x: indices %d and %d give the same key", seed, j, i)
		}
		seen[string(k1)] = i
		// the caller owns the returned key: wiping it (what careful callers do with secrets) must
		// not change what a later derivation of the same (seed, index) returns
		want := append([]byte(nil), k1...)
		for j := range k1 {
			k1[j] = 0
		}
		if k3 := keyFromSeed(&seed, i); !bytes.Equal(k3, want) {
			c.Oracle("keyfromseed-result-aliased", "KeyFromSeed(%x, %d): after the caller wiped the key it was given, deriving again returns %x, the first derivation gave %x", seed, i, []byte(k3), want)
		} else if !bytes.Equal(k2, want) {
			c.Oracle("keyfromseed-result-aliased", "KeyFromSeed(%x, %d): wiping one returned key changed another returned key to %x", seed, i, []byte(k2))
		}
	}
	r.Add(c)
}

// ---------------------------------------------------------------------------------------------

func Run(r *vh.Run) {
	r.Rule = "one case = one entropy (encode, encode-as-string, decode of the result), one word-index sequence, one raw string " +
		"(decode + SeedFromPhrase) or one seed with a list of key indices, each executed on the real wallet codec and on the Lean model; " +
		"non-trivial = reaches the codec (every case does); distinct = different operation lines. Classes: uniform entropies; all 128 one-bit and " +
		"128 one-zero-bit entropies, 0 and 2^128-1; every value of every word position over base phrases (12x2048, exhaustive); uniform 12-index " +
		"sequences (15/16 have a wrong checksum); wrong counts (0..24 words); non-words; case changes; ASCII and Unicode white-space renderings; " +
		"look-alike non-spaces; NewSeedPhrase outputs; KeyFromSeed over boundary and random indices"
	words = wallet.VerifWordList()
	wordIdx = make(map[string]int, len(words))
	for i, w := range words {
		wordIdx[w] = i
	}
	rng := vh.NewRNG(r.Seed)

	// the word map is a bijection onto 0..2047 (what the Lean obligation `wordlist_good` says of
	// the extracted table, here on the compiled table)
	{
		c := &vh.Case{Name: "wordmap", Nontrivial: true, Tags: []string{"kind:wordmap"}}
		if len(words) != 2048 || len(wordIdx) != len(words) {
			c.Oracle("wordlist-not-2048-distinct", "len=%d distinct=%d", len(words), len(wordIdx))
		}
		for i, w := range words {
			if j, ok := wallet.VerifWordIndex(w); !ok || int(j) != i {
				c.Oracle("wordmap-not-inverse-of-list", "wordMap[%q] = %d,%v, list index %d", w, j, ok, i)
				break
			}
			if len(strings.Fields(w)) != 1 || strings.Fields(w)[0] != w {
				c.Oracle("wordlist-word-not-a-token", "word %d %q does not survive strings.Fields", i, w)
				break
			}
		}
		r.Add(c)
	}

	// isSpace of the model = unicode.IsSpace = what strings.Fields splits on, over all of Unicode
	{
		c := &vh.Case{Name: "isspace-all-unicode", Model: model, Nontrivial: true, Tags: []string{"kind:isspace"}}
		for lo := 0; lo < 0x110000; lo += 0x8000 {
			var sp []int
			for cp := lo; cp < lo+0x8000; cp++ {
				rn := rune(cp)
				if !utf8.ValidRune(rn) {
					continue
				}
				is := unicode.IsSpace(rn)
				if f := strings.Fields("a" + string(rn) + "b"); (len(f) == 2) != is {
					c.Fail("corr", "corr:fields-vs-isspace", fmt.Sprintf("U+%04X: IsSpace=%v, Fields gives %d tokens", cp, is, len(f)))
				}
				if is {
					sp = append(sp, cp)
				}
			}
			c.Op(fmt.Sprintf("sp 0 %d %d", lo, lo+0x8000), strings.TrimSpace("s "+joinInts(sp)))
		}
		r.Add(c)
	}

	// 1. entropies
	var e [16]byte
	entropyCase(r, "ent-zero", e, "kind:entropy-boundary")
	for i := range e {
		e[i] = 0xFF
	}
	entropyCase(r, "ent-ones", e, "kind:entropy-boundary")
	// the LONGEST phrases: entropies whose first eleven words are longest words of the list and whose
	// last 7 entropy bits make the twelfth word as long as possible (a uniform entropy reaches such
	// lengths with probability ~1e-9; the shortest phrases likewise)
	for k, want := range []int{8, 8, 8, 3, 3} {
		var pick []int
		for j, w := range words {
			if len(w) == want {
				pick = append(pick, j)
			}
		}
		if len(pick) == 0 {
			continue
		}
		var first [11]int
		for i := range first {
			first[i] = pick[(i*131+k*17)%len(pick)]
		}
		best, bestLen := [16]byte{}, -1
		for tail := 0; tail < 128; tail++ {
			var ent [16]byte
			// pack 11 words of 11 bits and 7 more bits, big-endian bit order (BIP-39)
			bit := 0
			put := func(v, n int) {
				for b := n - 1; b >= 0; b-- {
					if v>>b&1 == 1 {
						ent[bit/8] |= 1 << (7 - bit%8)
					}
					bit++
				}
			}
			for _, w := range first {
				put(w, 11)
			}
			put(tail, 7)
			last := refEncode(ent)[11]
			l := len(words[last])
			if want == 3 {
				l = -l
			}
			if l > bestLen || bestLen == -1 {
				best, bestLen = ent, l
			}
		}
		entropyCase(r, fmt.Sprintf("ent-extreme-length-%d-%d", want, k), best, "kind:entropy-extreme-phrase-length")
	}
	for bit := 0; bit < 128; bit++ {
		var a, b [16]byte
		a[bit/8] = 1 << (7 - bit%8)
		for i := range b {
			b[i] = 0xFF
		}
		b[bit/8] ^= 1 << (7 - bit%8)
		entropyCase(r, fmt.Sprintf("ent-bit%d", bit), a, "kind:entropy-one-bit")
		entropyCase(r, fmt.Sprintf("ent-nbit%d", bit), b, "kind:entropy-one-zero-bit")
	}
	for i, n := 0, r.Pick(3000, 100000); i < n; i++ {
		entropyCase(r, fmt.Sprintf("ent-rnd%d", i), randEntropy(rng), "kind:entropy-uniform")
	}
	// entropies with a prescribed checksum-relevant shape: low 7 bits / high bits sweep
	for i, n := 0, r.Pick(256, 4096); i < n; i++ {
		x := randEntropy(rng)
		x[15] = byte(i)
		x[0] = byte(i * 37)
		entropyCase(r, fmt.Sprintf("ent-sweep%d", i), x, "kind:entropy-low-byte-sweep")
	}

	// 2. every value of every word position over base phrases
	for b, nb := 0, r.Pick(1, 6); b < nb; b++ {
		base := validIdx(rng)
		for pos := 0; pos < 12; pos++ {
			for v := 0; v < 2048; v++ {
				idx := append([]int{}, base...)
				idx[pos] = v
				indexCase(r, fmt.Sprintf("pos-b%d-p%d-v%d", b, pos, v), idx, "kind:position-exhaustive")
			}
		}
	}
	// 3. uniform sequences, and valid phrases with one word changed / two words swapped
	for i, n := 0, r.Pick(4000, 150000); i < n; i++ {
		indexCase(r, fmt.Sprintf("seq-rnd%d", i), randIdx(rng, 12), "kind:sequence-uniform")
	}
	for i, n := 0, r.Pick(1000, 40000); i < n; i++ {
		idx := validIdx(rng)
		switch rng.Intn(3) {
		case 0:
			indexCase(r, fmt.Sprintf("seq-valid%d", i), idx, "kind:sequence-valid")
		case 1:
			a, b := rng.Intn(12), rng.Intn(12)
			idx[a], idx[b] = idx[b], idx[a]
			indexCase(r, fmt.Sprintf("seq-swap%d", i), idx, "kind:sequence-valid-two-swapped")
		default:
			idx[11] ^= 1 << rng.Intn(4) // flip one checksum bit: never valid
			indexCase(r, fmt.Sprintf("seq-ckflip%d", i), idx, "kind:sequence-checksum-bit-flipped")
		}
	}
	// 4. wrong counts and non-words (index level)
	for n := 0; n <= 24; n++ {
		if n == 12 {
			continue
		}
		for k, kn := 0, r.Pick(2, 20); k < kn; k++ {
			var idx []int
			if n == 11 || n == 13 {
				v := validIdx(rng)
				if n == 11 {
					idx = v[:11+0]
					if rng.Bool() {
						idx = v[1:]
					}
				} else {
					idx = append(v, rng.Intn(2048))
				}
			} else {
				idx = randIdx(rng, n)
			}
			if n == 0 && k > 0 {
				continue
			}
			indexCase(r, fmt.Sprintf("count-%d-%d", n, k), idx, "kind:wrong-count")
		}
	}
	for i, n := 0, r.Pick(200, 5000); i < n; i++ {
		idx := validIdx(rng)
		idx[rng.Intn(12)] = 2048 + rng.Intn(1000)
		indexCase(r, fmt.Sprintf("nonword-%d", i), idx, "kind:non-word")
	}
	{ // a non-word in a phrase of the wrong length: the count is reported first
		idx := randIdx(rng, 11)
		idx[3] = 5000
		indexCase(r, "nonword-and-count", idx, "kind:wrong-count")
	}

	// 5. strings: white space, case, look-alikes
	for i, n := 0, r.Pick(600, 20000); i < n; i++ {
		var toks []string
		kind := "valid"
		switch rng.Intn(6) {
		case 0, 1, 2:
			for _, j := range validIdx(rng) {
				toks = append(toks, words[j])
			}
		case 3:
			kind = "random"
			for _, j := range randIdx(rng, 12) {
				toks = append(toks, words[j])
			}
		case 4:
			kind = "count"
			for _, j := range randIdx(rng, []int{0, 1, 11, 13, 24}[rng.Intn(5)]) {
				toks = append(toks, words[j])
			}
		default:
			kind = "nonword"
			for _, j := range validIdx(rng) {
				toks = append(toks, words[j])
			}
			toks[rng.Intn(12)] = []string{"zzz", "abandonn", "abando", "a", "zoo1", "zo\u00f6", "-", "ab\u200bout", "\ufeffzoo", "zo\u180eo"}[rng.Intn(10)]
		}
		uni := rng.Bool()
		phrase := whitespaceVariant(rng, toks, uni)
		tag := "kind:whitespace-ascii-" + kind
		if uni {
			tag = "kind:whitespace-unicode-" + kind
		}
		phraseCase(r, fmt.Sprintf("ws-%d", i), phrase, tag)
		if kind == "valid" {
			// (O) directly: the variant and the canonical rendering give the same entropy and seed
			canon := strings.Join(toks, " ")
			e1, err1 := decodePhrase(phrase)
			e2, err2 := decodePhrase(canon)
			var s1, s2 [32]byte
			errS1 := seedFromPhrase(&s1, phrase)
			errS2 := seedFromPhrase(&s2, canon)
			if (err1 == nil) != (err2 == nil) || e1 != e2 || (errS1 == nil) != (errS2 == nil) || s1 != s2 {
				c := &vh.Case{Name: fmt.Sprintf("ws-%d-vs-canonical", i), Tags: []string{"kind:whitespace-vs-canonical"}, Nontrivial: true,
					Info: map[string]any{"phrase": phrase, "canonical": canon}}
				c.Oracle("whitespace-variant-changes-result", "%q: %x/%v seed %x; canonical %q: %x/%v seed %x", phrase, e1, err1, s1, canon, e2, err2, s2)
				r.Add(c)
			} else {
				r.CountTag("kind:whitespace-vs-canonical-equal", 1)
			}
			// keys and addresses from the two renderings agree for a few indices
			for _, ix := range []uint64{0, 1, rng.U64()} {
				k1, k2 := keyFromSeed(&s1, ix), keyFromSeed(&s2, ix)
				if !bytes.Equal(k1, k2) || types.StandardUnlockHash(k1.PublicKey()) != types.StandardUnlockHash(k2.PublicKey()) {
					c := &vh.Case{Name: fmt.Sprintf("ws-%d-key", i), Nontrivial: true, Info: map[string]any{"phrase": phrase}}
					c.Oracle("whitespace-variant-changes-key", "%q vs %q index %d", phrase, canon, ix)
					r.Add(c)
				}
			}
		}
	}
	// case changes of a valid phrase
	for i, n := 0, r.Pick(150, 3000); i < n; i++ {
		var toks []string
		for _, j := range validIdx(rng) {
			toks = append(toks, words[j])
		}
		p := rng.Intn(12)
		var name string
		switch rng.Intn(4) {
		case 0:
			toks[p] = strings.ToUpper(toks[p])
			name = "upper-word"
		case 1:
			toks[p] = strings.ToUpper(toks[p][:1]) + toks[p][1:]
			name = "title-word"
		case 2:
			for k := range toks {
				toks[k] = strings.ToUpper(toks[k])
			}
			name = "upper-all"
		default:
			b := []byte(toks[p])
			k := rng.Intn(len(b))
			b[k] = b[k] - 'a' + 'A'
			toks[p] = string(b)
			name = "one-letter"
		}
		phraseCase(r, fmt.Sprintf("case-%s-%d", name, i), strings.Join(toks, " "), "kind:case-"+name)
	}
	// fixed edge strings
	for i, s := range []string{"", " ", "\t\n", "abandon", strings.Repeat("abandon ", 11) + "about", strings.Repeat("abandon ", 12),
		strings.Repeat("zoo ", 11) + "wrong", strings.Repeat("zoo\u00a0", 11) + "wrong\u2029", strings.Repeat("abandon,", 11) + "about",
		strings.Repeat("abandon ", 11) + "about.", strings.Repeat("abandon\u200b", 11) + "about", strings.Repeat("abandon ", 11) + "About",
		strings.Repeat("abandon\x00", 11) + "about", "\u3000" + strings.Repeat("legal winner thank year wave sausage worth useful legal winner thank yellow", 1) + "\u0085"} {
		phraseCase(r, fmt.Sprintf("edge-%d", i), s, "kind:edge-string")
	}

	// 6. NewSeedPhrase: what the wallet hands to users round-trips (fresh entropy on every run;
	// the phrase is recorded in the case)
	for i, n := 0, r.Pick(300, 20000); i < n; i++ {
		phrase := wallet.NewSeedPhrase()
		c := &vh.Case{Name: fmt.Sprintf("newphrase-%d", i), Model: model, Nontrivial: true, Tags: []string{"kind:NewSeedPhrase"},
			Info: map[string]any{"phrase": phrase}}
		toks := refFields(phrase)
		refE, want := refDecodeTokens(toks)
		got, line := implDecode(phrase)
		c.Op(fmt.Sprintf("decp %d %s", h0ForTokens(toks), cpsStr(phrase)), line)
		if want != "ok" || len(strings.Split(phrase, " ")) != 12 {
			c.Oracle("newseedphrase-not-a-valid-phrase", "NewSeedPhrase() = %q: %s", phrase, want)
		}
		checkDecodeOracle(c, phrase, toks, refE, want, got, line)
		var s1, s2 [32]byte
		if err := seedFromPhrase(&s1, phrase); err != nil {
			c.Oracle("newseedphrase-rejected-by-seedfromphrase", "%q: %v", phrase, err)
		}
		seedFromPhrase(&s2, phrase)
		if s1 != s2 {
			c.Oracle("seedfromphrase-not-deterministic", "%q: %x then %x", phrase, s1, s2)
		}
		r.Add(c)
	}

	// 7. key derivation
	boundary := []uint64{0, 1, 2, 255, 256, 257, 65535, 65536, 1 << 24, 1<<32 - 1, 1 << 32, 1 << 40, 1 << 48, 1 << 56, 1<<56 + 1,
		0x0102030405060708, 0x0807060504030201, 1<<63 - 1, 1 << 63, 1<<64 - 2, 1<<64 - 1}
	for i, n := 0, r.Pick(60, 2000); i < n; i++ {
		var seed [32]byte
		switch {
		case i == 0: // all zero
		case i == 1:
			for k := range seed {
				seed[k] = 0xFF
			}
		default:
			rng.Bytes(seed[:])
		}
		ix := append([]uint64{}, boundary...)
		for k := 0; k < 10; k++ {
			ix = append(ix, rng.U64())
		}
		base := rng.U64() >> uint(rng.Intn(64))
		for k := uint64(0); k < 6; k++ { // consecutive indices, as a wallet uses them
			ix = append(ix, base+k)
		}
		kdfCase(r, fmt.Sprintf("kdf-%d", i), seed, dedup(ix), "kind:kdf")
	}
	// phrase → seed → key end to end against the independent derivation
	for i, n := 0, r.Pick(100, 5000); i < n; i++ {
		ent := randEntropy(rng)
		phrase := wallet.VerifEncodePhrase(ent)
		var seed [32]byte
		c := &vh.Case{Name: fmt.Sprintf("e2e-%d", i), Nontrivial: true, Tags: []string{"kind:phrase-to-key"}, Info: map[string]any{"phrase": phrase},
			Key: phrase}
		if err := seedFromPhrase(&seed, phrase); err != nil {
			c.Oracle("seedfromphrase-rejects-valid-phrase", "%q: %v", phrase, err)
		}
		want := blake2b.Sum256(ent[:])
		if len(c.Fails) == 0 && seed != want {
			c.Oracle("seedfromphrase-not-blake2b-of-entropy", "%q: %x want %x", phrase, seed, want)
		}
		ix := rng.U64()
		k := keyFromSeed(&seed, ix)
		if len(c.Fails) == 0 && !bytes.Equal(k, refKey(want, ix)) {
			c.Oracle("phrase-to-key-differs-from-documented-derivation", "%q index %d", phrase, ix)
		}
		r.Add(c)
	}

	// the same (seed, index) derives the same key when many derivations run at once
	for round := 0; round < r.Pick(3, 30); round++ {
		const workers = 16
		type job struct {
			seed [32]byte
			ix   uint64
		}
		jobs := make([]job, workers*64)
		for i := range jobs {
			rng.Bytes(jobs[i].seed[:])
			jobs[i].ix = rng.U64()
		}
		got := make([][]byte, len(jobs))
		var wg sync.WaitGroup
		for w := 0; w < workers; w++ {
			wg.Add(1)
			go func(w int) {
				defer wg.Done()
				for i := w; i < len(jobs); i += workers {
					s := jobs[i].seed
					got[i] = keyFromSeed(&s, jobs[i].ix)
				}
			}(w)
		}
		wg.Wait()
		c := &vh.Case{Name: fmt.Sprintf("kdf-concurrent-%d", round), Nontrivial: true, Tags: []string{"kind:kdf-concurrent"}}
		for i, j := range jobs {
			if !bytes.Equal(got[i], refKey(j.seed, j.ix)) {
				c.Oracle("keyfromseed-wrong-under-concurrent-calls", "KeyFromSeed(%x, %d) returned %x while %d other derivations were running; the documented derivation gives %x", j.seed, j.ix, got[i], workers-1, []byte(refKey(j.seed, j.ix)))
				break
			}
		}
		c.Op(fmt.Sprintf("concurrent-kdf %d", len(jobs)), "ok")
		c.Model = ""
		r.Add(c)
	}

	r.Extra("exhaustive_positions", fmt.Sprintf("%d base phrase(s) x 12 positions x 2048 values", r.Pick(1, 6)))
	r.Extra("unicode_code_points_checked_for_isSpace", 0x110000-2048)
	r.Assume("SHA-256, BLAKE2b and Ed25519 are not modelled: the model receives the first SHA-256 byte from crypto/sha256 and its hash pre-images are compared through golang.org/x/crypto/blake2b + crypto/ed25519")
	r.Assume("strings are valid UTF-8 (the tokeniser model works on code points); encoding/binary and strings.Fields/Join are modelled by their documented behaviour and tied by the differential run")
	r.Assume("NewSeedPhrase draws from frand: those cases differ between runs with the same VERIF_SEED (the drawn phrase is recorded in the case)")
}

func dedup(v []uint64) []uint64 {
	seen := map[uint64]bool{}
	var out []uint64
	for _, x := range v {
		if !seen[x] {
			seen[x] = true
			out = append(out, x)
		}
	}
	return out
}
