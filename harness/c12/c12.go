// Package c12: honest connected nodes converge to the same heaviest chain.
//
// 2–5 real syncer.Syncer nodes (real chain.Manager over MemDB, loopback TCP) are loaded with
// branches of a generated fork tree (before, across and after the v2 allow/require heights),
// connected in a line / star / ring / clique in a seeded order, and every node keeps announcing
// its tip (header, and the block outline when the tip is a v2 block) the way a live node does.
//
//	(T) the abstract gossip model (lean/Verif/Model/Sync.lean, driver "sync gossip") is given the
//	    tips' consensus-computed work/difficulty and the topology; in the decisive class (one chain
//	    sufficiently heavier than every other tip) it predicts the final common tip, which is
//	    compared with what the real nodes end on.
//	(O) in the decisive class all tips equal the heaviest valid chain within a deadline; in every
//	    class the final state is a fixpoint of the chain-selection rule (no node has a neighbour on
//	    a sufficiently heavier chain), every node's best chain re-validates on an independent
//	    manager, no node's total work ever decreases, and every node shuts down cleanly.
//
// Known finding (by design of the chain-selection rule): tips within a fifth of the difficulty
// of each other do not converge; such histories are classified from the works and difficulties
// of the tips (never from the outcome) as class near-tie-no-convergence.
package c12

import (
	"context"
	"fmt"
	"math/big"
	"os"
	"os/exec"
	"sort"
	"strings"
	"sync"
	"time"
	"verifharness/minex"

	"go.sia.tech/core/gateway"
	"go.sia.tech/core/types"
	"go.sia.tech/coreutils/chain"
	"go.sia.tech/coreutils/syncer"
	"verifharness/chainx"
	"verifharness/netx"
	"verifharness/vh"
)

func init() { vh.Register("C12", Run) }

type branch struct {
	from   int           // fork height on main (blocks shared with main)
	n      int           // own blocks
	dt     time.Duration // timestamp spacing of own blocks
	onMain bool          // a prefix of main of length from
	like   int           // >0: the same chain as node like-1 (several nodes settled on one tip)
}

// a lateOp happens after the network has settled: node mines n more blocks on its tip (v1: blocks
// without v2 data, legal below the require height) and adds them to its own manager
type lateOp struct {
	node int
	n    int
	v1   bool
	// pool: the node has transactions in its pool (a v1 one where v1 transactions are still legal,
	// a v2 one where v2 transactions already are), mines ONE block with them (coreutils.MineBlock)
	// and relays it as an outline built before the block was added, i.e. with the pool transactions
	// replaced by their hashes: a receiver on the block's parent has to ask for them
	pool bool
}

type spec struct {
	name      string
	allow     uint64
	require   uint64
	mainLen   int
	mainDt    time.Duration
	branches  []branch // one per node
	topo      string
	order     []int // permutation of the edge list
	flip      []bool
	bootstrap int // node index bootstrapped from a checkpoint (-1 = none)
	bootAt    int // checkpoint height (on main)
	sendCap   uint64
	tags      []string
	// staging: the edges NOT in lateEdges are connected first and the network settles (every peer
	// marked synced on both sides); then lateEdges are connected and the late operations happen
	lateEdges []int // indices into the edge list
	late      []lateOp
	// announce: "" = every node re-announces its tip every 150 ms; "once" = every node announces its
	// tip exactly once after the last connection / late operation (the relays the code itself
	// sends after a sync are all that carries a chain further than one hop)
	announce string
	// connTimeout: every node runs with this (short but valid) WithConnectTimeout, and the late
	// operations only happen once it has passed on every link: a handshake deadline must not
	// outlive the handshake
	connTimeout time.Duration
	// oldStore: these nodes run on a database written by the previous release (their v2 blocks above
	// the require height are stored in the previous record layout) and reopened
	oldStore []int
	// flushFail: the store of these nodes fails one Flush (the first one that has something to write
	// after the node has been started on its chain: the end of the reorg onto what it receives).
	// The failed reorg is rolled back, the serving peer dropped; the harness re-dials dropped links.
	// The node must still end on the heaviest chain when the same blocks are delivered again.
	flushFail []int
	// lateStart: the main chain's first block is years younger than the genesis block, so that the
	// difficulty stays at its minimum (for chains of thousands of blocks)
	lateStart bool
}

func edgesOf(topo string, n int) [][2]int {
	var es [][2]int
	switch topo {
	case "line":
		for i := 0; i+1 < n; i++ {
			es = append(es, [2]int{i, i + 1})
		}
	case "star":
		for i := 1; i < n; i++ {
			es = append(es, [2]int{0, i})
		}
	case "ring":
		for i := 0; i < n; i++ {
			j := (i + 1) % n
			if n == 2 && i == 1 {
				break
			}
			es = append(es, [2]int{i, j})
		}
	default: // clique
		for i := 0; i < n; i++ {
			for j := i + 1; j < n; j++ {
				es = append(es, [2]int{i, j})
			}
		}
	}
	return es
}

func Run(r *vh.Run) {
	r.Rule = "one case = (network heights, main chain, one branch per node: fork height x length x timestamp spacing, topology, connection order and direction, optional checkpoint bootstrap). A fixed core covers every topology x {decisive, near-tie} x {before, across, after the v2 heights} x {fork point inside/outside the 10 most recent history entries, more than 100 blocks}; the rest is drawn from the seed. Non-trivial = at least two nodes start on different tips; distinct = different (tips' fork points/lengths, topology, order)."
	rng := vh.NewRNG(r.Seed)
	specs := coreSpecs()
	n := r.Pick(50, 900)
	for i := 0; i < n; i++ {
		specs = append(specs, randomSpec(rng.Fork(), i))
	}
	if r.Only != "" {
		var sel []spec
		for _, s := range specs {
			if s.name == r.Only {
				sel = append(sel, s)
			}
		}
		specs = sel
	}
	cases := make([]*vh.Case, len(specs))
	sem := make(chan struct{}, 14)
	var wg sync.WaitGroup
	for i := range specs {
		wg.Add(1)
		sem <- struct{}{}
		go func(i int) {
			defer wg.Done()
			defer func() { <-sem }()
			ip := fmt.Sprintf("127.%d.%d", 70+(i/200)%50, i%200+1)
			if len(specs[i].oldStore) > 0 && os.Getenv("VERIF_C12_CHILD") == "" {
				cases[i] = isolated(r, specs[i])
			} else {
				cases[i] = runSpec(specs[i], ip)
			}
		}(i)
	}
	wg.Wait()
	for _, c := range cases {
		if c != nil {
			if os.Getenv("VERIF_DEBUG") != "" && len(c.Ops) > 0 {
				fmt.Printf("%-34s %v %s => %s %v\n", c.Name, c.Tags, c.Ops[len(c.Ops)-1], c.Impl[len(c.Impl)-1], c.Fails)
			}
			r.Add(c)
		}
	}
	r.Assume("the theorems are about the abstract gossip system (a pull step moves a node iff the neighbour's chain is sufficiently heavier) under fair schedules; that one real sync round delivers the neighbour's chain is C11's decision logic + history_finds_ancestor")
	r.Assume("network timing and resource exhaustion are not modelled; convergence on the implementation is 'within 40 s' with every node re-announcing its tip every 150 ms")
	r.Assume("a node bootstrapped from a checkpoint cannot reorg below it (MinReorgIndex): bootstrapped nodes are only combined with forks that diverge above the checkpoint")
}

func coreSpecs() []spec {
	var out []spec
	add := func(s spec) {
		if s.allow == 0 {
			s.allow, s.require = 6, 10
		}
		if s.mainDt == 0 {
			s.mainDt = time.Second
		}
		if s.bootAt == 0 {
			s.bootstrap = -1
		}
		out = append(out, s)
	}
	m := func(k int) branch { return branch{from: k, onMain: true} }
	f := func(from, n int, dt time.Duration) branch { return branch{from: from, n: n, dt: dt} }
	for _, topo := range []string{"line", "star", "ring", "clique"} {
		// decisive, all below the allow height (v1 blocks only)
		add(spec{name: "core-v1-decisive-" + topo, mainLen: 5, branches: []branch{m(5), m(2), f(1, 2, 2*time.Second), m(0)}, topo: topo})
		// decisive, forks across allow and require heights
		add(spec{name: "core-across-decisive-" + topo, mainLen: 16, branches: []branch{f(4, 6, 2*time.Second), m(16), f(8, 3, time.Second), m(9)}, topo: topo})
		// decisive, everything above the require height (checkpoint path between nodes)
		add(spec{name: "core-v2-decisive-" + topo, mainLen: 22, branches: []branch{m(14), f(12, 4, 2*time.Second), m(22), f(15, 3, time.Second)}, topo: topo})
		// near-tie: two equally long forks with different timestamps
		add(spec{name: "core-neartie-" + topo, mainLen: 18, branches: []branch{m(18), f(14, 4, 3*time.Second), m(15)}, topo: topo})
	}
	// one block ahead on the same chain, v1 and v2 (header announcement attaches to the tip)
	add(spec{name: "core-one-ahead-v1", mainLen: 4, branches: []branch{m(3), m(0), m(4)}, topo: "line"})
	add(spec{name: "core-one-ahead-v2", mainLen: 15, branches: []branch{m(14), m(0), m(15)}, topo: "line"})
	// fork point deeper than the ten most recent history entries, and deeper than the 11/15/23 sample
	add(spec{name: "core-deep-fork-13", mainLen: 40, branches: []branch{m(40), f(27, 9, 2*time.Second)}, topo: "line"})
	add(spec{name: "core-deep-fork-30", mainLen: 60, branches: []branch{f(30, 24, 2*time.Second), m(60), m(3)}, topo: "ring"})
	// more than 100 blocks: the request split, v1 request then checkpoint requests
	add(spec{name: "core-long-205", mainLen: 205, branches: []branch{m(205), m(0), f(150, 20, 2*time.Second)}, topo: "line"})
	add(spec{name: "core-long-fork-101", mainLen: 130, branches: []branch{f(20, 101, 2*time.Second), m(130)}, topo: "line"})
	// more headers than one SendHeaders reply holds (10000, not configurable), and a quiet network:
	// tips are announced once, the rest must come from the sync loop asking again
	add(spec{name: "core-long-10040-quiet", mainLen: 10040, branches: []branch{m(10040), m(0)}, topo: "line", announce: "once", lateStart: true})
	// a node bootstrapped from a checkpoint (instant sync)
	add(spec{name: "core-bootstrap-behind", mainLen: 30, branches: []branch{m(14), m(30), f(20, 4, 2*time.Second)}, topo: "line", bootstrap: 0, bootAt: 14})
	add(spec{name: "core-bootstrap-ahead", mainLen: 30, branches: []branch{m(30), m(19), f(22, 3, 2*time.Second)}, topo: "star", bootstrap: 0, bootAt: 18})
	// two nodes only: the full node's history sample (tip, 9 below, then 11, 15, 23, … below) does
	// not contain the checkpoint block, so it finds no common history with the checkpoint node
	add(spec{name: "core-bootstrap-two-nodes-off-sample", mainLen: 30, branches: []branch{m(14), m(30)}, topo: "line", bootstrap: 0, bootAt: 14})
	add(spec{name: "core-bootstrap-two-nodes-off-sample-dialed", mainLen: 40, branches: []branch{m(40), m(22)}, topo: "line", bootstrap: 1, bootAt: 18, flip: []bool{true}})
	add(spec{name: "core-bootstrap-on-fork", mainLen: 30, branches: []branch{f(24, 3, 2*time.Second), m(30), m(21)}, topo: "ring", bootstrap: 0, bootAt: 20})
	// late joiner on a line: the far nodes are connected and settled (everybody marked synced)
	// before the heavy node joins at one end; the heavy chain reaches its neighbour through the
	// sync loop and the others only through the relay that follows a sync. Tips announced once.
	like := func(j int) branch { return branch{like: j + 1} }
	for _, lj := range []struct {
		name           string
		allow, require uint64
		mainLen        int
		br             []branch
		late           []int
	}{
		{"v2-fork", 6, 10, 26, []branch{m(26), f(20, 2, 2*time.Second), like(1)}, []int{0}},
		{"v1-fork", 6, 10, 5, []branch{m(5), f(1, 2, 2*time.Second), like(1)}, []int{0}},
		{"across-extension", 6, 10, 14, []branch{m(14), m(7), like(1)}, []int{0}},
		{"four-nodes", 6, 10, 24, []branch{m(24), f(15, 3, 2*time.Second), like(1), like(1)}, []int{0}},
		{"heavy-at-far-end", 3, 5, 18, []branch{m(9), like(0), m(18)}, []int{1}},
	} {
		add(spec{name: "core-late-joiner-" + lj.name, allow: lj.allow, require: lj.require, mainLen: lj.mainLen, branches: lj.br, topo: "line",
			lateEdges: lj.late, announce: "once"})
		add(spec{name: "core-late-joiner-" + lj.name + "-reannounce", allow: lj.allow, require: lj.require, mainLen: lj.mainLen, branches: lj.br, topo: "line",
			lateEdges: lj.late})
	}
	// one block behind after settling: the nodes share a tip, consider each other synced, then one
	// of them finds the next block. Below the allow height and in the allow..require window the
	// block may be a v1 block, which only a header can announce.
	for _, ob := range []struct {
		name           string
		allow, require uint64
		h              int
		v1             bool
	}{
		{"below-allow", 6, 10, 3, true},
		{"v1-at-allow", 6, 10, 5, true},
		{"v1-in-window", 6, 10, 7, true},
		{"v1-last-before-require", 6, 10, 8, true},
		{"v2-in-window", 6, 10, 7, false},
		{"v2-at-require", 6, 10, 9, false},
		{"v2-above-require", 6, 10, 14, false},
		{"v1-in-window-n8-20", 8, 20, 13, true},
	} {
		add(spec{name: "core-one-behind-after-settle-" + ob.name, allow: ob.allow, require: ob.require, mainLen: ob.h, branches: []branch{m(ob.h), m(ob.h)}, topo: "line",
			late: []lateOp{{node: 0, n: 1, v1: ob.v1}}})
		add(spec{name: "core-one-behind-after-settle-" + ob.name + "-3nodes", allow: ob.allow, require: ob.require, mainLen: ob.h, branches: []branch{m(ob.h), m(ob.h), m(ob.h)}, topo: "line",
			late: []lateOp{{node: 2, n: 1, v1: ob.v1}}, announce: "once"})
	}
	// a miner with a non-empty pool relays its block as an outline whose pool transactions are
	// hashes only; the receivers sit on the block's parent and have empty pools
	for _, po := range []struct {
		name            string
		allow, require  uint64
		h, nodes, miner int
		once            bool
	}{
		{"window-2nodes", 6, 10, 7, 2, 0, true},
		{"window-3nodes-line", 6, 10, 7, 3, 0, false},
		{"at-allow", 6, 10, 5, 2, 1, true},
		{"last-before-require", 6, 10, 8, 3, 2, true},
		{"above-require", 6, 10, 13, 2, 0, true},
		{"window-n8-20", 8, 20, 12, 3, 1, false},
	} {
		br := make([]branch, po.nodes)
		for i := range br {
			br[i] = m(po.h)
		}
		sp := spec{name: "core-pool-outline-" + po.name, allow: po.allow, require: po.require, mainLen: po.h, branches: br, topo: "line",
			late: []lateOp{{node: po.miner, n: 1, pool: true}}}
		if po.once {
			sp.announce = "once"
		}
		add(sp)
	}
	// links that are used again after the (short) connect timeout has long passed: a new block,
	// a late joiner with a heavier chain that has to travel over the old links
	add(spec{name: "core-idle-link-then-block-v2", mainLen: 14, branches: []branch{m(14), m(14), m(14)}, topo: "line",
		late: []lateOp{{node: 0, n: 2}}, connTimeout: time.Second, flip: []bool{false, true}})
	add(spec{name: "core-idle-link-then-block-v1", mainLen: 3, branches: []branch{m(3), m(3)}, topo: "line",
		late: []lateOp{{node: 1, n: 1, v1: true}}, connTimeout: time.Second, announce: "once"})
	add(spec{name: "core-idle-link-then-joiner", mainLen: 22, branches: []branch{m(22), f(12, 3, 2*time.Second), like(1), like(1)}, topo: "line",
		lateEdges: []int{0}, connTimeout: time.Second, flip: []bool{true, false, true}})
	add(spec{name: "core-idle-link-then-pool-outline", mainLen: 7, branches: []branch{m(7), m(7), m(7)}, topo: "star",
		late: []lateOp{{node: 1, n: 1, pool: true}}, connTimeout: 1500 * time.Millisecond})
	// a node whose database was written by the previous release (block records above the require
	// height in the previous layout): it holds the heaviest chain and the others must learn it; it
	// is behind and must extend its chain; it is on a lighter fork and must reorganise across them
	add(spec{name: "core-oldstore-heaviest", mainLen: 24, branches: []branch{m(24), m(0), f(13, 4, 2*time.Second)}, topo: "line", oldStore: []int{0}})
	add(spec{name: "core-oldstore-heaviest-star", mainLen: 18, branches: []branch{m(12), m(18), m(15), f(11, 3, 2*time.Second)}, topo: "star", oldStore: []int{1, 3}, flip: []bool{true, false, true}})
	add(spec{name: "core-oldstore-behind", mainLen: 26, branches: []branch{m(16), m(26)}, topo: "line", oldStore: []int{0}})
	add(spec{name: "core-oldstore-must-reorg", mainLen: 26, branches: []branch{f(13, 6, 2*time.Second), m(26), m(14)}, topo: "ring", oldStore: []int{0, 2}})
	// a node whose store fails one Flush, at the end of the reorg onto the chain it receives: the
	// reorg is rolled back (the whole branch stays stored, with supplements), the same blocks are
	// delivered again. Fork below the require height (AddBlocks), plain extension, fork above it
	add(spec{name: "core-flushfail-lighter-fork-v1", mainLen: 20, branches: []branch{f(3, 5, 2*time.Second), m(20)}, topo: "line", flushFail: []int{0}})
	add(spec{name: "core-flushfail-behind-v1", mainLen: 9, branches: []branch{m(9), m(2), m(4)}, topo: "line", flushFail: []int{1, 2}})
	add(spec{name: "core-flushfail-across", mainLen: 18, branches: []branch{m(18), f(7, 4, 2*time.Second), f(2, 3, 2*time.Second)}, topo: "star", flushFail: []int{1, 2}})
	add(spec{name: "core-flushfail-fork-v2", mainLen: 24, branches: []branch{f(13, 3, 2*time.Second), m(24)}, topo: "line", flushFail: []int{0}, flip: []bool{true}})
	// small request sizes (every node started with the same WithMaxSendBlocks)
	add(spec{name: "core-sendcap-3", mainLen: 16, branches: []branch{m(16), m(2), f(9, 4, 2*time.Second)}, topo: "line", sendCap: 3})
	add(spec{name: "core-sendcap-1", mainLen: 14, branches: []branch{f(3, 5, 2*time.Second), m(14)}, topo: "line", sendCap: 1})
	return out
}

func randomSpec(rng *vh.RNG, i int) spec {
	nets := [][2]uint64{{6, 10}, {6, 10}, {3, 5}, {1, 1}, {8, 20}}
	nw := nets[rng.Intn(len(nets))]
	s := spec{name: fmt.Sprintf("rnd%d", i), allow: nw[0], require: nw[1], bootstrap: -1}
	s.mainLen = 3 + rng.Intn(30)
	if rng.Chance(1, 12) {
		s.mainLen = 95 + rng.Intn(30)
	}
	s.mainDt = time.Duration(1+rng.Intn(2)) * time.Second
	n := 2 + rng.Intn(4)
	for k := 0; k < n; k++ {
		if rng.Chance(2, 5) {
			s.branches = append(s.branches, branch{from: rng.Intn(s.mainLen + 1), onMain: true})
		} else {
			from := rng.Intn(s.mainLen)
			b := branch{from: from, dt: time.Duration(1+rng.Intn(3)) * time.Second}
			switch rng.Intn(4) {
			case 0: // same length as the rest of main: near-tie candidates
				b.n = s.mainLen - from
			case 1:
				b.n = s.mainLen - from + 1
			default:
				b.n = 1 + rng.Intn(8)
			}
			s.branches = append(s.branches, b)
		}
	}
	if rng.Chance(1, 4) {
		s.sendCap = []uint64{1, 3, 7}[rng.Intn(3)]
	}
	s.topo = []string{"line", "star", "ring", "clique"}[rng.Intn(4)]
	es := edgesOf(s.topo, n)
	s.order = rng.Perm(len(es))
	for range es {
		s.flip = append(s.flip, rng.Bool())
	}
	switch rng.Intn(8) {
	case 0:
		// staged: some edges are connected only after the rest has settled
		for k := range es {
			if rng.Chance(1, 3) {
				s.lateEdges = append(s.lateEdges, k)
			}
		}
	case 1:
		// late joiner on a line, tips announced once: node 0 is heavy, the others share one tip
		s.topo = "line"
		n = 3 + rng.Intn(2)
		c := 1 + rng.Intn(s.mainLen-1)
		x := rng.Intn(3)
		others := branch{from: c, n: x, dt: 2 * time.Second}
		if x == 0 {
			others = branch{from: c, onMain: true}
		}
		s.branches = []branch{{from: s.mainLen, onMain: true}, others}
		if c+x+2 > s.mainLen {
			s.branches[0] = branch{from: c, n: x + 2 + rng.Intn(5), dt: time.Second}
		}
		for k := 2; k < n; k++ {
			s.branches = append(s.branches, branch{like: 2})
		}
		s.order, s.flip = nil, nil
		s.lateEdges = []int{0}
		s.announce = "once"
	case 2:
		// everybody on one tip, settle, then one node finds 1-2 blocks (v1 where that is legal)
		h := rng.Intn(s.mainLen + 1)
		for k := range s.branches {
			s.branches[k] = branch{from: h, onMain: true}
		}
		v1 := uint64(h+1) < s.require && rng.Chance(2, 3)
		s.late = []lateOp{{node: rng.Intn(n), n: 1 + rng.Intn(2), v1: v1}}
		if uint64(h+1) >= s.allow && rng.Bool() {
			s.late = []lateOp{{node: rng.Intn(n), n: 1, pool: true}}
		}
		if rng.Bool() {
			s.announce = "once"
		}
	}
	if s.bootstrap < 0 && rng.Chance(1, 5) {
		// one or two nodes run on a database written by the previous release
		s.oldStore = []int{rng.Intn(n)}
		if rng.Bool() {
			s.oldStore = append(s.oldStore, rng.Intn(n))
		}
	}
	if s.bootstrap < 0 && len(s.oldStore) == 0 && len(s.lateEdges) == 0 && len(s.late) == 0 && rng.Chance(1, 6) {
		// one node's store fails one Flush
		s.flushFail = []int{rng.Intn(n)}
	}
	// staged specs: sometimes with a short connect timeout that passes before the second stage
	if (len(s.lateEdges) > 0 || len(s.late) > 0) && rng.Chance(2, 5) {
		s.connTimeout = time.Duration(1000+rng.Intn(800)) * time.Millisecond
	}
	return s
}

// isolated runs a spec in a child process of the harness: a node that panics in its block-ingestion
// goroutine (which has no recover) takes the whole process down, and that must be an observation
// ("process-crashed") with the spec as failing input, not the end of the run. Used for the specs
// with nodes on old-format stores, where an unreadable record shows up exactly like that.
func isolated(r *vh.Run, s spec) *vh.Case {
	c := &vh.Case{Name: s.name, Nontrivial: true, Key: "isolated:" + s.name, Tags: []string{"isolated:child-process", "store:old-format-block-records", "topo:" + s.topo}}
	dir, err := os.MkdirTemp("", "c12child")
	if err != nil {
		c.Oracle("harness-isolate", "%v", err)
		return c
	}
	defer os.RemoveAll(dir)
	ctx, cancel := context.WithTimeout(context.Background(), 200*time.Second)
	defer cancel()
	var out []byte
	code := 0
	for attempt := 0; attempt < 4; attempt++ {
		cmd := exec.CommandContext(ctx, os.Args[0], "C12", "-tier", r.Tier, "-seed", fmt.Sprint(r.Seed), "-drv", r.Drv, "-out", dir, "-only", s.name)
		cmd.Env = append(os.Environ(), "VERIF_C12_CHILD=1")
		out, _ = cmd.CombinedOutput()
		code = cmd.ProcessState.ExitCode()
		// an abnormal exit that is not a Go panic / runtime fatal error is the harness's own trouble
		// (e.g. the model driver binary being relinked by a concurrent build): try again
		if code == 0 || code == 1 || strings.Contains(string(out), "panic:") || strings.Contains(string(out), "fatal error:") {
			break
		}
		time.Sleep(3 * time.Second)
	}
	c.Op("isolated "+s.name, fmt.Sprintf("exit %d", code))
	text := string(out)
	switch code {
	case 0:
	case 1:
		for _, l := range strings.Split(text, "\n") {
			t := strings.TrimSpace(l)
			for _, kind := range []string{"oracle", "corr"} {
				if strings.HasPrefix(t, kind+"[") {
					if i := strings.Index(t, "]"); i > 0 {
						c.Fail(kind, t[len(kind)+1:i], t[i+1:])
					}
				}
			}
		}
		if len(c.Fails) == 0 && !strings.Contains(text, "KNOWN-FINDING") {
			c.Oracle("child-failed", "%s", text[:min(len(text), 600)])
		}
	default:
		msg := text
		if i := strings.Index(text, "panic:"); i >= 0 {
			msg = text[i:]
		}
		c.Oracle("process-crashed", "the node process died (exit %d) while running this spec: %s", code, msg[:min(len(msg), 900)])
	}
	return c
}

type nodeRec struct {
	n     *netx.Node
	trace *workTrace
	start *big.Int
	base  []types.Block // blocks below a bootstrapped node's checkpoint (for the audit), else nil
}

type workTrace = netx.WorkTrace

func traceWork(n *netx.Node) *workTrace { return netx.TraceWork(n) }

var (
	mainMu sync.Mutex
	mains  = map[string]*netx.Chain{}
)

func mainChain(allow, require uint64, n int, dt time.Duration, lateStart bool) *netx.Chain {
	key := fmt.Sprintf("%d/%d/%d/%v/%v", allow, require, n, dt, lateStart)
	mainMu.Lock()
	defer mainMu.Unlock()
	if c, ok := mains[key]; ok {
		return c
	}
	nt := netx.NewNet(allow, require, 0x00, 0x40)
	c := nt.NewChain()
	if lateStart && n > 0 {
		// the first block comes long after the genesis block (the chain ends an hour ago): the chain
		// is far behind the schedule the difficulty adjustment aims at, the difficulty falls to its
		// minimum and stays there, and ten thousand blocks are mined in a second
		c.Mine(netx.MineOpts{Dt: time.Since(nt.Genesis.Timestamp) - time.Duration(n+3600)*time.Second, Addr: types.Address{1}})
		n--
	}
	c.MineN(n, dt, 1)
	mains[key] = c
	return c
}

func runSpec(s spec, ip string) *vh.Case {
	c := &vh.Case{Name: s.name, Model: "sync gossip", Key: s.name}
	main := mainChain(s.allow, s.require, s.mainLen, s.mainDt, s.lateStart)
	nt := main.Net
	reg := netx.NewReg(nt)
	reg.AddChain(main)
	n := len(s.branches)
	chains := make([][]types.Block, n)
	for i, b := range s.branches {
		if b.like > 0 {
			chains[i] = chains[b.like-1]
			continue
		}
		if b.onMain {
			chains[i] = main.Blocks[:b.from]
			continue
		}
		f := main.Fork(b.from)
		f.MineN(b.n, b.dt, byte(0x20+i))
		reg.AddChain(f)
		chains[i] = f.Blocks
	}
	// late operations are prepared up front (they are only used in specs in which the node that
	// mines is still on its initial tip when the network has settled)
	eff := append([][]types.Block(nil), chains...)
	lateBlocks := map[int][]types.Block{}
	lateOutline := map[int]*gateway.V2BlockOutline{}
	for k, op := range s.late {
		f := nt.ChainFrom(eff[op.node])
		if op.pool {
			h := uint64(len(eff[op.node])) + 1
			if h < s.require {
				f.CM.AddPoolTransactions([]types.Transaction{{ArbitraryData: [][]byte{[]byte(fmt.Sprintf("pool v1 %d", k))}}})
			}
			if h >= s.allow {
				f.CM.AddV2PoolTransactions(f.CM.Tip(), []types.V2Transaction{{ArbitraryData: []byte(fmt.Sprintf("pool v2 %d", k))}})
			}
			b, ok := minex.MineBlock(f.CM, types.Address{0x41, byte(k)})
			if !ok {
				c.Oracle("harness-late-block", "could not mine the pool block")
				return c
			}
			if b.V2 != nil {
				ol := gateway.OutlineBlock(b, f.CM.PoolTransactions(), f.CM.V2PoolTransactions())
				lateOutline[op.node] = &ol
			}
			if err := f.CM.AddBlocks([]types.Block{b}); err != nil {
				c.Oracle("harness-late-block", "pool block rejected by its own miner: %v", err)
				return c
			}
			f.Blocks = append(f.Blocks, b)
			f.States = append(f.States, f.CM.TipState())
			lateBlocks[op.node] = append(lateBlocks[op.node], b)
			reg.AddChain(f)
			eff[op.node] = f.Blocks
			continue
		}
		for j := 0; j < op.n; j++ {
			b := f.Mine(netx.MineOpts{V1: op.v1, Dt: 2 * time.Second, Addr: types.Address{0x40, byte(k), byte(j)}})
			lateBlocks[op.node] = append(lateBlocks[op.node], b)
		}
		reg.AddChain(f)
		eff[op.node] = f.Blocks
	}
	// the tips the network has to agree on: model ids, works, difficulties
	tipID := make([]int, n)
	for i := range eff {
		if len(eff[i]) > 0 {
			tipID[i] = reg.IDOfHeader(eff[i][len(eff[i])-1].ID())
		}
	}
	distinct := map[int]bool{}
	for _, t := range tipID {
		distinct[t] = true
	}
	c.Nontrivial = len(distinct) > 1
	heavier := func(a, b int) bool {
		ra, rb := reg.Get(a), reg.Get(b)
		return netx.Heavier(ra.Work, rb.Work, rb.Diff)
	}
	decisive := -1
	for _, cand := range tipID {
		ok := true
		for _, t := range tipID {
			if t != cand && !heavier(cand, t) {
				ok = false
			}
		}
		if ok {
			decisive = cand
			break
		}
	}
	class := "class:decisive"
	if decisive < 0 {
		class = "class:near-tie"
	}
	regime := "regime:across"
	maxH, minFork := 0, 1<<30
	for i, b := range s.branches {
		if h := len(chains[i]); h > maxH {
			maxH = h
		}
		if b.from < minFork {
			minFork = b.from
		}
	}
	if uint64(maxH) < s.allow {
		regime = "regime:v1-only"
	} else if uint64(minFork) >= s.require {
		regime = "regime:v2-only"
	}
	c.Tags = append([]string{class, "topo:" + s.topo, fmt.Sprintf("nodes:%d", n), regime, fmt.Sprintf("net:%d-%d", s.allow, s.require)}, s.tags...)
	if maxH > 100 {
		c.Tags = append(c.Tags, "len:>100")
	}
	if s.bootstrap >= 0 {
		c.Tags = append(c.Tags, "bootstrap:checkpoint")
	}
	if len(s.lateEdges) > 0 {
		c.Tags = append(c.Tags, "staged:late-joiner")
	}
	for _, op := range s.late {
		kind := "v2"
		if op.v1 {
			kind = "v1"
		}
		if op.pool {
			kind = "pool-outline"
		}
		c.Tags = append(c.Tags, fmt.Sprintf("late-block:%s", kind))
	}
	if s.announce == "once" {
		c.Tags = append(c.Tags, "announce:once")
	}

	// start the nodes
	var opts []syncer.Option
	if s.sendCap > 0 {
		opts = append(opts, syncer.WithMaxSendBlocks(s.sendCap))
		c.Tags = append(c.Tags, fmt.Sprintf("sendcap:%d", s.sendCap))
	}
	if s.connTimeout > 0 {
		opts = append(opts, syncer.WithConnectTimeout(s.connTimeout))
		c.Tags = append(c.Tags, "connect-timeout:short")
	}
	isOld := map[int]bool{}
	for _, i := range s.oldStore {
		if i != s.bootstrap {
			isOld[i] = true
		}
	}
	isFlaky := map[int]bool{}
	for _, i := range s.flushFail {
		if i != s.bootstrap && !isOld[i] {
			isFlaky[i] = true
		}
	}
	probes := make([]*chainx.ProbeStore, n)
	if len(isFlaky) > 0 {
		c.Tags = append(c.Tags, "store:one-flush-fails")
	}
	oldRecords := 0
	nodes := make([]*nodeRec, n)
	for i := range chains {
		var nd *netx.Node
		var base []types.Block
		if i == s.bootstrap && s.bootAt >= 1 && s.bootAt <= len(chains[i]) {
			// instant sync: the store is initialised from the checkpoint block and its parent state
			cs := main.StateBefore(s.bootAt - 1)
			b := main.Blocks[s.bootAt-1]
			store, tipState, err := chain.NewDBStoreAtCheckpoint(chain.NewMemDB(), cs, b, nil)
			if err != nil {
				c.Oracle("harness-bootstrap", "NewDBStoreAtCheckpoint: %v", err)
				return c
			}
			cm := chain.NewManager(store, tipState)
			nd = nt.NewNodeWith(cm, fmt.Sprintf("%s.%d", ip, i+1), opts...)
			for _, blk := range chains[i][s.bootAt:] {
				if err := cm.AddBlocks([]types.Block{blk}); err != nil {
					c.Oracle("harness-bootstrap", "loading above the checkpoint: %v", err)
				}
			}
			base = main.Blocks[:s.bootAt]
		} else if isFlaky[i] {
			nd, probes[i] = nt.NewFlushFaultNode(fmt.Sprintf("%s.%d", ip, i+1), opts...)
			nd.Load(chains[i])
			probes[i].FailNextFlush()
		} else if isOld[i] {
			var k int
			var err error
			nd, k, err = nt.NewOldStoreNode(chains[i], fmt.Sprintf("%s.%d", ip, i+1), opts...)
			if err != nil {
				c.Oracle("reopen-error", "node %d: a store with %d block records in the previous layout could not be prepared / reopened: %v", i, k, err)
				for _, nr := range nodes[:i] {
					nr.n.Close()
				}
				return c
			}
			if k > 0 {
				oldRecords += k
			}
			if want := (types.ChainIndex{Height: uint64(len(chains[i])), ID: nt.Genesis.ID()}); len(chains[i]) > 0 {
				want.ID = chains[i][len(chains[i])-1].ID()
				if nd.CM.Tip() != want {
					c.Oracle("restart-changed-chain", "node %d reopened on its store (%d block records in the previous layout) is on %v, it was on %v", i, k, nd.CM.Tip(), want)
				}
			}
		} else {
			nd = nt.NewNode(fmt.Sprintf("%s.%d", ip, i+1), opts...)
			nd.Load(chains[i])
		}
		nodes[i] = &nodeRec{n: nd, trace: traceWork(nd), start: netx.WorkOf(nd.CM.TipState().TotalWork), base: base}
	}
	if oldRecords > 0 {
		c.Tags = append(c.Tags, "store:old-format-block-records")
	}
	for _, l := range reg.Lines {
		c.Op(l, "ok")
	}
	nl := "nodes"
	for _, t := range tipID {
		nl += fmt.Sprintf(" %d", t)
	}
	c.Op(nl, "ok")
	es := edgesOf(s.topo, n)
	order := s.order
	if len(order) != len(es) {
		order = make([]int, len(es))
		for i := range order {
			order[i] = i
		}
	}
	isLate := map[int]bool{}
	for _, k := range s.lateEdges {
		isLate[k] = true
	}
	degree := make([]int, n)
	var lastConnect time.Time
	connect := func(late bool) {
		for _, k := range order {
			if isLate[k] != late {
				continue
			}
			e := es[k]
			a, b := e[0], e[1]
			if k < len(s.flip) && s.flip[k] {
				a, b = b, a
			}
			var err error
			for try := 0; try < 3; try++ {
				ctx, cancel := context.WithTimeout(context.Background(), 5*time.Second)
				_, err = nodes[a].n.S.Connect(ctx, nodes[b].n.Addr())
				cancel()
				if err == nil || s.connTimeout == 0 {
					// (a short connect timeout may expire on a loaded machine: the dial is repeated)
					break
				}
				time.Sleep(200 * time.Millisecond)
			}
			lastConnect = time.Now()
			if err != nil {
				c.Oracle("harness-connect", "connect %d->%d: %v", a, b, err)
			}
			degree[a]++
			degree[b]++
			c.Op(fmt.Sprintf("edge %d %d", e[0], e[1]), "ok")
		}
	}
	announceOnce := func(nd *netx.Node) {
		b, ok := nd.CM.Block(nd.CM.Tip().ID)
		if !ok || nd.CM.Tip().Height == 0 {
			return
		}
		nd.S.BroadcastV2Header(b.Header())
		if b.V2 != nil {
			nd.S.BroadcastV2BlockOutline(gateway.OutlineBlock(b, nd.CM.PoolTransactions(), nd.CM.V2PoolTransactions()))
		}
	}
	connect(false)
	if len(s.lateEdges) > 0 || len(s.late) > 0 {
		// settle: every node sees all its peers, every peer is marked synced on both sides, for 300 ms
		settled := func() bool {
			for i, nr := range nodes {
				ps := nr.n.S.Peers()
				if len(ps) != degree[i] {
					return false
				}
				for _, p := range ps {
					if !p.Synced() {
						return false
					}
				}
			}
			return true
		}
		ok := netx.WaitFor(25*time.Second, func() bool {
			if !settled() {
				return false
			}
			time.Sleep(300 * time.Millisecond)
			return settled()
		})
		if !ok {
			c.Oracle("settle-phase-stalled", "the first-stage network (%d edges) did not settle (all peers marked synced) within 25 s", len(es)-len(s.lateEdges))
		}
		if s.connTimeout > 0 {
			// let the handshake deadline of every link pass while the links are idle
			time.Sleep(time.Until(lastConnect.Add(s.connTimeout + 700*time.Millisecond)))
		}
		connect(true)
		for _, op := range s.late {
			for _, b := range lateBlocks[op.node] {
				if err := nodes[op.node].n.CM.AddBlocks([]types.Block{b}); err != nil {
					c.Oracle("harness-late-block", "node %d rejected its own late block: %v", op.node, err)
				}
			}
			if ol := lateOutline[op.node]; ol != nil {
				// the miner announces its block the way a miner does: header, then the outline it built
				// from its pool (pool transactions as hashes only)
				b := lateBlocks[op.node][len(lateBlocks[op.node])-1]
				nodes[op.node].n.S.BroadcastV2Header(b.Header())
				nodes[op.node].n.S.BroadcastV2BlockOutline(*ol)
			}
		}
	}

	// tips are announced: periodically by every node, or exactly once
	stop := make(chan struct{})
	var awg sync.WaitGroup
	if s.announce == "once" {
		time.Sleep(150 * time.Millisecond) // let the last connection's handshake finish on both sides
		for _, nr := range nodes {
			announceOnce(nr.n)
		}
	}
	for _, nr := range nodes {
		if s.announce == "once" {
			break
		}
		awg.Add(1)
		go func(nd *netx.Node) {
			defer awg.Done()
			t := time.NewTicker(150 * time.Millisecond)
			defer t.Stop()
			for {
				select {
				case <-stop:
					return
				case <-t.C:
					b, ok := nd.CM.Block(nd.CM.Tip().ID)
					if !ok || nd.CM.Tip().Height == 0 {
						continue
					}
					nd.S.BroadcastV2Header(b.Header())
					if b.V2 != nil {
						nd.S.BroadcastV2BlockOutline(gateway.OutlineBlock(b, nd.CM.PoolTransactions(), nd.CM.V2PoolTransactions()))
					}
				}
			}
		}(nr.n)
	}

	if len(isFlaky) > 0 {
		// a node whose reorg failed drops the peer that served the blocks: re-dial what is missing
		awg.Add(1)
		go func() {
			defer awg.Done()
			t := time.NewTicker(300 * time.Millisecond)
			defer t.Stop()
			for {
				select {
				case <-stop:
					return
				case <-t.C:
					for k, e := range es {
						if len(nodes[e[0]].n.S.Peers()) >= degree[e[0]] && len(nodes[e[1]].n.S.Peers()) >= degree[e[1]] {
							continue
						}
						a, b := e[0], e[1]
						if k < len(s.flip) && s.flip[k] {
							a, b = b, a
						}
						ctx, cancel := context.WithTimeout(context.Background(), 2*time.Second)
						nodes[a].n.S.Connect(ctx, nodes[b].n.Addr()) // "already connected" for the links that are up
						cancel()
					}
				}
			}
		}()
	}

	curTips := func() []int {
		out := make([]int, n)
		for i, nr := range nodes {
			out[i] = reg.IDOfHeader(nr.n.CM.Tip().ID)
		}
		return out
	}
	allEq := func(t []int) bool {
		for _, x := range t {
			if x != t[0] {
				return false
			}
		}
		return true
	}
	fixpoint := func(t []int) (bool, string) {
		for _, e := range es {
			for _, d := range [][2]int{{e[0], e[1]}, {e[1], e[0]}} {
				if t[d[0]] >= 0 && t[d[1]] >= 0 && heavier(t[d[1]], t[d[0]]) {
					return false, fmt.Sprintf("node %d (tip %d) has neighbour %d on a sufficiently heavier chain (tip %d)", d[0], t[d[0]], d[1], t[d[1]])
				}
			}
		}
		return true, ""
	}
	deadline := time.Now().Add(40 * time.Second)
	var stableSince time.Time
	var last []int
	for {
		t := curTips()
		if allEq(t) {
			break
		}
		if decisive < 0 {
			// near-tie class: wait for a fixpoint that holds for 2.5 s
			fp, _ := fixpoint(t)
			if fp && fmt.Sprint(t) == fmt.Sprint(last) {
				if stableSince.IsZero() {
					stableSince = time.Now()
				} else if time.Since(stableSince) > 2500*time.Millisecond {
					break
				}
			} else {
				stableSince = time.Time{}
			}
			last = t
		}
		if time.Now().After(deadline) {
			break
		}
		time.Sleep(40 * time.Millisecond)
	}
	final := curTips()
	// every link of the topology was established between honest nodes, nobody closed one and nobody
	// misbehaved: it must still be there
	if s.connTimeout > 0 {
		time.Sleep(time.Until(lastConnect.Add(s.connTimeout + 700*time.Millisecond)))
	}
	// (the accepting side enters a link a moment after Connect has returned on the dialling side)
	lost := func() string {
		for i, nr := range nodes {
			if got := len(nr.n.S.Peers()); got < degree[i] {
				return fmt.Sprintf("node %d has %d of its %d links left although no node closed a connection or misbehaved (bans: %v)", i, got, degree[i], nr.n.Store.Bans())
			}
		}
		return ""
	}
	if len(isFlaky) == 0 && !netx.WaitFor(3*time.Second, func() bool { return lost() == "" }) {
		c.Oracle("peer-lost-without-cause", "%s", lost())
	}
	flushFailed := false
	for _, p := range probes {
		if p != nil && p.DisarmFlush() {
			flushFailed = true
		}
	}
	if flushFailed {
		c.Tags = append(c.Tags, "store:flush-failed")
	}
	close(stop)
	awg.Wait()

	// (T)
	if decisive >= 0 {
		ss := make([]string, n)
		for i, t := range final {
			ss[i] = fmt.Sprint(t)
		}
		c.Op("final", "tips "+strings.Join(ss, " "))
	} else {
		c.Op("final", "neartie")
	}
	// (O)
	if !allEq(final) {
		if decisive >= 0 {
			diag := ""
			for i, nr := range nodes {
				diag += fmt.Sprintf(" node%d[", i)
				for _, p := range nr.n.S.Peers() {
					diag += fmt.Sprintf("%s synced=%v err=%v;", p.String(), p.Synced(), p.Err())
				}
				diag += "]"
			}
			c.Oracle("no-convergence-decisive", "tips %v after 40 s although tip %d is sufficiently heavier than every other tip (%s, %d nodes)%s", final, decisive, s.topo, n, diag)
		} else {
			c.Oracle("near-tie-no-convergence", "tips %v: the tips' works are within a fifth of the difficulty of each other (initial tips %v)", final, tipID)
		}
	} else if decisive >= 0 && final[0] != decisive {
		c.Oracle("converged-on-wrong-chain", "all nodes on tip %d, the heaviest valid chain is tip %d", final[0], decisive)
	}
	if fp, msg := fixpoint(final); !fp {
		c.Oracle("stuck-below-heavier-neighbour", "%s", msg)
	}
	for i, nr := range nodes {
		// every node is honest: nobody may be reported for banning
		bans := nr.n.Store.Bans()
		if isFlaky[i] {
			// the syncer reports the peer that served the blocks whenever the manager returns an error,
			// also when the error is the node's own store failing: not held against the node here
			kept := bans[:0]
			for _, b := range bans {
				if strings.Contains(b.Reason, "injected flush failure") {
					if t := "local-store-failure:serving-peer-reported"; !strings.Contains(strings.Join(c.Tags, " "), t) {
						c.Tags = append(c.Tags, t)
					}
				} else {
					kept = append(kept, b)
				}
			}
			bans = kept
		}
		if len(bans) > 0 {
			c.Oracle("honest-peer-banned", "node %d reported an honest peer to its peer store: %v", i, bans)
		}
		if msg := auditNode(nr); msg != "" {
			c.Oracle("best-chain-invalid", "node %d: %s", i, msg)
		}
		if msg := nr.trace.Stuck(); msg != "" {
			c.Oracle("listener-called-with-lock-held", "node %d: %s", i, msg)
		}
		nr.n.Store.WaitIdle()
		if msg := nr.n.Store.Stuck(); msg != "" {
			c.Oracle("peer-store-called-with-lock-held", "node %d: %s", i, msg)
		}
		if msg := nr.trace.Decreasing(); msg != "" {
			c.Oracle("tip-work-decreased", "node %d: %s", i, msg)
		}
		if netx.WorkOf(nr.n.CM.TipState().TotalWork).Cmp(nr.start) < 0 {
			c.Oracle("tip-work-decreased", "node %d ends with less work than it started with", i)
		}
	}
	var cwg sync.WaitGroup
	alive := make([]bool, n)
	for i, nr := range nodes {
		cwg.Add(1)
		go func(i int, nd *netx.Node) { defer cwg.Done(); alive[i] = nd.Close() }(i, nr.n)
	}
	cwg.Wait()
	for i, ok := range alive {
		if !ok {
			c.Oracle("node-not-alive", "node %d: Syncer.Close / Run did not return within 15 s", i)
		}
	}
	return c
}

// auditNode replays the node's best chain on an independent manager (below a bootstrapped node's
// checkpoint: the known-valid main chain).
func auditNode(nr *nodeRec) string {
	if nr.base == nil {
		return nr.n.Audit()
	}
	tip := nr.n.CM.Tip()
	twin := nr.n.Net.NewChain()
	for _, b := range nr.base {
		if err := twin.CM.AddBlocks([]types.Block{b}); err != nil {
			return "replay of the checkpoint's ancestry failed: " + err.Error()
		}
	}
	for h := uint64(len(nr.base)) + 1; h <= tip.Height; h++ {
		idx, ok := nr.n.CM.BestIndex(h)
		if !ok {
			return fmt.Sprintf("no best index at height %d", h)
		}
		b, ok := nr.n.CM.Block(idx.ID)
		if !ok {
			return fmt.Sprintf("no block at height %d", h)
		}
		if err := twin.CM.AddBlocks([]types.Block{b}); err != nil {
			return fmt.Sprintf("block at height %d is invalid on an independent replay: %v", h, err)
		}
	}
	if twin.CM.Tip() != tip {
		return fmt.Sprintf("replay tip %v differs from node tip %v", twin.CM.Tip(), tip)
	}
	return ""
}

var _ = sort.Ints
