// Package c17: all key-value backends behave identically, including before a flush.
//
// Every operation sequence is executed on the real MemDB, CacheDB(MemDB), CacheDB(Bolt) and
// BoltChainDB; each observation is compared (T) with the Lean model of that backend (MemDB and
// CacheDB are modelled from chain/db.go; bbolt is not modelled, its image is the abstract Spec)
// and (O) with a reference map owned by the harness.
package c17

import (
	"bytes"
	"errors"
	"fmt"
	"os"
	"path/filepath"
	"sort"
	"strconv"
	"strings"

	"go.etcd.io/bbolt"
	"go.sia.tech/coreutils"
	"go.sia.tech/coreutils/chain"
	"verifharness/vh"
)

type op struct {
	kind    string // create put del get iter flush cancel reopen; failcreate failflush = the same call while the physical database fails
	b, k, v int
}

func (o op) String() string {
	switch o.kind {
	case "create", "iter", "failcreate":
		return fmt.Sprintf("%s %d", o.kind, o.b)
	case "put":
		return fmt.Sprintf("put %d %d %d", o.b, o.k, o.v)
	case "del", "get":
		return fmt.Sprintf("%s %d %d", o.kind, o.b, o.k)
	}
	return o.kind
}

func bname(b int) []byte { return []byte{'b', byte('0' + b)} }
func key(k int) []byte   { return []byte{byte(k >> 8), byte(k)} }

// val renders a value id; id 0 is the EMPTY (zero-length, non-nil) value, which the chain store
// does write (an expiration list that became empty) and which must stay distinguishable from "absent".
func val(v int) []byte {
	if v == 0 {
		return []byte{}
	}
	return []byte(strconv.Itoa(v))
}

func valStr(v []byte) string {
	if len(v) == 0 {
		return "0"
	}
	return string(v)
}

// reference map (the oracle's ground truth)
type ref struct {
	working, durable map[int]map[int]int
}

func cloneMM(m map[int]map[int]int) map[int]map[int]int {
	out := map[int]map[int]int{}
	for b, kv := range m {
		c := map[int]int{}
		for k, v := range kv {
			c[k] = v
		}
		out[b] = c
	}
	return out
}

func fmtKVs(m map[int]int) string {
	ks := make([]int, 0, len(m))
	for k := range m {
		ks = append(ks, k)
	}
	sort.Ints(ks)
	var sb strings.Builder
	sb.WriteString("kvs")
	for _, k := range ks {
		fmt.Fprintf(&sb, " %d=%d", k, m[k])
	}
	return sb.String()
}

func (r *ref) apply(o op) string {
	switch o.kind {
	case "failcreate", "failflush":
		// the physical database refused: an error, and nothing has changed
		return "err"
	case "create":
		if _, ok := r.working[o.b]; ok {
			return "err"
		}
		r.working[o.b] = map[int]int{}
		return "ok"
	case "flush":
		r.durable = cloneMM(r.working)
		return "ok"
	case "cancel":
		r.working = cloneMM(r.durable)
		return "ok"
	case "reopen":
		r.working = cloneMM(r.durable)
		return "ok"
	}
	m, ok := r.working[o.b]
	if !ok {
		return "nobucket"
	}
	switch o.kind {
	case "put":
		m[o.k] = o.v
		return "ok"
	case "del":
		delete(m, o.k)
		return "ok"
	case "get":
		if v, ok := m[o.k]; ok {
			return fmt.Sprintf("val %d", v)
		}
		return "val none"
	case "iter":
		return fmtKVs(m)
	}
	panic("bad op")
}

// a backend under test
type backend struct {
	name  string // mem cachemem cachebolt bolt
	model string
	db    chain.DB
	bolt  *bbolt.DB
	path  string
	fault *faultDB // the physical database of the f* backends
}

// faultDB is a physical database that can be told to fail: while armed, CreateBucket is refused
// and Flush fails with the batch left pending.
type faultDB struct {
	chain.DB
	failCreate, failFlush bool
}

func (f *faultDB) CreateBucket(name []byte) (chain.DBBucket, error) {
	if f.failCreate {
		return nil, errors.New("injected: bucket creation refused")
	}
	return f.DB.CreateBucket(name)
}

func (f *faultDB) Flush() error {
	if f.failFlush {
		return errors.New("injected: commit failed")
	}
	return f.DB.Flush()
}

func openBackend(name, dir string, n int) (*backend, error) {
	be := &backend{name: name}
	switch name {
	case "mem":
		be.db, be.model = chain.NewMemDB(), "kv mem"
	case "cachemem":
		be.db, be.model = chain.NewCacheDB(chain.NewMemDB()), "kv cachemem"
	case "fmem":
		be.fault = &faultDB{DB: chain.NewMemDB()}
		be.db, be.model = be.fault, "kv fmem"
	case "fcachemem":
		be.fault = &faultDB{DB: chain.NewMemDB()}
		be.db, be.model = chain.NewCacheDB(be.fault), "kv fcachemem"
	case "fbolt", "fcachebolt":
		be.path = filepath.Join(dir, fmt.Sprintf("kv%d.db", n))
		os.Remove(be.path)
		bdb, err := bbolt.Open(be.path, 0o600, &bbolt.Options{NoSync: true, NoFreelistSync: true})
		if err != nil {
			return nil, err
		}
		be.bolt = bdb
		be.fault = &faultDB{DB: coreutils.NewBoltChainDB(bdb)}
		if name == "fbolt" {
			be.db, be.model = be.fault, "kv fspec"
		} else {
			be.db, be.model = chain.NewCacheDB(be.fault), "kv fcachespec"
		}
	case "bolt", "cachebolt":
		be.path = filepath.Join(dir, fmt.Sprintf("kv%d.db", n))
		os.Remove(be.path)
		bdb, err := bbolt.Open(be.path, 0o600, &bbolt.Options{NoSync: true, NoFreelistSync: true})
		if err != nil {
			return nil, err
		}
		be.bolt = bdb
		if name == "bolt" {
			be.db, be.model = coreutils.NewBoltChainDB(bdb), "kv spec"
		} else {
			be.db, be.model = chain.NewCacheDB(coreutils.NewBoltChainDB(bdb)), "kv cachespec"
		}
	}
	return be, nil
}

func (be *backend) close() {
	if be.bolt != nil {
		be.db.Cancel()
		be.bolt.Close()
		os.Remove(be.path)
	}
}

func (be *backend) apply(o op) (out string) {
	defer func() {
		if e := recover(); e != nil {
			out = fmt.Sprintf("panic %v", e)
		}
	}()
	switch o.kind {
	case "failcreate":
		be.fault.failCreate = true
		_, err := be.db.CreateBucket(bname(o.b))
		be.fault.failCreate = false
		if err != nil {
			return "err"
		}
		return "ok"
	case "failflush":
		be.fault.failFlush = true
		err := be.db.Flush()
		be.fault.failFlush = false
		if err != nil {
			return "err"
		}
		return "ok"
	case "create":
		if _, err := be.db.CreateBucket(bname(o.b)); err != nil {
			return "err"
		}
		return "ok"
	case "flush":
		if err := be.db.Flush(); err != nil {
			return "err"
		}
		return "ok"
	case "cancel":
		be.db.Cancel()
		return "ok"
	}
	bk := be.db.Bucket(bname(o.b)) // handle re-fetched per operation, as DBStore does
	if bk == nil {
		return "nobucket"
	}
	switch o.kind {
	case "put":
		if err := bk.Put(key(o.k), val(o.v)); err != nil {
			return "err"
		}
		return "ok"
	case "del":
		if err := bk.Delete(key(o.k)); err != nil {
			return "err"
		}
		return "ok"
	case "get":
		v := bk.Get(key(o.k))
		if v == nil {
			return "val none"
		}
		return "val " + valStr(v)
	case "iter":
		type kv struct {
			k []byte
			v string
		}
		var kvs []kv
		for k, v := range bk.Iter() {
			kvs = append(kvs, kv{append([]byte(nil), k...), valStr(v)})
		}
		sort.Slice(kvs, func(i, j int) bool { return bytes.Compare(kvs[i].k, kvs[j].k) < 0 })
		// a consumer may stop early: the iterator must then stop too (no further yield, no panic),
		// and what it yielded first must be one of the bucket's pairs
		for stopAfter := 1; stopAfter <= 2 && stopAfter <= len(kvs); stopAfter++ {
			yields := 0
			for k, v := range bk.Iter() {
				yields++
				found := false
				for _, e := range kvs {
					if bytes.Equal(e.k, k) && e.v == valStr(v) {
						found = true
					}
				}
				if !found {
					return fmt.Sprintf("early-stop iteration yielded %x=%s, which a full iteration does not contain", k, valStr(v))
				}
				if yields == stopAfter {
					break
				}
			}
		}
		var sb strings.Builder
		sb.WriteString("kvs")
		for i, e := range kvs {
			if i > 0 && bytes.Equal(kvs[i-1].k, e.k) {
				sb.WriteString(" DUP")
			}
			fmt.Fprintf(&sb, " %d=%s", int(e.k[0])<<8|int(e.k[1]), e.v)
		}
		return sb.String()
	}
	panic("bad op")
}

// classify names the call site whose observation differs from the reference.
func classify(be string, o op, seq []op, i int) string {
	pendingWrite := false
	for j := i - 1; j >= 0; j-- {
		if seq[j].kind == "flush" || seq[j].kind == "cancel" {
			break
		}
		if seq[j].kind == "put" || seq[j].kind == "del" || seq[j].kind == "create" || seq[j].kind == "failcreate" || seq[j].kind == "failflush" {
			pendingWrite = true
		}
	}
	p := "flushed"
	if pendingWrite {
		p = "unflushed"
	}
	return fmt.Sprintf("%s-%s-%s", be, o.kind, p)
}

func runSeq(r *vh.Run, name string, seq []op, backends []string, dir string, n int) {
	for _, bn := range backends {
		be, err := openBackend(bn, dir, n)
		if err != nil {
			panic(err)
		}
		rf := &ref{working: map[int]map[int]int{}, durable: map[int]map[int]int{}}
		c := &vh.Case{Name: name + "/" + bn, Model: be.model}
		nt := false
		for i, o := range seq {
			got := be.apply(o)
			want := rf.apply(o)
			c.Op(o.String(), got)
			if got != want {
				c.Oracle(classify(bn, o, seq, i), "%s: op %d %q returned %q, reference map says %q", bn, i, o.String(), got, want)
			}
			if (o.kind == "get" || o.kind == "iter") && want != "nobucket" && want != "val none" && want != "kvs" {
				nt = true
			}
		}
		c.Nontrivial = nt
		c.Tags = []string{"backend:" + bn, lenTag(len(seq))}
		be.close()
		r.Add(c)
	}
}

func alphabet(nb, nk, nv int) []op {
	var a []op
	for b := 0; b < nb; b++ {
		a = append(a, op{kind: "create", b: b}, op{kind: "iter", b: b})
		for k := 1; k <= nk; k++ {
			a = append(a, op{kind: "del", b: b, k: k}, op{kind: "get", b: b, k: k})
			for v := 1; v <= nv; v++ {
				a = append(a, op{kind: "put", b: b, k: k, v: v})
			}
		}
	}
	return append(a, op{kind: "flush"}, op{kind: "cancel"})
}

func init() { vh.Register("C17", Run) }

// Run executes the C17 correspondence and oracle checks.
func Run(r *vh.Run) {
	r.Rule = "exhaustive: every op sequence over the alphabet up to the stated length, on every backend (prefix-closed; a case is one (sequence, backend) pair); random: sequences of 20-400 ops over 3 buckets / 6 keys / 4 values drawn from one PRNG; chain: DBStore histories replayed over each backend. non-trivial = at least one get/iter of the sequence observes a non-empty result; distinct = distinct (backend, op sequence)"
	dir, err := os.MkdirTemp("/dev/shm", "vh-c17-")
	if err != nil {
		dir, _ = os.MkdirTemp("", "vh-c17-")
	}
	defer os.RemoveAll(dir)
	n := 0

	// corpus of minimised past failures first
	for i, seq := range corpus {
		runSeq(r, fmt.Sprintf("corpus%d", i), seq, []string{"mem", "cachemem", "cachebolt", "bolt"}, dir, n)
		n++
	}

	// a handle returned by CreateBucket, used across a Flush (in-memory backends only: a
	// Bolt handle dies with its transaction).  Oracle only.
	for _, bn := range []string{"mem", "cachemem"} {
		be, _ := openBackend(bn, dir, n)
		c := &vh.Case{Name: "handle/" + bn, Nontrivial: true, Tags: []string{"backend:" + bn, "handle"}}
		h, err := be.db.CreateBucket(bname(0))
		c.Op("hcreate 0", fmt.Sprint(err == nil))
		if err == nil && h != nil {
			h.Put(key(1), val(7))
			c.Op("hput 0 1 7", "ok")
			be.db.Flush()
			c.Op("flush", "ok")
			got := string(h.Get(key(1)))
			c.Op("hget 0 1", got)
			if got != "7" {
				c.Oracle(bn+"-createbucket-handle", "%s: value written through the handle returned by CreateBucket reads back as %q after Flush through the same handle (want \"7\")", bn, got)
			}
		}
		be.close()
		r.Add(c)
	}

	// exhaustive over a small alphabet: MemDB and CacheDB(MemDB) (pure Go, fast)
	alpha := alphabet(1, 2, 1)
	alpha = append(alpha, op{kind: "create", b: 1}, op{kind: "put", b: 1, k: 1, v: 2}, op{kind: "iter", b: 1}, op{kind: "put", b: 0, k: 1, v: 2},
		op{kind: "put", b: 0, k: 1, v: 0}) // the empty value
	depth := r.Pick(5, 6)
	boltDepth := r.Pick(3, 5)
	r.Extra("exhaustive_alphabet", len(alpha))
	r.Extra("exhaustive_depth_mem_cachemem", depth)
	r.Extra("exhaustive_depth_bolt_cachebolt", boltDepth)
	seq := make([]op, 0, depth)
	var rec func(d int)
	rec = func(d int) {
		if len(seq) > 0 {
			last := seq[len(seq)-1].kind
			// only sequences ending in an observation or a failing-capable op add information;
			// prefixes are covered by their own extension's earlier outputs
			if last == "get" || last == "iter" || len(seq) == d {
				bes := []string{"mem", "cachemem"}
				if len(seq) <= boltDepth {
					bes = append(bes, "cachebolt", "bolt")
				}
				runSeq(r, "ex"+strconv.Itoa(n), seq, bes, dir, n)
				n++
			}
		}
		if len(seq) == d {
			return
		}
		for _, o := range alpha {
			seq = append(seq, o)
			rec(d)
			seq = seq[:len(seq)-1]
		}
	}
	rec(depth)
	r.Extra("exhaustive", true)

	// random longer sequences on all four backends
	rng := vh.NewRNG(r.Seed)
	nr := r.Pick(300, 6000)
	for i := 0; i < nr; i++ {
		l := 20 + rng.Intn(r.Pick(120, 380))
		s := make([]op, l)
		for j := range s {
			switch x := rng.Intn(100); {
			case x < 6:
				s[j] = op{kind: "create", b: rng.Intn(3)}
			case x < 40:
				s[j] = op{kind: "put", b: rng.Intn(3), k: 1 + rng.Intn(6), v: rng.Intn(5)}
			case x < 58:
				s[j] = op{kind: "del", b: rng.Intn(3), k: 1 + rng.Intn(6)}
			case x < 75:
				s[j] = op{kind: "get", b: rng.Intn(3), k: 1 + rng.Intn(6)}
			case x < 88:
				s[j] = op{kind: "iter", b: rng.Intn(3)}
			case x < 95:
				s[j] = op{kind: "flush"}
			default:
				s[j] = op{kind: "cancel"}
			}
		}
		runSeq(r, "rnd"+strconv.Itoa(i), s, []string{"mem", "cachemem", "cachebolt", "bolt"}, dir, n)
		n++
	}
	// the physical database fails in the middle (Model/KVFault.lean): refused bucket creations and
	// failing commits anywhere in the history, on the raw backends behind a failing database and on
	// CacheDB over them; exhaustively over a small alphabet, then random
	fbackends := []string{"fmem", "fcachemem", "fcachebolt", "fbolt"}
	for i, sq := range faultCorpus {
		runSeq(r, fmt.Sprintf("fcorpus%d", i), sq, fbackends, dir, n)
		n++
	}
	falpha := []op{{kind: "create", b: 0}, {kind: "failcreate", b: 0}, {kind: "put", b: 0, k: 1, v: 1}, {kind: "del", b: 0, k: 1},
		{kind: "get", b: 0, k: 1}, {kind: "iter", b: 0}, {kind: "flush"}, {kind: "failflush"}, {kind: "cancel"}}
	fdepth := r.Pick(5, 6)
	r.Extra("fault_exhaustive_alphabet", len(falpha))
	r.Extra("fault_exhaustive_depth", fdepth)
	fseq := make([]op, 0, fdepth)
	var frec func()
	frec = func() {
		if len(fseq) > 0 {
			hasFault := false
			for _, o := range fseq {
				if o.kind == "failcreate" || o.kind == "failflush" {
					hasFault = true
				}
			}
			last := fseq[len(fseq)-1].kind
			if hasFault && (last == "get" || last == "iter" || (last == "create" && len(fseq) == fdepth)) {
				bes := []string{"fmem", "fcachemem"}
				if len(fseq) <= 4 {
					bes = fbackends
				}
				runSeq(r, "fex"+strconv.Itoa(n), fseq, bes, dir, n)
				n++
			}
		}
		if len(fseq) == fdepth {
			return
		}
		for _, o := range falpha {
			fseq = append(fseq, o)
			frec()
			fseq = fseq[:len(fseq)-1]
		}
	}
	frec()
	nf := r.Pick(100, 2000)
	for i := 0; i < nf; i++ {
		l := 15 + rng.Intn(r.Pick(100, 300))
		s := make([]op, l)
		for j := range s {
			switch x := rng.Intn(100); {
			case x < 6:
				s[j] = op{kind: "create", b: rng.Intn(3)}
			case x < 10:
				s[j] = op{kind: "failcreate", b: rng.Intn(3)}
			case x < 40:
				s[j] = op{kind: "put", b: rng.Intn(3), k: 1 + rng.Intn(6), v: rng.Intn(5)}
			case x < 56:
				s[j] = op{kind: "del", b: rng.Intn(3), k: 1 + rng.Intn(6)}
			case x < 72:
				s[j] = op{kind: "get", b: rng.Intn(3), k: 1 + rng.Intn(6)}
			case x < 84:
				s[j] = op{kind: "iter", b: rng.Intn(3)}
			case x < 89:
				s[j] = op{kind: "flush"}
			case x < 95:
				s[j] = op{kind: "failflush"}
			default:
				s[j] = op{kind: "cancel"}
			}
		}
		runSeq(r, "frnd"+strconv.Itoa(i), s, fbackends, dir, n)
		n++
	}
	// chain histories replayed over each backend
	runStoreHistories(r, rng.Fork(), dir)
	r.Assume("bbolt is not modelled: BoltChainDB is compared with the abstract Spec and the reference map only")
	r.Assume("bucket handles are re-fetched for every operation (as DBStore.bucket does)")
	r.Assume("value id 0 is the empty (zero-length, non-nil) byte string; nil values are never put")
}

// minimised failures found on the pinned tree (kept as regression inputs)
var corpus = [][]op{
	{{kind: "create", b: 0}, {kind: "put", b: 0, k: 1, v: 1}, {kind: "iter", b: 0}},
	{{kind: "create", b: 0}, {kind: "put", b: 0, k: 1, v: 1}, {kind: "flush"}, {kind: "del", b: 0, k: 1}, {kind: "get", b: 0, k: 1}},
	{{kind: "create", b: 0}, {kind: "flush"}, {kind: "put", b: 0, k: 1, v: 1}, {kind: "iter", b: 0}},
	{{kind: "create", b: 0}, {kind: "put", b: 0, k: 1, v: 1}, {kind: "create", b: 0}, {kind: "get", b: 0, k: 1}},
}

// histories with a failing physical database (the Lean examples of Props/C17.lean among them)
var faultCorpus = [][]op{
	{{kind: "failcreate", b: 0}, {kind: "create", b: 0}, {kind: "put", b: 0, k: 1, v: 1}, {kind: "get", b: 0, k: 1}},
	{{kind: "failcreate", b: 0}, {kind: "create", b: 0}, {kind: "put", b: 0, k: 1, v: 10}, {kind: "flush"}, {kind: "put", b: 0, k: 2, v: 20},
		{kind: "del", b: 0, k: 1}, {kind: "failflush"}, {kind: "iter", b: 0}, {kind: "cancel"}, {kind: "iter", b: 0}, {kind: "put", b: 0, k: 3, v: 30},
		{kind: "failflush"}, {kind: "flush"}, {kind: "cancel"}, {kind: "iter", b: 0}},
	{{kind: "create", b: 0}, {kind: "flush"}, {kind: "failcreate", b: 0}, {kind: "put", b: 0, k: 1, v: 1}, {kind: "failflush"}, {kind: "get", b: 0, k: 1},
		{kind: "flush"}, {kind: "cancel"}, {kind: "get", b: 0, k: 1}},
}

func lenTag(n int) string {
	switch {
	case n <= 6:
		return fmt.Sprintf("len:%d", n)
	case n <= 50:
		return "len:7-50"
	case n <= 150:
		return "len:51-150"
	}
	return "len:151+"
}
