package c17

import (
	"bytes"
	"crypto/sha256"
	"fmt"
	"os"
	"path/filepath"
	"runtime/debug"
	"sort"
	"strings"
	"sync"
	"time"

	"go.etcd.io/bbolt"
	"go.sia.tech/core/types"
	"go.sia.tech/coreutils"
	"go.sia.tech/coreutils/chain"
	"verifharness/c01"
	"verifharness/chainx"
	"verifharness/vh"
)

// "Consequently the chain store behaves the same whichever backend it is given": the same chain
// history is submitted to four real nodes whose DBStore sits on MemDB, CacheDB(MemDB), Bolt and
// CacheDB(Bolt); after every submission the result, the chain view and a dump of every bucket
// (through the chain.DB interface itself) must be identical.

var storeBuckets = []string{"Version", "Network", "MainChain", "States", "Blocks", "FileContracts", "SiacoinElements", "SiafundElements", "Tree"}

// dumpDB hashes every bucket's sorted contents as seen through db.
func dumpDB(db chain.DB) (digest string, sizes string) {
	h := sha256.New()
	var sz []string
	for _, name := range storeBuckets {
		b := db.Bucket([]byte(name))
		if b == nil {
			fmt.Fprintf(h, "%s:nil\n", name)
			continue
		}
		type kv struct{ k, v []byte }
		var kvs []kv
		for k, v := range b.Iter() {
			kvs = append(kvs, kv{append([]byte(nil), k...), append([]byte(nil), v...)})
		}
		sort.Slice(kvs, func(i, j int) bool { return bytes.Compare(kvs[i].k, kvs[j].k) < 0 })
		fmt.Fprintf(h, "%s:%d\n", name, len(kvs))
		n := 0
		for _, e := range kvs {
			fmt.Fprintf(h, "%x=%x\n", e.k, e.v)
			n += len(e.k) + len(e.v)
		}
		sz = append(sz, fmt.Sprintf("%s=%d/%dB", name, len(kvs), n))
	}
	return fmt.Sprintf("%x", h.Sum(nil)[:8]), strings.Join(sz, " ")
}

type storeNode struct {
	name string
	nd   *chainx.Node
	bolt *bbolt.DB
	path string
}

func openStoreNode(net *chainx.Net, name, dir string, n int) (*storeNode, error) {
	sn := &storeNode{name: name}
	var db chain.DB
	switch name {
	case "mem":
		db = chain.NewMemDB()
	case "cachemem":
		db = chain.NewCacheDB(chain.NewMemDB())
	case "bolt", "cachebolt":
		sn.path = filepath.Join(dir, fmt.Sprintf("store%d-%s.db", n, name))
		os.Remove(sn.path)
		bdb, err := bbolt.Open(sn.path, 0o600, &bbolt.Options{NoSync: true, NoFreelistSync: true})
		if err != nil {
			return nil, err
		}
		sn.bolt = bdb
		db = coreutils.NewBoltChainDB(bdb)
		if name == "cachebolt" {
			db = chain.NewCacheDB(db)
		}
	}
	nd, err := net.NewNode(db)
	if err != nil {
		return nil, err
	}
	sn.nd = nd
	return sn, nil
}

func (sn *storeNode) close() {
	if sn.bolt != nil {
		func() {
			defer func() { recover() }()
			sn.nd.DB.Cancel()
		}()
		sn.bolt.Close()
		os.Remove(sn.path)
	}
}

// submitGuard runs AddBlocks turning panics and memory faults into a result string.
func submitGuard(nd *chainx.Node, blocks []types.Block) (res string) {
	defer debug.SetPanicOnFault(debug.SetPanicOnFault(true))
	defer func() {
		if r := recover(); r != nil {
			res = fmt.Sprintf("panic: %v", r)
			if len(res) > 120 {
				res = res[:120]
			}
		}
	}()
	return c01.ErrKind(nd.CM.AddBlocks(blocks))
}

func runStoreHistory(r *vh.Run, name string, t *chainx.Tree, sched [][]int, dir string, n int) {
	backends := []string{"mem", "cachemem", "bolt", "cachebolt"}
	var nodes []*storeNode
	for _, b := range backends {
		sn, err := openStoreNode(t.Net, b, dir, n)
		if err != nil {
			panic(err)
		}
		nodes = append(nodes, sn)
	}
	defer func() {
		for _, sn := range nodes {
			sn.close()
		}
	}()
	c := &vh.Case{Name: name, Tags: []string{"store-history"}}
	reorgs := 0
	var lastSizes string
	for _, batch := range sched {
		blocks := t.Get(batch)
		var ref, refDump string
		beforeTip := nodes[0].nd.CM.Tip()
		for i, sn := range nodes {
			res := submitGuard(sn.nd, blocks)
			obs := c01.Observe(t, sn.nd, res)
			var dump, sizes string
			func() {
				defer debug.SetPanicOnFault(debug.SetPanicOnFault(true))
				defer func() {
					if rec := recover(); rec != nil {
						dump = fmt.Sprintf("dump-panic: %v", rec)
					}
				}()
				dump, sizes = dumpDB(sn.nd.DB)
			}()
			if i == 0 {
				ref, refDump, lastSizes = obs, dump, sizes
				c.Op(fmt.Sprintf("add %v", batch), obs+" dump "+dump)
				continue
			}
			if strings.HasPrefix(res, "panic") {
				c.Oracle("store-"+sn.name+"-panic", "DBStore over %s: AddBlocks(%v) %s (MemDB-backed store: %s)", sn.name, batch, res, ref)
			} else if obs != ref {
				c.Oracle("store-"+sn.name+"-result-differs", "DBStore over %s: AddBlocks(%v) -> %s, over MemDB -> %s", sn.name, batch, obs, ref)
			} else if dump != refDump {
				c.Oracle("store-"+sn.name+"-contents-differ", "DBStore over %s: bucket contents differ from the MemDB-backed store after AddBlocks(%v) (%s vs %s; sizes %s)", sn.name, batch, dump, refDump, sizes)
			}
		}
		if at := nodes[0].nd.CM.Tip(); at != beforeTip {
			reorgs++
		}
	}
	// the same history as the previous release left it on disk: every backend is turned into a
	// version-3 database (chainx.MakePreMigrationDB) and reopened, which runs the migration; the
	// migrated stores must agree with each other and keep the chain
	if n%2 == 0 {
		var refObs, refDump string
		for i, sn := range nodes {
			before := c01.Observe(t, sn.nd, "ok")
			obs, dump := "", ""
			func() {
				defer debug.SetPanicOnFault(debug.SetPanicOnFault(true))
				defer func() {
					if rec := recover(); rec != nil {
						obs = fmt.Sprintf("panic: %v", rec)
					}
				}()
				if err := sn.nd.Store.Flush(); err != nil {
					obs = "flush-error: " + err.Error()
					return
				}
				if _, err := chainx.MakePreMigrationDB(sn.nd.DB, 3); err != nil {
					obs = "rewrite-error: " + err.Error()
					return
				}
				nd2, err := t.Net.NewNode(sn.nd.DB)
				if err != nil {
					obs = "reopen-error: " + err.Error()
					return
				}
				nd2.Reorgs = sn.nd.Reorgs
				sn.nd = nd2
				obs = c01.Observe(t, sn.nd, "ok")
				dump, _ = dumpDB(sn.nd.DB)
			}()
			if i == 0 {
				refObs, refDump = obs, dump
				c.Op("migrate 3", obs+" dump "+dump)
				c.Tags = append(c.Tags, "migrated-from-version-3")
			}
			switch {
			case strings.HasPrefix(obs, "panic"), strings.Contains(obs, "-error: "):
				c.Oracle("store-"+sn.name+"-migration-failed", "DBStore over %s: reopening the version-3 form of the database: %s", sn.name, obs)
			case obs != before:
				c.Oracle("store-"+sn.name+"-migration-changed-chain", "DBStore over %s: before the migration %s, after %s", sn.name, before, obs)
			case obs != refObs:
				c.Oracle("store-"+sn.name+"-result-differs", "DBStore over %s after the migration: %s, over MemDB: %s", sn.name, obs, refObs)
			case dump != refDump:
				c.Oracle("store-"+sn.name+"-contents-differ", "DBStore over %s: bucket contents differ from the MemDB-backed store after the migration (%s vs %s)", sn.name, dump, refDump)
			}
		}
	}
	c.Nontrivial = reorgs > 1
	c.Info = map[string]any{"blocks": len(t.Blocks), "batches": len(sched), "bucket_sizes_at_end": lastSizes}
	r.Add(c)
}

func runStoreHistories(r *vh.Run, rng *vh.RNG, dir string) {
	migratedInvalid := false // one slow migration per run (it waits five seconds)
	trees := r.Pick(6, 120)
	for i := 0; i < trees; i++ {
		trng := rng.Fork()
		net := chainx.RandomNet(trng)
		kinds := chainx.AllKinds()
		if i%2 == 0 {
			// contract-heavy histories in the v1 regime: the FileContracts bucket outgrows bbolt's
			// inline-bucket limit, so values handed out by Get live in the read-only mmap
			net = chainx.NewNet(trng, 1000, 2000, 2)
			kinds = append(append([]string{"v1pay"}, chainx.ContractKinds...), chainx.ContractKinds...)
		}
		t, gerr := chainx.SafeGenTree(trng, net, chainx.GenCfg{Main: 10 + trng.Intn(10), Forks: 1 + trng.Intn(3), MaxBranch: 3 + trng.Intn(8),
			Kinds: kinds, TxPerBlk: 3, Corrupt: trng.Intn(2), Extend: 2})
		if gerr != nil {
			gc := &vh.Case{Name: fmt.Sprintf("tree%d/generator", i), Nontrivial: true}
			gc.Op("build-history", "panic")
			gc.Oracle("linear-node-panicked-while-building-history", "a node fed a linear chain of freshly mined blocks panicked or rejected a valid block: %v", gerr)
			r.Add(gc)
			continue
		}
		runStoreHistory(r, fmt.Sprintf("store%d", i), t, t.Schedule(trng), dir, i)
		if !migratedInvalid {
			migratedInvalid = runMigrationInvalid(r, t, dir, i)
		}
	}
}

// stallingLogger stands for a slow, large migration: it lets a little over five seconds pass when
// the migration reports the invalid block, so the store's time-based flush fires INSIDE the loop
// that removes that block and its descendants.
type stallingLogger struct{ stalled bool }

func (l *stallingLogger) Printf(format string, v ...any) {
	if strings.Contains(format, "is invalid") && !l.stalled {
		l.stalled = true
		time.Sleep(5200 * time.Millisecond)
	}
}
func (l *stallingLogger) SetProgress(float64) {}

// runMigrationInvalid: a version-3 database whose main chain holds an INVALID v2 block at or below
// the require height (earlier releases could store such blocks) is opened on every backend; the
// migration removes that block and everything above it. The backends run side by side (each waits
// five seconds); they must come back without error, on the same tip, with the same contents.
func runMigrationInvalid(r *vh.Run, t *chainx.Tree, dir string, n int) bool {
	best := 0
	for _, l := range t.Leaves() {
		if t.AllValid(l) && t.Blocks[l].Height > t.Blocks[best].Height {
			best = l
		}
	}
	path := t.PathFromRoot(best)
	bad := -1
	for k, id := range path {
		b := t.Blocks[id]
		if b.V2 && b.Height >= 2 && b.Height+2 <= t.Net.N.HardforkV2.RequireHeight && k+2 < len(path) &&
			t.Blocks[path[k+2]].Height <= t.Net.N.HardforkV2.RequireHeight {
			bad = k
			break
		}
	}
	if bad < 0 {
		return false
	}
	badBlk := t.Blocks[path[bad]]
	badID := badBlk.Block.ID()
	backends := []string{"mem", "cachemem", "bolt", "cachebolt"}
	type outcome struct{ obs, dump string }
	outs := make([]outcome, len(backends))
	var wg sync.WaitGroup
	for i, bn := range backends {
		wg.Add(1)
		go func(i int, bn string) {
			defer wg.Done()
			defer func() {
				if rec := recover(); rec != nil {
					outs[i].obs = fmt.Sprintf("panic: %v", rec)
				}
			}()
			sn, err := openStoreNode(t.Net, bn, dir, 100000+n*10+i)
			if err != nil {
				outs[i].obs = "open-error: " + err.Error()
				return
			}
			defer sn.close()
			if res := submitGuard(sn.nd, t.Get(path)); res != "ok" {
				outs[i].obs = "setup-error: " + res
				return
			}
			if err := sn.nd.Store.Flush(); err != nil {
				outs[i].obs = "setup-error: " + err.Error()
				return
			}
			bb := sn.nd.DB.Bucket([]byte("Blocks"))
			val := append([]byte(nil), bb.Get(badID[:])...)
			com := badBlk.Block.V2.Commitment
			if bytes.Count(val, com[:]) == 0 {
				outs[i].obs = "setup-error: commitment not found in the stored record"
				return
			}
			flipped := com
			flipped[0] ^= 0xFF
			val = bytes.ReplaceAll(val, com[:], flipped[:])
			if err := bb.Put(badID[:], val); err != nil {
				outs[i].obs = "setup-error: " + err.Error()
				return
			}
			if err := sn.nd.DB.Bucket([]byte("Version")).Put([]byte("Version"), []byte{3}); err != nil {
				outs[i].obs = "setup-error: " + err.Error()
				return
			}
			if err := sn.nd.DB.Flush(); err != nil {
				outs[i].obs = "setup-error: " + err.Error()
				return
			}
			store, tip, err := chain.NewDBStore(sn.nd.DB, t.Net.N, t.Net.Genesis, &stallingLogger{})
			if err != nil {
				outs[i].obs = "reopen-error: " + err.Error()
				return
			}
			nd2 := &chainx.Node{Net: t.Net, DB: sn.nd.DB, Store: store, CM: chain.NewManager(store, tip)}
			nd2.Reorgs = sn.nd.Reorgs
			sn.nd = nd2
			outs[i].obs = c01.Observe(t, nd2, "ok")
			outs[i].dump, _ = dumpDB(nd2.DB)
		}(i, bn)
	}
	wg.Wait()
	c := &vh.Case{Name: fmt.Sprintf("migrate-invalid%d", n), Tags: []string{"migration-removes-invalid-v2-block"}, Nontrivial: true, Key: fmt.Sprintf("migrate-invalid%d", n)}
	c.Op(fmt.Sprintf("migrate-invalid %d", badBlk.ID), outs[0].obs)
	wantTip := fmt.Sprintf("tip %d ", t.Blocks[path[bad-1]].ID)
	for i, bn := range backends {
		o := outs[i]
		switch {
		case strings.HasPrefix(o.obs, "setup-error"), strings.HasPrefix(o.obs, "open-error"):
			c.Tags = append(c.Tags, "migration-setup-failed")
		case strings.HasPrefix(o.obs, "panic"), strings.HasPrefix(o.obs, "reopen-error"):
			c.Oracle("store-"+bn+"-migration-failed", "DBStore over %s: migrating a version-3 database whose main chain holds the invalid v2 block %d (height %d), with a time-based flush inside the removal loop: %s", bn, badBlk.ID, badBlk.Height, o.obs)
		case !strings.Contains(o.obs, wantTip):
			c.Oracle("store-"+bn+"-migration-wrong-tip", "DBStore over %s: after removing the invalid block %d the tip must be its parent %d: %s", bn, badBlk.ID, t.Blocks[path[bad-1]].ID, o.obs)
		case o.obs != outs[0].obs:
			c.Oracle("store-"+bn+"-result-differs", "DBStore over %s after the migration: %s, over MemDB: %s", bn, o.obs, outs[0].obs)
		case o.dump != outs[0].dump:
			c.Oracle("store-"+bn+"-contents-differ", "DBStore over %s: bucket contents differ from the MemDB-backed store after the migration (%s vs %s)", bn, o.dump, outs[0].dump)
		}
	}
	r.Add(c)
	return true
}
