// Package c05: the transaction pool is always a valid, minable continuation of the tip.
//
// A real chain.Manager on a chainx fork tree receives generated transaction sets interleaved with
// blocks, multi-block reorgs (confirming, un-confirming and invalidating pooled transactions) and
// blocks assembled by coreutils.MineBlock from the pool itself.  After every step the reported
// pool is compared with the Lean pool model (T) and (O) re-validated from scratch with core's
// consensus package against the tip, every carried v2 element is compared with the shadow
// ledger's, every MineBlock block must be accepted by the node and by an independent linear node,
// and every accepted transaction must stay reported until it is confirmed, an input is spent or
// reverted (also transiently), or the pool is full.
package c05

import (
	"fmt"
	"time"

	"go.sia.tech/core/types"
	"verifharness/chainx"
	"verifharness/poolrig"
	"verifharness/vh"
)

func init() { vh.Register("C05", Run) }

func pickNet(rng *vh.RNG) *chainx.Net {
	allows := []uint64{1, 2, 4}
	allow := allows[rng.Intn(len(allows))]
	require := allow + uint64(2+rng.Intn(8))
	if rng.Chance(1, 3) {
		require = 1000
	}
	if rng.Chance(1, 6) {
		require = allow
	}
	return chainx.PoolNet(rng, allow, require)
}

// branch grows a fork of n blocks from an ancestor of the tip so that the node reorgs onto it.
func branch(g *poolrig.Gen, depth, n int) {
	w := g.W
	at := w.TipID()
	for i := 0; i < depth && at != 0; i++ {
		at = w.Tree.Blocks[at].Parent
	}
	for i := 0; i < n; i++ {
		at = w.GrowRandom(at, g.Rng.Intn(3))
		w.Refresh()
		g.Track.Check()
	}
}

// history: the mixed generator.
func history(r *vh.Run, rng *vh.RNG, name string, steps int) {
	w := poolrig.NewWorld(r, rng, name, pickNet(rng))
	g := &poolrig.Gen{W: w, Rng: rng}
	g.Track = poolrig.NewTracker(w)
	tip := 0
	for i := 0; i < 2+rng.Intn(3); i++ {
		tip = w.GrowRandom(tip, rng.Intn(3))
	}
	w.Refresh()
	kinds := map[string]bool{}
	for i := 0; i < steps && !w.Panicked; i++ {
		var k string
		switch a := rng.Intn(100); {
		case a < 12:
			if _, ok := w.Mine(); ok {
				k = "mine"
			} else {
				k = "mine-failed"
			}
			g.Remember()
			w.Refresh()
		case a < 22:
			g.Remember()
			depth := 1 + rng.Intn(3)
			branch(g, depth, depth+1+rng.Intn(2))
			k = "reorg-branch"
		case a < 27: // a parent/child set followed by a block that confirms neither
			if !w.V2Allowed() {
				continue
			}
			free := w.FreeCoins()
			if len(free) == 0 {
				continue
			}
			set := g.FreshV2(2+rng.Intn(2), true, free[:1])
			g.AddV2(w.TipID(), set, nil, "fresh", -1, false)
			w.GrowRandom(w.TipID(), 0)
			w.Refresh()
			k = "chain-then-unrelated-block"
		default:
			k = g.Step()
		}
		g.Track.Check()
		if k != "skip" && k != "" {
			kinds[k] = true
			w.Stats[k]++
		}
	}
	var tags []string
	for k := range kinds {
		tags = append(tags, "step:"+k)
	}
	w.Stats["retention-checks"] = g.Track.Checked
	w.Finish(w.Stats["reorgs"] > 0 && w.Stats["add1:ok"]+w.Stats["add2:ok"] > 0, tags...)
}

// exactWeight: a pool whose prefix weighs MaxBlockWeight - d, then MineBlock.
func exactWeight(r *vh.Run, rng *vh.RNG, name string, d int, v2 bool, nSmall int) {
	allow, require := uint64(1), uint64(1000)
	if !v2 && rng.Bool() {
		allow = 1000 // no v2 block data at all: no uniqueness transaction
		require = 2000
	}
	w := poolrig.NewWorld(r, rng, name, chainx.PoolNet(rng, allow, require))
	g := &poolrig.Gen{W: w, Rng: rng}
	g.Track = poolrig.NewTracker(w)
	tip := 0
	for i := 0; i < 3; i++ {
		tip = w.GrowRandom(tip, 0)
	}
	w.Refresh()
	cs := w.Node.CM.TipState()
	free := w.FreeCoins()
	if len(free) < nSmall+2 {
		w.Finish(false, "exact-weight-skipped")
		return
	}
	target := int(cs.MaxBlockWeight()) - d
	sum := 0
	if v2 {
		var set []types.V2Transaction
		for i := 0; i < nSmall; i++ {
			t := w.SpendV2(cs, free[i:i+1], 1, poolrig.Fee(i+3), 100*i)
			sum += int(cs.V2TransactionWeight(t))
			set = append(set, t)
		}
		probe := w.SpendV2(cs, free[nSmall:nSmall+1], 1, poolrig.Fee(40), 1000)
		arb := 1000 + target - sum - int(cs.V2TransactionWeight(probe))
		big := w.SpendV2(cs, free[nSmall:nSmall+1], 1, poolrig.Fee(40), arb)
		if got := sum + int(cs.V2TransactionWeight(big)); got != target {
			panic(fmt.Sprintf("exact weight generator: got %d want %d", got, target))
		}
		set = append(set, big)
		// one more small transaction after the big one
		set = append(set, w.SpendV2(cs, free[nSmall+1:nSmall+2], 1, poolrig.Fee(5), 0))
		g.AddV2(w.TipID(), set, nil, "fresh", -1, false)
	} else {
		var set []types.Transaction
		for i := 0; i < nSmall; i++ {
			t := w.SpendV1(cs, free[i:i+1], 1, poolrig.Fee(i+3), 100*i)
			sum += int(cs.TransactionWeight(t))
			set = append(set, t)
		}
		probe := w.SpendV1(cs, free[nSmall:nSmall+1], 1, poolrig.Fee(40), 1000)
		arb := 1000 + target - sum - int(cs.TransactionWeight(probe))
		big := w.SpendV1(cs, free[nSmall:nSmall+1], 1, poolrig.Fee(40), arb)
		if got := sum + int(cs.TransactionWeight(big)); got != target {
			panic(fmt.Sprintf("exact weight generator: got %d want %d", got, target))
		}
		set = append(set, big)
		set = append(set, w.SpendV1(cs, free[nSmall+1:nSmall+2], 1, poolrig.Fee(5), 0))
		g.AddV1(set, nil, "fresh", -1, false)
	}
	_, ok := w.Mine()
	w.Refresh()
	g.Track.Check()
	if ok {
		// whatever did not fit is still pooled and minable
		w.Mine()
		w.Refresh()
		g.Track.Check()
	}
	w.Finish(true, fmt.Sprintf("exact-weight:max-%d", d), fmt.Sprintf("exact-weight-v2:%v", v2))
}

// fullPool: large transactions with distinct fee rates until the pool reaches 10 x MaxBlockWeight.
func fullPool(r *vh.Run, rng *vh.RNG, name string, v2 bool) {
	w := poolrig.NewWorld(r, rng, name, chainx.PoolNet(rng, 1, 1000))
	g := &poolrig.Gen{W: w, Rng: rng}
	g.Track = poolrig.NewTracker(w)
	tip := 0
	for i := 0; i < 16; i++ {
		tip = w.GrowRandom(tip, 0)
	}
	w.Refresh()
	cs := w.Node.CM.TipState()
	free := w.FreeCoins()
	total := uint64(0)
	var sent1 []types.Transaction
	var sent2 []types.V2Transaction
	order := rng.Perm(14)
	for k := 0; k < 14 && k < len(free); k++ {
		size := 1_500_000 + rng.Intn(400_000)
		fee := types.Siacoins(uint32(1 + order[k])) // distinct fee rates, not in submission order
		var wt uint64
		if v2 && k%3 != 2 {
			t := w.SpendV2(cs, free[k:k+1], 1, fee, size)
			sent1, sent2 = append([]types.Transaction(nil), w.LastV1...), append(append([]types.V2Transaction(nil), w.LastV2...), t)
			wt = cs.V2TransactionWeight(t)
			g.Track.PoolFull = total+wt >= 10*cs.MaxBlockWeight()
			g.AddV2(w.TipID(), []types.V2Transaction{t}, nil, "fresh", -1, false)
		} else {
			t := w.SpendV1(cs, free[k:k+1], 1, fee, size)
			sent1, sent2 = append(append([]types.Transaction(nil), w.LastV1...), t), append([]types.V2Transaction(nil), w.LastV2...)
			wt = cs.TransactionWeight(t)
			g.Track.PoolFull = total+wt >= 10*cs.MaxBlockWeight()
			g.AddV1([]types.Transaction{t}, nil, "fresh", -1, false)
		}
		total = 0
		for _, t := range w.LastV1 {
			total += cs.TransactionWeight(t)
		}
		for _, t := range w.LastV2 {
			total += cs.V2TransactionWeight(t)
		}
		if g.Track.PoolFull {
			w.Stats["evictions"]++
			// what is gone after this submission are the cheapest of what was pooled plus the new one
			g.CheckEviction(sent1, sent2, "full pool")
		}
	}
	g.Track.PoolFull = false
	w.Mine()
	w.Refresh()
	g.Track.Check()
	w.Finish(w.Stats["evictions"] > 0, "full-pool", fmt.Sprintf("full-pool-v2:%v", v2))
}

// heavyParent: the first pool transaction that does not fit into the block is the parent of a later,
// small one: the block must stop there (a prefix), not skip it (a child without its parent).
func heavyParent(r *vh.Run, rng *vh.RNG, name string, mode int) {
	w := poolrig.NewWorld(r, rng, name, chainx.PoolNet(rng, 1, 1000))
	g := &poolrig.Gen{W: w, Rng: rng}
	g.Track = poolrig.NewTracker(w)
	tip := 0
	for i := 0; i < 4; i++ {
		tip = w.GrowRandom(tip, 0)
	}
	w.Refresh()
	cs := w.Node.CM.TipState()
	free := w.FreeCoins()
	if len(free) < 3 {
		w.Finish(false, "heavy-parent-skipped")
		return
	}
	big := 1_100_000 + rng.Intn(300_000)
	switch mode {
	case 0: // all v2
		a := w.SpendV2(cs, free[0:1], 1, poolrig.Fee(30), big)
		p := w.SpendV2(cs, free[1:2], 2, poolrig.Fee(20), big)
		c := w.SpendV2(cs, []poolrig.Coin{poolrig.CoinV2(p, 0)}, 1, poolrig.Fee(10), 0)
		c2 := w.SpendV2(cs, []poolrig.Coin{poolrig.CoinV2(c, 0)}, 1, poolrig.Fee(9), 0)
		s := w.SpendV2(cs, free[2:3], 1, poolrig.Fee(5), 0)
		g.AddV2(w.TipID(), []types.V2Transaction{a, p, c, c2, s}, nil, "fresh", -1, false)
	case 1: // all v1
		a := w.SpendV1(cs, free[0:1], 1, poolrig.Fee(30), big)
		p := w.SpendV1(cs, free[1:2], 2, poolrig.Fee(20), big)
		c := w.SpendV1(cs, []poolrig.Coin{poolrig.CoinV1(p, 0)}, 1, poolrig.Fee(10), 0)
		s := w.SpendV1(cs, free[2:3], 1, poolrig.Fee(5), 0)
		g.AddV1([]types.Transaction{a, p, c, s}, nil, "fresh", -1, false)
	default: // a heavy v1 transaction, then the heavy parent and its child in the v2 slice
		a := w.SpendV1(cs, free[0:1], 1, poolrig.Fee(30), big)
		g.AddV1([]types.Transaction{a}, nil, "fresh", -1, false)
		p := w.SpendV2(cs, free[1:2], 2, poolrig.Fee(20), big)
		c := w.SpendV2(cs, []poolrig.Coin{poolrig.CoinV2(p, 1)}, 1, poolrig.Fee(10), 0)
		g.AddV2(w.TipID(), []types.V2Transaction{p, c}, nil, "fresh", -1, false)
	}
	// MineBlock + AddBlocks on the node and on a linear twin (oracle mined-block-rejected)
	_, ok := w.Mine()
	w.Refresh()
	g.Track.Check()
	w.Finish(ok, "heavy-parent", fmt.Sprintf("heavy-parent-mode:%d", mode))
}

// zombie: a transaction of a reverted tip that the node remembers (lastReverted) but that was not
// acceptable right after the reorg must not displace a transaction accepted later.  X1 confirms p
// and p2, X2 (the tip) confirms w spending both their outputs; a heavier branch Y replaces them
// (w is remembered, invalid: its inputs do not exist on Y); p is confirmed on Y; t (v2) spends p's
// output and is accepted; p2 is confirmed on Y.  t's inputs are untouched by that block.
func zombie(r *vh.Run, rng *vh.RNG, name string, queryBetween bool) {
	w := poolrig.NewWorld(r, rng, name, chainx.PoolNet(rng, 1, 1000))
	g := &poolrig.Gen{W: w, Rng: rng}
	g.Track = poolrig.NewTracker(w)
	tip := 0
	for i := 0; i < 3; i++ {
		tip = w.GrowRandom(tip, 0)
	}
	w.Refresh()
	cs := w.Node.CM.TipState()
	free := w.FreeCoins()
	if len(free) < 2 {
		w.Finish(false, "zombie-skipped")
		return
	}
	p := w.SpendV1(cs, free[0:1], 1, poolrig.Fee(11), 0)
	p2 := w.SpendV1(cs, free[1:2], 1, poolrig.Fee(12), 0)
	zw := w.SpendV1(cs, []poolrig.Coin{poolrig.CoinV1(p, 0), poolrig.CoinV1(p2, 0)}, 1, poolrig.Fee(13), 0)
	fail := func(what string, err error) {
		w.C.Oracle("generator-block-invalid", "%s: %v", what, err)
		w.Finish(false, "zombie-skipped")
	}
	x1, err := w.Tree.MineWith(rng, tip, []types.Transaction{p, p2}, nil, 1)
	if err != nil {
		fail("X1", err)
		return
	}
	w.Submit(x1)
	x2, err := w.Tree.MineWith(rng, x1, []types.Transaction{zw}, nil, 1)
	if err != nil {
		fail("X2", err)
		return
	}
	w.Submit(x2)
	w.Refresh()
	// the heavier branch
	y := tip
	for i := 0; i < 3; i++ {
		y = w.GrowRandom(y, 0)
	}
	if w.TipID() != y {
		w.Finish(false, "zombie-no-reorg")
		return
	}
	w.Refresh()
	g.Track.Check()
	y4, err := w.Tree.MineWith(rng, y, []types.Transaction{p}, nil, 1)
	if err != nil {
		fail("Y4", err)
		return
	}
	w.Submit(y4)
	w.Refresh()
	// t spends p's output, now a confirmed element
	var coin *poolrig.Coin
	for _, c := range w.CoinsOf(w.Led, w.Node.CM.Tip().Height+1) {
		if c.ID == p.SiacoinOutputID(0) {
			cc := c
			coin = &cc
		}
	}
	if coin == nil {
		w.Finish(false, "zombie-skipped")
		return
	}
	t := w.SpendV2(w.Node.CM.TipState(), []poolrig.Coin{*coin}, 1, poolrig.Fee(14), 0)
	if g.AddV2(w.TipID(), []types.V2Transaction{t}, nil, "fresh", -1, false) != "ok" {
		w.Finish(false, "zombie-not-accepted")
		return
	}
	if queryBetween {
		g.Lookups(true)
	}
	y5, err := w.Tree.MineWith(rng, y4, []types.Transaction{p2}, nil, 1)
	if err != nil {
		fail("Y5", err)
		return
	}
	w.Submit(y5)
	w.Refresh()
	g.Track.Check()
	w.Finish(true, "zombie")
}

// resubmit: between two blocks, sets that contain an already pooled heavy transaction next to a new
// small one are submitted again and again.  The pooled member is skipped every time; the pool's
// weight is what the pooled transactions weigh, so nothing is evicted and everything accepted stays.
func resubmit(r *vh.Run, rng *vh.RNG, name string, v2 bool) {
	w := poolrig.NewWorld(r, rng, name, chainx.PoolNet(rng, 1, 1000))
	g := &poolrig.Gen{W: w, Rng: rng}
	g.Track = poolrig.NewTracker(w)
	tip := 0
	for i := 0; i < 14; i++ {
		tip = w.GrowRandom(tip, 0)
	}
	w.Refresh()
	cs := w.Node.CM.TipState()
	free := w.FreeCoins()
	rounds := 12
	if len(free) < rounds+2 {
		w.Finish(false, "resubmit-skipped")
		return
	}
	size := 1_700_000 + rng.Intn(200_000)
	if v2 {
		heavy := w.SpendV2(cs, free[0:1], 2, poolrig.Fee(30), size)
		child := w.SpendV2(cs, []poolrig.Coin{poolrig.CoinV2(heavy, 0)}, 1, poolrig.Fee(20), 0)
		g.AddV2(w.TipID(), []types.V2Transaction{heavy, child}, nil, "fresh", -1, false)
		for i := 0; i < rounds && !w.Panicked; i++ {
			fresh := w.SpendV2(cs, free[1+i:2+i], 1, poolrig.Fee(3+i), 0)
			set := []types.V2Transaction{heavy.DeepCopy(), fresh}
			if i%3 == 2 {
				set = []types.V2Transaction{heavy.DeepCopy(), child.DeepCopy(), fresh}
			}
			g.AddV2(w.TipID(), set, nil, "partly-known", -1, true)
		}
	} else {
		heavy := w.SpendV1(cs, free[0:1], 2, poolrig.Fee(30), size)
		child := w.SpendV1(cs, []poolrig.Coin{poolrig.CoinV1(heavy, 0)}, 1, poolrig.Fee(20), 0)
		g.AddV1([]types.Transaction{heavy, child}, nil, "fresh", -1, false)
		for i := 0; i < rounds && !w.Panicked; i++ {
			fresh := w.SpendV1(cs, free[1+i:2+i], 1, poolrig.Fee(3+i), 0)
			set := []types.Transaction{heavy, fresh}
			if i%3 == 2 {
				set = []types.Transaction{heavy, child, fresh}
			}
			g.AddV1(set, nil, "partly-known", -1, true)
		}
	}
	// the next block confirms nothing of it
	w.GrowRandom(w.TipID(), 0)
	w.Refresh()
	g.Track.Check()
	g.Lookups(true)
	w.Finish(true, "resubmit", fmt.Sprintf("resubmit-v2:%v", v2))
}

// nearFull: the pool weighs just below the eviction threshold; a set that is valid on the tip, whose
// heavy first member would cross the threshold and whose last member double-spends a pooled input,
// is rejected.  Nothing of it may stay behind - not in the slices and not in the weight counter:
// the next query must report the pool as it was (it is not full).
func nearFull(r *vh.Run, rng *vh.RNG, name string, v2 bool) {
	w := poolrig.NewWorld(r, rng, name, chainx.PoolNet(rng, 1, 1000))
	g := &poolrig.Gen{W: w, Rng: rng}
	g.Track = poolrig.NewTracker(w)
	tip := 0
	for i := 0; i < 14; i++ {
		tip = w.GrowRandom(tip, 0)
	}
	w.Refresh()
	cs := w.Node.CM.TipState()
	free := w.FreeCoins()
	if len(free) < 13 {
		w.Finish(false, "near-full-skipped")
		return
	}
	limit := 10 * cs.MaxBlockWeight()
	total := uint64(0)
	k := 0
	for ; k < 10; k++ {
		size := 1_880_000 + rng.Intn(40_000)
		fee := types.Siacoins(uint32(2 + k))
		if v2 && k%2 == 0 {
			t := w.SpendV2(cs, free[k:k+1], 1, fee, size)
			total += cs.V2TransactionWeight(t)
			g.AddV2(w.TipID(), []types.V2Transaction{t}, nil, "fresh", -1, false)
		} else {
			t := w.SpendV1(cs, free[k:k+1], 1, fee, size)
			total += cs.TransactionWeight(t)
			g.AddV1([]types.Transaction{t}, nil, "fresh", -1, false)
		}
	}
	if total >= limit || total+1_500_000 < limit {
		panic(fmt.Sprintf("near-full generator: pool weight %d", total))
	}
	// the rejected set: heavy (crosses the threshold), then a double spend of a pooled input
	victim := free[0]
	if v2 {
		heavy := w.SpendV2(cs, free[k:k+1], 1, types.Siacoins(1), 1_500_000)
		dbl := w.SpendV2(cs, []poolrig.Coin{victim}, 2, poolrig.Fee(9), 0)
		g.AddV2(w.TipID(), []types.V2Transaction{heavy, dbl}, nil, "pool-conflict", 1, false)
	} else {
		heavy := w.SpendV1(cs, free[k:k+1], 1, types.Siacoins(1), 1_500_000)
		dbl := w.SpendV1(cs, []poolrig.Coin{victim}, 2, poolrig.Fee(9), 0)
		g.AddV1([]types.Transaction{heavy, dbl}, nil, "pool-conflict", 1, false)
	}
	g.Lookups(false)
	w.Refresh()
	g.Track.Check()
	w.Finish(true, "near-full", fmt.Sprintf("near-full-v2:%v", v2))
}

// revertedParent: more than a block's worth of v1 transactions is queued; a v1 parent P is confirmed,
// a v2 child C of its output is pooled, then a reorg reverts P: the pool is v1 [H1, H2, P], v2 [C] with
// C's input unconfirmed again.  The block MineBlock assembles must stay a prefix of "v1 then v2":
// when the v1 part does not fit, no v2 transaction may follow.
func revertedParent(r *vh.Run, rng *vh.RNG, name string) {
	w := poolrig.NewWorld(r, rng, name, chainx.PoolNet(rng, 1, 1000))
	g := &poolrig.Gen{W: w, Rng: rng}
	g.Track = poolrig.NewTracker(w)
	tip := 0
	for i := 0; i < 4; i++ {
		tip = w.GrowRandom(tip, 0)
	}
	w.Refresh()
	cs := w.Node.CM.TipState()
	free := w.FreeCoins()
	if len(free) < 3 {
		w.Finish(false, "reverted-parent-skipped")
		return
	}
	for k := 0; k < 2; k++ {
		h := w.SpendV1(cs, free[k:k+1], 1, poolrig.Fee(30+k), 1_100_000+rng.Intn(200_000))
		g.AddV1([]types.Transaction{h}, nil, "fresh", -1, false)
	}
	p := w.SpendV1(cs, free[2:3], 2, poolrig.Fee(12), 0)
	x, err := w.Tree.MineWith(rng, tip, []types.Transaction{p}, nil, 1)
	if err != nil {
		w.C.Oracle("generator-block-invalid", "X: %v", err)
		w.Finish(false, "reverted-parent-skipped")
		return
	}
	w.Submit(x)
	w.Refresh()
	var coin *poolrig.Coin
	for _, c := range w.CoinsOf(w.Led, w.Node.CM.Tip().Height+1) {
		if c.ID == p.SiacoinOutputID(0) {
			cc := c
			coin = &cc
		}
	}
	if coin == nil {
		w.Finish(false, "reverted-parent-skipped")
		return
	}
	child := w.SpendV2(w.Node.CM.TipState(), []poolrig.Coin{*coin}, 1, poolrig.Fee(14), 0)
	if g.AddV2(w.TipID(), []types.V2Transaction{child}, nil, "fresh", -1, false) != "ok" {
		w.Finish(false, "reverted-parent-skipped")
		return
	}
	// the reorg that reverts X
	y := tip
	for i := 0; i < 2; i++ {
		y = w.GrowRandom(y, 0)
	}
	w.Refresh()
	g.Track.Check()
	reorged := w.TipID() == y
	_, ok := w.Mine()
	w.Refresh()
	g.Track.Check()
	w.Finish(reorged && ok, "reverted-parent")
}

// aheadTip: the tip's timestamp runs ahead of the wall clock, right below the 3h future limit (a
// legal block of a peer whose clock is ahead).  A block assembled by MineBlock on it must be accepted.
func aheadTip(r *vh.Run, rng *vh.RNG, name string, margin time.Duration) {
	w := poolrig.NewWorld(r, rng, name, chainx.PoolNetInterval(rng, 1, 1000, 10*time.Minute))
	g := &poolrig.Gen{W: w, Rng: rng}
	g.Track = poolrig.NewTracker(w)
	tip := 0
	for i := 0; i < 12; i++ {
		tip = w.GrowRandom(tip, 0)
	}
	w.Refresh()
	for i := 0; i < 3; i++ {
		g.Step()
	}
	// the ahead-of-clock tip
	tip = w.TipID()
	target := time.Now().Add(3*time.Hour - margin)
	dt := int(target.Sub(w.Tree.Blocks[tip].Block.Timestamp) / time.Second)
	id, err := w.Tree.MineWith(rng, tip, nil, nil, dt)
	if err != nil {
		w.C.Oracle("generator-block-invalid", "ahead-of-clock block: %v", err)
		w.Finish(false, "ahead-tip-skipped")
		return
	}
	w.Submit(id)
	w.Refresh()
	g.Track.Check()
	ahead := w.TipID() == id
	for i := 0; i < 2; i++ {
		g.Step()
	}
	_, ok := w.Mine()
	w.Refresh()
	g.Track.Check()
	w.Finish(ahead && ok, "ahead-tip", fmt.Sprintf("ahead-tip-margin:%s", margin))
}

func Run(r *vh.Run) {
	r.Rule = "four case families. history: one real chain.Manager on a growing fork tree driven by 50-90 steps mixing the C14 submission classes (fresh, chained/ephemeral, known, conflicting at k, invalid at k, stale/unknown basis) with blocks confirming pool prefixes, fork branches that overtake the tip (reorg depth 1-3), parent/child sets followed by an unrelated block, and blocks assembled by coreutils.MineBlock; non-trivial = at least one reorg and one accepted set. near-full: ten 1.9M-weight transactions (just below the eviction threshold), then a rejected set whose heavy first member would cross it and whose last member double-spends a pooled input; the next query must report the same pool. resubmit: a 1.7-1.9M-weight pooled transaction (and its child) resubmitted 12 times between two blocks inside sets that also carry a new small transaction (the skipped members must not count towards the pool weight: 12 x 1.8M would reach the eviction threshold), v2 / v1. ahead-tip: a 10-minute-interval network whose tip is stamped 2 / 40 minutes below the 3h future limit (legal), a few pool steps, then MineBlock (the opposite edge, tips years in the past, is every other world). reverted-parent: two 1.2M-weight v1 transactions queued, a v1 parent confirmed, its v2 child pooled, a reorg that reverts the parent (pool: v1 [H1, H2, P], v2 [C unconfirmed again]), then MineBlock. heavy-parent: a pool whose first non-fitting transaction (1.1-1.4M weight behind another one) is the parent of later small ones, v2 / v1 / mixed, then MineBlock. exact-weight: a pool prefix weighing MaxBlockWeight-d for d in {0,1,5,11,12,13,500}, v1 or v2, with or without v2 block data, then MineBlock twice. full-pool: 14 transactions of 1.5-1.9M weight with distinct fee rates (eviction at 10 x MaxBlockWeight), then MineBlock; distinct = distinct op lists"
	rng := vh.NewRNG(r.Seed).Fork()
	n := r.Pick(60, 1200)
	for i := 0; i < n; i++ {
		history(r, rng.Fork(), fmt.Sprintf("h%d", i), r.Pick(50, 90))
	}
	ds := []int{0, 1, 5, 11, 12, 13, 500}
	for i, d := range ds {
		exactWeight(r, rng.Fork(), fmt.Sprintf("w%d-v2", i), d, true, rng.Intn(3))
		exactWeight(r, rng.Fork(), fmt.Sprintf("w%d-v1", i), d, false, rng.Intn(3))
	}
	for i := 0; i < r.Pick(2, 6); i++ {
		nearFull(r, rng.Fork(), fmt.Sprintf("n%d", i), i%2 == 0)
	}
	for i := 0; i < r.Pick(2, 6); i++ {
		resubmit(r, rng.Fork(), fmt.Sprintf("r%d", i), i%2 == 0)
	}
	for i := 0; i < r.Pick(2, 6); i++ {
		zombie(r, rng.Fork(), fmt.Sprintf("z%d", i), i%2 == 0)
	}
	for i, margin := range []time.Duration{2 * time.Minute, 40 * time.Minute, 9 * time.Minute} {
		if i < r.Pick(2, 3) {
			aheadTip(r, rng.Fork(), fmt.Sprintf("a%d", i), margin)
		}
	}
	for i := 0; i < r.Pick(2, 6); i++ {
		revertedParent(r, rng.Fork(), fmt.Sprintf("q%d", i))
	}
	for i := 0; i < r.Pick(3, 12); i++ {
		heavyParent(r, rng.Fork(), fmt.Sprintf("p%d", i), i%3)
	}
	for i := 0; i < r.Pick(2, 8); i++ {
		fullPool(r, rng.Fork(), fmt.Sprintf("f%d", i), i%2 == 0)
	}
	r.Assume("signatures, values and maturity are consensus parameters (maturity delay 0 in the generated networks); a transaction carries the harness's knowledge of whether it corrupted it and the signature era it was signed in")
	r.Assume("Merkle proof verification is core's; proof values are compared with the shadow ledger by the oracle only")
	r.Assume("fee rates of the transactions in the full-pool family are distinct (sort.Slice is not stable)")
	r.Assume("fork trees contain only fully valid blocks (failed reorgs with rollback are C01's subject)")
	r.Assume("sequential use of the Manager")
}
