package poolrig

import (
	"fmt"
	"sort"

	"go.sia.tech/core/types"
)

// Tracker is the C05 retention oracle: a transaction set accepted into the pool must stay
// retrievable until it is confirmed, one of its inputs is spent or reverted on the chain (even
// transiently during a reorg), or it is evicted for low fees when the pool is full.
type Tracker struct {
	W     *World
	items map[types.TransactionID]*tracked
	// elements touched (spent, un-spent, created, un-created) by the blocks reverted and applied
	// since the last check
	touched map[types.Hash256]bool
	// PoolFull is set by the caller while the pool's weight reaches the eviction threshold
	PoolFull bool
	Checked  int
	Kept     int
}

type tracked struct {
	v2       bool
	inputs   []types.Hash256        // every input element
	parentOf []*types.TransactionID // for each input: the pooled creator, if it was unconfirmed at acceptance
	era      int
}

func NewTracker(w *World) *Tracker {
	t := &Tracker{W: w, items: map[types.TransactionID]*tracked{}, touched: map[types.Hash256]bool{}}
	// the property's reasons: an input is SPENT by an applied block, or its creation is REVERTED (the
	// block that created it is reverted), even transiently.  That an applied block CREATES an input
	// (the pooled parent got confirmed) or a reverted block un-spends one is no reason to lose the
	// transaction.
	w.OnPath = func(rev, app []int) {
		for _, b := range app {
			bi := w.ensureInfo(b)
			for _, txn := range bi.V1 {
				for _, in := range txn.SiacoinInputs {
					t.touched[types.Hash256(in.ParentID)] = true
				}
				for _, in := range txn.SiafundInputs {
					t.touched[types.Hash256(in.ParentID)] = true
				}
			}
			for _, txn := range bi.V2 {
				for _, in := range txn.SiacoinInputs {
					t.touched[types.Hash256(in.Parent.ID)] = true
				}
				for _, in := range txn.SiafundInputs {
					t.touched[types.Hash256(in.Parent.ID)] = true
				}
			}
		}
		for _, b := range rev {
			bi := w.ensureInfo(b)
			for _, txn := range bi.V1 {
				for i := range txn.SiacoinOutputs {
					t.touched[types.Hash256(txn.SiacoinOutputID(i))] = true
				}
				for i := range txn.SiafundOutputs {
					t.touched[types.Hash256(txn.SiafundOutputID(i))] = true
				}
			}
			for _, txn := range bi.V2 {
				id := txn.ID()
				for i := range txn.SiacoinOutputs {
					t.touched[types.Hash256(txn.SiacoinOutputID(id, i))] = true
				}
				for i := range txn.SiafundOutputs {
					t.touched[types.Hash256(txn.SiafundOutputID(id, i))] = true
				}
			}
		}
	}
	return t
}

// creators maps every output of the last observed pool to the transaction creating it.
func (w *World) creators() map[types.Hash256]types.TransactionID {
	m := map[types.Hash256]types.TransactionID{}
	for _, t := range w.LastV1 {
		for i := range t.SiacoinOutputs {
			m[types.Hash256(t.SiacoinOutputID(i))] = t.ID()
		}
	}
	for _, t := range w.LastV2 {
		id := t.ID()
		for i := range t.SiacoinOutputs {
			m[types.Hash256(t.SiacoinOutputID(id, i))] = id
		}
	}
	return m
}

// Accepted registers the transactions of a set the pool has just accepted (call after Refresh).
func (t *Tracker) AcceptedV1(set []types.Transaction) {
	pool := t.W.PoolIDs()
	cr := t.W.creators()
	for _, txn := range set {
		id := txn.ID()
		if !pool[id] || t.items[id] != nil {
			continue
		}
		it := &tracked{era: t.W.eraOf(txn)}
		for _, in := range txn.SiacoinInputs {
			it.inputs = append(it.inputs, types.Hash256(in.ParentID))
			if p, ok := cr[types.Hash256(in.ParentID)]; ok {
				it.parentOf = append(it.parentOf, &p)
			} else {
				it.parentOf = append(it.parentOf, nil)
			}
		}
		t.items[id] = it
	}
}

func (t *Tracker) AcceptedV2(set []types.V2Transaction) {
	pool := t.W.PoolIDs()
	cr := t.W.creators()
	for _, txn := range set {
		id := txn.ID()
		if !pool[id] || t.items[id] != nil {
			continue
		}
		it := &tracked{v2: true}
		for _, in := range txn.SiacoinInputs {
			it.inputs = append(it.inputs, types.Hash256(in.Parent.ID))
			if p, ok := cr[types.Hash256(in.Parent.ID)]; ok {
				it.parentOf = append(it.parentOf, &p)
			} else {
				it.parentOf = append(it.parentOf, nil)
			}
		}
		t.items[id] = it
	}
}

// Check is called after every observation of the pool.
func (t *Tracker) Check() {
	w := t.W
	pool := w.PoolIDs()
	confirmed := w.ConfirmedOnBest()
	tipH := w.Node.CM.Tip().Height
	// reason for every tracked transaction that is gone; parents first (ids sorted for determinism,
	// the reason of a parent is computed on demand)
	reason := map[types.TransactionID]string{}
	var why func(id types.TransactionID, depth int) string
	why = func(id types.TransactionID, depth int) string {
		if r, ok := reason[id]; ok {
			return r
		}
		it := t.items[id]
		r := ""
		switch {
		case pool[id]:
			r = "pooled"
		case confirmed[id]:
			r = "confirmed"
		case it == nil:
			r = "untracked"
		case t.PoolFull:
			r = "evicted-pool-full"
		case !it.v2 && tipH+1 >= w.Net.N.HardforkV2.RequireHeight:
			r = "v1-no-longer-allowed"
		case !it.v2 && it.era != w.Era(tipH):
			r = "v1-signature-era-changed"
		case it.v2 && tipH+1 < w.Net.N.HardforkV2.AllowHeight:
			r = "v2-not-yet-allowed"
		}
		if r == "" {
			for _, e := range it.inputs {
				if t.touched[e] {
					r = "input-spent-or-reverted-during-the-step"
					break
				}
			}
		}
		if r == "" {
			for i, e := range it.inputs {
				_, sc := w.Led.SC[types.SiacoinOutputID(e)]
				_, sf := w.Led.SF[types.SiafundOutputID(e)]
				inLedger := sc || sf
				p := it.parentOf[i]
				switch {
				case inLedger:
				case p == nil:
					r = "input-not-in-ledger" // spent or reverted on the chain
				case pool[*p]:
				case confirmed[*p]:
					r = "input-spent-after-parent-confirmed"
				default:
					if depth < 64 {
						r = "parent-gone:" + why(*p, depth+1)
					} else {
						r = "parent-gone"
					}
				}
				if r != "" {
					break
				}
			}
		}
		reason[id] = r
		return r
	}
	var ids []types.TransactionID
	for id := range t.items {
		ids = append(ids, id)
	}
	sort.Slice(ids, func(i, j int) bool { return w.Tx(ids[i]) < w.Tx(ids[j]) })
	for _, id := range ids {
		t.Checked++
		r := why(id, 0)
		switch r {
		case "pooled":
			t.Kept++
		case "":
			w.C.Oracle("accepted-transaction-lost", "transaction %d (%s) was accepted into the pool and is no longer reported at tip %d, although it is not confirmed on the best chain, none of its inputs was spent or reverted by any block applied or reverted since it was last seen, its pooled parents are still pooled or confirmed, and the pool is not full", w.Tx(id), kindOf(t.items[id]), w.TipID())
			delete(t.items, id)
		default:
			w.Stats["gone:"+r]++
			delete(t.items, id)
		}
	}
	t.touched = map[types.Hash256]bool{}
}

func kindOf(it *tracked) string {
	k := "v1"
	if it.v2 {
		k = "v2"
	}
	n := 0
	for _, p := range it.parentOf {
		if p != nil {
			n++
		}
	}
	return fmt.Sprintf("%s, %d inputs, %d of them outputs of pooled parents", k, len(it.inputs), n)
}
