package poolrig

import (
	"sort"

	"verifharness/vh"

	"go.sia.tech/core/consensus"
	"go.sia.tech/core/types"
	"verifharness/chainx"
)

// A Coin is something a generated transaction can spend: a confirmed element of a ledger (with its
// current proof) or the not-yet-confirmed output of another generated transaction.
type Coin struct {
	ID    types.SiacoinOutputID
	Value types.Currency
	Elem  types.SiacoinElement // for v2 inputs; LeafIndex == UnassignedLeafIndex for ephemeral coins
	Eph   bool
}

// CoinsOf lists the actor's spendable confirmed coins of a ledger, by leaf index.
func (w *World) CoinsOf(led *chainx.Ledger, childHeight uint64) []Coin {
	var out []Coin
	for _, e := range w.Net.Spendable(led, childHeight) {
		out = append(out, Coin{ID: e.ID, Value: e.SiacoinOutput.Value, Elem: e.Copy()})
	}
	return out
}

// CoinV1 is output i of a (possibly unconfirmed) v1 transaction.
func CoinV1(txn types.Transaction, i int) Coin {
	id := txn.SiacoinOutputID(i)
	return Coin{ID: id, Value: txn.SiacoinOutputs[i].Value, Eph: true,
		Elem: types.SiacoinElement{ID: id, StateElement: types.StateElement{LeafIndex: types.UnassignedLeafIndex}, SiacoinOutput: txn.SiacoinOutputs[i]}}
}

// CoinV2 is output i of a (possibly unconfirmed) v2 transaction.
func CoinV2(txn types.V2Transaction, i int) Coin {
	e := txn.EphemeralSiacoinOutput(i)
	return Coin{ID: e.ID, Value: e.SiacoinOutput.Value, Elem: e, Eph: true}
}

func split(total types.Currency, n int, to types.Address) []types.SiacoinOutput {
	outs := make([]types.SiacoinOutput, n)
	each := total.Div64(uint64(n))
	rest := total
	for i := range outs {
		outs[i] = types.SiacoinOutput{Address: to, Value: each}
		rest = rest.Sub(each)
	}
	outs[n-1].Value = outs[n-1].Value.Add(rest)
	return outs
}

// Fee is the default fee of generated transactions, varied by k so that fee rates differ.
func Fee(k int) types.Currency {
	return types.Siacoins(1).Div64(100).Mul64(uint64(1 + k%37))
}

// SpendV1 builds and signs a v1 transaction spending coins into nOut outputs of the actor.
func (w *World) SpendV1(cs consensus.State, coins []Coin, nOut int, fee types.Currency, arb int) types.Transaction {
	var sum types.Currency
	txn := types.Transaction{MinerFees: []types.Currency{fee}}
	for _, c := range coins {
		sum = sum.Add(c.Value)
		txn.SiacoinInputs = append(txn.SiacoinInputs, types.SiacoinInput{ParentID: c.ID, UnlockConditions: w.Net.UC})
	}
	txn.SiacoinOutputs = split(sum.Sub(fee), nOut, w.Net.Addr)
	if arb > 0 {
		txn.ArbitraryData = [][]byte{make([]byte, arb)}
	}
	w.Net.SignV1(cs, &txn)
	w.TxEra[DigestV1([]types.Transaction{txn})] = w.Era(cs.Index.Height)
	return txn
}

// SpendV2 builds and signs a v2 transaction.
func (w *World) SpendV2(cs consensus.State, coins []Coin, nOut int, fee types.Currency, arb int) types.V2Transaction {
	var sum types.Currency
	txn := types.V2Transaction{MinerFee: fee}
	for _, c := range coins {
		sum = sum.Add(c.Value)
		txn.SiacoinInputs = append(txn.SiacoinInputs, types.V2SiacoinInput{Parent: c.Elem.Copy()})
	}
	txn.SiacoinOutputs = split(sum.Sub(fee), nOut, w.Net.Addr)
	if arb > 0 {
		txn.ArbitraryData = make([]byte, arb)
	}
	w.Net.SignV2(cs, &txn)
	return txn
}

// BreakV1 / BreakV2 return a copy with a corrupted signature (same transaction id).
func BreakV1(txn types.Transaction) types.Transaction {
	out := txn
	out.Signatures = append([]types.TransactionSignature(nil), txn.Signatures...)
	s := append([]byte(nil), out.Signatures[0].Signature...)
	s[3] ^= 0x55
	out.Signatures[0].Signature = s
	return out
}

func BreakV2(txn types.V2Transaction) types.V2Transaction {
	out := txn.DeepCopy()
	out.SiacoinInputs[0].SatisfiedPolicy.Signatures[0][3] ^= 0x55
	return out
}

// SortedTxIDs returns the small ids of a map in order (nothing that came out of a map is used unsorted).
func SortedKeys(m map[int]bool) []int {
	var out []int
	for k := range m {
		out = append(out, k)
	}
	sort.Ints(out)
	return out
}

// CorruptProof damages the Merkle proof or the leaf index of one confirmed input of one transaction
// of the set: a flipped hash, a neighbouring leaf index, an extended proof, a truncated proof.
func CorruptProof(rng *vh.RNG, set []types.V2Transaction) (how string, ok bool) {
	for k := 0; k < 8; k++ {
		t := &set[rng.Intn(len(set))]
		if len(t.SiacoinInputs) == 0 {
			continue
		}
		in := &t.SiacoinInputs[rng.Intn(len(t.SiacoinInputs))]
		se := &in.Parent.StateElement
		if se.LeafIndex == types.UnassignedLeafIndex {
			continue
		}
		switch rng.Intn(4) {
		case 0:
			if len(se.MerkleProof) == 0 {
				continue
			}
			se.MerkleProof = append([]types.Hash256(nil), se.MerkleProof...)
			se.MerkleProof[rng.Intn(len(se.MerkleProof))][3] ^= 0x40
			return "flipped-hash", true
		case 1:
			se.LeafIndex ^= 1
			return "wrong-leaf-index", true
		case 2:
			se.MerkleProof = append(append([]types.Hash256(nil), se.MerkleProof...), types.Hash256{7})
			return "extended-proof", true
		default:
			if len(se.MerkleProof) == 0 {
				continue
			}
			se.MerkleProof = append([]types.Hash256(nil), se.MerkleProof[:len(se.MerkleProof)-1]...)
			return "truncated-proof", true
		}
	}
	return "", false
}
