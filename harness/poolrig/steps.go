package poolrig

// The generated actions shared by the pool checks: set builders (fresh, chained, partly/wholly
// known, conflicting with the pool at position k, invalid at position k, stale / unknown basis),
// the all-or-nothing and "known" oracles, lookups, aliasing probes, parent-closure queries and
// blocks.  C14 uses Step as it is; C05 and C13 mix their own actions in.

import (
	"go.sia.tech/core/types"
	"verifharness/chainx"
	"verifharness/vh"
)

type Gen struct {
	W   *World
	Rng *vh.RNG
	N   int // counter for fee variation
	// LooseKnown: the pool before the call is only known as of before a tip change (first pool call
	// after it); the "known" parts of the submission oracle are skipped then
	LooseKnown bool
	// Track, if set, is told about every accepted set (C05 retention oracle)
	Track *Tracker
	// transactions seen confirmed or dropped, for lookups of ids that are no longer pooled
	OldIDs []types.TransactionID
}

func ids1(txns []types.Transaction) []types.TransactionID {
	out := make([]types.TransactionID, len(txns))
	for i := range txns {
		out[i] = txns[i].ID()
	}
	return out
}

func ids2(txns []types.V2Transaction) []types.TransactionID {
	out := make([]types.TransactionID, len(txns))
	for i := range txns {
		out[i] = txns[i].ID()
	}
	return out
}

// checkAtomic is the all-or-nothing / known oracle.  before = pool ids before the call.
// orderedIDs is the last observed pool as ordered id lists.
func (g *Gen) orderedIDs() (v1, v2 []types.TransactionID) {
	for _, t := range g.W.LastV1 {
		v1 = append(v1, t.ID())
	}
	for _, t := range g.W.LastV2 {
		v2 = append(v2, t.ID())
	}
	return
}

// checkUnchanged: a submission that returned an error must leave the reported pool exactly as it
// was - every pooled transaction, in the same order - not only free of the set's new transactions.
func (g *Gen) checkUnchanged(api, kind string, k int, b1, b2 []types.TransactionID, res string) {
	if res != "err" || g.LooseKnown || (g.Track != nil && g.Track.PoolFull) || g.W.Panicked {
		return
	}
	a1, a2 := g.orderedIDs()
	same := len(a1) == len(b1) && len(a2) == len(b2)
	for i := 0; same && i < len(a1); i++ {
		same = a1[i] == b1[i]
	}
	for i := 0; same && i < len(a2); i++ {
		same = a2[i] == b2[i]
	}
	if !same {
		g.W.C.Oracle(api+"-error-changes-pool-"+kind, "%s returned an error (%s at position %d) but the reported pool changed: %d+%d transactions before, %d+%d after (or another order)", api, kind, k, len(b1), len(b2), len(a1), len(a2))
	}
}

// checkInvalidRefused: a set in which the harness broke a signature is invalid whatever the pool
// knows about the ids of its members (an id does not commit to signatures): the answer is an error.
func (g *Gen) checkInvalidRefused(api, kind string, k int, oks []bool, res string) {
	broken := false
	for _, ok := range oks {
		if !ok {
			broken = true
		}
	}
	if broken && res != "err" && res != "panic" && res != "skipped" {
		g.W.C.Oracle(api+"-accepts-invalid-set-"+kind, "%s answered %s for a set whose transaction at position %d carries a broken signature", api, res, k)
	}
}

// CheckEviction: when the pool was full and transactions were evicted, the evicted ones are those with
// the LOWEST fee rates: no transaction that is gone may have paid a higher rate than one that stayed.
// before = the pool as observed before the operation plus whatever the operation added; the
// transactions are independent (no parent/child pairs) and none is confirmed or in conflict.
func (g *Gen) CheckEviction(before1 []types.Transaction, before2 []types.V2Transaction, what string) {
	w := g.W
	if w.Panicked {
		return
	}
	cs := w.Node.CM.TipState()
	after := w.PoolIDs()
	type rated struct {
		id   types.TransactionID
		rate types.Currency
	}
	var gone, kept []rated
	for _, t := range before1 {
		r := rated{t.ID(), t.TotalFees().Div64(cs.TransactionWeight(t))}
		if after[r.id] {
			kept = append(kept, r)
		} else {
			gone = append(gone, r)
		}
	}
	for _, t := range before2 {
		r := rated{t.ID(), t.MinerFee.Div64(cs.V2TransactionWeight(t))}
		if after[r.id] {
			kept = append(kept, r)
		} else {
			gone = append(gone, r)
		}
	}
	w.Stats["evicted"] += len(gone)
	for _, e := range gone {
		for _, k := range kept {
			if e.rate.Cmp(k.rate) > 0 {
				w.C.Oracle("evicted-although-not-lowest-fee-rate", "%s: transaction %d (fee rate %v per weight unit) was evicted from the full pool while transaction %d (fee rate %v) stayed", what, w.Tx(e.id), e.rate, w.Tx(k.id), k.rate)
				return
			}
		}
	}
}

func (g *Gen) CheckAtomic(api string, kind string, k int, before map[types.TransactionID]bool, set []types.TransactionID, res string, standaloneValid bool) {
	w := g.W
	after := w.PoolIDs()
	var fresh []types.TransactionID
	seen := map[types.TransactionID]bool{}
	// a transaction that is already confirmed on the best chain is removed from a v2 set while
	// the set is moved from its basis to the tip; it is neither new nor pooled
	confirmed := w.ConfirmedOnBest()
	for _, id := range set {
		if !before[id] && !seen[id] && !confirmed[id] {
			fresh = append(fresh, id)
		}
		seen[id] = true
	}
	added := 0
	for _, id := range fresh {
		if after[id] {
			added++
		}
	}
	switch res {
	case "err":
		if added > 0 {
			w.C.Oracle(api+"-partial-add-"+kind, "%s returned an error for a %d-transaction set (%s at position %d) but %d of its %d new transactions are in the pool afterwards", api, len(set), kind, k, added, len(fresh))
		}
	case "ok":
		if added != len(fresh) && !(g.Track != nil && g.Track.PoolFull) { // a full pool evicts at the next query
			w.C.Oracle(api+"-ok-but-not-all-added", "%s succeeded but only %d of %d new transactions are pooled", api, added, len(fresh))
		}
		if len(fresh) == 0 && !g.LooseKnown {
			w.C.Oracle(api+"-not-known-although-all-pooled", "%s reported not-known although every transaction of the set was pooled or confirmed", api)
		}
	case "known":
		if len(fresh) != 0 && !g.LooseKnown {
			w.C.Oracle(api+"-known-although-new", "%s reported known although %d transactions were not pooled", api, len(fresh))
		}
	}
	if standaloneValid && len(fresh) == 0 && len(set) > 0 && res != "known" && !g.LooseKnown {
		w.C.Oracle(api+"-not-known-although-all-pooled", "%s returned %s for a valid set whose transactions are all pooled", api, res)
	}
}

func (g *Gen) Fee() types.Currency { g.N++; return Fee(g.N*7 + g.Rng.Intn(5)) }

// freshChainV1 builds n v1 transactions: each spends a free coin, or (chain) an output of the previous one.
func (g *Gen) FreshV1(n int, chain bool) []types.Transaction {
	w := g.W
	cs := w.Node.CM.TipState()
	free := w.FreeCoins()
	var out []types.Transaction
	for i := 0; i < n; i++ {
		var coin Coin
		if chain && i > 0 {
			coin = CoinV1(out[i-1], 0)
		} else if len(free) > 0 {
			j := g.Rng.Intn(len(free))
			coin = free[j]
			free = append(free[:j], free[j+1:]...)
		} else {
			break
		}
		out = append(out, w.SpendV1(cs, []Coin{coin}, 1+g.Rng.Intn(2), g.Fee(), 0))
	}
	return out
}

func (g *Gen) FreshV2(n int, chain bool, coins []Coin) []types.V2Transaction {
	w := g.W
	cs := w.Node.CM.TipState()
	var out []types.V2Transaction
	for i := 0; i < n; i++ {
		var coin Coin
		if chain && i > 0 {
			coin = CoinV2(out[i-1], 0)
		} else if len(coins) > 0 {
			j := g.Rng.Intn(len(coins))
			coin = coins[j]
			coins = append(coins[:j], coins[j+1:]...)
		} else {
			break
		}
		out = append(out, w.SpendV2(cs, []Coin{coin}, 1+g.Rng.Intn(2), g.Fee(), 0))
	}
	return out
}

func copyV2(txns []types.V2Transaction) []types.V2Transaction {
	out := make([]types.V2Transaction, len(txns))
	for i := range txns {
		out[i] = txns[i].DeepCopy()
	}
	return out
}

// addV2 submits with the retention probe: after a successful call the caller's memory is scribbled
// and the pool must not change.
func (g *Gen) AddV2(basis int, txns []types.V2Transaction, oks []bool, kind string, k int, standalone bool) string {
	w := g.W
	before := w.PoolIDs()
	b1, b2 := g.orderedIDs()
	mine := copyV2(txns)
	res := w.AddV2(basis, mine, oks)
	if res == "ok" || res == "known" {
		var d0, d1 [32]byte
		if !w.Guard("pool-query-panic", "V2PoolTransactions", func() { d0 = DigestV2(w.Node.CM.V2PoolTransactions()) }) {
			for i := range mine {
				Scribble(&mine[i])
			}
			w.Guard("pool-query-panic", "V2PoolTransactions", func() { d1 = DigestV2(w.Node.CM.V2PoolTransactions()) })
			if d0 != d1 {
				w.C.Oracle("addv2pooltransactions-retains-caller-memory", "overwriting the caller's transactions after AddV2PoolTransactions returned changed the pool")
				w.Panicked = true
				w.C.Op("pool", "corrupted")
				return res
			}
		}
	}
	w.Refresh()
	g.checkInvalidRefused("addv2pooltransactions", kind, k, oks, res)
	g.checkUnchanged("addv2pooltransactions", kind, k, b1, b2, res)
	g.CheckAtomic("addv2pooltransactions", kind, k, before, ids2(txns), res, standalone)
	if g.Track != nil {
		if res == "ok" {
			g.Track.AcceptedV2(txns)
		}
		g.Track.Check()
	}
	return res
}

func (g *Gen) AddV1(txns []types.Transaction, oks []bool, kind string, k int, standalone bool) string {
	w := g.W
	before := w.PoolIDs()
	b1, b2 := g.orderedIDs()
	res := w.AddV1(append([]types.Transaction(nil), txns...), oks)
	w.Refresh()
	g.checkInvalidRefused("addpooltransactions", kind, k, oks, res)
	g.checkUnchanged("addpooltransactions", kind, k, b1, b2, res)
	g.CheckAtomic("addpooltransactions", kind, k, before, ids1(txns), res, standalone)
	if g.Track != nil {
		if res == "ok" {
			g.Track.AcceptedV1(txns)
		}
		g.Track.Check()
	}
	return res
}

// confirmedInputV1 / V2: pooled transactions all of whose inputs are confirmed (valid on their own).
func (g *Gen) StandaloneV1() []types.Transaction {
	w := g.W
	var out []types.Transaction
	for _, t := range w.LastV1 {
		ok := true
		for _, in := range t.SiacoinInputs {
			if _, has := w.Led.SC[in.ParentID]; !has {
				ok = false
			}
		}
		if ok && len(t.SiafundInputs) == 0 && len(t.SiacoinInputs) > 0 {
			out = append(out, t)
		}
	}
	return out
}

func (g *Gen) StandaloneV2() []types.V2Transaction {
	w := g.W
	var out []types.V2Transaction
	for _, t := range w.LastV2 {
		ok := true
		for _, in := range t.SiacoinInputs {
			if in.Parent.StateElement.LeafIndex == types.UnassignedLeafIndex {
				ok = false
			}
		}
		if ok && len(t.SiacoinInputs) > 0 {
			out = append(out, t.DeepCopy())
		}
	}
	return out
}

// lookups queries both APIs with every id kind.
func (g *Gen) Lookups(all bool) {
	w := g.W
	v1, v2 := w.LastV1, w.LastV2
	pick := func(n int) []int {
		if all || n <= 2 {
			p := make([]int, n)
			for i := range p {
				p[i] = i
			}
			return p
		}
		return []int{g.Rng.Intn(n), n - 1}
	}
	for _, i := range pick(len(v1)) {
		w.Get1(v1[i].ID(), "v1")
		w.Get2(v1[i].ID(), "v1")
	}
	for _, i := range pick(len(v2)) {
		w.Get2(v2[i].ID(), "v2")
		w.Get1(v2[i].ID(), "v2")
	}
	u := w.UnknownTxID()
	w.Get1(u, "unknown")
	w.Get2(u, "unknown")
	if len(g.OldIDs) > 0 {
		id := g.OldIDs[g.Rng.Intn(len(g.OldIDs))]
		w.Get1(id, "former")
		w.Get2(id, "former")
	}
}

// aliasing mutates / reorders what the list queries return and asks again.
func (g *Gen) Aliasing() {
	w := g.W
	if w.Panicked {
		return
	}
	w.Guard("pool-query-panic", "aliasing probe", func() {
		cm := w.Node.CM
		a := cm.V2PoolTransactions()
		d := DigestV2(a)
		for i := range a {
			Scribble(&a[i])
		}
		for l, r := 0, len(a)-1; l < r; l, r = l+1, r-1 {
			a[l], a[r] = a[r], a[l]
		}
		if DigestV2(cm.V2PoolTransactions()) != d {
			w.C.Oracle("v2pooltransactions-returns-shared-memory", "mutating / reordering the list returned by V2PoolTransactions changed the pool")
			w.Panicked = true // the pool is corrupted now; nothing after this is meaningful
			return
		}
		b := cm.PoolTransactions()
		d1 := DigestV1(b)
		for l, r := 0, len(b)-1; l < r; l, r = l+1, r-1 {
			b[l], b[r] = b[r], b[l]
		}
		if DigestV1(cm.PoolTransactions()) != d1 {
			w.C.Oracle("pooltransactions-returns-shared-slice", "reordering the list returned by PoolTransactions changed the pool")
		}
		// TransactionsForPartialBlock: returned v2 transactions are copies, and each has a requested hash
		var want []types.Hash256
		for _, t := range cm.PoolTransactions() {
			want = append(want, t.MerkleLeafHash())
		}
		for _, t := range cm.V2PoolTransactions() {
			want = append(want, t.MerkleLeafHash())
		}
		var junk types.Hash256
		g.Rng.Bytes(junk[:])
		want = append(want, junk)
		p1, p2 := cm.TransactionsForPartialBlock(want)
		if len(p1) != len(b) || len(p2) != len(a) {
			w.C.Oracle("transactionsforpartialblock-incomplete", "asked for all %d+%d pooled transactions by hash, got %d+%d", len(b), len(a), len(p1), len(p2))
		}
		for i := range p2 {
			Scribble(&p2[i])
		}
		if DigestV2(cm.V2PoolTransactions()) != d {
			w.C.Oracle("transactionsforpartialblock-returns-shared-memory", "mutating the v2 transactions returned by TransactionsForPartialBlock changed the pool")
			w.Panicked = true
			return
		}
		_ = cm.RecommendedFee()
	})
	w.Stats["aliasing-probes"]++
}

func (g *Gen) Remember() {
	for _, t := range g.W.LastV1 {
		g.OldIDs = append(g.OldIDs, t.ID())
	}
	for _, t := range g.W.LastV2 {
		g.OldIDs = append(g.OldIDs, t.ID())
	}
	if len(g.OldIDs) > 64 {
		g.OldIDs = g.OldIDs[len(g.OldIDs)-64:]
	}
}

// parents exercises the parent closure of both APIs: the queried transaction spends outputs of
// pooled v1 transactions, of pooled v2 transactions, of both, or of a parent and a grandparent in
// either input order.
func (g *Gen) Parents() string {
	w, rng := g.W, g.Rng
	w.ExpectTSetOK = true
	defer func() { w.ExpectTSetOK = false }()
	cs := w.Node.CM.TipState()
	e1, e2 := w.EphCoins(true, false), w.EphCoins(false, true)
	switch rng.Intn(9) {
	case 0: // v1 API, child of pooled v1 outputs (or of nothing)
		if len(e1) == 0 {
			if len(w.LastV1) == 0 {
				return "skip"
			}
			w.Parents1(w.LastV1[rng.Intn(len(w.LastV1))], "pooled")
			return "parents-v1-pooled"
		}
		w.Parents1(w.SpendV1(cs, []Coin{e1[rng.Intn(len(e1))]}, 1, g.Fee(), 0), "v1-parent")
		return "parents-v1"
	case 1: // v1 API with an input that names an output of a pooled v2 transaction
		if len(e2) == 0 {
			return "skip"
		}
		w.Parents1(w.SpendV1(cs, []Coin{e2[rng.Intn(len(e2))]}, 1, g.Fee(), 0), "v2-parent")
		return "parents-v1-of-v2-output"
	case 2: // v2 API, parent is a pooled v2 transaction
		if len(e2) == 0 || !w.V2Allowed() {
			return "skip"
		}
		w.TSet(w.TipID(), w.SpendV2(cs, []Coin{e2[rng.Intn(len(e2))]}, 1, g.Fee(), 0), "v2-parent")
		return "tset-v2-parent"
	case 3: // v2 API, parent is a pooled v1 transaction
		if len(e1) == 0 || !w.V2Allowed() {
			return "skip"
		}
		w.TSet(w.TipID(), w.SpendV2(cs, []Coin{e1[rng.Intn(len(e1))]}, 1, g.Fee(), 0), "v1-parent")
		return "tset-v1-parent"
	case 4: // v2 API, parent and grandparent, in both input orders
		if !w.V2Allowed() {
			return "skip"
		}
		free := w.FreeCoins()
		if len(free) == 0 {
			return "skip"
		}
		a := w.SpendV2(cs, []Coin{free[rng.Intn(len(free))]}, 2, g.Fee(), 0)
		b := w.SpendV2(cs, []Coin{CoinV2(a, 0)}, 1, g.Fee(), 0)
		if g.AddV2(w.TipID(), []types.V2Transaction{a, b}, nil, "fresh", -1, false) != "ok" {
			return "skip"
		}
		w.TSet(w.TipID(), w.SpendV2(cs, []Coin{CoinV2(a, 1), CoinV2(b, 0)}, 1, g.Fee(), 0), "grandparent-first")
		w.TSet(w.TipID(), w.SpendV2(cs, []Coin{CoinV2(b, 0), CoinV2(a, 1)}, 1, g.Fee(), 0), "parent-first")
		return "tset-diamond"
	case 6, 7: // v2 API, a chain of 3-5 pooled generations above the transaction (also with a stale basis)
		if !w.V2Allowed() {
			return "skip"
		}
		free := w.FreeCoins()
		if len(free) == 0 {
			return "skip"
		}
		depth := 3 + rng.Intn(3)
		chain := g.FreshV2(depth, true, free[:1])
		if len(chain) != depth || g.AddV2(w.TipID(), chain, nil, "fresh", -1, false) != "ok" {
			return "skip"
		}
		last := chain[len(chain)-1]
		w.TSet(w.TipID(), w.SpendV2(cs, []Coin{CoinV2(last, 0)}, 1, g.Fee(), 0), "deep-chain")
		// the same for the v1 API
		if w.V1Allowed() && rng.Bool() {
			free = w.FreeCoins()
			if len(free) > 0 {
				c1 := g.FreshV1(depth, true)
				if len(c1) == depth && g.AddV1(c1, nil, "fresh", -1, true) == "ok" {
					out := w.Parents1(w.SpendV1(cs, []Coin{CoinV1(c1[depth-1], 0)}, 1, g.Fee(), 0), "deep-chain")
					if len(out) != depth {
						w.C.Oracle("unconfirmedparents-deep-chain-ancestor-missing", "UnconfirmedParents of a transaction with %d pooled generations above it returned %d transactions", depth, len(out))
					}
				}
			}
		}
		return "tset-deep-chain"
	case 5: // v2 API, stale basis, with and without pooled parents
		if !w.V2Allowed() || len(e2) == 0 {
			return "skip"
		}
		tip := w.TipID()
		basis := w.Tree.Blocks[tip].Parent
		if basis == 0 || !w.Known[basis] {
			return "skip"
		}
		led := w.LedgerAt(basis)
		coins := w.CoinsOf(led, w.Tree.Blocks[basis].Height+1)
		spent := map[types.SiacoinOutputID]bool{}
		for _, t := range w.LastV2 {
			for _, in := range t.SiacoinInputs {
				spent[in.Parent.ID] = true
			}
		}
		for _, t := range w.LastV1 {
			for _, in := range t.SiacoinInputs {
				spent[in.ParentID] = true
			}
		}
		var usable []Coin
		for _, c := range coins {
			if _, still := w.Led.SC[c.ID]; still && !spent[c.ID] && c.Value.Cmp(types.Siacoins(2)) >= 0 {
				usable = append(usable, c)
			}
		}
		if len(usable) == 0 {
			return "skip"
		}
		c := usable[rng.Intn(len(usable))]
		w.TSet(basis, w.SpendV2(cs, []Coin{c}, 1, g.Fee(), 0), "stale-basis-no-parent")
		w.TSet(basis, w.SpendV2(cs, []Coin{c, e2[rng.Intn(len(e2))]}, 1, g.Fee(), 0), "stale-basis-pooled-parent")
		return "tset-stale-basis"
	default: // v2 API, a pooled v2 transaction itself, or no parents at all
		if !w.V2Allowed() {
			return "skip"
		}
		if len(w.LastV2) > 0 && rng.Bool() {
			w.TSet(w.TipID(), w.LastV2[rng.Intn(len(w.LastV2))].DeepCopy(), "pooled")
			return "tset-pooled"
		}
		free := w.FreeCoins()
		if len(free) == 0 {
			return "skip"
		}
		w.TSet(w.TipID(), w.SpendV2(cs, []Coin{free[0]}, 1, g.Fee(), 0), "no-parent")
		return "tset-no-parent"
	}
}

// firstCallConflict: a block confirms a proper prefix of the pool (so the re-validation will shorten
// the slices) and the FIRST pool call afterwards is a submission [new, new?, conflicting], whose
// last member double-spends an input of a transaction that is still pooled.  It must fail and leave
// none of its members behind, and it must not panic.
func (g *Gen) firstCallConflict(prev1 []types.Transaction, prev2 []types.V2Transaction) string {
	w, rng := g.W, g.Rng
	useV1 := len(prev1) >= 2 && w.V1Allowed() && (len(prev2) < 2 || rng.Bool())
	if !useV1 && (len(prev2) < 2 || !w.V2Allowed() || len(prev1) > 0) {
		// the v2 variant confirms v2 transactions only, which needs an empty v1 slice (a block takes all of v1 first)
		if !(len(prev2) >= 2 && w.V2Allowed() && len(prev1) == 0) {
			return ""
		}
	}
	oldTip := w.TipID()
	if useV1 {
		victim := prev1[len(prev1)-1]
		if len(victim.SiacoinInputs) == 0 {
			return ""
		}
		el, ok := w.Led.SC[victim.SiacoinInputs[0].ParentID]
		if !ok {
			return "" // an unconfirmed input: the set would not be valid on the tip
		}
		if _, err := w.GrowFromPool(1+rng.Intn(len(prev1)-1), 0); err != nil || w.TipID() == oldTip {
			w.Refresh()
			return "skip"
		}
		cs := w.Node.CM.TipState()
		// new members: coins nobody in the old pool spent
		spent := map[types.SiacoinOutputID]bool{}
		for _, t := range prev1 {
			for _, in := range t.SiacoinInputs {
				spent[in.ParentID] = true
			}
		}
		for _, t := range prev2 {
			for _, in := range t.SiacoinInputs {
				spent[in.Parent.ID] = true
			}
		}
		var set []types.Transaction
		for _, c := range w.CoinsOf(w.Led, w.Node.CM.Tip().Height+1) {
			if !spent[c.ID] && c.Value.Cmp(types.Siacoins(3)) >= 0 && len(set) < 1+rng.Intn(2) {
				set = append(set, w.SpendV1(cs, []Coin{c}, 1, g.Fee(), 0))
			}
		}
		if len(set) == 0 {
			w.Refresh()
			return "skip"
		}
		set = append(set, w.SpendV1(cs, []Coin{{ID: el.ID, Value: el.SiacoinOutput.Value}}, 2, g.Fee(), 0))
		g.LooseKnown = true
		g.AddV1(set, nil, "first-call-pool-conflict", len(set)-1, false)
		g.LooseKnown = false
		w.Stats["first-call:add1-conflict"]++
		return "first-call-add1-conflict"
	}
	victim := prev2[len(prev2)-1]
	if len(victim.SiacoinInputs) == 0 || victim.SiacoinInputs[0].Parent.StateElement.LeafIndex == types.UnassignedLeafIndex {
		return ""
	}
	vid := victim.SiacoinInputs[0].Parent.ID
	if _, err := w.GrowFromPool(0, 1+rng.Intn(len(prev2)-1)); err != nil || w.TipID() == oldTip {
		w.Refresh()
		return "skip"
	}
	el, ok := w.Led.SC[vid]
	if !ok {
		w.Refresh()
		return "skip"
	}
	cs := w.Node.CM.TipState()
	spent := map[types.SiacoinOutputID]bool{}
	for _, t := range prev2 {
		for _, in := range t.SiacoinInputs {
			spent[in.Parent.ID] = true
		}
	}
	var set []types.V2Transaction
	for _, c := range w.CoinsOf(w.Led, w.Node.CM.Tip().Height+1) {
		if !spent[c.ID] && c.Value.Cmp(types.Siacoins(3)) >= 0 && len(set) < 1+rng.Intn(2) {
			set = append(set, w.SpendV2(cs, []Coin{c}, 1, g.Fee(), 0))
		}
	}
	if len(set) == 0 {
		w.Refresh()
		return "skip"
	}
	set = append(set, w.SpendV2(cs, []Coin{{ID: el.ID, Value: el.SiacoinOutput.Value, Elem: el.Copy()}}, 2, g.Fee(), 0))
	g.LooseKnown = true
	g.AddV2(w.TipID(), set, nil, "first-call-pool-conflict", len(set)-1, false)
	g.LooseKnown = false
	w.Stats["first-call:add2-conflict"]++
	return "first-call-add2-conflict"
}

// FirstCall changes the tip (a block confirming a prefix of the pool, a block with other
// transactions on the tip, or a fork branch that overtakes it) and then makes ONE query the first
// pool call after the tip change - before anything else has caused a re-validation - choosing its
// argument from the pool as it was before the tip change.  The answer must agree with the pool
// listing taken right afterwards (queries change nothing), besides agreeing with the model.
func (g *Gen) FirstCall() string {
	w, rng := g.W, g.Rng
	g.Remember()
	prev1 := append([]types.Transaction(nil), w.LastV1...)
	prev2 := make([]types.V2Transaction, len(w.LastV2))
	for i := range w.LastV2 {
		prev2[i] = w.LastV2[i].DeepCopy()
	}
	oldTip := w.TipID()
	how := ""
	if len(prev1)+len(prev2) >= 2 && rng.Chance(1, 3) {
		if r := g.firstCallConflict(prev1, prev2); r != "" {
			return r
		}
	}
	switch rng.Intn(4) {
	case 0, 1: // confirm a proper prefix, so that the rest moves to other positions
		n1 := rng.Intn(len(prev1) + 1)
		n2 := 0
		if n1 == len(prev1) {
			n2 = rng.Intn(len(prev2) + 1)
		}
		if n1+n2 == 0 && len(prev1)+len(prev2) > 0 {
			if len(prev1) > 0 {
				n1 = 1
			} else {
				n2 = 1
			}
		}
		if _, err := w.GrowFromPool(n1, n2); err != nil {
			w.C.Oracle("pool-prefix-not-minable", "a block carrying a prefix of the reported pool is invalid on a linear twin: %v", err)
		}
		how = "confirm-prefix"
	case 2:
		w.GrowRandom(oldTip, rng.Intn(3))
		how = "other-block"
	default: // a branch from the parent that overtakes the tip
		at := w.Tree.Blocks[oldTip].Parent
		for i := 0; i < 3 && w.TipID() == oldTip; i++ {
			at = w.GrowRandom(at, rng.Intn(2))
		}
		how = "reorg"
	}
	if w.TipID() == oldTip || w.Panicked {
		w.Refresh()
		return "skip"
	}
	// the one query
	kind := ""
	var chk func()
	pick1 := func() (types.TransactionID, bool) {
		if len(prev1) == 0 {
			return types.TransactionID{}, false
		}
		if rng.Bool() {
			return prev1[len(prev1)-1].ID(), true
		}
		return prev1[rng.Intn(len(prev1))].ID(), true
	}
	pick2 := func() (types.TransactionID, bool) {
		if len(prev2) == 0 {
			return types.TransactionID{}, false
		}
		if rng.Bool() {
			return prev2[len(prev2)-1].ID(), true
		}
		return prev2[rng.Intn(len(prev2))].ID(), true
	}
	in1 := func(id types.TransactionID) bool {
		for _, t := range w.LastV1 {
			if t.ID() == id {
				return true
			}
		}
		return false
	}
	in2 := func(id types.TransactionID) bool {
		for _, t := range w.LastV2 {
			if t.ID() == id {
				return true
			}
		}
		return false
	}
	switch q := rng.Intn(12); {
	case q >= 10: // a submission as the first pool call: a set valid as of the OLD tip (v2), or a v1 set
		if q == 10 && w.V2Allowed() && w.Applied[oldTip] {
			coins := w.CoinsOf(w.LedgerAt(oldTip), w.Tree.Blocks[oldTip].Height+1)
			if len(coins) > 0 {
				c := coins[rng.Intn(len(coins))]
				if c.Value.Cmp(types.Siacoins(3)) >= 0 {
					set := []types.V2Transaction{w.SpendV2(w.Node.CM.TipState(), []Coin{c}, 2, g.Fee(), 0)}
					if rng.Bool() {
						set = append(set, w.SpendV2(w.Node.CM.TipState(), []Coin{CoinV2(set[0], 1)}, 1, g.Fee(), 0))
					}
					// the pool before the call is not known to the harness without asking (which would defeat
					// the purpose): the all-or-nothing oracle compares against the pool as it was before the
					// tip change minus nothing, so only its "err => none added" and "ok => all added" parts apply
					g.LooseKnown = true
					g.AddV2(oldTip, set, nil, "first-call-stale-basis", -1, false)
					g.LooseKnown = false
					w.Stats["first-call:add2:"+how]++
					return "first-call-add2"
				}
			}
		}
		if w.V1Allowed() {
			// coins: confirmed at the new tip and not spent by the old pool
			spent := map[types.SiacoinOutputID]bool{}
			for _, t := range prev1 {
				for _, in := range t.SiacoinInputs {
					spent[in.ParentID] = true
				}
			}
			for _, t := range prev2 {
				for _, in := range t.SiacoinInputs {
					spent[in.Parent.ID] = true
				}
			}
			var cands []Coin
			for _, c := range w.CoinsOf(w.Led, w.Node.CM.Tip().Height+1) {
				if !spent[c.ID] && c.Value.Cmp(types.Siacoins(3)) >= 0 {
					cands = append(cands, c)
				}
			}
			if len(cands) > 0 {
				set := []types.Transaction{w.SpendV1(w.Node.CM.TipState(), []Coin{cands[rng.Intn(len(cands))]}, 1, g.Fee(), 0)}
				g.LooseKnown = true
				g.AddV1(set, nil, "first-call", -1, false)
				g.LooseKnown = false
				w.Stats["first-call:add1:"+how]++
				return "first-call-add1"
			}
		}
		w.Guard("recommendedfee-panic", "RecommendedFee", func() { _ = w.Node.CM.RecommendedFee() })
		kind = "fee"
	case q < 3: // PoolTransaction
		id, ok := pick1()
		k := "v1"
		if !ok || rng.Chance(1, 4) {
			if id2, ok2 := pick2(); ok2 && rng.Bool() {
				id, k = id2, "v2"
			} else {
				id, k = w.UnknownTxID(), "unknown"
			}
		}
		found := w.Get1(id, k)
		kind = "get1-" + k
		chk = func() {
			if found != in1(id) {
				w.C.Oracle("pooltransaction-first-call-after-tip-change-disagrees-with-pool", "PoolTransaction(%s id %d) as the first pool call after a tip change (%s) reported found=%v, the pool listed right afterwards has it: %v", k, w.Tx(id), how, found, in1(id))
			}
		}
	case q < 6: // V2PoolTransaction
		id, ok := pick2()
		k := "v2"
		if !ok || rng.Chance(1, 4) {
			if id1, ok1 := pick1(); ok1 && rng.Bool() {
				id, k = id1, "v1"
			} else {
				id, k = w.UnknownTxID(), "unknown"
			}
		}
		found := w.Get2(id, k)
		kind = "get2-" + k
		chk = func() {
			if found != in2(id) {
				w.C.Oracle("v2pooltransaction-first-call-after-tip-change-disagrees-with-pool", "V2PoolTransaction(%s id %d) as the first pool call after a tip change (%s) reported found=%v, the pool listed right afterwards has it: %v", k, w.Tx(id), how, found, in2(id))
			}
		}
	case q < 7: // TransactionsForPartialBlock with every hash of the old pool
		var want []types.Hash256
		for _, t := range prev1 {
			want = append(want, t.MerkleLeafHash())
		}
		for _, t := range prev2 {
			want = append(want, t.MerkleLeafHash())
		}
		var p1 []types.Transaction
		var p2 []types.V2Transaction
		w.Guard("transactionsforpartialblock-panic", "TransactionsForPartialBlock", func() { p1, p2 = w.Node.CM.TransactionsForPartialBlock(want) })
		kind = "partial"
		chk = func() {
			wantSet := map[types.Hash256]bool{}
			for _, h := range want {
				wantSet[h] = true
			}
			n1, n2 := 0, 0
			for _, t := range w.LastV1 {
				if wantSet[t.MerkleLeafHash()] {
					n1++
				}
			}
			for _, t := range w.LastV2 {
				if wantSet[t.MerkleLeafHash()] {
					n2++
				}
			}
			if n1 != len(p1) || n2 != len(p2) {
				w.C.Oracle("transactionsforpartialblock-first-call-after-tip-change-disagrees-with-pool", "TransactionsForPartialBlock as the first pool call after a tip change (%s) returned %d+%d transactions, the pool listed right afterwards holds %d+%d of the requested hashes", how, len(p1), len(p2), n1, n2)
			}
		}
	case q < 8: // UnconfirmedParents of a formerly pooled v1 transaction
		if len(prev1) == 0 {
			w.Guard("recommendedfee-panic", "RecommendedFee", func() { _ = w.Node.CM.RecommendedFee() })
			kind = "fee"
			break
		}
		child := prev1[len(prev1)-1]
		out := w.Parents1(child, "first-call")
		kind = "par1"
		chk = func() {
			for _, p := range out {
				if !in1(p.ID()) {
					w.C.Oracle("unconfirmedparents-first-call-after-tip-change-returns-unpooled", "UnconfirmedParents as the first pool call after a tip change (%s) returned transaction %d, which the pool listed right afterwards does not hold", how, w.Tx(p.ID()))
				}
			}
		}
	default: // V2TransactionSet for a formerly pooled v2 transaction, basis = the old tip
		if len(prev2) == 0 || !w.V2Allowed() {
			w.Guard("recommendedfee-panic", "RecommendedFee", func() { _ = w.Node.CM.RecommendedFee() })
			kind = "fee"
			break
		}
		t := prev2[len(prev2)-1]
		set, ok := w.TSet(oldTip, t, "first-call")
		kind = "tset"
		chk = func() {
			if !ok {
				return
			}
			for _, p := range set {
				if p.ID() != t.ID() && !in2(p.ID()) {
					w.C.Oracle("v2transactionset-first-call-after-tip-change-returns-unpooled", "V2TransactionSet as the first pool call after a tip change (%s) returned transaction %d as a parent, which the pool listed right afterwards does not hold", how, w.Tx(p.ID()))
				}
			}
		}
	}
	w.Refresh()
	if chk != nil && !w.Panicked {
		chk()
	}
	w.Stats["first-call:"+kind+":"+how]++
	return "first-call-" + kind
}

// CorruptResubmit: a transaction whose id is already pooled is handed in again through all three
// entry points that move a set from a basis to the tip, as a copy whose proofs are claimed valid
// as of an OLDER basis and have been damaged.  A transaction id does not commit to proofs or leaf
// indices, so being pooled says nothing about the copy: every call must answer with an error.
func (g *Gen) CorruptResubmit() string {
	w, rng := g.W, g.Rng
	if !w.V2Allowed() || w.Panicked {
		return "skip"
	}
	tip := w.TipID()
	basis := w.Tree.Blocks[tip].Parent
	if basis == 0 || !w.Applied[basis] || w.Tree.Blocks[basis].Height+1 < w.Net.N.HardforkV2.AllowHeight {
		return "skip"
	}
	// a coin that exists at the basis and at the tip and that the pool does not spend
	spent := w.spentByPool()
	var cands []Coin
	for _, c := range w.CoinsOf(w.LedgerAt(basis), w.Tree.Blocks[basis].Height+1) {
		if _, still := w.Led.SC[c.ID]; still && !spent[c.ID] && c.Value.Cmp(types.Siacoins(3)) >= 0 && len(c.Elem.StateElement.MerkleProof) > 0 {
			cands = append(cands, c)
		}
	}
	if len(cands) == 0 {
		return "skip"
	}
	orig := w.SpendV2(w.Node.CM.TipState(), []Coin{cands[rng.Intn(len(cands))]}, 1, g.Fee(), 0) // proofs as of the basis
	if g.AddV2(basis, []types.V2Transaction{orig}, nil, "stale-basis", -1, false) != "ok" {
		return "skip"
	}
	for _, api := range []string{"update", "add", "tset"} {
		bad := []types.V2Transaction{orig.DeepCopy()}
		how, ok := CorruptProof(rng, bad)
		if !ok {
			return "skip"
		}
		switch api {
		case "update":
			if _, accepted := w.Update(basis, tip, bad, "pooled-id-corrupt-"+how); accepted {
				w.C.Oracle("updatev2transactionset-accepts-corrupt-proof-of-pooled-id", "UpdateV2TransactionSet %d -> %d accepted a copy of a pooled transaction with a %s (as of the claimed basis) and returned it", basis, tip, how)
			}
		case "add":
			if res := g.AddV2(basis, bad, nil, "pooled-id-corrupt-"+how, 0, false); res != "err" && res != "panic" && res != "skipped" {
				w.C.Oracle("addv2pooltransactions-accepts-corrupt-proof-of-pooled-id", "AddV2PoolTransactions(basis %d) answered %s for a copy of a pooled transaction with a %s as of the claimed basis", basis, res, how)
			}
		default:
			w.ExpectTSetOK = false
			if _, accepted := w.TSet(basis, bad[0], "pooled-id-corrupt-"+how); accepted {
				w.C.Oracle("v2transactionset-accepts-corrupt-proof-of-pooled-id", "V2TransactionSet(basis %d) accepted a copy of a pooled transaction with a %s as of the claimed basis", basis, how)
			}
		}
		if w.Panicked {
			break
		}
	}
	return "corrupt-resubmit"
}

// Step performs one generated action.
func (g *Gen) Step() string {
	w, rng := g.W, g.Rng
	tip := w.TipID()
	switch a := rng.Intn(100); {
	case a < 3: // a set that names the same new transaction twice (transactions without inputs: nothing makes the second copy invalid)
		tag := make([]byte, 16)
		rng.Bytes(tag)
		if rng.Bool() && w.V1Allowed() && w.Node.CM.Tip().Height >= w.Net.N.HardforkV2.AllowHeight {
			t := types.Transaction{ArbitraryData: [][]byte{append([]byte("verif-dup-"), tag...)}}
			set := []types.Transaction{t, t}
			if rng.Bool() {
				if f := g.FreshV1(1, false); len(f) == 1 {
					set = []types.Transaction{t, f[0], t}
				}
			}
			g.AddV1(set, nil, "same-transaction-twice", -1, false)
			return "twice-v1"
		}
		if !w.V2Allowed() {
			return "skip"
		}
		t := types.V2Transaction{ArbitraryData: append([]byte("verif-dup-"), tag...)}
		set := []types.V2Transaction{t, t.DeepCopy()}
		if rng.Bool() {
			if f := g.FreshV2(1, false, w.FreeCoins()); len(f) == 1 {
				set = []types.V2Transaction{t, f[0], t.DeepCopy()}
			}
		}
		g.AddV2(tip, set, nil, "same-transaction-twice", -1, false)
		return "twice-v2"
	case a < 12: // fresh v1 set
		if !w.V1Allowed() {
			return "skip"
		}
		set := g.FreshV1(1+rng.Intn(3), rng.Bool())
		if len(set) == 0 {
			return "skip"
		}
		g.AddV1(set, nil, "fresh", -1, true)
		return "fresh-v1"
	case a < 26: // fresh v2 set at the tip
		if !w.V2Allowed() {
			return "skip"
		}
		coins := w.FreeCoins()
		if rng.Chance(1, 3) {
			coins = append(coins, w.EphCoins(true, true)...)
		}
		set := g.FreshV2(1+rng.Intn(3), rng.Bool(), coins)
		if len(set) == 0 {
			return "skip"
		}
		g.AddV2(tip, set, nil, "fresh", -1, false)
		return "fresh-v2"
	case a < 34: // partly or wholly known
		if rng.Bool() && w.V1Allowed() {
			known := g.StandaloneV1()
			if len(known) == 0 {
				return "skip"
			}
			set := []types.Transaction{known[rng.Intn(len(known))]}
			kind := "known"
			if rng.Bool() {
				set = append(set, g.FreshV1(1+rng.Intn(2), false)...)
				kind = "partly-known"
				if rng.Bool() {
					set[0], set[len(set)-1] = set[len(set)-1], set[0]
				}
			} else if len(known) > 1 && rng.Bool() {
				set = append([]types.Transaction(nil), known...)
			}
			g.AddV1(set, nil, kind, -1, true)
			return kind + "-v1"
		}
		if !w.V2Allowed() {
			return "skip"
		}
		known := g.StandaloneV2()
		if len(known) == 0 {
			return "skip"
		}
		set := []types.V2Transaction{known[rng.Intn(len(known))]}
		kind := "known"
		if rng.Bool() {
			set = append(set, g.FreshV2(1+rng.Intn(2), false, w.FreeCoins())...)
			kind = "partly-known"
			if rng.Bool() {
				set[0], set[len(set)-1] = set[len(set)-1], set[0]
			}
		} else if len(known) > 1 && rng.Bool() {
			set = known
		}
		g.AddV2(tip, set, nil, kind, -1, true)
		return kind + "-v2"
	case a < 48: // internally valid, conflicts with the pool at position k
		taken := w.TakenCoins()
		if len(taken) == 0 {
			return "skip"
		}
		n := 1 + rng.Intn(4)
		k := rng.Intn(n)
		cs := w.Node.CM.TipState()
		if rng.Bool() && w.V1Allowed() {
			set := g.FreshV1(n, false)
			if len(set) <= k {
				k = len(set)
				set = append(set, types.Transaction{})
			}
			set[k] = w.SpendV1(cs, []Coin{taken[rng.Intn(len(taken))]}, 1, g.Fee(), 0)
			kind := "pool-conflict"
			if known := g.StandaloneV1(); len(known) > 0 && rng.Bool() {
				// already pooled transactions in front of the conflicting one (they are skipped by the
				// loop, not appended: the rollback must not count them)
				nk := 1 + rng.Intn(min(2, len(known)))
				pre := append([]types.Transaction(nil), known[len(known)-nk:]...)
				at := rng.Intn(k + 1)
				set = append(append(append([]types.Transaction(nil), set[:at]...), pre...), set[at:]...)
				k += nk
				kind = "known-before-pool-conflict"
			}
			g.AddV1(set, nil, kind, k, false)
			return "conflict-v1"
		}
		if !w.V2Allowed() {
			return "skip"
		}
		set := g.FreshV2(n, false, w.FreeCoins())
		if len(set) <= k {
			k = len(set)
			set = append(set, types.V2Transaction{})
		}
		set[k] = w.SpendV2(cs, []Coin{taken[rng.Intn(len(taken))]}, 1, g.Fee(), 0)
		kind := "pool-conflict"
		if known := g.StandaloneV2(); len(known) > 0 && rng.Bool() {
			nk := 1 + rng.Intn(min(2, len(known)))
			pre := known[len(known)-nk:]
			at := rng.Intn(k + 1)
			set = append(append(append([]types.V2Transaction(nil), set[:at]...), pre...), set[at:]...)
			k += nk
			kind = "known-before-pool-conflict"
		}
		g.AddV2(tip, set, nil, kind, k, false)
		return "conflict-v2"
	case a < 58: // invalid at position k
		n := 1 + rng.Intn(4)
		mode := rng.Intn(3)
		if rng.Chance(1, 4) && w.V1Allowed() {
			// an already pooled transaction named twice (the repetition double-spends), then a new one: the
			// set fails at a transaction whose id is pooled, after pooled ids only
			if known := g.StandaloneV1(); len(known) > 0 {
				a := known[rng.Intn(len(known))]
				set := append([]types.Transaction{a, a}, g.FreshV1(1+rng.Intn(2), false)...)
				g.AddV1(set, nil, "pooled-twice-then-new", 1, false)
				return "invalid-known-twice-v1"
			}
		}
		if rng.Chance(1, 3) {
			// a same-id copy of an already pooled transaction with a broken signature, next to new ones
			if rng.Bool() && w.V1Allowed() {
				if known := g.StandaloneV1(); len(known) > 0 {
					set := g.FreshV1(1+rng.Intn(2), false)
					k := rng.Intn(len(set) + 1)
					bad := BreakV1(known[rng.Intn(len(known))])
					set = append(append(append([]types.Transaction(nil), set[:k]...), bad), set[k:]...)
					oks := make([]bool, len(set))
					for i := range oks {
						oks[i] = i != k
					}
					g.AddV1(set, oks, "invalid-copy-of-pooled", k, false)
					return "invalid-known-v1"
				}
			}
			if w.V2Allowed() {
				if known := g.StandaloneV2(); len(known) > 0 {
					set := g.FreshV2(1+rng.Intn(2), false, w.FreeCoins())
					k := rng.Intn(len(set) + 1)
					bad := BreakV2(known[rng.Intn(len(known))])
					set = append(append(append([]types.V2Transaction(nil), set[:k]...), bad), set[k:]...)
					oks := make([]bool, len(set))
					for i := range oks {
						oks[i] = i != k
					}
					g.AddV2(tip, set, oks, "invalid-copy-of-pooled", k, false)
					return "invalid-known-v2"
				}
			}
		}
		if rng.Bool() && w.V1Allowed() {
			set := g.FreshV1(n, false)
			if len(set) == 0 {
				return "skip"
			}
			k := rng.Intn(len(set))
			oks := make([]bool, len(set))
			for i := range oks {
				oks[i] = true
			}
			switch {
			case mode == 0:
				set[k] = BreakV1(set[k])
				oks[k] = false
			case mode == 1 && k > 0: // double spend inside the set
				cs := w.Node.CM.TipState()
				c := Coin{ID: set[0].SiacoinInputs[0].ParentID, Value: w.Led.SC[set[0].SiacoinInputs[0].ParentID].SiacoinOutput.Value}
				set[k] = w.SpendV1(cs, []Coin{c}, 2, g.Fee(), 0)
			default: // spends an output that does not exist
				cs := w.Node.CM.TipState()
				var ghost types.SiacoinOutputID
				rng.Bytes(ghost[:])
				set[k] = w.SpendV1(cs, []Coin{{ID: ghost, Value: types.Siacoins(5)}}, 1, g.Fee(), 0)
			}
			g.AddV1(set, oks, "invalid", k, false)
			return "invalid-v1"
		}
		if !w.V2Allowed() {
			return "skip"
		}
		set := g.FreshV2(n, false, w.FreeCoins())
		if len(set) == 0 {
			return "skip"
		}
		k := rng.Intn(len(set))
		oks := make([]bool, len(set))
		for i := range oks {
			oks[i] = true
		}
		switch {
		case mode == 0:
			set[k] = BreakV2(set[k])
			oks[k] = false
		case mode == 1 && k > 0:
			cs := w.Node.CM.TipState()
			in := set[0].SiacoinInputs[0].Parent
			set[k] = w.SpendV2(cs, []Coin{{ID: in.ID, Value: in.SiacoinOutput.Value, Elem: in.Copy()}}, 2, g.Fee(), 0)
		default: // ephemeral input nobody creates
			cs := w.Node.CM.TipState()
			ghost := w.SpendV2(cs, []Coin{{ID: types.SiacoinOutputID{1, 2, byte(g.N)}, Value: types.Siacoins(9), Elem: types.SiacoinElement{ID: types.SiacoinOutputID{1, 2, byte(g.N)}, StateElement: types.StateElement{LeafIndex: types.UnassignedLeafIndex}, SiacoinOutput: types.SiacoinOutput{Address: w.Net.Addr, Value: types.Siacoins(9)}}}}, 1, g.Fee(), 0)
			set[k] = ghost
		}
		g.AddV2(tip, set, oks, "invalid", k, false)
		return "invalid-v2"
	case a < 66: // stale or unknown basis (v2)
		if !w.V2Allowed() {
			return "skip"
		}
		if rng.Chance(1, 4) {
			return g.CorruptResubmit()
		}
		if rng.Chance(1, 4) {
			set := g.FreshV2(1, false, w.FreeCoins())
			if len(set) == 0 {
				return "skip"
			}
			g.AddV2(-1-rng.Intn(3), set, nil, "unknown-basis", -1, false)
			return "unknown-basis-v2"
		}
		// a basis among the known blocks near the tip (ancestors and other forks)
		var cands []int
		for id := range w.Tree.Blocks {
			if w.Known[id] && id != tip && id != 0 {
				rev, app := w.Path(id, tip)
				if len(rev)+len(app) <= 6 {
					cands = append(cands, id)
				}
			}
		}
		if len(cands) == 0 {
			return "skip"
		}
		basis := cands[rng.Intn(len(cands))]
		tw := w.Tree.Twin(basis)
		led := chainx.LedgerOf(tw)
		bcs := tw.CM.TipState()
		coins := w.CoinsOf(led, bcs.Index.Height+1)
		if len(coins) == 0 {
			return "skip"
		}
		var set []types.V2Transaction
		for i := 0; i < 1+rng.Intn(2) && len(coins) > 0; i++ {
			j := rng.Intn(len(coins))
			c := coins[j]
			coins = append(coins[:j], coins[j+1:]...)
			if c.Value.Cmp(types.Siacoins(2)) < 0 {
				continue
			}
			// signed for the tip's era: the signature must verify where the set is validated
			set = append(set, w.SpendV2(w.Node.CM.TipState(), []Coin{c}, 1, g.Fee(), 0))
			if rng.Chance(1, 3) {
				set = append(set, w.SpendV2(w.Node.CM.TipState(), []Coin{CoinV2(set[len(set)-1], 0)}, 1, g.Fee(), 0))
			}
		}
		if len(set) == 0 {
			return "skip"
		}
		g.AddV2(basis, set, nil, "stale-basis", -1, false)
		return "stale-basis-v2"
	case a < 72: // lookups
		g.Lookups(rng.Chance(1, 3))
		return "lookups"
	case a < 76:
		return g.Parents()
	case a < 82:
		g.Aliasing()
		return "aliasing"
	case a < 92: // a block on the tip confirming part of the pool
		if rng.Bool() {
			return g.FirstCall()
		}
		g.Remember()
		if w.Node.Probe != nil && rng.Chance(1, 3) {
			// the database fails the flush at the end of the reorg to this block
			w.ArmFlush = true
			if _, err := w.GrowFromPool(rng.Intn(len(w.LastV1)+1), rng.Intn(len(w.LastV2)+1)); err != nil {
				w.C.Oracle("pool-prefix-not-minable", "a block carrying a prefix of the reported pool is invalid on a linear twin: %v", err)
			}
			w.ArmFlush = false
			w.Refresh()
			return "block-from-pool-failed-flush"
		}
		if _, err := w.GrowFromPool(rng.Intn(len(w.LastV1)+1), rng.Intn(len(w.LastV2)+1)); err != nil {
			w.C.Oracle("pool-prefix-not-minable", "a block carrying a prefix of the reported pool is invalid on a linear twin: %v", err)
		}
		w.Refresh()
		return "block-from-pool"
	default: // a block anywhere (forks, reorgs) with chainx's own transactions
		if rng.Chance(1, 3) {
			return g.FirstCall()
		}
		g.Remember()
		var cands []int
		for id := range w.Tree.Blocks {
			if h := w.Tree.Blocks[id].Height; h+4 >= w.Tree.Blocks[tip].Height {
				cands = append(cands, id)
			}
		}
		parent := cands[rng.Intn(len(cands))]
		g.W.GrowRandom(parent, rng.Intn(3))
		w.Refresh()
		return "block-random"
	}
}
