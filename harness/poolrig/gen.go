package poolrig

import (
	"fmt"

	"go.sia.tech/core/types"
	"verifharness/chainx"
)

// Refresh observes the pool (op "pool", validity oracle) and remembers it.
func (w *World) Refresh() {
	w.LastV1, w.LastV2 = w.Observe()
}

// PoolIDs is the set of transaction ids in the last observed pool.
func (w *World) PoolIDs() map[types.TransactionID]bool {
	m := map[types.TransactionID]bool{}
	for _, t := range w.LastV1 {
		m[t.ID()] = true
	}
	for _, t := range w.LastV2 {
		m[t.ID()] = true
	}
	return m
}

// spentByPool maps every element the last observed pool spends to true.
func (w *World) spentByPool() map[types.SiacoinOutputID]bool {
	m := map[types.SiacoinOutputID]bool{}
	for _, t := range w.LastV1 {
		for _, in := range t.SiacoinInputs {
			m[in.ParentID] = true
		}
	}
	for _, t := range w.LastV2 {
		for _, in := range t.SiacoinInputs {
			m[in.Parent.ID] = true
		}
	}
	return m
}

// FreeCoins: confirmed coins of the actor at the tip that no pooled transaction spends.
func (w *World) FreeCoins() []Coin {
	spent := w.spentByPool()
	var out []Coin
	for _, c := range w.CoinsOf(w.Led, w.Node.CM.Tip().Height+1) {
		if !spent[c.ID] && c.Value.Cmp(types.Siacoins(2)) >= 0 {
			out = append(out, c)
		}
	}
	return out
}

// TakenCoins: confirmed coins at the tip that some pooled transaction spends (for conflicts).
func (w *World) TakenCoins() []Coin {
	spent := w.spentByPool()
	var out []Coin
	for _, c := range w.CoinsOf(w.Led, w.Node.CM.Tip().Height+1) {
		if spent[c.ID] {
			out = append(out, c)
		}
	}
	return out
}

// EphCoins: outputs of pooled transactions that no pooled transaction spends.  v2only restricts to
// outputs of v2 transactions.
func (w *World) EphCoins(v1, v2 bool) []Coin {
	spent := w.spentByPool()
	var out []Coin
	if v1 {
		for _, t := range w.LastV1 {
			for i := range t.SiacoinOutputs {
				if c := CoinV1(t, i); !spent[c.ID] && c.Value.Cmp(types.Siacoins(2)) >= 0 && t.SiacoinOutputs[i].Address == w.Net.Addr {
					out = append(out, c)
				}
			}
		}
	}
	if v2 {
		for _, t := range w.LastV2 {
			for i := range t.SiacoinOutputs {
				if c := CoinV2(t, i); !spent[c.ID] && c.Value.Cmp(types.Siacoins(2)) >= 0 && t.SiacoinOutputs[i].Address == w.Net.Addr {
					out = append(out, c)
				}
			}
		}
	}
	return out
}

// V1Allowed / V2Allowed for a child of the tip.
func (w *World) V1Allowed() bool {
	return w.Node.CM.Tip().Height+1 < w.Net.N.HardforkV2.RequireHeight
}
func (w *World) V2Allowed() bool {
	return w.Node.CM.Tip().Height+1 >= w.Net.N.HardforkV2.AllowHeight
}

// GrowRandom mines a block with chainx's transaction menu on parent and submits it.
func (w *World) GrowRandom(parent int, nKinds int) int {
	var kinds []string
	for i := 0; i < nKinds; i++ {
		kinds = append(kinds, chainx.BasicKinds[w.Rng.Intn(len(chainx.BasicKinds))])
	}
	id := w.Tree.Mine(w.Rng, parent, chainx.Spec{Kinds: kinds, Dt: 1 + w.Rng.Intn(3)})
	w.Submit(id)
	return id
}

// GrowFromPool mines a child of the tip that confirms a prefix of the pool (n1 v1 and n2 v2
// transactions, with their current proofs) and submits it.
func (w *World) GrowFromPool(n1, n2 int) (int, error) {
	if n1 > len(w.LastV1) {
		n1 = len(w.LastV1)
	}
	if n2 > len(w.LastV2) {
		n2 = len(w.LastV2)
	}
	if n1 < len(w.LastV1) {
		// a v2 transaction may depend on a later v1 transaction; keep it simple: v2 only with all of v1
		n2 = 0
	}
	if !w.V2Allowed() {
		n2 = 0
	}
	v2 := make([]types.V2Transaction, n2)
	for i := range v2 {
		v2[i] = w.LastV2[i].DeepCopy()
	}
	id, err := w.Tree.MineWith(w.Rng, w.TipID(), append([]types.Transaction(nil), w.LastV1[:n1]...), v2, 1+w.Rng.Intn(3))
	if err != nil {
		return -1, err
	}
	w.Submit(id)
	return id, nil
}

// UnknownTxID is an id no transaction has.
func (w *World) UnknownTxID() types.TransactionID {
	var id types.TransactionID
	w.Rng.Bytes(id[:])
	return id
}

func (w *World) String() string { return fmt.Sprintf("world(%s)", w.C.Name) }

// ConfirmedOnBest is the set of transactions confirmed on the node's current best chain.
func (w *World) ConfirmedOnBest() map[types.TransactionID]bool {
	tip := w.TipID()
	if w.confTip == tip && w.confSet != nil {
		return w.confSet
	}
	m := map[types.TransactionID]bool{}
	for _, b := range w.Tree.Ancestry(tip) {
		bi := w.ensureInfo(b)
		for _, t := range bi.V1 {
			m[t.ID()] = true
		}
		for _, t := range bi.V2 {
			m[t.ID()] = true
		}
	}
	w.confTip, w.confSet = tip, m
	return m
}
