// Package poolrig is the shared rig of the transaction-pool checks (C05, C13, C14): a real
// chain.Manager on a chainx fork tree, the encoding of transactions / blocks / pool contents into
// the id-level line protocol of the Lean pool model (lean/Verif/Model/Pool.lean), and the
// implementation-side oracles (re-validation from scratch with core's consensus package, shadow
// ledger comparison, aliasing probes).
package poolrig

import (
	"bytes"
	"crypto/sha256"
	"fmt"
	"os"
	"sort"
	"strings"
	"time"

	"go.sia.tech/core/consensus"
	"go.sia.tech/core/types"
	"go.sia.tech/coreutils"
	"go.sia.tech/coreutils/chain"
	"verifharness/chainx"
	"verifharness/vh"
)

// MaxReorgLen is the distance UpdateV2TransactionSet / AddV2PoolTransactions support (manager.go,
// reorgPath(from, to, 144)).
const MaxReorgLen = 144

// BlkInfo is what the model needs to know about a block: its transactions and element diffs.
type BlkInfo struct {
	LeavesBefore, LeavesAfter uint64
	Spent, Created            [][2]uint64 // (element small id, leaf index)
	V1                        []types.Transaction
	V2                        []types.V2Transaction
}

// World is one case: a tree, the node under test, the shadow ledger and the id tables.
type World struct {
	R    *vh.Run
	Rng  *vh.RNG
	Net  *chainx.Net
	Tree *chainx.Tree
	Node *chainx.Node
	Led  *chainx.Ledger // follows the node's tip
	C    *vh.Case

	txIDs   map[types.TransactionID]int
	elemIDs map[types.Hash256]int
	info    map[int]*BlkInfo
	decl    map[int]bool // declared to the model
	Known   map[int]bool // submitted to the node
	// Applied: the block has been on the node's best chain at some time.  Only such blocks have a
	// full state and a supplement in the store; a block that was merely stored (a lighter sibling)
	// has a header-only state and cannot serve as a basis (the manager answers with an error).
	Applied map[int]bool
	// what the manager holds as lastRevertedV2 (fee-paying v2 transactions of the most recently
	// reverted tip), needed to tell the model whether their stale proofs verify at the new tip
	lastRevV2 []types.V2Transaction
	Filler    uint64
	Panicked  bool
	// ByTx remembers every transaction the harness has seen, by small id
	V1ByID map[int]types.Transaction
	V2ByID map[int]types.V2Transaction
	Stats  map[string]int
	// the pool as last observed
	LastV1   []types.Transaction
	LastV2   []types.V2Transaction
	ledCache map[int]*chainx.Ledger
	// OnPath is told every revert/apply path the node took
	OnPath  func(rev, app []int)
	confTip int
	confSet map[types.TransactionID]bool
	// ExpectTSetOK: the next V2TransactionSet input is a legitimate one (valid as of a basis that was a tip, within the supported distance)
	ExpectTSetOK bool
	// ArmFlush: the next Submit on a probed node lets the database fail the final flush once
	ArmFlush bool
	// LenientLedger: CheckLedgerProofs skips inputs the ledger does not hold
	LenientLedger bool
	// TxEra is the signature era (consensus replay prefix regime) a v1 transaction was signed in.  The
	// key covers the signatures: a transaction id does not, so two generators can produce the same
	// v1 transaction id with signatures of different eras.
	TxEra map[[32]byte]int
}

// Era mirrors consensus.State.replayPrefix for the test networks (ASIC and Foundation hardforks at
// height 1): 0 at genesis, 1 below the v2 allow height, 2 from the allow height on.  A signature
// only verifies in the era it was made in.
func (w *World) Era(height uint64) int {
	switch {
	case height >= w.Net.N.HardforkV2.AllowHeight:
		return 2
	case height >= 1:
		return 1
	}
	return 0
}

func (w *World) eraOf(txn types.Transaction) int {
	k := DigestV1([]types.Transaction{txn})
	if e, ok := w.TxEra[k]; ok {
		return e
	}
	e := w.Era(w.Node.CM.Tip().Height)
	w.TxEra[k] = e
	return e
}

// BlockWeight is the weight consensus.ValidateOrphan computes for a block.
func BlockWeight(cs consensus.State, b types.Block) (weight uint64) {
	for _, txn := range b.Transactions {
		weight += cs.TransactionWeight(txn)
	}
	for _, txn := range b.V2Transactions() {
		weight += cs.V2TransactionWeight(txn)
	}
	return
}

// FillerWeight is the weight of MineBlock's 12-byte uniqueness transaction.
func FillerWeight(cs consensus.State) uint64 {
	return cs.V2TransactionWeight(types.V2Transaction{ArbitraryData: make([]byte, 12)})
}

func NewWorld(r *vh.Run, rng *vh.RNG, name string, net *chainx.Net) *World {
	node := net.MustNode()
	if rng.Chance(1, 3) {
		// the manager runs over a store with an atomicity probe (chainx.ProbeStore)
		node = net.NewProbedNode()
		node.Probe.Every = 2
	}
	w := &World{R: r, Rng: rng, Net: net, Tree: chainx.NewTree(net), Node: node,
		txIDs: map[types.TransactionID]int{}, elemIDs: map[types.Hash256]int{}, info: map[int]*BlkInfo{},
		decl: map[int]bool{}, Known: map[int]bool{0: true}, Applied: map[int]bool{0: true}, V1ByID: map[int]types.Transaction{}, V2ByID: map[int]types.V2Transaction{},
		Stats: map[string]int{}, TxEra: map[[32]byte]int{}}
	w.Led = chainx.LedgerOf(w.Node)
	cs := w.Node.CM.TipState()
	w.Filler = FillerWeight(cs)
	w.C = &vh.Case{Name: name, Model: fmt.Sprintf("pool main %d %d %d %d", net.N.HardforkV2.AllowHeight, net.N.HardforkV2.RequireHeight, cs.MaxBlockWeight(), w.Filler)}
	// the genesis ledger
	var sb strings.Builder
	fmt.Fprintf(&sb, "genesis %d", cs.Elements.NumLeaves)
	var pairs [][2]uint64
	byLeaf := map[uint64]types.Hash256{}
	var leaves []uint64
	for id, e := range w.Led.SC {
		byLeaf[e.StateElement.LeafIndex] = types.Hash256(id)
		leaves = append(leaves, e.StateElement.LeafIndex)
	}
	for id, e := range w.Led.SF {
		byLeaf[e.StateElement.LeafIndex] = types.Hash256(id)
		leaves = append(leaves, e.StateElement.LeafIndex)
	}
	sortU64(leaves)
	for _, l := range leaves {
		pairs = append(pairs, [2]uint64{uint64(w.Elem(byLeaf[l])), l})
	}
	writePairs(&sb, pairs)
	w.C.Op(sb.String(), "ok")
	return w
}

func sortU64(a []uint64) {
	for i := 1; i < len(a); i++ {
		for j := i; j > 0 && a[j] < a[j-1]; j-- {
			a[j], a[j-1] = a[j-1], a[j]
		}
	}
}

func sortPairs(a [][2]uint64) {
	for i := 1; i < len(a); i++ {
		for j := i; j > 0 && (a[j][1] < a[j-1][1] || a[j][1] == a[j-1][1] && a[j][0] < a[j-1][0]); j-- {
			a[j], a[j-1] = a[j-1], a[j]
		}
	}
}

func writePairs(sb *strings.Builder, pairs [][2]uint64) {
	fmt.Fprintf(sb, " %d", len(pairs))
	for _, p := range pairs {
		fmt.Fprintf(sb, " %d %d", p[0], p[1])
	}
}

// Elem returns the small id of an element.
func (w *World) Elem(h types.Hash256) int {
	if i, ok := w.elemIDs[h]; ok {
		return i
	}
	i := len(w.elemIDs) + 1
	w.elemIDs[h] = i
	return i
}

// Tx returns the small id of a transaction id.
func (w *World) Tx(id types.TransactionID) int {
	if i, ok := w.txIDs[id]; ok {
		return i
	}
	i := len(w.txIDs) + 1
	w.txIDs[id] = i
	return i
}

// TipID is the tree id of the node's tip.
func (w *World) TipID() int {
	i, ok := w.Tree.Lookup(w.Node.CM.Tip().ID)
	if !ok {
		panic("node tip is not a tree block")
	}
	return i
}

func leafStr(l uint64) string {
	if l == types.UnassignedLeafIndex {
		return "-"
	}
	return fmt.Sprint(l)
}

func b01(b bool) int {
	if b {
		return 1
	}
	return 0
}

// DescV1 renders a v1 transaction for the model: id ok fee weight nin (elem leaf bad)* nout out*.
func (w *World) DescV1(txn types.Transaction, ok bool) string {
	cs := w.Node.CM.TipState()
	id := w.Tx(txn.ID())
	w.V1ByID[id] = txn
	var sb strings.Builder
	fmt.Fprintf(&sb, "%d %d %d %s %d %d", id, b01(ok), w.eraOf(txn), txn.TotalFees().ExactString(), cs.TransactionWeight(txn), len(txn.SiacoinInputs)+len(txn.SiafundInputs))
	for _, in := range txn.SiacoinInputs {
		fmt.Fprintf(&sb, " %d - 0", w.Elem(types.Hash256(in.ParentID)))
	}
	for _, in := range txn.SiafundInputs {
		fmt.Fprintf(&sb, " %d - 0", w.Elem(types.Hash256(in.ParentID)))
	}
	fmt.Fprintf(&sb, " %d", len(txn.SiacoinOutputs)+len(txn.SiafundOutputs))
	for i := range txn.SiacoinOutputs {
		fmt.Fprintf(&sb, " %d", w.Elem(types.Hash256(txn.SiacoinOutputID(i))))
	}
	for i := range txn.SiafundOutputs {
		fmt.Fprintf(&sb, " %d", w.Elem(types.Hash256(txn.SiafundOutputID(i))))
	}
	return sb.String()
}

// inputBad asks core whether a single input's Merkle proof verifies against acc.
func scBad(acc *consensus.ElementAccumulator, in types.V2SiacoinInput) bool {
	if acc == nil || in.Parent.StateElement.LeafIndex == types.UnassignedLeafIndex {
		return false
	}
	return acc.ValidateTransactionElements(types.V2Transaction{SiacoinInputs: []types.V2SiacoinInput{{Parent: in.Parent.Copy()}}}) != nil
}

func sfBad(acc *consensus.ElementAccumulator, in types.V2SiafundInput) bool {
	if acc == nil || in.Parent.StateElement.LeafIndex == types.UnassignedLeafIndex {
		return false
	}
	return acc.ValidateTransactionElements(types.V2Transaction{SiafundInputs: []types.V2SiafundInput{{Parent: in.Parent.Copy()}}}) != nil
}

// DescV2 renders a v2 transaction.  If acc is non-nil the per-input `bad` flag is core's verdict on
// the input's Merkle proof against that accumulator (the verifier is a parameter of the model);
// allBad forces the flag (used for stale re-offered transactions, judged as a whole).
func (w *World) DescV2(txn types.V2Transaction, ok bool, acc *consensus.ElementAccumulator) string {
	cs := w.Node.CM.TipState()
	txid := txn.ID()
	id := w.Tx(txid)
	w.V2ByID[id] = txn
	var sb strings.Builder
	fmt.Fprintf(&sb, "%d %d %d %s %d %d", id, b01(ok), 2, txn.MinerFee.ExactString(), cs.V2TransactionWeight(txn), len(txn.SiacoinInputs)+len(txn.SiafundInputs))
	for _, in := range txn.SiacoinInputs {
		fmt.Fprintf(&sb, " %d %s %d", w.Elem(types.Hash256(in.Parent.ID)), leafStr(in.Parent.StateElement.LeafIndex), b01(scBad(acc, in)))
	}
	for _, in := range txn.SiafundInputs {
		fmt.Fprintf(&sb, " %d %s %d", w.Elem(types.Hash256(in.Parent.ID)), leafStr(in.Parent.StateElement.LeafIndex), b01(sfBad(acc, in)))
	}
	fmt.Fprintf(&sb, " %d", len(txn.SiacoinOutputs)+len(txn.SiafundOutputs))
	for i := range txn.SiacoinOutputs {
		fmt.Fprintf(&sb, " %d", w.Elem(types.Hash256(txn.SiacoinOutputID(txid, i))))
	}
	for i := range txn.SiafundOutputs {
		fmt.Fprintf(&sb, " %d", w.Elem(types.Hash256(txn.SiafundOutputID(txid, i))))
	}
	return sb.String()
}

func (w *World) ListV1(txns []types.Transaction, oks []bool) string {
	var sb strings.Builder
	fmt.Fprintf(&sb, "%d", len(txns))
	for i, t := range txns {
		ok := oks == nil || oks[i]
		sb.WriteString(" " + w.DescV1(t, ok))
	}
	return sb.String()
}

func (w *World) ListV2(txns []types.V2Transaction, oks []bool, acc *consensus.ElementAccumulator) string {
	var sb strings.Builder
	fmt.Fprintf(&sb, "%d", len(txns))
	for i, t := range txns {
		ok := oks == nil || oks[i]
		sb.WriteString(" " + w.DescV2(t, ok, acc))
	}
	return sb.String()
}

// V2Short renders a v2 transaction as id:leaf,leaf (what the pool / a rebase returns).
func (w *World) V2Short(txn types.V2Transaction) string {
	var parts []string
	for _, in := range txn.SiacoinInputs {
		parts = append(parts, leafShort(in.Parent.StateElement.LeafIndex))
	}
	for _, in := range txn.SiafundInputs {
		parts = append(parts, leafShort(in.Parent.StateElement.LeafIndex))
	}
	return fmt.Sprintf("%d:%s", w.Tx(txn.ID()), strings.Join(parts, ","))
}

func leafShort(l uint64) string {
	if l == types.UnassignedLeafIndex {
		return "e"
	}
	return fmt.Sprint(l)
}

func (w *World) V2ShortList(txns []types.V2Transaction) string {
	var sb strings.Builder
	for _, t := range txns {
		sb.WriteString(" " + w.V2Short(t))
	}
	return sb.String()
}

// ensureInfo computes the element diffs of block id (and of its ancestors) on a linear twin.
func (w *World) ensureInfo(id int) *BlkInfo {
	if bi, ok := w.info[id]; ok {
		return bi
	}
	tw := w.Tree.Twin(id)
	_, aus, err := tw.CM.UpdatesSince(types.ChainIndex{}, 1<<30)
	if err != nil {
		panic(err)
	}
	prevLeaves := uint64(0)
	for _, au := range aus {
		bid, ok := w.Tree.Lookup(au.Block.ID())
		if !ok {
			panic("twin block not in tree")
		}
		if _, ok := w.info[bid]; !ok {
			bi := &BlkInfo{LeavesBefore: prevLeaves, LeavesAfter: au.State.Elements.NumLeaves, V1: au.Block.Transactions, V2: au.Block.V2Transactions()}
			for _, d := range au.SiacoinElementDiffs() {
				p := [2]uint64{uint64(w.Elem(types.Hash256(d.SiacoinElement.ID))), d.SiacoinElement.StateElement.LeafIndex}
				if d.Created {
					bi.Created = append(bi.Created, p)
				}
				if d.Spent {
					bi.Spent = append(bi.Spent, p)
				}
			}
			for _, d := range au.SiafundElementDiffs() {
				p := [2]uint64{uint64(w.Elem(types.Hash256(d.SiafundElement.ID))), d.SiafundElement.StateElement.LeafIndex}
				if d.Created {
					bi.Created = append(bi.Created, p)
				}
				if d.Spent {
					bi.Spent = append(bi.Spent, p)
				}
			}
			w.info[bid] = bi
		}
		prevLeaves = au.State.Elements.NumLeaves
	}
	return w.info[id]
}

// Declare sends the block's declaration to the model (once).
func (w *World) Declare(id int) {
	if id == 0 || w.decl[id] {
		return
	}
	w.decl[id] = true
	bi := w.ensureInfo(id)
	b := w.Tree.Blocks[id]
	// transactions of a block were signed for the parent's state
	for _, t := range bi.V1 {
		k := DigestV1([]types.Transaction{t})
		if _, ok := w.TxEra[k]; !ok {
			w.TxEra[k] = w.Era(b.Height - 1)
		}
	}
	var sb strings.Builder
	fmt.Fprintf(&sb, "blk %d %d %d %d ", id, b.Height, bi.LeavesBefore, bi.LeavesAfter)
	sb.WriteString(w.ListV1(bi.V1, nil))
	sb.WriteString(" " + w.ListV2(bi.V2, nil, nil))
	writePairs(&sb, bi.Spent)
	writePairs(&sb, bi.Created)
	w.C.Op(sb.String(), "ok")
}

// Path returns the revert list (from first) and the apply list (ancestor side first) between two
// tree blocks, as the tree (the harness's ground truth) has them.
func (w *World) Path(from, to int) (rev, app []int) {
	t := w.Tree
	a, b := from, to
	for t.Blocks[a].Height > t.Blocks[b].Height {
		rev = append(rev, a)
		a = t.Blocks[a].Parent
	}
	for t.Blocks[b].Height > t.Blocks[a].Height {
		app = append(app, b)
		b = t.Blocks[b].Parent
	}
	for a != b {
		rev = append(rev, a)
		app = append(app, b)
		a, b = t.Blocks[a].Parent, t.Blocks[b].Parent
	}
	for l, r := 0, len(app)-1; l < r; l, r = l+1, r-1 {
		app[l], app[r] = app[r], app[l]
	}
	return
}

func pathStr(rev, app []int) string {
	var sb strings.Builder
	fmt.Fprintf(&sb, "%d", len(rev))
	for _, i := range rev {
		fmt.Fprintf(&sb, " %d", i)
	}
	fmt.Fprintf(&sb, " %d", len(app))
	for _, i := range app {
		fmt.Fprintf(&sb, " %d", i)
	}
	return sb.String()
}

// declarePath declares every block on a path.
func (w *World) declarePath(rev, app []int) {
	for _, i := range rev {
		w.Declare(i)
	}
	for _, i := range app {
		w.Declare(i)
	}
}

// Guard runs f and converts a panic of the real code into an oracle failure of the given class.
func (w *World) Guard(class, what string, f func()) (panicked bool) {
	defer func() {
		if r := recover(); r != nil {
			panicked = true
			w.Panicked = true
			w.C.Oracle(class, "%s panics: %v", what, r)
		}
	}()
	// on a probed node every entry point that changes the manager (all pool entry points re-validate
	// the pool first, the by-id lookups and the parent queries included) is announced as a writer:
	// while it is inside a store call, nothing else may get an answer from the manager
	if p := w.Node.Probe; p != nil && !strings.HasPrefix(what, "UpdateV2TransactionSet") {
		p.Writer(what, f)
		for _, found := range p.Found() {
			w.C.Oracle("manager-readable-in-the-middle-of-a-change", "%s", found)
		}
		w.Stats["probes"] = int(p.Probes())
	} else {
		f()
	}
	return false
}

// Submit hands one tree block to the node (its parent must be known) and, if the tip moved, tells
// the model which blocks were reverted and applied under the pool.
func (w *World) Submit(id int) {
	if w.Panicked {
		return
	}
	if w.Known[id] {
		return
	}
	if !w.Known[w.Tree.Blocks[id].Parent] {
		w.Submit(w.Tree.Blocks[id].Parent)
	}
	old := w.TipID()
	var err error
	armed := w.ArmFlush && w.Node.Probe != nil
	w.ArmFlush = false
	if armed {
		w.Node.Probe.FailNextFlush()
	}
	panicked := w.Guard("addblocks-panic", fmt.Sprintf("AddBlocks(block %d)", id), func() { err = w.Node.CM.AddBlocks([]types.Block{w.Tree.Blocks[id].Block}) })
	flushFailed := false
	if armed {
		flushFailed = w.Node.Probe.DisarmFlush()
	}
	if panicked {
		return
	}
	if flushFailed {
		// the database failed the flush at the end of the reorg to this block: the manager reports an
		// error and rolls back to the old tip.  Underneath the pool the blocks of the path were applied
		// and reverted again (two reorgs for the model); whatever the tip is now, the reported pool
		// must be a valid continuation of it.
		w.Stats["failed-flush"]++
		if err == nil {
			w.C.Oracle("addblocks-ok-although-flush-failed", "AddBlocks(block %d) returned no error although the final flush failed", id)
		}
		cur := w.TipID()
		rev, app := w.Path(old, id)
		w.declarePath(rev, app)
		for _, i := range app {
			w.Applied[i] = true
		}
		emit := func(rev, app []int) {
			if w.OnPath != nil {
				w.OnPath(rev, app)
			}
			if len(rev) > 0 {
				w.lastRevV2 = nil
				for _, txn := range w.Tree.Blocks[rev[0]].Block.V2Transactions() {
					if !txn.MinerFee.IsZero() {
						w.lastRevV2 = append(w.lastRevV2, txn)
					}
				}
			}
			cs := w.Node.CM.TipState()
			var sb strings.Builder
			fmt.Fprintf(&sb, "reorg %s %d", pathStr(rev, app), len(w.lastRevV2))
			for _, txn := range w.lastRevV2 {
				fmt.Fprintf(&sb, " %d", b01(cs.Elements.ValidateTransactionElements(txn) != nil))
			}
			w.C.Op(sb.String(), "ok")
		}
		if cur == old {
			back, forth := w.Path(id, old)
			emit(rev, app)
			emit(back, forth)
			return
		}
		// (that a failed submission moved the tip is C01's finding; here the question is what the pool
		// reports on the tip the manager is at now)
		w.Stats["failed-flush-tip-moved"]++
		w.Known[id] = true
		if err := w.Led.Follow(w.Node.CM, 1000); err != nil {
			w.C.Oracle("updates-since-failed", "shadow ledger cannot follow: %v", err)
		}
		emit(rev, app)
		return
	}
	if err != nil {
		w.C.Oracle("valid-block-rejected", "AddBlocks(block %d) of a fully valid block: %v", id, err)
		return
	}
	w.Known[id] = true
	cur := w.TipID()
	if cur == old {
		return
	}
	rev, app := w.Path(old, cur)
	for _, i := range app {
		w.Applied[i] = true
	}
	if w.OnPath != nil {
		w.OnPath(rev, app)
	}
	w.declarePath(rev, app)
	if err := w.Led.Follow(w.Node.CM, 1000); err != nil {
		w.C.Oracle("updates-since-failed", "shadow ledger cannot follow: %v", err)
	}
	if len(rev) > 0 {
		w.Stats["reorgs"]++
		w.lastRevV2 = nil
		for _, txn := range w.Tree.Blocks[rev[0]].Block.V2Transactions() {
			if !txn.MinerFee.IsZero() {
				w.lastRevV2 = append(w.lastRevV2, txn)
			}
		}
	}
	// core's verdict on the stale proofs of the re-offered v2 transactions at the new tip
	cs := w.Node.CM.TipState()
	var sb strings.Builder
	fmt.Fprintf(&sb, "reorg %s %d", pathStr(rev, app), len(w.lastRevV2))
	for _, txn := range w.lastRevV2 {
		fmt.Fprintf(&sb, " %d", b01(cs.Elements.ValidateTransactionElements(txn) != nil))
	}
	w.C.Op(sb.String(), "ok")
}

// Digest is a deep hash of a value's consensus encoding (covers Merkle proofs).
func DigestV2(txns []types.V2Transaction) [32]byte {
	var buf bytes.Buffer
	e := types.NewEncoder(&buf)
	for _, t := range txns {
		t.EncodeTo(e)
	}
	e.Flush()
	return sha256.Sum256(buf.Bytes())
}

func DigestV1(txns []types.Transaction) [32]byte {
	var buf bytes.Buffer
	e := types.NewEncoder(&buf)
	for _, t := range txns {
		t.EncodeTo(e)
	}
	e.Flush()
	return sha256.Sum256(buf.Bytes())
}

// Scribble overwrites everything reachable from a v2 transaction that a pool could share with it.
func Scribble(t *types.V2Transaction) {
	for i := range t.SiacoinInputs {
		p := &t.SiacoinInputs[i].Parent
		for j := range p.StateElement.MerkleProof {
			p.StateElement.MerkleProof[j][0] ^= 0xFF
		}
		p.StateElement.LeafIndex ^= 1
		p.ID[0] ^= 0xFF
		for j := range t.SiacoinInputs[i].SatisfiedPolicy.Signatures {
			t.SiacoinInputs[i].SatisfiedPolicy.Signatures[j][0] ^= 0xFF
		}
	}
	for i := range t.SiafundInputs {
		p := &t.SiafundInputs[i].Parent
		for j := range p.StateElement.MerkleProof {
			p.StateElement.MerkleProof[j][0] ^= 0xFF
		}
		p.ID[0] ^= 0xFF
	}
	for i := range t.SiacoinOutputs {
		t.SiacoinOutputs[i].Address[0] ^= 0xFF
	}
	for i := range t.SiafundOutputs {
		t.SiafundOutputs[i].Address[0] ^= 0xFF
	}
	for i := range t.ArbitraryData {
		t.ArbitraryData[i] ^= 0xFF
	}
}

// PoolLine reads the pool through the public API and renders it.
func (w *World) PoolLine() (line string, v1 []types.Transaction, v2 []types.V2Transaction, ok bool) {
	if w.Guard("pool-query-panic", "PoolTransactions/V2PoolTransactions", func() {
		v1 = w.Node.CM.PoolTransactions()
		v2 = w.Node.CM.V2PoolTransactions()
	}) {
		return "panic", nil, nil, false
	}
	var sb strings.Builder
	sb.WriteString("v1")
	for _, t := range v1 {
		fmt.Fprintf(&sb, " %d", w.Tx(t.ID()))
	}
	sb.WriteString(" | v2")
	sb.WriteString(w.V2ShortList(v2))
	return sb.String(), v1, v2, true
}

// ValidatePool is the C05 oracle: the reported pool, re-validated from scratch against the tip with
// core's consensus package (fresh MidState; v2 proofs against TipState().Elements), must be valid
// at every prefix; every carried v2 element must equal the shadow ledger's.
func (w *World) ValidatePool(v1 []types.Transaction, v2 []types.V2Transaction) {
	// one entry per transaction id
	seen := map[types.TransactionID]bool{}
	for _, t := range v1 {
		if seen[t.ID()] {
			w.C.Oracle("pool-duplicate-transaction", "the reported pool lists v1 transaction %d twice", w.Tx(t.ID()))
		}
		seen[t.ID()] = true
	}
	for _, t := range v2 {
		if seen[t.ID()] {
			w.C.Oracle("pool-duplicate-transaction", "the reported pool lists v2 transaction %d twice", w.Tx(t.ID()))
		}
		seen[t.ID()] = true
	}
	cs := w.Node.CM.TipState()
	ms := consensus.NewMidState(cs)
	for i, txn := range v1 {
		ts := w.Node.Store.SupplementTipTransaction(txn)
		if err := consensus.ValidateTransaction(ms, txn, ts); err != nil {
			w.C.Oracle("pool-prefix-invalid", "reported pool: v1 transaction %d (position %d) is invalid after the transactions before it, at tip %d: %v", w.Tx(txn.ID()), i, w.TipID(), err)
			return
		}
		ms.ApplyTransaction(txn, ts)
	}
	for i, txn := range v2 {
		if err := consensus.ValidateV2Transaction(ms, txn); err != nil {
			w.C.Oracle("pool-prefix-invalid", "reported pool: v2 transaction %d (position %d) is invalid after the transactions before it, at tip %d: %v", w.Tx(txn.ID()), i, w.TipID(), err)
			return
		}
		ms.ApplyV2Transaction(txn)
	}
	w.CheckLedgerProofs("pool-proof-differs-from-ledger", "reported pool", v2, w.Led)
}

// CheckLedgerProofs compares every non-ephemeral input (leaf index and Merkle proof) with the
// shadow ledger's element.
func (w *World) CheckLedgerProofs(class, what string, txns []types.V2Transaction, led *chainx.Ledger) {
	for _, txn := range txns {
		for _, in := range txn.SiacoinInputs {
			if in.Parent.StateElement.LeafIndex == types.UnassignedLeafIndex {
				continue
			}
			le, ok := led.SC[in.Parent.ID]
			if !ok && w.LenientLedger {
				continue
			}
			if !ok {
				w.C.Oracle(class, "%s: transaction %d spends siacoin element %d which the ledger at %v does not hold", what, w.Tx(txn.ID()), w.Elem(types.Hash256(in.Parent.ID)), led.Tip)
				continue
			}
			if le.StateElement.LeafIndex != in.Parent.StateElement.LeafIndex || !proofEq(le.StateElement.MerkleProof, in.Parent.StateElement.MerkleProof) {
				w.C.Oracle(class, "%s: transaction %d input element %d: leaf %d proof len %d, ledger at %v has leaf %d proof len %d (or different hashes)", what, w.Tx(txn.ID()), w.Elem(types.Hash256(in.Parent.ID)),
					in.Parent.StateElement.LeafIndex, len(in.Parent.StateElement.MerkleProof), led.Tip, le.StateElement.LeafIndex, len(le.StateElement.MerkleProof))
			}
		}
		for _, in := range txn.SiafundInputs {
			if in.Parent.StateElement.LeafIndex == types.UnassignedLeafIndex {
				continue
			}
			le, ok := led.SF[in.Parent.ID]
			if !ok && w.LenientLedger {
				continue
			}
			if !ok {
				w.C.Oracle(class, "%s: transaction %d spends siafund element %d which the ledger at %v does not hold", what, w.Tx(txn.ID()), w.Elem(types.Hash256(in.Parent.ID)), led.Tip)
				continue
			}
			if le.StateElement.LeafIndex != in.Parent.StateElement.LeafIndex || !proofEq(le.StateElement.MerkleProof, in.Parent.StateElement.MerkleProof) {
				w.C.Oracle(class, "%s: transaction %d siafund input element %d differs from the ledger's at %v", what, w.Tx(txn.ID()), w.Elem(types.Hash256(in.Parent.ID)), led.Tip)
			}
		}
	}
}

func proofEq(a, b []types.Hash256) bool {
	if len(a) != len(b) {
		return false
	}
	for i := range a {
		if a[i] != b[i] {
			return false
		}
	}
	return true
}

// Observe reads the pool, records it for the model (op "pool") and runs the validity oracle.
func (w *World) Observe() ([]types.Transaction, []types.V2Transaction) {
	if w.Panicked {
		return nil, nil
	}
	line, v1, v2, ok := w.PoolLine()
	w.C.Op("pool", line)
	if ok {
		w.ValidatePool(v1, v2)
	}
	return v1, v2
}

// AddV1 submits a v1 set.
func (w *World) AddV1(txns []types.Transaction, oks []bool) (res string) {
	if w.Panicked {
		return "skipped"
	}
	desc := w.ListV1(txns, oks)
	before := DigestV1(txns)
	var known bool
	var err error
	if w.Guard("addpooltransactions-panic", "AddPoolTransactions", func() { known, err = w.Node.CM.AddPoolTransactions(txns) }) {
		res = "panic"
	} else if err != nil {
		res = "err"
	} else if known {
		res = "known"
	} else {
		res = "ok"
	}
	if DigestV1(txns) != before {
		w.C.Oracle("addpooltransactions-modifies-caller", "AddPoolTransactions changed the caller's transactions")
	}
	if known && err != nil {
		// "known" is reported exactly when every transaction of the set was already pooled - also next to an error
		pool := w.PoolIDs()
		for _, t := range txns {
			if !pool[t.ID()] {
				w.C.Oracle("addpooltransactions-known-with-error-although-new", "AddPoolTransactions returned known=true together with an error (%v) for a set containing transaction %d, which was never pooled", err, w.Tx(t.ID()))
				break
			}
		}
	}
	if err != nil && os.Getenv("VH_DEBUG") != "" {
		fmt.Fprintf(os.Stderr, "DEBUG %s op %d add1: %v\n", w.C.Name, len(w.C.Ops), err)
	}
	w.C.Op("add1 "+desc, res)
	w.Stats["add1:"+res]++
	return res
}

// basisStr renders a basis (tree block id, or -1 = an index the node has never seen) as the path
// from it to `to`, and returns the accumulator of the basis for proof flags.
func (w *World) basisStr(basis, to int) (string, *consensus.ElementAccumulator, types.ChainIndex) {
	if basis < 0 || !w.Applied[basis] || !w.Applied[to] {
		ci := types.ChainIndex{Height: 7, ID: types.BlockID{0xAB, byte(basis)}}
		if basis >= 0 {
			ci = w.Tree.Blocks[basis].Index()
		}
		return "u", nil, ci
	}
	rev, app := w.Path(basis, to)
	w.declarePath(rev, app)
	st, ok := w.Node.CM.State(w.Tree.Blocks[basis].Block.ID())
	if !ok {
		panic("known block without state")
	}
	return "k " + pathStr(rev, app), &st.Elements, w.Tree.Blocks[basis].Index()
}

// AddV2 submits a v2 set whose proofs are claimed valid as of tree block basis.
func (w *World) AddV2(basis int, txns []types.V2Transaction, oks []bool) (res string) {
	if w.Panicked {
		return "skipped"
	}
	bs, acc, ci := w.basisStr(basis, w.TipID())
	desc := w.ListV2(txns, oks, acc)
	before := DigestV2(txns)
	var known bool
	var err error
	if w.Guard("addv2pooltransactions-panic", "AddV2PoolTransactions", func() { known, err = w.Node.CM.AddV2PoolTransactions(ci, txns) }) {
		res = "panic"
	} else if err != nil {
		res = "err"
	} else if known {
		res = "known"
	} else {
		res = "ok"
	}
	if DigestV2(txns) != before {
		w.C.Oracle("addv2pooltransactions-modifies-caller", "AddV2PoolTransactions changed the caller's transactions (documented: not modified)")
	}
	if known && err != nil {
		pool := w.PoolIDs()
		for _, t := range txns {
			if !pool[t.ID()] {
				w.C.Oracle("addv2pooltransactions-known-with-error-although-new", "AddV2PoolTransactions returned known=true together with an error (%v) for a set containing transaction %d, which was never pooled", err, w.Tx(t.ID()))
				break
			}
		}
	}
	if err != nil && os.Getenv("VH_DEBUG") != "" {
		fmt.Fprintf(os.Stderr, "DEBUG %s op %d add2: %v\n", w.C.Name, len(w.C.Ops), err)
	}
	w.C.Op("add2 "+bs+" "+desc, res)
	w.Stats["add2:"+res]++
	return res
}

// Get1 looks a transaction id up through the v1 API.
func (w *World) Get1(id types.TransactionID, kind string) (found bool) {
	if w.Panicked {
		return false
	}
	var txn types.Transaction
	var ok bool
	res := "none"
	if w.Guard("pooltransaction-"+kind+"-id-panic", fmt.Sprintf("PoolTransaction(%s id %d)", kind, w.Tx(id)), func() { txn, ok = w.Node.CM.PoolTransaction(id) }) {
		res = "panic"
	} else if ok {
		res = fmt.Sprintf("some %d", w.Tx(txn.ID()))
		if txn.ID() != id {
			w.C.Oracle("pooltransaction-"+kind+"-id-wrong-transaction", "PoolTransaction(%s id %d) returned transaction %d", kind, w.Tx(id), w.Tx(txn.ID()))
		}
	}
	w.C.Op(fmt.Sprintf("get1 %d", w.Tx(id)), res)
	w.Stats["get1:"+kind]++
	return ok
}

// Get2 looks a transaction id up through the v2 API.
func (w *World) Get2(id types.TransactionID, kind string) (found bool) {
	if w.Panicked {
		return false
	}
	var txn types.V2Transaction
	var ok bool
	res := "none"
	if w.Guard("v2pooltransaction-"+kind+"-id-panic", fmt.Sprintf("V2PoolTransaction(%s id %d)", kind, w.Tx(id)), func() { txn, ok = w.Node.CM.V2PoolTransaction(id) }) {
		res = "panic"
	} else if ok {
		res = "some " + w.V2Short(txn)
		if txn.ID() != id {
			w.C.Oracle("v2pooltransaction-"+kind+"-id-wrong-transaction", "V2PoolTransaction(%s id %d) returned transaction %d", kind, w.Tx(id), w.Tx(txn.ID()))
		}
		// mutate the returned copy, then ask again
		d := DigestV2([]types.V2Transaction{txn})
		Scribble(&txn)
		again, ok2 := w.Node.CM.V2PoolTransaction(id)
		if !ok2 || DigestV2([]types.V2Transaction{again}) != d {
			w.C.Oracle("v2pooltransaction-returns-shared-memory", "mutating the transaction returned by V2PoolTransaction(%d) changed the pool", w.Tx(id))
			w.Panicked = true
		}
	}
	w.C.Op(fmt.Sprintf("get2 %d", w.Tx(id)), res)
	w.Stats["get2:"+kind]++
	return ok
}

// Mine assembles a block from the pool with coreutils.MineBlock, requires the node to accept it,
// registers it in the tree and reports the tip change to the model.
func (w *World) Mine() (id int, ok bool) {
	if w.Panicked {
		return -1, false
	}
	old := w.TipID()
	// MineBlock stamps the block with the wall clock.  Consensus wants a timestamp that is not before
	// the median of the last (up to) eleven; the tree's synthetic timestamps can run ahead of the clock
	// after earlier mined blocks.  A tip that alone is ahead of the clock (up to the 3h future limit)
	// is legal and must not stop mining - only a median ahead of the clock does.
	{
		cs := w.Node.CM.TipState()
		n := len(cs.PrevTimestamps)
		if h := int(cs.Index.Height) + 1; h < n {
			n = h
		}
		ts := append([]time.Time(nil), cs.PrevTimestamps[:n]...)
		sort.Slice(ts, func(i, j int) bool { return ts[i].Before(ts[j]) })
		median := ts[len(ts)/2]
		if len(ts)%2 == 0 {
			median = ts[len(ts)/2-1].Add(ts[len(ts)/2].Sub(ts[len(ts)/2-1]) / 2)
		}
		if median.After(time.Now().Add(-2 * time.Second)) {
			w.Stats["mine:skipped-clock"]++
			return -1, false
		}
	}
	var blk types.Block
	var found bool
	if w.Guard("mineblock-panic", "MineBlock", func() { blk, found = coreutils.MineBlock(w.Node.CM, w.Net.Addr, 20*time.Second) }) {
		w.C.Op("mine", "panic")
		return -1, false
	}
	if !found {
		w.C.Op("mine", "nononce")
		return -1, false
	}
	var sb strings.Builder
	sb.WriteString("v1")
	for _, t := range blk.Transactions {
		fmt.Fprintf(&sb, " %d", w.Tx(t.ID()))
	}
	sb.WriteString(" | v2")
	for i, t := range blk.V2Transactions() {
		if i == 0 && len(t.ArbitraryData) == 12 && len(t.SiacoinInputs) == 0 {
			continue // MineBlock's uniqueness transaction
		}
		fmt.Fprintf(&sb, " %d", w.Tx(t.ID()))
	}
	w.C.Op("mine", sb.String())
	cs := w.Node.CM.TipState()
	weight := BlockWeight(cs, blk)
	var err error
	if w.Guard("addblocks-panic", "AddBlocks(mined block)", func() { err = w.Node.CM.AddBlocks([]types.Block{blk}) }) {
		return -1, false
	}
	if err != nil {
		w.C.Oracle("mined-block-rejected", "a block assembled by coreutils.MineBlock from the reported pool on tip %d (weight %d, max %d, %d v1 + %d v2 transactions) is rejected: %v", old, weight, cs.MaxBlockWeight(), len(blk.Transactions), len(blk.V2Transactions()), err)
		return -1, false
	}
	id = w.Tree.AddExternal(old, blk)
	w.Known[id] = true
	if b := w.Tree.Blocks[id]; !b.HdrOk || !b.BodyOk {
		w.C.Oracle("mined-block-rejected-by-twin", "a block mined from the pool and accepted by the node is rejected by an independent linear node")
		return id, false
	}
	cur := w.TipID()
	if cur != id {
		w.C.Oracle("mined-block-not-tip", "mined block accepted but the tip is %d", cur)
		return id, false
	}
	rev, app := w.Path(old, cur)
	for _, i := range app {
		w.Applied[i] = true
	}
	if w.OnPath != nil {
		w.OnPath(rev, app)
	}
	w.declarePath(rev, app)
	if err := w.Led.Follow(w.Node.CM, 1000); err != nil {
		w.C.Oracle("updates-since-failed", "shadow ledger cannot follow: %v", err)
	}
	cs = w.Node.CM.TipState()
	var rb strings.Builder
	fmt.Fprintf(&rb, "reorg %s %d", pathStr(rev, app), len(w.lastRevV2))
	for _, txn := range w.lastRevV2 {
		fmt.Fprintf(&rb, " %d", b01(cs.Elements.ValidateTransactionElements(txn) != nil))
	}
	w.C.Op(rb.String(), "ok")
	w.Stats["mined"]++
	return id, true
}

// Finish registers the case.
func (w *World) Finish(nontrivial bool, tags ...string) {
	if w.Stats["failed-flush"] > 0 {
		tags = append(tags, "failed-flush-rolled-back")
	}
	if w.Node.Probe != nil {
		tags = append(tags, "probed-store")
	}
	w.C.Nontrivial = nontrivial
	w.C.Tags = append(w.C.Tags, tags...)
	w.C.Info = map[string]any{"stats": w.Stats, "blocks": len(w.Tree.Blocks)}
	w.R.Add(w.C)
}

var _ = chain.ErrMissingBlock

// Parents1 calls UnconfirmedParents for a v1 transaction.
func (w *World) Parents1(txn types.Transaction, kind string) []types.Transaction {
	if w.Panicked {
		return nil
	}
	var out []types.Transaction
	res := "ok"
	if w.Guard("unconfirmedparents-"+kind+"-panic", "UnconfirmedParents("+kind+")", func() { out = w.Node.CM.UnconfirmedParents(txn) }) {
		res = "panic"
	} else {
		pos := map[types.SiacoinOutputID]int{}
		for i, p := range out {
			res += fmt.Sprintf(" %d", w.Tx(p.ID()))
			for _, in := range p.SiacoinInputs {
				if j, ok := pos[in.ParentID]; ok && j >= i {
					w.C.Oracle("unconfirmedparents-child-before-parent", "UnconfirmedParents: transaction at position %d spends an output created at position %d", i, j)
				}
			}
			for k := range p.SiacoinOutputs {
				pos[p.SiacoinOutputID(k)] = i
			}
		}
		// a parent returned later than its child
		created := map[types.SiacoinOutputID]int{}
		for i, p := range out {
			for k := range p.SiacoinOutputs {
				created[p.SiacoinOutputID(k)] = i
			}
		}
		for i, p := range out {
			for _, in := range p.SiacoinInputs {
				if j, ok := created[in.ParentID]; ok && j > i {
					w.C.Oracle("unconfirmedparents-child-before-parent", "UnconfirmedParents(%s): the transaction at position %d spends an output of the transaction at position %d", kind, i, j)
				}
			}
		}
	}
	w.C.Op("par1 "+w.DescV1(txn, true), res)
	w.Stats["par1:"+kind]++
	return out
}

// TSet calls V2TransactionSet(basis, txn) and checks what the property says about its result.
func (w *World) TSet(basis int, txn types.V2Transaction, kind string) (set []types.V2Transaction, ok bool) {
	if w.Panicked {
		return nil, false
	}
	bs, acc, ci := w.basisStr(basis, w.TipID())
	desc := w.DescV2(txn, true, acc)
	mine := txn.DeepCopy()
	before := DigestV2([]types.V2Transaction{mine})
	var idx types.ChainIndex
	var err error
	res := "err"
	if w.Guard("v2transactionset-"+kind+"-panic", "V2TransactionSet("+kind+")", func() { idx, set, err = w.Node.CM.V2TransactionSet(ci, mine) }) {
		res = "panic"
	} else if err == nil {
		ok = true
		res = "ok" + w.V2ShortList(set)
		if idx != w.Node.CM.Tip() {
			w.C.Oracle("v2transactionset-basis-not-tip", "V2TransactionSet returned basis %v, tip is %v", idx, w.Node.CM.Tip())
		}
		// parents first
		created := map[types.SiacoinOutputID]int{}
		for i := range set {
			id := set[i].ID()
			for k := range set[i].SiacoinOutputs {
				created[set[i].SiacoinOutputID(id, k)] = i
			}
		}
		for i := range set {
			for _, in := range set[i].SiacoinInputs {
				if j, has := created[in.Parent.ID]; has && j > i {
					w.C.Oracle("v2transactionset-child-before-parent", "V2TransactionSet(%s): the transaction at position %d (id %d) spends an output of the transaction at position %d (id %d): not an order valid for broadcasting", kind, i, w.Tx(set[i].ID()), j, w.Tx(set[j].ID()))
				}
			}
		}
		// every returned transaction except the caller's must be an ancestor: something later in the set spends one of its outputs
		for i := range set {
			id := set[i].ID()
			if id == txn.ID() {
				continue
			}
			used := false
			for j := i + 1; j < len(set) && !used; j++ {
				for _, in := range set[j].SiacoinInputs {
					if c, has := created[in.Parent.ID]; has && c == i {
						used = true
					}
				}
			}
			if !used {
				w.C.Oracle("v2transactionset-"+kind+"-unrelated-transaction", "V2TransactionSet(%s) returned pooled transaction %d as a parent although nothing in the set spends any of its outputs", kind, w.Tx(id))
			}
		}
		// every returned transaction except the caller's must be the pooled transaction with that id
		for i := range set {
			id := set[i].ID()
			if id == txn.ID() {
				continue
			}
			pt, has := w.Node.CM.V2PoolTransaction(id)
			if !has || DigestV2([]types.V2Transaction{pt}) != DigestV2([]types.V2Transaction{set[i]}) {
				w.C.Oracle("v2transactionset-returns-non-pool-parent", "V2TransactionSet(%s) returned transaction %d as a parent, which is not (identical to) a pooled v2 transaction", kind, w.Tx(id))
			}
		}
		if kind == "first-call" {
			// the transaction was pooled before the tip moved; a block of the path may have spent one of
			// its inputs (the rebased transaction is then simply no longer valid): only compare what the
			// ledger still holds
			w.LenientLedger = true
		}
		w.CheckLedgerProofs("v2transactionset-proof-differs-from-ledger", "V2TransactionSet("+kind+")", set, w.Led)
		w.LenientLedger = false
		// every pooled unconfirmed v2 ancestor of the transaction must be in the set
		if w.ExpectTSetOK {
			byOut := map[types.SiacoinOutputID]int{}
			for i := range w.LastV2 {
				id := w.LastV2[i].ID()
				for k := range w.LastV2[i].SiacoinOutputs {
					byOut[w.LastV2[i].SiacoinOutputID(id, k)] = i
				}
			}
			inSet := map[types.TransactionID]bool{}
			for i := range set {
				inSet[set[i].ID()] = true
			}
			need := map[int]bool{}
			queue := []types.V2Transaction{txn}
			for len(queue) > 0 {
				t := queue[0]
				queue = queue[1:]
				for _, in := range t.SiacoinInputs {
					if i, has := byOut[in.Parent.ID]; has && !need[i] {
						need[i] = true
						queue = append(queue, w.LastV2[i])
					}
				}
			}
			missing := 0
			for i := range need {
				if !inSet[w.LastV2[i].ID()] {
					missing++
				}
			}
			if missing > 0 {
				w.C.Oracle("v2transactionset-"+kind+"-ancestor-missing", "V2TransactionSet(%s): %d of the %d pooled unconfirmed ancestors of the transaction are not in the returned set", kind, missing, len(need))
			}
			// ... and a fresh peer on the same tip (empty pool) must accept the set with the returned basis,
			// unless an input is created by a pooled v1 transaction (which a v2 set cannot carry)
			v1dep := false
			v1out := map[types.SiacoinOutputID]bool{}
			for _, t := range w.LastV1 {
				for k := range t.SiacoinOutputs {
					v1out[t.SiacoinOutputID(k)] = true
				}
			}
			for i := range set {
				for _, in := range set[i].SiacoinInputs {
					if v1out[in.Parent.ID] {
						v1dep = true
					}
				}
			}
			if !v1dep {
				peer := w.Tree.Twin(w.TipID())
				cp := make([]types.V2Transaction, len(set))
				for i := range set {
					cp[i] = set[i].DeepCopy()
				}
				var perr error
				if !w.Guard("peer-addv2pooltransactions-panic", "fresh peer AddV2PoolTransactions", func() { _, perr = peer.CM.AddV2PoolTransactions(idx, cp) }) && perr != nil {
					w.C.Oracle("v2transactionset-"+kind+"-rejected-by-fresh-peer", "V2TransactionSet(%s): a node on the same tip with an empty pool rejects the returned set of %d transactions with the returned basis: %v", kind, len(set), perr)
				}
				w.Stats["tset:peer-checked"]++
			}
		}
		// the returned transactions are the caller's: overwriting them must not reach the pool
		d0 := DigestV2(w.Node.CM.V2PoolTransactions())
		probe := make([]types.V2Transaction, len(set))
		copy(probe, set)
		set = make([]types.V2Transaction, len(probe))
		for i := range probe {
			set[i] = probe[i].DeepCopy()
			Scribble(&probe[i])
		}
		if DigestV2(w.Node.CM.V2PoolTransactions()) != d0 {
			w.C.Oracle("v2transactionset-returns-shared-memory", "overwriting the transactions returned by V2TransactionSet(%s) changed the pool", kind)
			w.Panicked = true
		}
	}
	if err != nil && w.ExpectTSetOK {
		w.C.Oracle("v2transactionset-"+kind+"-error", "V2TransactionSet(%s): a transaction whose proofs are valid as of block %d (an earlier tip, %s) is not assembled into a set: %v", kind, basis, bs, err)
	}
	if DigestV2([]types.V2Transaction{mine}) != before {
		w.C.Oracle("v2transactionset-modifies-caller", "V2TransactionSet changed the caller's transaction")
	}
	w.C.Op("tset "+bs+" "+desc, res)
	w.Stats["tset:"+kind+":"+strings.Fields(res)[0]]++
	return set, ok
}

// LedgerAt is the shadow ledger of a linear twin at tree block id (cached).
func (w *World) LedgerAt(id int) *chainx.Ledger {
	if w.ledCache == nil {
		w.ledCache = map[int]*chainx.Ledger{}
	}
	if l, ok := w.ledCache[id]; ok {
		return l
	}
	l := chainx.LedgerOf(w.Tree.Twin(id))
	w.ledCache[id] = l
	return l
}

// Update calls UpdateV2TransactionSet(txns, from, to).  from/to are tree ids (negative or
// unsubmitted = unknown to the node).
func (w *World) Update(from, to int, txns []types.V2Transaction, kind string) (out []types.V2Transaction, ok bool) {
	if w.Panicked {
		return nil, false
	}
	var op string
	var fromCI, toCI types.ChainIndex
	desc := ""
	same := from == to && from >= 0
	switch {
	case same:
		fromCI = w.Tree.Blocks[from].Index()
		toCI = fromCI
		op = "upd same " + w.ListV2(txns, nil, nil)
	case to < 0 || !w.Applied[to]:
		// unknown target: the path cannot be found
		_, acc, ci := w.basisStr(from, w.TipID())
		fromCI = ci
		toCI = types.ChainIndex{Height: 9, ID: types.BlockID{0xCD, byte(to)}}
		if to >= 0 {
			toCI = w.Tree.Blocks[to].Index()
		}
		desc = w.ListV2(txns, nil, acc)
		op = "upd u " + desc
	default:
		bs, acc, ci := w.basisStr(from, to)
		fromCI, toCI = ci, w.Tree.Blocks[to].Index()
		op = "upd " + bs + " " + w.ListV2(txns, nil, acc)
	}
	mine := make([]types.V2Transaction, len(txns))
	for i := range txns {
		mine[i] = txns[i].DeepCopy()
	}
	before := DigestV2(mine)
	var err error
	res := "err"
	if w.Guard("updatev2transactionset-"+kind+"-panic", "UpdateV2TransactionSet("+kind+")", func() { out, err = w.Node.CM.UpdateV2TransactionSet(mine, fromCI, toCI) }) {
		res = "panic"
	} else if err == nil {
		ok = true
		res = "ok" + w.V2ShortList(out)
	}
	if DigestV2(mine) != before {
		w.C.Oracle("updatev2transactionset-modifies-caller", "UpdateV2TransactionSet(%s) changed the caller's transactions", kind)
	}
	w.C.Op(op, res)
	w.Stats["upd:"+kind+":"+strings.Fields(res)[0]]++
	return out, ok
}
