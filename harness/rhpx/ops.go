package rhpx

import (
	"bytes"
	"fmt"
	"io"
	"strconv"
	"strings"

	proto4 "go.sia.tech/core/rhp/v4"
	"go.sia.tech/core/types"
	rhp4 "go.sia.tech/coreutils/rhp/v4"
)

// A Result is one RPC attempt: the model line, what the real host answered (canonicalised), and
// what the raw renter learnt on the way (for the oracles).
type Result struct {
	Op, Impl string
	Cls      string
	// Oracle notes: proof checks etc. that failed on honest paths ("" = none)
	Notes []string
	// Revision the honest renter signed / would have signed (zero if not reached)
	Honest types.V2FileContract
	// Roots returned by a roots RPC
	Roots []types.Hash256
	// Data returned by a read
	Data []byte
	// first-response payload as printed
	Vals string
}

// SetBase makes the raw renter build on the given state of a contract instead of asking the host
// (which cannot be asked while another RPC of the harness holds the contract locked); nil clears it.
func (s *Sess) SetBase(cid int, st *rhp4.RevisionState) {
	if s.base == nil {
		s.base = map[int]*rhp4.RevisionState{}
	}
	if st == nil {
		delete(s.base, cid)
	} else {
		s.base[cid] = st
	}
}

func (s *Sess) honestKey(cid int) (int, rhp4.RevisionState, bool) {
	if b, ok := s.base[cid]; ok {
		k := KeyID(b.Revision.RenterPublicKey)
		if k == 0 {
			k = RenterKeyID
		}
		return k, *b, true
	}
	st, err := s.R.HostState(s.CID(cid))
	if err != nil {
		return RenterKeyID, rhp4.RevisionState{}, false
	}
	k := KeyID(st.Revision.RenterPublicKey)
	if k == 0 {
		k = RenterKeyID
	}
	return k, st, true
}

type halfCloser interface{ CloseWrite() error }

// finish performs the last renter step of a multi-round RPC according to the second-message spec
// and returns the class the renter observed.
//
//	abort  half-close instead of sending, read the host's verdict
//	drop   close the stream
//	sig!   send, then close without reading
func (s *Sess) sendSecond(st *Stream, kind string, bang bool, msg proto4.Object, third proto4.Object) string {
	switch kind {
	case "abort":
		st.Conn.(halfCloser).CloseWrite()
		err := st.Recv(third)
		if err == nil {
			return "ok"
		}
		return ErrClass(err)
	case "drop":
		return "dropped"
	}
	// the host may already have answered with an error and closed its end: the send then fails,
	// but its verdict is still waiting to be read
	sendErr := st.Send(msg)
	if bang {
		return "dropped"
	}
	cls := ErrClass(st.Recv(third))
	if cls == "ok" && sendErr != nil {
		return "io"
	}
	return cls
}

// early: the host answered the first message with an error, so the renter never got to its second
// step and observed that error; the word is rendered without the drop marker.
func secondWord(w string, sp SigSpec, bang bool, early bool) string {
	if sp.Kind == "abort" || sp.Kind == "drop" {
		if early {
			return "abort"
		}
		return sp.Kind
	}
	if bang && !early {
		return w + "!"
	}
	return w
}

// FreeArgs etc. keep the call sites readable.
type FreeArgs struct {
	Cid     int
	Prices  PriceSpec
	Chal    SigSpec
	Indices []uint64
	Second  SigSpec
	Bang    bool  // send the second message, then close without reading
	NewIDs  []int // the roots the harness expects after the free (for rendering a "b" signature)
	Between func() // runs after the host's first response has been read, before the renter answers
}

func (s *Sess) Free(a FreeArgs) Result {
	hk, st, _ := s.honestKey(a.Cid)
	prices, pw := s.Prices(a.Prices)
	req := proto4.RPCFreeSectorsRequest{ContractID: s.CID(a.Cid), Prices: prices, Indices: a.Indices}
	var cw string
	req.ChallengeSignature, cw = s.challenge(a.Chal, hk, a.Cid, st.Revision.RevisionNumber+1)
	res := Result{}
	stream := s.R.Open()
	sw, early := "h", false
	func() {
		if err := stream.Request(proto4.RPCFreeSectorsID, &req); err != nil {
			res.Cls = "io"
			return
		}
		var resp proto4.RPCFreeSectorsResponse
		if err := stream.Recv(&resp); err != nil {
			res.Cls = ErrClass(err)
			// the second message is never sent; render it as given
			_, sw = s.revSig(a.Second, hk, st.Revision, a.NewIDs)
			early = true
			return
		}
		if distinctInRange(a.Indices, st.Revision.Filesize/proto4.SectorSize) && !proto4.VerifyFreeSectorsProof(resp.OldSubtreeHashes, resp.OldLeafHashes, a.Indices,
			st.Revision.Filesize/proto4.SectorSize, st.Revision.FileMerkleRoot, resp.NewMerkleRoot) {
			res.Notes = append(res.Notes, "free proof does not verify")
		}
		if a.Between != nil {
			a.Between()
		}
		rev, _, err := proto4.ReviseForFreeSectors(st.Revision, prices, resp.NewMerkleRoot, len(a.Indices))
		sp := a.Second
		if err != nil && sp.Kind == "h" {
			sp = SigSpec{Kind: "x"} // the honest renter cannot build a revision; the model's `h` is then a bad signature
		}
		res.Honest = rev
		var sig types.Signature
		sig, sw = s.revSig(sp, hk, rev, a.NewIDs)
		if err != nil && a.Second.Kind == "h" {
			sw = "h"
		}
		var third proto4.RPCFreeSectorsThirdResponse
		res.Cls = s.sendSecond(stream, a.Second.Kind, a.Bang, &proto4.RPCFreeSectorsSecondResponse{RenterSignature: sig}, &third)
		if res.Cls == "ok" && !st.Revision.HostPublicKey.VerifyHash(s.R.CM.TipState().ContractSigHash(rev), third.HostSignature) && a.Second.Kind == "h" {
			res.Notes = append(res.Notes, "host signature on the freed revision does not verify")
		}
	}()
	stream.End()
	res.Op = fmt.Sprintf("free %d %s %s %s %s", a.Cid, pw, cw, U64s(a.Indices), secondWord(sw, a.Second, a.Bang, early))
	res.Impl = outLine(res.Cls, "", s.Events())
	return res
}

// distinctInRange: what RPCFreeSectorsRequest.Validate accepts; for such a list the verifying
// renter checks the host's proof for the order it requested.
func distinctInRange(is []uint64, n uint64) bool {
	seen := map[uint64]bool{}
	for _, i := range is {
		if i >= n || seen[i] {
			return false
		}
		seen[i] = true
	}
	return true
}

func sortedDistinctDesc(is []uint64) bool {
	for i := 1; i < len(is); i++ {
		if is[i] >= is[i-1] {
			return false
		}
	}
	return true
}

// CFree frees through the real client.
func (s *Sess) CFree(cid int, ps PriceSpec, indices []uint64) (Result, rhp4.RPCFreeSectorsResult) {
	hk, _, _ := s.honestKey(cid)
	prices, pw := s.Prices(ps)
	r, err := rhp4.RPCFreeSectors(bg, s.client(), Key(hk), s.R.CM.TipState(), prices, s.ContractRev(cid), indices)
	s.R.T.WaitIdle()
	res := Result{Cls: ErrClass(err)}
	res.Op = fmt.Sprintf("cfree %d %s %s", cid, pw, U64s(indices))
	res.Impl = outLine(res.Cls, "", s.Events())
	return res, r
}

type AppendArgs struct {
	Cid     int
	Prices  PriceSpec
	Chal    SigSpec
	Sectors []int
	Second  SigSpec
	Bang    bool
	NewIDs  []int
	Between func()
}

func flags(b []bool) string {
	ss := make([]string, len(b))
	for i, v := range b {
		ss[i] = b2s(v)
	}
	return strings.Join(ss, ",")
}

func (s *Sess) Append(a AppendArgs) Result {
	hk, st, _ := s.honestKey(a.Cid)
	prices, pw := s.Prices(a.Prices)
	req := proto4.RPCAppendSectorsRequest{ContractID: s.CID(a.Cid), Prices: prices, Sectors: RootHashes(a.Sectors)}
	var cw string
	req.ChallengeSignature, cw = s.challenge(a.Chal, hk, a.Cid, st.Revision.RevisionNumber+1)
	res := Result{}
	stream := s.R.Open()
	sw, early := "h", false
	func() {
		if err := stream.Request(proto4.RPCAppendSectorsID, &req); err != nil {
			res.Cls = "io"
			return
		}
		var resp proto4.RPCAppendSectorsResponse
		if err := stream.Recv(&resp); err != nil {
			res.Cls = ErrClass(err)
			_, sw = s.revSig(a.Second, hk, st.Revision, a.NewIDs)
			early = true
			return
		}
		res.Vals = flags(resp.Accepted)
		var appended []types.Hash256
		for i := range resp.Accepted {
			if resp.Accepted[i] && i < len(req.Sectors) {
				appended = append(appended, req.Sectors[i])
			}
		}
		if !proto4.VerifyAppendSectorsProof(st.Revision.Filesize/proto4.SectorSize, resp.SubtreeRoots, appended, st.Revision.FileMerkleRoot, resp.NewMerkleRoot) {
			res.Notes = append(res.Notes, "append proof does not verify")
		}
		if a.Between != nil {
			a.Between()
		}
		rev, _, err := proto4.ReviseForAppendSectors(st.Revision, prices, resp.NewMerkleRoot, uint64(len(appended)))
		sp := a.Second
		if err != nil && sp.Kind == "h" {
			sp = SigSpec{Kind: "x"}
		}
		res.Honest = rev
		var sig types.Signature
		sig, sw = s.revSig(sp, hk, rev, a.NewIDs)
		if err != nil && a.Second.Kind == "h" {
			sw = "h"
		}
		var third proto4.RPCAppendSectorsThirdResponse
		res.Cls = s.sendSecond(stream, a.Second.Kind, a.Bang, &proto4.RPCAppendSectorsSecondResponse{RenterSignature: sig}, &third)
		if res.Cls == "ok" && a.Second.Kind == "h" && !st.Revision.HostPublicKey.VerifyHash(s.R.CM.TipState().ContractSigHash(rev), third.HostSignature) {
			res.Notes = append(res.Notes, "host signature on the appended revision does not verify")
		}
	}()
	stream.End()
	res.Op = fmt.Sprintf("append %d %s %s %s %s", a.Cid, pw, cw, Ints(a.Sectors), secondWord(sw, a.Second, a.Bang, early))
	res.Impl = outLine(res.Cls, res.Vals, s.Events())
	return res
}

// CAppend appends through the real client.
func (s *Sess) CAppend(cid int, ps PriceSpec, sectors []int) (Result, rhp4.RPCAppendSectorsResult) {
	hk, _, _ := s.honestKey(cid)
	prices, pw := s.Prices(ps)
	r, err := rhp4.RPCAppendSectors(bg, s.client(), Key(hk), s.R.CM.TipState(), prices, s.ContractRev(cid), RootHashes(sectors))
	s.R.T.WaitIdle()
	res := Result{Cls: ErrClass(err)}
	if err == nil {
		fl := make([]bool, len(sectors))
		j := 0
		for i, id := range sectors {
			if j < len(r.Sectors) && r.Sectors[j] == RootHash(id) {
				fl[i] = true
				j++
			}
		}
		res.Vals = flags(fl)
	}
	res.Op = fmt.Sprintf("append %d %s h %s h", cid, pw, Ints(sectors))
	res.Impl = outLine(res.Cls, res.Vals, s.Events())
	return res, r
}

type RootsArgs struct {
	Cid         int
	Prices      PriceSpec
	Offset, Len uint64
	Sig         SigSpec
	CurIDs      []int
}

func (s *Sess) Roots(a RootsArgs) Result {
	hk, st, _ := s.honestKey(a.Cid)
	prices, pw := s.Prices(a.Prices)
	rev, _, err := proto4.ReviseForSectorRoots(st.Revision, prices, a.Len)
	sp := a.Sig
	if err != nil && sp.Kind == "h" {
		sp = SigSpec{Kind: "x"}
	}
	sig, sw := s.revSig(sp, hk, rev, a.CurIDs)
	if err != nil && a.Sig.Kind == "h" {
		sw = "h"
	}
	req := proto4.RPCSectorRootsRequest{Prices: prices, ContractID: s.CID(a.Cid), Offset: a.Offset, Length: a.Len, RenterSignature: sig}
	res := Result{Honest: rev}
	stream := s.R.Open()
	func() {
		if err := stream.Request(proto4.RPCSectorRootsID, &req); err != nil {
			res.Cls = "io"
			return
		}
		var resp proto4.RPCSectorRootsResponse
		err := stream.Recv(&resp)
		res.Cls = ErrClass(err)
		if err == nil {
			res.Roots = resp.Roots
			res.Vals = intsBare(RootIDList(resp.Roots))
			n := st.Revision.Filesize / proto4.SectorSize
			if !proto4.VerifySectorRootsProof(resp.Proof, resp.Roots, n, a.Offset, a.Offset+a.Len, st.Revision.FileMerkleRoot) {
				res.Notes = append(res.Notes, "sector roots proof does not verify")
			}
		}
	}()
	stream.End()
	res.Op = fmt.Sprintf("roots %d %s %d %d %s", a.Cid, pw, a.Offset, a.Len, sw)
	res.Impl = outLine(res.Cls, res.Vals, s.Events())
	return res
}

// CRoots lists roots through the real client (which verifies the proof).
func (s *Sess) CRoots(cid int, ps PriceSpec, off, length uint64) (Result, bool) {
	hk, _, _ := s.honestKey(cid)
	prices, pw := s.Prices(ps)
	r, err := rhp4.RPCSectorRoots(bg, s.client(), s.R.CM.TipState(), prices, Key(hk), s.ContractRev(cid), off, length)
	s.R.T.WaitIdle()
	res := Result{Cls: ErrClass(err), Roots: r.Roots}
	if err == nil {
		res.Vals = intsBare(RootIDList(r.Roots))
	}
	res.Op = fmt.Sprintf("roots %d %s %d %d h", cid, pw, off, length)
	res.Impl = outLine(res.Cls, res.Vals, s.Events())
	// a client-side rejection never reached the host
	return res, res.Cls != "clienterr"
}

type Deposit struct {
	Account int
	Amount  types.Currency
}

func depositsWord(ds []Deposit) string {
	if len(ds) == 0 {
		return "-"
	}
	ss := make([]string, len(ds))
	for i, d := range ds {
		ss[i] = fmt.Sprintf("%d=%s", d.Account, d.Amount.ExactString())
	}
	return strings.Join(ss, ",")
}

type FundArgs struct {
	Cid      int
	Deposits []Deposit
	Sig      SigSpec
	CurIDs   []int
}

func (s *Sess) Fund(a FundArgs) Result {
	hk, st, _ := s.honestKey(a.Cid)
	var total types.Currency
	overflow := false
	req := proto4.RPCFundAccountsRequest{ContractID: s.CID(a.Cid)}
	for _, d := range a.Deposits {
		var o bool
		total, o = total.AddWithOverflow(d.Amount)
		overflow = overflow || o
		req.Deposits = append(req.Deposits, proto4.AccountDeposit{Account: Acct(d.Account), Amount: d.Amount})
	}
	rev, _, err := proto4.ReviseForFundAccounts(st.Revision, total)
	if overflow {
		// the deposits do not fit 128 bits: there is no honest revision; explicit ("b") signatures are
		// built by the caller from the current revision
		rev, err = st.Revision, fmt.Errorf("deposit total overflows")
	}
	sp := a.Sig
	if err != nil && sp.Kind == "h" {
		sp = SigSpec{Kind: "x"}
	}
	var sw string
	req.RenterSignature, sw = s.revSig(sp, hk, rev, a.CurIDs)
	if err != nil && a.Sig.Kind == "h" {
		sw = "h"
	}
	res := Result{Honest: rev}
	stream := s.R.Open()
	func() {
		if err := stream.Request(proto4.RPCFundAccountsID, &req); err != nil {
			res.Cls = "io"
			return
		}
		var resp proto4.RPCFundAccountsResponse
		err := stream.Recv(&resp)
		res.Cls = ErrClass(err)
		if err == nil {
			res.Vals = curs(resp.Balances)
			if a.Sig.Kind == "h" && !st.Revision.HostPublicKey.VerifyHash(s.R.CM.TipState().ContractSigHash(rev), resp.HostSignature) {
				res.Notes = append(res.Notes, "host signature on the funding revision does not verify")
			}
		}
	}()
	stream.End()
	res.Op = fmt.Sprintf("fund %d %s %s", a.Cid, depositsWord(a.Deposits), sw)
	res.Impl = outLine(res.Cls, res.Vals, s.Events())
	return res
}

type ReplArgs struct {
	Pool     bool
	Cid      int
	Accounts []int
	Target   types.Currency
	Chal     SigSpec
	Second   SigSpec
	Bang     bool
	CurIDs   []int
	// Between runs after the host's quote has been read and before the renter answers it (an
	// operation on another stream in the middle of the RPC)
	Between func()
	// Base, when set, supplies the revision the honest renter builds on, evaluated after the quote
	// has been read (another RPC of the same renter completed while this one was waiting)
	Base func() types.V2FileContract
}

func (s *Sess) Replenish(a ReplArgs) Result {
	hk, st, _ := s.honestKey(a.Cid)
	req := proto4.RPCReplenishAccountsRequest{Accounts: accounts(a.Accounts), Target: a.Target, ContractID: s.CID(a.Cid)}
	var cw string
	switch a.Chal.Kind {
	case "h":
		req.ChallengeSignature, cw = Key(hk).SignHash(req.ChallengeSigHash(st.Revision.RevisionNumber)), "h"
	default:
		req.ChallengeSignature, cw = s.challenge(a.Chal, hk, a.Cid, st.Revision.RevisionNumber)
	}
	id := proto4.RPCReplenishAccountsID
	kind := "a"
	if a.Pool {
		id, kind = proto4.RPCReplenishPoolsID, "p"
	}
	res := Result{}
	stream := s.R.Open()
	sw, early := "h", false
	func() {
		if err := stream.Request(id, &req); err != nil {
			res.Cls = "io"
			return
		}
		var resp proto4.RPCReplenishAccountsResponse
		if err := stream.Recv(&resp); err != nil {
			res.Cls = ErrClass(err)
			_, sw = s.revSig(a.Second, hk, st.Revision, a.CurIDs)
			early = true
			return
		}
		amts := make([]types.Currency, len(resp.Deposits))
		for i, d := range resp.Deposits {
			amts[i] = d.Amount
			if i >= len(req.Accounts) || d.Account != req.Accounts[i] {
				res.Notes = append(res.Notes, "replenish response names other accounts than the request")
			}
		}
		res.Vals = curs(amts)
		if a.Between != nil {
			a.Between()
		}
		if a.Base != nil {
			st.Revision = a.Base()
		}
		var total types.Currency
		tooBig := false
		for _, d := range resp.Deposits {
			var o bool
			total, o = total.AddWithOverflow(d.Amount)
			tooBig = tooBig || o
		}
		if tooBig {
			res.Notes = append(res.Notes, "the host's deposits add up beyond 128 bits")
		}
		if total.IsZero() && !tooBig {
			// the host is done; the model expects nothing further
			res.Cls = "ok"
			_, sw = s.revSig(a.Second, hk, st.Revision, a.CurIDs)
			early = true
			return
		}
		rev, _, err := proto4.ReviseForReplenish(st.Revision, total)
		sp := a.Second
		if err != nil && sp.Kind == "h" {
			sp = SigSpec{Kind: "x"}
		}
		res.Honest = rev
		var sig types.Signature
		sig, sw = s.revSig(sp, hk, rev, a.CurIDs)
		if err != nil && a.Second.Kind == "h" {
			sw = "h"
		}
		var third proto4.RPCReplenishAccountsThirdResponse
		res.Cls = s.sendSecond(stream, a.Second.Kind, a.Bang, &proto4.RPCReplenishAccountsSecondResponse{RenterSignature: sig}, &third)
		if res.Cls == "ok" && a.Second.Kind == "h" && !st.Revision.HostPublicKey.VerifyHash(s.R.CM.TipState().ContractSigHash(rev), third.HostSignature) {
			res.Notes = append(res.Notes, "host signature on the replenish revision does not verify")
		}
	}()
	stream.End()
	res.Op = fmt.Sprintf("repl %s %d %s %s %s %s", kind, a.Cid, Ints(a.Accounts), a.Target.ExactString(), cw, secondWord(sw, a.Second, a.Bang, early))
	res.Impl = outLine(res.Cls, res.Vals, s.Events())
	return res
}

func (s *Sess) Attach(links []LinkSpec) Result {
	var req proto4.RPCAttachPoolsRequest
	w := []string{"attach"}
	for _, l := range links {
		a, lw := s.attachment(l)
		req.Attachments = append(req.Attachments, a)
		w = append(w, lw)
	}
	res := Result{}
	stream := s.R.Open()
	if err := stream.Request(proto4.RPCAttachPoolsID, &req); err != nil {
		res.Cls = "io"
	} else {
		var resp proto4.RPCAttachPoolsResponse
		res.Cls = ErrClass(stream.Recv(&resp))
	}
	stream.End()
	res.Op = strings.Join(w, " ")
	res.Impl = outLine(res.Cls, "", s.Events())
	return res
}

func (s *Sess) Detach(links []LinkSpec) Result {
	var req proto4.RPCDetachPoolsRequest
	w := []string{"detach"}
	for _, l := range links {
		d, lw := s.detachment(l)
		req.Detachments = append(req.Detachments, d)
		w = append(w, lw)
	}
	res := Result{}
	stream := s.R.Open()
	if err := stream.Request(proto4.RPCDetachPoolsID, &req); err != nil {
		res.Cls = "io"
	} else {
		var resp proto4.RPCDetachPoolsResponse
		res.Cls = ErrClass(stream.Recv(&resp))
	}
	stream.End()
	res.Op = strings.Join(w, " ")
	res.Impl = outLine(res.Cls, "", s.Events())
	return res
}

type ReadArgs struct {
	Prices      PriceSpec
	Token       TokenSpec
	Root        int
	Offset, Len uint64
}

func (s *Sess) Read(a ReadArgs) Result {
	prices, pw := s.Prices(a.Prices)
	tok, tw := s.Token(a.Token)
	req := proto4.RPCReadSectorRequest{Prices: prices, Token: tok, Root: RootHash(a.Root), Offset: a.Offset, Length: a.Len}
	res := Result{}
	stream := s.R.Open()
	func() {
		if err := stream.Request(proto4.RPCReadSectorID, &req); err != nil {
			res.Cls = "io"
			return
		}
		var resp proto4.RPCReadSectorResponse
		err := stream.Recv(&resp)
		res.Cls = ErrClass(err)
		if err != nil {
			return
		}
		res.Vals = strconv.FormatUint(resp.DataLength, 10)
		if resp.DataLength > proto4.SectorSize {
			res.Notes = append(res.Notes, "read response announces more than a sector")
			return
		}
		buf := make([]byte, resp.DataLength)
		if _, err := io.ReadFull(stream, buf); err != nil {
			res.Notes = append(res.Notes, "read response shorter than announced")
			return
		}
		res.Data = buf
		if a.Offset%proto4.LeafSize == 0 && a.Len%proto4.LeafSize == 0 && a.Len > 0 {
			start, end := a.Offset/proto4.LeafSize, (a.Offset+a.Len)/proto4.LeafSize
			rpv := proto4.NewRangeProofVerifier(start, end)
			if _, err := rpv.ReadFrom(bytes.NewReader(buf)); err != nil || !rpv.Verify(resp.Proof, req.Root) {
				res.Notes = append(res.Notes, "read proof does not verify")
			}
		}
	}()
	stream.End()
	res.Op = fmt.Sprintf("read %s %s %d %d %d", pw, tw, a.Root, a.Offset, a.Len)
	res.Impl = outLine(res.Cls, res.Vals, s.Events())
	return res
}

type WriteArgs struct {
	Prices PriceSpec
	Token  TokenSpec
	Len    uint64
	Sector int  // the sector whose first Len bytes are sent
	Short  bool // send fewer than Len bytes, then half-close
}

func (s *Sess) Write(a WriteArgs) Result {
	prices, pw := s.Prices(a.Prices)
	tok, tw := s.Token(a.Token)
	req := proto4.RPCWriteSectorRequest{Prices: prices, Token: tok, DataLength: a.Len}
	data, _ := Sector(a.Sector)
	res := Result{}
	stream := s.R.Open()
	func() {
		if err := stream.Request(proto4.RPCWriteSectorID, &req); err != nil {
			res.Cls = "io"
			return
		}
		n := a.Len
		if n > proto4.SectorSize {
			n = proto4.SectorSize
		}
		if a.Short {
			n /= 2
		}
		stream.Write(data[:n])
		if a.Short {
			stream.Conn.(halfCloser).CloseWrite()
		}
		var resp proto4.RPCWriteSectorResponse
		err := stream.Recv(&resp)
		res.Cls = ErrClass(err)
		if err == nil {
			res.Vals = strconv.Itoa(RootID(resp.Root))
		}
	}()
	stream.End()
	dw := strconv.Itoa(a.Sector)
	if a.Short {
		dw = "-"
	}
	res.Op = fmt.Sprintf("write %s %s %d %s", pw, tw, a.Len, dw)
	res.Impl = outLine(res.Cls, res.Vals, s.Events())
	return res
}

type VerifyArgs struct {
	Prices PriceSpec
	Token  TokenSpec
	Root   int
	Leaf   uint64
}

func (s *Sess) Verify(a VerifyArgs) Result {
	prices, pw := s.Prices(a.Prices)
	tok, tw := s.Token(a.Token)
	req := proto4.RPCVerifySectorRequest{Prices: prices, Token: tok, Root: RootHash(a.Root), LeafIndex: a.Leaf}
	res := Result{}
	stream := s.R.Open()
	func() {
		if err := stream.Request(proto4.RPCVerifySectorID, &req); err != nil {
			res.Cls = "io"
			return
		}
		var resp proto4.RPCVerifySectorResponse
		err := stream.Recv(&resp)
		res.Cls = ErrClass(err)
		if err == nil && !proto4.VerifyLeafProof(resp.Proof, resp.Leaf, a.Leaf, req.Root) {
			res.Notes = append(res.Notes, "verify-sector proof does not verify")
		}
	}()
	stream.End()
	res.Op = fmt.Sprintf("verify %s %s %d %d", pw, tw, a.Root, a.Leaf)
	res.Impl = outLine(res.Cls, "", s.Events())
	return res
}

func (s *Sess) Latest(cid int) (Result, proto4.RPCLatestRevisionResponse) {
	resp, err := rhp4.RPCLatestRevision(bg, s.R.T, s.CID(cid))
	s.R.T.WaitIdle()
	res := Result{Cls: ErrClass(err)}
	if err == nil {
		fc := resp.Contract
		res.Vals = fmt.Sprintf("%d,%s,%s,%s,%d,%d,%s,%s", fc.RevisionNumber, fc.RenterOutput.Value.ExactString(), fc.HostOutput.Value.ExactString(),
			fc.MissedHostValue.ExactString(), fc.Filesize/proto4.SectorSize, fc.Capacity/proto4.SectorSize, b2s(resp.Revisable), b2s(resp.Renewed))
	}
	res.Op = fmt.Sprintf("latest %d", cid)
	res.Impl = outLine(res.Cls, res.Vals, s.Events())
	return res, resp
}

func (s *Sess) Balance(acct int) Result {
	b, err := rhp4.RPCAccountBalance(bg, s.R.T, Acct(acct))
	s.R.T.WaitIdle()
	res := Result{Cls: ErrClass(err)}
	if err == nil {
		res.Vals = b.ExactString()
	}
	res.Op = fmt.Sprintf("balance %d", acct)
	res.Impl = outLine(res.Cls, res.Vals, s.Events())
	return res
}

// Garbage sends a truncated request of the given RPC and half-closes.
func (s *Sess) Garbage(id types.Specifier, o proto4.Object) Result {
	var buf bytes.Buffer
	proto4.WriteRequest(&buf, id, o)
	b := buf.Bytes()
	cut := 16 + (len(b)-16)/2
	res := Result{}
	stream := s.R.Open()
	stream.Write(b[:cut])
	stream.Conn.(halfCloser).CloseWrite()
	var resp proto4.RPCError
	err := stream.Recv(&resp)
	if err == nil {
		res.Cls = "ok"
	} else {
		res.Cls = ErrClass(err)
	}
	stream.End()
	res.Op = "garbage"
	res.Impl = outLine(res.Cls, "", s.Events())
	return res
}

// StoreSector puts a real sector into the host's store outside any RPC.
func (s *Sess) StoreSector(id int) (string, string) {
	d, r := Sector(id)
	s.R.SS.StoreSector(r, d, nil, 1<<40)
	return fmt.Sprintf("sector %d", id), "ok []"
}

// SetTip renders the current chain tip for the model.
func (s *Sess) TipLine() (string, string) {
	return fmt.Sprintf("tip %d", s.R.CM.Tip().Height), "ok []"
}

// FormLine renders a freshly formed contract for the model.
func (s *Sess) FormLine(cid int) (string, string) {
	st, _ := s.R.HostState(s.CID(cid))
	fc := st.Revision
	return fmt.Sprintf("form %d %s %d %d", cid, Body(fc, nil), KeyID(fc.RenterPublicKey), KeyID(fc.HostPublicKey)), "ok []"
}

// CaseHeader is the Model string of a host case.
func (s *Sess) CaseHeader() string {
	return fmt.Sprintf("rhp host %d %d %d", HostKeyID, ModelNow, s.R.CM.Tip().Height)
}

// client is the transport the real client is given: the rig's, or a recording wrapper around it.
func (s *Sess) client() rhp4.TransportClient {
	if s.Client != nil {
		return s.Client
	}
	return s.R.T
}

// Replay writes a recorded renter-side byte stream (everything the renter sent on one stream of an
// earlier RPC, all rounds) on a fresh stream, lets the host answer whatever it answers and waits
// until its handler has returned.  It reports how many bytes the host sent back.
func (s *Sess) Replay(sent []byte) int {
	st := s.R.Open()
	st.Write(sent)
	st.Conn.(halfCloser).CloseWrite()
	n := 0
	buf := make([]byte, 4096)
	for {
		k, err := st.Read(buf)
		n += k
		if err != nil {
			break
		}
	}
	st.End()
	s.R.Rec.Take()
	return n
}
