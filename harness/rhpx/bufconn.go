package rhpx

import (
	"io"
	"net"
	"os"
	"sync"
	"time"
)

// bufPipe returns the two ends of an in-memory, full-duplex stream whose writes never block
// (unbounded buffer per direction), like a TCP connection with large socket buffers.  net.Pipe is
// unsuitable: it is unbuffered, so a host writing an error response while the renter is still
// writing its next message would block both sides until the deadline.
func bufPipe() (net.Conn, net.Conn) {
	a2b, b2a := newHalf(), newHalf()
	return &bufConn{r: b2a, w: a2b}, &bufConn{r: a2b, w: b2a}
}

type half struct {
	mu     sync.Mutex
	cond   *sync.Cond
	buf    []byte
	wclose bool // writer closed: reader sees EOF after draining
	rclose bool // reader closed: writer gets ErrClosedPipe
}

func newHalf() *half {
	h := &half{}
	h.cond = sync.NewCond(&h.mu)
	return h
}

type bufConn struct {
	r, w *half

	mu        sync.Mutex
	rdeadline time.Time
	closed    bool
	timer     *time.Timer
}

type pipeAddr struct{}

func (pipeAddr) Network() string { return "bufpipe" }
func (pipeAddr) String() string  { return "bufpipe" }

func (c *bufConn) Read(p []byte) (int, error) {
	h := c.r
	h.mu.Lock()
	defer h.mu.Unlock()
	for {
		if h.rclose {
			return 0, io.ErrClosedPipe
		}
		if len(h.buf) > 0 {
			n := copy(p, h.buf)
			h.buf = h.buf[n:]
			return n, nil
		}
		if h.wclose {
			return 0, io.EOF
		}
		c.mu.Lock()
		dl := c.rdeadline
		c.mu.Unlock()
		if !dl.IsZero() && !time.Now().Before(dl) {
			return 0, os.ErrDeadlineExceeded
		}
		h.cond.Wait()
	}
}

func (c *bufConn) Write(p []byte) (int, error) {
	h := c.w
	h.mu.Lock()
	defer h.mu.Unlock()
	if h.wclose || h.rclose {
		return 0, io.ErrClosedPipe
	}
	h.buf = append(h.buf, p...)
	h.cond.Broadcast()
	return len(p), nil
}

func (c *bufConn) Close() error {
	c.mu.Lock()
	if c.closed {
		c.mu.Unlock()
		return nil
	}
	c.closed = true
	if c.timer != nil {
		c.timer.Stop()
	}
	c.mu.Unlock()
	c.w.mu.Lock()
	c.w.wclose = true
	c.w.cond.Broadcast()
	c.w.mu.Unlock()
	c.r.mu.Lock()
	c.r.rclose = true
	c.r.cond.Broadcast()
	c.r.mu.Unlock()
	return nil
}

// CloseWrite half-closes the stream: the peer reads EOF after draining, we can still read.
func (c *bufConn) CloseWrite() error {
	c.w.mu.Lock()
	c.w.wclose = true
	c.w.cond.Broadcast()
	c.w.mu.Unlock()
	return nil
}

func (c *bufConn) LocalAddr() net.Addr  { return pipeAddr{} }
func (c *bufConn) RemoteAddr() net.Addr { return pipeAddr{} }

func (c *bufConn) SetDeadline(t time.Time) error { return c.SetReadDeadline(t) }

func (c *bufConn) SetReadDeadline(t time.Time) error {
	c.mu.Lock()
	c.rdeadline = t
	if c.timer != nil {
		c.timer.Stop()
		c.timer = nil
	}
	if !t.IsZero() && !c.closed {
		d := time.Until(t)
		if d < 0 {
			d = 0
		}
		c.timer = time.AfterFunc(d, func() {
			c.r.mu.Lock()
			c.r.cond.Broadcast()
			c.r.mu.Unlock()
		})
	}
	c.mu.Unlock()
	return nil
}

func (c *bufConn) SetWriteDeadline(time.Time) error { return nil }
